import LhasaV.Lemmas.ExtractTreeAll7
/-!
# C06, option `i` TOGETHER with the other deviations (part 1): hypotheses, invariant, steps

`extract_unified` (ExtractTreeAll) covers wildcards × `w=DIR` × implicit parents × late directory
entries × overwrite policy for `usePath = true`; `run_tree_flat` (ExtractTreeOpt11) covers `i` alone
into an EMPTY place.  Here: `i` (`usePath = false`) with wildcards, `w=DIR`, pre-existing regular
files and the overwrite policy.

Under `i` every selected file / link lands directly in the base (`cwd` or `cwd/DIR`) under its own
name (`Entry.flat`), and a directory entry is ignored before anything is looked at.  So there is no
directory stack and no implicit parent below the base: the file-system invariant is `FsInvU`
(ExtractTreeAll1) with an empty stack over the FLATTENED entries written so far.

* `PreAtF fs₀ ds e`: the flattened place of `e` is free, or `e` is a regular file member and a
  regular file stands there (a LINK member over an old file is replaced without asking —
  `lha_arch_symlink` unlinks first: excluded, as in `PreAtU`).
* `AskedF`: some selected file member's flattened place is taken (only then the answers matter).
* `FlatInvU`: the loop invariant without the reader part.
* `entry_facts_flat`: `make_parent_directories` and the overwrite check for the next selected
  file / link — by `entry_facts_u` applied to the flattened entry.
* `step_write_flat`, `step_keep_flat`.
-/
namespace LhasaV.ExtractTree
open LhasaV LhasaV.Header LhasaV.Extract LhasaV.GlobFs LhasaV.Contain

theorem flat_isFile (e : Entry) : e.flat.isFile = e.isFile := by cases e <;> rfl

/-- what stands at the flattened place `base/name` of an entry before the run: nothing, or — for a
regular file member — a regular file -/
def PreAtF (fs0 : Fs.St) (ds : List Bytes) (e : Entry) : Prop :=
  oldB fs0 ds [e.namePart] = none ∨ (e.isFile = true ∧ isFileOpt (oldB fs0 ds [e.namePart]) = true)

instance (fs0 : Fs.St) (ds : List Bytes) (e : Entry) : Decidable (PreAtF fs0 ds e) :=
  inferInstanceAs (Decidable (_ ∨ _))

theorem preAtU_flat {fs0 : Fs.St} {ds : List Bytes} {e : Entry} (hd : e.isDir = false)
    (h : PreAtF fs0 ds e) : PreAtU fs0 ds e.flat := by
  unfold PreAtU
  rw [flat_path e hd, flat_isFile]
  rcases h with h | ⟨h1, h2⟩
  · left
    intro j hj
    have : j = 0 := by simpa using hj
    subst this
    exact h
  · exact Or.inr ⟨h1, rfl, h2⟩

/-- is there a selected file or link to come about which the policy will be asked? -/
def AskedF (fs0 : Fs.St) (ds : List Bytes) (sel : Entry → Bool) (es : List Entry) : Prop :=
  ∃ e ∈ es, sel e = true ∧ e.isDir = false ∧ isFileOpt (oldB fs0 ds [e.namePart]) = true

instance (fs0 : Fs.St) (ds : List Bytes) (sel : Entry → Bool) (es : List Entry) :
    Decidable (AskedF fs0 ds sel es) :=
  inferInstanceAs (Decidable (∃ e ∈ es, sel e = true ∧ e.isDir = false ∧
    isFileOpt (oldB fs0 ds [e.namePart]) = true))

theorem AskedF.cons {fs0 : Fs.St} {ds : List Bytes} {sel : Entry → Bool} {e : Entry} {es : List Entry}
    (h : AskedF fs0 ds sel es) : AskedF fs0 ds sel (e :: es) := by
  obtain ⟨x, hx, h⟩ := h
  exact ⟨x, List.mem_cons_of_mem _ hx, h⟩

/-- the flattening loop's invariant (without the reader): `doneF` = flattened entries WRITTEN so
far, `rest` = entries to come, `pol` / `ls` = policy in force and answer lines left -/
structure FlatInvU (fs0 : Fs.St) (ds : List Bytes) (sel : Entry → Bool) (doneF rest : List Entry)
    (pol : Overwrite) (ls : List Bytes) (s : Extract.St) : Prop where
  aborted : s.aborted = false
  result : s.result = true
  opts : OptsFlat s.opts ds
  filt : ∀ e, selected s.opts.filters e = sel e
  policy : s.opts.overwrite = pol
  ans : AskedF fs0 ds sel rest → AnsInv pol s.answers ls
  fs : FsPhU fs0 ds doneF [] s.fs
  ok : DoneI doneF []
  top : ∀ a ∈ doneF, a.path.length = 1
  entries : ∀ e ∈ rest, EntryOk e
  fresh : (doneF.map Entry.path ++
    (rest.filter (fun e => sel e && !e.isDir)).map (fun e => [e.namePart])).Nodup
  pre : ∀ e ∈ rest, sel e = true → e.isDir = false → PreAtF fs0 ds e

theorem FlatInvU.with_rd {fs0 : Fs.St} {ds : List Bytes} {sel : Entry → Bool} {doneF rest : List Entry}
    {pol : Overwrite} {ls : List Bytes} {s : Extract.St}
    (h : FlatInvU fs0 ds sel doneF rest pol ls s) (rd : Reader.St) :
    FlatInvU fs0 ds sel doneF rest pol ls { s with rd := rd } :=
  ⟨h.aborted, h.result, h.opts, h.filt, h.policy, h.ans, h.fs, h.ok, h.top, h.entries, h.fresh, h.pre⟩

theorem FlatInvU.answered {fs0 : Fs.St} {ds : List Bytes} {sel : Entry → Bool} {doneF rest : List Entry}
    {pol : Overwrite} {ls : List Bytes} {s : Extract.St}
    (h : FlatInvU fs0 ds sel doneF rest pol ls s) (pol' : Overwrite) (a' : Bytes) (ls' : List Bytes)
    (ha : AnsInv pol' a' ls') : FlatInvU fs0 ds sel doneF rest pol' ls' (answered s pol' a') :=
  ⟨h.aborted, h.result, ⟨h.opts.up, h.opts.xp, h.opts.names, h.opts.depth⟩, h.filt, rfl, fun _ => ha,
    h.fs, h.ok, h.top, h.entries, h.fresh, h.pre⟩

/-- an entry passed over (not selected, or a directory entry): the invariant for the tail -/
theorem FlatInvU.skip {fs0 : Fs.St} {ds : List Bytes} {sel : Entry → Bool} {doneF rest : List Entry}
    {pol : Overwrite} {ls : List Bytes} {s : Extract.St} {e : Entry}
    (h : FlatInvU fs0 ds sel doneF (e :: rest) pol ls s) (hno : (sel e && !e.isDir) = false) :
    FlatInvU fs0 ds sel doneF rest pol ls s := by
  have hfr := h.fresh
  simp only [List.filter_cons, hno, Bool.false_eq_true, if_false] at hfr
  exact ⟨h.aborted, h.result, h.opts, h.filt, h.policy, fun a => h.ans a.cons, h.fs, h.ok, h.top,
    fun x hx => h.entries x (List.mem_cons_of_mem _ hx), hfr,
    fun x hx => h.pre x (List.mem_cons_of_mem _ hx)⟩

/-- the flattened place of the next selected file / link is new among the written ones -/
theorem FlatInvU.new {fs0 : Fs.St} {ds : List Bytes} {sel : Entry → Bool} {doneF rest : List Entry}
    {pol : Overwrite} {ls : List Bytes} {s : Extract.St} {e : Entry}
    (hi : FlatInvU fs0 ds sel doneF (e :: rest) pol ls s) (hsel : sel e = true) (hd : e.isDir = false) :
    (∀ a ∈ doneF, ¬ e.flat.path <+: a.path) ∧ (∀ a ∈ doneF, ¬ a.path <+: e.flat.path) := by
  have hfresh := hi.fresh
  simp only [List.filter_cons, hsel, hd, Bool.not_false, Bool.and_self, if_true, List.map_cons] at hfresh
  have hnew : ∀ a ∈ doneF, a.path ≠ [e.namePart] := by
    intro a ha h
    exact (List.nodup_append.1 hfresh).2.2 _ (List.mem_map.2 ⟨a, ha, h⟩) _ List.mem_cons_self rfl
  rw [flat_path e hd]
  constructor
  · intro a ha hp
    exact hnew a ha (hp.eq_of_length_le (by rw [hi.top a ha]; simp)).symm
  · intro a ha hp
    exact hnew a ha (hp.eq_of_length_le (by rw [hi.top a ha]; simp))

/-- **the next selected file or link**: what `make_parent_directories` does (it makes `DIR` when
nothing was written yet; below the base there is nothing to make) and what the overwrite check
sees — `entry_facts_u` for the flattened entry -/
theorem entry_facts_flat {fs0 : Fs.St} {ds : List Bytes} {sel : Entry → Bool} {doneF rest : List Entry}
    {pol : Overwrite} {ls : List Bytes} {e : Entry} {s : Extract.St}
    (hi : FlatInvU fs0 ds sel doneF (e :: rest) pol ls s) (hb : BaseRefU fs0 ds)
    (hsel : sel e = true) (hd : e.isDir = false) :
    ∃ fsX fsY k,
      FsInvU (mkBase fs0 ds) ((mkBase fs0 ds).cwd ++ ds) doneF [] fsX ∧
      WalkIn fsX ds ∧
      ParentsMadeB (mkBase fs0 ds) ds fsX fsY e.flat.path.dropLast k ∧
      makeParentDirectories s.fs (fullOf (e.flat.reloc ds)) = (true, fsY) ∧
      Fs.lookup fsX ((mkBase fs0 ds).cwd ++ ds ++ e.flat.path) = oldB fs0 ds e.flat.path ∧
      Fs.existsKind s.fs (fullOf (e.flat.reloc ds)) =
        (if isFileOpt (oldB fs0 ds e.flat.path) then .file else .none) := by
  have hk : EntryOk e := hi.entries e (by simp)
  have hkf : EntryOk e.flat := entryOk_flat hk hd
  have hfp := flat_path e hd
  obtain ⟨hfresh, hopen⟩ := hi.new hsel hd
  have hdepth : ∀ x ∈ doneF ++ [e.flat], ds.length + x.path.length < 64 := by
    intro x hx
    have hd63 := hi.opts.depth
    rcases List.mem_append.1 hx with h | h
    · rw [hi.top x h]; omega
    · have : x = e.flat := by simpa using h
      rw [this, hfp]; simp; omega
  have hcore : CoreInvU fs0 ds (fun _ => true) doneF [] (doneF.map Entry.path) [e.flat] pol ls
      { s with opts := { s.opts with usePath := true, filters := [] } } := by
    refine ⟨hi.aborted, hi.result, ⟨rfl, hi.opts.xp, hi.opts.names⟩, fun _ => rfl, hi.policy, ?_, hi.fs, hi.ok,
      fun a ha => List.mem_map.2 ⟨a, ha, rfl⟩, fun _ _ => rfl, ?_, ?_, ?_, hdepth⟩
    · rintro ⟨x, hx, _, hf⟩
      have : x = e.flat := by simpa using hx
      subst this
      rw [hfp] at hf
      exact hi.ans ⟨e, by simp, hsel, hd, hf⟩
    · intro p hp
      obtain ⟨a, ha, rfl⟩ := List.mem_map.1 hp
      exact Or.inl ⟨a, ha, rfl⟩
    · have hl : lateDir (doneF.map Entry.path) e.flat = false :=
        lateDir_nodir _ _ (by rw [flat_isDir]; exact hd)
      simp only [WFU, if_true, hl, Bool.false_eq_true, if_false, and_true]
      refine ⟨hkf, ?_, ?_⟩
      · intro p hp hpe
        obtain ⟨a, ha, rfl⟩ := List.mem_map.1 hp
        exact absurd hpe (hopen a ha)
      · intro p hp hpe
        obtain ⟨a, ha, rfl⟩ := List.mem_map.1 hp
        exact hfresh a ha hpe
    · intro x hx _
      have : x = e.flat := by simpa using hx
      subst this
      exact preAtU_flat hd (hi.pre e (by simp) hsel hd)
  obtain ⟨fsX, fsY, k, h1, h2, h3, h4, h5, h6, _⟩ := entry_facts_u hcore hb rfl hkf
    (fun a ha h => absurd h (hopen a ha)) hfresh
  exact ⟨fsX, fsY, k, h1, h2, h3, h4, h5, h6⟩

/-- `extract_archived_file` for a file or link under `i`, once the check said "go on" -/
theorem eaf_wroteF (s s' : Extract.St) (h : Hdr) (fsY : Fs.St) (hp : preOf s h = some (false, s'))
    (hnd : isDirEntry h = false)
    (hpar : parentsOf s' (fileFullPath h s.opts) = (true, fsY)) :
    extractArchivedFile s h = wroteU s' fsY (fileFullPath h s.opts) := by
  rw [eaf_eq, hp]
  simp only [hnd, Bool.false_eq_true, and_false, if_false, hpar, Bool.not_true]
  rfl

theorem isDirEntry_nodir {e : Entry} {h : Hdr} (hh : HdrOf e h) (hd : e.isDir = false) :
    isDirEntry h = false := by
  cases e with
  | dir _ _ _ => cases hd
  | file _ _ _ _ => exact isDirEntry_file hh.2.2.1
  | link _ t =>
    obtain ⟨_, _, _, hs⟩ := hh
    unfold isDirEntry; simp [hs]

/-- **a selected file or link is written** at `base/name`: at a free place, or over an old
regular file after `confirm_file_overwrite` said yes -/
theorem step_write_flat {fs0 : Fs.St} {ds : List Bytes} {sel : Entry → Bool} {doneF rest : List Entry}
    {pol : Overwrite} {ls : List Bytes} {e : Entry} (s' : Extract.St) (c : Reader.HObj)
    (fsX fsY : Fs.St) (k : Nat)
    (hi : FlatInvU fs0 ds sel doneF (e :: rest) pol ls s') (hb : BaseRefU fs0 ds)
    (hsel : sel e = true) (hd : e.isDir = false)
    (hX : FsInvU (mkBase fs0 ds) ((mkBase fs0 ds).cwd ++ ds) doneF [] fsX) (hwX : WalkIn fsX ds)
    (hpm : ParentsMadeB (mkBase fs0 ds) ds fsX fsY e.flat.path.dropLast k)
    (hlook : Fs.lookup fsX ((mkBase fs0 ds).cwd ++ ds ++ e.flat.path) = oldB fs0 ds e.flat.path)
    (hpol : s'.rd.policy = .endOfDir) (hty : s'.rd.currType = .normal) (hcur : s'.rd.curr = some c)
    (hh : HdrOf e c.h)
    (hdec : ∀ p data perms mtime, e = .file p data perms mtime →
      (Reader.openDecoder s'.rd).1 = true ∧ (Reader.extract s'.rd true).1 = (true, data)) :
    FlatInvU fs0 ds sel (doneF ++ [e.flat]) rest pol ls (wroteU s' fsY (fullOf (e.flat.reloc ds))) ∧
    RdKept s'.rd (wroteU s' fsY (fullOf (e.flat.reloc ds))).rd ∧
    (wroteU s' fsY (fullOf (e.flat.reloc ds))).rd.dirStack = s'.rd.dirStack := by
  have hk : EntryOk e := hi.entries e (by simp)
  have hkf : EntryOk e.flat := entryOk_flat hk hd
  have hfp := flat_path e hd
  obtain ⟨hfresh, hopen⟩ := hi.new hsel hd
  have hnds := hi.opts.names
  have hdep : ds.length + e.flat.path.length < 64 := by rw [hfp]; have := hi.opts.depth; simp; omega
  have hpre : PreAtU fs0 ds e.flat := preAtU_flat hd (hi.pre e (by simp) hsel hd)
  obtain ⟨u1, _, _, u4, _⟩ := after_parentsU hX.params hb.acc1 hpm
  have hpY : SameParams (mkBase fs0 ds) fsY := hX.params.trans hpm.made.params
  have hkeptY : DirsKept fsX fsY := hpm.made.kept (fun q hq hqb => by
    have := hpm.missing q hq hqb
    rw [hX.params.cwd, ← List.append_assoc (mkBase fs0 ds).cwd, List.append_assoc ((mkBase fs0 ds).cwd ++ ds)]
    exact this)
  have hwY : WalkIn fsY ds := walkIn_kept hkeptY hwX
  have hwi : WalkIn fsY (ds ++ e.flat.path.dropLast) := walkIn_below hpY hwY u1
  have pf := pathFacts_rel hkf hnds hdep
  have hg : ∀ x ∈ ds ++ e.flat.path, Good x := by
    have := names_good (entryOk_reloc hkf hnds hdep).names; rwa [reloc_path] at this
  have hwk : Walk fsY fsY.cwd (ds ++ e.flat.path) := by
    intro pre hp1' hne1
    have := prefix_dropLast pre _ hp1' hne1
    rw [List.dropLast_append_of_ne_nil hkf.ne] at this
    exact hwi pre this
  have hT : Target fsY (fullOf (e.flat.reloc ds)) (ds ++ e.flat.path) :=
    ⟨pf.rel, pf.comps, by simp [hkf.ne], hg, by rw [List.length_append]; exact hdep, hwk⟩
  have hsameY : Fs.lookup fsY (fsY.cwd ++ (ds ++ e.flat.path)) = oldB fs0 ds e.flat.path := by
    rw [hpY.cwd, ← List.append_assoc, u4 _ (fun q hq heq => by
      have h1 := congrArg List.length (List.append_cancel_left heq)
      have h2 := hq.length_le
      rw [List.length_dropLast] at h2
      have : 0 < e.flat.path.length := List.length_pos_iff.2 hkf.ne
      omega)]
    exact hlook
  have hmod : Fs.canModify fsY (fsY.cwd ++ (ds ++ e.flat.path)).dropLast = true := by
    rw [List.dropLast_append_of_ne_nil (by simp [hkf.ne]), List.dropLast_append_of_ne_nil hkf.ne]
    exact (u1 _ (List.prefix_refl _)).modify hpY
  -- `lha_reader_extract` writes the entry: only kind, permissions and time of the header matter
  obtain ⟨r1, rk, rstack, rc⟩ : (readerExtract s'.rd fsY (fullOf (e.flat.reloc ds))).1 = true ∧
      RdKept s'.rd (readerExtract s'.rd fsY (fullOf (e.flat.reloc ds))).2.1 ∧
      (readerExtract s'.rd fsY (fullOf (e.flat.reloc ds))).2.1.dirStack = s'.rd.dirStack ∧
      Created fsY (readerExtract s'.rd fsY (fullOf (e.flat.reloc ds))).2.2 (fsY.cwd ++ (ds ++ e.flat.path))
        (e.opened fsY.now fsY.umask) := by
    rcases hpre with hnone | ⟨hfile, _, hfo⟩
    · have hn := free_of_take hnone e.flat.path hkf.ne (List.prefix_refl _)
      have := entry_created_at s'.rd fsY _ c e (ds ++ e.flat.path) hty hcur hpol hh hk hT
        (hsameY.trans hn) hmod hdec
      rw [hd] at this
      exact this
    · obtain ⟨d0, m0, t0, ho⟩ := (isFileOpt_iff _).1 hfo
      rw [flat_isFile] at hfile
      obtain ⟨p, data, perms, mtime, rfl⟩ := (isFile_iff e).1 hfile
      exact file_over_created s'.rd fsY _ c (ds ++ (Entry.file p data perms mtime).flat.path) p data perms mtime
        hty hcur hpol hh hk hT d0 m0 t0 (hsameY.trans ho) hmod (hdec p data perms mtime rfl)
  rw [hpY.cwd, hpY.now, hpY.umask, ← List.append_assoc, opened_eq_final e hd, ← flat_final] at rc
  unfold wroteU
  refine ⟨⟨hi.aborted, ?_, hi.opts, hi.filt, hi.policy, fun h => hi.ans h.cons, ?_, ?_, ?_,
    fun x hx => hi.entries x (List.mem_cons_of_mem _ hx), ?_,
    fun x hx => hi.pre x (List.mem_cons_of_mem _ hx)⟩, rk, rstack⟩
  · show (s'.result && _) = true
    rw [hi.result, r1]; rfl
  · show FsPhU fs0 ds (doneF ++ [e.flat]) [] (readerExtract s'.rd fsY _).2.2
    refine Or.inr ⟨by simp, ?_⟩
    apply hX.step hb.acc1 hkf.ne (fun a had => (hi.ok.ok a had).ne) hfresh hpm
    · simpa using rc
    · intro p _; exact Iff.rfl
  · have := doneI_push hi.ok hkf hfresh (fun a ha h => absurd h (hopen a ha))
    rw [flat_isDir, hd] at this
    exact this
  · intro a ha
    rcases List.mem_append.1 ha with h | h
    · exact hi.top a h
    · have : a = e.flat := by simpa using h
      rw [this, hfp]; rfl
  · have hfr := hi.fresh
    simp only [List.filter_cons, hsel, hd, Bool.not_false, Bool.and_self, if_true, List.map_cons] at hfr
    rw [List.map_append, List.map_singleton, hfp, List.append_assoc]
    exact hfr

/-- **`confirm_file_overwrite` said no**: nothing changes, the name stays as it was -/
theorem step_keep_flat {fs0 : Fs.St} {ds : List Bytes} {sel : Entry → Bool} {doneF rest : List Entry}
    {pol : Overwrite} {ls : List Bytes} {e : Entry} (s' : Extract.St)
    (hi : FlatInvU fs0 ds sel doneF (e :: rest) pol ls s') :
    FlatInvU fs0 ds sel doneF rest pol ls { s' with out := "skipped" :: s'.out } := by
  have hfr := hi.fresh
  have hsub : (doneF.map Entry.path ++ (rest.filter (fun e => sel e && !e.isDir)).map (fun e => [e.namePart])).Sublist
      (doneF.map Entry.path ++ ((e :: rest).filter (fun e => sel e && !e.isDir)).map (fun e => [e.namePart])) := by
    apply List.Sublist.append_left
    apply List.Sublist.map
    exact List.Sublist.filter _ (List.sublist_cons_self e rest)
  exact ⟨hi.aborted, hi.result, hi.opts, hi.filt, hi.policy, fun a => hi.ans a.cons, hi.fs, hi.ok, hi.top,
    fun x hx => hi.entries x (List.mem_cons_of_mem _ hx), hfr.sublist hsub,
    fun x hx => hi.pre x (List.mem_cons_of_mem _ hx)⟩

end LhasaV.ExtractTree
