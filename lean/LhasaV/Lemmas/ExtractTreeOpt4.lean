import LhasaV.Lemmas.ExtractTreeOpt3
/-!
# C06 with options (part 4): creating the relocation directory

`BaseOk fs₀ ds k`: before the run, the first `k` components of `w=d₁/…/dₙ` exist as directories
the user may walk through, the `k`-th being writable; the others do not exist; nothing exists
below the place of `DIR` (`k = n`: `DIR` exists and is an empty writable directory; `k < n`: it
does not exist).  `mkDirs_base`: `make_parent_directories` then succeeds and creates the missing
directories with mode 0755 under the umask (`MadeFrom`); on the result it is a no-op.
-/
namespace LhasaV.ExtractTree
open LhasaV LhasaV.Header LhasaV.Extract LhasaV.GlobFs LhasaV.Contain

/-- the user may also use the directories `make_parent_directories` creates (0755) -/
def AccessW (fs0 : Fs.St) : Prop :=
  fs0.root = true ∨ (OwnerRWX fs0.umask ∧
    (0o755 - (0o755 &&& fs0.umask)) / 64 % 2 = 1 ∧ (0o755 - (0o755 &&& fs0.umask)) / 128 % 2 = 1)

theorem AccessW.access {fs0 : Fs.St} (h : AccessW fs0) : Access fs0 := by
  rcases h with h | h
  · exact Or.inl h
  · exact Or.inr h.1

theorem accessW_root (fs0 : Fs.St) (h : fs0.root = true) : AccessW fs0 := Or.inl h

theorem accessW_user_022 (fs0 : Fs.St) (h : fs0.umask = 0o022) : AccessW fs0 := by
  right; rw [h]; exact ⟨ownerRWX_022, by decide, by decide⟩

/-- every prefix of `w` (itself included), taken from the working directory, is a directory the
user may walk through -/
def WalkIn (fs : Fs.St) (w : List Bytes) : Prop :=
  ∀ pre, pre <+: w → ∃ m t, Fs.lookup fs (fs.cwd ++ pre) = some (.dir m t) ∧ (fs.root = true ∨ m / 64 % 2 = 1)

theorem WalkIn.walk {fs : Fs.St} {w : List Bytes} (h : WalkIn fs w) (c : Bytes) : Walk fs fs.cwd (w ++ [c]) := by
  intro pre hp hne
  have := prefix_dropLast pre _ hp hne
  rw [List.dropLast_concat] at this
  exact h pre this

theorem WalkIn.walk_self {fs : Fs.St} {w : List Bytes} (h : WalkIn fs w) : Walk fs fs.cwd w :=
  fun pre hp _ => h pre hp

theorem joinDir_snoc (w : List Bytes) (c : Bytes) : joinDir w ++ c ++ [0x2f] = joinDir (w ++ [c]) := by
  rw [joinDir_append]; simp [joinDir]

/-- "w₁/…/wₖ/c" is a `Target` at `w ++ [c]` -/
theorem target_step {fs : Fs.St} {w : List Bytes} {c : Bytes} (hn : ∀ x ∈ w ++ [c], Name x)
    (hlen : (w ++ [c]).length < 64) (hw : WalkIn fs w) : Target fs (joinDir w ++ c) (w ++ [c]) := by
  rw [joinDir_name]
  exact ⟨joinPath_rel _ hn, comps_joinPath _ hn (by simp), by simp, names_good hn, hlen, hw.walk c⟩

/-! ## the part that exists -/

theorem mkDirs_exist : ∀ (a w : List Bytes) (fs : Fs.St), (∀ x ∈ w ++ a, Name x) → (w ++ a).length < 64 →
    WalkIn fs (w ++ a) → mkDirs a (joinDir w) fs = (true, fs) := by
  intro a
  induction a with
  | nil => intro w fs _ _ _; rfl
  | cons c a ih =>
    intro w fs hn hlen hw
    have hwa : w ++ c :: a = (w ++ [c]) ++ a := by simp
    have hpre : (w ++ [c]) <+: w ++ c :: a := by rw [hwa]; exact List.prefix_append _ _
    have hT : Target fs (joinDir w ++ c) (w ++ [c]) :=
      target_step (fun x hx => hn x (hpre.subset hx)) (Nat.lt_of_le_of_lt hpre.length_le hlen)
        (fun pre hp => hw pre (hp.trans ((List.prefix_append w [c]).trans hpre)))
    obtain ⟨m, t, hl, _⟩ := hw (w ++ [c]) hpre
    have hck : checkParentDirectory fs (joinDir w ++ c) = (true, fs) := by
      unfold checkParentDirectory
      rw [existsKind_dir hT m t hl]
    simp only [mkDirs, hck, Bool.not_true, Bool.false_eq_true, if_false]
    rw [joinDir_snoc]
    exact ih (w ++ [c]) fs (by rw [← hwa]; exact hn) (by rw [← hwa]; exact hlen) (by rw [← hwa]; exact hw)

/-! ## the part that is created -/

/-- `fs'` is `fs` with the directories `w ++ q` (`q` a non-empty prefix of `b`) created below the
existing directory `w`, which is stamped -/
structure MadeFrom (fs fs' : Fs.St) (w b : List Bytes) : Prop where
  params : SameParams fs fs'
  made : ∀ q, q ≠ [] → q <+: b →
    Fs.lookup fs' (fs.cwd ++ w ++ q) = some (.dir (0o755 - (0o755 &&& fs.umask)) fs.now)
  stamp : b ≠ [] → fs.cwd ++ w ≠ [] → ∀ m t, Fs.lookup fs (fs.cwd ++ w) = some (.dir m t) →
    Fs.lookup fs' (fs.cwd ++ w) = some (.dir m fs.now)
  frame : ∀ x, x ≠ fs.cwd ++ w → (∀ q, q ≠ [] → q <+: b → x ≠ fs.cwd ++ w ++ q) →
    Fs.lookup fs' x = Fs.lookup fs x
  same : b = [] → fs' = fs

theorem len_ne {α} {a b : List α} (h : a.length ≠ b.length) : a ≠ b := fun e => h (by rw [e])

theorem canModify_of_dir (fs : Fs.St) (p : Fs.Path) (m t : Nat) (hl : Fs.lookup fs p = some (.dir m t))
    (h : fs.root = true ∨ (m / 64 % 2 = 1 ∧ m / 128 % 2 = 1)) : Fs.canModify fs p = true := by
  unfold Fs.canModify
  rw [hl]
  rcases h with h | h
  · simp [h]
  · simp [h.1, h.2]

theorem mkDirs_make : ∀ (b w : List Bytes) (fs : Fs.St), AccessW fs → (∀ x ∈ w ++ b, Name x) → (w ++ b).length < 64 →
    WalkIn fs w → Fs.canModify fs (fs.cwd ++ w) = true →
    (∀ q, q ≠ [] → q <+: b → Fs.lookup fs (fs.cwd ++ w ++ q) = none) →
    ∃ fs', mkDirs b (joinDir w) fs = (true, fs') ∧ MadeFrom fs fs' w b := by
  intro b
  induction b with
  | nil =>
    intro w fs _ _ _ _ _ _
    exact ⟨fs, rfl, SameParams.refl fs, fun q h1 h2 => absurd (List.prefix_nil.1 h2) h1,
      fun h => absurd rfl h, fun _ _ _ => rfl, fun _ => rfl⟩
  | cons c b ih =>
    intro w fs hacc hn hlen hw hmod hmiss
    have hwa : w ++ c :: b = (w ++ [c]) ++ b := by simp
    have hpre : (w ++ [c]) <+: w ++ c :: b := by rw [hwa]; exact List.prefix_append _ _
    have hT : Target fs (joinDir w ++ c) (w ++ [c]) :=
      target_step (fun x hx => hn x (hpre.subset hx)) (Nat.lt_of_le_of_lt hpre.length_le hlen) hw
    have hq : fs.cwd ++ (w ++ [c]) = fs.cwd ++ w ++ [c] := by simp
    have hnone : Fs.lookup fs (fs.cwd ++ (w ++ [c])) = none := by
      rw [hq]; exact hmiss [c] (by simp) (by simp)
    have hdl : (fs.cwd ++ (w ++ [c])).dropLast = fs.cwd ++ w := by
      rw [← List.append_assoc, List.dropLast_concat]
    obtain ⟨hm1, hcr⟩ := mkdir_new hT hnone (by rw [hdl]; exact hmod) 0o755
    have hmode : (0o755 : Nat) % 4096 = 0o755 := by decide
    rw [hmode] at hcr
    have hck : checkParentDirectory fs (joinDir w ++ c) = (true, (Fs.mkdir fs (joinDir w ++ c) 0o755).2) := by
      unfold checkParentDirectory
      rw [existsKind_none hT hnone, ← hm1]
    generalize (Fs.mkdir fs (joinDir w ++ c) 0o755).2 = fs1 at hcr hck
    have hp1 := hcr.params
    have hkept := hcr.dirsKept hnone
    -- the new directory can be used
    have hnew : Fs.lookup fs1 (fs.cwd ++ (w ++ [c])) = some (.dir (0o755 - (0o755 &&& fs.umask)) fs.now) := hcr.self
    have hbits : fs.root = true ∨ ((0o755 - (0o755 &&& fs.umask)) / 64 % 2 = 1 ∧
        (0o755 - (0o755 &&& fs.umask)) / 128 % 2 = 1) := by
      rcases hacc with h | h
      · exact Or.inl h
      · exact Or.inr h.2
    have hw1 : WalkIn fs1 (w ++ [c]) := by
      intro pre hp
      by_cases he : pre = w ++ [c]
      · subst he
        refine ⟨_, _, by rw [hp1.cwd]; exact hnew, ?_⟩
        rw [hp1.root]
        rcases hbits with h | h
        · exact Or.inl h
        · exact Or.inr h.1
      · have := prefix_dropLast pre _ hp he
        rw [List.dropLast_concat] at this
        obtain ⟨m, t, hl, hs⟩ := hw pre this
        obtain ⟨t', hl'⟩ := hkept.2.2 _ m t hl
        exact ⟨m, t', by rw [hp1.cwd]; exact hl', by rw [hp1.root]; exact hs⟩
    have hmod1 : Fs.canModify fs1 (fs1.cwd ++ (w ++ [c])) = true := by
      rw [hp1.cwd]
      exact canModify_of_dir fs1 _ _ _ hnew (by rw [hp1.root]; exact hbits)
    have hmiss1 : ∀ q, q ≠ [] → q <+: b → Fs.lookup fs1 (fs1.cwd ++ (w ++ [c]) ++ q) = none := by
      intro q hq0 hqb
      have hlq : 0 < q.length := List.length_pos_iff.2 hq0
      rw [hp1.cwd, hcr.frame _ (len_ne (by simp <;> omega)) (len_ne (by rw [hdl]; simp <;> omega))]
      have := hmiss (c :: q) (by simp) (List.cons_prefix_cons.2 ⟨rfl, hqb⟩)
      simpa using this
    have hacc1 : AccessW fs1 := by
      unfold AccessW; rw [hp1.root, hp1.umask]; exact hacc
    obtain ⟨fs', hrun, hmade⟩ := ih (w ++ [c]) fs1 hacc1 (by rw [← hwa]; exact hn)
      (by rw [← hwa]; exact hlen) hw1 hmod1 hmiss1
    refine ⟨fs', ?_, ?_⟩
    · simp only [mkDirs, hck, Bool.not_true, Bool.false_eq_true, if_false]
      rw [joinDir_snoc]; exact hrun
    · have hframe := hmade.frame
      have hmd := hmade.made
      have hst := hmade.stamp
      rw [hp1.cwd] at hframe
      rw [hp1.cwd, hp1.umask, hp1.now] at hmd
      rw [hp1.cwd, hp1.now] at hst
      refine ⟨hp1.trans hmade.params, ?_, ?_, ?_, fun h => by cases h⟩
      · intro q hq0 hqb
        cases q with
        | nil => exact absurd rfl hq0
        | cons x q =>
          obtain ⟨rfl, hqb'⟩ := List.cons_prefix_cons.1 hqb
          by_cases hq : q = []
          · subst hq
            by_cases hb : b = []
            · rw [hmade.same hb, ← hq]; exact hnew
            · rw [← hq]
              exact hst hb (by simp) _ _ hnew
          · have := hmd q hq hqb'
            simpa using this
      · intro _ hne m t hl
        have h1 := hcr.parent m t (by rw [hdl]; exact hl) (by rw [hdl]; exact hne)
        rw [hdl] at h1
        rw [hframe _ (len_ne (by simp)) (fun q _ _ => len_ne (by simp <;> omega))]
        exact h1
      · intro x hx1 hx2
        have hxc : x ≠ fs.cwd ++ (w ++ [c]) := by rw [hq]; exact hx2 [c] (by simp) (by simp)
        rw [hframe x hxc (fun q hq0 hqb => by
          have := hx2 (c :: q) (by simp) (List.cons_prefix_cons.2 ⟨rfl, hqb⟩)
          simpa using this)]
        exact hcr.frame x hxc (by rw [hdl]; exact hx1)

end LhasaV.ExtractTree
