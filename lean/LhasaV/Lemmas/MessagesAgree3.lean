import LhasaV.Lemmas.MessagesAgree2
import LhasaV.Lemmas.ToolNoFaultT
/-!
Agreement of the two extraction models, part 3: the loops.  `Rel m e`: the states of
`Messages.loop .extract` and `Extract.extractLoop` correspond (reader, file system, abort flag,
`e.result = m.result && !m.fault`, and — while not aborted — options and unread answers);
`step_rel`, `loop_agree`: the loops keep `Rel`, provided every member in the trace of the
message-bearing loop meets `NoTrail` (`trace_mono`: the trace only grows).
-/
namespace LhasaV.MessagesAgree
open LhasaV LhasaV.Header LhasaV.Extract LhasaV.Messages

/-- the two loop states, compared -/
structure Rel (m : Messages.St) (e : Extract.St) : Prop where
  rd : e.rd = m.x.rd
  fs : e.fs = m.x.fs
  ab : e.aborted = m.aborted
  res : e.result = (m.result && !m.fault)
  opts : m.aborted = false → e.opts = m.x.opts
  answers : m.aborted = false → e.answers = m.x.answers

/-- options that build the same paths -/
structure SamePath (o o' : Opts) : Prop where
  xp : o'.extractPath = o.extractPath
  up : o'.usePath = o.usePath

theorem fullPath_same {o o' : Opts} (h : SamePath o o') (hd : Hdr) : fileFullPath hd o' = fileFullPath hd o := by
  unfold fileFullPath; rw [h.xp, h.up]

theorem extractEntry_opts_same (x : XSt) (h : Hdr) :
    (extractEntry x h).2.opts.dryRun = x.opts.dryRun ∧ SamePath x.opts (extractEntry x h).2.opts := by
  unfold extractEntry
  dsimp only
  repeat' split
  all_goals first
    | exact ⟨rfl, rfl, rfl⟩
    | (rw [MessagesProps.extractBody_opts]; exact ⟨rfl, rfl, rfl⟩)

theorem step_rel {m : Messages.St} {e : Extract.St} (hR : Rel m e) (ha : m.aborted = false)
    (hd : m.x.opts.dryRun = false) (h : Hdr) (hc : ∀ c, m.x.rd.curr = some c → c.h = h)
    (hs : NoTrail m.x.opts h) (hp : PromptOk m.x.opts.overwrite m.x.answers) :
    Rel (step .extract m h) (extractArchivedFile e h) := by
  obtain ⟨h1, h2, h3, h4, h5, h6⟩ := hR
  have h7 := h5 ha
  have h8 := h6 ha
  clear h5 h6
  rw [ha] at h3
  obtain ⟨erd, efs, eo, ea, er, eab, eout⟩ := e
  dsimp only at h1 h2 h3 h4 h7 h8
  subst h1 h2 h3 h7 h8
  have A := entry_agree m.x h er eout hc hs hp
  unfold step
  dsimp only
  rw [if_neg (by simp [hd])]
  refine ⟨A.rd, A.fs, A.ab, ?_, A.opts, A.answers⟩
  rw [A.res, h4]
  simp only [record]
  cases m.result <;> cases m.fault <;> cases (extractEntry m.x h).1.ok <;> rfl

theorem trace_mono (cmd : Cmd) : ∀ (fuel : Nat) (m : Messages.St) (t : Hdr × Bool), t ∈ m.trace →
    t ∈ (loop cmd fuel m).trace := by
  intro fuel
  induction fuel with
  | zero => intro m t h; exact h
  | succ n ih =>
    intro m t h
    unfold loop
    split
    · exact h
    · split
      · exact h
      · exact h
      · split
        · exact ih _ _ h
        · apply ih
          obtain ⟨v, hv⟩ := MessagesProps.step_trace cmd { m with x := { m.x with rd := _ } } _
          rw [hv]
          exact List.mem_cons_of_mem _ h

/-- **the two extraction loops run in lock-step** -/
theorem loop_agree (o : Opts) : ∀ (fuel : Nat) (m : Messages.St) (e : Extract.St), Rel m e →
    PromptOk m.x.opts.overwrite m.x.answers → m.x.opts.dryRun = false → SamePath o m.x.opts →
    (∀ t ∈ (loop .extract fuel m).trace, NoTrail o t.1) →
    Rel (loop .extract fuel m) (extractLoop fuel e) := by
  intro fuel
  induction fuel with
  | zero => intro m e hR _ _ _ _; exact hR
  | succ n ih =>
    intro m e hR hp hd hsp hT
    unfold loop at hT ⊢
    unfold extractLoop
    by_cases ha : m.aborted = true
    · have hea : e.aborted = true := by rw [hR.ab]; exact ha
      rw [if_pos ha, if_pos hea]; exact hR
    · have ha' : m.aborted = false := by simpa using ha
      have hea : ¬ e.aborted = true := by rw [hR.ab]; exact ha
      rw [if_neg ha] at hT
      rw [if_neg ha, if_neg hea, hR.rd]
      cases hn : Reader.next m.x.rd with
      | error w => dsimp only; exact ⟨rfl, hR.fs, hR.ab, by simp, hR.opts, hR.answers⟩
      | ok r =>
        obtain ⟨oc, rd⟩ := r
        cases oc with
        | none => dsimp only; exact ⟨rfl, hR.fs, hR.ab, hR.res, hR.opts, hR.answers⟩
        | some c =>
          rw [hn] at hT
          dsimp only at hT ⊢
          have hfe : e.opts.filters = m.x.opts.filters := by rw [hR.opts ha']
          rw [hfe]
          have hR' : Rel { m with x := { m.x with rd := rd } } { e with rd := rd } :=
            ⟨rfl, hR.fs, hR.ab, hR.res, hR.opts, hR.answers⟩
          by_cases hf : (!Glob.matchesFilter m.x.opts.filters c.h) = true
          · rw [if_pos hf] at hT
            rw [if_pos hf, if_pos hf]
            exact ih _ _ hR' hp hd hsp hT
          · rw [if_neg hf] at hT
            rw [if_neg hf, if_neg hf]
            obtain ⟨v, hv⟩ := MessagesProps.step_trace .extract { m with x := { m.x with rd := rd } } c.h
            have hns : NoTrail o c.h :=
              hT (c.h, v) (trace_mono _ _ _ _ (by rw [hv]; exact List.mem_cons_self))
            have hns' : NoTrail m.x.opts c.h := by
              unfold NoTrail at hns ⊢; rw [fullPath_same hsp]; exact hns
            obtain ⟨_, _, _, hcur⟩ := Contain.next_some hn
            have hc : ∀ c', rd.curr = some c' → c'.h = c.h := by
              intro c' h'; rw [hcur] at h'; cases h'; rfl
            have hop := extractEntry_opts_same { m.x with rd := rd } c.h
            refine ih _ _ (step_rel hR' ha' hd c.h hc hns' hp) ?_ ?_ ?_ hT
            · simp only [step, if_neg (show ¬ m.x.opts.dryRun = true by simp [hd]), record]
              exact entry_prompt { m.x with rd := rd } c.h hp
            · simp only [step, if_neg (show ¬ m.x.opts.dryRun = true by simp [hd]), record]
              rw [hop.1]; exact hd
            · simp only [step, if_neg (show ¬ m.x.opts.dryRun = true by simp [hd]), record]
              exact ⟨hop.2.xp.trans hsp.xp, hop.2.up.trans hsp.up⟩

end LhasaV.MessagesAgree
