import LhasaV.Lemmas.ReaderAllocHdr7
/-!
# Allocation-aware header parser, part 8: `readA_blocks`

Whatever the oracle answers: a header that is read holds exactly `1 + nstr h` blocks (the object and
its strings) and no allocation failed on the way; a read that fails has released everything it
allocated.
-/
set_option linter.unusedSimpArgs false

namespace LhasaV.Alloc
open LhasaV LhasaV.Header

section
variable {o : Oracle} {b : Nat} {f0 : List Site}

set_option maxHeartbeats 1000000 in
theorem readBodyA_spec (mk : Nat → Nat) (inp : Bytes) :
    Spec o b f0 0 (readBodyA o mk inp) (fun r k' => k' = nstr r.1) := by
  unfold readBodyA
  simp only [failH_bind, liftR_fault_bind, pure_bind']
  refine Spec.bind (Spec.liftR (h := {}) rfl _) (fun x k1 hq => ?_)
  obtain ⟨he, rfl⟩ := hq
  obtain ⟨h1, inp1⟩ := x
  have hs := extend_strs he
  simp only [strs, Prod.mk.injEq] at hs
  obtain ⟨hs1, hs2, hs3, hs4, hs5⟩ := hs
  have hk : 0 = nstr h1 := by simp only [nstr, hs1, hs2, hs3, hs4, hs5]; rfl
  simp only []
  sl
  have tail : ∀ (x : Hdr × Bytes) (k2 : Nat), Std x.1 k2 →
      Spec o b f0 k2 (do let h ← postProcessA o x.1; pure (h, x.2)) (fun r k' => k' = nstr r.1) := by
    intro x k2 hq
    refine Spec.bind (postProcessA_spec hq.1 hq.2) (fun h3 k3 hq3 => ?_)
    exact (Spec.pure _ _).conseq (fun a k' hq => by obtain ⟨rfl, rfl⟩ := hq; exact hq3)
  sif
  · exact Spec.bind (decodeLevel0A_spec mk _ (by exact hk) (by exact hs2) (by exact hs1) (by exact hs3)) tail
  sif
  · exact Spec.bind (decodeLevel1A_spec mk _ (by exact hk) (by exact hs2) (by exact hs1) (by exact hs3)) tail
  sif
  · exact Spec.bind (decodeLevel2A_spec _ (by exact hk) (by exact hs3)) tail
  sif
  · exact Spec.bind (decodeLevel3A_spec _ (by exact hk) (by exact hs3)) tail
  · sfail

/-- **Block accounting of `lha_file_header_read` after its `calloc`.** -/
theorem readRestA_blocks (mk : Nat → Nat) (inp : Bytes) (hp : Heap) (b : Nat)
    (hg : Good o hp) (hl : hp.live = b + 1) :
    match readRestA o mk inp hp with
    | .ok r hp' => hp'.live = b + 1 + nstr r.1 ∧ Good o hp' ∧ hp'.failed = hp.failed
    | .fail _ hp' => hp'.live = b ∧ Good o hp' ∧ Suffix hp.failed hp'
    | .fault _ => True := by
  have h1 := readBodyA_spec (o := o) (b := b) (f0 := hp.failed) mk inp hp
    ⟨hg, by omega, rfl⟩
  unfold readRestA
  cases hb : readBodyA o mk inp hp with
  | ok r hp' =>
    rw [hb] at h1
    obtain ⟨k', hq, hk⟩ := h1
    exact ⟨by rw [hk.live, hq], hk.good, hk.same⟩
  | fail h hp' =>
    rw [hb] at h1
    exact ⟨by show hp'.live - (1 + nstr h) = b; rw [h1.live]; omega, h1.good, h1.suf⟩
  | fault w => trivial

/-- **Block accounting of `lha_file_header_read`.** -/
theorem readA_blocks (mk : Nat → Nat) (inp : Bytes) (hp : Heap) (hg : Good o hp) :
    match readA o mk inp hp with
    | .ok r hp' => hp'.live = hp.live + 1 + nstr r.1 ∧ Good o hp' ∧ hp'.failed = hp.failed
    | .fail _ hp' => hp'.live = hp.live ∧ Good o hp' ∧ Suffix hp.failed hp'
    | .fault _ => True := by
  unfold readA
  by_cases ho : o hp.n = true
  · rw [if_pos ho]
    exact ⟨rfl, by show (Site.hdrCalloc :: hp.failed).length = countFails o (hp.n + 1)
                   rw [countFails_succ, ho]; simp [hg.symm], ⟨[Site.hdrCalloc], rfl⟩⟩
  · rw [if_neg ho]
    exact readRestA_blocks mk inp { hp with n := hp.n + 1, live := hp.live + 1 } hp.live
      (by show hp.failed.length = countFails o (hp.n + 1); rw [countFails_succ]; simp [ho, hg.symm]) rfl

end
end LhasaV.Alloc
