import LhasaV.Lemmas.PmRT2
/-!
PMarc round trip: the bit reader of -pm1-.

`pm1_decoder.c` wraps its input callback: when the input is exhausted the wrapper answers with
zero bytes, so the input never ends (`Src.zeroFill`).  `zeroView` is the corresponding `BitView`:
`R r s` says that `s` is a prefix of the bits of `r` followed by zeros for ever.
-/
set_option linter.unusedSimpArgs false
namespace LhasaV.PmRT
open LhasaV LhasaV.Spec.Lz77 LhasaV.LzRoundTrip LhasaV.Bits

/-- representation invariant of a zero-filling reader -/
def ZInv (r : Bits) : Prop :=
  r.bits ≤ 32 ∧ r.buf < 2 ^ 32 ∧ r.buf % 2 ^ (32 - r.bits) = 0 ∧ r.src.zeroFill = true ∧
    r.src.pos ≤ r.src.data.size ∧ r.src.extra = 0 ∧ r.src.dead = false

theorem bitsOfByte_zero : bitsOfByte 0 = List.replicate 8 false := by decide

theorem flatMap_zero (n : Nat) :
    (List.replicate n (0 : UInt8)).flatMap bitsOfByte = List.replicate (8 * n) false := by
  induction n with
  | zero => rfl
  | succ n ih =>
    rw [List.replicate_succ, List.flatMap_cons, ih, bitsOfByte_zero, List.replicate_append_replicate]
    congr 1; omega

/-- the wrapped callback: the bytes delivered are the rest of the data continued by zeros -/
theorem read_spec_z (s : Src) (req : Nat) (hz : s.zeroFill = true) (hp : s.pos ≤ s.data.size)
    (he : s.extra = 0) (hd : s.dead = false) :
    ((s.read req).2.zeroFill = true ∧ (s.read req).2.pos ≤ (s.read req).2.data.size ∧
      (s.read req).2.extra = 0 ∧ (s.read req).2.dead = false) ∧
    (s.read req).1.length ≤ req ∧ (0 < req → 0 < (s.read req).1.length) ∧
    ∃ j, s.rest ++ List.replicate j 0 = (s.read req).1 ++ (s.read req).2.rest := by
  have hg := grant_le s req he
  have hrem : s.remaining = s.data.size - s.pos := rfl
  have hng : ¬ s.grant req > s.remaining := by omega
  by_cases h0 : s.grant req = 0
  · have hread : s.read req = (List.replicate req 0, s) := by
      simp [Src.read, hz, hng, h0]
    rw [hread]
    refine ⟨⟨hz, hp, he, hd⟩, by simp, by simp, ?_⟩
    by_cases hr : 0 < req
    · have := grant_eq_zero s req he hd h0 hr
      have hl := length_rest s
      rw [this] at hl
      have hnil : s.rest = [] := List.eq_nil_of_length_eq_zero hl
      exact ⟨req, by simp [hnil]⟩
    · have : req = 0 := by omega
      subst this
      exact ⟨0, by simp⟩
  · have hread : s.read req = ((s.data.extract s.pos (s.pos + s.grant req)).toList,
        { s with pos := s.pos + s.grant req }) := by
      simp [Src.read, hz, hng, h0]
    rw [hread]
    have hlen : (s.data.extract s.pos (s.pos + s.grant req)).toList.length = s.grant req := by
      simp; omega
    refine ⟨⟨hz, ?_, he, hd⟩, ?_, ?_, 0, ?_⟩
    · show s.pos + s.grant req ≤ s.data.size
      omega
    · rw [hlen]; exact hg.1
    · intro _; rw [hlen]; omega
    · simp only [List.replicate_zero, List.append_nil, rest_eq, Array.toList_extract,
        List.extract_eq_take_drop]
      rw [Nat.add_sub_cancel_left, ← List.drop_drop, List.take_append_drop]

/-- `fill` on a zero-filling reader never fails (for `n ≤ 25`) and appends zeros at most -/
theorem fill_spec_z (r : Bits) (n : Nat) (hi : ZInv r) (hn : n ≤ 25) :
    ZInv (fill r n).2 ∧ (∃ j, stream (fill r n).2 = stream r ++ List.replicate j false) ∧
    (fill r n).1 = true ∧ n ≤ (fill r n).2.bits := by
  fun_induction fill r n with
  | case1 r h got hg =>
    obtain ⟨hb, hlt, hm, hz, hp, he, hd⟩ := hi
    have hs := read_spec_z r.src ((32 - r.bits) / 8) hz hp he hd
    have : 0 < (r.src.read ((32 - r.bits) / 8)).1.length := hs.2.2.1 (by omega)
    exact absurd hg (by show ¬ (r.src.read ((32 - r.bits) / 8)).1.length = 0; omega)
  | case2 r h got hg p ih =>
    obtain ⟨hb, hlt, hm, hz, hp, he, hd⟩ := hi
    have hs := read_spec_z r.src ((32 - r.bits) / 8) hz hp he hd
    have hlen : got.1.length ≤ (32 - r.bits) / 8 := hs.2.1
    have hps := push_spec got.1 r.buf r.bits (by omega) hlt hm
    have hinv : ZInv { src := got.2, buf := p.1, bits := r.bits + 8 * got.1.length } :=
      ⟨by simp only; omega, hps.2.1, hps.2.2.1, hs.1⟩
    obtain ⟨i1, ⟨j, i2⟩, i3, i4⟩ := ih hinv
    obtain ⟨j0, hj0⟩ := hs.2.2.2
    refine ⟨i1, ⟨8 * j0 + j, ?_⟩, i3, i4⟩
    rw [i2]
    simp only [stream_eq]
    show (bufBits (push r.buf r.bits got.1).1 _ ++ _) ++ _ = _
    rw [hps.2.2.2]
    have e : (r.src.rest).flatMap bitsOfByte ++ List.replicate (8 * j0) false
        = got.1.flatMap bitsOfByte ++ got.2.rest.flatMap bitsOfByte := by
      rw [← flatMap_zero, ← List.flatMap_append, hj0, List.flatMap_append]
    rw [← List.replicate_append_replicate, List.append_assoc, List.append_assoc, List.append_assoc,
      ← List.append_assoc ((r.src.rest).flatMap bitsOfByte), e, List.append_assoc]
  | case3 r h =>
    exact ⟨hi, ⟨0, by simp⟩, rfl, by show n ≤ r.bits; omega⟩

theorem take_stream' (r : Bits) (n : Nat) (hb : r.bits ≤ 32) (hlt : r.buf < 2 ^ 32)
    (h : n ≤ r.bits) : valOf ((stream r).take n) = r.buf >>> (32 - n) := by
  rw [stream_eq, List.take_append_of_le_length (by simpa using h), take_bufBits _ _ _ h,
    valOf_bufBits _ _ hlt (by omega)]

theorem replicate_comm (a b : Nat) :
    List.replicate a false ++ List.replicate b false
      = List.replicate b false ++ List.replicate a false := by
  rw [List.replicate_append_replicate, List.replicate_append_replicate, Nat.add_comm]

/-- the view of a zero-filling reader: `s` is a prefix of the bits of `r` followed by zeros -/
def zeroView : BitView where
  R r s := ZInv r ∧ ∃ z t, stream r ++ List.replicate z false = s ++ t
  read := by
    intro r n v rest ⟨hi, z, t, hst⟩ hn hv
    by_cases h0 : n = 0
    · subst h0
      have hv0 : v = 0 := by omega
      subst hv0
      obtain ⟨hb, hlt, hm, hsrc⟩ := hi
      have e : r.readBits 0 = (some 0, { r with buf := r.buf % 4294967296, bits := r.bits }) := by
        simp [Bits.readBits, Bits.peek]
      rw [e]
      have e2 : r.buf % 4294967296 = r.buf := Nat.mod_eq_of_lt hlt
      refine ⟨rfl, ⟨hb, by show r.buf % 4294967296 < _; rw [e2]; exact hlt,
        by show r.buf % 4294967296 % _ = 0; rw [e2]; exact hm, hsrc⟩, z, t, ?_⟩
      have : stream { r with buf := r.buf % 4294967296, bits := r.bits } = stream r := by
        simp only [stream, e2]
      rw [this]
      simpa [bitsN] using hst
    · obtain ⟨f1, ⟨j, f2⟩, f3, f4⟩ := fill_spec_z r n hi hn
      obtain ⟨hb, hlt, hm, hsrc⟩ := f1
      -- the bits of the refilled reader, continued by `z` zeros
      have hcat : stream (fill r n).2 ++ List.replicate z false
          = bitsN n v ++ (rest ++ (t ++ List.replicate j false)) := by
        rw [f2, List.append_assoc, replicate_comm, ← List.append_assoc, hst]
        simp only [List.append_assoc]
      have hlen : n ≤ (stream (fill r n).2).length := by
        rw [length_stream]; omega
      have htake : (stream (fill r n).2).take n = bitsN n v := by
        have := congrArg (List.take n) hcat
        rw [List.take_append_of_le_length hlen, take_bitsN_append] at this
        exact this
      have hdrop : (stream (fill r n).2).drop n ++ List.replicate z false
          = rest ++ (t ++ List.replicate j false) := by
        have := congrArg (List.drop n) hcat
        rw [List.drop_append_of_le_length hlen, drop_bitsN_append] at this
        exact this
      have hval := take_stream' _ n hb hlt f4
      rw [htake, valOf_bitsN_lt n v hv] at hval
      have hpeek : r.peek n = (some ((fill r n).2.buf >>> (32 - n)), (fill r n).2) := by
        unfold Bits.peek
        simp only [h0, if_false, f3, if_true]
      unfold Bits.readBits
      simp only [hpeek]
      refine ⟨by rw [hval], ⟨?_, ?_, ?_, hsrc⟩, z, t ++ List.replicate j false, ?_⟩
      · show (fill r n).2.bits - n ≤ 32
        omega
      · exact Nat.mod_lt _ (by decide)
      · exact shift_mod _ _ _ f4 hb hm
      · rw [← hdrop]
        congr 1
        simp only [stream_eq]
        rw [List.drop_append_of_le_length (by simpa using f4), drop_bufBits _ _ _ f4 hb]

/-- the initial reader of `lha_pm1_init` on the bits `bs` (padded to whole bytes) -/
theorem zeroView_init (bs : List Bool) (c : Nat) :
    zeroView.R (Pm1.init { data := (packBits bs).toArray, chunk := c }).bits bs := by
  obtain ⟨k, hk, e⟩ := packBits_stream bs
  refine ⟨⟨Nat.zero_le _, Nat.two_pow_pos 32, Nat.zero_mod _, rfl, Nat.zero_le _, rfl, rfl⟩,
    0, List.replicate k false, ?_⟩
  rw [← e]
  simp only [Pm1.init, stream_init, rest_eq]
  simp

/-! ### non-vacuity -/

/-- the view is inhabited by the initial reader of `lha_pm1_init`, and reading moves it on -/
example : ((Pm1.init { data := (packBits (bitsN 3 5 ++ bitsN 4 9)).toArray, chunk := 1 }).bits.readBits 3).1
      = some 5 ∧
    zeroView.R ((Pm1.init { data := (packBits (bitsN 3 5 ++ bitsN 4 9)).toArray, chunk := 1 }).bits.readBits 3).2
      (bitsN 4 9) :=
  zeroView.read _ 3 5 _ (zeroView_init _ 1) (by decide) (by decide)

end LhasaV.PmRT
