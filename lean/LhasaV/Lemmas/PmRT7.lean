import LhasaV.Lemmas.PmRT3
import LhasaV.Lemmas.PmRT6
import LhasaV.Lemmas.LhNewCmd
/-!
PMarc round trip, part D (1): the complete round trip of -pm1-.

`pm1_round_trip`: for every well-formed description `s` of a -pm1- stream
(`pm1Bits s = some bits`) whose expansion is shorter than 4 GiB, the inner output stream of
the decoder on the packed bits starts with the expansion of `s`, for every chunking of the
input callback.  (-pm1- zero-fills past the end of its input, so the decoder goes on after the
last command: only the first `(pm1Expand s).length` bytes are determined.)
-/
set_option linter.unusedSimpArgs false
namespace LhasaV.PmRT
open LhasaV LhasaV.Spec.PmEnc LhasaV.Spec.Lz77 LhasaV.LzRoundTrip LhasaV.LhNewCmd

/-! ### sliding-window expansion -/

theorem copyWin_eq (f : UInt8) (n d : Nat) (out : List UInt8) :
    ∃ new, new.length = n ∧ copyWin f n d out = out ++ new := by
  induction n generalizing out with
  | zero => exact ⟨[], rfl, by simp [copyWin]⟩
  | succ n ih =>
    obtain ⟨new, h1, h2⟩ := ih (out ++ [winByte f out d])
    exact ⟨winByte f out d :: new, by simp [h1], by rw [copyWin, h2]; simp⟩

/-- what the commands append to the output -/
def tailOf (f : UInt8) (cs : List WCmd) (out : List UInt8) : List UInt8 :=
  (expandWinFrom f cs out).drop out.length

theorem expandWinFrom_eq (f : UInt8) (cs : List WCmd) (out : List UInt8) :
    expandWinFrom f cs out = out ++ tailOf f cs out := by
  unfold tailOf
  induction cs generalizing out with
  | nil => simp [expandWinFrom]
  | cons c cs ih =>
    cases c with
    | lit b =>
      simp only [expandWinFrom]
      have := ih (out ++ [b])
      rw [this]
      simp
    | copy d n =>
      simp only [expandWinFrom]
      obtain ⟨new, h1, h2⟩ := copyWin_eq f n d out
      have := ih (copyWin f n d out)
      rw [this, h2]
      simp

theorem expandWinFrom_append (f : UInt8) (a b : List WCmd) (out : List UInt8) :
    expandWinFrom f (a ++ b) out = expandWinFrom f b (expandWinFrom f a out) := by
  induction a generalizing out with
  | nil => rfl
  | cons c a ih => cases c <;> simp [expandWinFrom, ih]

theorem tailOf_append (f : UInt8) (a b : List WCmd) (out : List UInt8) :
    tailOf f (a ++ b) out = tailOf f a out ++ tailOf f b (out ++ tailOf f a out) := by
  have h1 := expandWinFrom_eq f (a ++ b) out
  rw [expandWinFrom_append, expandWinFrom_eq f a out, expandWinFrom_eq f b] at h1
  rw [List.append_assoc] at h1
  exact (List.append_cancel_left h1).symm

theorem tailOf_nil (f : UInt8) (out : List UInt8) : tailOf f [] out = [] := by
  simp [tailOf, expandWinFrom]

theorem tailOf_lits (f : UInt8) (bs : List UInt8) (out : List UInt8) :
    tailOf f (bs.map WCmd.lit) out = bs := by
  have : expandWinFrom f (bs.map WCmd.lit) out = out ++ bs := by
    induction bs generalizing out with
    | nil => simp [expandWinFrom]
    | cons b bs ih => simp [expandWinFrom, ih]
  unfold tailOf
  rw [this]; simp

theorem tailOf_copy (f : UInt8) (d n : Nat) (out : List UInt8) :
    out ++ tailOf f [.copy d n] out = copyWin f n d out := by
  rw [← expandWinFrom_eq]; rfl

/-- the bytes the specification's `newBytes` computes on arrays -/
theorem newBytes_eq (f : UInt8) (n d : Nat) (out : Array UInt8) :
    newBytes f n d out = tailOf f [.copy d n] out.toList := by
  obtain ⟨new, h1, h2⟩ := copyWin_eq f n d out.toList
  have h3 : tailOf f [.copy d n] out.toList = new := by
    have := tailOf_copy f d n out.toList
    rw [h2] at this
    exact List.append_cancel_left this
  rw [h3]
  unfold newBytes
  rw [Array.toList_extract, Spec.Lzhuf.copyWinA_toList, h2, List.extract_eq_take_drop]
  simp
  exact List.take_of_length_le (by omega)

/-! ### the decoder state against the encoder state -/

/-- decoder state vs. (output so far, move-to-front list) -/
structure PInv (s : Pm1.St) (out : List UInt8) (mtf : List UInt8) : Prop where
  hist : HistRel s.hist mtf
  win : WinRel Gen.pm1RingSize 0 s.ring s.pos out
  opos : s.outPos = out.length % 4294967296

theorem PInv.withBits {s : Pm1.St} {out mtf : List UInt8} (h : PInv s out mtf) (r : Bits) :
    PInv { s with bits := r } out mtf := ⟨h.hist, h.win, h.opos⟩

/-- `outputted_byte`: ring, move-to-front list and output position move on by one byte -/
theorem outputted_spec (s : Pm1.St) (out mtf : List UInt8) (b : UInt8) (h : PInv s out mtf) :
    ∃ s', Pm1.outputted s b = .ok s' ∧ PInv s' (out ++ [b]) (mtfMove mtf b) ∧ s'.bits = s.bits ∧
      s'.tree = s.tree := by
  obtain ⟨h', e, hr⟩ := update_spec s.hist mtf h.hist b
  have hp : s.pos < s.ring.size := Nat.lt_of_lt_of_le h.win.2.1 h.win.1
  refine ⟨{ s with ring := s.ring.setIfInBounds s.pos b, pos := (s.pos + 1) % Gen.pm1RingSize,
                   hist := h', outPos := (s.outPos + 1) % 4294967296 },
    ?_, ⟨hr, winRel_lit _ _ _ _ _ b h.win, ?_⟩, rfl, rfl⟩
  · unfold Pm1.outputted
    rw [if_pos hp, e]
    rfl
  · show (s.outPos + 1) % 4294967296 = _
    rw [h.opos, List.length_append]
    simp only [List.length_cons, List.length_nil]
    omega

/-- the copy loop of `read_copy_command` against `copyWin` -/
theorem copyLoop1_spec (count d : Nat) (hd : d < Gen.pm1RingSize) (idx : Nat) (s : Pm1.St)
    (out mtf acc : List UInt8) (h : PInv s out mtf)
    (hidx : idx = (s.pos + Gen.pm1RingSize - d - 1) % Gen.pm1RingSize) :
    ∃ s' new, Pm1.copyLoop count idx s acc = .ok (s', new.reverse ++ acc) ∧ new.length = count ∧
      copyWin 0 count d out = out ++ new ∧ PInv s' (out ++ new) (mtfMoves mtf new) ∧
      s'.bits = s.bits ∧ s'.tree = s.tree := by
  induction count generalizing idx s out mtf acc with
  | zero => exact ⟨s, [], by simp [Pm1.copyLoop], rfl, by simp [copyWin], by simpa [mtfMoves] using h,
      rfl, rfl⟩
  | succ n ih =>
    have hp : s.pos < Gen.pm1RingSize := h.win.2.1
    have e : s.pos + Gen.pm1RingSize - d - 1 = s.pos + Gen.pm1RingSize - 1 - d := by omega
    have hget : s.ring[idx]? = some (winByte 0 out d) := by
      rw [hidx, e]; exact h.win.2.2.2 d hd
    obtain ⟨s1, e1, h1, hb1, ht1⟩ := outputted_spec s out mtf (winByte 0 out d) h
    have hpos1 : s1.pos = (s.pos + 1) % Gen.pm1RingSize := by
      unfold Pm1.outputted at e1
      split at e1
      · obtain ⟨hh, _, e1⟩ := Res.bind_eq_ok.mp e1
        cases e1; rfl
      · cases e1
    have hidx1 : (idx + 1) % Gen.pm1RingSize
        = (s1.pos + Gen.pm1RingSize - d - 1) % Gen.pm1RingSize := by
      rw [hpos1]
      apply src_step _ _ _ _ hp hd
      rw [hidx, Nat.mod_mod]
    obtain ⟨s', new, g1, g2, g3, g4, g5, g6⟩ := ih _ s1 _ _ (winByte 0 out d :: acc) h1 hidx1
    refine ⟨s', winByte 0 out d :: new, ?_, by simp [g2], ?_, ?_, by rw [g5, hb1], by rw [g6, ht1]⟩
    · unfold Pm1.copyLoop
      rw [hget]
      simp only [e1, Res.ok_bind]
      rw [g1]
      simp
    · rw [copyWin, g3, List.append_assoc]; rfl
    · simpa [List.append_assoc, mtfMoves] using g4

/-! ### one command -/

theorem outPos_eq {s : Pm1.St} {out : Array UInt8} {mtf : List UInt8} (h : PInv s out.toList mtf)
    (hsz : out.size < 4294967296) : s.outPos = out.size := by
  rw [h.opos, Array.length_toList, Nat.mod_eq_of_lt hsz]

/-- a copy command of the specification, read by `read_copy_command` -/
theorem copyStep_read (V : BitView) (s : Pm1.St) (out : Array UInt8) (mtf : List UInt8)
    (dist len : Nat) (bits : List Bool) (out' : Array UInt8) (mtf' : List UInt8)
    (hstep : pm1CopyStep out mtf dist len = some (bits, out', mtf')) (h : PInv s out.toList mtf)
    (hsz : out.size < 4294967296) (rest : List Bool) (hr : V.R s.bits (bits ++ rest)) :
    ∃ s', Pm1.readCopyCommand s = .ok (tailOf 0 [.copy dist len] out.toList, s') ∧
      out'.toList = out.toList ++ tailOf 0 [.copy dist len] out.toList ∧
      (tailOf 0 [.copy dist len] out.toList).length = len ∧ 2 ≤ len ∧
      PInv s' out'.toList mtf' ∧ V.R s'.bits rest ∧ s'.tree = s.tree := by
  unfold pm1CopyStep at hstep
  split at hstep
  · cases hstep
  rename_i cbits hcb
  simp only [Option.some.injEq, Prod.mk.injEq] at hstep
  obtain ⟨q1, q2, q3⟩ := hstep
  subst q1
  have hop := outPos_eq h hsz
  have hrange := copyBits_range _ _ _ _ hcb
  rw [← hop] at hcb
  obtain ⟨r', hr', e⟩ := copyCmd_spec V s dist len cbits hcb rest hr
  obtain ⟨s', new, g1, g2, g3, g4, g5, g6⟩ := copyLoop1_spec len dist
    (by simp only [Gen.pm1RingSize]; omega) _ { s with bits := r' } out.toList mtf []
    (h.withBits r') rfl
  have hnew : tailOf 0 [.copy dist len] out.toList = new := by
    have := tailOf_copy 0 dist len out.toList
    rw [g3] at this
    exact List.append_cancel_left this
  rw [newBytes_eq, hnew] at q2 q3
  rw [hnew]
  refine ⟨s', ?_, by rw [← q2]; simp, g2, hrange.2.1, ?_, by rw [g5]; exact hr', g6⟩
  · rw [e]
    unfold copyRun
    rw [g1]
    simp
  · rw [← q2, ← q3]
    simpa using g4

/-- the literal bytes of a block, read by the byte loop of `read_byte_block` -/
theorem byteLoop_spec (V : BitView) (t : Option T) (row : Nat) (hT : pm1Trees[row]? = some t)
    (bytes : List (UInt8 × Nat)) (mtf : List UInt8) (bb : List Bool) (mtf1 : List UInt8)
    (hb : pm1Bytes t bytes mtf = some (bb, mtf1)) (s : Pm1.St) (out acc : List UInt8)
    (h : PInv s out mtf) (rest : List Bool) (hr : V.R s.bits (bb ++ rest)) :
    ∃ s', Pm1.byteLoop row bytes.length s acc
        = .ok (some ((bytes.map (·.1)).reverse ++ acc), s') ∧
      PInv s' (out ++ bytes.map (·.1)) mtf1 ∧ V.R s'.bits rest ∧ s'.tree = s.tree ∧
      mtf1 = mtfMoves mtf (bytes.map (·.1)) := by
  induction bytes generalizing mtf bb s out acc with
  | nil =>
    simp only [pm1Bytes, Option.some.injEq, Prod.mk.injEq] at hb
    obtain ⟨q1, q2⟩ := hb
    subst q1 q2
    exact ⟨s, by simp [Pm1.byteLoop], by simpa using h, by simpa using hr, rfl, by simp [mtfMoves]⟩
  | cons x bytes ih =>
    obtain ⟨b, alt⟩ := x
    unfold pm1Bytes at hb
    split at hb
    · cases hb
    rename_i bits hbits
    rw [Option.map_eq_some_iff] at hb
    obtain ⟨⟨bb', mtf'⟩, hrec, hq⟩ := hb
    simp only [Prod.mk.injEq] at hq
    obtain ⟨q1, q2⟩ := hq
    subst q1 q2
    have hmem : b ∈ mtf := h.hist.mem b
    have hk : mtf.idxOf b < 256 := by
      rw [← h.hist.len]; exact List.idxOf_lt_length_iff.mpr hmem
    rw [List.append_assoc] at hr
    obtain ⟨r1, e1, hr1⟩ := readByte_spec V row t hT _ alt bits hbits hk s mtf h.hist _ hr
    have hval : (mtf.getD (mtf.idxOf b) 0) = b := by
      rw [getD_eq mtf _ (by rw [h.hist.len]; exact hk)]
      exact List.getElem_idxOf _
    rw [hval] at e1
    obtain ⟨s1, e2, h1, hb1, ht1⟩ := outputted_spec { s with bits := r1 } out mtf b (h.withBits r1)
    obtain ⟨s', g1, g2, g3, g4, g5⟩ := ih (mtfMove mtf b) bb' hrec s1 (out ++ [b]) (b :: acc) h1
      (by rw [hb1]; exact hr1)
    refine ⟨s', ?_, by simpa [List.append_assoc] using g2, g3, by rw [g4, ht1], by rw [g5]; rfl⟩
    simp only [List.length_cons, Pm1.byteLoop, e1, Res.ok_bind, UInt8.ofNat_toNat, e2]
    rw [g1]
    simp

/-- one command of the specification: its bits, the bytes it produces, the encoder state after -/
def cmdStep (t : Option T) (c : Cmd1) (out : Array UInt8) (mtf : List UInt8) :
    Option (List Bool × Array UInt8 × List UInt8) :=
  match c with
  | .copy dist len =>
    (pm1CopyStep out mtf dist len).map (fun r => (false :: r.1, r.2.1, r.2.2))
  | .block bytes cp =>
    match pm1BlockCount bytes.length, pm1Bytes t bytes mtf with
    | some cnt, some (bb, mtf1) =>
      let out1 := out ++ (bytes.map (·.1)).toArray
      if bytes.length = 216 then
        (if cp.isSome then none else some (true :: cnt ++ bb, out1, mtf1))
      else
        match cp with
        | none => none
        | some (dist, len) =>
          (pm1CopyStep out1 mtf1 dist len).map (fun r => (true :: cnt ++ bb ++ r.1, r.2.1, r.2.2))
    | _, _ => none

/-- `encLoop1` is the iteration of `cmdStep` -/
theorem encLoop1_cons (t : Option T) (c : Cmd1) (cs : List Cmd1) (out : Array UInt8)
    (mtf : List UInt8) (bits : List Bool) (h : encLoop1 t (c :: cs) out mtf = some bits) :
    ∃ cb out' mtf' tl, cmdStep t c out mtf = some (cb, out', mtf') ∧
      encLoop1 t cs out' mtf' = some tl ∧ bits = cb ++ tl := by
  cases c with
  | copy dist len =>
    unfold encLoop1 at h
    split at h
    · cases h
    rename_i cb out' mtf' hstep
    rw [Option.map_eq_some_iff] at h
    obtain ⟨tl, h1, h2⟩ := h
    exact ⟨false :: cb, out', mtf', tl, by simp [cmdStep, hstep], h1, by simp [← h2]⟩
  | block bytes cp =>
    unfold encLoop1 at h
    split at h
    · rename_i cnt bb mtf1 hc hb
      simp only at h
      split at h
      · rename_i h216
        split at h
        · cases h
        rename_i hcp
        rw [Option.map_eq_some_iff] at h
        obtain ⟨tl, h1, h2⟩ := h
        refine ⟨true :: cnt ++ bb, _, mtf1, tl, ?_, h1, by simp [← h2]⟩
        simp only [cmdStep, hc, hb]
        simp [h216, hcp]
      · rename_i h216
        split at h
        · cases h
        rename_i dist len
        split at h
        · cases h
        rename_i cb out2 mtf2 hstep
        rw [Option.map_eq_some_iff] at h
        obtain ⟨tl, h1, h2⟩ := h
        refine ⟨true :: cnt ++ bb ++ cb, out2, mtf2, tl, ?_, h1, by simp [← h2]⟩
        simp only [cmdStep, hc, hb]
        simp [h216, hstep]
    · cases h

theorem tailOf_lits' (bytes : List (UInt8 × Nat)) (out : List UInt8) :
    tailOf 0 (bytes.map (fun x => WCmd.lit x.1)) out = bytes.map (·.1) := by
  have := tailOf_lits 0 (bytes.map (·.1)) out
  rw [List.map_map] at this
  exact this

/-- `lha_pm1_read` on the count and the literal bytes of a block -/
theorem block_head (V : BitView) (t : Option T) (row : Nat) (hT : pm1Trees[row]? = some t)
    (bytes : List (UInt8 × Nat)) (mtf : List UInt8) (cnt bb : List Bool) (mtf1 : List UInt8)
    (hc : pm1BlockCount bytes.length = some cnt) (hb : pm1Bytes t bytes mtf = some (bb, mtf1))
    (s : Pm1.St) (out : List UInt8) (h : PInv s out mtf) (htree : s.tree = some row)
    (tail : List Bool) (hr : V.R s.bits (true :: (cnt ++ (bb ++ tail)))) :
    ∃ s1, PInv s1 (out ++ bytes.map (·.1)) mtf1 ∧ V.R s1.bits tail ∧ s1.tree = some row ∧
      Pm1.read s = (if bytes.length = 216 then .ok (bytes.map (·.1), s1)
        else (Pm1.readCopyCommand s1) >>= fun c =>
          if c.1 = [] then .ok ([], c.2) else .ok (bytes.map (·.1) ++ c.1, c.2)) := by
  have hrow : row < 32 := by
    have := (List.getElem?_eq_some_iff.mp hT).1
    simpa [pm1Trees] using this
  have hnr : ¬ row ≥ Gen.pm1TreeRows := by simp only [Gen.pm1TreeRows]; omega
  have hcr := blockCount_range _ _ hc
  obtain ⟨e1, r1⟩ := V.bit1 _ _ hr
  obtain ⟨e2, r2⟩ := blockCount_spec V bytes.length cnt hc _ _ r1
  obtain ⟨s1, g1, g2, g3, g4, g5⟩ := byteLoop_spec V t row hT bytes mtf bb mtf1 hb
    { s with bits := (Pm1.readByteBlockCount s.bits.readBit.2).2 } out [] (h.withBits _) _ r2
  have hne0 : ¬ bytes.length = 0 := by omega
  refine ⟨s1, g2, g3, by rw [g4]; exact htree, ?_⟩
  unfold Pm1.read
  rw [htree]
  simp only [hnr, if_false, e1, (by decide : ¬ (some 1 : Option Nat) = some 0)]
  unfold Pm1.readByteBlock
  simp only [e2, hne0, if_false, g1, Res.ok_bind, Gen.pm1MaxByteBlockLen]
  simp

/-- `lha_pm1_read` on one command of the specification -/
theorem cmd_read (V : BitView) (t : Option T) (row : Nat) (hT : pm1Trees[row]? = some t)
    (c : Cmd1) (out : Array UInt8) (mtf : List UInt8) (cb : List Bool) (out' : Array UInt8)
    (mtf' : List UInt8) (hstep : cmdStep t c out mtf = some (cb, out', mtf'))
    (s : Pm1.St) (h : PInv s out.toList mtf) (htree : s.tree = some row)
    (hsz : out.size + (tailOf 0 c.denote out.toList).length < 4294967296) (rest : List Bool)
    (hr : V.R s.bits (cb ++ rest)) :
    ∃ s', Pm1.read s = .ok (tailOf 0 c.denote out.toList, s') ∧
      out'.toList = out.toList ++ tailOf 0 c.denote out.toList ∧ tailOf 0 c.denote out.toList ≠ [] ∧
      PInv s' out'.toList mtf' ∧ V.R s'.bits rest ∧ s'.tree = some row := by
  have hrow : row < 32 := by
    have := (List.getElem?_eq_some_iff.mp hT).1
    simpa [pm1Trees] using this
  have hnr : ¬ row ≥ Gen.pm1TreeRows := by simp only [Gen.pm1TreeRows]; omega
  cases c with
  | copy dist len =>
    simp only [cmdStep, Option.map_eq_some_iff, Prod.mk.injEq] at hstep
    obtain ⟨⟨cbits, o2, m2⟩, hcs, q1, q2, q3⟩ := hstep
    simp only at q1 q2 q3
    subst q1 q2 q3
    rw [show (Cmd1.copy dist len).denote = [.copy dist len] from rfl]
    obtain ⟨e1, r1⟩ := V.bit0 _ _ (by simpa using hr)
    obtain ⟨s', g1, g2, g3, g4, g5, g6, g7⟩ := copyStep_read V { s with bits := s.bits.readBit.2 }
      out mtf dist len cbits o2 m2 hcs (h.withBits _) (by omega) rest r1
    refine ⟨s', ?_, g2, ?_, g5, g6, by rw [g7]; exact htree⟩
    · unfold Pm1.read
      rw [htree]
      simp only [hnr, if_false, e1, if_true]
      exact g1
    · intro e
      rw [e] at g3
      simp at g3; omega
  | block bytes cp =>
    simp only [cmdStep] at hstep
    split at hstep
    · rename_i cnt bb mtf1 hc hb
      have hcr := blockCount_range _ _ hc
      have hbne : bytes.map (·.1) ≠ [] := by
        intro e
        rw [List.map_eq_nil_iff] at e
        subst e
        simp at hcr
      try simp only at hstep
      split at hstep
      · rename_i h216
        split at hstep
        · cases hstep
        rename_i hcp
        have hcpn : cp = none := by cases cp <;> simp_all
        subst hcpn
        simp only [Option.some.injEq, Prod.mk.injEq] at hstep
        obtain ⟨q1, q2, q3⟩ := hstep
        subst q1 q2 q3
        obtain ⟨s1, g2, g3, g4, g5⟩ := block_head V t row hT bytes mtf cnt bb mtf1 hc hb s out.toList h
          htree rest (by simpa using hr)
        have hden : tailOf 0 (Cmd1.block bytes none).denote out.toList = bytes.map (·.1) := by
          simp only [Cmd1.denote, List.append_nil]
          exact tailOf_lits' bytes _
        rw [hden]
        refine ⟨s1, ?_, by simp, hbne, by simpa using g2, g3, g4⟩
        rw [g5, if_pos h216]
      · rename_i h216
        split at hstep
        · cases hstep
        rename_i dist len
        rw [Option.map_eq_some_iff] at hstep
        obtain ⟨⟨cbits, o2, m2⟩, hcs, hq⟩ := hstep
        simp only [Prod.mk.injEq] at hq
        obtain ⟨q1, q2, q3⟩ := hq
        subst q1 q2 q3
        obtain ⟨s1, g2, g3, g4, g5⟩ := block_head V t row hT bytes mtf cnt bb mtf1 hc hb s out.toList h
          htree (cbits ++ rest) (by simpa using hr)
        have hden : tailOf 0 (Cmd1.block bytes (some (dist, len))).denote out.toList
            = bytes.map (·.1) ++ tailOf 0 [.copy dist len] (out.toList ++ bytes.map (·.1)) := by
          simp only [Cmd1.denote]
          rw [tailOf_append, tailOf_lits']
        have hsz1 : (out ++ (bytes.map (·.1)).toArray).size < 4294967296 := by
          rw [hden] at hsz
          simp only [List.length_append, List.length_map] at hsz
          simp; omega
        have g2' : PInv s1 (out ++ (bytes.map (·.1)).toArray).toList mtf1 := by simpa using g2
        obtain ⟨s', k1, k2, k3, k4, k5, k6, k7⟩ := copyStep_read V s1 _ mtf1 dist len cbits o2 m2 hcs
          g2' hsz1 rest g3
        have harr : (out ++ (bytes.map (·.1)).toArray).toList = out.toList ++ bytes.map (·.1) := by
          simp
        rw [harr] at k1 k2 k3
        rw [hden]
        have hcne : ¬ tailOf 0 [.copy dist len] (out.toList ++ bytes.map (·.1)) = [] := by
          intro e; rw [e] at k3; simp at k3; omega
        refine ⟨s', ?_, by rw [k2]; simp, by simp [hbne], k5, k6, by rw [k7, g4]⟩
        rw [g5, if_neg h216, k1]
        simp only [Res.ok_bind, hcne, if_false]
    · cases hstep

/-! ### the stream -/

theorem avail_congr (D : Dec) (s s0 : D.σ) (m : Nat) (h : D.read s = D.read s0) :
    Wrap.avail (Dec.total D) m (.ok s) = Wrap.avail (Dec.total D) m (.ok s0) := by
  have e : Dec.total D (.ok s) = Dec.total D (.ok s0) := by simp only [Dec.total, h]
  rw [Wrap.avail.eq_def, e, ← Wrap.avail.eq_def]

theorem avail_zero (D : Dec) (x : Except String D.σ) : Wrap.avail (Dec.total D) 0 x = [] := by
  rw [Wrap.avail.eq_def]; simp

theorem pm1_avail (V : BitView) (t : Option T) (row : Nat) (hT : pm1Trees[row]? = some t)
    (cs : List Cmd1) (out : Array UInt8) (mtf : List UInt8) (bits : List Bool)
    (henc : encLoop1 t cs out mtf = some bits) (s : Pm1.St) (h : PInv s out.toList mtf)
    (htree : s.tree = some row) (hR : V.R s.bits bits)
    (hlt : out.size + (tailOf 0 (cs.flatMap Cmd1.denote) out.toList).length < 4294967296)
    (m : Nat) (hm : m ≤ (tailOf 0 (cs.flatMap Cmd1.denote) out.toList).length) :
    Wrap.avail (Dec.total Pm1.dec) m (.ok s)
      = (tailOf 0 (cs.flatMap Cmd1.denote) out.toList).take m := by
  induction cs generalizing out mtf bits s m with
  | nil =>
    simp only [List.flatMap_nil, tailOf_nil, List.length_nil] at hm
    have : m = 0 := by omega
    subst this
    rw [avail_zero]; simp
  | cons c cs ih =>
    obtain ⟨cb, out', mtf', tl, hstep, henc', hbits⟩ := encLoop1_cons t c cs out mtf bits henc
    subst hbits
    have hsplit : tailOf 0 ((c :: cs).flatMap Cmd1.denote) out.toList
        = tailOf 0 c.denote out.toList ++
          tailOf 0 (cs.flatMap Cmd1.denote) (out.toList ++ tailOf 0 c.denote out.toList) := by
      rw [List.flatMap_cons, tailOf_append]
    rw [hsplit] at hlt hm ⊢
    rw [List.length_append] at hlt hm
    obtain ⟨s', e1, e2, e3, e4, e5, e6⟩ := cmd_read V t row hT c out mtf cb out' mtf' hstep s h htree
      (by omega) tl hR
    rw [← e2] at hlt hm ⊢
    have hsz' : out'.size = out.size + (tailOf 0 c.denote out.toList).length := by
      rw [← Array.length_toList, e2, List.length_append, Array.length_toList]
    refine avail_step_spec Pm1.dec s s' _ _ m e1 e3 ?_
    exact ih out' mtf' tl henc' s' e4 e6 e5 (by omega) _ (by omega)

/-- the first read: the 5-bit tree index, then the first command -/
theorem read_header (s : Pm1.St) (idx : Nat) (ht : s.tree = none)
    (hp : (s.bits.readBits 5).1 = some idx) :
    Pm1.read s = Pm1.read { s with bits := (s.bits.readBits 5).2, tree := some idx } := by
  unfold Pm1.read
  simp only [ht, hp]

/-- **D (-pm1-).** the inner output stream of the -pm1- decoder on the packed bits of a
well-formed description starts with the expansion of the description, for every chunking `c`
of the input callback -/
theorem pm1_round_trip (st : Stream1) (bits : List Bool) (h : pm1Bits st = some bits)
    (hlt : (pm1Expand st).length < 4294967296) (m c : Nat) (hm : m ≤ (pm1Expand st).length) :
    Wrap.avail (Dec.total Pm1.dec) m
        (.ok (Pm1.init { data := (packBits bits).toArray, chunk := c }))
      = (pm1Expand st).take m := by
  unfold pm1Bits at h
  split at h
  · cases h
  rename_i t hT
  rw [Option.map_eq_some_iff] at h
  obtain ⟨tl, henc, hb⟩ := h
  subst hb
  have hrow : st.tree < 32 := by
    have := (List.getElem?_eq_some_iff.mp hT).1
    simpa [pm1Trees] using this
  have h0 := zeroView_init (bitsN 5 st.tree ++ tl) c
  obtain ⟨e1, r1⟩ := zeroView.read _ 5 st.tree tl h0 (by decide) (by omega)
  have hexp : pm1Expand st = tailOf 0 (st.cmds.flatMap Cmd1.denote) (#[] : Array UInt8).toList := by
    unfold pm1Expand expandWin
    rw [expandWinFrom_eq]; simp
  rw [hexp] at hlt hm ⊢
  rw [avail_congr Pm1.dec (Pm1.init { data := (packBits (bitsN 5 st.tree ++ tl)).toArray, chunk := c })
    { (Pm1.init { data := (packBits (bitsN 5 st.tree ++ tl)).toArray, chunk := c }) with
      bits := ((Pm1.init { data := (packBits (bitsN 5 st.tree ++ tl)).toArray, chunk := c }).bits.readBits 5).2,
      tree := some st.tree } m (read_header _ st.tree rfl e1)]
  refine pm1_avail zeroView t st.tree hT st.cmds #[] initOrder tl henc _ ?_ rfl r1 (by simpa using hlt)
    m hm
  refine ⟨histRel_init, ?_, rfl⟩
  exact winRel_init Gen.pm1RingSize Gen.pm1RingCap 0 (by decide) (by decide)

/-- through the wrapper `lha_decoder_read`: any read schedule, a declared length not beyond the
expansion -/
theorem pm1_reads (st : Stream1) (bits : List Bool) (h : pm1Bits st = some bits)
    (hlt : (pm1Expand st).length < 4294967296) (c n b : Nat) (ks : List Nat)
    (hn : n ≤ (pm1Expand st).length) :
    (Wrap.reads (Dec.total Pm1.dec) ks
        { inner := .ok (Pm1.init { data := (packBits bits).toArray, chunk := c }),
          length := n, blockSize := b }).1.1
      = (pm1Expand st).take (min ks.sum n) := by
  rw [reads_fresh, pm1_round_trip st bits h hlt _ c (by omega)]

/-! ### non-vacuity -/

/-- a block of three literals followed by a self-overlapping copy, then a two-byte copy -/
def ex1 : Stream1 :=
  { tree := 3, cmds := [.block [(0x41, 0), (0x42, 0), (0x41, 0)] (some (1, 5)), .copy 0 2] }

example : ∃ bits, pm1Bits ex1 = some bits ∧ ∀ c, Wrap.avail (Dec.total Pm1.dec) 10
      (.ok (Pm1.init { data := (packBits bits).toArray, chunk := c }))
    = [0x41, 0x42, 0x41, 0x42, 0x41, 0x42, 0x41, 0x42, 0x42, 0x42] := by
  have hb : (pm1Bits ex1).isSome = true := by decide +kernel
  have hexp : pm1Expand ex1 = [0x41, 0x42, 0x41, 0x42, 0x41, 0x42, 0x41, 0x42, 0x42, 0x42] := by
    decide +kernel
  obtain ⟨bits, hbits⟩ := Option.isSome_iff_exists.mp hb
  refine ⟨bits, hbits, fun c => ?_⟩
  rw [pm1_round_trip ex1 bits hbits (by rw [hexp]; decide) 10 c (by rw [hexp]; decide), hexp]
  rfl

end LhasaV.PmRT
