import LhasaV.Model.Pm
import LhasaV.Lemmas.Safe
import LhasaV.Lemmas.BitsWf
import LhasaV.Lemmas.TreeSafe
import LhasaV.Lemmas.SafeExtra
/-!
C09 for the PMarc decoders: `pma_common.c`, `pm2_decoder.c`, `pm1_decoder.c` never fault,
for any input bytes and any chunking of the input callback.
-/
set_option linter.unusedSimpArgs false
namespace LhasaV
open LhasaV.Res

/-! ## pma_common.c: the history list -/
namespace Pma

/-- a 256-entry array of byte values (`uint8_t prev` / `uint8_t next` per node) -/
def ALt (a : Array Nat) : Prop := a.size = 256 ∧ ∀ (i : Nat) (v : Nat), a[i]? = some v → v < 256

/-- the history list invariant -/
structure HInv (h : Hist) : Prop where
  prev : ALt h.prev
  next : ALt h.next
  head : h.head < 256

theorem geta_safe (a : Array Nat) (site : String) (i : Nat) (ha : ALt a) (hi : i < 256) :
    Safe (geta a site i) (fun v => v < 256) := by
  unfold geta
  have hlt : i < a.size := by rw [ha.1]; exact hi
  have hget : a[i]? = some a[i] := by simp [hlt]
  rw [hget]
  exact safe_ok (ha.2 i _ hget)

theorem seta_safe (a : Array Nat) (site : String) (i v : Nat) (ha : ALt a) (hi : i < 256)
    (hv : v < 256) : Safe (seta a site i v) ALt := by
  unfold seta
  have hlt : i < a.size := by rw [ha.1]; exact hi
  simp only [hlt, ↓reduceIte]
  refine safe_ok ⟨by simpa using ha.1, ?_⟩
  intro j w hj
  simp only [Array.getElem?_setIfInBounds] at hj
  by_cases hij : i = j
  · simp only [hij, ↓reduceIte] at hj
    by_cases hjs : j < a.size
    · simp [hjs] at hj; omega
    · simp [hjs] at hj
  · simp only [hij, ↓reduceIte] at hj
    exact ha.2 j w hj

/-- `update_history_list` stays inside the 256 nodes and keeps the invariant -/
theorem update_safe (h : Hist) (b : Nat) (hh : HInv h) (hb : b < 256) :
    Safe (update h b) HInv := by
  unfold update
  by_cases hhd : h.head = b
  · simp only [hhd, ↓reduceIte]; exact safe_ok hh
  · simp only [hhd, ↓reduceIte]
    refine safe_bind (geta_safe _ _ _ hh.next hb) ?_; intro nNext hnN
    refine safe_bind (geta_safe _ _ _ hh.prev hb) ?_; intro nPrev hnP
    refine safe_bind (seta_safe _ _ _ _ hh.prev hnN hnP) ?_; intro prev1 hp1
    refine safe_bind (seta_safe _ _ _ _ hh.next hnP hnN) ?_; intro next1 hn1
    refine safe_bind (seta_safe _ _ _ _ hp1 hb hh.head) ?_; intro prev2 hp2
    refine safe_bind (geta_safe _ _ _ hn1 hh.head) ?_; intro oh1 hoh1
    refine safe_bind (seta_safe _ _ _ _ hn1 hb hoh1) ?_; intro next2 hn2
    refine safe_bind (geta_safe _ _ _ hn2 hh.head) ?_; intro oh2 hoh2
    refine safe_bind (seta_safe _ _ _ _ hp2 hoh2 hb) ?_; intro prev3 hp3
    refine safe_bind (seta_safe _ _ _ _ hn2 hh.head hb) ?_; intro next3 hn3
    exact safe_ok ⟨hp3, hn3, hb⟩

theorem walkPrev_safe (h : Hist) (k code : Nat) (hh : HInv h) (hc : code < 256) :
    Safe (walkPrev h k code) (fun v => v < 256) := by
  induction k generalizing code with
  | zero => exact safe_ok hc
  | succ k ih =>
    unfold walkPrev
    have hlt : code < h.prev.size := by rw [hh.prev.1]; exact hc
    have hget : h.prev[code]? = some h.prev[code] := by simp [hlt]
    rw [hget]
    exact ih _ (hh.prev.2 code _ hget)

theorem walkNext_safe (h : Hist) (k code : Nat) (hh : HInv h) (hc : code < 256) :
    Safe (walkNext h k code) (fun v => v < 256) := by
  induction k generalizing code with
  | zero => exact safe_ok hc
  | succ k ih =>
    unfold walkNext
    have hlt : code < h.next.size := by rw [hh.next.1]; exact hc
    have hget : h.next[code]? = some h.next[code] := by simp [hlt]
    rw [hget]
    exact ih _ (hh.next.2 code _ hget)

/-- `find_in_history_list` stays inside the 256 nodes and returns a byte value -/
theorem find_safe (h : Hist) (count : Nat) (hh : HInv h) :
    Safe (find h count) (fun v => v < 256) := by
  unfold find
  split
  · exact walkPrev_safe h _ _ hh hh.head
  · exact walkNext_safe h _ _ hh hh.head

theorem alt_of_all (l : List Nat) (hl : l.length = 256) (ha : l.all (fun v => decide (v < 256)) = true) :
    ALt l.toArray := by
  refine ⟨by simpa using hl, ?_⟩
  intro i v hv
  rw [List.all_eq_true] at ha
  have hm : v ∈ l := by
    have : l[i]? = some v := by simpa using hv
    exact List.mem_of_getElem? this
  simpa using ha v hm

theorem initHist_inv : HInv initHist := by
  refine ⟨alt_of_all _ ?_ ?_, alt_of_all _ ?_ ?_, ?_⟩
  · decide +kernel
  · decide +kernel
  · decide +kernel
  · decide +kernel
  · decide

/-- `decode_variable_length` with an in-range header -/
theorem decodeVarLen_safe (site : String) (table : List (Nat × Nat)) (r : Bits) (header : Nat)
    (hh : header < table.length) (hr : Bits.WF r) :
    Safe (decodeVarLen site table r header) (fun p => Bits.WF p.2) := by
  unfold decodeVarLen
  have hget : table[header]? = some table[header] := by simp [hh]
  rw [hget]
  rcases table[header] with ⟨off, nbits⟩
  exact safe_ok (Bits.readBits_wf r nbits hr)

end Pma

/-! ## -pm2- -/
namespace Pm2

/-- state invariant of the -pm2- decoder -/
structure Inv (s : St) : Prop where
  bits : s.bits.buf < 4294967296
  ringSz : s.ring.size = Gen.pm2RingCap
  pos : s.pos < Gen.pm2RingSize
  hist : Pma.HInv s.hist
  codeFwd : Tree.Fwd lb s.codeTree
  codeSz : s.codeTree.size = Gen.pm2CodeTreeCap
  offFwd : Tree.Fwd lb s.offsetTree
  offSz : s.offsetTree.size = Gen.pm2OffsetTreeCap

theorem Inv.withBits {s s' : St} (h : Inv s) (hb : Bits.WF s'.bits) (h1 : s'.ring = s.ring)
    (h2 : s'.pos = s.pos) (h3 : s'.hist = s.hist) (h4 : s'.codeTree = s.codeTree)
    (h5 : s'.offsetTree = s.offsetTree) : Inv s' :=
  { bits := hb, ringSz := h1 ▸ h.ringSz, pos := h2 ▸ h.pos, hist := h3 ▸ h.hist,
    codeFwd := h4 ▸ h.codeFwd, codeSz := h4 ▸ h.codeSz, offFwd := h5 ▸ h.offFwd,
    offSz := h5 ▸ h.offSz }

theorem init_inv (src : Src) : Inv (init src) :=
  { bits := by simp [init]
    ringSz := by simp [init]
    pos := by simp [init, Gen.pm2RingSize]
    hist := Pma.initHist_inv
    codeFwd := (Tree.initTree_fwd _ _).1
    codeSz := (Tree.initTree_fwd _ _).2
    offFwd := (Tree.initTree_fwd _ _).1
    offSz := (Tree.initTree_fwd _ _).2 }

theorem codeLenLoop_safe (minLen lengthBits k i : Nat) (lens : Array Nat) (r : Bits)
    (hk : k + i ≤ 31) (hr : Bits.WF r) :
    Safe (codeLenLoop minLen lengthBits k i lens r) (fun p => Bits.WF p.2) := by
  induction k generalizing i lens r with
  | zero => exact safe_ok hr
  | succ k ih =>
    unfold codeLenLoop
    simp only
    have hr' := Bits.readBits_wf r lengthBits hr
    cases hp : (r.readBits lengthBits).1 with
    | none => exact safe_ok hr'
    | some v =>
      simp only
      have hi : i < 31 := by omega
      simp only [hi, ↓reduceIte]
      exact ih _ _ _ (by omega) hr'

theorem readCodeTree_safe (s : St) (h : Inv s) : Safe (readCodeTree s) Inv := by
  unfold readCodeTree
  simp only
  have ha := Bits.readBits_wf s.bits 5 h.bits
  have hb := Bits.readBits_wf _ 3 ha
  cases hpa : (s.bits.readBits 5).1 with
  | none => exact safe_ok (h.withBits hb rfl rfl rfl rfl rfl)
  | some numCodes =>
    cases hpb : ((s.bits.readBits 5).2.readBits 3).1 with
    | none => exact safe_ok (h.withBits hb rfl rfl rfl rfl rfl)
    | some minLen =>
      simp only
      have hnc : numCodes < 2 ^ 5 := Bits.readBits_lt _ _ h.bits _ hpa
      by_cases hm : minLen = 0
      · simp only [hm, ↓reduceIte]
        exact safe_ok
          { bits := hb, ringSz := h.ringSz, pos := h.pos, hist := h.hist,
            codeFwd := (Tree.setSingle_fwd _ _ _ h.codeFwd).1,
            codeSz := by rw [(Tree.setSingle_fwd _ _ _ h.codeFwd).2]; exact h.codeSz,
            offFwd := h.offFwd, offSz := h.offSz }
      · simp only [hm, ↓reduceIte]
        have hc := Bits.readBits_wf _ 3 hb
        cases hpc : (((s.bits.readBits 5).2.readBits 3).2.readBits 3).1 with
        | none => exact safe_ok (h.withBits hc rfl rfl rfl rfl rfl)
        | some lengthBits =>
          simp only
          refine safe_bind (codeLenLoop_safe minLen lengthBits numCodes 0 _ _ (by omega) hc) ?_
          intro t ht
          cases hlens : t.1 with
          | none => exact safe_ok (h.withBits ht rfl rfl rfl rfl rfl)
          | some lens =>
            simp only
            have hbt := Tree.buildTree_safe lb s.codeTree Gen.pm2CodeTreeElements
              (lens.toList.take numCodes) h.codeFwd (by rw [h.codeSz]; decide)
              (by rw [h.codeSz]; decide) (by rw [h.codeSz]; decide)
            simp only [hbt.2.2, Bool.false_eq_true, ↓reduceIte]
            exact safe_ok
              { bits := ht, ringSz := h.ringSz, pos := h.pos, hist := h.hist,
                codeFwd := hbt.1, codeSz := by rw [hbt.2.1]; exact h.codeSz,
                offFwd := h.offFwd, offSz := h.offSz }

theorem offLenLoop_safe (k off : Nat) (lens : Array Nat) (single n : Nat) (r : Bits)
    (hk : k + off ≤ 8) (hr : Bits.WF r) :
    Safe (offLenLoop k off lens single n r) (fun p => Bits.WF p.2) := by
  induction k generalizing off lens single n r with
  | zero => exact safe_ok hr
  | succ k ih =>
    unfold offLenLoop
    simp only
    have hr' := Bits.readBits_wf r 3 hr
    cases hp : (r.readBits 3).1 with
    | none => exact safe_ok hr'
    | some len =>
      simp only
      have hi : off < 8 := by omega
      simp only [hi, ↓reduceIte]
      by_cases hl : len = 0
      · simp only [hl, ne_eq, not_true_eq_false, ↓reduceIte]
        exact ih _ _ _ _ _ (by omega) hr'
      · simp only [hl, ne_eq, not_false_eq_true, ↓reduceIte]
        exact ih _ _ _ _ _ (by omega) hr'

theorem readOffsetTree_safe (s : St) (numOffsets : Nat) (hn : numOffsets ≤ 8) (h : Inv s) :
    Safe (readOffsetTree s numOffsets) Inv := by
  unfold readOffsetTree
  by_cases hneed : s.needOffsetTree = true
  · simp only [hneed, Bool.not_true, Bool.false_eq_true, ↓reduceIte]
    refine safe_bind (offLenLoop_safe numOffsets 0 _ 0 0 s.bits (by omega) h.bits) ?_
    intro t ht
    rcases hlens : t.1 with _ | ⟨lens, single, n⟩
    · exact safe_ok (h.withBits ht rfl rfl rfl rfl rfl)
    · simp only
      by_cases hn1 : n = 1
      · simp only [hn1, ↓reduceIte]
        exact safe_ok
          { bits := ht, ringSz := h.ringSz, pos := h.pos, hist := h.hist,
            codeFwd := h.codeFwd, codeSz := h.codeSz,
            offFwd := (Tree.setSingle_fwd _ _ _ h.offFwd).1,
            offSz := by rw [(Tree.setSingle_fwd _ _ _ h.offFwd).2]; exact h.offSz }
      · simp only [hn1, ↓reduceIte]
        have hbt := Tree.buildTree_safe lb s.offsetTree Gen.pm2OffsetTreeElements
          (lens.toList.take numOffsets) h.offFwd (by rw [h.offSz]; decide)
          (by rw [h.offSz]; decide) (by rw [h.offSz]; decide)
        simp only [hbt.2.2, Bool.false_eq_true, ↓reduceIte]
        exact safe_ok
          { bits := ht, ringSz := h.ringSz, pos := h.pos, hist := h.hist,
            codeFwd := h.codeFwd, codeSz := h.codeSz,
            offFwd := hbt.1, offSz := by rw [hbt.2.1]; exact h.offSz }
  · simp only [hneed, Bool.not_false, ↓reduceIte]
    exact safe_ok h

theorem Inv.meta {s : St} (h : Inv s) (ts : TreeState) (rr : Nat) :
    Inv { s with treeState := ts, rebuildRemaining := rr } := h.withBits h.bits rfl rfl rfl rfl rfl

theorem rebuildTree_safe (s : St) (h : Inv s) : Safe (rebuildTree s) Inv := by
  unfold rebuildTree
  cases hts : s.treeState with
  | unbuilt =>
    simp only
    refine safe_bind (readCodeTree_safe s h) ?_; intro s1 h1
    refine safe_bind (readOffsetTree_safe s1 5 (by decide) h1) ?_; intro s2 h2
    exact safe_ok (h2.meta _ _)
  | build1 =>
    simp only
    refine safe_bind (readOffsetTree_safe s 6 (by decide) h) ?_; intro s2 h2
    exact safe_ok (h2.meta _ _)
  | build2 =>
    simp only
    refine safe_bind (readOffsetTree_safe s 7 (by decide) h) ?_; intro s2 h2
    exact safe_ok (h2.meta _ _)
  | build3 =>
    simp only
    have hs0 : ∀ ts, Inv { s with bits := s.bits.readBit.2, treeState := ts } :=
      fun _ => h.withBits (Bits.readBit_wf _ h.bits) rfl rfl rfl rfl rfl
    refine safe_bind (P := Inv) ?_ ?_
    · by_cases hp : s.bits.readBit.1 = some 1
      · simp only [hp, ↓reduceIte]; exact readCodeTree_safe _ (hs0 _)
      · simp only [hp, ↓reduceIte]; exact safe_ok (hs0 _)
    · intro s1 h1
      refine safe_bind (readOffsetTree_safe s1 8 (by decide) h1) ?_; intro s2 h2
      exact safe_ok (h2.meta _ _)
  | continuing =>
    simp only
    have hs0 : ∀ ts, Inv { s with bits := s.bits.readBit.2, treeState := ts } :=
      fun _ => h.withBits (Bits.readBit_wf _ h.bits) rfl rfl rfl rfl rfl
    refine safe_bind (P := Inv) ?_ ?_
    · by_cases hp : s.bits.readBit.1 = some 1
      · simp only [hp, ↓reduceIte]
        refine safe_bind (readCodeTree_safe _ (hs0 _)) ?_; intro s1 h1
        exact readOffsetTree_safe s1 8 (by decide) h1
      · simp only [hp, ↓reduceIte]; exact safe_ok (hs0 _)
    · intro s1 h1
      exact safe_ok (h1.withBits h1.bits rfl rfl rfl rfl rfl)

theorem outputByte_safe (s : St) (b : UInt8) (h : Inv s) : Safe (outputByte s b) Inv := by
  unfold outputByte
  have hp : s.pos < s.ring.size := by rw [h.ringSz]; exact h.pos
  simp only [hp, ↓reduceIte]
  refine safe_bind (Pma.update_safe _ _ h.hist (UInt8.toNat_lt b)) ?_
  intro hist hh
  have hs1 : Inv { s with ring := s.ring.setIfInBounds s.pos b, pos := (s.pos + 1) % Gen.pm2RingSize,
                          hist := hist, rebuildRemaining := s.rebuildRemaining - 1 } :=
    { bits := h.bits, ringSz := by simpa using h.ringSz, pos := Nat.mod_lt _ (by decide),
      hist := hh, codeFwd := h.codeFwd, codeSz := h.codeSz, offFwd := h.offFwd, offSz := h.offSz }
  by_cases hz : s.rebuildRemaining - 1 = 0
  · simp only [hz, ↓reduceIte]
    exact rebuildTree_safe _ (hz ▸ hs1)
  · simp only [hz, ↓reduceIte]
    exact safe_ok hs1

theorem copyLoop_safe (k src : Nat) (s : St) (acc : List UInt8) (h : Inv s) :
    Safe (copyLoop k src s acc) (fun r => Inv r.1 ∧ r.2.length = acc.length + k) := by
  induction k generalizing src s acc with
  | zero => exact safe_ok ⟨h, rfl⟩
  | succ k ih =>
    unfold copyLoop
    have hlt : src % Gen.pm2RingSize < s.ring.size := by
      rw [h.ringSz]; exact Nat.mod_lt _ (by decide)
    have hget : s.ring[src % Gen.pm2RingSize]? = some s.ring[src % Gen.pm2RingSize] := by
      simp [hlt]
    rw [hget]
    simp only
    refine safe_bind (outputByte_safe s _ h) ?_
    intro s' hs'
    refine safe_mono (ih (src + 1) s' _ hs') ?_
    intro r hr
    refine ⟨hr.1, ?_⟩
    rw [hr.2]; simp; omega

theorem historyGetOffset_safe (s : St) (code : Nat) (h : Inv s) :
    Safe (historyGetOffset s code) (fun p => Bits.WF p.2) := by
  unfold historyGetOffset
  by_cases hc : code = 0
  · simp only [hc, ↓reduceIte]
    exact safe_ok (Bits.readBits_wf _ 6 h.bits)
  · simp only [hc, ↓reduceIte]
    by_cases hc2 : code < 20
    · simp only [hc2, ↓reduceIte]
      refine safe_bind (Tree.readFromTree_safe lb (fun _ => True) s.offsetTree s.bits h.offFwd
        (fun _ _ _ => trivial) (by rw [h.offSz]; decide) h.bits) ?_
      intro t ht'
      have ht := ht'.1
      cases hv : t.1 with
      | none => exact safe_ok ht
      | some v =>
        simp only
        by_cases hv0 : v = 0
        · simp only [hv0, ↓reduceIte]; exact safe_ok (Bits.readBits_wf _ 6 ht)
        · simp only [hv0, ↓reduceIte]; exact safe_ok (Bits.readBits_wf _ _ ht)
    · simp only [hc2, ↓reduceIte]
      exact safe_ok h.bits

theorem read_safe (s : St) (h : Inv s) :
    Safe (read s) (fun r => Inv r.2 ∧ r.1.length ≤ Gen.pm2MaxRead) := by
  unfold read
  refine safe_bind (P := Inv) ?_ ?_
  · by_cases hu : (s.treeState == TreeState.unbuilt) = true
    · simp only [hu, ↓reduceIte]
      exact rebuildTree_safe _ (h.withBits (Bits.readBit_wf _ h.bits) rfl rfl rfl rfl rfl)
    · simp only [hu, Bool.false_eq_true, ↓reduceIte]
      exact safe_ok h
  · intro s1 h1
    refine safe_bind (Tree.readFromTree_safe lb (fun _ => True) s1.codeTree s1.bits h1.codeFwd
      (fun _ _ _ => trivial) (by rw [h1.codeSz]; decide) h1.bits) ?_
    intro t ht'
    have ht := ht'.1
    cases hcode : t.1 with
    | none => exact safe_ok ⟨h1.withBits ht rfl rfl rfl rfl rfl, by simp⟩
    | some code =>
      simp only
      have h2 : Inv { s1 with bits := t.2 } := h1.withBits ht rfl rfl rfl rfl rfl
      by_cases hc8 : code < 8
      · simp only [hc8, ↓reduceIte]
        refine safe_bind (Pma.decodeVarLen_safe _ _ _ _ (by simpa [Gen.pm2HistoryDecode] using hc8) ht) ?_
        intro d hd
        cases hoff : d.1 with
        | none => exact safe_ok ⟨h1.withBits hd rfl rfl rfl rfl rfl, by simp⟩
        | some off =>
          simp only
          refine safe_bind (Pma.find_safe _ _ h1.hist) ?_
          intro b _
          refine safe_bind (outputByte_safe _ _ (h1.withBits hd rfl rfl rfl rfl rfl)) ?_
          intro s' hs'
          exact safe_ok ⟨hs', by simp [Gen.pm2MaxRead]⟩
      · simp only [hc8, ↓reduceIte]
        refine safe_bind (P := fun p => Bits.WF p.2) ?_ ?_
        · by_cases hc15 : code - 8 < 15
          · simp only [hc15, ↓reduceIte]; exact safe_ok ht
          · simp only [hc15, ↓reduceIte]
            by_cases hcd : code - 8 - 15 < Gen.pm2CopyDecode.length
            · simp only [hcd, ↓reduceIte]
              exact Pma.decodeVarLen_safe _ _ _ _ hcd ht
            · simp only [hcd, ↓reduceIte]; exact safe_ok ht
        · intro cnt hcnt
          refine safe_bind (historyGetOffset_safe _ _ (h1.withBits hcnt rfl rfl rfl rfl rfl)) ?_
          intro off hoff
          have h3 : Inv { s1 with bits := off.2 } := h1.withBits hoff rfl rfl rfl rfl rfl
          cases hc1 : cnt.1 with
          | none => exact safe_ok ⟨h3, by simp⟩
          | some toCopy =>
            cases hc2 : off.1 with
            | none => exact safe_ok ⟨h3, by simp⟩
            | some offset =>
              simp only
              by_cases hbig : toCopy > Gen.pm2OutputBufferSize
              · simp only [hbig, ↓reduceIte]; exact safe_ok ⟨h3, by simp⟩
              · simp only [hbig, ↓reduceIte]
                refine safe_bind (copyLoop_safe toCopy _ _ [] h3) ?_
                intro r hr
                refine safe_ok ⟨hr.1, ?_⟩
                simp only [List.length_reverse, hr.2, List.length_nil, Gen.pm2MaxRead]
                simp only [Gen.pm2OutputBufferSize] at hbig
                omega

theorem read_no_fault (s : St) (h : Inv s) : ∀ w, read s ≠ .fault w := (read_safe s h).1

theorem read_inv (s : St) (h : Inv s) (out : List UInt8) (s' : St) (hr : read s = .ok (out, s')) :
    Inv s' := ((read_safe s h).2 _ hr).1

theorem read_len (s : St) (h : Inv s) (out : List UInt8) (s' : St) (hr : read s = .ok (out, s')) :
    out.length ≤ Gen.pm2MaxRead := ((read_safe s h).2 _ hr).2

/-- after any number of successful reads, for ANY input bytes and chunking, the next read of
the -pm2- decoder performs no invalid memory access -/
theorem run_no_fault (src : Src) (n : Nat) (s : St) (hs : Dec.Reach dec src n s) :
    ∀ w, read s ≠ .fault w :=
  read_no_fault s (Dec.reach_inv dec Inv init_inv read_inv src n s hs)

end Pm2

/-! ## -pm1- -/
namespace Pm1

/-- state invariant of the -pm1- decoder -/
structure Inv (s : St) : Prop where
  bits : s.bits.buf < 4294967296
  ringSz : s.ring.size = Gen.pm1RingCap
  pos : s.pos < Gen.pm1RingSize
  hist : Pma.HInv s.hist
  tree : ∀ row, s.tree = some row → row < Gen.pm1TreeRows

theorem Inv.withBits {s s' : St} (h : Inv s) (hb : Bits.WF s'.bits) (h1 : s'.ring = s.ring)
    (h2 : s'.pos = s.pos) (h3 : s'.hist = s.hist) (h4 : s'.tree = s.tree) : Inv s' :=
  { bits := hb, ringSz := h1 ▸ h.ringSz, pos := h2 ▸ h.pos, hist := h3 ▸ h.hist,
    tree := h4 ▸ h.tree }

theorem init_inv (src : Src) : Inv (init src) :=
  { bits := by simp [init]
    ringSz := by simp [init]
    pos := by simp [init, Gen.pm1RingSize]
    hist := Pma.initHist_inv
    tree := by simp [init] }

theorem outputted_safe (s : St) (b : UInt8) (h : Inv s) :
    Safe (outputted s b) (fun s' => Inv s' ∧ s'.bits = s.bits) := by
  unfold outputted
  have hp : s.pos < s.ring.size := by rw [h.ringSz]; exact h.pos
  simp only [hp, ↓reduceIte]
  refine safe_bind (Pma.update_safe _ _ h.hist (UInt8.toNat_lt b)) ?_
  intro hist hh
  exact safe_ok
    ⟨{ bits := h.bits, ringSz := by simpa using h.ringSz, pos := Nat.mod_lt _ (by decide),
       hist := hh, tree := h.tree }, rfl⟩

/-- a pure bit-reading helper keeps the reader well-formed and returns at most `B` -/
def PB (p : Option Nat × Bits) (B : Nat) : Prop := Bits.WF p.2 ∧ ∀ v, p.1 = some v → v ≤ B

theorem mapAdd_ok (r : Bits) (n off B : Nat) (hr : Bits.WF r)
    (hB : 2 ^ n + off ≤ B + 1) : PB ((r.readBits n).1.map (· + off), (r.readBits n).2) B := by
  refine ⟨Bits.readBits_wf r n hr, ?_⟩
  intro v hv
  cases hp : (r.readBits n).1 with
  | none => simp [hp] at hv
  | some x =>
    have := Bits.readBits_lt _ _ hr _ hp
    simp [hp] at hv
    omega

theorem readCopyByteCount_ok (r : Bits) (hr : Bits.WF r) :
    PB (readCopyByteCount r) Gen.pm1MaxCopyBlockLen := by
  unfold readCopyByteCount
  simp only
  have ha := Bits.readBits_wf r 2 hr
  cases hpa : (r.readBits 2).1 with
  | none => exact ⟨ha, by simp⟩
  | some x =>
    simp only
    by_cases h3 : x < 3
    · simp only [h3, ↓reduceIte]
      exact ⟨ha, by intro v hv; simp at hv; simp only [Gen.pm1MaxCopyBlockLen]; omega⟩
    · simp only [h3, ↓reduceIte]
      have hb := Bits.readBits_wf _ 3 ha
      cases hpb : ((r.readBits 2).2.readBits 3).1 with
      | none => exact ⟨hb, by simp⟩
      | some y =>
        simp only
        by_cases h5 : y < 5
        · simp only [h5, ↓reduceIte]
          exact ⟨hb, by intro v hv; simp at hv; simp only [Gen.pm1MaxCopyBlockLen]; omega⟩
        · simp only [h5, ↓reduceIte]
          by_cases h5e : y = 5
          · simp only [h5e, ↓reduceIte]
            exact mapAdd_ok _ 2 11 _ hb (by decide)
          · simp only [h5e, ↓reduceIte]
            by_cases h6e : y = 6
            · simp only [h6e, ↓reduceIte]
              exact mapAdd_ok _ 3 15 _ hb (by decide)
            · simp only [h6e, ↓reduceIte]
              have hc := Bits.readBits_wf _ 6 hb
              cases hpc : (((r.readBits 2).2.readBits 3).2.readBits 6).1 with
              | none => exact ⟨hc, by simp⟩
              | some z =>
                simp only
                by_cases h62 : z < 62
                · simp only [h62, ↓reduceIte]
                  exact ⟨hc, by intro v hv; simp at hv; simp only [Gen.pm1MaxCopyBlockLen]; omega⟩
                · simp only [h62, ↓reduceIte]
                  by_cases h62e : z = 62
                  · simp only [h62e, ↓reduceIte]
                    exact mapAdd_ok _ 5 85 _ hc (by decide)
                  · simp only [h62e, ↓reduceIte]
                    exact mapAdd_ok _ 7 117 _ hc (by decide)

theorem bitAfter_ok (s : St) (r : Bits) (threshold deflt : Nat) (hr : Bits.WF r) (hd : deflt ≤ 1) :
    PB (bitAfter s r threshold deflt) 1 := by
  unfold bitAfter
  by_cases ht : s.outPos ≥ threshold
  · simp only [ht, ↓reduceIte]
    refine ⟨Bits.readBit_wf r hr, ?_⟩
    intro v hv
    exact Bits.readBit_le _ hr v hv
  · simp only [ht, ↓reduceIte]
    exact ⟨hr, by intro v hv; simp at hv; omega⟩

theorem readCopyTypeRange_ok (s : St) (hr : Bits.WF s.bits) : PB (readCopyTypeRange s) 5 := by
  unfold readCopyTypeRange
  simp only
  have ha := Bits.readBit_wf _ hr
  rcases hpa : s.bits.readBit.1 with _ | ⟨_ | a⟩
  · exact ⟨ha, by simp⟩
  · simp only
    have hb := bitAfter_ok s s.bits.readBit.2 576 0 ha (by decide)
    cases hpb : (bitAfter s s.bits.readBit.2 576 0).1 with
    | none => exact ⟨hb.1, by simp⟩
    | some x =>
      simp only
      by_cases hx : x = 0
      · simp only [hx, ne_eq, not_true_eq_false, ↓reduceIte]
        have hc := bitAfter_ok s (bitAfter s s.bits.readBit.2 576 0).2 64 0 hb.1 (by decide)
        exact ⟨hc.1, fun v hv => Nat.le_trans (hc.2 v hv) (by decide)⟩
      · simp only [hx, ne_eq, not_false_eq_true, ↓reduceIte]
        exact ⟨hb.1, by simp⟩
  · simp only
    have hb := bitAfter_ok s s.bits.readBit.2 64 1 ha (by decide)
    rcases hpb : (bitAfter s s.bits.readBit.2 64 1).1 with _ | ⟨_ | b⟩
    · exact ⟨hb.1, by simp⟩
    · exact ⟨hb.1, by simp⟩
    · simp only
      have hc := bitAfter_ok s (bitAfter s s.bits.readBit.2 64 1).2 2624 1 hb.1 (by decide)
      cases hpc : (bitAfter s (bitAfter s s.bits.readBit.2 64 1).2 2624 1).1 with
      | none => exact ⟨hc.1, by simp⟩
      | some x =>
        simp only
        by_cases hx : x = 0
        · simp only [hx, ne_eq, not_true_eq_false, ↓reduceIte]
          exact ⟨hc.1, by simp⟩
        · simp only [hx, ne_eq, not_false_eq_true, ↓reduceIte]
          exact ⟨hc.1, by simp⟩

theorem narrow_le (outPos ri : Nat) (h : ri ≤ 5) : narrow outPos ri ≤ 14 := by
  unfold narrow
  repeat' split
  all_goals omega

theorem copyLoop_safe (k idx : Nat) (s : St) (acc : List UInt8) (h : Inv s)
    (hi : idx < Gen.pm1RingSize) :
    Safe (copyLoop k idx s acc)
      (fun r => Inv r.1 ∧ r.1.bits = s.bits ∧ r.2.length = acc.length + k) := by
  induction k generalizing idx s acc with
  | zero => exact safe_ok ⟨h, rfl, rfl⟩
  | succ k ih =>
    unfold copyLoop
    have hlt : idx < s.ring.size := by rw [h.ringSz]; exact hi
    have hget : s.ring[idx]? = some s.ring[idx] := by simp [hlt]
    rw [hget]
    simp only
    refine safe_bind (outputted_safe s _ h) ?_
    intro s' hs'
    refine safe_mono (ih ((idx + 1) % Gen.pm1RingSize) s' _ hs'.1 (Nat.mod_lt _ (by decide))) ?_
    intro r hr
    refine ⟨hr.1, by rw [hr.2.1, hs'.2], ?_⟩
    rw [hr.2.2]; simp; omega

/-- `read_copy_command`: `copy_ranges[range_index]` is always inside the 15-entry table -/
theorem readCopyCommand_safe (s : St) (h : Inv s) :
    Safe (readCopyCommand s) (fun r => Inv r.2 ∧ r.1.length ≤ Gen.pm1MaxCopyBlockLen) := by
  unfold readCopyCommand
  simp only
  have ha := readCopyTypeRange_ok s h.bits
  cases hpa : (readCopyTypeRange s).1 with
  | none => exact safe_ok ⟨h.withBits ha.1 rfl rfl rfl rfl, by simp⟩
  | some ri =>
    simp only
    have hri := ha.2 ri hpa
    have hcnt : PB (if ri < 2 then (some 2, (readCopyTypeRange s).2)
        else readCopyByteCount (readCopyTypeRange s).2) Gen.pm1MaxCopyBlockLen := by
      by_cases h2 : ri < 2
      · simp only [h2, ↓reduceIte]
        exact ⟨ha.1, by intro v hv; simp at hv; simp only [Gen.pm1MaxCopyBlockLen]; omega⟩
      · simp only [h2, ↓reduceIte]
        exact readCopyByteCount_ok _ ha.1
    generalize (if ri < 2 then (some 2, (readCopyTypeRange s).2)
        else readCopyByteCount (readCopyTypeRange s).2) = cnt at hcnt
    cases hpc : cnt.1 with
    | none => exact safe_ok ⟨h.withBits hcnt.1 rfl rfl rfl rfl, by simp⟩
    | some count =>
      simp only
      have hcount := hcnt.2 count hpc
      refine safe_bind (Pma.decodeVarLen_safe _ _ _ _ ?_ hcnt.1) ?_
      · have := narrow_le s.outPos ri hri
        have hl : Gen.pm1CopyRanges.length = 15 := by decide
        omega
      · intro d hd
        have h2 : Inv { s with bits := d.2 } := h.withBits hd rfl rfl rfl rfl
        cases hpd : d.1 with
        | none => exact safe_ok ⟨h2, by simp⟩
        | some dist =>
          simp only
          by_cases hdist : dist ≥ s.outPos
          · simp only [hdist, ↓reduceIte]; exact safe_ok ⟨h2, by simp⟩
          · simp only [hdist, ↓reduceIte]
            refine safe_bind (copyLoop_safe count _ _ [] h2 (Nat.mod_lt _ (by decide))) ?_
            intro r hr
            refine safe_ok ⟨hr.1, ?_⟩
            simp only [List.length_reverse, hr.2.2, List.length_nil]
            omega

/-! ### the static `byte_decode_trees` table -/

/-- boolean checker: every walk from `ptr` stays inside the flattened table and reaches a leaf
within `k` steps, whatever bits are read -/
def walkOk : Nat → Nat → Bool
  | 0, _ => false
  | k+1, ptr =>
    match Gen.pm1ByteDecodeTrees[ptr]? with
    | none => false
    | some v =>
      (decide ((v / 16) % 16 ≥ 10) || walkOk k (ptr + (v / 16) % 16)) &&
      (decide (v % 16 ≥ 10) || walkOk k (ptr + v % 16))

/-- checker for one row of the table, as used by `read_byte_decode_index` (fuel 64) -/
def rowOk (row : Nat) : Bool :=
  match Gen.pm1ByteDecodeTrees[row * Gen.pm1TreeRowLen]? with
  | none => false
  | some 0 => true
  | some _ => walkOk 64 (row * Gen.pm1TreeRowLen)

/-- the finite check over the 32 rows of `Gen.pm1ByteDecodeTrees` -/
theorem rows_ok : ∀ row, row < Gen.pm1TreeRows → rowOk row = true := by
  decide +kernel

/-- soundness of the checker -/
theorem treeWalk_safe (k ptr : Nat) (r : Bits) (hk : walkOk k ptr = true) (hr : Bits.WF r) :
    Safe (treeWalk k ptr r) (fun p => PB p 5) := by
  induction k generalizing ptr r with
  | zero => simp [walkOk] at hk
  | succ k ih =>
    unfold walkOk at hk
    unfold treeWalk
    simp only
    have hr' := Bits.readBit_wf r hr
    cases hp : r.readBit.1 with
    | none => exact safe_ok ⟨hr', by simp⟩
    | some bit =>
      simp only
      cases hT : Gen.pm1ByteDecodeTrees[ptr]? with
      | none => simp [hT] at hk
      | some v =>
        simp only [hT, Bool.and_eq_true, Bool.or_eq_true, decide_eq_true_eq] at hk ⊢
        by_cases hbit : bit = 0
        · simp only [hbit, ↓reduceIte]
          by_cases hleaf : (v / 16) % 16 ≥ 10
          · simp only [hleaf, ↓reduceIte]
            refine safe_ok ⟨hr', ?_⟩
            intro w hw
            have : (v / 16) % 16 < 16 := Nat.mod_lt _ (by decide)
            simp at hw; omega
          · simp only [hleaf, ↓reduceIte]
            rcases hk.1 with h1 | h1
            · exact absurd h1 hleaf
            · exact ih _ _ h1 hr'
        · simp only [hbit, ↓reduceIte]
          by_cases hleaf : v % 16 ≥ 10
          · simp only [hleaf, ↓reduceIte]
            refine safe_ok ⟨hr', ?_⟩
            intro w hw
            have : v % 16 < 16 := Nat.mod_lt _ (by decide)
            simp at hw; omega
          · simp only [hleaf, ↓reduceIte]
            rcases hk.2 with h1 | h1
            · exact absurd h1 hleaf
            · exact ih _ _ h1 hr'

/-- `read_byte_decode_index` stays inside `byte_decode_trees`, terminates, and returns an index
into the 6-entry `byte_ranges` -/
theorem readByteDecodeIndex_safe (s : St) (row : Nat) (hrow : row < Gen.pm1TreeRows)
    (hr : Bits.WF s.bits) : Safe (readByteDecodeIndex s row) (fun p => PB p 5) := by
  have hk := rows_ok row hrow
  unfold rowOk at hk
  unfold readByteDecodeIndex
  rcases hT : Gen.pm1ByteDecodeTrees[row * Gen.pm1TreeRowLen]? with _ | ⟨_ | v⟩
  · simp [hT] at hk
  · exact safe_ok ⟨hr, by simp⟩
  · simp only [hT] at hk ⊢
    exact treeWalk_safe 64 _ _ hk hr

theorem readByte_safe (s : St) (row : Nat) (hrow : row < Gen.pm1TreeRows) (h : Inv s) :
    Safe (readByte s row) (fun p => Bits.WF p.2) := by
  unfold readByte
  refine safe_bind (readByteDecodeIndex_safe s row hrow h.bits) ?_
  intro i hi
  cases hpi : i.1 with
  | none => exact safe_ok hi.1
  | some index =>
    simp only
    have hidx := hi.2 index hpi
    refine safe_bind (Pma.decodeVarLen_safe _ _ _ _ ?_ hi.1) ?_
    · have hl : Gen.pm1ByteRanges.length = 6 := by decide
      omega
    · intro c hc
      cases hpc : c.1 with
      | none => exact safe_ok hc
      | some count =>
        simp only
        refine safe_bind (Pma.find_safe _ _ h.hist) ?_
        intro b _
        exact safe_ok hc

theorem readByteBlockCount_ok (r : Bits) (hr : Bits.WF r) :
    Bits.WF (readByteBlockCount r).2 ∧ (readByteBlockCount r).1 ≤ Gen.pm1MaxByteBlockLen := by
  unfold readByteBlockCount
  simp only
  have ha := Bits.readBits_wf r 2 hr
  cases hpa : (r.readBits 2).1 with
  | none => exact ⟨ha, by simp⟩
  | some x =>
    simp only
    by_cases h3 : x < 3
    · simp only [h3, ↓reduceIte]
      exact ⟨ha, by simp only [Gen.pm1MaxByteBlockLen]; omega⟩
    · simp only [h3, ↓reduceIte]
      have hb := Bits.readBits_wf _ 3 ha
      cases hpb : ((r.readBits 2).2.readBits 3).1 with
      | none => exact ⟨hb, by simp⟩
      | some y =>
        simp only
        by_cases h7 : y < 7
        · simp only [h7, ↓reduceIte]
          exact ⟨hb, by simp only [Gen.pm1MaxByteBlockLen]; omega⟩
        · simp only [h7, ↓reduceIte]
          have hc := Bits.readBits_wf _ 4 hb
          cases hpc : (((r.readBits 2).2.readBits 3).2.readBits 4).1 with
          | none => exact ⟨hc, by simp⟩
          | some z =>
            simp only
            by_cases h14 : z < 14
            · simp only [h14, ↓reduceIte]
              exact ⟨hc, by simp only [Gen.pm1MaxByteBlockLen]; omega⟩
            · simp only [h14, ↓reduceIte]
              by_cases h14e : z = 14
              · simp only [h14e, ↓reduceIte]
                have hd := mapAdd_ok _ 6 25 88 hc (by decide)
                refine ⟨hd.1, ?_⟩
                cases hpd : (Option.map (fun x => x + 25)
                  ((((r.readBits 2).2.readBits 3).2.readBits 4).2.readBits 6).1) with
                | none => simp
                | some w =>
                  have := hd.2 w hpd
                  simp only [Option.getD_some, Gen.pm1MaxByteBlockLen]; omega
              · simp only [h14e, ↓reduceIte]
                have hd := mapAdd_ok _ 7 89 216 hc (by decide)
                refine ⟨hd.1, ?_⟩
                cases hpd : (Option.map (fun x => x + 89)
                  ((((r.readBits 2).2.readBits 3).2.readBits 4).2.readBits 7).1) with
                | none => simp
                | some w =>
                  have := hd.2 w hpd
                  simp only [Option.getD_some, Gen.pm1MaxByteBlockLen]; omega

theorem byteLoop_safe (row : Nat) (hrow : row < Gen.pm1TreeRows) (k : Nat) (s : St)
    (acc : List UInt8) (h : Inv s) :
    Safe (byteLoop row k s acc)
      (fun p => Inv p.2 ∧ ∀ l, p.1 = some l → l.length = acc.length + k) := by
  induction k generalizing s acc with
  | zero => exact safe_ok ⟨h, by intro l hl; simp at hl; simp [← hl]⟩
  | succ k ih =>
    unfold byteLoop
    refine safe_bind (readByte_safe s row hrow h) ?_
    intro b hb
    have h2 : Inv { s with bits := b.2 } := h.withBits hb rfl rfl rfl rfl
    cases hpb : b.1 with
    | none => exact safe_ok ⟨h2, by simp⟩
    | some v =>
      simp only
      refine safe_bind (outputted_safe _ _ h2) ?_
      intro s' hs'
      refine safe_mono (ih s' _ hs'.1) ?_
      intro p hp
      refine ⟨hp.1, ?_⟩
      intro l hl
      rw [hp.2 l hl]; simp; omega

theorem readByteBlock_safe (s : St) (row : Nat) (hrow : row < Gen.pm1TreeRows) (h : Inv s) :
    Safe (readByteBlock s row) (fun r => Inv r.2 ∧ r.1.length ≤ Gen.pm1MaxRead) := by
  unfold readByteBlock
  simp only
  have hn := readByteBlockCount_ok s.bits h.bits
  have h2 : Inv { s with bits := (readByteBlockCount s.bits).2 } := h.withBits hn.1 rfl rfl rfl rfl
  by_cases h0 : (readByteBlockCount s.bits).1 = 0
  · simp only [h0, ↓reduceIte]; exact safe_ok ⟨h2, by simp⟩
  · simp only [h0, ↓reduceIte]
    refine safe_bind (byteLoop_safe row hrow _ _ [] h2) ?_
    intro r hr
    cases hacc : r.1 with
    | none => exact safe_ok ⟨hr.1, by simp⟩
    | some acc =>
      simp only
      have hlen := hr.2 acc hacc
      simp only [List.length_nil, Nat.zero_add] at hlen
      have hb := hn.2
      by_cases hmax : (readByteBlockCount s.bits).1 = Gen.pm1MaxByteBlockLen
      · simp only [hmax, ↓reduceIte]
        refine safe_ok ⟨hr.1, ?_⟩
        simp only [List.length_reverse, hlen, hmax, Gen.pm1MaxByteBlockLen, Gen.pm1MaxRead]
        omega
      · simp only [hmax, ↓reduceIte]
        refine safe_bind (readCopyCommand_safe r.2 hr.1) ?_
        intro c hc
        by_cases hce : c.1 = []
        · simp only [hce, ↓reduceIte]; exact safe_ok ⟨hc.1, by simp⟩
        · simp only [hce, ↓reduceIte]
          refine safe_ok ⟨hc.1, ?_⟩
          have := hc.2
          simp only [List.length_append, List.length_reverse, hlen]
          simp only [Gen.pm1MaxByteBlockLen, Gen.pm1MaxCopyBlockLen, Gen.pm1MaxRead] at *
          omega

theorem read_safe (s : St) (h : Inv s) :
    Safe (read s) (fun r => Inv r.2 ∧ r.1.length ≤ Gen.pm1MaxRead) := by
  unfold read
  simp only
  have key : ∀ (row : Nat) (s1 : St), Inv s1 → row < Gen.pm1TreeRows →
      Safe (if row ≥ Gen.pm1TreeRows then
              (.fault "pm1: byte_decode_trees[index] row" : Res (List UInt8 × St))
            else if s1.bits.readBit.1 = some 0 then
              readCopyCommand { s1 with bits := s1.bits.readBit.2 }
            else readByteBlock { s1 with bits := s1.bits.readBit.2 } row)
        (fun r => Inv r.2 ∧ r.1.length ≤ Gen.pm1MaxRead) := by
    intro row s1 h1 hrow
    have hnr : ¬ row ≥ Gen.pm1TreeRows := by omega
    simp only [hnr, ↓reduceIte]
    have h2 : Inv { s1 with bits := s1.bits.readBit.2 } :=
      h1.withBits (Bits.readBit_wf _ h1.bits) rfl rfl rfl rfl
    by_cases hc : s1.bits.readBit.1 = some 0
    · simp only [hc, ↓reduceIte]
      refine safe_mono (readCopyCommand_safe _ h2) ?_
      intro r hr
      refine ⟨hr.1, Nat.le_trans hr.2 (by decide)⟩
    · simp only [hc, ↓reduceIte]
      exact readByteBlock_safe _ row hrow h2
  cases htree : s.tree with
  | some row =>
    simp only
    exact key row s h (h.tree row htree)
  | none =>
    simp only
    cases hp : (s.bits.readBits 5).1 with
    | none => exact safe_ok ⟨h, by simp⟩
    | some idx =>
      simp only
      have hidx : idx < 2 ^ 5 := Bits.readBits_lt _ _ h.bits _ hp
      refine key idx { s with bits := (s.bits.readBits 5).2, tree := some idx } ?_ hidx
      exact { bits := Bits.readBits_wf _ 5 h.bits, ringSz := h.ringSz, pos := h.pos,
              hist := h.hist, tree := by intro row hr; simp at hr; subst hr; exact hidx }

theorem read_no_fault (s : St) (h : Inv s) : ∀ w, read s ≠ .fault w := (read_safe s h).1

theorem read_inv (s : St) (h : Inv s) (out : List UInt8) (s' : St) (hr : read s = .ok (out, s')) :
    Inv s' := ((read_safe s h).2 _ hr).1

theorem read_len (s : St) (h : Inv s) (out : List UInt8) (s' : St) (hr : read s = .ok (out, s')) :
    out.length ≤ Gen.pm1MaxRead := ((read_safe s h).2 _ hr).2

/-- after any number of successful reads, for ANY input bytes and chunking, the next read of
the -pm1- decoder performs no invalid memory access (and its table walk terminates) -/
theorem run_no_fault (src : Src) (n : Nat) (s : St) (hs : Dec.Reach dec src n s) :
    ∀ w, read s ≠ .fault w :=
  read_no_fault s (Dec.reach_inv dec Inv init_inv read_inv src n s hs)

end Pm1
end LhasaV
