import LhasaV.Model.ReaderAlloc
import LhasaV.Lemmas.ReaderLedger
import LhasaV.Lemmas.ReaderAllocHdr8
/-!
# Allocation-aware reader (C20, allocation failure), part 1: histories, frames

`stepA` / `runA`: the four public operations on the allocation-aware model, under an arbitrary
oracle `o : Nat → Bool` (the single failing index `k` of the harness is `Oracle.ofFailAt (some k)`).
This file: `basicNextA` in two halves, and the frame / decoder-bookkeeping lemmas of
`openDecoderA`, `readA`, `decodeLoopA`, `checkA` (what `ReaderLedger` §1 and §9 prove for the
original operations).
-/
namespace LhasaV.Reader
open LhasaV LhasaV.Alloc

/-- run one operation of the allocation-aware model (ignore its output); a parser/scan fault
leaves the state unchanged -/
def stepA (o : Oracle) (a : StA) : Op → StA
  | .next => match nextA o a with
    | .ok r => r.2
    | .error _ => a
  | .read k => (readA o a k).2
  | .check => (checkA o a).2
  | .extract fsOk => (extractA o a fsOk).2

def runA (o : Oracle) (a : StA) (ops : List Op) : StA := ops.foldl (stepA o) a

/-- the reader right after a successful `lha_reader_new`: three allocations made, three blocks
(stream, reader, basic reader) held outside the ledger -/
def freshA (st : Stream.St) (pol : DirPolicy) (mk : Nat → Nat) : StA :=
  { s := fresh st pol mk, hp := { n := 3, live := 3 } }

@[simp] theorem runA_nil (o : Oracle) (a : StA) : runA o a [] = a := rfl
@[simp] theorem runA_cons (o : Oracle) (a : StA) (op : Op) (ops : List Op) :
    runA o a (op :: ops) = runA o (stepA o a op) ops := rfl
theorem runA_append (o : Oracle) (a : StA) (x y : List Op) : runA o a (x ++ y) = runA o (runA o a x) y := by
  simp [runA, List.foldl_append]

/-! ## `newA` -/

theorem newA_some {o : Oracle} {st : Stream.St} {pol : DirPolicy} {mk : Nat → Nat} {a : StA} {hp : Heap}
    (e : newA o st pol mk = (some a, hp)) :
    a = freshA st pol mk ∧ o 0 = false ∧ o 1 = false ∧ o 2 = false := by
  unfold newA at e
  simp only [] at e
  split at e
  · cases e
  · split at e
    · cases e
    · split at e
      · cases e
      · rename_i h0 h1 h2
        simp only [Prod.mk.injEq, Option.some.injEq] at e
        refine ⟨e.1.symm, by simpa using h0, by simpa using h1, by simpa using h2⟩

/-- when the reader cannot be created nothing stays allocated -/
theorem newA_none {o : Oracle} {st : Stream.St} {pol : DirPolicy} {mk : Nat → Nat} {hp : Heap}
    (e : newA o st pol mk = (none, hp)) : hp.live = 0 ∧ hp.failed ≠ [] := by
  unfold newA at e
  simp only [] at e
  split at e
  · cases e; exact ⟨rfl, by simp⟩
  · split at e
    · cases e; exact ⟨rfl, by simp⟩
    · split at e
      · cases e; exact ⟨rfl, by simp⟩
      · cases e

/-! ## the allocator outside the parser -/

theorem allocAt_live (o : Oracle) (site : Site) (hp : Heap) : (allocAt o site hp).2.live = hp.live := by
  unfold allocAt; split <;> rfl

theorem allocAt_good {o : Oracle} (site : Site) {hp : Heap} (h : Good o hp) : Good o (allocAt o site hp).2 := by
  unfold allocAt Good at *
  by_cases ho : o hp.n = true
  · rw [if_pos ho]
    show (site :: hp.failed).length = countFails o (hp.n + 1)
    rw [countFails_succ, ho]; simp [h]
  · rw [if_neg ho]
    show hp.failed.length = countFails o (hp.n + 1)
    rw [countFails_succ]; simp [ho, h]

/-- allocator facts every operation preserves: the blocks outside the ledger, the log in step
with the oracle -/
structure HpOk (o : Oracle) (n : Nat) (hp : Heap) : Prop where
  live : hp.live = n
  good : Good o hp

theorem allocAt_hpOk {o : Oracle} {n : Nat} (site : Site) {hp : Heap} (h : HpOk o n hp) : HpOk o n (allocAt o site hp).2 :=
  ⟨(allocAt_live o site hp).trans h.live, allocAt_good site h.good⟩

/-! ## `basicNextA` in two halves -/

/-- second half of `basicNextA`: allocate, find and parse the next header -/
def basicParseA (o : Oracle) (mk : Nat → Nat) (b : Basic) (led : Ledger) (hp : Heap) :
    Res ((Basic × Ledger) × Heap) :=
  if b.eof then .ok ((b, led), hp) else
  if o hp.n then
    .ok (({ b with eof := true }, led), { hp with n := hp.n + 1, failed := Site.hdrCalloc :: hp.failed })
  else
  let hp1 : Heap := { hp with n := hp.n + 1, live := hp.live + 1 }
  (Stream.start b.stream) >>= fun st =>
  if st.phase == .fail then .ok (({ b with stream := st, eof := true }, led), { hp1 with live := hp1.live - 1 }) else
  match Alloc.readRestA o mk (Stream.rest st) hp1 with
  | .fault w => .fault w
  | .fail _ hp' => .ok (({ b with stream := st, eof := true }, led), hp')
  | .ok (h, rest) hp' =>
    let used := (Stream.rest st).length - rest.length
    let st := Stream.advance st used
    let nblocks := hp'.live - hp.live
    let (id, led) := led.alloc nblocks
    .ok (({ b with stream := st, curr := some ⟨id, h⟩, remaining := h.compressedLength, dataStart := st.pos }, led),
         { hp' with live := hp.live })

theorem basicNextA_eq (o : Oracle) (mk : Nat → Nat) (b : Basic) (led : Ledger) (hp : Heap) :
    basicNextA o mk b led hp = basicParseA o mk (basicRelease b led).1 (basicRelease b led).2 hp := by
  unfold basicNextA basicRelease basicParseA
  cases b.curr <;> rfl

theorem good_of_eq {o : Oracle} {hp hp' : Heap} (h : Good o hp) (e1 : hp'.n = hp.n) (e2 : hp'.failed = hp.failed) :
    Good o hp' := by
  unfold Good at *; rw [e1, e2]; exact h

theorem basicParseA_owned {o : Oracle} {mk : Nat → Nat} {b b' : Basic} {led led' : Ledger} {hp hp' : Heap}
    {ds df : List HObj} {n : Nat}
    (h : Owned led none ds df none) (hb : b.curr = none) (hh : HpOk o n hp)
    (e : basicParseA o mk b led hp = .ok ((b', led'), hp')) :
    Owned led' b'.curr ds df none ∧ led'.decoders = led.decoders ∧ HpOk o n hp' := by
  unfold basicParseA at e
  split at e
  · cases e; rw [hb]; exact ⟨h, rfl, hh⟩
  · split at e
    · rename_i ho
      cases e
      refine ⟨by show Owned led b.curr ds df none; rw [hb]; exact h, rfl, hh.live, ?_⟩
      show (Site.hdrCalloc :: hp.failed).length = countFails o (hp.n + 1)
      rw [countFails_succ, ho]; simp [hh.good.symm]
    · rename_i ho
      have hg1 : Good o { hp with n := hp.n + 1, live := hp.live + 1 } := by
        show hp.failed.length = countFails o (hp.n + 1)
        rw [countFails_succ]; simp [ho, hh.good.symm]
      cases hs : Stream.start b.stream with
      | fail => rw [hs] at e; cases e
      | fault w => rw [hs] at e; cases e
      | ok st =>
        rw [hs] at e
        simp only [Res.ok_bind] at e
        split at e
        · cases e
          refine ⟨by show Owned led b.curr ds df none; rw [hb]; exact h, rfl, ?_, hg1⟩
          show hp.live + 1 - 1 = n
          have := hh.live; omega
        · have hblk := readRestA_blocks (o := o) mk (Stream.rest st)
            { hp with n := hp.n + 1, live := hp.live + 1 } hp.live hg1 rfl
          split at e
          · cases e
          · rename_i hf hp2 hr
            rw [hr] at hblk
            cases e
            exact ⟨by show Owned led b.curr ds df none; rw [hb]; exact h, rfl, hblk.1.trans hh.live, hblk.2.1⟩
          · rename_i hd rest hp2 hr
            rw [hr] at hblk
            cases e
            refine ⟨h.alloc _ (fun id => ?_), rfl, hh.live, good_of_eq hblk.2.1 rfl rfl⟩
            simp only [owners, cnt_some, cnt_none, Ledger.alloc]; omega

theorem basicNextA_owned {o : Oracle} {mk : Nat → Nat} {b b' : Basic} {led led' : Ledger} {hp hp' : Heap}
    {ds df : List HObj} {n : Nat}
    (h : Owned led b.curr ds df none) (hh : HpOk o n hp)
    (e : basicNextA o mk b led hp = .ok ((b', led'), hp')) :
    Owned led' b'.curr ds df none ∧ led'.decoders = led.decoders ∧ HpOk o n hp' := by
  rw [basicNextA_eq] at e
  obtain ⟨h1, h2, h3⟩ := basicRelease_owned h
  obtain ⟨h4, h5, h6⟩ := basicParseA_owned h1 h2 hh e
  exact ⟨h4, h5.trans h3, h6⟩

end LhasaV.Reader
