import LhasaV.Lemmas.ReaderWorkPresentInv
/-!
# C13 for whole histories: work is bounded by the bytes PHYSICALLY present — summary file

`ReaderWorkTotal.run_bounded` bounds the bytes pulled by `avail st + decodedDeclared …`: the declared
compressed sizes of the members decoded.  A hostile header can declare 4 GiB over a 100-byte file,
so that bound says nothing about such an archive.  Here no declared size occurs on the input side.

* `Present d` / `presentAll` (ReaderWorkPresentBase/Small/LhNew/Lh1/Pm2/Pm1/Inv): for every decoder
  of the table (all 14 method names) the source position never exceeds the data physically present
  (`src.pos ≤ src.data.size`), from `init` on, along every run of `read`.
* `closeTake_le_avail` / `closeTake_le_avail_history`: what closing the open decoder charges to the
  stream is at most the bytes still present in the stream.
* `pot_nonincreasing`: between ANY two points of ANY history `moved + avail` does not grow.
* `run_bounded_present`: EVERY history (legal or not) from a fresh reader on any stream:
  bytes pulled + bytes still present ≤ bytes present at the start; source requests as before.
* `next_work_present`: one `next` pulls at most `A` bytes (no `closeTake` term).
* `work_bounded`: the headline — input side by bytes present, output side by declared length, heap.
-/
set_option linter.unusedSimpArgs false
namespace LhasaV.ReaderPresent
open LhasaV LhasaV.Reader LhasaV.ReaderIndep

theorem wf_fresh (st : Stream.St) (pol : DirPolicy) (mk : Nat → Nat) (hl : st.leadin.length ≤ 24) :
    Stream.WF (fresh st pol mk).basic := ⟨hl, fun h => (by cases h)⟩

theorem decIn_fresh (st : Stream.St) (pol : DirPolicy) (mk : Nat → Nat) : DecIn (fresh st pol mk) :=
  decIn_none rfl

/-- the invariant holds after every history from a fresh reader -/
theorem decIn_history (st : Stream.St) (pol : DirPolicy) (mk : Nat → Nat)
    (hl : st.leadin.length ≤ 24) (ops : List Op) :
    DecIn (run (fresh st pol mk) ops) ∧ Stream.WF (run (fresh st pol mk) ops).basic :=
  let h := run_pstep presentAll ops _ (wf_fresh st pol mk hl) (decIn_fresh st pol mk)
  ⟨h.1.decIn, h.2⟩

/-- **`closeTake_le_avail`, along any history**: after ANY history from a fresh reader on any
stream, what closing the open decoder would charge to the stream is at most the bytes still present
in the stream. -/
theorem closeTake_le_avail_history (st : Stream.St) (pol : DirPolicy) (mk : Nat → Nat)
    (hl : st.leadin.length ≤ 24) (ops : List Op) :
    closeTake (run (fresh st pol mk) ops) ≤ avail (run (fresh st pol mk) ops).basic.stream :=
  closeTake_le_avail (decIn_history st pol mk hl ops).1

/-- the decoder-side statement along any history: the decoder now open (if any, and if its state is
live) has its source position inside its data, and that data is at most the bytes still present -/
theorem open_src_present (st : Stream.St) (pol : DirPolicy) (mk : Nat → Nat)
    (hl : st.leadin.length ≤ 24) (ops : List Op) (o : Open) (ist : Wrap.St (Except String o.d.σ))
    (x : o.d.σ) (ho : (run (fresh st pol mk) ops).dec = some o) (hi : o.innerSt = some ist)
    (hx : ist.inner = .ok x) :
    (o.d.src x).pos ≤ (o.d.src x).data.size ∧
    (o.d.src x).data.size ≤ avail (run (fresh st pol mk) ops).basic.stream :=
  ((decIn_history st pol mk hl ops).1 o ho).2 ist hi x hx

/-- **no byte is pulled that is not there**: between ANY two points of ANY history from a fresh
reader, `moved + avail` does not grow -/
theorem pot_nonincreasing (st : Stream.St) (pol : DirPolicy) (mk : Nat → Nat)
    (hl : st.leadin.length ≤ 24) (ops more : List Op) :
    (run (fresh st pol mk) (ops ++ more)).basic.stream.moved +
        avail (run (fresh st pol mk) (ops ++ more)).basic.stream ≤
    (run (fresh st pol mk) ops).basic.stream.moved + avail (run (fresh st pol mk) ops).basic.stream := by
  obtain ⟨h1, h2⟩ := decIn_history st pol mk hl ops
  rw [run_append]
  exact (run_pstep presentAll more _ h2 h1).1.pot

/-- **`run_bounded_present`.**  EVERY history `ops` (next / read k / check / extract, legal or not)
from a fresh reader on any stream (any bytes, any of the four kinds), any directory policy: with
`A₀ = avail st` the bytes physically present at the start,
* the bytes pulled from the source plus the bytes still present at the end are at most `A₀` — NO
  declared size occurs: a header declaring 4 GiB of compressed data over a few bytes buys nothing;
* the source requests are at most `A₀/32 + (A₀+11)/12 + 2·(number of next) + 2`. -/
theorem run_bounded_present (st : Stream.St) (pol : DirPolicy) (mk : Nat → Nat)
    (hl : st.leadin.length ≤ 24) (ops : List Op) :
    st.moved ≤ (run (fresh st pol mk) ops).basic.stream.moved ∧
    ((run (fresh st pol mk) ops).basic.stream.moved - st.moved) +
        avail (run (fresh st pol mk) ops).basic.stream ≤ avail st ∧
    st.reads ≤ (run (fresh st pol mk) ops).basic.stream.reads ∧
    (run (fresh st pol mk) ops).basic.stream.reads - st.reads ≤
        avail st / 32 + (avail st + 11) / 12 + 2 * nexts ops + 2 := by
  obtain ⟨h1, _, h3, h4, _⟩ := history_work_linear st pol mk hl ops
  have hp := pot_nonincreasing st pol mk hl [] ops
  simp only [List.nil_append, run_nil] at hp
  have h0 : (fresh st pol mk).basic.stream = st := rfl
  rw [h0] at hp
  exact ⟨h1, by omega, h3, h4⟩

/-- **`next_work_present`**, on any state satisfying the invariant: one `lha_reader_next_file`
makes at most `A/32 + (A+11)/12 + 4` source requests and pulls at most `A` bytes, `A` = bytes still
present — closing the open decoder included. -/
theorem next_work_present_state (s s' : St) (r : Option HObj) (wf : Stream.WF s.basic)
    (hs : DecIn s) (e : next s = .ok (r, s')) :
    s'.basic.stream.reads - s.basic.stream.reads ≤
      avail s.basic.stream / 32 + (avail s.basic.stream + 11) / 12 + 4 ∧
    s.basic.stream.moved ≤ s'.basic.stream.moved ∧
    (s'.basic.stream.moved - s.basic.stream.moved) + avail s'.basic.stream ≤ avail s.basic.stream := by
  obtain ⟨_, _, h3, h4, _⟩ := next_work_bounded s s' r wf e
  have hp := (next_pstep s s' r wf hs e).pot
  unfold pot at hp
  exact ⟨h3, h4, by omega⟩

/-- **`next_work_present`** (strengthens `next_work_linear`: no `closeTake` term).  Along any
history from a fresh reader, for any archive: with `A` = bytes still present in the stream, one
`lha_reader_next_file` makes at most `A/32 + (A+11)/12 + 4` source requests and pulls at most `A`
bytes. -/
theorem next_work_present (st : Stream.St) (pol : DirPolicy) (mk : Nat → Nat)
    (hl : st.leadin.length ≤ 24) (ops : List Op) (r : Option HObj) (s' : St)
    (e : next (run (fresh st pol mk) ops) = .ok (r, s')) :
    s'.basic.stream.reads - (run (fresh st pol mk) ops).basic.stream.reads ≤
      avail (run (fresh st pol mk) ops).basic.stream / 32 +
      (avail (run (fresh st pol mk) ops).basic.stream + 11) / 12 + 4 ∧
    s'.basic.stream.moved - (run (fresh st pol mk) ops).basic.stream.moved ≤
      avail (run (fresh st pol mk) ops).basic.stream := by
  obtain ⟨h1, h2⟩ := decIn_history st pol mk hl ops
  obtain ⟨a, _, c⟩ := next_work_present_state _ s' r h2 h1 e
  exact ⟨a, by omega⟩

/-- **C13 headline (`work_bounded`).**  Every history from a fresh reader on any stream:
* INPUT side, by the bytes physically present: bytes pulled + bytes still present ≤ `A₀`;
  source requests ≤ `A₀/32 + (A₀+11)/12 + 2·(number of next) + 2`;
* heap: live headers ≤ 2 + successful extracts, at most six blocks each;
* on legal histories, OUTPUT side by the declared sizes: the bytes handed to the caller are at most
  the declared (uncompressed) lengths of the members decoded, and everything held on the heap is
  ≤ 6·(2 + extracts) + 4 blocks. -/
theorem work_bounded (st : Stream.St) (pol : DirPolicy) (mk : Nat → Nat)
    (hl : st.leadin.length ≤ 24) (ops : List Op) :
    ((run (fresh st pol mk) ops).basic.stream.moved - st.moved) +
        avail (run (fresh st pol mk) ops).basic.stream ≤ avail st ∧
    (run (fresh st pol mk) ops).basic.stream.reads - st.reads ≤
        avail st / 32 + (avail st + 11) / 12 + 2 * nexts ops + 2 ∧
    (run (fresh st pol mk) ops).led.hdrs.length ≤ 2 + extractsOk ops ∧
    hdrBlocks (run (fresh st pol mk) ops).led ≤ 6 * (2 + extractsOk ops) ∧
    (Legal ops → outputBytes st pol mk ops ≤ decodedLength st pol mk ops ∧
      (run (fresh st pol mk) ops).led.live ≤ 6 * (2 + extractsOk ops) + 4) := by
  obtain ⟨_, h2, _, h4⟩ := run_bounded_present st pol mk hl ops
  obtain ⟨_, _, h6, h7, h8⟩ := run_bounded st pol mk hl ops
  exact ⟨h2, h4, h6, h7, h8⟩

/-! ## non-vacuity: a member that declares 2³²−1 compressed bytes over twelve -/

/-- one member `a` of method `-lh<m>-` whose level-0 header declares a compressed size of
`0xffffffff` and a length of 2, followed by the twelve bytes that are really there: 37 bytes.
(`sum` = the header checksum for that method character.) -/
def hostile (m sum : UInt8) : Array UInt8 :=
  #[0x17, sum, 0x2d, 0x6c, 0x68, m, 0x2d, 0xff, 0xff, 0xff, 0xff, 0x02, 0x00, 0x00, 0x00, 0x00,
    0x00, 0x21, 0x28, 0x20, 0x00, 0x01, 0x61, 0xef, 0xee,
    0x68, 0x69, 0x00, 0x01, 0x02, 0x03, 0x04, 0x05, 0x06, 0x07, 0x08, 0x09]

/-- `-lh0-` (stored) and `-lh5-` -/
def hostile0 : Array UInt8 := hostile 0x30 0x04
def hostile5 : Array UInt8 := hostile 0x35 0x09

def hostileSt (a : Array UInt8) (k : Stream.Kind) : Stream.St := { kind := k, data := a }

/-- (requests, bytes moved, bytes still present, what closing the decoder would charge) -/
def hostileRow (a : Array UInt8) (k : Stream.Kind) (ops : List Op) : Nat × Nat × Nat × Nat :=
  let s := run (fresh (hostileSt a k) .endOfDir Header.dosTimeUTC) ops
  (s.basic.stream.reads, s.basic.stream.moved, avail s.basic.stream, closeTake s)

#guard hostile0.size = 37 ∧ hostile5.size = 37
-- the header is accepted and declares 2³²−1 compressed bytes
#guard (nextResults (fresh (hostileSt hostile5 .pipe) .endOfDir Header.dosTimeUTC) [.next]).map
    (fun r => match r with | .ok (some o) => some (o.h.compressedLength, o.h.length) | _ => none)
    = [some (4294967295, 2)]
#guard (nextResults (fresh (hostileSt hostile0 .pipe) .endOfDir Header.dosTimeUTC) [.next]).map
    (fun r => match r with | .ok (some o) => some (o.h.compressedLength, o.h.length) | _ => none)
    = [some (4294967295, 2)]
-- the old bound charges the declared size: useless here
#guard decodedDeclared (hostileSt hostile5 .pipe) .endOfDir Header.dosTimeUTC [.next, .check, .next] = 4294967295
-- next; check; next on every kind of stream: moved ≤ 37 = the archive size, moved + avail ≤ 37.
-- The -lh5- decoder really consumed 7 of the 12 bytes present before a refill crossed the physical
-- end; that (not 2³²−1) is what closing it charges.  The skip of the declared rest then pulls at
-- most the 5 bytes that are left (pipe / read fallback), or none (fseek / a failing skip callback).
#guard hostileRow hostile5 .pipe [.next] = (2, 25, 12, 0)
#guard hostileRow hostile5 .pipe [.next, .check] = (2, 25, 12, 7)
#guard hostileRow hostile5 .pipe [.next, .check, .next] = (3, 37, 0, 0)
#guard hostileRow hostile5 .seekable [.next, .check, .next] = (2, 32, 0, 0)
#guard hostileRow hostile5 .cbSkip [.next, .check, .next] = (2, 32, 5, 0)
#guard hostileRow hostile5 .cbNoSkip [.next, .check, .next] = (3, 37, 0, 0)
-- stored (the 1 KiB request crosses the end at once: nothing consumed) and -lh1-
#guard hostileRow hostile0 .pipe [.next, .check] = (2, 25, 12, 0)
#guard hostileRow hostile0 .pipe [.next, .check, .next] = (3, 37, 0, 0)
#guard hostileRow (hostile 0x31 0x05) .pipe [.next, .check] = (2, 25, 12, 4)
#guard hostileRow (hostile 0x31 0x05) .pipe [.next, .check, .next] = (3, 37, 0, 0)
#guard ∀ k ∈ [Stream.Kind.seekable, .pipe, .cbSkip, .cbNoSkip],
    ∀ a ∈ [hostile0, hostile5],
    ∀ ops ∈ [[Op.next, .check, .next], [.next, .read 1, .read 7, .next, .next], [.next, .extract true, .next],
             [.next, .next], [.next, .check, .check, .read 3, .next]],
      let r := hostileRow a k ops
      r.2.1 ≤ 37 ∧ r.2.1 + r.2.2.1 ≤ 37 ∧ r.2.2.2 ≤ r.2.2.1
-- nothing is handed to the caller beyond the declared length (2)
#guard outputBytes (hostileSt hostile5 .pipe) .endOfDir Header.dosTimeUTC [.next, .check, .next] ≤ 2
example : Legal [.next, .check, .next] := by decide
example : nexts [.next, .check, .next] = 2 := by decide
-- a listing of the hostile archive, by kernel evaluation: the skip of 2³²−1 declared bytes pulls
-- only the 12 that are there
example : hostileRow hostile5 .pipe [.next, .next] = (3, 37, 0, 0) := by decide +kernel

/-- the theorems instantiated on the hostile archive: `next; check; next` moves at most the archive -/
example : (run (fresh (hostileSt hostile5 .pipe) .endOfDir Header.dosTimeUTC)
    [.next, .check, .next]).basic.stream.moved ≤ 37 := by
  have h := (run_bounded_present (hostileSt hostile5 .pipe) .endOfDir Header.dosTimeUTC
    (Nat.zero_le 24) [.next, .check, .next]).2.1
  have h0 : (hostileSt hostile5 .pipe).moved = 0 := rfl
  have hs : avail (hostileSt hostile5 .pipe) = 37 := by decide
  omega

example := work_bounded (hostileSt hostile0 .seekable) .endOfDir Header.dosTimeUTC (Nat.zero_le 24)
  [.next, .check, .next]

/-- `Present` is not trivially true: a decoder that adds the declared size to its position (what
"position advanced by the bytes requested, not delivered" would do) is not `Present` -/
example : ¬ Present { σ := Src, init := fun s => { s with pos := s.pos + s.extra },
                      read := fun s => .ok ([], s), src := id } := by
  intro h
  have := (h.init 0 { data := #[], extra := 1 } ⟨Nat.le_refl _, Nat.le_refl _⟩).1
  exact absurd this (by decide)

/-- `DecIn` is not trivially true either: it fails for a state whose open decoder claims to have
consumed more than is there -/
example : ¬ In 3 { data := #[1, 2, 3], pos := 4 } := by
  intro h; exact absurd h.1 (by decide)

end LhasaV.ReaderPresent
