import LhasaV.Lemmas.LhNewRT2
/-!
Round trip of the `lh_new_decoder.c` model, part 3: `read_code_table` (layer 4a).
-/
namespace LhasaV.LhNewRT
open LhasaV LhasaV.Spec LhasaV.Spec.LhNewEnc LhasaV.Spec.Lz77 LhasaV.LzRoundTrip

theorem getD_append_lt (a b : List Nat) (k : Nat) (h : k < a.length) :
    (a ++ b).getD k 0 = a.getD k 0 := by
  simp only [List.getD_eq_getElem?_getD]
  rw [List.getElem?_append_left h]

theorem getD_append_ge (a b : List Nat) (k : Nat) (h : a.length ≤ k) :
    (a ++ b).getD k 0 = b.getD (k - a.length) 0 := by
  simp only [List.getD_eq_getElem?_getD]
  rw [List.getElem?_append_right h]

/-- combining the cells written for one token with those of the rest of the token list -/
theorem cells_tok (lens lens1 lens' : Array Nat) (i n : Nat) (a rest : List Nat) (_hin : i < n)
    (h1 : ∀ j, j < i → lens1[j]? = lens[j]?)
    (h2 : ∀ j, i ≤ j → j < min (i + a.length) n → lens1[j]? = some (a.getD (j - i) 0))
    (h3 : ∀ j, j < n → lens'[j]? = if min (i + a.length) n ≤ j
      then some (rest.getD (j - min (i + a.length) n) 0) else lens1[j]?) :
    ∀ j, j < n → lens'[j]? = if i ≤ j then some ((a ++ rest).getD (j - i) 0) else lens[j]? := by
  intro j hj
  rw [h3 j hj]
  by_cases hc : min (i + a.length) n ≤ j
  · have hm : min (i + a.length) n = i + a.length := by omega
    have hij : i ≤ j := by omega
    rw [if_pos hc, if_pos hij, getD_append_ge a rest (j - i) (by omega), hm]
    congr 2
    omega
  · rw [if_neg hc]
    by_cases hij : i ≤ j
    · rw [if_pos hij, h2 j hij (by omega), getD_append_lt a rest (j - i) (by omega)]
    · rw [if_neg hij, h1 j (by omega)]

/-! ## tokens -/

theorem toksLens_cons (t : Tok) (ts : List Tok) : toksLens (t :: ts) = t.lens ++ toksLens ts := by
  simp [toksLens]

theorem toksFit_cons (n : Nat) (t : Tok) (ts : List Tok) (i : Nat)
    (h : toksFit n (t :: ts) i = true) :
    i < n ∧ toksFit n ts (min (i + t.lens.length) n) = true := by
  cases ts with
  | nil =>
    simp only [toksFit, Bool.and_eq_true, decide_eq_true_eq] at h
    refine ⟨h.1.1, ?_⟩
    simp only [toksFit, decide_eq_true_eq]
    omega
  | cons t2 ts =>
    simp only [toksFit, Bool.and_eq_true, decide_eq_true_eq] at h
    have hm : min (i + t.lens.length) n = i + t.lens.length := by omega
    rw [hm]
    exact ⟨by omega, h.2⟩

theorem toksFit_length (n : Nat) (toks : List Tok) (i : Nat) (h : toksFit n toks i = true) :
    n ≤ i + (toksLens toks).length := by
  induction toks generalizing i with
  | nil =>
    simp only [toksFit, decide_eq_true_eq] at h
    omega
  | cons t ts ih =>
    obtain ⟨h1, h2⟩ := toksFit_cons n t ts i h
    have := ih _ h2
    rw [toksLens_cons, List.length_append]
    omega

theorem tok_lens_pos (t : Tok) (h : t.valid = true) : 1 ≤ t.lens.length := by
  cases t with
  | len l => simp [Tok.lens]
  | z0 => simp [Tok.lens]
  | z1 k => simp [Tok.valid] at h; simp [Tok.lens]; omega
  | z2 k => simp [Tok.valid] at h; simp [Tok.lens]; omega

theorem readSkipCount_z0 (r : Bits) : LhNew.readSkipCount r 0 = (some 1, r) := by
  simp [LhNew.readSkipCount]

theorem readSkipCount_z1 (r : Bits) (k : Nat) (rest : List Bool) (h3 : 3 ≤ k) (h18 : k ≤ 18)
    (hi : Bits.Inv r) (hs : Bits.stream r = bitsN 4 (k - 3) ++ rest) :
    ∃ r', LhNew.readSkipCount r 1 = (some k, r') ∧ Bits.Inv r' ∧ Bits.stream r' = rest := by
  obtain ⟨h1, h2, h3'⟩ := readBits_bitsN r 4 (k - 3) rest hi (by decide) (by omega) hs
  refine ⟨(r.readBits 4).2, ?_, h2, h3'⟩
  simp only [LhNew.readSkipCount, h1]
  simp
  omega

theorem readSkipCount_z2 (r : Bits) (k : Nat) (rest : List Bool) (h3 : 20 ≤ k) (h18 : k ≤ 531)
    (hi : Bits.Inv r) (hs : Bits.stream r = bitsN 9 (k - 20) ++ rest) :
    ∃ r', LhNew.readSkipCount r 2 = (some k, r') ∧ Bits.Inv r' ∧ Bits.stream r' = rest := by
  obtain ⟨h1, h2, h3'⟩ := readBits_bitsN r 9 (k - 20) rest hi (by decide) (by omega) hs
  refine ⟨(r.readBits 9).2, ?_, h2, h3'⟩
  simp only [LhNew.readSkipCount, h1]
  simp
  omega

/-- the count a zero-run token transmits -/
theorem readSkipCount_tok (t : Tok) (hv : t.valid = true) (hz : t.sym ≤ 2) (r : Bits)
    (rest : List Bool) (hi : Bits.Inv r) (hs : Bits.stream r = t.extra ++ rest) :
    ∃ r', LhNew.readSkipCount r t.sym = (some t.lens.length, r') ∧ Bits.Inv r' ∧
      Bits.stream r' = rest ∧ t.lens = List.replicate t.lens.length 0 := by
  cases t with
  | len l =>
    simp only [Tok.valid, decide_eq_true_eq] at hv
    simp only [Tok.sym] at hz
    omega
  | z0 =>
    exact ⟨r, readSkipCount_z0 r, hi, by simpa [Tok.extra] using hs, by simp [Tok.lens]⟩
  | z1 k =>
    simp only [Tok.valid, decide_eq_true_eq] at hv
    obtain ⟨r', g1, g2, g3⟩ := readSkipCount_z1 r k rest hv.1 hv.2 hi (by simpa [Tok.extra] using hs)
    exact ⟨r', by simpa [Tok.sym, Tok.lens] using g1, g2, g3, by simp [Tok.lens]⟩
  | z2 k =>
    simp only [Tok.valid, decide_eq_true_eq] at hv
    obtain ⟨r', g1, g2, g3⟩ := readSkipCount_z2 r k rest hv.1 hv.2 hi (by simpa [Tok.extra] using hs)
    exact ⟨r', by simpa [Tok.sym, Tok.lens] using g1, g2, g3, by simp [Tok.lens]⟩

/-! ## the loop of `read_code_table` -/

theorem codeLoop_len_step (p : LhNew.Params) (n fuel i : Nat) (lens tempTree : Array Nat)
    (r r1 : Bits) (l : Nat) (hlt : i < n) (hn : n ≤ p.numCodes) (hl : 1 ≤ l)
    (hr : Tree.readFromTree p.leafBit tempTree r = .ok (some (l + 2), r1)) :
    LhNew.codeLoop p n (fuel + 1) i lens tempTree r
      = LhNew.codeLoop p n fuel (i + 1) (lens.setIfInBounds i (l % 256)) tempTree r1 := by
  have h2 : ¬ l + 2 ≤ 2 := by omega
  simp only [LhNew.codeLoop, hlt, if_true, hr, Res.ok_bind, h2, if_false,
    Nat.add_sub_cancel, storeLen_ok _ p.numCodes lens i l (by omega)]

theorem codeLoop_zero_step (p : LhNew.Params) (n fuel i : Nat) (lens tempTree : Array Nat)
    (r r1 r2 : Bits) (sym cnt : Nat) (hlt : i < n) (hsym : sym ≤ 2)
    (hr : Tree.readFromTree p.leafBit tempTree r = .ok (some sym, r1))
    (hsk : LhNew.readSkipCount r1 sym = (some cnt, r2)) :
    LhNew.codeLoop p n (fuel + 1) i lens tempTree r
      = ((LhNew.skipRun p.numCodes n cnt i lens) >>= fun z =>
          LhNew.codeLoop p n fuel z.1 z.2 tempTree r2) := by
  simp only [LhNew.codeLoop, hlt, if_true, hr, Res.ok_bind, hsym, hsk]

theorem codeLoop_spec (p : LhNew.Params) (n : Nat) (hn : n ≤ p.numCodes) (tempTree : Array Nat)
    (temp : Table) (hT : TreeFor p.leafBit tempTree temp) (toks : List Tok)
    (hv : ∀ t ∈ toks, t.valid = true) (hh : ∀ t ∈ toks, temp.has t.sym = true)
    (hb : ∀ t ∈ toks, ∀ l ∈ t.lens, l < 256)
    (i fuel : Nat) (lens : Array Nat) (r : Bits) (rest : List Bool)
    (hfit : toksFit n toks i = true) (hfuel : n + 1 ≤ fuel + i) (hsz : lens.size = p.numCodes)
    (hi : Bits.Inv r)
    (hs : Bits.stream r = toks.flatMap (fun t => temp.word t.sym ++ t.extra) ++ rest) :
    ∃ lens' r', LhNew.codeLoop p n fuel i lens tempTree r = .ok (some lens', r') ∧
      lens'.size = p.numCodes ∧
      (∀ j, j < n → lens'[j]? = if i ≤ j then some ((toksLens toks).getD (j - i) 0)
        else lens[j]?) ∧
      Bits.Inv r' ∧ Bits.stream r' = rest := by
  induction toks generalizing i fuel lens r with
  | nil =>
    simp only [toksFit, decide_eq_true_eq] at hfit
    obtain ⟨fuel, rfl⟩ : ∃ f, fuel = f + 1 := ⟨fuel - 1, by omega⟩
    have hge : ¬ i < n := by omega
    refine ⟨lens, r, ?_, hsz, ?_, hi, by simpa using hs⟩
    · simp only [LhNew.codeLoop, hge, if_false]
    · intro j hj
      have : ¬ i ≤ j := by omega
      rw [if_neg this]
  | cons t ts ih =>
    obtain ⟨hlt, hfit'⟩ := toksFit_cons n t ts i hfit
    obtain ⟨fuel, rfl⟩ : ∃ f, fuel = f + 1 := ⟨fuel - 1, by omega⟩
    have hv' : ∀ t ∈ ts, t.valid = true := fun t ht => hv t (List.mem_cons_of_mem _ ht)
    have hh' : ∀ t ∈ ts, temp.has t.sym = true := fun t ht => hh t (List.mem_cons_of_mem _ ht)
    have hb' : ∀ t ∈ ts, ∀ l ∈ t.lens, l < 256 := fun t ht => hb t (List.mem_cons_of_mem _ ht)
    have hvt := hv t (List.mem_cons_self ..)
    have hpos := tok_lens_pos t hvt
    rw [List.flatMap_cons, List.append_assoc, List.append_assoc] at hs
    obtain ⟨r1, a1, a2, a3⟩ := hT t.sym (hh t (List.mem_cons_self ..)) r _ hi hs
    rw [toksLens_cons]
    by_cases hz : t.sym ≤ 2
    · obtain ⟨r2, b1, b2, b3, b4⟩ := readSkipCount_tok t hvt hz r1 _ a2 a3
      obtain ⟨lens1, c1, c2, c3⟩ := skipRun_spec p.numCodes n t.lens.length i lens hn hsz
        (by omega)
      obtain ⟨lens', r', k1, k2, k3, k4, k5⟩ := ih hv' hh' hb' (min (i + t.lens.length) n) fuel
        lens1 r2 hfit' (by omega) c2 b2 b3
      refine ⟨lens', r', ?_, k2, ?_, k4, k5⟩
      · rw [codeLoop_zero_step p n fuel i lens tempTree r r1 r2 t.sym _ hlt hz a1 b1, c1,
          Res.ok_bind]
        exact k1
      · apply cells_tok lens lens1 lens' i n t.lens (toksLens ts) hlt
        · intro j hj
          have : ¬ (i ≤ j ∧ j < min (i + t.lens.length) n) := by omega
          rw [c3 j, if_neg this]
        · intro j hj1 hj2
          rw [c3 j, if_pos ⟨hj1, hj2⟩, b4]
          simp only [List.getD_eq_getElem?_getD, List.getElem?_replicate]
          have : j - i < t.lens.length := by omega
          simp [this]
        · exact k3
    · cases t with
      | len l =>
        simp only [Tok.valid, decide_eq_true_eq] at hvt
        have hl256 : l % 256 = l := Nat.mod_eq_of_lt
          (hb (.len l) (List.mem_cons_self ..) l (by simp [Tok.lens]))
        have hmin : min (i + (Tok.len l).lens.length) n = i + 1 := by
          simp [Tok.lens]; omega
        rw [hmin] at hfit'
        obtain ⟨lens', r', k1, k2, k3, k4, k5⟩ := ih hv' hh' hb' (i + 1) fuel
          (lens.setIfInBounds i (l % 256)) r1 hfit' (by omega) (by simpa using hsz) a2
          (by simpa [Tok.extra] using a3)
        refine ⟨lens', r', ?_, k2, ?_, k4, k5⟩
        · rw [codeLoop_len_step p n fuel i lens tempTree r r1 l hlt hn hvt a1]
          exact k1
        · apply cells_tok lens (lens.setIfInBounds i (l % 256)) lens' i n (Tok.len l).lens
            (toksLens ts) hlt
          · intro j hj
            rw [Array.getElem?_setIfInBounds, if_neg (by omega)]
          · intro j hj1 hj2
            rw [hmin] at hj2
            have : j = i := by omega
            subst this
            rw [Array.getElem?_setIfInBounds, if_pos rfl, if_pos (by omega), hl256]
            simp [Tok.lens]
          · rw [hmin]; exact k3
      | z0 => simp [Tok.sym] at hz
      | z1 k => simp [Tok.sym] at hz
      | z2 k => simp [Tok.sym] at hz

/-! ## Layer 4a: `read_code_table` -/

theorem codeWf_coded (f : Fmt) (temp : Table) (n : Nat) (toks : List Tok)
    (h : codeWf f temp (.coded n toks) = true) :
    1 ≤ n ∧ n ≤ f.numCodes ∧ (∀ t ∈ toks, t.valid = true) ∧ (∀ t ∈ toks, temp.has t.sym = true) ∧
    toksFit n toks 0 = true ∧ Canon.complete ((toksLens toks).take n) = true ∧
    (∀ t ∈ toks, ∀ l ∈ t.lens, l < 256) := by
  simp only [codeWf, Bool.and_eq_true, decide_eq_true_eq] at h
  obtain ⟨⟨⟨⟨⟨⟨h1, h2⟩, h3⟩, h4⟩, h5⟩, h6⟩, h7⟩ := h
  refine ⟨h1, h2, fun t ht => List.all_eq_true.mp h3 t ht,
    fun t ht => List.all_eq_true.mp h4 t ht, h5, h6, ?_⟩
  intro t ht l hl
  exact all_lt_of_all _ h7 l (List.mem_flatMap.mpr ⟨t, ht, hl⟩)

/-- **Layer 4a**: `read_code_table` on the transmitted form of a well-formed code table -/
theorem readCodeTable_spec (p : LhNew.Params) (hp : RTParams p) (s : LhNew.St) (temp : Table)
    (ct : CodeTable) (rest : List Bool) (hT : TreeFor p.leafBit s.tempTree temp)
    (hwf : codeWf (fmtOf p) temp ct = true)
    (hsz : s.codeTree.size = p.codeTreeCap) (hi : Bits.Inv s.bits)
    (hs : Bits.stream s.bits = codeBits temp ct ++ rest) :
    ∃ tree' r', LhNew.readCodeTable p s = .ok (true, { s with bits := r', codeTree := tree' }) ∧
      tree'.size = p.codeTreeCap ∧ TreeFor p.leafBit tree' ct.table ∧ Bits.Inv r' ∧
      Bits.stream r' = rest := by
  have hcap := hp.codeCap
  have hleaf := hp.leaf
  have hnc := hp.numCodes
  have hnc' := hp.numCodes'
  cases ct with
  | single c =>
    have hc : c < 512 := by simpa [codeWf] using hwf
    simp only [codeBits, List.append_assoc] at hs
    obtain ⟨h1, h2, h3⟩ := readBits_bitsN s.bits 9 0 _ hi (by decide) (by decide) hs
    obtain ⟨g1, g2, g3⟩ := readBits_bitsN (s.bits.readBits 9).2 9 c rest h2 (by decide) hc h3
    refine ⟨Tree.setSingle p.leafBit s.codeTree (c : Int), ((s.bits.readBits 9).2.readBits 9).2,
      ?_, ?_, treeFor_single _ _ c (by omega) (by omega), g2, g3⟩
    · unfold LhNew.readCodeTable
      simp only [h1, g1]
    · simpa [Tree.setSingle] using hsz
  | coded n toks =>
    obtain ⟨w1, w2, w3, w4, w5, w6, w7⟩ := codeWf_coded _ temp n toks hwf
    have w2' : n ≤ p.numCodes := w2
    simp only [codeBits] at hs
    rw [List.append_assoc] at hs
    obtain ⟨h1, h2, h3⟩ := readBits_bitsN s.bits 9 n _ hi (by decide) (by omega) hs
    obtain ⟨lens', r', k1, k2, k3, k4, k5⟩ := codeLoop_spec p n w2' s.tempTree temp hT toks w3 w4
      w7 0 (n + 1) (Array.replicate p.numCodes 0) (s.bits.readBits 9).2 rest w5 (by omega)
      (by simp) h2 h3
    have hlen := toksFit_length n toks 0 w5
    have htake : lens'.toList.take n = (toksLens toks).take n :=
      take_eq_of_cells lens' (toksLens toks) n (by omega) (fun j hj => by
        rw [k3 j hj, if_pos (Nat.zero_le _), Nat.sub_zero])
    have hbytes : ∀ l ∈ (toksLens toks).take n, l < 256 := by
      intro l hl
      obtain ⟨t, ht, hlt⟩ := List.mem_flatMap.mp (List.mem_of_mem_take hl)
      exact w7 t ht l hlt
    have htl : ((toksLens toks).take n).length = n := by
      rw [List.length_take]; omega
    obtain ⟨t1, t2, t3⟩ := treeFor_lens p.leafBit s.codeTree (p.numCodes * 2)
      ((toksLens toks).take n) (by omega) w6 hbytes (by omega) (by omega)
    refine ⟨(Tree.buildTree p.leafBit s.codeTree (p.numCodes * 2) ((toksLens toks).take n)).1, r',
      ?_, by rw [t3, hsz], t1, k4, k5⟩
    unfold LhNew.readCodeTable
    simp only [h1]
    have hmin : min n p.numCodes = n := by omega
    split
    · next h => cases h
    · next h => simp only [Option.some.injEq] at h; omega
    · next n0 _ _ h =>
      simp only [Option.some.injEq] at h
      subst h
      simp only [hmin, k1, Res.ok_bind, htake, t2]
      rfl

end LhasaV.LhNewRT
