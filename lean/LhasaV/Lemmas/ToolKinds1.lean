import LhasaV.Lemmas.StreamProps
/-!
# C16 at tool level, part 1: the basic reader over any kind of source, behind any clean prefix

* `header_read_consumes24`: an accepted header is at least 24 bytes long, so the 24-byte lead-in
  buffer of `lha_input_stream.c` is empty after every header (the reason `lha_input_stream_skip`
  may ignore it);
* `BRel P a b`: two basic readers whose sources may be of different kinds (seekable file, pipe,
  callbacks with or without skip) and whose step counters may differ; `a`'s source holds the bytes
  of `b`'s behind a prefix `P` that the self-extractor scan passes over.  Either both reported the
  end, or both are untouched, or both are past their first header with empty lead-in buffers and
  THE SAME BYTES STILL TO COME (`Stream.src`) — positions are not compared;
* **`basicNext_rel`**: `lha_basic_reader_next_file` keeps the relation and returns the same
  header object, the same END flag, the same ledger;
* `memberSrc_live`: the member source handed to a decoder is the same.
-/
set_option linter.unusedSimpArgs false
namespace LhasaV.ToolKinds
open LhasaV LhasaV.Stream LhasaV.Header LhasaV.Res
open LhasaV.Reader (Basic Ledger basicNext memberSrc)

/-! ## an accepted header is at least 24 bytes long -/

/-- a header-parsing step consumes at least `k` bytes of `inp` when it succeeds -/
def Eats (k : Nat) (inp : Bytes) (x : Res (Hdr × Bytes)) : Prop :=
  ∀ a, x = .ok a → a.2.length + k ≤ inp.length

theorem eats_fail {k inp} : Eats k inp .fail := by intro a h; cases h
theorem eats_fault {k inp w} : Eats k inp (.fault w) := by intro a h; cases h

theorem eats_bind {α k inp} {x : Res α} {f : α → Res (Hdr × Bytes)} (hf : ∀ a, Eats k inp (f a)) :
    Eats k inp (x >>= f) := by
  intro b e
  obtain ⟨a, _, e2⟩ := bind_eq_ok.mp e
  exact hf a b e2

theorem keeps_use {n} {x : Res (Hdr × Bytes)} (h : Stream.Keeps n x) {a : Hdr × Bytes} (e : x = .ok a) :
    a.2.length ≤ n := by
  unfold Stream.Keeps at h; exact h a e

theorem eats_bind_keeps {k inp} {x : Res (Hdr × Bytes)} {f : Hdr × Bytes → Res (Hdr × Bytes)}
    (hx : Eats k inp x) (hf : ∀ a : Hdr × Bytes, Stream.Keeps a.2.length (f a)) : Eats k inp (x >>= f) := by
  intro b e
  obtain ⟨a, ea, eb⟩ := bind_eq_ok.mp e
  have h1 := hx a ea
  have h2 := keeps_use (hf a) eb
  omega

theorem eats_extend_bind {k k' : Nat} {h : Hdr} {inp : Bytes} {f : Hdr × Bytes → Res (Hdr × Bytes)}
    (hk : k ≤ k') (hf : ∀ a : Hdr × Bytes, Stream.Keeps a.2.length (f a)) :
    Eats k inp (extend h inp k' >>= f) := by
  apply eats_bind_keeps _ hf
  intro a ea
  obtain ⟨h', r⟩ := a
  obtain ⟨_, hle, _, rfl⟩ := extend_eq_ok.mp ea
  simp only [List.length_drop]; omega

theorem decodeLevel0_eats (mk : Nat → Nat) (h : Hdr) (inp : Bytes) (hr : h.raw.length = 22) :
    Eats 2 inp (decodeLevel0 mk h inp) := by
  unfold decodeLevel0
  apply eats_bind; intro headerLen
  apply eats_bind; intro csum
  simp only [Res.fail_bind, Res.fault_bind]
  have hmin : 22 ≤ (if h.level = 0 then Gen.level0MinHeaderLen else Gen.level1MinHeaderLen) := by
    split <;> decide
  generalize (if h.level = 0 then Gen.level0MinHeaderLen else Gen.level1MinHeaderLen) = minLen at hmin ⊢
  split
  · exact eats_fail
  split
  · exact eats_fault
  apply eats_extend_bind (by omega)
  intro a
  repeat' keeps_step

theorem decodeLevel1_eats (mk : Nat → Nat) (h : Hdr) (inp : Bytes) (hr : h.raw.length = 22) :
    Eats 2 inp (decodeLevel1 mk h inp) := by
  unfold decodeLevel1
  apply eats_bind_keeps (decodeLevel0_eats mk h inp hr)
  intro a
  apply keeps_bind_of (readL1Ext_keeps _ _ (Nat.le_refl _))
  intro b hb
  repeat' keeps_step

theorem decodeLevel2_eats (h : Hdr) (inp : Bytes) (hr : h.raw.length = 22) :
    Eats 2 inp (decodeLevel2 h inp) := by
  unfold decodeLevel2
  apply eats_bind; intro headerLen
  simp only [Res.fail_bind, Res.fault_bind]
  split
  · exact eats_fail
  split
  · exact eats_fault
  rename_i h1 h2
  apply eats_extend_bind (by have : Gen.level2HeaderLen = 26 := rfl; omega)
  intro a
  repeat' keeps_step

theorem decodeLevel3_eats (h : Hdr) (inp : Bytes) (hr : h.raw.length = 22) :
    Eats 2 inp (decodeLevel3 h inp) := by
  intro a e
  obtain ⟨h', r'⟩ := a
  unfold decodeLevel3 at e
  simp only [Res.fail_bind, Res.fault_bind, Res.pure_eq, bind_eq_ok, ite_fail_eq_ok,
    ite_fault_eq_ok, Prod.exists, rdU8_eq, rdU16_eq, rdU32_eq, ofOpt_eq_ok, rdSlice_eq_ok,
    extend_eq_ok, Res.ok.injEq, Prod.mk.injEq] at e
  obtain ⟨ws, hws, hws4, -, h1, r1, ⟨-, hle, rfl, rfl⟩, l, hl, hlb, h2, r2, ⟨-, hle2, rfl, rfl⟩,
    method, -, clen, -, len, -, ts, -, crc, -, os, -, h3, hd, rfl, rfl⟩ := e
  simp only [Gen.level3HeaderLen, hr] at hle ⊢
  simp only [List.length_drop]
  omega

/-- a successfully parsed header consumed at least 24 bytes (levels 0/1: the length byte is ≥ 22 and
does not count the first two bytes; level 2: ≥ 26; level 3: ≥ 32) -/
theorem header_read_consumes24 {mk : Nat → Nat} {inp : Bytes} {h : Hdr} {r : Bytes}
    (e : Header.read mk inp = .ok (h, r)) : r.length + 24 ≤ inp.length := by
  unfold Header.read at e
  simp only [bind_eq_ok, Prod.exists, extend_eq_ok, rdU8_eq, ofOpt_eq_ok] at e
  obtain ⟨h1, r1, ⟨-, hle, rfl, rfl⟩, lvl, hlvl, e⟩ := e
  simp only [Gen.commonHeaderLen] at hle hlvl e
  have hlen' : ([] ++ inp.take 22 : Bytes).length = 22 := by simp; omega
  have hfin : ∀ (x : Res (Hdr × Bytes)), Eats 2 (inp.drop 22) x →
      ((x >>= fun p => postProcess p.1 >>= fun h => pure (h, p.2)) = .ok (h, r)) → r.length + 24 ≤ inp.length := by
    intro x hk hx
    simp only [bind_eq_ok, Prod.exists, Res.pure_eq, Res.ok.injEq, Prod.mk.injEq] at hx
    obtain ⟨g, r', hd, h', hp, rfl, rfl⟩ := hx
    have := hk _ hd
    simp only [List.length_drop] at this
    omega
  by_cases h0 : lvl = 0
  · subst h0
    simp only [if_true] at e
    exact hfin _ (decodeLevel0_eats mk _ _ hlen') e
  rw [if_neg h0] at e
  by_cases h1 : lvl = 1
  · subst h1
    simp only [if_true] at e
    exact hfin _ (decodeLevel1_eats mk _ _ hlen') e
  rw [if_neg h1] at e
  by_cases h2 : lvl = 2
  · subst h2
    simp only [if_true] at e
    exact hfin _ (decodeLevel2_eats _ _ hlen') e
  rw [if_neg h2] at e
  by_cases h3 : lvl = 3
  · subst h3
    simp only [if_true] at e
    exact hfin _ (decodeLevel3_eats _ _ hlen') e
  rw [if_neg h3] at e
  simp only [Res.fail_bind] at e
  cases e
/-! ## the stream seen through what it can still deliver -/

theorem src_skip (s : Stream.St) (n : Nat) (h : (skip s n).1 = true) :
    src (skip s n).2 = (src s).drop n := by
  have hp := skip_pos s n h
  have hf := skip_frame s n
  simp only [src, hp, hf.1, List.drop_drop]

theorem skip_ok_iff (s : Stream.St) (n : Nat) :
    (skip s n).1 = true ↔ (s.kind = .seekable ∨ n ≤ (src s).length) := by
  rw [src_length]
  by_cases hk : s.kind = .seekable
  · simp [skip_seekable s n hk, hk]
  · rw [skip_other s n hk]; simp [hk]

theorem rest_advance (s : Stream.St) (k : Nat) : rest (advance s k) = (rest s).drop k := by
  rw [rest_eq, rest_eq, List.drop_append]
  have hs : src (advance s k) = (src s).drop (min (k - min k s.leadin.length) (s.data.size - s.pos)) := by
    simp only [src, advance, List.drop_drop]
  rw [hs]
  simp only [advance]
  by_cases hk : k ≤ s.leadin.length
  · rw [Nat.min_eq_left hk]
    simp [show k - s.leadin.length = 0 by omega]
  · rw [Nat.min_eq_right (by omega), List.drop_of_length_le (Nat.le_refl _),
      List.drop_of_length_le (by omega : s.leadin.length ≤ k)]
    congr 1
    by_cases h2 : k - s.leadin.length ≤ s.data.size - s.pos
    · rw [Nat.min_eq_left h2]
    · rw [Nat.min_eq_right (by omega), List.drop_of_length_le (by rw [src_length]; exact Nat.le_refl _),
        List.drop_of_length_le (by rw [src_length]; omega)]

theorem advance_leadin (s : Stream.St) (k : Nat) (h : s.leadin.length ≤ k) : (advance s k).leadin = [] := by
  simp only [advance]
  rw [Nat.min_eq_right h]
  exact List.drop_of_length_le (Nat.le_refl _)

theorem advance_phase (s : Stream.St) (k : Nat) : (advance s k).phase = s.phase := rfl

theorem start_reading (s : Stream.St) (h : s.phase = .reading) : start s = .ok s := by
  unfold start; simp only [h, phase_beq]; rfl


/-! ## the relation on basic readers -/

/-- the basic reader has reported the end of the archive -/
def Dead (a : Basic) : Prop := a.eof = true ∧ a.curr = none

/-- both streams are past their first header: nothing buffered, the same bytes still to come -/
structure Live (a b : Basic) : Prop where
  pa : a.stream.phase = .reading
  pb : b.stream.phase = .reading
  la : a.stream.leadin = []
  lb : b.stream.leadin = []
  src : src a.stream = src b.stream
  rem : a.remaining = b.remaining

/-- both streams are untouched; `a` holds the bytes of `b` behind the prefix `P`, and the
self-extractor scan finds in `P ++ B` the header it finds in `B` -/
structure Init (P : List UInt8) (a b : Basic) : Prop where
  pa : a.stream.phase = .init
  pb : b.stream.phase = .init
  la : a.stream.leadin = []
  lb : b.stream.leadin = []
  posa : a.stream.pos = 0
  posb : b.stream.pos = 0
  ca : a.curr = none
  rema : a.remaining = 0
  remb : b.remaining = 0
  data : a.stream.data.toList = P ++ b.stream.data.toList
  hdr : firstHeader (P ++ b.stream.data.toList) = (firstHeader b.stream.data.toList).map (· + P.length)

/-- basic readers over sources of any two kinds (`kind`, `reads`, `moved`, `dataStart` are not
compared), the first possibly behind a prefix `P` -/
structure BRel (P : List UInt8) (a b : Basic) : Prop where
  curr : a.curr = b.curr
  eof : a.eof = b.eof
  st : Dead a ∨ Init P a b ∨ Live a b

abbrev BOut (P : List UInt8) (r r' : Basic × Ledger) : Prop := BRel P r.1 r'.1 ∧ r.2 = r'.2

theorem tail_rel (P : List UInt8) (mk : Nat → Nat) (a b : Basic) (led : Ledger)
    (hca : a.curr = none) (hcb : b.curr = none) (hea : a.eof = false) (heb : b.eof = false)
    (sa sb : Stream.St) (ea : start a.stream = .ok sa) (eb : start b.stream = .ok sb)
    (h : (sa.phase = .fail ∧ sb.phase = .fail) ∨
         (sa.phase = .reading ∧ sb.phase = .reading ∧ rest sa = rest sb ∧
          sa.leadin.length ≤ 24 ∧ sb.leadin.length ≤ 24)) :
    ResRel (BOut P) (nextTail mk a led) (nextTail mk b led) := by
  unfold nextTail
  simp only [hea, heb, Bool.false_eq_true, if_false, ea, eb, Res.ok_bind]
  rcases h with ⟨fa, fb⟩ | ⟨ra, rb, hr, la, lb⟩
  · simp only [fa, fb, phase_beq, decide_true, if_true]
    exact ⟨⟨hca.trans hcb.symm, rfl, Or.inl ⟨rfl, hca⟩⟩, rfl⟩
  · simp only [ra, rb, phase_beq, decide_false, Bool.false_eq_true, if_false]
    rw [hr]
    cases hH : Header.read mk (rest sb) with
    | fault w => exact rfl
    | fail => exact ⟨⟨hca.trans hcb.symm, rfl, Or.inl ⟨rfl, hca⟩⟩, rfl⟩
    | ok r =>
      obtain ⟨hh, rr⟩ := r
      have h24 := header_read_consumes24 hH
      have hla : (rest sb).length = sb.leadin.length + (src sb).length := by
        rw [rest_eq, List.length_append]
      have hla' : (rest sb).length = sa.leadin.length + (src sa).length := by
        rw [← hr, rest_eq, List.length_append]
      refine ⟨⟨rfl, rfl, Or.inr (Or.inr ⟨?_, ?_, ?_, ?_, ?_, rfl⟩)⟩, rfl⟩
      · exact ra
      · exact rb
      · exact advance_leadin _ _ (by omega)
      · exact advance_leadin _ _ (by omega)
      · have e1 := rest_advance sa ((rest sb).length - rr.length)
        have e2 := rest_advance sb ((rest sb).length - rr.length)
        rw [rest_eq, advance_leadin _ _ (by omega), List.nil_append] at e1 e2
        show src (advance sa _) = src (advance sb _)
        rw [e1, e2, hr]


theorem start_init (s : Stream.St) (hp : s.phase = .init) (hl : s.leadin = []) (h0 : s.pos = 0) :
    ∃ s', start s = .ok s' ∧ s'.leadin.length ≤ 24 ∧
      match firstHeader s.data.toList with
      | some i => s'.phase = .reading ∧ rest s' = s.data.toList.drop i
      | none => s'.phase = .fail := by
  obtain ⟨s', e, _, _, hl', hm⟩ := scan_finds_first s hp hl s.data.toList
    (by rw [extract_eq_src, src, h0]; rfl)
  exact ⟨s', e, hl', hm⟩

theorem tail_init (P : List UInt8) (mk : Nat → Nat) (a b : Basic) (led : Ledger)
    (hi : Init P a b) (hcb : b.curr = none) (hea : a.eof = false) (heb : b.eof = false) :
    ResRel (BOut P) (nextTail mk a led) (nextTail mk b led) := by
  obtain ⟨sa, ea, la, ma⟩ := start_init a.stream hi.pa hi.la hi.posa
  obtain ⟨sb, eb, lb, mb⟩ := start_init b.stream hi.pb hi.lb hi.posb
  refine tail_rel P mk a b led hi.ca hcb hea heb sa sb ea eb ?_
  rw [hi.data, hi.hdr] at ma
  cases hF : firstHeader b.stream.data.toList with
  | none =>
    rw [hF] at ma mb
    exact Or.inl ⟨ma, mb⟩
  | some i =>
    rw [hF] at ma mb
    simp only [Option.map_some] at ma
    refine Or.inr ⟨ma.1, mb.1, ?_, la, lb⟩
    rw [ma.2, mb.2, List.drop_append, List.drop_of_length_le (by omega), Nat.add_sub_cancel]
    rfl

theorem tail_live (P : List UInt8) (mk : Nat → Nat) (a b : Basic) (led : Ledger)
    (hl : Live a b) (hca : a.curr = none) (hcb : b.curr = none) (hea : a.eof = false) (heb : b.eof = false) :
    ResRel (BOut P) (nextTail mk a led) (nextTail mk b led) := by
  refine tail_rel P mk a b led hca hcb hea heb _ _ (start_reading _ hl.pa) (start_reading _ hl.pb) ?_
  refine Or.inr ⟨hl.pa, hl.pb, ?_, by simp [hl.la], by simp [hl.lb]⟩
  rw [rest_eq, rest_eq, hl.la, hl.lb, hl.src]

/-- a stream that has nothing left cannot deliver another header -/
theorem tail_empty (mk : Nat → Nat) (a : Basic) (led : Ledger) (hp : a.stream.phase = .reading)
    (hl : a.stream.leadin = []) (hs : src a.stream = []) (he : a.eof = false) :
    nextTail mk a led = .ok ({ a with eof := true }, led) := by
  unfold nextTail
  have hr : rest a.stream = [] := by rw [rest_eq, hl, hs]; rfl
  simp only [he, Bool.false_eq_true, if_false, start_reading _ hp, Res.ok_bind, hp, phase_beq,
    decide_false, hr, header_read_short mk [] (by decide)]
  split <;> rfl

/-- **`lha_basic_reader_next_file` does not see the kind of its source, nor a clean prefix.** -/
theorem basicNext_rel (P : List UInt8) (mk : Nat → Nat) (a b : Basic) (led : Ledger) (h : BRel P a b) :
    ResRel (BOut P) (basicNext mk a led) (basicNext mk b led) := by
  rw [basicNext_eq, basicNext_eq]
  rcases h.st with hd | hi | hl
  · -- END was reported
    have hcb : b.curr = none := h.curr ▸ hd.2
    simp only [afterSkip, hd.2, hcb]
    rw [nextTail_eof _ _ _ hd.1, nextTail_eof _ _ _ (h.eof ▸ hd.1)]
    exact ⟨h, rfl⟩
  · -- nothing read yet
    have hcb : b.curr = none := h.curr ▸ hi.ca
    simp only [afterSkip, hi.ca, hcb]
    by_cases he : a.eof = true
    · rw [nextTail_eof _ _ _ he, nextTail_eof _ _ _ (h.eof ▸ he)]
      exact ⟨h, rfl⟩
    · have hea : a.eof = false := by simpa using he
      exact tail_init P mk a b led hi hcb hea (h.eof ▸ hea)
  · cases hca : a.curr with
    | none =>
      have hcb : b.curr = none := h.curr ▸ hca
      simp only [afterSkip, hca, hcb]
      by_cases he : a.eof = true
      · rw [nextTail_eof _ _ _ he, nextTail_eof _ _ _ (h.eof ▸ he)]
        exact ⟨h, rfl⟩
      · have hea : a.eof = false := by simpa using he
        exact tail_live P mk a b led hl hca hcb hea (h.eof ▸ hea)
    | some c =>
      have hcb : b.curr = some c := h.curr ▸ hca
      simp only [afterSkip, hca, hcb]
      have fa := skip_frame a.stream a.remaining
      have fb := skip_frame b.stream b.remaining
      by_cases he : a.eof = true
      · have heb : b.eof = true := h.eof ▸ he
        rw [nextTail_eof _ _ _ (by simp [he]), nextTail_eof _ _ _ (by simp [heb])]
        exact ⟨⟨rfl, by simp [he, heb], Or.inl ⟨by simp [he], rfl⟩⟩, rfl⟩
      · have hea : a.eof = false := by simpa using he
        have heb : b.eof = false := h.eof ▸ hea
        have hlen : (src a.stream).length = (src b.stream).length := by rw [hl.src]
        cases hsa : (skip a.stream a.remaining).1 <;> cases hsb : (skip b.stream b.remaining).1
        · rw [nextTail_eof _ _ _ (by simp [hsa]), nextTail_eof _ _ _ (by simp [hsb])]
          exact ⟨⟨rfl, by simp [hsa, hsb], Or.inl ⟨by simp [hsa], rfl⟩⟩, rfl⟩
        · -- `b` seeks past the end, `a` fails the skip
          have hna : ¬ a.remaining ≤ (src a.stream).length := fun hh =>
            by rw [(skip_ok_iff _ _).mpr (Or.inr hh)] at hsa; cases hsa
          have e := tail_empty mk
            { b with curr := none, stream := (skip b.stream b.remaining).2, eof := b.eof || !true }
            (led.unref c.id) (by simp [fb.2.2.1, hl.pb]) (by simp [fb.2.2.2, hl.lb])
            (by show src (skip b.stream b.remaining).2 = []
                rw [src_skip _ _ hsb]; exact List.drop_of_length_le (by rw [← hl.rem]; omega))
            (by simp [heb])
          rw [nextTail_eof _ _ _ (by simp), e]
          exact ⟨⟨rfl, by simp, Or.inl ⟨by simp, rfl⟩⟩, rfl⟩
        · have hnb : ¬ b.remaining ≤ (src b.stream).length := fun hh =>
            by rw [(skip_ok_iff _ _).mpr (Or.inr hh)] at hsb; cases hsb
          have e := tail_empty mk
            { a with curr := none, stream := (skip a.stream a.remaining).2, eof := a.eof || !true }
            (led.unref c.id) (by simp [fa.2.2.1, hl.pa]) (by simp [fa.2.2.2, hl.la])
            (by show src (skip a.stream a.remaining).2 = []
                rw [src_skip _ _ hsa]; exact List.drop_of_length_le (by rw [hl.rem]; omega))
            (by simp [hea])
          rw [e, nextTail_eof _ _ _ (by simp)]
          exact ⟨⟨rfl, by simp, Or.inl ⟨by simp, rfl⟩⟩, rfl⟩
        · refine tail_live P mk _ _ _ ⟨?_, ?_, ?_, ?_, ?_, hl.rem⟩ rfl rfl (by simp [hea]) (by simp [heb])
          · simp [fa.2.2.1, hl.pa]
          · simp [fb.2.2.1, hl.pb]
          · simp [fa.2.2.2, hl.la]
          · simp [fb.2.2.2, hl.lb]
          · show src (skip a.stream a.remaining).2 = src (skip b.stream b.remaining).2
            rw [src_skip _ _ hsa, src_skip _ _ hsb, hl.src, hl.rem]


/-- the member source a decoder is opened on is the same -/
theorem memberSrc_live {a b : Basic} (h : Live a b) (he : a.eof = b.eof) : memberSrc a = memberSrc b := by
  have e1 : ∀ s : Stream.St, ∀ n, (s.data.extract s.pos (s.pos + min n (s.data.size - s.pos))).toList =
      (src s).take n := fun s n => doRead_fst s n
  have hd : a.stream.data.extract a.stream.pos (a.stream.pos + min a.remaining (a.stream.data.size - a.stream.pos)) =
      b.stream.data.extract b.stream.pos (b.stream.pos + min b.remaining (b.stream.data.size - b.stream.pos)) := by
    apply Array.ext'
    rw [e1, e1, h.src, h.rem]
  have hs : a.stream.data.size - a.stream.pos = b.stream.data.size - b.stream.pos := by
    rw [← src_length, ← src_length, h.src]
  unfold memberSrc
  simp only [hd, he]
  rw [hs, h.rem]

end LhasaV.ToolKinds
