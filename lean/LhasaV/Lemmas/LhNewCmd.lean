import LhasaV.Model.LhNew
import LhasaV.Spec.Lz77
import LhasaV.Spec.LhNewEnc
import LhasaV.Lemmas.Bits
import LhasaV.Lemmas.LzRoundTrip
/-!
Command-level refinement facts for the `lh_new_decoder.c` model (`LhasaV.LhNew`).

* Part A: the ring buffer with a write position refines the sliding window of
  `Spec.Lz77` (`WinRel`, `winRel_init`, `winRel_lit`, `copyLoop_win`).
* Part B: the decoder's arithmetic on copy-length and distance symbols inverts the
  symbol assignment of the stream-format specification (`Spec.LhNewEnc.lenCode`,
  `Spec.LhNewEnc.offCode`), stated over the bit reader.
-/
namespace LhasaV.LhNewCmd
open LhasaV LhasaV.Spec.Lz77

/-! ## Part A: ring buffer vs sliding window -/

/-- the ring of size N with write position `pos` holds the last N bytes of the output `out`,
    older cells hold the fill byte -/
def WinRel (N : Nat) (fill : UInt8) (ring : Array UInt8) (pos : Nat) (out : List UInt8) : Prop :=
  N ≤ ring.size ∧ pos < N ∧ pos = out.length % N ∧
  ∀ d, d < N → ring[(pos + N - 1 - d) % N]? = some (winByte fill out d)

/-- reduction of a value below `2 * N` -/
theorem mod_of_lt_two_mul (x N : Nat) (h : x < 2 * N) :
    x % N = if x < N then x else x - N := by
  split
  · next h1 => exact Nat.mod_eq_of_lt h1
  · next h1 =>
    rw [Nat.mod_eq_sub_mod (by omega), Nat.mod_eq_of_lt (by omega)]

/-- the cell holding the byte at distance `d` -/
theorem idx_eq (N pos d : Nat) (hp : pos < N) (hd : d < N) :
    (pos + N - 1 - d) % N = if d < pos then pos - 1 - d else pos + N - 1 - d := by
  rw [mod_of_lt_two_mul _ _ (by omega)]
  split <;> split <;> omega

theorem succ_mod_eq (N pos : Nat) (hp : pos < N) :
    (pos + 1) % N = if pos + 1 < N then pos + 1 else 0 := by
  rw [mod_of_lt_two_mul _ _ (by omega)]
  split <;> omega

theorem winByte_nil (fill : UInt8) (d : Nat) : winByte fill [] d = fill := by
  simp [winByte]

theorem winByte_append_zero (fill : UInt8) (out : List UInt8) (b : UInt8) :
    winByte fill (out ++ [b]) 0 = b := by
  simp [winByte]

theorem winByte_append_succ (fill : UInt8) (out : List UInt8) (b : UInt8) (d : Nat) :
    winByte fill (out ++ [b]) (d + 1) = winByte fill out d := by
  unfold winByte
  simp only [List.length_append, List.length_cons, List.length_nil]
  by_cases h : d < out.length
  · have h1 : d + 1 < out.length + (0 + 1) := by omega
    have h2 : out.length + (0 + 1) - 1 - (d + 1) = out.length - 1 - d := by omega
    simp only [h, h1, if_true, h2]
    simp only [List.getD_eq_getElem?_getD]
    rw [List.getElem?_append_left (by omega)]
  · have h1 : ¬ d + 1 < out.length + (0 + 1) := by omega
    simp only [h, h1, if_false]

theorem winRel_init (N cap : Nat) (fill : UInt8) (hN : 0 < N) (hc : N ≤ cap) :
    WinRel N fill (Array.replicate cap fill) 0 [] := by
  refine ⟨by simpa using hc, hN, by simp, ?_⟩
  intro d hd
  have h : (0 + N - 1 - d) % N < cap := Nat.lt_of_lt_of_le (Nat.mod_lt _ hN) hc
  rw [winByte_nil, Array.getElem?_replicate, if_pos h]

/-- a literal: `ring[pos] := b; pos := (pos+1) % N` -/
theorem winRel_lit (N : Nat) (fill : UInt8) (ring : Array UInt8) (pos : Nat) (out : List UInt8)
    (b : UInt8) (h : WinRel N fill ring pos out) :
    WinRel N fill (ring.setIfInBounds pos b) ((pos + 1) % N) (out ++ [b]) := by
  obtain ⟨hsz, hp, hlen, hcell⟩ := h
  have hN : 0 < N := by omega
  refine ⟨by simpa using hsz, Nat.mod_lt _ hN, ?_, ?_⟩
  · rw [hlen, List.length_append, List.length_singleton, Nat.mod_add_mod]
  · intro d hd
    have hpos' : (pos + 1) % N < N := Nat.mod_lt _ hN
    rw [Array.getElem?_setIfInBounds]
    cases d with
    | zero =>
      have e : ((pos + 1) % N + N - 1 - 0) % N = pos := by
        rw [idx_eq _ _ _ hpos' hd, succ_mod_eq _ _ hp]
        split <;> split <;> omega
      rw [e, winByte_append_zero]
      simp
      omega
    | succ d =>
      have e : ((pos + 1) % N + N - 1 - (d + 1)) % N = (pos + N - 1 - d) % N := by
        rw [idx_eq _ _ _ hpos' hd, idx_eq _ _ _ hp (by omega), succ_mod_eq _ _ hp]
        split <;> split <;> split <;> omega
      have ne : ¬ pos = (pos + N - 1 - d) % N := by
        rw [idx_eq _ _ _ hp (by omega)]
        split <;> omega
      rw [e, winByte_append_succ, if_neg ne]
      exact hcell d (by omega)

/-- advancing the read index together with the write position keeps the distance -/
theorem src_step (N pos d src : Nat) (hp : pos < N) (hd : d < N)
    (hsrc : src % N = (pos + N - d - 1) % N) :
    (src + 1) % N = ((pos + 1) % N + N - d - 1) % N := by
  rw [← Nat.mod_add_mod, hsrc, Nat.mod_add_mod, succ_mod_eq _ _ hp]
  split
  · congr 1; omega
  · next h =>
    have e : pos + N - d - 1 + 1 = (N - d - 1) + N := by omega
    have e2 : 0 + N - d - 1 = N - d - 1 := by omega
    rw [e, Nat.add_mod_right, e2]

/-- general form of `copyLoop_win`: any read index congruent to the start cell -/
theorem copyLoop_win_gen (N : Nat) (fill : UInt8) (count d : Nat) (hd : d < N) (src : Nat)
    (ring : Array UInt8) (pos : Nat) (out acc : List UInt8) (h : WinRel N fill ring pos out)
    (hsrc : src % N = (pos + N - d - 1) % N) :
    ∃ ring' pos' new, Ring.copyLoop N count src ring pos acc = .ok (ring', pos', new.reverse ++ acc) ∧
      new.length = count ∧ copyWin fill count d out = out ++ new ∧
      WinRel N fill ring' pos' (out ++ new) := by
  induction count generalizing src ring pos out acc with
  | zero => exact ⟨ring, pos, [], by simp [Ring.copyLoop], rfl, by simp [copyWin], by simpa using h⟩
  | succ n ih =>
    have hp : pos < N := h.2.1
    have e : pos + N - d - 1 = pos + N - 1 - d := by omega
    have hget : ring[src % N]? = some (winByte fill out d) := by
      rw [hsrc, e]; exact h.2.2.2 d hd
    have hw : pos < ring.size := Nat.lt_of_lt_of_le hp h.1
    obtain ⟨ring', pos', new, h1, h2, h3, h4⟩ :=
      ih (src + 1) (ring.setIfInBounds pos (winByte fill out d)) ((pos + 1) % N)
        (out ++ [winByte fill out d]) (winByte fill out d :: acc)
        (winRel_lit N fill ring pos out _ h) (src_step N pos d src hp hd hsrc)
    refine ⟨ring', pos', winByte fill out d :: new, ?_, by simp [h2], ?_, ?_⟩
    · unfold Ring.copyLoop
      simp only [hget, hw, if_true]
      rw [h1]
      simp
    · rw [copyWin, h3, List.append_assoc]; rfl
    · simpa [List.append_assoc] using h4

/-- a copy of `count` bytes from distance `d < N`: `Ring.copyLoop` produces exactly the bytes
    `copyWin` appends (self-overlap included), and re-establishes the relation -/
theorem copyLoop_win (N : Nat) (fill : UInt8) (count d : Nat) (hd : d < N) (ring : Array UInt8)
    (pos : Nat) (out acc : List UInt8) (h : WinRel N fill ring pos out) :
    ∃ ring' pos' new, Ring.copyLoop N count ((pos + N - d - 1) % N) ring pos acc
        = .ok (ring', pos', new.reverse ++ acc) ∧
      new.length = count ∧ copyWin fill count d out = out ++ new ∧
      WinRel N fill ring' pos' (out ++ new) :=
  copyLoop_win_gen N fill count d hd _ ring pos out acc h (Nat.mod_mod _ _)

/-! ## Part B: copy-length and distance codes -/

open LhasaV.Spec.LhNewEnc LhasaV.LzRoundTrip

theorem log2_bounds (d : Nat) (h : d ≠ 0) : 2 ^ Nat.log2 d ≤ d ∧ d < 2 ^ (Nat.log2 d + 1) :=
  ⟨Nat.log2_self_le h, Nat.lt_log2_self⟩

/-- dropping the low `k` bits of a value with `k + j + 1` significant bits leaves `j + 1` -/
theorem div_pow_range (v L k j : Nat) (hL : 2 ^ L ≤ v) (hU : v < 2 ^ (L + 1)) (hk : k + j = L) :
    2 ^ j ≤ v / 2 ^ k ∧ v / 2 ^ k < 2 ^ (j + 1) := by
  have hp : 0 < 2 ^ k := Nat.two_pow_pos k
  subst hk
  constructor
  · rw [Nat.le_div_iff_mul_le hp, ← Nat.pow_add, Nat.add_comm]; exact hL
  · rw [Nat.div_lt_iff_lt_mul hp, ← Nat.pow_add]
    have e : j + 1 + k = k + j + 1 := by omega
    rw [e]; exact hU

theorem toInt32_of_lt (v : Nat) (h : v < 2147483648) : LhNew.toInt32 v = (v : Int) := by
  unfold LhNew.toInt32
  have e : v % 4294967296 = v := Nat.mod_eq_of_lt (by omega)
  simp only [e, h, if_true]

/-! ### copy lengths -/

/-- the middle range of `lhark_decode_copy_count`, symbol `260 + 4k + (q - 4)` -/
theorem lharkCopyCount_mid (p : LhNew.Params) (r : Bits) (k q : Nat) (hk1 : 1 ≤ k) (hk : k ≤ 6)
    (hq4 : 4 ≤ q) (hq8 : q < 8) :
    LhNew.lharkCopyCount p r (260 + 4 * k + (q - 4))
      = ((r.readBits k).1.map (fun low => q * 2 ^ k + low + 3), (r.readBits k).2) := by
  unfold LhNew.lharkCopyCount
  have e1 : ¬ 260 + 4 * k + (q - 4) < 264 := by omega
  have e2 : 260 + 4 * k + (q - 4) < 288 := by omega
  have e3 : (260 + 4 * k + (q - 4) - 260) / 4 = k := by omega
  have e4 : 4 + (260 + 4 * k + (q - 4)) % 4 = q := by omega
  simp only [e1, e2, e3, e4, if_true, if_false]

/-- the explicit form of the LHark length code with extra bits -/
theorem lenCode_lhark_mid (f : Fmt) (hf : f.lhark = true) (n : Nat) (h11 : ¬ n < 11) :
    lenCode f n false =
      (260 + 4 * (Nat.log2 (n - 3) - 2) + ((n - 3) / 2 ^ (Nat.log2 (n - 3) - 2) - 4),
        bitsN (Nat.log2 (n - 3) - 2) ((n - 3) % 2 ^ (Nat.log2 (n - 3) - 2))) := by
  simp [lenCode, hf, h11]

/-- arithmetic facts about the LHark length code: `k = log2 (n-3) - 2`, `q = (n-3) / 2^k` -/
theorem lhark_len_facts (n : Nat) (h11 : ¬ n < 11) (hn : n ≤ 514) :
    1 ≤ Nat.log2 (n - 3) - 2 ∧ Nat.log2 (n - 3) - 2 ≤ 6 ∧
    4 ≤ (n - 3) / 2 ^ (Nat.log2 (n - 3) - 2) ∧ (n - 3) / 2 ^ (Nat.log2 (n - 3) - 2) < 8 := by
  have hv0 : n - 3 ≠ 0 := by omega
  obtain ⟨hL, hU⟩ := log2_bounds (n - 3) hv0
  have h3 : 3 ≤ Nat.log2 (n - 3) := (Nat.le_log2 hv0).2 (by omega)
  have h9 : Nat.log2 (n - 3) < 9 := (Nat.log2_lt hv0).2 (by omega)
  have hq := div_pow_range (n - 3) (Nat.log2 (n - 3)) (Nat.log2 (n - 3) - 2) 2 hL hU (by omega)
  refine ⟨by omega, by omega, hq.1, hq.2⟩

/-- LHark copy count: reading after code-tree symbol `(lenCode f n alt).1` the extra bits
`(lenCode f n alt).2` gives back `n` -/
theorem lharkCopyCount_lenCode (p : LhNew.Params) (f : Fmt) (hf : f.lhark = true)
    (hthr : p.copyThreshold = 3) (n : Nat) (alt : Bool) (hn3 : 3 ≤ n) (hn : n ≤ 514)
    (halt : alt = true → n = 514) (r : Bits) (hi : Bits.Inv r) (rest : List Bool)
    (hs : Bits.stream r = (lenCode f n alt).2 ++ rest) :
    ∃ r', LhNew.lharkCopyCount p r (lenCode f n alt).1 = (some n, r') ∧ Bits.Inv r' ∧
      Bits.stream r' = rest := by
  by_cases h11 : n < 11
  · have e : lenCode f n alt = (256 + (n - 3), []) := by simp [lenCode, hf, h11]
    rw [e] at hs ⊢
    refine ⟨r, ?_, hi, by simpa using hs⟩
    unfold LhNew.lharkCopyCount
    have e1 : 256 + (n - 3) < 264 := by omega
    have e2 : 256 + (n - 3) - 256 + 3 = n := by omega
    simp only [e1, if_true, hthr, e2]
  · cases alt with
    | true =>
      have e : lenCode f n true = (288, []) := by simp [lenCode, hf, h11]
      rw [e] at hs ⊢
      refine ⟨r, ?_, hi, by simpa using hs⟩
      unfold LhNew.lharkCopyCount
      rw [halt rfl]
      simp
    | false =>
      rw [lenCode_lhark_mid f hf n h11] at hs ⊢
      obtain ⟨hk1, hk6, hq4, hq8⟩ := lhark_len_facts n h11 hn
      generalize Nat.log2 (n - 3) - 2 = k at *
      have hm : (n - 3) % 2 ^ k < 2 ^ k := Nat.mod_lt _ (Nat.two_pow_pos k)
      have hdm : 2 ^ k * ((n - 3) / 2 ^ k) + (n - 3) % 2 ^ k = n - 3 := Nat.div_add_mod _ _
      obtain ⟨h1, h2, h3⟩ := readBits_bitsN r k ((n - 3) % 2 ^ k) rest hi (by omega) hm hs
      refine ⟨(r.readBits k).2, ?_, h2, h3⟩
      show LhNew.lharkCopyCount p r (260 + 4 * k + ((n - 3) / 2 ^ k - 4)) = _
      rw [lharkCopyCount_mid p r k _ hk1 hk6 hq4 hq8, h1]
      simp only [Option.map_some]
      rw [Nat.mul_comm]
      congr 2
      omega

/-- and the symbol is a copy symbol: `256 ≤ sym < 289` -/
theorem lenCode_lhark_range (f : Fmt) (hf : f.lhark = true) (n : Nat) (alt : Bool) (hn3 : 3 ≤ n)
    (hn : n ≤ 514) : 256 ≤ (lenCode f n alt).1 ∧ (lenCode f n alt).1 ≤ 288 := by
  by_cases h11 : n < 11
  · have e : lenCode f n alt = (256 + (n - 3), []) := by simp [lenCode, hf, h11]
    rw [e]; exact ⟨by omega, by omega⟩
  · cases alt with
    | true =>
      have e : lenCode f n true = (288, []) := by simp [lenCode, hf, h11]
      rw [e]; exact ⟨by decide, by decide⟩
    | false =>
      rw [lenCode_lhark_mid f hf n h11]
      obtain ⟨hk1, hk6, hq4, hq8⟩ := lhark_len_facts n h11 hn
      exact ⟨by omega, by omega⟩

/-- non-LHark: symbol `256 + (n-3)`, no extra bits, `sym - 256 + 3 = n`, `256 ≤ sym ≤ 509` -/
theorem lenCode_plain (f : Fmt) (hf : f.lhark = false) (n : Nat) (alt : Bool) (hn3 : 3 ≤ n)
    (hn : n ≤ 256) :
    lenCode f n alt = (256 + (n - 3), []) ∧ (lenCode f n alt).1 - 256 + 3 = n ∧
      256 ≤ (lenCode f n alt).1 ∧ (lenCode f n alt).1 ≤ 509 := by
  have e : lenCode f n alt = (256 + (n - 3), []) := by simp [lenCode, hf]
  rw [e]
  exact ⟨rfl, by omega, by omega, by omega⟩

/-! ### distances -/

/-- the part of `read_offset_code` after the offset-tree symbol `bits` has been read -/
def offTail (p : LhNew.Params) (bits : Nat) (r : Bits) : Res (Option Int × Bits) :=
  if bits = 0 then .ok (some 0, r)
  else if bits = 1 then .ok (some 1, r)
  else if p.lhark then
    if bits < 4 then .ok (some (bits : Int), r)
    else
      let nlow := (bits - 2) / 2
      let q := r.readBits nlow
      match q.1 with
      | none => .ok (none, q.2)
      | some low => .ok (some (LhNew.toInt32 ((2 + bits % 2) * 2 ^ nlow + low)), q.2)
  else
    let q := r.readBits (bits - 1)
    match q.1 with
    | none => .ok (none, q.2)
    | some v => .ok (some (LhNew.toInt32 (v + 2 ^ (bits - 1))), q.2)

theorem readOffsetCode_eq (p : LhNew.Params) (s : LhNew.St) :
    LhNew.readOffsetCode p s =
      (Tree.readFromTree p.leafBit s.offsetTree s.bits) >>= fun t =>
        match t.1 with
        | none => .ok (none, t.2)
        | some bits => offTail p bits t.2 := rfl

/-- plain (non-LHark) distance code with extra bits -/
theorem offTail_plain_mid (p : LhNew.Params) (hl : p.lhark = false) (L : Nat) (hL : 1 ≤ L)
    (r : Bits) :
    offTail p (L + 1) r =
      match (r.readBits L).1 with
      | none => .ok (none, (r.readBits L).2)
      | some v => .ok (some (LhNew.toInt32 (v + 2 ^ L)), (r.readBits L).2) := by
  unfold offTail
  have e0 : ¬ L + 1 = 0 := by omega
  have e1 : ¬ L + 1 = 1 := by omega
  simp only [e0, e1, hl, if_false, Nat.add_sub_cancel, Bool.false_eq_true]

/-- LHark distance code with extra bits, symbol `2 + 2k + (q - 2)` -/
theorem offTail_lhark_mid (p : LhNew.Params) (hl : p.lhark = true) (k q : Nat) (hk : 1 ≤ k)
    (hq2 : 2 ≤ q) (hq4 : q < 4) (r : Bits) :
    offTail p (2 + 2 * k + (q - 2)) r =
      match (r.readBits k).1 with
      | none => .ok (none, (r.readBits k).2)
      | some low => .ok (some (LhNew.toInt32 (q * 2 ^ k + low)), (r.readBits k).2) := by
  unfold offTail
  have e0 : ¬ 2 + 2 * k + (q - 2) = 0 := by omega
  have e1 : ¬ 2 + 2 * k + (q - 2) = 1 := by omega
  have e2 : ¬ 2 + 2 * k + (q - 2) < 4 := by omega
  have e3 : (2 + 2 * k + (q - 2) - 2) / 2 = k := by omega
  have e4 : 2 + (2 + 2 * k + (q - 2)) % 2 = q := by omega
  simp only [e0, e1, e2, e3, e4, hl, if_true, if_false]

/-- the distance code: after the offset-tree symbol `(offCode f d).1`, reading the extra bits
`(offCode f d).2` gives back `d` (both the plain and the LHark assignment) -/
theorem offTail_offCode (p : LhNew.Params) (f : Fmt) (hfl : f.lhark = p.lhark) (d : Nat)
    (hd : d < 2 ^ 20) (r : Bits) (hi : Bits.Inv r) (rest : List Bool)
    (hs : Bits.stream r = (offCode f d).2 ++ rest) :
    ∃ r', offTail p (offCode f d).1 r = .ok (some (d : Int), r') ∧ Bits.Inv r' ∧
      Bits.stream r' = rest := by
  cases hl : p.lhark with
  | false =>
    have hf : f.lhark = false := by rw [hfl, hl]
    by_cases h2 : d < 2
    · have e : offCode f d = (d, []) := by simp [offCode, hf, h2]
      rw [e] at hs ⊢
      refine ⟨r, ?_, hi, by simpa using hs⟩
      unfold offTail
      have hd01 : d = 0 ∨ d = 1 := by omega
      rcases hd01 with h | h <;> subst h <;> simp
    · have e : offCode f d = (Nat.log2 d + 1, bitsN (Nat.log2 d) (d - 2 ^ Nat.log2 d)) := by
        simp [offCode, hf, h2]
      rw [e] at hs ⊢
      have hd0 : d ≠ 0 := by omega
      obtain ⟨hL, hU⟩ := log2_bounds d hd0
      have h1 : 1 ≤ Nat.log2 d := (Nat.le_log2 hd0).2 (by omega)
      have h20 : Nat.log2 d < 20 := (Nat.log2_lt hd0).2 hd
      generalize Nat.log2 d = L at *
      have hm : d - 2 ^ L < 2 ^ L := by rw [Nat.pow_succ] at hU; omega
      obtain ⟨g1, g2, g3⟩ := readBits_bitsN r L (d - 2 ^ L) rest hi (by omega) hm hs
      refine ⟨(r.readBits L).2, ?_, g2, g3⟩
      show offTail p (L + 1) r = _
      rw [offTail_plain_mid p hl L h1 r, g1]
      have e2 : d - 2 ^ L + 2 ^ L = d := by omega
      simp only [e2]
      rw [toInt32_of_lt d (by omega)]
  | true =>
    have hf : f.lhark = true := by rw [hfl, hl]
    by_cases h4 : d < 4
    · have e : offCode f d = (d, []) := by simp [offCode, hf, h4]
      rw [e] at hs ⊢
      refine ⟨r, ?_, hi, by simpa using hs⟩
      unfold offTail
      have hd03 : d = 0 ∨ d = 1 ∨ d = 2 ∨ d = 3 := by omega
      rcases hd03 with h | h | h | h <;> subst h <;> simp [hl]
    · have e : offCode f d =
          (2 + 2 * (Nat.log2 d - 1) + (d / 2 ^ (Nat.log2 d - 1) - 2),
            bitsN (Nat.log2 d - 1) (d % 2 ^ (Nat.log2 d - 1))) := by
        simp [offCode, hf, h4]
      rw [e] at hs ⊢
      have hd0 : d ≠ 0 := by omega
      obtain ⟨hL, hU⟩ := log2_bounds d hd0
      have h2 : 2 ≤ Nat.log2 d := (Nat.le_log2 hd0).2 (by omega)
      have h20 : Nat.log2 d < 20 := (Nat.log2_lt hd0).2 hd
      have hq := div_pow_range d (Nat.log2 d) (Nat.log2 d - 1) 1 hL hU (by omega)
      have hk1 : 1 ≤ Nat.log2 d - 1 := by omega
      have hk20 : Nat.log2 d - 1 < 20 := by omega
      generalize Nat.log2 d - 1 = k at *
      have hm : d % 2 ^ k < 2 ^ k := Nat.mod_lt _ (Nat.two_pow_pos k)
      have hdm : 2 ^ k * (d / 2 ^ k) + d % 2 ^ k = d := Nat.div_add_mod _ _
      obtain ⟨g1, g2, g3⟩ := readBits_bitsN r k (d % 2 ^ k) rest hi (by omega) hm hs
      refine ⟨(r.readBits k).2, ?_, g2, g3⟩
      show offTail p (2 + 2 * k + (d / 2 ^ k - 2)) r = _
      rw [offTail_lhark_mid p hl k _ hk1 hq.1 hq.2 r, g1]
      have e2 : d / 2 ^ k * 2 ^ k + d % 2 ^ k = d := by rw [Nat.mul_comm]; exact hdm
      simp only [e2]
      rw [toInt32_of_lt d (by omega)]

/-! ### the ring start index of `LhNew.read` -/

/-- the unsigned 32-bit wrap in `ringbuf_pos + RING_BUFFER_SIZE - offset - 1` is invisible modulo
a ring size dividing `2^32` -/
theorem start_index_eq (N pos d : Nat) (hdvd : N ∣ 4294967296) (_hN : 0 < N) (_hp : pos < N)
    (hd : d < N) : (pos + N + 4294967296 - d - 1) % N = (pos + N - d - 1) % N := by
  obtain ⟨c, hc⟩ := hdvd
  have e : pos + N + 4294967296 - d - 1 = (pos + N - d - 1) + N * c := by omega
  rw [e, Nat.add_mul_mod_self_left]

/-- `copyLoop_win` with the start index exactly as `LhNew.read` computes it -/
theorem copyLoop_win_start (N : Nat) (fill : UInt8) (count d : Nat) (hd : d < N)
    (hdvd : N ∣ 4294967296) (ring : Array UInt8) (pos : Nat) (out acc : List UInt8)
    (h : WinRel N fill ring pos out) :
    ∃ ring' pos' new,
      Ring.copyLoop N count ((pos + N + 4294967296 - d - 1) % N) ring pos acc
        = .ok (ring', pos', new.reverse ++ acc) ∧
      new.length = count ∧ copyWin fill count d out = out ++ new ∧
      WinRel N fill ring' pos' (out ++ new) := by
  rw [start_index_eq N pos d hdvd (by have := h.2.1; omega) h.2.1 hd]
  exact copyLoop_win N fill count d hd ring pos out acc h

/-! ### non-vacuity -/

example : lenCode ⟨5, 510, 19, 14, 8192, true⟩ 514 false = (287, bitsN 6 63) := by decide
example : lenCode ⟨5, 510, 19, 14, 8192, true⟩ 514 true = (288, []) := by decide
example : lenCode ⟨5, 510, 19, 14, 8192, true⟩ 100 false = (278, bitsN 4 1) := by decide
example : offCode ⟨5, 510, 19, 14, 8192, true⟩ 1000 = (19, bitsN 8 232) := by decide
example : offCode ⟨4, 510, 19, 14, 8192, false⟩ 1000 = (10, bitsN 9 488) := by decide
example : WinRel 4 0x20 #[0x20, 0x20, 0x20, 0x20] 0 [] := winRel_init 4 4 0x20 (by decide) (by decide)
example : copyWin 0x20 5 1 [1, 2] = [1, 2, 1, 2, 1, 2, 1] := by decide
example : Ring.copyLoop 4 5 ((2 + 4 - 1 - 1) % 4) #[1, 2, 0x20, 0x20] 2 []
    = .ok (#[1, 2, 1, 2], 3, [1, 2, 1, 2, 1]) := by decide
/-- the hypotheses of `lharkCopyCount_lenCode` are satisfiable: a concrete reader whose stream
starts with the extra bits `0001` of the length 100 (symbol 278) -/
example : ∃ r', LhNew.lharkCopyCount LhNew.lk7 { src := { data := #[0x10] } } 278 = (some 100, r') ∧
    Bits.Inv r' ∧ Bits.stream r' = [false, false, false, false] :=
  lharkCopyCount_lenCode LhNew.lk7 ⟨6, 289, 31, 63, 65536, true⟩ rfl rfl 100 false (by decide)
    (by decide) (by decide) { src := { data := #[0x10] } }
    (Bits.inv_init _ rfl (by decide) rfl rfl) [false, false, false, false]
    (by rw [Bits.stream_init]; decide)
/-- LHark distance symbol 19 followed by `11101000` (232) is distance 1000 -/
example : ∃ r', offTail LhNew.lk7 19 { src := { data := #[0xE8] } } = .ok (some 1000, r') ∧
    Bits.Inv r' ∧ Bits.stream r' = [] :=
  offTail_offCode LhNew.lk7 ⟨6, 289, 31, 63, 65536, true⟩ rfl 1000 (by decide)
    { src := { data := #[0xE8] } } (Bits.inv_init _ rfl (by decide) rfl rfl) []
    (by rw [Bits.stream_init]; decide)
/-- plain distance symbol 10 followed by `111101000` (488) is distance 1000 -/
example : ∃ r', offTail LhNew.lh5 10 { src := { data := #[0xF4, 0x00] } } = .ok (some 1000, r') ∧
    Bits.Inv r' ∧ Bits.stream r' = [false, false, false, false, false, false, false] :=
  offTail_offCode LhNew.lh5 ⟨4, 510, 19, 14, 8192, false⟩ rfl 1000 (by decide)
    { src := { data := #[0xF4, 0x00] } } (Bits.inv_init _ rfl (by decide) rfl rfl)
    [false, false, false, false, false, false, false]
    (by rw [Bits.stream_init]; decide)
example : (3 + 8192 + 4294967296 - 100 - 1) % 8192 = (3 + 8192 - 100 - 1) % 8192 :=
  start_index_eq 8192 3 100 (by decide) (by decide) (by decide) (by decide)

end LhasaV.LhNewCmd
