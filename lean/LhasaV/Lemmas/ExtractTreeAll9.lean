import LhasaV.Lemmas.ExtractTreeAll8
/-!
# C06, all deviations together (part 9): directory-first archives under ANY wildcard list

`wfu_of_wf`: a well-formed archive (ExtractTree7: directory-first, an explicit directory entry for
every parent — the order archivers write and the correspondence check generates) satisfies `WFU`
for EVERY selection, and no selected entry is late.  So

* **`extract_archiveOf_selected_any`**: for every well-formed encodable tree and every wildcard
  list — closed under parents or not — `lha x archive patterns` leaves exactly
  `impTreeOf (es.filter selected)`: the selected members as archived, the directories above them
  that were not selected 0755 under the umask / now.  `extract_selected` (ExtractTreeOpt14,
  `ParentClosed`) is the special case without implicit directories (`closed_of_parentClosed`).
-/
namespace LhasaV.ExtractTree
open LhasaV LhasaV.Header LhasaV.Extract LhasaV.GlobFs LhasaV.Contain

theorem wfInv_step {stk seen : List Fs.Path} {e : Entry} (hi : WfInv stk seen) (hk : EntryOk e)
    (_hnew : e.path ∉ seen) (hpar : (popStk stk e.dirPart).head?.getD [] = e.path.dropLast) :
    WfInv (if e.isDir then e.path :: popStk stk e.dirPart else popStk stk e.dirPart) (seen ++ [e.path]) := by
  have hcp : Chain (popStk stk e.dirPart) := hi.chain.dropWhile _ _
  have hanc : ∀ q, q ≠ [] → q <+: e.path → q ≠ e.path → q ∈ popStk stk e.dirPart :=
    pre_mem_of_parent hcp e.path hpar
  refine ⟨?_, ?_, ?_, by simpa using ⟨hi.nonnil, fun h => hk.ne h⟩⟩
  · cases e.isDir with
    | true => exact ⟨hk.ne, hpar.symm, hcp⟩
    | false => exact hcp
  · intro t ht
    have : t = e.path ∨ t ∈ popStk stk e.dirPart := by
      cases hd : e.isDir with
      | true => rw [hd] at ht; simpa using ht
      | false => rw [hd] at ht; exact Or.inr (by simpa using ht)
    rcases this with rfl | h
    · simp
    · exact List.mem_append_left _ (hi.sub t (mem_popStk h))
  · intro p hp q hq hqp
    rcases List.mem_append.1 hp with hp | hp
    · exact List.mem_append_left _ (hi.closed p hp q hq hqp)
    · have : p = e.path := by simpa using hp
      subst this
      by_cases hqe : q = e.path
      · rw [hqe]; simp
      · exact List.mem_append_left _ (hi.sub q (mem_popStk (hanc q hq hqp hqe)))

/-- the induction: `sp` says which directory paths are selected; `seenS` are the selected paths -/
theorem wfu_of_wf_aux (sel : Entry → Bool) (sp : Fs.Path → Bool) :
    ∀ (es : List Entry) (stk seen seenS : List Fs.Path), WF stk seen es → WfInv stk seen →
      (∀ p ∈ seenS, p ∈ seen ∧ (p ∈ stk → sp p = true)) →
      (∀ e ∈ es, e.isDir = true → sp e.path = sel e) →
      WFU sel (stk.filter sp) seenS es ∧ keptOf seenS (es.filter sel) = es.filter sel := by
  intro es
  induction es with
  | nil => intro _ _ _ _ _ _ _; exact ⟨trivial, rfl⟩
  | cons x es ih =>
    intro stk seen seenS hwf hi hJ hsp
    obtain ⟨hk, hnew, hpar, hwf'⟩ := hwf
    have hcp : Chain (popStk stk x.dirPart) := hi.chain.dropWhile _ _
    have hanc : ∀ q, q ≠ [] → q <+: x.path → q ≠ x.path → q ∈ popStk stk x.dirPart :=
      pre_mem_of_parent hcp x.path hpar
    have hi' := wfInv_step hi hk hnew hpar
    have hsp' : ∀ e ∈ es, e.isDir = true → sp e.path = sel e := fun e he => hsp e (List.mem_cons_of_mem _ he)
    have hcomm := popStk_filter sp x.dirPart stk hi.chain
    have hfreshS : ∀ p ∈ seenS, ¬ x.path <+: p :=
      fun p hp h => hnew (hi.closed p (hJ p hp).1 x.path hk.ne h)
    cases hs : sel x with
    | true =>
      have hnl : lateDir seenS x = false := by
        unfold lateDir
        have : seenS.any (fun p => decide (x.path <+: p)) = false := by
          rw [List.any_eq_false]; intro p hp; simpa using hfreshS p hp
        rw [this, Bool.and_false]
      have hstk : (if x.isDir then x.path :: popStk stk x.dirPart else popStk stk x.dirPart).filter sp =
          (if x.isDir then x.path :: popStk (stk.filter sp) x.dirPart else popStk (stk.filter sp) x.dirPart) := by
        cases hd : x.isDir with
        | true =>
          have : sp x.path = true := by rw [hsp x (by simp) hd, hs]
          simp [this, hcomm]
        | false => simp [hcomm]
      have hJ' : ∀ p ∈ seenS ++ [x.path], p ∈ seen ++ [x.path] ∧
          (p ∈ (if x.isDir then x.path :: popStk stk x.dirPart else popStk stk x.dirPart) → sp p = true) := by
        intro p hp
        rcases List.mem_append.1 hp with h | h
        · refine ⟨List.mem_append_left _ (hJ p h).1, fun hm => ?_⟩
          have hpx : p ≠ x.path := fun e => hnew (e ▸ (hJ p h).1)
          have : p ∈ popStk stk x.dirPart := by
            cases hd : x.isDir with
            | true => rw [hd] at hm; simpa [hpx] using hm
            | false => rw [hd] at hm; simpa using hm
          exact (hJ p h).2 (mem_popStk this)
        · have hpe : p = x.path := by simpa using h
          subst hpe
          refine ⟨by simp, fun hm => ?_⟩
          cases hd : x.isDir with
          | true => rw [hsp x (by simp) hd, hs]
          | false =>
            rw [hd] at hm
            exact absurd (hi.sub _ (mem_popStk (by simpa using hm))) hnew
      obtain ⟨h1, h2⟩ := ih _ (seen ++ [x.path]) (seenS ++ [x.path]) hwf' hi' hJ' hsp'
      refine ⟨⟨hk, ?_⟩, ?_⟩
      · simp only [hs, if_true, hnl, Bool.false_eq_true, if_false]
        refine ⟨?_, hfreshS, ?_⟩
        · intro p hp hpe
          have hps := (hJ p hp).1
          have hne : p ≠ x.path := fun h => hnew (h ▸ hps)
          have h0 : p ≠ [] := fun h => hi.nonnil (h ▸ hps)
          have hm := hanc p h0 hpe hne
          rw [hcomm]
          exact List.mem_filter.2 ⟨hm, (hJ p hp).2 (mem_popStk hm)⟩
        · rw [← hstk]; exact h1
      · simp only [List.filter_cons, hs, if_true, keptOf, hnl, Bool.false_eq_true, if_false, h2]
    | false =>
      have hstk : (if x.isDir then x.path :: popStk stk x.dirPart else popStk stk x.dirPart).filter sp =
          popStk (stk.filter sp) x.dirPart := by
        cases hd : x.isDir with
        | true =>
          have : sp x.path = false := by rw [hsp x (by simp) hd, hs]
          simp [this, hcomm]
        | false => simp [hcomm]
      have hJ' : ∀ p ∈ seenS, p ∈ seen ++ [x.path] ∧
          (p ∈ (if x.isDir then x.path :: popStk stk x.dirPart else popStk stk x.dirPart) → sp p = true) := by
        intro p hp
        refine ⟨List.mem_append_left _ (hJ p hp).1, fun hm => ?_⟩
        have hpx : p ≠ x.path := fun e => hnew (e ▸ (hJ p hp).1)
        have : p ∈ popStk stk x.dirPart := by
          cases hd : x.isDir with
          | true => rw [hd] at hm; simpa [hpx] using hm
          | false => rw [hd] at hm; simpa using hm
        exact (hJ p hp).2 (mem_popStk this)
      obtain ⟨h1, h2⟩ := ih _ (seen ++ [x.path]) seenS hwf' hi' hJ' hsp'
      refine ⟨⟨hk, ?_⟩, ?_⟩
      · simp only [hs, Bool.false_eq_true, if_false]
        rw [← hstk]; exact h1
      · simp only [List.filter_cons, hs, Bool.false_eq_true, if_false, h2]

/-- **a well-formed archive satisfies `WFU` for every selection; nothing selected is late** -/
theorem wfu_of_wf (sel : Entry → Bool) (es : List Entry) (hwf : WellFormed es) :
    WFU sel [] [] es ∧ keptOf [] (es.filter sel) = es.filter sel := by
  have hnd : (es.map Entry.path).Nodup := by
    have := wf_nodup es [] [] hwf List.nodup_nil
    simpa using this
  let sp : Fs.Path → Bool := fun p => es.any (fun d => d.isDir && (d.path == p) && sel d)
  have := wfu_of_wf_aux sel sp es [] [] [] hwf
    ⟨trivial, fun t ht => (by cases ht), fun p hp => (by cases hp), by simp⟩
    (fun _ h => (by cases h)) ?_
  · simpa using this
  · intro e he hd
    cases hs : sel e with
    | true =>
      show es.any _ = true
      rw [List.any_eq_true]
      exact ⟨e, he, by simp [hd, hs]⟩
    | false =>
      show es.any _ = false
      rw [List.any_eq_false]
      intro d hdm hp
      simp only [Bool.and_eq_true, beq_iff_eq] at hp
      have : d = e := eq_of_path_eq es hnd d hdm e he hp.1.2
      rw [this, hs] at hp
      exact absurd hp.2 (by simp)

/-- no implicit directories where every non-empty prefix of an entry path is an entry path -/
theorem impTreeOf_eq_treeOf_of_closed (now umask : Nat) (l : List Entry)
    (hcl : ∀ e ∈ l, ∀ q, q ≠ [] → q <+: e.path → q ∈ l.map Entry.path) (p : Fs.Path) (hp : p ≠ []) :
    impTreeOf now umask l p = treeOf now umask l p := by
  unfold impTreeOf
  cases ht : treeOf now umask l p with
  | some x => rfl
  | none =>
    have hany : l.any (fun e => decide (p <+: e.path)) = false := by
      rw [List.any_eq_false]
      intro e he
      simp only [decide_eq_true_eq]
      intro hpe
      obtain ⟨a, hae, hap⟩ := List.mem_map.1 (hcl e he p hp hpe)
      unfold treeOf at ht
      have hf : l.find? (fun x => x.path == p) = none := by
        cases hf : l.find? (fun x => x.path == p) with
        | none => rfl
        | some y => rw [hf] at ht; cases ht
      rw [List.find?_eq_none] at hf
      exact hf a hae (by simp [hap])
    simp [hany]

/-- a selection closed under parents has no implicit directories -/
theorem closed_of_parentClosed (sel : Entry → Bool) (es : List Entry) (hcl : ParentClosed sel es) :
    ∀ e ∈ es.filter sel, ∀ q, q ≠ [] → q <+: e.path → q ∈ (es.filter sel).map Entry.path := by
  intro e he q hq hqe
  obtain ⟨hes, hse⟩ := List.mem_filter.1 he
  by_cases heq : q = e.path
  · rw [heq]; exact List.mem_map.2 ⟨e, he, rfl⟩
  · have hlt := prefix_len_lt hqe heq
    have hl0 : 0 < q.length := List.length_pos_iff.2 hq
    have hqd : q <+: e.dirPart := by
      unfold Entry.dirPart
      cases e.isDir with
      | true => exact hqe
      | false => exact prefix_dropLast q e.path hqe heq
    obtain ⟨d, hdm, _, hdp, hds⟩ := hcl e hes hse (q.length - 1) (by have := hqd.length_le; omega)
    rw [show q.length - 1 + 1 = q.length by omega, ← List.prefix_iff_eq_take.1 hqd] at hdp
    exact List.mem_map.2 ⟨d, List.mem_filter.2 ⟨hdm, hds⟩, hdp⟩

end LhasaV.ExtractTree

namespace LhasaV.ArchiveOf
open LhasaV LhasaV.Header LhasaV.Extract LhasaV.GlobFs LhasaV.Contain LhasaV.ExtractTree
open LhasaV.ExtractTree.Sample

/-- **(a) wildcard arguments on a directory-first archive, ANY selection** — on bytes.  For every
well-formed, encodable tree and every wildcard list: the selected members as archived, every
directory above a selected member that is not itself selected 0755 under the umask / now
(`impTreeOf`), nothing else; nothing outside the extraction directory changes. -/
theorem extract_archiveOf_selected_any (es : List Entry) (o : Opts) (fs : Fs.St) (answers : Bytes)
    (hwf : WellFormed es) (henc : Encodable es)
    (hx : o.extractPath = none) (hu : o.usePath = true) (hfs : EmptyDir fs) (ha : Access fs) :
    (run (archiveOf es) o fs answers).result = true ∧
    (∀ p, p ≠ [] → Fs.lookup (run (archiveOf es) o fs answers).fs (fs.cwd ++ p) =
      impTreeOf fs.now fs.umask (es.filter (selected o.filters)) p) ∧
    (∀ x, ¬ fs.cwd <+: x → Fs.lookup (run (archiveOf es) o fs answers).fs x = Fs.lookup fs x) := by
  obtain ⟨w1, w2⟩ := wfu_of_wf (selected o.filters) es hwf
  obtain ⟨h1, h2, _, h4⟩ := extract_archiveOf_unclosed es o fs answers w1 henc hx hu hfs ha
  rw [w2] at h2
  exact ⟨h1, h2, h4⟩

/-- `extract_archiveOf_closed` (ExtractTreeOpt14; `C06.extract_selected`) follows: a selection closed
under parents has no implicit directories -/
theorem extract_archiveOf_closed_of_unified (es : List Entry) (o : Opts) (fs : Fs.St) (answers : Bytes)
    (hwf : WellFormed es) (hcl : ParentClosed (selected o.filters) es) (henc : Encodable es)
    (hx : o.extractPath = none) (hu : o.usePath = true) (hfs : EmptyDir fs) (ha : Access fs) :
    (run (archiveOf es) o fs answers).result = true ∧
    (∀ p, p ≠ [] → Fs.lookup (run (archiveOf es) o fs answers).fs (fs.cwd ++ p) =
      treeOf fs.now fs.umask (es.filter (selected o.filters)) p) ∧
    (∀ x, ¬ fs.cwd <+: x → Fs.lookup (run (archiveOf es) o fs answers).fs x = Fs.lookup fs x) := by
  obtain ⟨h1, h2, h3⟩ := extract_archiveOf_selected_any es o fs answers hwf henc hx hu hfs ha
  refine ⟨h1, fun p hp => ?_, h3⟩
  rw [h2 p hp]
  exact impTreeOf_eq_treeOf_of_closed _ _ _ (closed_of_parentClosed _ es hcl) p hp

end LhasaV.ArchiveOf
