import LhasaV.Lemmas.ReaderAlloc2
/-!
# Allocation-aware reader, part 3: the invariant under ANY allocation failures, and the release
theorem `alloc_failure_releases_all`

`InvA o a`: the ownership invariant `Inv` of `ReaderLedger` on the reader state, exactly three blocks
(stream, reader, basic reader) held outside the ledger, and the failure log in step with the oracle.
It is preserved by every operation under every oracle; `freeA` of such a state leaves nothing.
-/
namespace LhasaV.Reader
open LhasaV LhasaV.Alloc

structure InvA (o : Oracle) (a : StA) : Prop where
  inv : Inv a.s
  hp : HpOk o 3 a.hp

theorem invA_fresh (o : Oracle) (st : Stream.St) (pol : DirPolicy) (mk : Nat → Nat)
    (h0 : o 0 = false) (h1 : o 1 = false) (h2 : o 2 = false) : InvA o (freshA st pol mk) :=
  ⟨inv_fresh st pol mk, rfl, by simp [Good, freshA, countFails, h0, h1, h2]⟩

theorem readA_invA {o : Oracle} {a : StA} (h : InvA o a) (k : Nat) : InvA o (readA o a k).2 :=
  ⟨h.inv.of_frame (readA_frame o a k) (readA_decW h.inv.dec k), readA_hpOk h.hp k⟩

theorem checkA_invA {o : Oracle} {a : StA} (h : InvA o a) : InvA o (checkA o a).2 :=
  ⟨h.inv.of_frame (checkA_frame o a) (checkA_decW h.inv.dec), checkA_hpOk h.hp⟩

/-! ## `extractA` -/

theorem hpOk_tmp {o : Oracle} {hp : Heap} (h : HpOk o 3 hp) :
    HpOk o 4 { (allocAt o Site.extractName hp).2 with live := (allocAt o Site.extractName hp).2.live + 1 } :=
  ⟨by show (allocAt o Site.extractName hp).2.live + 1 = 4; rw [allocAt_live, h.live],
   good_of_eq (allocAt_good _ h.good) rfl rfl⟩

theorem dropTmp_hpOk {o : Oracle} {a : StA} (h : HpOk o 4 a.hp) : HpOk o 3 (dropTmp a).hp :=
  ⟨by show a.hp.live - 1 = 3; rw [h.live], good_of_eq h.good rfl rfl⟩

theorem extractA_invA {o : Oracle} {a : StA} (h : InvA o a) (fsOk : Bool) : InvA o (extractA o a fsOk).2 := by
  have hi := h.inv
  unfold extractA
  dsimp only
  split
  · rename_i c ht hc
    have hbc : a.s.basic.curr = some c := by rw [← hi.normal ht, hc]
    have hoc : ownCurr a.s = none := by simp [ownCurr, ht]
    have hown := hi.own
    rw [hoc, hbc] at hown
    have h1 : 1 ≤ owners (some c) a.s.dirStack a.s.deferred none c.id := by
      simp [owners, cnt_cons]; omega
    have hrc : 1 ≤ a.s.led.rc c.id := by rw [hown.rc]; exact h1
    have hdecs : (a.s.led.addRef c.id).decoders = a.s.led.decoders := (Ledger.addRef_spec hown.wf hrc).2.2.1
    split
    · -- a file
      split
      · exact ⟨hi, allocAt_hpOk _ h.hp⟩
      · have h4 := hpOk_tmp h.hp
        generalize hA : ({ s := a.s, hp := { (allocAt o Site.extractName a.hp).2 with
            live := (allocAt o Site.extractName a.hp).2.live + 1 } } : StA) = a1 at *
        have hs1 : a1.s = a.s := by rw [← hA]
        have h41 : HpOk o 4 a1.hp := by rw [← hA]; exact h4
        have hi1 : Inv a1.s := by rw [hs1]; exact hi
        split
        · exact ⟨hi1.of_frame (openDecoderA_frame o a1) (openDecoderA_decW hi1.dec),
            dropTmp_hpOk (openDecoderA_hpOk h41)⟩
        · split
          · exact ⟨hi1.of_frame (openDecoderA_frame o a1) (openDecoderA_decW hi1.dec),
              dropTmp_hpOk (openDecoderA_hpOk h41)⟩
          · exact ⟨hi1.of_frame ((openDecoderA_frame o a1).trans (decodeLoopA_frame o _ _ _))
                (decodeLoopA_decW _ (openDecoderA_decW hi1.dec) _),
              dropTmp_hpOk (decodeLoopA_hpOk _ (openDecoderA_hpOk h41) _)⟩
    · split
      · -- a symbolic link
        split
        · exact ⟨hi, allocAt_hpOk _ h.hp⟩
        · have h4 := hpOk_tmp h.hp
          split
          · split
            · exact ⟨hi, dropTmp_hpOk h4⟩
            · -- a dangerous symlink joins the deferred list
              refine ⟨⟨?_, ?_, fun hn => hdecs.trans (hi.dec hn)⟩, dropTmp_hpOk h4⟩
              · show Owned (a.s.led.addRef c.id) a.s.basic.curr a.s.dirStack
                  (a.s.deferred.takeWhile (fun r => pathLen r > pathLen c) ++ [c] ++
                   a.s.deferred.dropWhile (fun r => pathLen r > pathLen c)) (ownCurr a.s)
                rw [hoc, hbc]
                refine hown.addRef h1 (fun id => ?_)
                have := congrArg (fun l => cnt l id)
                  (List.takeWhile_append_dropWhile (p := fun r => decide (pathLen r > pathLen c)) (l := a.s.deferred))
                simp only [cnt_append] at this
                simp only [owners, cnt_append, cnt_cons, cnt_nil, cnt_none]
                omega
              · exact hi.normal
          · exact ⟨hi, dropTmp_hpOk h4⟩
      · split
        · exact h
        · split
          · exact h
          · -- a directory joins the stack
            refine ⟨⟨?_, ?_, fun hn => hdecs.trans (hi.dec hn)⟩, h.hp⟩
            · show Owned (a.s.led.addRef c.id) a.s.basic.curr (c :: a.s.dirStack) a.s.deferred (ownCurr a.s)
              rw [hoc, hbc]
              exact hown.addRef h1 (fun id => by simp only [owners, cnt_cons]; omega)
            · exact hi.normal
  · exact h
  · split
    · exact ⟨hi, allocAt_hpOk _ h.hp⟩
    · exact ⟨hi, dropTmp_hpOk (hpOk_tmp h.hp)⟩
  · exact h

end LhasaV.Reader
