import LhasaV.Lemmas.GlobFs3
/-!
# The deferred phase acts inside the extraction directory (part C, corollary)

`lha_arch_symlink(path, target)` is `unlink(path); symlink(target, path)`.  When the guard
`path_passes_through_symlink(path)` is false, both calls act on the lexical place
`cwd ++ (real components of path)`.
-/
namespace LhasaV.GlobFs
open LhasaV LhasaV.Header LhasaV.Extract

/-! ## what the mutators leave alone -/

section fsfacts
variable (s : Fs.St)

theorem setEnt_log (k : Fs.Path) (e : Fs.Ent) : (Fs.setEnt s k e).log = s.log := by
  unfold Fs.setEnt; split <;> rfl

theorem setEnt_cwd (k : Fs.Path) (e : Fs.Ent) : (Fs.setEnt s k e).cwd = s.cwd := by
  unfold Fs.setEnt; split <;> rfl

theorem stampParent_log (p : Fs.Path) : (Fs.stampParent s p).log = s.log := by
  simp only [Fs.stampParent]
  split
  · split
    · rfl
    · exact setEnt_log s _ _
  · rfl

theorem stampParent_cwd (p : Fs.Path) : (Fs.stampParent s p).cwd = s.cwd := by
  simp only [Fs.stampParent]
  split
  · split
    · rfl
    · exact setEnt_cwd s _ _
  · rfl

theorem find_map_ne (l : List (Fs.Path × Fs.Ent)) (k x : Fs.Path) (e : Fs.Ent) (h : x ≠ k) :
    (l.map (fun y => if y.1 == k then (k, e) else y)).find? (·.1 == x) = l.find? (·.1 == x) := by
  induction l with
  | nil => rfl
  | cons y l ih =>
    rw [List.map_cons]
    by_cases hy : y.1 = k
    · have h1 : (k == x) = false := by simpa using fun e => h e.symm
      simp only [hy, beq_self_eq_true, if_true, List.find?_cons, h1]
      simpa [hy] using ih
    · have h1 : (y.1 == k) = false := by simpa using hy
      simp only [h1, Bool.false_eq_true, if_false, List.find?_cons]
      rw [ih]

theorem find_map_eq (l : List (Fs.Path × Fs.Ent)) (k : Fs.Path) (e : Fs.Ent)
    (h : l.any (·.1 == k) = true) :
    (l.map (fun y => if y.1 == k then (k, e) else y)).find? (·.1 == k) = some (k, e) := by
  induction l with
  | nil => simp at h
  | cons y l ih =>
    rw [List.map_cons]
    by_cases hy : y.1 = k
    · simp [hy]
    · have h1 : (y.1 == k) = false := by simpa using hy
      have h' : l.any (·.1 == k) = true := by simpa [h1] using h
      simp only [h1, Bool.false_eq_true, if_false, List.find?_cons]
      exact ih h'

theorem lookup_setEnt_ne (k x : Fs.Path) (e : Fs.Ent) (h : x ≠ k) :
    Fs.lookup (Fs.setEnt s k e) x = Fs.lookup s x := by
  unfold Fs.lookup Fs.setEnt
  by_cases hx : x = []
  · simp [hx]
  · simp only [hx, if_false]
    split
    · simp only; rw [find_map_ne _ k x e h]
    · simp only
      rw [List.find?_append]
      have : (k == x) = false := by simpa using fun e => h e.symm
      simp [this]

theorem lookup_setEnt_eq (k : Fs.Path) (e : Fs.Ent) (h : k ≠ []) :
    Fs.lookup (Fs.setEnt s k e) k = some e := by
  unfold Fs.lookup Fs.setEnt
  simp only [h, if_false]
  split
  · rename_i ha; simp only; rw [find_map_eq _ k e ha]; rfl
  · rename_i ha
    simp only
    rw [List.find?_append]
    have : s.ents.find? (·.1 == k) = none := by
      rw [List.find?_eq_none]
      intro y hy hyk
      exact ha (List.any_eq_true.2 ⟨y, hy, hyk⟩)
    simp [this]

theorem find_congr {α} (l : List α) (p q : α → Bool) (h : ∀ y ∈ l, p y = q y) :
    l.find? p = l.find? q := by
  induction l with
  | nil => rfl
  | cons y l ih =>
    simp only [List.find?_cons, h y (by simp)]
    rw [ih (fun z hz => h z (by simp [hz]))]

theorem lookup_delEnt_ne (p x : Fs.Path) (h : x ≠ p) :
    Fs.lookup (Fs.delEnt s p) x = Fs.lookup s x := by
  unfold Fs.lookup Fs.delEnt
  by_cases hx : x = []
  · simp [hx]
  · simp only [hx, if_false]
    rw [List.find?_filter]
    congr 1
    apply find_congr
    intro y _
    by_cases hy : y.1 = x
    · simp [hy, h]
    · simp [hy]

theorem lookup_logMut (op : String) (p x : Fs.Path) :
    Fs.lookup (Fs.logMut s op p) x = Fs.lookup s x := rfl

/-- stamping a parent directory keeps every directory a directory (same mode) -/
theorem lookup_stampParent_dir (p x : Fs.Path) (m t : Nat)
    (h : Fs.lookup s x = some (.dir m t)) :
    ∃ t', Fs.lookup (Fs.stampParent s p) x = some (.dir m t') := by
  simp only [Fs.stampParent]
  split
  · rename_i m' t0 hpar
    split
    · exact ⟨t, h⟩
    · rename_i hne
      by_cases hx : x = p.dropLast
      · subst hx
        rw [h] at hpar
        injection hpar with hpar; injection hpar with hm _
        subst hm
        exact ⟨s.now, lookup_setEnt_eq s _ _ hne⟩
      · exact ⟨t, by rw [lookup_setEnt_ne s _ x _ hx]; exact h⟩
  · exact ⟨t, h⟩

end fsfacts

/-! ## `unlink` and `symlink`, as far as the log is concerned -/

theorem unlink_cases (s : Fs.St) (path : Bytes) :
    (Fs.unlink s path).2 = s ∨
      ∃ q, Fs.resolvePath s false path = some q ∧
        (Fs.unlink s path).2 = Fs.logMut (Fs.stampParent (Fs.delEnt s q) q) "unlink" q := by
  unfold Fs.unlink
  split
  · exact Or.inl rfl
  · rename_i q hq
    split
    · exact Or.inl rfl
    · exact Or.inl rfl
    · split
      · exact Or.inl rfl
      · exact Or.inr ⟨q, hq, rfl⟩

theorem symlink_cases (s : Fs.St) (path target : Bytes) :
    (Fs.symlink s path target).2.log = s.log ∨
      ∃ q, Fs.resolvePath s false path = some q ∧
        (Fs.symlink s path target).2.log = ⟨"symlink", q⟩ :: s.log := by
  unfold Fs.symlink
  repeat' split
  all_goals first
    | exact Or.inl rfl
    | exact Or.inr ⟨_, by assumption, by simp [Fs.logMut, stampParent_log, setEnt_log]⟩

/-- the state between the two calls of `lha_arch_symlink`: the lexical guard still holds -/
theorem pLex_after_unlink (fs : Fs.St) (cs : List Bytes)
    (hd : ∀ pre, ProperPre pre cs → ∃ m t, Fs.lookup fs (fs.cwd ++ pre) = some (.dir m t)) :
    PLex (Fs.logMut (Fs.stampParent (Fs.delEnt fs (fs.cwd ++ cs)) (fs.cwd ++ cs)) "unlink" (fs.cwd ++ cs))
      64 fs.cwd cs := by
  intro pre hpre t hl
  obtain ⟨m, t0, hdir⟩ := hd pre hpre
  have hne : fs.cwd ++ pre ≠ fs.cwd ++ cs := fun e => hpre.2.2 (List.append_cancel_left e)
  have h1 : Fs.lookup (Fs.delEnt fs (fs.cwd ++ cs)) (fs.cwd ++ pre) = some (.dir m t0) := by
    rw [lookup_delEnt_ne fs _ _ hne]; exact hdir
  obtain ⟨t', h2⟩ := lookup_stampParent_dir (Fs.delEnt fs (fs.cwd ++ cs)) (fs.cwd ++ cs) _ m t0 h1
  rw [lookup_logMut, h2] at hl
  cases hl

/-- **C10, the deferred phase.**  `lha_arch_symlink(path, target)` on a relative path without
".." for which the guard is false: everything it logs (at most one `unlink` and one `symlink`)
is at the lexical place `cwd ++ (real components of path)`. -/
theorem archSymlink_log (fs : Fs.St) (path target : Bytes)
    (hrel : path.head? ≠ some 0x2f) (hnd : NoDotDot path)
    (hg : passesThroughSymlink fs path = false) :
    ∃ new, (Fs.archSymlink fs path target).2.log = new ++ fs.log ∧
      ∀ m ∈ new, m.path = fs.cwd ++ comps path := by
  unfold Fs.archSymlink
  rcases unlink_cases fs path with hu | ⟨q, hq, hu⟩
  · -- nothing was removed
    rw [hu]
    rcases symlink_cases fs path target with hs | ⟨q', hq', hs⟩
    · exact ⟨[], by simpa using hs, by simp⟩
    · refine ⟨[⟨"symlink", q'⟩], by simpa using hs, ?_⟩
      intro m hm
      have : m = ⟨"symlink", q'⟩ := by simpa using hm
      subst this
      exact (guard_resolve fs path q' hrel hnd hg hq').1
  · -- the old object was removed
    obtain ⟨hqe, hdirs⟩ := guard_resolve fs path q hrel hnd hg hq
    subst hqe
    rw [hu]
    generalize hs' : Fs.logMut (Fs.stampParent (Fs.delEnt fs (fs.cwd ++ comps path)) (fs.cwd ++ comps path))
      "unlink" (fs.cwd ++ comps path) = s'
    have hlog : s'.log = ⟨"unlink", fs.cwd ++ comps path⟩ :: fs.log := by
      subst hs'; simp [Fs.logMut, stampParent_log, Fs.delEnt]
    have hcwd : s'.cwd = fs.cwd := by
      subst hs'; simp [Fs.logMut, stampParent_cwd, Fs.delEnt]
    have hlex : PLex s' 64 fs.cwd (comps path) := by
      subst hs'; exact pLex_after_unlink fs (comps path) hdirs
    rcases symlink_cases s' path target with hs | ⟨q', hq', hs⟩
    · refine ⟨[⟨"unlink", fs.cwd ++ comps path⟩], by rw [hs, hlog]; rfl, ?_⟩
      intro m hm
      have : m = ⟨"unlink", fs.cwd ++ comps path⟩ := by simpa using hm
      subst this; rfl
    · refine ⟨[⟨"symlink", q'⟩, ⟨"unlink", fs.cwd ++ comps path⟩], by rw [hs, hlog]; rfl, ?_⟩
      have hq'' : q' = fs.cwd ++ comps path := by
        have hne : path ≠ [] := by
          intro h; subst h; rw [resolvePath_nil] at hq'; cases hq'
        unfold Fs.resolvePath at hq'
        rw [resolveRR_rel s' false path hrel hne, hcwd] at hq'
        cases hres : Fs.resolve s' false 64 fs.cwd (comps path) with
        | ok r =>
          rw [hres] at hq'
          have : r = q' := by simpa using hq'
          subst this
          exact (resolve_core s' (PLex s') (pLex_step s') (comps path) 64 fs.cwd r
            (comps_good path hnd) hlex hres).1
        | enoent => rw [hres] at hq'; simp at hq'
        | eother => rw [hres] at hq'; simp at hq'
      intro m hm
      simp only [List.mem_cons, List.not_mem_nil, or_false] at hm
      rcases hm with rfl | rfl
      · exact hq''
      · rfl

/-- the same with "inside the extraction directory" spelt as a prefix -/
theorem archSymlink_below_cwd (fs : Fs.St) (path target : Bytes)
    (hrel : path.head? ≠ some 0x2f) (hnd : NoDotDot path)
    (hg : passesThroughSymlink fs path = false) :
    ∃ new, (Fs.archSymlink fs path target).2.log = new ++ fs.log ∧
      ∀ m ∈ new, fs.cwd <+: m.path := by
  obtain ⟨new, h1, h2⟩ := archSymlink_log fs path target hrel hnd hg
  exact ⟨new, h1, fun m hm => ⟨comps path, (h2 m hm).symm⟩⟩

/-- **C10, `lha_reader_extract` on a deferred link.**  Whatever the file system contains
(links planted by earlier members included) and whatever the guard answers: a deferred entry
with a relative, ".."-free file name changes the file system only at the lexical place of that
name below the extraction directory. -/
theorem deferred_contained (rd : Reader.St) (fs : Fs.St) (filename : Bytes) (c : Reader.HObj)
    (ht : rd.currType = .deferred) (hc : rd.curr = some c)
    (hrel : filename.head? ≠ some 0x2f) (hnd : NoDotDot filename) :
    ∃ new, (readerExtract rd fs filename).2.2.log = new ++ fs.log ∧
      ∀ m ∈ new, m.path = fs.cwd ++ comps filename := by
  unfold readerExtract
  rw [ht, hc]
  simp only
  by_cases hg : passesThroughSymlink fs filename = true
  · simp only [hg, if_true]
    exact ⟨[], by simp, by simp⟩
  · have hg' : passesThroughSymlink fs filename = false := by simpa using hg
    simp only [hg', Bool.false_eq_true, if_false]
    exact archSymlink_log fs filename _ hrel hnd hg'

/-- and when the guard refuses, nothing at all is changed -/
theorem deferred_refused (rd : Reader.St) (fs : Fs.St) (filename : Bytes) (c : Reader.HObj)
    (ht : rd.currType = .deferred) (hc : rd.curr = some c)
    (hg : passesThroughSymlink fs filename = true) :
    (readerExtract rd fs filename).1 = false ∧ (readerExtract rd fs filename).2.2 = fs := by
  unfold readerExtract
  rw [ht, hc]
  simp [hg]

end LhasaV.GlobFs
