import LhasaV.Lemmas.ExtractTreeFlatAll4
import LhasaV.Lemmas.ExtractTreeAll12
/-!
# C06, option `i` together with the other deviations (part 5): non-vacuity

Every hypothesis of `extract_archiveOf_flat_unified` discharged by `decide` / earlier lemmas, the
conclusions read off at concrete paths, on the bytes of `archiveOf sampleTree` (`a/` 0555, `a/x`,
`a/b/` 0555, `a/b/y`, `a/b/l → y`, `z`):

* `sample_flat_n` / `_y` / `_eof` / `_f`: `lha xiw=out archive` where `r/out` (0700, time 7) exists and
  holds the files `x` and `q`, with the answers "n", "y", none (abort at the prompt for `x`, the
  FIRST member written: nothing at all is touched), and under the policy all (`f` / `q`);
* `sample_flat_star_y`: `lha xi archive '*y'` into the empty `r`: `a/b/y` lands at `r/y`, no `r/a`;
* `sample_flat_star_y_out`: `lha xiw=out archive '*y'` where `r/out` does not exist: it is made
  0755 / now (`MadeFrom`), `r/out/y` is the archived file.
-/
set_option linter.unusedSimpArgs false
namespace LhasaV.ArchiveOf
open LhasaV LhasaV.Header LhasaV.Extract LhasaV.GlobFs LhasaV.Contain LhasaV.ExtractTree
open LhasaV.ExtractTree.Sample

def oldX : Fs.Ent := .file [9] 0o444 5

/-- an ordinary user's `r`; `r/out` (0700, time 7) exists and holds the files `x` and `q` -/
def fsOutX : Fs.St :=
  { root := false, cwd := [[0x72]],
    ents := [([[0x72]], .dir 0o755 1000), ([[0x72], [0x6f, 0x75, 0x74]], .dir 0o700 7),
             ([[0x72], [0x6f, 0x75, 0x74], [0x78]], oldX), ([[0x72], [0x6f, 0x75, 0x74], [0x71]], oldQ)] }

/-- `lha xiw=out` with the overwrite policy `pol` -/
def optsIOut (pol : Overwrite) : Opts :=
  { overwrite := pol, usePath := false, extractPath := some [0x6f, 0x75, 0x74] }

theorem optsFlat_iout (pol : Overwrite) : OptsFlat (optsIOut pol) outDir :=
  optsFlat_some _ outDir (by decide) rfl rfl (by decide) (by decide)

theorem fsOutX_base : BaseU fsOutX outDir 1 := baseUB_sound _ _ _ (by decide)

theorem sampleTree_ok : ∀ e ∈ sampleTree, EntryOk e := by decide

/-- the flattened files and links of `sampleTree`: `x`, `y`, `l → y`, `z` -/
def flatX : Entry := .file [[0x78]] [0x68, 0x69] (some 0o100644) 333
def flatY : Entry := .file [[0x79]] [0x79, 0x79] (some 0o100600) 444
def flatL : Entry := .link [[0x6c]] [0x79]
def flatZ : Entry := .file [[0x7a]] [0x7a] none 0

example : flatSel (selected []) sampleTree = [flatX, flatY, flatL, flatZ] := by decide

/-- the theorem, instantiated: every hypothesis but the one on the answers discharged -/
theorem sample_flat_all (pol : Overwrite) (answers : Bytes) (hans : pol = .prompt → OwAnswers answers) :
    FlatOutcome (run (archiveOf sampleTree) (optsIOut pol) fsOutX answers) fsOutX outDir
      (flatPlan fsOutX outDir (optsIOut pol) answers sampleTree) :=
  (extract_archiveOf_flat_unified sampleTree (optsIOut pol) fsOutX answers outDir 1
    sampleTree_ok sampleTree_enc (optsFlat_iout pol) fsOutX_base (accessW_user_022 fsOutX rfl)
    (by show ((sampleTree.filter (fun e => selected [] e && !e.isDir)).map Entry.namePart).Nodup; decide)
    (by show ∀ e ∈ sampleTree, selected [] e = true → e.isDir = false → PreAtF fsOutX outDir e; decide)
    (fun _ => hans)).1

/-- what is observed: abort flag, result, the objects at `out/x`, `out/y`, `out/l`, `out/z`, `out/q`,
`out/a`, `out/b` (no directory), `out` and `r` -/
def FlatSample (r : Extract.St) (ab : Bool) (atX atY atL atZ : Option Fs.Ent) (tOut : Nat) : Prop :=
  r.aborted = ab ∧ r.result = !ab ∧
  Fs.lookup r.fs [[0x72], [0x6f, 0x75, 0x74], [0x78]] = atX ∧
  Fs.lookup r.fs [[0x72], [0x6f, 0x75, 0x74], [0x79]] = atY ∧
  Fs.lookup r.fs [[0x72], [0x6f, 0x75, 0x74], [0x6c]] = atL ∧
  Fs.lookup r.fs [[0x72], [0x6f, 0x75, 0x74], [0x7a]] = atZ ∧
  Fs.lookup r.fs [[0x72], [0x6f, 0x75, 0x74], [0x71]] = some oldQ ∧
  Fs.lookup r.fs [[0x72], [0x6f, 0x75, 0x74], [0x61]] = none ∧
  Fs.lookup r.fs [[0x72], [0x6f, 0x75, 0x74], [0x62]] = none ∧
  Fs.lookup r.fs [[0x72], [0x6f, 0x75, 0x74]] = some (.dir 0o700 tOut) ∧
  Fs.lookup r.fs [[0x72]] = some (.dir 0o755 1000)

theorem flatSample_of {r : Extract.St} {w : List Entry} {ab : Bool} (h : FlatOutcome r fsOutX outDir (w, ab))
    (hw : w ≠ []) {atX atY atL atZ : Option Fs.Ent}
    (hX : owTree fsOutX.now fsOutX.umask (oldB fsOutX outDir) w [[0x78]] = atX)
    (hY : owTree fsOutX.now fsOutX.umask (oldB fsOutX outDir) w [[0x79]] = atY)
    (hL : owTree fsOutX.now fsOutX.umask (oldB fsOutX outDir) w [[0x6c]] = atL)
    (hZ : owTree fsOutX.now fsOutX.umask (oldB fsOutX outDir) w [[0x7a]] = atZ)
    (hQ : owTree fsOutX.now fsOutX.umask (oldB fsOutX outDir) w [[0x71]] = some oldQ)
    (hA : owTree fsOutX.now fsOutX.umask (oldB fsOutX outDir) w [[0x61]] = none)
    (hB : owTree fsOutX.now fsOutX.umask (oldB fsOutX outDir) w [[0x62]] = none) :
    FlatSample r ab atX atY atL atZ fsOutX.now := by
  obtain ⟨h1, h2, h3, h4, h5, _⟩ := h
  have hc : ∀ p : Fs.Path, fsOutX.cwd ++ outDir ++ p = [0x72] :: [0x6f, 0x75, 0x74] :: p := fun _ => rfl
  have hsame : mkBase fsOutX outDir = fsOutX :=
    (base_factsU fsOutX_base (accessW_user_022 fsOutX rfl)).made.same (by decide)
  refine ⟨h1, h2, ?_, ?_, ?_, ?_, ?_, ?_, ?_, ?_, ?_⟩
  · rw [← hc, h3 _ (by decide)]; exact hX
  · rw [← hc, h3 _ (by decide)]; exact hY
  · rw [← hc, h3 _ (by decide)]; exact hL
  · rw [← hc, h3 _ (by decide)]; exact hZ
  · rw [← hc, h3 _ (by decide)]; exact hQ
  · rw [← hc, h3 _ (by decide)]; exact hA
  · rw [← hc, h3 _ (by decide)]; exact hB
  · obtain ⟨m, t0, t, hl0, hl, ht⟩ := h4 hw
    rw [hsame] at hl0
    have hm0 : 0o700 = m := (Fs.Ent.dir.inj (Option.some.inj
      ((by decide : Fs.lookup fsOutX (fsOutX.cwd ++ outDir) = some (.dir 0o700 7)).symm.trans hl0))).1
    show Fs.lookup r.fs (fsOutX.cwd ++ outDir) = _
    rw [hl, ← hm0, ht (by decide)]
  · rw [h5 hw _ (by decide), hsame]; decide

def newX : Fs.Ent := .file [0x68, 0x69] 0o644 333
def newY : Fs.Ent := .file [0x79, 0x79] 0o600 444
def newL : Fs.Ent := .link [0x79]
def newZ : Fs.Ent := .file [0x7a] 0o600 fsOutX.now

/-- "n": the old `out/x` is kept exactly as it was; `y`, `l`, `z` land beside it; no `out/a`, `out/b` -/
theorem sample_flat_n : FlatSample (run (archiveOf sampleTree) (optsIOut .prompt) fsOutX [0x6e, 0x0a]) false
    (some oldX) (some newY) (some newL) (some newZ) fsOutX.now := by
  have h := sample_flat_all .prompt [0x6e, 0x0a] (fun _ => by decide)
  rw [show flatPlan fsOutX outDir (optsIOut .prompt) [0x6e, 0x0a] sampleTree = ([flatY, flatL, flatZ], false) by
    decide] at h
  exact flatSample_of h (by decide) (by decide) (by decide) (by decide) (by decide) (by decide) (by decide)
    (by decide)

/-- "y": `out/x` is replaced by the archived `a/x` -/
theorem sample_flat_y : FlatSample (run (archiveOf sampleTree) (optsIOut .prompt) fsOutX [0x79, 0x0a]) false
    (some newX) (some newY) (some newL) (some newZ) fsOutX.now := by
  have h := sample_flat_all .prompt [0x79, 0x0a] (fun _ => by decide)
  rw [show flatPlan fsOutX outDir (optsIOut .prompt) [0x79, 0x0a] sampleTree =
    ([flatX, flatY, flatL, flatZ], false) by decide] at h
  exact flatSample_of h (by decide) (by decide) (by decide) (by decide) (by decide) (by decide) (by decide)
    (by decide)

/-- no input: the run is aborted at the prompt for `x`, the first member that would be written —
NOTHING is touched (not even the time of `out`) -/
theorem sample_flat_eof : FlatSample (run (archiveOf sampleTree) (optsIOut .prompt) fsOutX []) true
    (some oldX) none none none 7 := by
  have h := sample_flat_all .prompt [] (fun _ => by decide)
  rw [show flatPlan fsOutX outDir (optsIOut .prompt) [] sampleTree = ([], true) by decide] at h
  obtain ⟨h1, h2, _, _, _, h6⟩ := h
  have hfs := h6 rfl
  refine ⟨h1, h2, ?_⟩
  rw [hfs]
  decide

/-- options `f` / `q`: replaced without asking, whatever the input -/
theorem sample_flat_f (answers : Bytes) :
    FlatSample (run (archiveOf sampleTree) (optsIOut .all) fsOutX answers) false
      (some newX) (some newY) (some newL) (some newZ) fsOutX.now := by
  have h := sample_flat_all .all answers (fun h => by cases h)
  rw [show flatPlan fsOutX outDir (optsIOut .all) answers sampleTree = ([flatX, flatY, flatL, flatZ], false) from
    flatPlan_all _ _ _ _ _ rfl] at h
  exact flatSample_of h (by decide) (by decide) (by decide) (by decide) (by decide) (by decide) (by decide)
    (by decide)

/-! ## `i` with a wildcard -/

example : flatSel (selected patY) sampleTree = [flatY] := by decide

/-- **`lha xi archive '*y'`** into the empty `r`: `a/b/y` lands at `r/y`; there is no `r/a`, no other
member; `r` is stamped -/
theorem sample_flat_star_y :
    let r := run (archiveOf sampleTree) { usePath := false, filters := patY } sampleFs []
    r.result = true ∧ r.aborted = false ∧
    Fs.lookup r.fs [[0x72], [0x79]] = some newY ∧
    Fs.lookup r.fs [[0x72], [0x61]] = none ∧
    Fs.lookup r.fs [[0x72], [0x62]] = none ∧
    Fs.lookup r.fs [[0x72], [0x78]] = none ∧
    Fs.lookup r.fs [[0x72], [0x6c]] = none ∧
    Fs.lookup r.fs [[0x72], [0x7a]] = none ∧
    Fs.lookup r.fs [[0x72]] = some (.dir 0o755 sampleFs.now) := by
  intro r
  obtain ⟨h, _⟩ := extract_archiveOf_flat_unified sampleTree { usePath := false, filters := patY } sampleFs []
    [] 0 sampleTree_ok sampleTree_enc (optsFlat_none _ rfl rfl) (baseU_of_empty sampleFs_empty)
    (accessW_user_022 sampleFs rfl)
    (by show ((sampleTree.filter (fun e => selected patY e && !e.isDir)).map Entry.namePart).Nodup; decide)
    (by show ∀ e ∈ sampleTree, selected patY e = true → e.isDir = false → PreAtF sampleFs [] e; decide)
    (fun _ _ => by decide)
  rw [show flatPlan sampleFs [] { usePath := false, filters := patY } [] sampleTree = ([flatY], false) by
    decide] at h
  obtain ⟨h1, h2, h3, h4, _, _⟩ := h
  have hc : ∀ p : Fs.Path, sampleFs.cwd ++ [] ++ p = [0x72] :: p := fun _ => rfl
  refine ⟨by simpa using h2, h1, ?_, ?_, ?_, ?_, ?_, ?_, ?_⟩
  iterate 6 (show Fs.lookup (run (archiveOf sampleTree) { usePath := false, filters := patY } sampleFs []).fs _ = _
             rw [← hc, h3 _ (by decide)]; decide)
  · obtain ⟨m, t0, t, hl0, hl, ht⟩ := h4 (by decide)
    rw [mkBase_nil] at hl0
    have hm0 : 0o755 = m := (Fs.Ent.dir.inj (Option.some.inj
      ((by decide : Fs.lookup sampleFs (sampleFs.cwd ++ []) = some (.dir 0o755 1000)).symm.trans hl0))).1
    have hc0 : sampleFs.cwd ++ [] = [[0x72]] := rfl
    rw [hc0] at hl ht
    show Fs.lookup (run (archiveOf sampleTree) { usePath := false, filters := patY } sampleFs []).fs _ = _
    rw [hl, ← hm0, ht (by decide)]

def optsIOutY : Opts := { usePath := false, extractPath := some [0x6f, 0x75, 0x74], filters := patY }

/-- **`lha xiw=out archive '*y'`** where `r/out` does not exist: `out` is created (0755 under the
umask, now), `a/b/y` lands at `r/out/y`; no `out/a`; nothing beside `out`; `r` is stamped.  (The
seeded change C06-m6 — `i` ∘ `w=DIR` no longer creates `DIR` — contradicts this theorem.) -/
theorem sample_flat_star_y_out :
    let r := run (archiveOf sampleTree) optsIOutY sampleFs []
    r.result = true ∧ r.aborted = false ∧
    Fs.lookup r.fs [[0x72], [0x6f, 0x75, 0x74]] = some (.dir 0o755 sampleFs.now) ∧
    Fs.lookup r.fs [[0x72], [0x6f, 0x75, 0x74], [0x79]] = some newY ∧
    Fs.lookup r.fs [[0x72], [0x6f, 0x75, 0x74], [0x61]] = none ∧
    Fs.lookup r.fs [[0x72], [0x6f, 0x75, 0x74], [0x7a]] = none ∧
    Fs.lookup r.fs [[0x72], [0x79]] = none ∧
    Fs.lookup r.fs [[0x72]] = some (.dir 0o755 sampleFs.now) := by
  intro r
  have hacc := accessW_user_022 sampleFs rfl
  obtain ⟨h, hm⟩ := extract_archiveOf_flat_unified sampleTree optsIOutY sampleFs [] outDir 0
    sampleTree_ok sampleTree_enc (optsFlat_some _ outDir (by decide) rfl rfl (by decide) (by decide))
    (baseU_of_baseOk sample_baseOk) hacc
    (by show ((sampleTree.filter (fun e => selected patY e && !e.isDir)).map Entry.namePart).Nodup; decide)
    (by show ∀ e ∈ sampleTree, selected patY e = true → e.isDir = false → PreAtF sampleFs outDir e; decide)
    (fun _ _ => by decide)
  rw [show flatPlan sampleFs outDir optsIOutY [] sampleTree = ([flatY], false) by decide] at h
  obtain ⟨h1, h2, h3, h4, h5, _⟩ := h
  have hne : [flatY] ≠ [] := by decide
  have hc : ∀ p : Fs.Path, sampleFs.cwd ++ outDir ++ p = [0x72] :: [0x6f, 0x75, 0x74] :: p := fun _ => rfl
  have hmk := mkBase_created sample_baseOk hacc (by decide)
  refine ⟨by simpa using h2, h1, ?_, ?_, ?_, ?_, ?_, ?_⟩
  · obtain ⟨m, t0, t, hl0, hl, ht⟩ := h4 hne
    rw [hmk] at hl0
    have hm0 : 0o755 - (0o755 &&& sampleFs.umask) = m := (Fs.Ent.dir.inj (Option.some.inj hl0)).1
    show Fs.lookup (run (archiveOf sampleTree) optsIOutY sampleFs []).fs (sampleFs.cwd ++ outDir) = _
    rw [hl, ← hm0, ht (by decide)]; decide
  iterate 3 (show Fs.lookup (run (archiveOf sampleTree) optsIOutY sampleFs []).fs _ = _
             rw [← hc, h3 _ (by decide)]; decide)
  · show Fs.lookup (run (archiveOf sampleTree) optsIOutY sampleFs []).fs _ = _
    rw [h5 hne _ (by decide), hm.frame _ (by decide) (fun q hq0 hqb => by
      have hq' : q <+: [[0x6f, 0x75, 0x74]] := hqb
      cases q with
      | nil => exact absurd rfl hq0
      | cons c q =>
        obtain ⟨rfl, hq''⟩ := List.cons_prefix_cons.1 hq'
        have : q = [] := by simpa using hq''
        subst this
        decide)]
    decide
  · show Fs.lookup (run (archiveOf sampleTree) optsIOutY sampleFs []).fs _ = _
    rw [h5 hne _ (by decide)]
    exact hm.stamp (by decide) (by decide) 0o755 1000 (by decide)

end LhasaV.ArchiveOf
