import LhasaV.Lemmas.TestBytes4
/-!
# C07 on bytes (part 5): `lha t` on an INTACT archive — (T1)

`goodLine o pk e` / `badLine o pk e got`: what `lha t` writes for a member it found good / bad,
stated on entries (progress bar of the method's block size, then `name - Tested` /
`name - CRC error`; closed forms at quiet level 1 and ≥ 2: `goodLine_q1`, `goodLine_q2`, …).

**`test_intact_archive`**: for every list of clean, encodable entries in any order, every packer
that handles their data, every option set: `lha t` on the bytes `archiveWith pk es` handles exactly
the selected entries, in order, every one with a good verdict (directories and links are recorded
good without any decoding), writes exactly the `goodLine`s, nothing on standard error, touches no
file, and exits with status 0.
-/
set_option linter.unusedSimpArgs false
namespace LhasaV.TestBytes
open LhasaV LhasaV.Header LhasaV.Extract LhasaV.GlobFs LhasaV.Contain LhasaV.ExtractTree
open LhasaV.ExtractTree.Sample LhasaV.Spec.HeaderEnc LhasaV.Reader LhasaV.ReaderIndep LhasaV.ArchiveOf
open LhasaV.PrintList LhasaV.MacProps LhasaV.Messages

/-! ## what `lha t` writes for a member, on entries -/

/-- the number of progress-bar blocks of `n` bytes under method `m` -/
def blocksOf (m : Bytes) (n : Nat) : Nat := ceilDiv n (blockSizeOf m)

/-- **a member found good**: `VERIFY name` in a dry run; else the progress bar run to its end and
the line `name - Tested`; nothing for directories and symbolic links -/
def goodLine (o : Opts) (pk : Packer) : ExtractTree.Entry → Bytes
  | .file p data perms t =>
    if o.dryRun then safe (str "VERIFY " ++ shownName o (.file p data perms t)) ++ nl
    else
      progressOutput o.quiet (shownName o (.file p data perms t)) (str "Testing  :")
          (blocksOf (pk.pack data).1 data.length) (blocksOf (pk.pack data).1 data.length) ++
        statusLine o.quiet (shownName o (.file p data perms t)) (str "Tested")
  | _ => []

/-- **a member found bad** after its decoder produced `got` bytes: the progress bar as far as it
came and the line `name - CRC error` -/
def badLine (o : Opts) (pk : Packer) (got : Nat) : ExtractTree.Entry → Bytes
  | .file p data perms t =>
    progressOutput o.quiet (shownName o (.file p data perms t)) (str "Testing  :")
        (blocksOf (pk.pack data).1 data.length) (blocksOf (pk.pack data).1 got) ++
      statusLine o.quiet (shownName o (.file p data perms t)) (str "CRC error")
  | _ => []

/-- the progress callback at quiet level 1 prints the brief name once, whatever the size -/
theorem progressOutput_q1 (fn op : Bytes) (total last : Nat) :
    progressOutput 1 fn op total last = printFilenameBrief fn := by
  unfold progressOutput
  have h : List.range' 0 (last + 1) = 0 :: List.range' 1 last := rfl
  rw [h, List.flatMap_cons]
  have h0 : progressCallback 1 fn op total 0 = printFilenameBrief fn := by
    simp [progressCallback]
  have hr : (List.range' 1 last).flatMap (progressCallback 1 fn op total) = [] := by
    rw [List.flatMap_eq_nil_iff]
    intro b hb
    have : b ≠ 0 := by
      have := (List.mem_range'_1.1 hb).1
      omega
    simp [progressCallback, this]
  rw [h0, hr, List.append_nil]

/-- … and nothing at quiet level 2 and above -/
theorem progressOutput_q2 (q : Nat) (hq : 2 ≤ q) (fn op : Bytes) (total last : Nat) :
    progressOutput q fn op total last = [] := by
  unfold progressOutput
  rw [List.flatMap_eq_nil_iff]
  intro b _
  simp [progressCallback, hq]

/-- quiet level 1 (`lha tq1`), not a dry run: `\r name :` then `\r name \t- Tested  \n` -/
theorem goodLine_q1 (o : Opts) (pk : Packer) (p : Fs.Path) (data : Bytes) (perms : Option Nat) (t : Nat)
    (hq : o.quiet = 1) (hd : o.dryRun = false) :
    goodLine o pk (.file p data perms t) =
      printFilenameBrief (shownName o (.file p data perms t)) ++
        printFilename (shownName o (.file p data perms t)) (str "Tested") ++ nl := by
  simp [goodLine, hq, hd, progressOutput_q1, statusLine]

theorem badLine_q1 (o : Opts) (pk : Packer) (got : Nat) (p : Fs.Path) (data : Bytes) (perms : Option Nat)
    (t : Nat) (hq : o.quiet = 1) :
    badLine o pk got (.file p data perms t) =
      printFilenameBrief (shownName o (.file p data perms t)) ++
        printFilename (shownName o (.file p data perms t)) (str "CRC error") ++ nl := by
  simp [badLine, hq, progressOutput_q1, statusLine]

/-- quiet level ≥ 2, not a dry run: nothing at all — only the exit status tells -/
theorem goodLine_q2 (o : Opts) (pk : Packer) (e : ExtractTree.Entry) (hq : 2 ≤ o.quiet) (hd : o.dryRun = false) :
    goodLine o pk e = [] := by
  cases e <;> simp [goodLine, hd, progressOutput_q2 _ hq, statusLine, Nat.not_lt.2 hq]

theorem badLine_q2 (o : Opts) (pk : Packer) (got : Nat) (e : ExtractTree.Entry) (hq : 2 ≤ o.quiet) :
    badLine o pk got e = [] := by
  cases e <;> simp [badLine, progressOutput_q2 _ hq, statusLine, Nat.not_lt.2 hq]

/-! ## intact members -/

/-- the packer's bytes decode to the data -/
theorem decodedOf_intact {pk : Packer} {data : Bytes} (h : PackOk pk data) :
    decodedOf pk data (pk.pack data).2 = data := by
  obtain ⟨d, info, hd, hi, hdec⟩ := h.decodes
  unfold decodedOf
  split
  · rename_i d' hd'
    rw [hd] at hd'
    cases hd'
    simp only [srcOf, Nat.sub_self]
    exact hdec
  · rename_i hd'
    rw [hd] at hd'
    cases hd'

theorem goodOf_intact {pk : Packer} {data : Bytes} (h : PackOk pk data) :
    goodOf pk data (pk.pack data).2 = true := by
  rw [goodOf_iff, decodedOf_intact h]
  exact ⟨rfl, rfl⟩

theorem testOk_intact (o : Opts) {pk : Packer} {e : ExtractTree.Entry} (h : FilePack pk e) :
    testOk o pk (intact pk e) = true := by
  cases e with
  | file p data perms t =>
    have : goodOf pk data (pk.pack data).2 = true := goodOf_intact h
    simp [testOk, intact, dataOf, this]
  | dir _ _ _ => rfl
  | link _ _ => rfl

theorem testOut_intact (o : Opts) {pk : Packer} {e : ExtractTree.Entry} (h : FilePack pk e) :
    testOut o pk (intact pk e) = goodLine o pk e := by
  cases e with
  | file p data perms t =>
    have h1 : goodOf pk data (pk.pack data).2 = true := goodOf_intact h
    have h2 : decodedOf pk data (pk.pack data).2 = data := decodedOf_intact h
    simp only [testOut, intact, dataOf, goodLine, h1, h2, if_true, blocksOf]
  | dir _ _ _ => rfl
  | link _ _ => rfl

theorem flatMap_congr' {α β : Type} {l : List α} {f g : α → List β} (h : ∀ a ∈ l, f a = g a) :
    l.flatMap f = l.flatMap g := by
  induction l with
  | nil => rfl
  | cons a l ih =>
    rw [List.flatMap_cons, List.flatMap_cons, h a (by simp), ih (fun x hx => h x (List.mem_cons_of_mem _ hx))]

theorem filter_intact (o : Opts) (pk : Packer) (es : List ExtractTree.Entry) :
    (es.map (intact pk)).filter (sel o) = (es.filter (selected o.filters)).map (intact pk) := by
  rw [List.filter_map]
  rfl

theorem mem_filter_packs {pk : Packer} {es : List ExtractTree.Entry} (hpk : Packs pk es) (fl : List Bytes) :
    ∀ e ∈ es.filter (selected fl), FilePack pk e :=
  fun e he => hpk e (List.mem_filter.1 he).1

/-- trace, output, verdicts of the intact members `es` inside a longer item list -/
theorem intact_part (o : Opts) {pk : Packer} {es : List ExtractTree.Entry} (hpk : Packs pk es) :
    ((es.map (intact pk)).filter (sel o)).map (fun it => (hdrOf pk it.e, testOk o pk it)) =
      (es.filter (selected o.filters)).map (fun e => (hdrOf pk e, true)) ∧
    ((es.map (intact pk)).filter (sel o)).flatMap (testOut o pk) =
      (es.filter (selected o.filters)).flatMap (goodLine o pk) ∧
    ((es.map (intact pk)).filter (sel o)).all (testOk o pk) = true := by
  have hm := mem_filter_packs hpk o.filters
  rw [filter_intact]
  refine ⟨?_, ?_, ?_⟩
  · rw [List.map_map]
    apply List.map_congr_left
    intro e he
    simp only [Function.comp, testOk_intact o (hm e he)]
    rfl
  · rw [List.flatMap_map]
    apply flatMap_congr'
    intro e he
    exact testOut_intact o (hm e he)
  · rw [List.all_eq_true]
    intro it hit
    obtain ⟨e, he, rfl⟩ := List.mem_map.1 hit
    exact testOk_intact o (hm e he)

/-! ## (T1) -/

/-- **(T1) `lha t` on an intact archive, end to end on BYTES.**  For every list `es` of clean
(`EntryOk`), encodable entries in ANY order, every packer that handles their file data (`Packs`:
stored, `-lzs-`, `-lz5-`, `-lh1-`, `-lh4-`…`-lh7-`, `-lhx-`, `-pm1-`, `-pm2-` by the round-trip
theorems of C01–C04), every option set (quiet level, dry run, `i`, `w=DIR`, wildcard arguments), any
file system and answers, `lha t…` on the bytes `archiveWith pk es`:

* handles exactly the entries the wildcard arguments select (all when there are none), in archive
  order, each ONCE, with the header `hdrOf pk e`, and finds every one good — file members by decoding
  them to the end and comparing length and CRC-16, directory and symbolic-link entries without
  decoding anything (`lha_reader_check` answers "good" for them);
* writes to standard output exactly `goodLine o pk e` per selected entry (for a file the progress
  bar and `name - Tested`; nothing for directories and links) and nothing to standard error;
* neither faults nor leaves through `exit(-1)`, leaves the file system as it was,
* and exits with status 0. -/
theorem test_intact_archive (pk : Packer) (es : List ExtractTree.Entry) (hok : ∀ e ∈ es, EntryOk e)
    (henc : Encodable es) (hpk : Packs pk es) (o : Opts) (fs : Fs.St) (answers : Bytes) :
    (Messages.run .test (archiveWith pk es) o fs answers).trace.reverse =
      (es.filter (selected o.filters)).map (fun e => (hdrOf pk e, true)) ∧
    (Messages.run .test (archiveWith pk es) o fs answers).stdout =
      (es.filter (selected o.filters)).flatMap (goodLine o pk) ∧
    (Messages.run .test (archiveWith pk es) o fs answers).stderr = [] ∧
    (Messages.run .test (archiveWith pk es) o fs answers).aborted = false ∧
    (Messages.run .test (archiveWith pk es) o fs answers).fault = false ∧
    (Messages.run .test (archiveWith pk es) o fs answers).x.fs = fs ∧
    Messages.exitStatus (Messages.run .test (archiveWith pk es) o fs answers) = 0 := by
  have hall := allOk_of_entries hok henc hpk
  have hA : archiveWith pk es = (flatI pk (es.map (intact pk))).toArray := by
    rw [flatI_intact]
  obtain ⟨h1, h2, h3, _, h5, h6, h7⟩ := test_items pk (es.map (intact pk)) (itemsOk_intact hall) o fs answers
  have hE := exit_items pk (es.map (intact pk)) (itemsOk_intact hall) o fs answers
  obtain ⟨p1, p2, p3⟩ := intact_part o hpk
  rw [← hA] at h1 h2 h3 h5 h6 h7 hE
  rw [p3] at hE
  exact ⟨by rw [h1, p1], by rw [h2, p2], h3, h5, h6, h7, hE⟩

/-- quiet level ≥ 2 (`lha tq2`), intact archive: complete silence and exit status 0 -/
theorem test_intact_quiet (pk : Packer) (es : List ExtractTree.Entry) (hok : ∀ e ∈ es, EntryOk e)
    (henc : Encodable es) (hpk : Packs pk es) (o : Opts) (fs : Fs.St) (answers : Bytes)
    (hq : 2 ≤ o.quiet) (hd : o.dryRun = false) :
    (Messages.run .test (archiveWith pk es) o fs answers).stdout = [] ∧
    (Messages.run .test (archiveWith pk es) o fs answers).stderr = [] ∧
    Messages.exitStatus (Messages.run .test (archiveWith pk es) o fs answers) = 0 := by
  obtain ⟨_, h2, h3, _, _, _, h7⟩ := test_intact_archive pk es hok henc hpk o fs answers
  refine ⟨?_, h3, h7⟩
  rw [h2, List.flatMap_eq_nil_iff]
  intro e _
  exact goodLine_q2 o pk e hq hd

end LhasaV.TestBytes
