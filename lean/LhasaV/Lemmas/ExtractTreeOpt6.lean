import LhasaV.Lemmas.ExtractTreeOpt5
/-!
# C06 with options (part 6): the loop invariant with selection and relocation; closing a directory

* `WFS sel stk seen es`: `WF` (ExtractTree7) where only the selected entries count — an entry
  that is not selected is never extracted, so a directory that is not selected is never pushed;
  but it still closes (pops) the open directories it is lexically outside of.  This is exactly
  what the extraction loop does with the entries `lha_filter_next_file` passes over.
* `CoreInvG`: `CoreInv` over `FsPh` — before the first member is extracted the file system is
  untouched (`DIR` may not exist); afterwards `FsInvB` below `cwd ++ ds` with respect to `mkBase`.
* `step_close_g`: the metadata step of the innermost open directory.
-/
namespace LhasaV.ExtractTree
open LhasaV LhasaV.Header LhasaV.Extract LhasaV.GlobFs LhasaV.Contain

/-- directory-first contiguous order of the SELECTED entries, relative to the open (selected)
directories `stk` and the (selected) paths seen so far; entries that are not selected only close
the open directories they are outside of -/
def WFS (sel : Entry → Bool) : List Fs.Path → List Fs.Path → List Entry → Prop
  | _, _, [] => True
  | stk, seen, e :: es =>
    EntryOk e ∧
    if sel e = true then
      e.path ∉ seen ∧ (popStk stk e.dirPart).head?.getD [] = e.path.dropLast ∧
      WFS sel (if e.isDir then e.path :: popStk stk e.dirPart else popStk stk e.dirPart) (seen ++ [e.path]) es
    else WFS sel (popStk stk e.dirPart) seen es

instance decWFS (sel : Entry → Bool) : ∀ (stk seen : List Fs.Path) (es : List Entry), Decidable (WFS sel stk seen es)
  | _, _, [] => isTrue trivial
  | stk, seen, e :: es =>
    have := decWFS sel (if e.isDir then e.path :: popStk stk e.dirPart else popStk stk e.dirPart)
      (seen ++ [e.path]) es
    have := decWFS sel (popStk stk e.dirPart) seen es
    inferInstanceAs (Decidable (EntryOk e ∧
      if sel e = true then
        e.path ∉ seen ∧ (popStk stk e.dirPart).head?.getD [] = e.path.dropLast ∧
        WFS sel (if e.isDir then e.path :: popStk stk e.dirPart else popStk stk e.dirPart) (seen ++ [e.path]) es
      else WFS sel (popStk stk e.dirPart) seen es))

theorem WFS_pop (sel : Entry → Bool) (t : Fs.Path) (stk seen : List Fs.Path) (e : Entry) (es : List Entry)
    (h : ¬ t <+: e.dirPart) : WFS sel (t :: stk) seen (e :: es) ↔ WFS sel stk seen (e :: es) := by
  simp only [WFS, popStk_out t stk _ h]

/-- with everything selected `WFS` is `WF` -/
theorem WFS_all : ∀ (es : List Entry) (stk seen : List Fs.Path),
    WFS (fun _ => true) stk seen es ↔ WF stk seen es := by
  intro es
  induction es with
  | nil => intro _ _; exact Iff.rfl
  | cons e es ih => intro stk seen; simp only [WFS, WF, if_true, ih]

/-- the file system before (`fs = fs₀`) and after the first extracted member -/
def FsPh (fs0 : Fs.St) (ds : List Bytes) (done : List Entry) (stk : List Fs.Path) (fs : Fs.St) : Prop :=
  (done = [] ∧ stk = [] ∧ fs = fs0) ∨ (done ≠ [] ∧ FsInvB (mkBase fs0 ds) (fs0.cwd ++ ds) done stk fs)

theorem FsPh.inv {fs0 : Fs.St} {ds : List Bytes} {done : List Entry} {stk : List Fs.Path} {fs : Fs.St}
    (h : FsPh fs0 ds done stk fs) (hne : done ≠ []) :
    FsInvB (mkBase fs0 ds) (fs0.cwd ++ ds) done stk fs := by
  rcases h with ⟨h, _⟩ | ⟨_, h⟩
  · exact absurd h hne
  · exact h

/-- the part of the loop invariant that does not concern the reader -/
structure CoreInvG (fs0 : Fs.St) (ds : List Bytes) (sel : Entry → Bool) (done stk rest : List Entry)
    (s : Extract.St) : Prop where
  aborted : s.aborted = false
  result : s.result = true
  opts : OptsRel s.opts ds
  filt : ∀ e, selected s.opts.filters e = sel e
  fs : FsPh fs0 ds done (stk.map Entry.path) s.fs
  ok : DoneOk done stk
  wf : WFS sel (stk.map Entry.path) (done.map Entry.path) rest
  depth : ∀ e ∈ done ++ rest, ds.length + e.path.length < 64

structure LoopInvG (fs0 : Fs.St) (ds : List Bytes) (sel : Entry → Bool) (done stk rest : List Entry)
    (s : Extract.St) : Prop where
  core : CoreInvG fs0 ds sel done stk rest s
  rd : RdInv s.rd stk rest

theorem CoreInvG.with_rd {fs0 : Fs.St} {ds : List Bytes} {sel : Entry → Bool} {done stk rest : List Entry}
    {s : Extract.St} (h : CoreInvG fs0 ds sel done stk rest s) (rd : Reader.St) :
    CoreInvG fs0 ds sel done stk rest { s with rd := rd } :=
  ⟨h.aborted, h.result, h.opts, h.filt, h.fs, h.ok, h.wf, h.depth⟩

/-- what the steps need about the base: the user's access, and the facts about `mkBase` -/
structure BaseRef (fs0 : Fs.St) (ds : List Bytes) : Prop where
  acc : Access fs0
  facts : ∃ k, BaseOk fs0 ds k ∧ BaseFacts fs0 ds k (mkBase fs0 ds)

/-- `w=DIR` (or none): the place of `DIR` is as `BaseOk` says, and the user can use the
directories `make_parent_directories` creates -/
theorem baseRef_of {fs0 : Fs.St} {ds : List Bytes} {k : Nat} (hb : BaseOk fs0 ds k) (ha : AccessW fs0) :
    BaseRef fs0 ds := ⟨ha.access, k, hb, base_facts hb ha⟩

theorem BaseRef.params {fs0 : Fs.St} {ds : List Bytes} (h : BaseRef fs0 ds) :
    SameParams fs0 (mkBase fs0 ds) := by
  obtain ⟨k, _, hf⟩ := h.facts
  exact hf.made.params

theorem BaseRef.walk {fs0 : Fs.St} {ds : List Bytes} (h : BaseRef fs0 ds) : WalkIn (mkBase fs0 ds) ds := by
  obtain ⟨k, _, hf⟩ := h.facts
  exact hf.walk

theorem BaseRef.access1 {fs0 : Fs.St} {ds : List Bytes} (h : BaseRef fs0 ds) : Access (mkBase fs0 ds) := by
  unfold Access
  rw [h.params.root, h.params.umask]
  exact h.acc

/-! ## `extract_archived_file` when nothing is in the way and the parents step yields `fsY` -/

theorem eaf_run_g (s : St) (h : Hdr) (fsY : Fs.St) (hu : s.opts.usePath = true)
    (hex : isDirEntry h = true ∨ Fs.existsKind s.fs (fileFullPath h s.opts) = .none)
    (hpar : parentsOf s (fileFullPath h s.opts) = (true, fsY)) :
    extractArchivedFile s h =
      { s with rd := (readerExtract s.rd fsY (fileFullPath h s.opts)).2.1,
               fs := (readerExtract s.rd fsY (fileFullPath h s.opts)).2.2,
               result := s.result && (readerExtract s.rd fsY (fileFullPath h s.opts)).1,
               out := (if (readerExtract s.rd fsY (fileFullPath h s.opts)).1 then "ok" else "failed") :: s.out } := by
  rw [eaf_eq, preOf_pass s h hex]
  simp only [hu, Bool.not_true, Bool.false_eq_true, false_and, if_false, hpar]

/-! ## closing the innermost open directory -/

theorem step_close_g {fs0 : Fs.St} {ds : List Bytes} {sel : Entry → Bool} {done stk rest : List Entry}
    {d : Entry} (s : Extract.St) (top : Reader.HObj)
    (hi : CoreInvG fs0 ds sel done (d :: stk) rest s) (hb : BaseRef fs0 ds)
    (hpol : s.rd.policy = .endOfDir) (hdef : s.rd.deferred = [])
    (hty : s.rd.currType = .fakeDir) (hcur : s.rd.curr = some top)
    (hh : HdrOf d top.h) (hstack : StackRel s.rd.dirStack stk)
    (hpend : Pending s.rd.basic.curr rest)
    (hout : ∀ e tl, rest = e :: tl → ¬ d.path <+: e.dirPart) :
    LoopInvG fs0 ds sel done stk rest (extractArchivedFile s top.h) := by
  obtain ⟨hdd, hdir⟩ := hi.ok.sub d (by simp)
  have hk : EntryOk d := hi.ok.ok d hdd
  have hdep := hi.depth d (List.mem_append_left _ hdd)
  have hp1 := hb.params
  have hfs : FsInvB (mkBase fs0 ds) (fs0.cwd ++ ds) done ((d :: stk).map Entry.path) s.fs :=
    hi.fs.inv (List.ne_nil_of_mem hdd)
  have hfs' : FsInvB (mkBase fs0 ds) ((mkBase fs0 ds).cwd ++ ds) done ((d :: stk).map Entry.path) s.fs := by
    rw [hp1.cwd]; exact hfs
  have hfn : fileFullPath top.h s.opts = fullOf (d.reloc ds) := fullPath_rel hh hk s.opts ds hi.opts
  have pf := pathFacts_rel hk hi.opts.names hdep
  have hchain := hi.ok.chain
  simp only [List.map_cons] at hchain
  have hpre : ∀ pre, pre ≠ [] → pre <+: d.path → pre ≠ d.path →
      pre ∈ (d :: stk).map Entry.path := by
    intro pre h0 hp hne
    have := pre_mem_of_parent hchain.2.2 d.path hchain.2.1.symm pre h0 hp hne
    simp [this]
  have hw := walk_of_invB hfs' hi.ok hb.access1 hb.walk.walk_self d.path hpre
  have hcwd : s.fs.cwd = fs0.cwd := hfs.params.cwd.trans hp1.cwd
  rw [hp1.cwd] at hw
  have hgood : ∀ c ∈ ds ++ d.path, Good c := by
    have := names_good (entryOk_reloc hk hi.opts.names hdep).names
    rwa [reloc_path] at this
  have hT : Target s.fs (fullOf (d.reloc ds)) (ds ++ d.path) :=
    ⟨pf.rel, pf.comps, by simp [hk.ne], hgood, by rw [List.length_append]; exact hdep,
      by rw [hcwd]; exact hw⟩
  have hl := hfs.ents d hdd
  rw [if_pos (by simp)] at hl
  cases d with
  | file _ _ _ _ => cases hdir
  | link _ _ => cases hdir
  | dir p perms mtime =>
  obtain ⟨hh1, hh2, hm, hs, hpm, htm⟩ := hh
  have hl' : Fs.lookup s.fs (s.fs.cwd ++ (ds ++ p)) =
      some (.dir (openMode (mkBase fs0 ds).umask perms) (mkBase fs0 ds).now) := by
    rw [hcwd, ← List.append_assoc]; exact hl
  obtain ⟨e1, e2, e3⟩ := extract_fake_effect s.rd s.fs (fullOf ((Entry.dir p perms mtime).reloc ds))
    (ds ++ p) top hty hcur hT _ _ hl'
  rw [final_dir_mode top.h perms (mkBase fs0 ds).umask hpm, htm, hcwd, ← List.append_assoc] at e3
  have hrun := eaf_run_g s top.h s.fs hi.opts.up
    (Or.inl (isDirEntry_of (e := .dir p perms mtime) ⟨hh1, hh2, hm, hs, hpm, htm⟩ rfl))
    (by unfold parentsOf; simp [hty])
  rw [hfn] at hrun
  rw [hrun]
  have hts : p ∉ stk.map Entry.path := by
    have := hi.ok.snodup
    simp only [List.map_cons, List.nodup_cons] at this
    exact this.1
  refine ⟨⟨hi.aborted, ?_, hi.opts, hi.filt, ?_, ?_, ?_, hi.depth⟩, ?_⟩
  rotate_left 4
  · show RdInv (readerExtract s.rd s.fs _).2.1 stk rest
    rw [e2]
    exact ⟨hpol, hdef, hstack, Or.inr (Or.inr hty), fun _ => hpend⟩
  · show (s.result && _) = true
    rw [hi.result, e1]; rfl
  · show FsPh fs0 ds done (stk.map Entry.path) (readerExtract s.rd s.fs _).2.2
    refine Or.inr ⟨List.ne_nil_of_mem hdd, ?_⟩
    exact hfs.close hdd rfl hk.ne hts
      (fun e' he' hp => eq_of_path_eq done hi.ok.nodup e' he' _ hdd hp) e3
  · refine ⟨hi.ok.ok, hi.ok.nodup, fun x hx => hi.ok.sub x (List.mem_cons_of_mem _ hx), hchain.2.2, ?_⟩
    have := hi.ok.snodup
    simp only [List.map_cons, List.nodup_cons] at this
    exact this.2
  · have hwf := hi.wf
    cases rest with
    | nil => trivial
    | cons e tl =>
      simp only [List.map_cons] at hwf
      exact (WFS_pop sel p _ _ e tl (hout e tl rfl)).1 hwf

end LhasaV.ExtractTree
