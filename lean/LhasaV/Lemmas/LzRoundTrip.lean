import LhasaV.Model.Lzs
import LhasaV.Spec.Lz77
import LhasaV.Lemmas.Bits
import LhasaV.Lemmas.Wrap
import LhasaV.Lemmas.WrapProps
import LhasaV.Lemmas.SmallSafe
/-!
C03: the -lzs-, -lz5- and stored decoders decode every valid stream exactly.
-/
namespace LhasaV.LzRoundTrip
open LhasaV LhasaV.Spec.Lz77

theorem foldl_push_toList {α β : Type} (f : β → α) (l : List β) (a : Array α) :
    (l.foldl (fun a i => a.push (f i)) a).toList = a.toList ++ l.map f := by
  induction l generalizing a with
  | nil => simp
  | cons x xs ih => simp

theorem foldl_nested_toList {α β γ : Type} (g : β → α) (inner : List γ) (l : List β) (a : Array α) :
    (l.foldl (fun a i => inner.foldl (fun a _ => a.push (g i)) a) a).toList
      = a.toList ++ l.flatMap (fun i => List.replicate inner.length (g i)) := by
  induction l generalizing a with
  | nil => simp
  | cons x xs ih =>
    simp only [List.foldl_cons, List.flatMap_cons]
    rw [ih, foldl_push_toList, List.map_const', List.append_assoc]

theorem length_flatMap_replicate {α β : Type} (g : β → α) (k : Nat) (l : List β) :
    (l.flatMap (fun i => List.replicate k (g i))).length = l.length * k := by
  induction l with
  | nil => simp
  | cons x xs ih => simp [List.flatMap_cons, ih, Nat.add_mul]; omega

theorem getElem?_flatMap_replicate {α β : Type} (g : β → α) (k : Nat) (hk : 0 < k) (l : List β)
    (j : Nat) : (l.flatMap (fun i => List.replicate k (g i)))[j]? = (l[j / k]?).map g := by
  induction l generalizing j with
  | nil => simp
  | cons x xs ih =>
    rw [List.flatMap_cons, List.getElem?_append]
    by_cases hj : j < k
    · simp [hj, Nat.div_eq_of_lt hj]
    · have e : j / k = (j - k) / k + 1 := Nat.div_eq_sub_div hk (by omega)
      simp [hj, ih, e]

theorem fillInitial_toList : Lz5.fillInitial.toList =
    (List.range 256).flatMap (fun i => List.replicate 13 (UInt8.ofNat i))
    ++ (List.range 256).map (fun i => UInt8.ofNat i)
    ++ (List.range 256).map (fun i => UInt8.ofNat (255 - i))
    ++ List.replicate 128 0 ++ List.replicate 110 0x20 ++ List.replicate 18 0 := by
  unfold Lz5.fillInitial
  simp only [foldl_push_toList, foldl_nested_toList, List.map_const', List.length_range]
  rw [show (Array.mkEmpty 4096 : Array UInt8).toList = [] from rfl, List.nil_append]

theorem lz5_fill_size : Lz5.fillInitial.size = 4096 := Lz5.fillInitial_size

theorem lz5_fill_eq_closed_form (i : Nat) (hi : i < 4096) :
    Lz5.fillInitial[i]? = some (Spec.Lz77.lz5Init i) := by
  rw [← Array.getElem?_toList, fillInitial_toList]
  unfold lz5Init
  simp only [List.getElem?_append, List.length_append, length_flatMap_replicate, List.length_range,
    List.length_map, List.length_replicate, getElem?_flatMap_replicate _ 13 (by decide)]
  simp only [Nat.reduceMul, Nat.reduceAdd]
  by_cases h1 : i < 3328
  · have : i / 13 < 256 := by omega
    have g2 : i < 3584 := by omega
    have g3 : i < 3840 := by omega
    have g4 : i < 3968 := by omega
    have g5 : i < 4078 := by omega
    simp only [h1, g2, g3, g4, g5, if_true, List.getElem?_range this, Option.map_some]
  by_cases h2 : i < 3584
  · have : i - 3328 < 256 := by omega
    have g3 : i < 3840 := by omega
    have g4 : i < 3968 := by omega
    have g5 : i < 4078 := by omega
    simp only [h1, h2, g3, g4, g5, if_true, if_false, List.getElem?_map, List.getElem?_range this, Option.map_some]
  by_cases h3 : i < 3840
  · have : i - 3584 < 256 := by omega
    have g4 : i < 3968 := by omega
    have g5 : i < 4078 := by omega
    simp only [h1, h2, h3, g4, g5, if_true, if_false, List.getElem?_map, List.getElem?_range this, Option.map_some]
  by_cases h4 : i < 3968
  · have : i - 3840 < 128 := by omega
    have g5 : i < 4078 := by omega
    simp only [h1, h2, h3, h4, g5, if_true, if_false, List.getElem?_replicate, this]
  by_cases h5 : i < 4078
  · have : i - 3968 < 110 := by omega
    simp only [h1, h2, h3, h4, h5, if_true, if_false, List.getElem?_replicate, this]
  · have : i - 4078 < 18 := by omega
    simp only [h1, h2, h3, h4, h5, if_true, if_false, List.getElem?_replicate, this]

/-! ## Generic: the inner output stream of a `Dec` -/

theorem take_append_take {α : Type} (a b : List α) (m : Nat) :
    (a ++ b.take (m - a.length)).take m = (a ++ b).take m := by
  simp [List.take_append, List.take_take]

theorem avail_step (D : Dec) (s s' : D.σ) (out : List UInt8) (m : Nat)
    (h : D.read s = .ok (out, s')) (hne : out ≠ []) :
    Wrap.avail (Dec.total D) m (.ok s)
      = (out ++ Wrap.avail (Dec.total D) (m - out.length) (.ok s')).take m := by
  have e : Dec.total D (.ok s) = (out, .ok s') := by simp [Dec.total, h]
  have := Wrap.avail_unfold (Dec.total D) m (.ok s) (by rw [e]; exact hne)
  rw [e] at this
  exact this.symm

theorem avail_end (D : Dec) (s s' : D.σ) (m : Nat) (h : D.read s = .ok ([], s')) :
    Wrap.avail (Dec.total D) m (.ok s) = [] := by
  apply Wrap.avail_nil
  simp [Dec.total, h]

/-- one simulation step against an abstract stream `spec = out ++ spec'` -/
theorem avail_step_spec (D : Dec) (s s' : D.σ) (out spec' : List UInt8) (m : Nat)
    (h : D.read s = .ok (out, s')) (hne : out ≠ [])
    (ih : Wrap.avail (Dec.total D) (m - out.length) (.ok s') = spec'.take (m - out.length)) :
    Wrap.avail (Dec.total D) m (.ok s) = (out ++ spec').take m := by
  rw [avail_step D s s' out m h hne, ih, take_append_take]

/-! ## The ring: concrete array vs abstract function -/

def RingRel (N : Nat) (a : Array UInt8) (r : Ring) : Prop :=
  a.size = N ∧ ∀ i, i < N → a[i]? = some (r i)

theorem ringRel_set {N : Nat} {a : Array UInt8} {r : Ring} (h : RingRel N a r) (w : Nat)
    (b : UInt8) : RingRel N (a.setIfInBounds w b) (r.set w b) := by
  refine ⟨by simpa using h.1, ?_⟩
  intro i hi
  rw [Array.getElem?_setIfInBounds]
  unfold Spec.Lz77.Ring.set
  by_cases hw : w = i
  · subst hw
    have : w < a.size := by rw [h.1]; exact hi
    simp [this]
  · have hw' : ¬ i = w := fun e => hw e.symm
    simp [hw, hw', h.2 i hi]

/-- the C copy loop refines `copyRing` (self-overlap and never-written cells included) -/
theorem copyLoop_spec (N : Nat) (hN : 0 < N) (n p : Nat) (a : Array UInt8) (w : Nat)
    (acc : List UInt8) (r : Ring) (hrel : RingRel N a r) (hw : w < N) :
    ∃ a', Ring.copyLoop N n p a w acc
        = .ok (a', (copyRing N n p w r).2.2, (copyRing N n p w r).1.reverse ++ acc) ∧
      RingRel N a' (copyRing N n p w r).2.1 ∧ (copyRing N n p w r).2.2 < N := by
  induction n generalizing p a w acc r with
  | zero => exact ⟨a, by simp [Ring.copyLoop, copyRing], hrel, hw⟩
  | succ n ih =>
    have hget : a[p % N]? = some (r (p % N)) := hrel.2 _ (Nat.mod_lt _ hN)
    have hwa : w < a.size := by rw [hrel.1]; exact hw
    obtain ⟨a', h1, h2, h3⟩ := ih (p + 1) (a.setIfInBounds w (r (p % N))) ((w + 1) % N)
      (r (p % N) :: acc) (r.set w (r (p % N))) (ringRel_set hrel _ _) (Nat.mod_lt _ hN)
    refine ⟨a', ?_, ?_, ?_⟩
    · unfold Ring.copyLoop
      simp only [hget, hwa, if_true]
      rw [h1]
      simp [copyRing]
    · simpa [copyRing] using h2
    · simpa [copyRing] using h3

theorem copyRing_length (N n p w : Nat) (r : Ring) : (copyRing N n p w r).1.length = n := by
  induction n generalizing p w r with
  | zero => simp [copyRing]
  | succ n ih => simp [copyRing, ih]

/-! ## Stored methods -/

theorem null_avail (s : Src) (m : Nat) (hz : s.zeroFill = false) (hp : s.pos ≤ s.data.size)
    (he : s.extra = 0) (hd : s.dead = false) :
    Wrap.avail (Dec.total Null.dec) m (.ok s) = s.rest.take m := by
  generalize hk : s.rest.length = k
  induction k using Nat.strongRecOn generalizing s m with
  | _ k ih =>
    have hs := Bits.read_spec s Gen.nullBlockReadSize hz hp he hd
    have hread : Null.dec.read s = .ok ((s.read Gen.nullBlockReadSize).1, (s.read Gen.nullBlockReadSize).2) := rfl
    by_cases hout : (s.read Gen.nullBlockReadSize).1 = []
    · rw [hout] at hread
      rw [avail_end Null.dec s _ m hread]
      have : s.rest = [] := hs.2.2.2 (by simp [hout]) (by decide)
      simp [this]
    · rw [hs.2.2.1]
      apply avail_step_spec Null.dec s _ _ _ m hread hout
      have hlen : 0 < (s.read Gen.nullBlockReadSize).1.length := List.length_pos_iff.mpr hout
      have hl : s.rest.length = (s.read Gen.nullBlockReadSize).1.length + (s.read Gen.nullBlockReadSize).2.rest.length := by
        rw [hs.2.2.1, List.length_append]
      exact ih _ (by omega) _ _ hs.1.1 hs.1.2.1 hs.1.2.2.1 hs.1.2.2.2 rfl

/-- **4.** stored methods: the inner stream is the data itself, for every chunking -/
theorem null_round_trip (d : List UInt8) (m c : Nat) :
    Wrap.avail (Dec.total Null.dec) m (.ok (Null.dec.init { data := d.toArray, chunk := c }))
      = d.take m := by
  have := null_avail { data := d.toArray, chunk := c } m rfl (Nat.zero_le _) rfl rfl
  rw [Bits.rest_eq] at this
  simpa [Null.dec] using this

example : Wrap.avail (Dec.total Null.dec) 2 (.ok (Null.dec.init { data := [1, 2, 3].toArray, chunk := 1 }))
    = [1, 2] := null_round_trip [1, 2, 3] 2 1

/-! ## Bit fields -/

theorem length_bitsN (n v : Nat) : (bitsN n v).length = n := by simp [bitsN]

theorem bitsN_succ (n v : Nat) : bitsN (n + 1) v = bitsN n (v / 2) ++ [decide (v % 2 = 1)] := by
  unfold bitsN
  rw [List.range_succ, List.map_append]
  congr 1
  · apply List.map_congr_left
    intro i hi
    have hi' : i < n := List.mem_range.mp hi
    have e : n + 1 - 1 - i = (n - 1 - i) + 1 := by omega
    rw [e, Nat.pow_succ, Nat.mul_comm, Nat.div_div_eq_div_mul]
  · simp

theorem valOf_bitsN (n v : Nat) : Bits.valOf (bitsN n v) = v % 2 ^ n := by
  induction n generalizing v with
  | zero => simp [bitsN, Bits.valOf, Nat.mod_one]
  | succ n ih =>
    rw [bitsN_succ, Bits.valOf_append, ih, Nat.pow_succ, Nat.mul_comm (2 ^ n) 2, Nat.mod_mul]
    simp only [Bits.valOf, List.foldl_cons, List.foldl_nil, List.length_cons, List.length_nil]
    by_cases h : v % 2 = 1 <;> simp [h] <;> omega

theorem valOf_bitsN_lt (n v : Nat) (h : v < 2 ^ n) : Bits.valOf (bitsN n v) = v := by
  rw [valOf_bitsN, Nat.mod_eq_of_lt h]

theorem bitsOfByte_eq_bitsN (b : UInt8) : Bits.bitsOfByte b = bitsN 8 b.toNat := rfl

theorem bitsOfByte_valOf (l : List Bool) (hl : l.length = 8) :
    Bits.bitsOfByte (UInt8.ofNat (Bits.valOf l)) = l := by
  have hlt : Bits.valOf l < 256 := by have := Bits.valOf_lt l; rw [hl] at this; exact this
  apply Bits.valOf_inj (by simp [hl])
  rw [bitsOfByte_eq_bitsN, valOf_bitsN]
  simp [UInt8.toNat_ofNat']
  omega

/-- (2a) the bits of the packed bytes are the bits themselves plus fewer than 8 zero bits -/
theorem packBits_stream (bs : List Bool) :
    ∃ k, k < 8 ∧ (packBits bs).flatMap Bits.bitsOfByte = bs ++ List.replicate k false := by
  generalize hn : bs.length = n
  induction n using Nat.strongRecOn generalizing bs with
  | _ n ih =>
    by_cases h : bs = []
    · subst h
      exact ⟨0, by decide, by simp [packBits]⟩
    · have hpos : 0 < bs.length := List.length_pos_iff.mpr h
      rw [packBits, dif_neg h, List.flatMap_cons]
      have hb := bitsOfByte_valOf (bs.take 8 ++ List.replicate (8 - (bs.take 8).length) false)
        (by simp; omega)
      unfold Bits.valOf at hb
      rw [hb]
      by_cases h8 : 8 ≤ bs.length
      · obtain ⟨k, hk, e⟩ := ih (bs.drop 8).length (by simp; omega) (bs.drop 8) rfl
        refine ⟨k, hk, ?_⟩
        rw [e]
        have : 8 - (bs.take 8).length = 0 := by simp; omega
        rw [this]
        simp only [List.replicate_zero, List.append_nil]
        rw [← List.append_assoc, List.take_append_drop]
      · have hd : bs.drop 8 = [] := List.drop_eq_nil_of_le (by omega)
        have ht : bs.take 8 = bs := List.take_of_length_le (by omega)
        refine ⟨8 - bs.length, by omega, ?_⟩
        rw [hd, ht]
        simp [packBits]

/-! ## -lzs-: one read -/

theorem take_bitsN_append (n v : Nat) (rest : List Bool) :
    (bitsN n v ++ rest).take n = bitsN n v := by
  rw [List.take_append_of_le_length (by simp [length_bitsN])]
  exact List.take_of_length_le (by simp [length_bitsN])

theorem drop_bitsN_append (n v : Nat) (rest : List Bool) :
    (bitsN n v ++ rest).drop n = rest := by
  rw [List.drop_append_of_le_length (by simp [length_bitsN])]
  rw [List.drop_of_length_le (by simp [length_bitsN])]
  rfl

/-- reading an `n`-bit field written by `bitsN` -/
theorem readBits_bitsN (r : Bits) (n v : Nat) (rest : List Bool) (hi : Bits.Inv r) (hn : n ≤ 25)
    (hv : v < 2 ^ n) (hs : Bits.stream r = bitsN n v ++ rest) :
    (r.readBits n).1 = some v ∧ Bits.Inv (r.readBits n).2 ∧ Bits.stream (r.readBits n).2 = rest := by
  have h := Bits.readBits_some r n hi hn (by rw [hs]; simp [length_bitsN])
  rw [hs, take_bitsN_append, drop_bitsN_append, valOf_bitsN_lt n v hv] at h
  exact h

theorem lzs_read_lit (s : Lzs.St) (b : UInt8) (rest : List Bool) (hi : Bits.Inv s.bits)
    (hs : Bits.stream s.bits = true :: (bitsN 8 b.toNat ++ rest)) (hp : s.pos < s.ring.size) :
    ∃ bits', Lzs.read s = .ok ([b], (⟨bits', s.ring.setIfInBounds s.pos b, (s.pos + 1) % 2048⟩ : Lzs.St))
      ∧ Bits.Inv bits' ∧ Bits.stream bits' = rest := by
  obtain ⟨h1, h2, h3⟩ := Bits.readBit_some s.bits hi true _ hs
  obtain ⟨h4, h5, h6⟩ := readBits_bitsN s.bits.readBit.2 8 b.toNat rest h2 (by decide)
    b.toNat_lt h3
  refine ⟨(s.bits.readBit.2.readBits 8).2, ?_, h5, h6⟩
  unfold Lzs.read
  simp only [h1, h4, if_true, hp]
  simp [Gen.lzsRingSize]

theorem lzs_read_copy (s : Lzs.St) (p n : Nat) (rest : List Bool) (r : Ring)
    (hi : Bits.Inv s.bits) (hp : p < 2048) (hn2 : 2 ≤ n) (hn17 : n ≤ 17)
    (hs : Bits.stream s.bits = false :: (bitsN 11 p ++ (bitsN 4 (n - 2) ++ rest)))
    (hrel : RingRel 2048 s.ring r) (hw : s.pos < 2048) :
    ∃ s', Lzs.read s = .ok ((copyRing 2048 n p s.pos r).1, s') ∧ Bits.Inv s'.bits ∧
      Bits.stream s'.bits = rest ∧ RingRel 2048 s'.ring (copyRing 2048 n p s.pos r).2.1 ∧
      s'.pos = (copyRing 2048 n p s.pos r).2.2 ∧ s'.pos < 2048 := by
  obtain ⟨h1, h2, h3⟩ := Bits.readBit_some s.bits hi false _ hs
  obtain ⟨h4, h5, h6⟩ := readBits_bitsN s.bits.readBit.2 11 p _ h2 (by decide) (by omega) h3
  obtain ⟨h7, h8, h9⟩ := readBits_bitsN (s.bits.readBit.2.readBits 11).2 4 (n - 2) rest h5
    (by decide) (by omega) h6
  obtain ⟨a', c1, c2, c3⟩ := copyLoop_spec 2048 (by decide) n p s.ring s.pos [] r hrel hw
  refine ⟨{ bits := ((s.bits.readBit.2.readBits 11).2.readBits 4).2, ring := a',
            pos := (copyRing 2048 n p s.pos r).2.2 }, ?_, h8, h9, c2, rfl, c3⟩
  unfold Lzs.read
  have e : n - 2 + Gen.lzsThreshold = n := by simp [Gen.lzsThreshold]; omega
  simp only [h1, h4, h7, e, Gen.lzsRingSize, c1]
  simp

theorem lzs_read_end (s : Lzs.St) (k : Nat) (hk : k < 8) (hi : Bits.Inv s.bits)
    (hs : Bits.stream s.bits = List.replicate k false) :
    ∃ s', Lzs.read s = .ok ([], s') := by
  cases k with
  | zero =>
    obtain ⟨h1, -, -⟩ := Bits.readBit_none s.bits hi (by simpa using hs)
    unfold Lzs.read
    simp only [h1]
    exact ⟨_, rfl⟩
  | succ k =>
    obtain ⟨h1, h2, h3⟩ := Bits.readBit_some s.bits hi false (List.replicate k false)
      (by simpa [List.replicate_succ] using hs)
    obtain ⟨h4, -, -⟩ := Bits.readBits_none s.bits.readBit.2 11 h2 (by decide)
      (by rw [h3]; simp; omega)
    unfold Lzs.read
    simp only [h1, h4]
    simp

/-! ## -lzs-: the stream -/

theorem lzs_avail (cs : List RCmd) (hv : ∀ c ∈ cs, validLzs c = true) (k : Nat) (hk : k < 8)
    (s : Lzs.St) (r : Ring) (m : Nat) (hi : Bits.Inv s.bits)
    (hs : Bits.stream s.bits = lzsBits cs ++ List.replicate k false)
    (hrel : RingRel 2048 s.ring r) (hw : s.pos < 2048) :
    Wrap.avail (Dec.total Lzs.dec) m (.ok s) = (expandRing 2048 cs r s.pos).take m := by
  induction cs generalizing s r m with
  | nil =>
    obtain ⟨s', h⟩ := lzs_read_end s k hk hi (by simpa [lzsBits] using hs)
    rw [avail_end Lzs.dec s s' m h]
    simp [expandRing]
  | cons c cs ih =>
    have hv' : ∀ c ∈ cs, validLzs c = true := fun c hc => hv c (List.mem_cons_of_mem _ hc)
    cases c with
    | lit b =>
      have hp : s.pos < s.ring.size := by rw [hrel.1]; exact hw
      obtain ⟨bits', h1, h2, h3⟩ := lzs_read_lit s b (lzsBits cs ++ List.replicate k false) hi
        (by simpa [lzsBits] using hs) hp
      simp only [expandRing]
      exact avail_step_spec Lzs.dec s _ [b] _ m h1 (by simp)
        (ih hv' _ (r.set s.pos b) _ h2 h3 (ringRel_set hrel _ _) (Nat.mod_lt _ (by decide)))
    | copy p n =>
      have hc := hv (.copy p n) (List.mem_cons_self ..)
      simp only [validLzs, decide_eq_true_eq] at hc
      obtain ⟨s', h1, h2, h3, h4, h5, h6⟩ := lzs_read_copy s p n
        (lzsBits cs ++ List.replicate k false) r hi hc.1 hc.2.1 hc.2.2
        (by simpa [lzsBits] using hs) hrel hw
      simp only [expandRing]
      have hne : (copyRing 2048 n p s.pos r).1 ≠ [] := by
        intro e
        have := copyRing_length 2048 n p s.pos r
        rw [e] at this
        simp at this
        omega
      have := ih hv' s' _ (m - (copyRing 2048 n p s.pos r).1.length) h2 h3 h4 h6
      rw [h5] at this
      exact avail_step_spec Lzs.dec s s' _ _ m h1 hne this

theorem ringRel_lzs_init : RingRel 2048 (Array.replicate Gen.lzsRingCap 0x20) lzsInit := by
  refine ⟨by simp [Gen.lzsRingCap], ?_⟩
  intro i hi
  simp [Gen.lzsRingCap, hi, lzsInit]

/-- **2.** -lzs-: the inner output stream of the decoder on the serialised commands is their
expansion, for every chunking of the input callback -/
theorem lzs_round_trip (cs : List RCmd) (hv : ∀ c ∈ cs, validLzs c = true) (m c : Nat) :
    Wrap.avail (Dec.total Lzs.dec) m
        (.ok (Lzs.init { data := (serialiseLzs cs).toArray, chunk := c }))
      = (expandLzs cs).take m := by
  obtain ⟨k, hk, e⟩ := packBits_stream (lzsBits cs)
  have hi : Bits.Inv (Lzs.init { data := (serialiseLzs cs).toArray, chunk := c }).bits :=
    Bits.inv_init _ rfl (Nat.zero_le _) rfl rfl
  have hs : Bits.stream (Lzs.init { data := (serialiseLzs cs).toArray, chunk := c }).bits
      = lzsBits cs ++ List.replicate k false := by
    rw [← e]
    simp only [Lzs.init, Bits.stream_init, Bits.rest_eq]
    simp [serialiseLzs]
  exact lzs_avail cs hv k hk _ lzsInit m hi hs ringRel_lzs_init
    (by simp [Lzs.init, Gen.lzsRingSize, Gen.lzsStartOffset])

example : Wrap.avail (Dec.total Lzs.dec) 100 (.ok (Lzs.init
      { data := (serialiseLzs [.lit 65, .copy 2031 5, .copy 100 3]).toArray, chunk := 1 }))
    = [65, 65, 65, 65, 65, 65, 32, 32, 32] := by
  rw [lzs_round_trip _ (by decide)]
  rfl

/-! ## -lz5-: the callback with `chunk = 0` -/

def SrcOk (s : Src) : Prop :=
  s.zeroFill = false ∧ s.pos ≤ s.data.size ∧ s.extra = 0 ∧ s.dead = false ∧ s.chunk = 0

theorem src_read_exact (s : Src) (req : Nat) (l tail : List UInt8) (h : SrcOk s)
    (hrest : s.rest = l ++ tail) (hl : l.length = req) :
    (s.read req).1 = l ∧ SrcOk (s.read req).2 ∧ (s.read req).2.rest = tail := by
  obtain ⟨hz, hp, he, hd, hc⟩ := h
  have hrem : s.remaining = l.length + tail.length := by
    rw [← Bits.length_rest, hrest, List.length_append]
  have hg : s.grant req = req := by
    unfold Src.grant
    simp only [hd, he, hc, Nat.add_zero, if_true, Bool.false_eq_true, if_false]
    omega
  have hread : s.read req = ((s.data.extract s.pos (s.pos + req)).toList,
      { s with pos := s.pos + req }) := by
    have hng : ¬ req > s.remaining := by omega
    simp [Src.read, hz, hg, hng]
  have hsz : s.remaining = s.data.size - s.pos := rfl
  rw [hread]
  rw [Bits.rest_eq] at hrest
  refine ⟨?_, ⟨hz, ?_, he, hd, hc⟩, ?_⟩
  · simp only [Array.toList_extract, List.extract_eq_take_drop, Nat.add_sub_cancel_left]
    rw [hrest, List.take_append_of_le_length (by omega), List.take_of_length_le (by omega)]
  · show s.pos + req ≤ s.data.size
    omega
  · rw [Bits.rest_eq]
    show s.data.toList.drop (s.pos + req) = tail
    rw [← List.drop_drop, hrest, List.drop_append_of_le_length (by omega),
      List.drop_of_length_le (by omega)]
    rfl

theorem src_read_empty (s : Src) (req : Nat) (h : SrcOk s) (hrest : s.rest = []) :
    (s.read req).1 = [] ∧ SrcOk (s.read req).2 ∧ (s.read req).2.rest = [] := by
  obtain ⟨hz, hp, he, hd, hc⟩ := h
  have hs := Bits.read_spec s req hz hp he hd
  have e := hs.2.2.1
  rw [hrest] at e
  have e' := List.append_eq_nil_iff.mp e.symm
  refine ⟨e'.1, ⟨hs.1.1, hs.1.2.1, hs.1.2.2.1, hs.1.2.2.2, ?_⟩, e'.2⟩
  unfold Src.read
  simp only
  split
  · exact hc
  · split <;> exact hc

/-! ## -lz5-: flag byte, command bodies -/

/-- value of the flag bits of a group: bit `j` set iff command `j` is a literal -/
def flagVal : List RCmd → Nat
  | [] => 0
  | .lit _ :: g => 1 + 2 * flagVal g
  | .copy _ _ :: g => 2 * flagVal g

theorem flag_fold (g : List RCmd) (s v : Nat) :
    ((List.range' s g.length).zip g).foldl
      (fun v p => match p.2 with | .lit _ => v + 2 ^ p.1 | .copy _ _ => v) v
      = v + 2 ^ s * flagVal g := by
  induction g generalizing s v with
  | nil => simp [flagVal]
  | cons c g ih =>
    simp only [List.length_cons, List.range'_succ, List.zip_cons_cons, List.foldl_cons]
    rw [ih]
    cases c with
    | lit b =>
      simp only [flagVal, Nat.pow_succ, Nat.mul_add, Nat.mul_one, Nat.mul_assoc, Nat.add_assoc]
    | copy p n =>
      simp only [flagVal, Nat.pow_succ, Nat.mul_assoc]

theorem flagVal_lt (g : List RCmd) : flagVal g < 2 ^ g.length := by
  induction g with
  | nil => simp [flagVal]
  | cons c g ih =>
    cases c <;> simp only [flagVal, List.length_cons, Nat.pow_succ] <;> omega

theorem lz5Flag_toNat (g : List RCmd) (h : g.length ≤ 8) : (lz5Flag g).toNat = flagVal g := by
  have e : lz5Flag g = UInt8.ofNat (0 + 2 ^ 0 * flagVal g) := by
    unfold lz5Flag
    rw [List.range_eq_range']
    exact congrArg UInt8.ofNat (flag_fold g 0 0)
  rw [e]
  have h1 := flagVal_lt g
  have h2 : 2 ^ g.length ≤ 2 ^ 8 := Nat.pow_le_pow_right (by decide) h
  simp [UInt8.toNat_ofNat']
  omega

/-- ring and write position after a command list -/
def runRing (size : Nat) : List RCmd → Ring → Nat → Ring × Nat
  | [], r, w => (r, w)
  | .lit b :: cs, r, w => runRing size cs (r.set w b) ((w + 1) % size)
  | .copy p n :: cs, r, w => runRing size cs (copyRing size n p w r).2.1 (copyRing size n p w r).2.2

theorem expandRing_append (size : Nat) (g cs : List RCmd) (r : Ring) (w : Nat) :
    expandRing size (g ++ cs) r w
      = expandRing size g r w ++ expandRing size cs (runRing size g r w).1 (runRing size g r w).2 := by
  induction g generalizing r w with
  | nil => simp [expandRing, runRing]
  | cons c g ih =>
    cases c with
    | lit b => simp [expandRing, runRing, ih]
    | copy p n => simp [expandRing, runRing, ih]

theorem expandRing_ne_nil (size : Nat) (c : RCmd) (cs : List RCmd) (r : Ring) (w : Nat)
    (h : ∀ p n, c = .copy p n → 0 < n) : expandRing size (c :: cs) r w ≠ [] := by
  cases c with
  | lit b => simp [expandRing]
  | copy p n =>
    have hn := h p n rfl
    have hl := copyRing_length size n p w r
    simp only [expandRing]
    intro e
    rw [(List.append_eq_nil_iff.mp e).1] at hl
    simp at hl
    omega

theorem div_pow_succ (x bit : Nat) : x / 2 ^ (bit + 1) = x / 2 ^ bit / 2 := by
  rw [Nat.pow_succ, Nat.div_div_eq_div_mul]

/-- the 8-iteration command loop of `lha_lz5_read` on the rest `g` of a group -/
theorem cmdLoop_spec (k : Nat) (bit bitmap : Nat) (g : List RCmd) (tail : List UInt8)
    (s : Lz5.St) (acc : List UInt8) (r : Ring)
    (hv : ∀ c ∈ g, validLz5 c = true) (hg : g.length ≤ k) (htail : g.length < k → tail = [])
    (hbm : bitmap / 2 ^ bit = flagVal g) (hok : SrcOk s.src)
    (hrest : s.src.rest = g.flatMap lz5Body ++ tail)
    (hrel : RingRel 4096 s.ring r) (hw : s.pos < 4096) :
    ∃ s', Lz5.cmdLoop k bit bitmap s acc
        = .ok ((expandRing 4096 g r s.pos).reverse ++ acc, s') ∧
      SrcOk s'.src ∧ s'.src.rest = tail ∧ RingRel 4096 s'.ring (runRing 4096 g r s.pos).1 ∧
      s'.pos = (runRing 4096 g r s.pos).2 ∧ s'.pos < 4096 := by
  induction k generalizing bit g s acc r with
  | zero =>
    have : g = [] := List.eq_nil_of_length_eq_zero (by omega)
    subst this
    exact ⟨s, by simp [Lz5.cmdLoop, expandRing], hok, by simpa using hrest, hrel, rfl, hw⟩
  | succ k ih =>
    cases g with
    | nil =>
      have ht : tail = [] := htail (by simp)
      subst ht
      have hc : ¬ (bitmap / 2 ^ bit) % 2 ≠ 0 := by rw [hbm]; simp [flagVal]
      obtain ⟨e1, e2, e3⟩ := src_read_empty s.src 2 hok (by simpa using hrest)
      refine ⟨{ s with src := (s.src.read 2).2 }, ?_, e2, e3, hrel, rfl, hw⟩
      rw [Lz5.cmdLoop, if_neg hc]
      simp only [e1]
      simp [expandRing]
    | cons c g =>
      have hv' : ∀ c ∈ g, validLz5 c = true := fun c hc => hv c (List.mem_cons_of_mem _ hc)
      have hg' : g.length ≤ k := by simp at hg; omega
      have htail' : g.length < k → tail = [] := fun h => htail (by simp; omega)
      cases c with
      | lit b =>
        have hc : (bitmap / 2 ^ bit) % 2 ≠ 0 := by rw [hbm]; simp [flagVal]
        have hbm' : bitmap / 2 ^ (bit + 1) = flagVal g := by
          rw [div_pow_succ, hbm]; simp [flagVal]; omega
        obtain ⟨e1, e2, e3⟩ := src_read_exact s.src 1 [b] (g.flatMap lz5Body ++ tail) hok
          (by simpa [lz5Body] using hrest) rfl
        have hp : s.pos < s.ring.size := by rw [hrel.1]; exact hw
        obtain ⟨s', h1, h2, h3, h4, h5, h6⟩ := ih (bit + 1) g
          { src := (s.src.read 1).2, ring := s.ring.setIfInBounds s.pos b,
            pos := (s.pos + 1) % 4096 } (b :: acc) (r.set s.pos b) hv' hg' htail' hbm' e2 e3
          (ringRel_set hrel _ _) (Nat.mod_lt _ (by decide))
        refine ⟨s', ?_, h2, h3, h4, h5, h6⟩
        rw [Lz5.cmdLoop, if_pos hc]
        simp only [if_true, e1, hp, Gen.lz5RingSize]
        rw [h1]
        simp [expandRing]
      | copy p n =>
        have hcv := hv (.copy p n) (List.mem_cons_self ..)
        simp only [validLz5, decide_eq_true_eq] at hcv
        have hc : ¬ (bitmap / 2 ^ bit) % 2 ≠ 0 := by rw [hbm]; simp [flagVal]
        have hbm' : bitmap / 2 ^ (bit + 1) = flagVal g := by
          rw [div_pow_succ, hbm]; simp [flagVal]
        obtain ⟨e1, e2, e3⟩ := src_read_exact s.src 2
          [UInt8.ofNat (p % 256), UInt8.ofNat ((p / 256) * 16 + (n - 3))]
          (g.flatMap lz5Body ++ tail) hok (by simpa [lz5Body] using hrest) rfl
        have t0 : (UInt8.ofNat (p % 256)).toNat = p % 256 := by
          simp [UInt8.toNat_ofNat']
        have t1 : (UInt8.ofNat ((p / 256) * 16 + (n - 3))).toNat = (p / 256) * 16 + (n - 3) := by
          simp [UInt8.toNat_ofNat']; omega
        have hstart : ((p / 256) * 16 + (n - 3)) / 16 * 256 + p % 256 = p := by omega
        have hlen : ((p / 256) * 16 + (n - 3)) % 16 + Gen.lz5Threshold = n := by
          simp [Gen.lz5Threshold]; omega
        obtain ⟨a', c1, c2, c3⟩ := copyLoop_spec 4096 (by decide) n p s.ring s.pos acc r hrel hw
        obtain ⟨s', h1, h2, h3, h4, h5, h6⟩ := ih (bit + 1) g
          { src := (s.src.read 2).2, ring := a', pos := (copyRing 4096 n p s.pos r).2.2 }
          ((copyRing 4096 n p s.pos r).1.reverse ++ acc) (copyRing 4096 n p s.pos r).2.1
          hv' hg' htail' hbm' e2 e3 c2 c3
        refine ⟨s', ?_, h2, h3, h4, h5, h6⟩
        rw [Lz5.cmdLoop, if_neg hc]
        simp only [e1, t0, t1, hstart, hlen, Gen.lz5RingSize, c1]
        simp only [Res.ok_bind]
        rw [h1]
        simp [expandRing]

/-- one `lha_lz5_read` on a group of 1..8 commands (a short group must be the last one) -/
theorem lz5_read_group (g : List RCmd) (hlen : g.length ≤ 8) (hv : ∀ c ∈ g, validLz5 c = true)
    (tail : List UInt8) (htail : g.length < 8 → tail = []) (s : Lz5.St) (r : Ring)
    (hok : SrcOk s.src) (hrest : s.src.rest = lz5Flag g :: (g.flatMap lz5Body ++ tail))
    (hrel : RingRel 4096 s.ring r) (hw : s.pos < 4096) :
    ∃ s', Lz5.read s = .ok (expandRing 4096 g r s.pos, s') ∧ SrcOk s'.src ∧
      s'.src.rest = tail ∧ RingRel 4096 s'.ring (runRing 4096 g r s.pos).1 ∧
      s'.pos = (runRing 4096 g r s.pos).2 ∧ s'.pos < 4096 := by
  obtain ⟨e1, e2, e3⟩ := src_read_exact s.src 1 [lz5Flag g] (g.flatMap lz5Body ++ tail) hok
    (by simpa using hrest) rfl
  obtain ⟨s', h1, h2, h3, h4, h5, h6⟩ := cmdLoop_spec 8 0 (lz5Flag g).toNat g tail
    { s with src := (s.src.read 1).2 } [] r hv hlen htail
    (by rw [lz5Flag_toNat g hlen]; simp) e2 e3 hrel hw
  refine ⟨s', ?_, h2, h3, h4, h5, h6⟩
  unfold Lz5.read
  simp only [e1]
  rw [h1]
  simp

theorem lz5_avail (cs : List RCmd) (hv : ∀ c ∈ cs, validLz5 c = true) (s : Lz5.St) (r : Ring)
    (m : Nat) (hok : SrcOk s.src) (hrest : s.src.rest = serialiseLz5 cs)
    (hrel : RingRel 4096 s.ring r) (hw : s.pos < 4096) :
    Wrap.avail (Dec.total Lz5.dec) m (.ok s) = (expandRing 4096 cs r s.pos).take m := by
  generalize hn : cs.length = n
  induction n using Nat.strongRecOn generalizing cs s r m with
  | _ n ih =>
    by_cases h : cs = []
    · subst h
      obtain ⟨e1, -, -⟩ := src_read_empty s.src 1 hok (by simpa [serialiseLz5] using hrest)
      have hr : Lz5.dec.read s = .ok ([], { s with src := (s.src.read 1).2 }) := by
        show Lz5.read s = _
        unfold Lz5.read
        simp only [e1]
        rfl
      rw [avail_end Lz5.dec s _ m hr]
      simp [expandRing]
    · have hpos : 0 < cs.length := List.length_pos_iff.mpr h
      rw [serialiseLz5, dif_neg h] at hrest
      have hvg : ∀ c ∈ cs.take 8, validLz5 c = true := fun c hc => hv c (List.mem_of_mem_take hc)
      have hvd : ∀ c ∈ cs.drop 8, validLz5 c = true := fun c hc => hv c (List.mem_of_mem_drop hc)
      have htail : (cs.take 8).length < 8 → serialiseLz5 (cs.drop 8) = [] := by
        intro hl
        have : cs.drop 8 = [] := List.drop_eq_nil_of_le (by simp at hl; omega)
        rw [this]; simp [serialiseLz5]
      obtain ⟨s', h1, h2, h3, h4, h5, h6⟩ := lz5_read_group (cs.take 8) (by simp; omega) hvg
        (serialiseLz5 (cs.drop 8)) htail s r hok (by simpa using hrest) hrel hw
      have hsplit := expandRing_append 4096 (cs.take 8) (cs.drop 8) r s.pos
      rw [List.take_append_drop] at hsplit
      rw [hsplit]
      have hne : expandRing 4096 (cs.take 8) r s.pos ≠ [] := by
        cases cs with
        | nil => exact absurd rfl h
        | cons c cs' =>
          simp only [List.take_succ_cons]
          apply expandRing_ne_nil
          intro p n hc
          have := hv c (List.mem_cons_self ..)
          rw [hc] at this
          simp only [validLz5, decide_eq_true_eq] at this
          omega
      have := ih (cs.drop 8).length (by simp; omega) (cs.drop 8) hvd s' _
        (m - (expandRing 4096 (cs.take 8) r s.pos).length) h2 h3 h4 h6 rfl
      rw [h5] at this
      exact avail_step_spec Lz5.dec s s' _ _ m h1 hne this

theorem ringRel_lz5_init : RingRel 4096 Lz5.fillInitial lz5Init :=
  ⟨lz5_fill_size, fun i hi => lz5_fill_eq_closed_form i hi⟩

/-- **3.** -lz5-: the inner output stream of the decoder on the serialised commands is their
expansion (callback answering requests in full, `chunk = 0`) -/
theorem lz5_round_trip (cs : List RCmd) (hv : ∀ c ∈ cs, validLz5 c = true) (m : Nat) :
    Wrap.avail (Dec.total Lz5.dec) m (.ok (Lz5.init { data := (serialiseLz5 cs).toArray }))
      = (expandLz5 cs).take m := by
  exact lz5_avail cs hv _ lz5Init m ⟨rfl, Nat.zero_le _, rfl, rfl, rfl⟩
    (by simp [Lz5.init, Bits.rest_eq]) ringRel_lz5_init
    (by simp [Lz5.init, Gen.lz5RingSize, Gen.lz5StartOffset])

/-- a literal, a self-overlapping copy, a copy from never-written cells, and a second
(short, final) group -/
example : Wrap.avail (Dec.total Lz5.dec) 100 (.ok (Lz5.init
      { data := (serialiseLz5 [.lit 65, .copy 4078 5, .copy 3394 3, .lit 1, .lit 2, .lit 3,
          .lit 4, .lit 5, .lit 6, .copy 4078 3]).toArray }))
    = [65, 65, 65, 65, 65, 65, 66, 67, 68, 1, 2, 3, 4, 5, 6, 65, 65, 65] := by
  rw [lz5_round_trip _ (by decide)]
  rfl

/-! ## 5. Through the wrapper `lha_decoder_read` -/

theorem rest_fresh {σ : Type} (rd : σ → List Byte × σ) (i : σ) (n b k : Nat) :
    Wrap.rest rd k ({ inner := i, length := n, blockSize := b } : Wrap.St σ) = Wrap.avail rd k i := by
  have := Wrap.avail_length_le rd k i
  simp [Wrap.rest, List.take_of_length_le this]

theorem reads_fresh {σ : Type} (rd : σ → List Byte × σ) (i : σ) (n b : Nat) (ks : List Nat) :
    (Wrap.reads rd ks ({ inner := i, length := n, blockSize := b } : Wrap.St σ)).1.1
      = Wrap.avail rd (min ks.sum n) i := by
  rw [Wrap.reads_stream rd ks _ (Nat.zero_le _), rest_fresh]
  rfl

/-- **5a.** -lzs- through the wrapper: any declared length, any read schedule, any chunking -/
theorem lzs_reads (cs : List RCmd) (hv : ∀ c ∈ cs, validLzs c = true) (c n b : Nat)
    (ks : List Nat) :
    (Wrap.reads (Dec.total Lzs.dec) ks
        { inner := .ok (Lzs.init { data := (serialiseLzs cs).toArray, chunk := c }),
          length := n, blockSize := b }).1.1
      = (expandLzs cs).take (min ks.sum n) := by
  rw [reads_fresh, lzs_round_trip cs hv]

/-- **5b.** -lz5- through the wrapper -/
theorem lz5_reads (cs : List RCmd) (hv : ∀ c ∈ cs, validLz5 c = true) (n b : Nat)
    (ks : List Nat) :
    (Wrap.reads (Dec.total Lz5.dec) ks
        { inner := .ok (Lz5.init { data := (serialiseLz5 cs).toArray }),
          length := n, blockSize := b }).1.1
      = (expandLz5 cs).take (min ks.sum n) := by
  rw [reads_fresh, lz5_round_trip cs hv]

/-- **5c.** stored methods through the wrapper -/
theorem null_reads (d : List UInt8) (c n b : Nat) (ks : List Nat) :
    (Wrap.reads (Dec.total Null.dec) ks
        { inner := .ok (Null.dec.init { data := d.toArray, chunk := c }),
          length := n, blockSize := b }).1.1
      = d.take (min ks.sum n) := by
  rw [reads_fresh, null_round_trip]

example : (Wrap.reads (Dec.total Lzs.dec) [1, 0, 3, 2]
      { inner := .ok (Lzs.init
          { data := (serialiseLzs [.lit 65, .copy 2031 5, .copy 100 3]).toArray, chunk := 2 }),
        length := 8, blockSize := 2048 }).1.1
    = [65, 65, 65, 65, 65, 65] := by
  rw [lzs_reads _ (by decide)]
  rfl

example : (Wrap.reads (Dec.total Lz5.dec) [4, 100]
      { inner := .ok (Lz5.init
          { data := (serialiseLz5 [.lit 65, .copy 4078 5, .copy 3394 3]).toArray }),
        length := 8, blockSize := 4096 }).1.1
    = [65, 65, 65, 65, 65, 65, 66, 67] := by
  rw [lz5_reads _ (by decide)]
  rfl

example : (Wrap.reads (Dec.total Null.dec) [1, 1, 5]
      { inner := .ok (Null.dec.init { data := [1, 2, 3, 4].toArray, chunk := 3 }),
        length := 3, blockSize := 2048 }).1.1 = [1, 2, 3] :=
  null_reads [1, 2, 3, 4] 3 3 2048 [1, 1, 5]

end LhasaV.LzRoundTrip
