import LhasaV.Model.Tree
import LhasaV.Lemmas.TreeSafe
import LhasaV.Spec.Canon
/-!
Canonical-code correctness of `build_tree`, part 1: exact effect of the
expansion loop and of `add_codes_with_length` on the table, and the notion of
the slot reached by a bit path (`slotAt`).
-/
namespace LhasaV.Tree
open LhasaV.Spec.Canon

/-! ### `expand_queue` -/

/-- one iteration of the expand loop -/
def expStep (lb : Nat) (b : Build) : Build :=
  { tree := b.tree.setIfInBounds b.next (b.alloc % (2 * lb)),
    treeLen := b.treeLen, alloc := b.alloc + 2, next := b.next + 1,
    oob := b.oob || decide (b.tree.size ≤ b.next) }

theorem expandLoop_succ (lb k : Nat) (b : Build) :
    expandLoop lb (k + 1) b = expandLoop lb k (expStep lb b) := rfl

theorem expStep_size (lb : Nat) (b : Build) : (expStep lb b).tree.size = b.tree.size :=
  Array.size_setIfInBounds

theorem expandLoop_fields (lb k : Nat) (b : Build) :
    (expandLoop lb k b).next = b.next + k ∧ (expandLoop lb k b).alloc = b.alloc + 2 * k ∧
    (expandLoop lb k b).treeLen = b.treeLen ∧ (expandLoop lb k b).tree.size = b.tree.size := by
  induction k generalizing b with
  | zero => exact ⟨rfl, rfl, rfl, rfl⟩
  | succ k ih =>
    rw [expandLoop_succ]
    obtain ⟨h1, h2, h3, h4⟩ := ih (expStep lb b)
    rw [h1, h2, h3, h4]
    refine ⟨?_, ?_, rfl, expStep_size lb b⟩
    · show b.next + 1 + k = _; omega
    · show b.alloc + 2 + 2 * k = _; omega

theorem expandLoop_oob (lb k : Nat) (b : Build) (hk : b.next + k ≤ b.tree.size) :
    (expandLoop lb k b).oob = b.oob := by
  induction k generalizing b with
  | zero => rfl
  | succ k ih =>
    rw [expandLoop_succ, ih _ (by
      show b.next + 1 + k ≤ (expStep lb b).tree.size
      rw [expStep_size]; omega)]
    show (b.oob || decide (b.tree.size ≤ b.next)) = b.oob
    have : ¬ b.tree.size ≤ b.next := by omega
    rw [decide_eq_false this, Bool.or_false]

/-- effect of the expand loop on every slot -/
theorem expandLoop_get (lb k : Nat) (b : Build) (hk : b.next + k ≤ b.tree.size)
    (hlb : b.alloc + 2 * k ≤ 2 * lb) (i : Nat) :
    (expandLoop lb k b).tree[i]? =
      if b.next ≤ i ∧ i < b.next + k then some (b.alloc + 2 * (i - b.next)) else b.tree[i]? := by
  induction k generalizing b with
  | zero =>
    have : ¬ (b.next ≤ i ∧ i < b.next + 0) := by omega
    rw [if_neg this]; rfl
  | succ k ih =>
    rw [expandLoop_succ, ih _ (by
      show b.next + 1 + k ≤ (expStep lb b).tree.size
      rw [expStep_size]; omega) (by show b.alloc + 2 + 2 * k ≤ 2 * lb; omega)]
    show (if b.next + 1 ≤ i ∧ i < b.next + 1 + k then some (b.alloc + 2 + 2 * (i - (b.next + 1)))
      else (b.tree.setIfInBounds b.next (b.alloc % (2 * lb)))[i]?) = _
    have hal : b.alloc % (2 * lb) = b.alloc := Nat.mod_eq_of_lt (by omega)
    rw [hal, Array.getElem?_setIfInBounds]
    by_cases h1 : b.next + 1 ≤ i ∧ i < b.next + 1 + k
    · have h2 : b.next ≤ i ∧ i < b.next + (k + 1) := by omega
      rw [if_pos h1, if_pos h2]
      congr 1; omega
    · rw [if_neg h1]
      by_cases h3 : b.next = i
      · subst h3
        have h2 : b.next ≤ b.next ∧ b.next < b.next + (k + 1) := by omega
        have h4 : b.next < b.tree.size := by omega
        rw [if_pos h2, if_pos rfl, if_pos h4]
        congr 1; omega
      · have h2 : ¬ (b.next ≤ i ∧ i < b.next + (k + 1)) := by omega
        rw [if_neg h2, if_neg h3]

theorem expandQueue_eq (lb : Nat) (b : Build) (h : b.alloc + (b.alloc - b.next) * 2 ≤ b.treeLen) :
    expandQueue lb b = expandLoop lb (b.alloc - b.next) b := by
  unfold expandQueue
  rw [if_neg (by omega)]

/-! ### slot paths -/

/-- the child offset selected by a bit -/
def bitNat (b : Bool) : Nat := if b then 1 else 0

/-- follow `bits` from slot `s`, reading only slots below `m`: every slot on the
way must hold a pointer (an entry `< lb`) -/
def slotAt (lb : Nat) (t : Array Nat) (m : Nat) : List Bool → Nat → Option Nat
  | [], s => some s
  | b :: bs, s =>
    if s < m then
      match t[s]? with
      | some e => if e < lb then slotAt lb t m bs (e + bitNat b) else none
      | none => none
    else none

theorem slotAt_nil (lb : Nat) (t : Array Nat) (m s : Nat) : slotAt lb t m [] s = some s := rfl

theorem slotAt_cons_ptr (lb : Nat) (t : Array Nat) (m : Nat) (b : Bool) (bs : List Bool) (s e : Nat)
    (hs : s < m) (he : t[s]? = some e) (hlt : e < lb) :
    slotAt lb t m (b :: bs) s = slotAt lb t m bs (e + bitNat b) := by
  show (if s < m then
      match t[s]? with
      | some e => if e < lb then slotAt lb t m bs (e + bitNat b) else none
      | none => none
    else none) = _
  rw [if_pos hs, he]
  show (if e < lb then slotAt lb t m bs (e + bitNat b) else none) = _
  rw [if_pos hlt]

/-- inversion of a successful step -/
theorem slotAt_cons_some (lb : Nat) (t : Array Nat) (m : Nat) (b : Bool) (bs : List Bool) (s r : Nat)
    (h : slotAt lb t m (b :: bs) s = some r) :
    ∃ e, s < m ∧ t[s]? = some e ∧ e < lb ∧ slotAt lb t m bs (e + bitNat b) = some r := by
  have h' : (if s < m then
      match t[s]? with
      | some e => if e < lb then slotAt lb t m bs (e + bitNat b) else none
      | none => none
    else none) = some r := h
  by_cases hs : s < m
  · rw [if_pos hs] at h'
    cases he : t[s]? with
    | none => rw [he] at h'; cases h'
    | some e =>
      rw [he] at h'
      have h'' : (if e < lb then slotAt lb t m bs (e + bitNat b) else none) = some r := h'
      by_cases hlt : e < lb
      · rw [if_pos hlt] at h''; exact ⟨e, hs, rfl, hlt, h''⟩
      · rw [if_neg hlt] at h''; cases h''
  · rw [if_neg hs] at h'; cases h'

theorem slotAt_append (lb : Nat) (t : Array Nat) (m : Nat) (xs : List Bool) (b : Bool) (s r : Nat)
    (h : slotAt lb t m xs s = some r) :
    slotAt lb t m (xs ++ [b]) s = slotAt lb t m [b] r := by
  induction xs generalizing s with
  | nil => cases h; rfl
  | cons x xs ih =>
    obtain ⟨e, hs, he, hlt, hr⟩ := slotAt_cons_some lb t m x xs s r h
    rw [List.cons_append, slotAt_cons_ptr lb t m x _ s e hs he hlt]
    exact ih _ hr

theorem slotAt_frame (lb : Nat) (t t' : Array Nat) (m : Nat) (h : ∀ i, i < m → t[i]? = t'[i]?)
    (bits : List Bool) (s r : Nat) (hr : slotAt lb t' m bits s = some r) :
    slotAt lb t m bits s = some r := by
  induction bits generalizing s with
  | nil => exact hr
  | cons b bs ih =>
    obtain ⟨e, hs, he, hlt, hr'⟩ := slotAt_cons_some lb t' m b bs s r hr
    rw [slotAt_cons_ptr lb t m b _ s e hs (by rw [h s hs]; exact he) hlt]
    exact ih _ hr'

theorem slotAt_mono (lb : Nat) (t : Array Nat) (m m' : Nat) (hm : m ≤ m') (bits : List Bool) (s r : Nat)
    (h : slotAt lb t m bits s = some r) : slotAt lb t m' bits s = some r := by
  induction bits generalizing s with
  | nil => exact h
  | cons b bs ih =>
    obtain ⟨e, hs, he, hlt, hr'⟩ := slotAt_cons_some lb t m b bs s r h
    rw [slotAt_cons_ptr lb t m' b _ s e (by omega) he hlt]
    exact ih _ hr'

/-! ### `add_codes_with_length` -/

theorem addCodes_nil (lb c i : Nat) (b : Build) (rem : Bool) : addCodes lb c [] i b rem = (b, rem) := rfl

theorem addCodes_cons_eq (lb c : Nat) (ls : List Nat) (i : Nat) (b : Build) (rem : Bool) :
    addCodes lb c (c :: ls) i b rem =
      addCodes lb c ls (i + 1) ((readNext b).2.write (readNext b).1 (mkLeaf lb i)) rem := by
  show (if c = c then _ else _) = _
  rw [if_pos rfl]

theorem addCodes_cons_gt (lb c l : Nat) (ls : List Nat) (i : Nat) (b : Build) (rem : Bool)
    (h : l > c) : addCodes lb c (l :: ls) i b rem = addCodes lb c ls (i + 1) b true := by
  show (if l = c then _ else if l > c then _ else _) = _
  rw [if_neg (by omega), if_pos h]

theorem addCodes_cons_lt (lb c l : Nat) (ls : List Nat) (i : Nat) (b : Build) (rem : Bool)
    (h : l < c) : addCodes lb c (l :: ls) i b rem = addCodes lb c ls (i + 1) b rem := by
  show (if l = c then _ else if l > c then _ else _) = _
  rw [if_neg (by omega), if_neg (by omega)]

/-- the conclusion of `addCodes_spec` for a result state `r` -/
structure AddSpec (lb c : Nat) (ls : List Nat) (i : Nat) (b r : Build) : Prop where
  next : r.next = b.next + ls.count c
  alloc : r.alloc = b.alloc
  size : r.tree.size = b.tree.size
  tl : r.treeLen = b.treeLen
  oob : r.oob = b.oob
  leaf : ∀ k, k < ls.length → ls.getD k 0 = c →
    r.tree[b.next + (ls.take k).count c]? = some (i + k + lb)
  frame : ∀ s, (s < b.next ∨ b.next + ls.count c ≤ s) → r.tree[s]? = b.tree[s]?

theorem addCodes_spec (lb c : Nat) (ls : List Nat) (i : Nat) (b : Build) (rem : Bool)
    (hq : b.next + ls.count c ≤ b.alloc) (hsz : b.alloc ≤ b.tree.size) (hi : i + ls.length ≤ lb) :
    AddSpec lb c ls i b (addCodes lb c ls i b rem).1 := by
  induction ls generalizing i b rem with
  | nil =>
    rw [addCodes_nil]
    exact ⟨rfl, rfl, rfl, rfl, rfl, fun k hk => absurd hk (Nat.not_lt_zero k), fun s _ => rfl⟩
  | cons l ls ih =>
    have hlen : (l :: ls).length = ls.length + 1 := rfl
    rw [hlen] at hi
    by_cases hl : l = c
    · subst hl
      rw [addCodes_cons_eq]
      have hcnt : (l :: ls).count l = ls.count l + 1 := List.count_cons_self
      rw [hcnt] at hq
      have hnext : ¬ b.next ≥ b.alloc := by omega
      have hlt : b.next < b.tree.size := by omega
      have hrn : readNext b = (b.next, { b with next := b.next + 1 }) := by
        unfold readNext; rw [if_neg hnext]
      rw [hrn]
      have hml : mkLeaf lb i = i + lb := mkLeaf_small lb i (by omega)
      rw [hml]
      have hoob : (b.oob || decide (b.tree.size ≤ b.next)) = b.oob := by
        have : ¬ b.tree.size ≤ b.next := by omega
        rw [decide_eq_false this, Bool.or_false]
      have hw : ({ b with next := b.next + 1 } : Build).write b.next (i + lb) =
          { tree := b.tree.setIfInBounds b.next (i + lb), treeLen := b.treeLen, alloc := b.alloc,
            next := b.next + 1, oob := b.oob } := by
        show ({ tree := b.tree.setIfInBounds b.next (i + lb), treeLen := b.treeLen,
                alloc := b.alloc, next := b.next + 1,
                oob := b.oob || decide (b.tree.size ≤ b.next) } : Build) = _
        rw [hoob]
      rw [hw]
      have hsz' : (b.tree.setIfInBounds b.next (i + lb)).size = b.tree.size :=
        Array.size_setIfInBounds
      obtain ⟨g1, g2, g3, g4, g5, g6, g7⟩ := ih (i + 1)
        { tree := b.tree.setIfInBounds b.next (i + lb), treeLen := b.treeLen, alloc := b.alloc,
          next := b.next + 1, oob := b.oob } rem
        (by show b.next + 1 + ls.count l ≤ b.alloc; omega)
        (by show b.alloc ≤ (b.tree.setIfInBounds b.next (i + lb)).size; rw [hsz']; exact hsz)
        (by omega)
      refine ⟨?_, g2, g3.trans hsz', g4, g5, ?_, ?_⟩
      · rw [g1, hcnt]; show b.next + 1 + _ = _; omega
      · intro k hk hkc
        cases k with
        | zero =>
          have e0 : b.next + ((l :: ls).take 0).count l = b.next := rfl
          rw [e0, g7 b.next (Or.inl (by show b.next < b.next + 1; omega))]
          show (b.tree.setIfInBounds b.next (i + lb))[b.next]? = _
          rw [Array.getElem?_setIfInBounds, if_pos rfl, if_pos hlt]
          rfl
        | succ k =>
          have hk' : k < ls.length := by rw [hlen] at hk; omega
          have hkc' : ls.getD k 0 = l := by
            rw [List.getD_cons_succ] at hkc; exact hkc
          have h1 := g6 k hk' hkc'
          have e : b.next + ((l :: ls).take (k + 1)).count l = b.next + 1 + (ls.take k).count l := by
            rw [List.take_succ_cons, List.count_cons_self]; omega
          rw [e]
          have h1' : _ = some (i + 1 + k + lb) := h1
          rw [h1']
          congr 1; omega
      · intro s hs
        rw [hcnt] at hs
        have hne : ¬ b.next = s := by omega
        rw [g7 s (by show s < b.next + 1 ∨ b.next + 1 + ls.count l ≤ s; omega)]
        show (b.tree.setIfInBounds b.next (i + lb))[s]? = _
        rw [Array.getElem?_setIfInBounds, if_neg hne]
    · have hcnt : (l :: ls).count c = ls.count c := List.count_cons_of_ne hl
      rw [hcnt] at hq
      have fin : ∀ rem', AddSpec lb c (l :: ls) i b (addCodes lb c ls (i + 1) b rem').1 := by
        intro rem'
        obtain ⟨g1, g2, g3, g4, g5, g6, g7⟩ := ih (i + 1) b rem' hq hsz (by omega)
        refine ⟨by rw [g1, hcnt], g2, g3, g4, g5, ?_, ?_⟩
        · intro k hk hkc
          cases k with
          | zero => exact absurd hkc hl
          | succ k =>
            have hk' : k < ls.length := by rw [hlen] at hk; omega
            have hkc' : ls.getD k 0 = c := by
              rw [List.getD_cons_succ] at hkc; exact hkc
            have h1 := g6 k hk' hkc'
            have e : ((l :: ls).take (k + 1)).count c = (ls.take k).count c := by
              rw [List.take_succ_cons, List.count_cons_of_ne hl]
            rw [e, h1]; congr 1; omega
        · intro s hs; exact g7 s (by rw [hcnt] at hs; exact hs)
      by_cases h2 : l > c
      · rw [addCodes_cons_gt lb c l ls i b rem h2]; exact fin true
      · rw [addCodes_cons_lt lb c l ls i b rem (by omega)]; exact fin rem

theorem addCodes_rem (lb c : Nat) (ls : List Nat) (i : Nat) (b : Build) (rem : Bool) :
    (addCodes lb c ls i b rem).2 = (rem || ls.any (fun l => decide (l > c))) := by
  induction ls generalizing i b rem with
  | nil => rw [addCodes_nil]; simp
  | cons l ls ih =>
    by_cases h1 : l = c
    · subst h1
      rw [addCodes_cons_eq, ih]
      simp
    · by_cases h2 : l > c
      · rw [addCodes_cons_gt lb c l ls i b rem h2, ih]; simp [h2]
      · rw [addCodes_cons_lt lb c l ls i b rem (by omega), ih]; simp [h2]

end LhasaV.Tree
