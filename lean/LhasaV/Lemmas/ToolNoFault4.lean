import LhasaV.Lemmas.ToolNoFault3
import LhasaV.Driver.OpsList
/-!
# C08 at tool level, part 4: `lha p` and the listing commands

* `lha p`: `PrintVisits` / `ReadVisits` mirror `printArchiveLoop` / `printLoop`; `print_run_visits`:
  every `lha_reader_next_file` of the run returns normally and the reader state before and after
  every `next` and every 512-byte `lha_reader_read` comes from a legal history, keeps header
  ownership and hides no decoder fault.  `printE` is `Extract.print` with the fault path made
  observable (`.error`) instead of ending the output silently; `print_run_no_fault`:
  `printE archive o = .ok (Extract.print archive o)`.
* `lha l` / `lv` / `v` / `vv`: the model of the listing (`ListOut.render`) is a pure, total function
  of the header list; the walk that obtains the list is `Driver.allHeaders` (repeated
  `lha_reader_next_file` until it returns none), which can report a fault.  `list_headers_no_fault`:
  it never does, whatever the fuel.
* `lha t`: the model has no test-mode loop (`Reader.check` is only reachable through the reader
  histories of `Driver.OpsReader`), so nothing tool-level is stated; `Reader.history_no_fault`
  (ToolNoFault2) covers `next; check` repeated, as it covers every other history.
-/
set_option linter.unusedSimpArgs false
namespace LhasaV.ToolNoFault
open LhasaV LhasaV.Header LhasaV.Extract LhasaV.Reader

/-! ## `lha p` -/

theorem legalFrom_reads : ∀ seg : List Op, seg.all Op.isRead = true →
    legalFrom .fresh seg = true ∧ legalFrom .reading seg = true := by
  intro seg
  induction seg with
  | nil => intro _; exact ⟨rfl, rfl⟩
  | cons op seg ih =>
    intro h
    simp only [List.all_cons, Bool.and_eq_true] at h
    cases op <;> first
      | exact ⟨(ih h.2).2, (ih h.2).2⟩
      | (exact absurd h.1 (by simp [Op.isRead]))

/-- along `printLoop fuel s acc`: `P` before and after every `lha_reader_read` -/
def ReadVisits (P : Reader.St → Prop) : Nat → Reader.St → Prop
  | 0, s => P s
  | fuel+1, s =>
    P s ∧ (if (Reader.read s 512).1.isEmpty then P (Reader.read s 512).2
           else ReadVisits P fuel (Reader.read s 512).2)

theorem printLoop_visits (A : Array UInt8) : ∀ (fuel : Nat) (s : Reader.St) (acc : List UInt8)
    (seg : List Op), seg.all Op.isRead = true → HistSeg A seg s →
    ReadVisits (Ok A) fuel s ∧
      ∃ seg', seg'.all Op.isRead = true ∧ HistSeg A seg' (printLoop fuel s acc).2 := by
  intro fuel
  induction fuel with
  | zero => intro s acc seg hs h; exact ⟨(h.hist (legalFrom_reads seg hs).1).ok, seg, hs, h⟩
  | succ n ih =>
    intro s acc seg hs h
    have h1 : HistSeg A (seg ++ [.read 512]) (Reader.read s 512).2 := h.step (.read 512)
    have hs1 : (seg ++ [Op.read 512]).all Op.isRead = true := by
      simp only [List.all_append, hs, List.all_cons, List.all_nil, Op.isRead, Bool.and_self]
    rw [ReadVisits]
    unfold printLoop
    dsimp only
    split
    · exact ⟨⟨(h.hist (legalFrom_reads seg hs).1).ok, (h1.hist (legalFrom_reads _ hs1).1).ok⟩, _, hs1, h1⟩
    · obtain ⟨a, b⟩ := ih _ (acc ++ (Reader.read s 512).1) _ hs1 h1
      exact ⟨⟨(h.hist (legalFrom_reads seg hs).1).ok, a⟩, b⟩

/-- along `printArchiveLoop o fuel rd out`: no `lha_reader_next_file` returns `.error`; `P` holds of
the reader state at the top of every iteration, after every `next`, and around every read of the
members that are printed -/
def PrintVisits (P : Reader.St → Prop) (o : Opts) : Nat → Reader.St → Prop
  | 0, rd => P rd
  | fuel+1, rd =>
    P rd ∧
    match Reader.next rd with
    | .error _ => False
    | .ok (none, rd') => P rd'
    | .ok (some c, rd') =>
      P rd' ∧
      (if !Glob.matchesFilter o.filters c.h then PrintVisits P o fuel rd' else
       if c.h.method != "-lhd-".toUTF8.toList then
         ReadVisits P (c.h.length + 2) rd' ∧ PrintVisits P o fuel (printLoop (c.h.length + 2) rd' []).2
       else PrintVisits P o fuel rd')

theorem printArchiveLoop_visits (A : Array UInt8) (o : Opts) : ∀ (fuel : Nat) (rd : Reader.St),
    Hist A rd → PrintVisits (Ok A) o fuel rd := by
  intro fuel
  induction fuel with
  | zero => intro rd h; exact h.ok
  | succ n ih =>
    intro rd h
    rw [PrintVisits]
    refine ⟨h.ok, ?_⟩
    obtain ⟨r, hr⟩ := h.sound.next_ok
    obtain ⟨oc, rd'⟩ := r
    have hseg : HistSeg A [] rd' := h.next hr
    have hrd : Hist A rd' := hseg.hist rfl
    rw [hr]
    cases oc with
    | none => exact hrd.ok
    | some c =>
      simp only
      refine ⟨hrd.ok, ?_⟩
      split
      · exact ih _ hrd
      · split
        · obtain ⟨a, seg', hs', b⟩ := printLoop_visits A (c.h.length + 2) rd' [] [] rfl hseg
          exact ⟨a, ih _ (b.hist (legalFrom_reads seg' hs').1)⟩
        · exact ih _ hrd

/-- `printArchiveLoop` with the fault path observable: `.error w` where the model's loop ends the
output silently -/
def printArchiveLoopE (o : Opts) : Nat → Reader.St → List UInt8 → Except String (List UInt8)
  | 0, _, out => .ok out
  | fuel+1, rd, out =>
    match Reader.next rd with
    | .error w => .error w
    | .ok (none, _) => .ok out
    | .ok (some c, rd) =>
      if !Glob.matchesFilter o.filters c.h then printArchiveLoopE o fuel rd out else
      let h := c.h
      let isNormal := h.method != "-lhd-".toUTF8.toList
      let full := fileFullPath h o
      let banner : List UInt8 :=
        if o.quiet < 2 then
          match h.symlinkTarget with
          | some tg => Safe.safeOutput ("Symbolic Link ".toUTF8.toList ++ full ++ " -> ".toUTF8.toList ++ tg) ++ [0x0a]
          | none =>
            if isNormal then "::::::::\n".toUTF8.toList ++ Safe.safeOutput full ++ "\n::::::::\n".toUTF8.toList else []
        else []
      if isNormal then
        let r := printLoop (h.length + 2) rd []
        printArchiveLoopE o fuel r.2 (out ++ banner ++ r.1)
      else printArchiveLoopE o fuel rd (out ++ banner)

/-- `lha p` with the fault path observable -/
def printE (archive : Array UInt8) (o : Opts) : Except String (List UInt8) :=
  printArchiveLoopE o (2 * archive.size + 16) (toolReader archive) []

theorem printE_of_visits {P : Reader.St → Prop} (o : Opts) : ∀ (fuel : Nat) (rd : Reader.St)
    (out : List UInt8), PrintVisits P o fuel rd →
    printArchiveLoopE o fuel rd out = .ok (printArchiveLoop o fuel rd out) := by
  intro fuel
  induction fuel with
  | zero => intro rd out _; rfl
  | succ n ih =>
    intro rd out hv
    rw [PrintVisits] at hv
    have hv := hv.2
    rw [printArchiveLoopE, printArchiveLoop]
    cases hn : Reader.next rd with
    | error w => rw [hn] at hv; exact hv.elim
    | ok r =>
      obtain ⟨oc, rd'⟩ := r
      rw [hn] at hv
      cases oc with
      | none => rfl
      | some c =>
        simp only at hv ⊢
        have hv := hv.2
        by_cases hf : (!Glob.matchesFilter o.filters c.h) = true
        · rw [if_pos hf] at hv ⊢; rw [if_pos hf]; exact ih _ _ hv
        · rw [if_neg hf] at hv ⊢; rw [if_neg hf]
          by_cases hm : (c.h.method != "-lhd-".toUTF8.toList) = true
          · rw [if_pos hm] at hv
            simp only [hm, if_true]
            exact ih _ _ hv.2
          · rw [if_neg hm] at hv
            simp only [hm, if_false, Bool.false_eq_true]
            exact ih _ _ hv

/-- **C08, `lha p`, the whole run, exposed** (any archive bytes, any options and wildcard arguments) -/
theorem print_run_visits (archive : Array UInt8) (o : Opts) :
    PrintVisits (Ok archive) o (2 * archive.size + 16) (toolReader archive) :=
  printArchiveLoop_visits archive o _ _ (hist_init archive)

/-- **C08, `lha p`: no archive bytes make the run fault**: the loop never takes its fault exit, so
the fault-observing run returns normally, with the output of the model -/
theorem print_run_no_fault (archive : Array UInt8) (o : Opts) :
    printE archive o = .ok (Extract.print archive o) :=
  printE_of_visits o _ _ _ (print_run_visits archive o)

/-! ## `lha l`, `lha lv`, `lha v`, `lha vv` -/

/-- the walk that collects the headers for the listing never reports a fault, from any state of a
legal history, for any fuel and accumulator -/
theorem allHeaders_ok (A : Array UInt8) : ∀ (fuel : Nat) (s : Reader.St) (acc : List Hdr),
    Hist A s → ∃ hdrs, Driver.allHeaders fuel s acc = .ok hdrs := by
  intro fuel
  induction fuel with
  | zero => intro s acc _; exact ⟨_, rfl⟩
  | succ n ih =>
    intro s acc h
    obtain ⟨r, hr⟩ := h.sound.next_ok
    obtain ⟨oc, s'⟩ := r
    unfold Driver.allHeaders
    rw [hr]
    cases oc with
    | none => exact ⟨_, rfl⟩
    | some c => exact ih s' _ ((h.next hr).hist rfl)

/-- **C08, the listing commands**: obtaining the header list of ANY archive never faults (the
listing itself, `ListOut.render`, is a total function of that list, of the clock and of the
options: there is no fault value in its type) -/
theorem list_headers_no_fault (archive : Array UInt8) (fuel : Nat) :
    ∃ hdrs, Driver.allHeaders fuel (toolReader archive) [] = .ok hdrs :=
  allHeaders_ok archive fuel _ [] (hist_init archive)

end LhasaV.ToolNoFault
