import LhasaV.Model.Crc
import LhasaV.Spec.Crc
namespace LhasaV.Crc
open LhasaV.Spec.Crc

/-- The 256 table entries (from `Gen`) are the 8-fold bit step of their index. -/
theorem tbl_ok : ∀ x : BitVec 8, tbl x.toNat = bit8 (x.zeroExtend 16) := by decide +kernel

theorem bitStep_xor (x y : BitVec 16) : bitStep (x ^^^ y) = bitStep x ^^^ bitStep y := by
  unfold bitStep
  simp only [BitVec.getLsbD_xor]
  cases hx : x.getLsbD 0 <;> cases hy : y.getLsbD 0 <;> simp <;> ext i <;> simp <;> grind

theorem bit8_xor (x y : BitVec 16) : bit8 (x ^^^ y) = bit8 x ^^^ bit8 y := by
  simp only [bit8, bitStep_xor]

theorem bit8_hi : ∀ h : BitVec 8, bit8 (h.zeroExtend 16 <<< 8) = h.zeroExtend 16 := by
  decide +kernel

def hi (d : BitVec 16) : BitVec 8 := d.extractLsb' 8 8
def lo (d : BitVec 16) : BitVec 8 := d.extractLsb' 0 8

theorem split (d : BitVec 16) : d = ((hi d).zeroExtend 16 <<< 8) ^^^ (lo d).zeroExtend 16 := by
  unfold hi lo
  ext i hi
  simp
  by_cases h : i < 8
  · simp [h, BitVec.getLsbD_eq_getElem hi]
  · have h2 : 8 + (i - 8) = i := by omega
    simp [h, h2, BitVec.getLsbD_eq_getElem hi]; omega

theorem shr8 (d : BitVec 16) : d >>> 8 = (hi d).zeroExtend 16 := by
  unfold hi
  ext i hi
  simp
  intro h
  by_cases h8 : i < 8
  · exact h8
  · have : 16 ≤ 8 + i := by omega
    have := BitVec.getLsbD_of_ge d (8+i) this
    simp [this] at h

theorem lo_idx (d : BitVec 16) : (d &&& 0xff#16).toNat = (lo d).toNat := by
  unfold lo
  simp [BitVec.toNat_and, BitVec.extractLsb'_toNat]
  exact Nat.and_two_pow_sub_one_eq_mod d.toNat 8

theorem hi_xor_b (c : BitVec 16) (b : BitVec 8) : hi (c ^^^ b.zeroExtend 16) = hi c := by
  unfold hi; ext i h; simp

theorem step_eq_ref (c : BitVec 16) (b : BitVec 8) : step c b = refStep c b := by
  unfold step refStep
  rw [shr8 c, ← hi_xor_b c b]
  generalize c ^^^ b.zeroExtend 16 = d
  rw [lo_idx, tbl_ok]
  conv => rhs; rw [split d]
  rw [bit8_xor, bit8_hi]

end LhasaV.Crc
