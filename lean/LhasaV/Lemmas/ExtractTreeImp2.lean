import LhasaV.Lemmas.ExtractTreeImp1
/-!
# C06 with implicit parents (part 2): the file-system invariant; `make_parent_directories` under it

`FsInvI fs₀ done stk fs`: `FsInv` (ExtractTree8) plus the implicit directories — every done entry
at its place (an open directory entry in its provisional form), every OTHER proper prefix of a
done path a directory `impMode` / `now`, nothing else below the extraction directory, nothing
outside changed.  All directories that are neither the extraction directory nor a closed
directory entry carry the time `now`: stamping them again changes nothing.

`parents_made`: `make_parent_directories` for a new path succeeds; it finds the first `k`
directories (open directory entries or implicit ones, all usable) and creates the others
(`MadeFrom`).  `after_parents`: afterwards every directory above the path is usable and carries
`now`, the path itself is free.
-/
namespace LhasaV.ExtractTree
open LhasaV LhasaV.Header LhasaV.Extract LhasaV.GlobFs LhasaV.Contain

structure FsInvI (fs0 : Fs.St) (done : List Entry) (stk : List Fs.Path) (fs : Fs.St) : Prop where
  params : SameParams fs0 fs
  ents : ∀ e ∈ done, Fs.lookup fs (fs0.cwd ++ e.path) =
    some (if e.path ∈ stk then e.opened fs0.now fs0.umask else e.final fs0.now fs0.umask)
  imp : ∀ p, p ≠ [] → (∃ e ∈ done, p <+: e.path) → (∀ e ∈ done, e.path ≠ p) →
    Fs.lookup fs (fs0.cwd ++ p) = some (.dir (impMode fs0.umask) fs0.now)
  none : ∀ p, p ≠ [] → (∀ e ∈ done, ¬ p <+: e.path) → Fs.lookup fs (fs0.cwd ++ p) = none
  cwd : ∃ m t, Fs.lookup fs fs0.cwd = some (.dir m t) ∧
    (fs0.root = true ∨ (m / 64 % 2 = 1 ∧ m / 128 % 2 = 1)) ∧ (done ≠ [] → fs0.cwd ≠ [] → t = fs0.now) ∧
    ∃ t0, Fs.lookup fs0 fs0.cwd = some (.dir m t0)
  outside : ∀ x, ¬ fs0.cwd <+: x → Fs.lookup fs x = Fs.lookup fs0 x

/-- book-keeping about the entries done and the open directory entries (innermost first): an open
directory's explicit ancestors are open, and no open directory is above one that was opened
before it -/
structure DoneI (done stk : List Entry) : Prop where
  ok : ∀ e ∈ done, EntryOk e
  nodup : (done.map Entry.path).Nodup
  sub : ∀ d ∈ stk, d ∈ done ∧ d.isDir = true
  anc : ∀ d ∈ stk, ∀ a ∈ done, a.path <+: d.path → a.path ∈ stk.map Entry.path
  sorder : (stk.map Entry.path).Pairwise (fun a b => ¬ a <+: b)

/-- a directory the user may search and write; below the extraction directory it carries `now` -/
def UsableDir (fs0 fs : Fs.St) (p : Fs.Path) : Prop :=
  ∃ m t, Fs.lookup fs (fs0.cwd ++ p) = some (.dir m t) ∧
    (fs0.root = true ∨ (m / 64 % 2 = 1 ∧ m / 128 % 2 = 1)) ∧ (p ≠ [] → t = fs0.now)

theorem accessW_bits {fs0 : Fs.St} (ha : AccessW fs0) :
    fs0.root = true ∨ (impMode fs0.umask / 64 % 2 = 1 ∧ impMode fs0.umask / 128 % 2 = 1) := by
  rcases ha with h | h
  · exact Or.inl h
  · exact Or.inr h.2

/-- **what exists above a path is usable**: a proper prefix of `path` that is `[]` or a prefix of
a done path is the extraction directory, an open directory entry or an implicit directory -/
theorem usable_of_inv {fs0 fs : Fs.St} {done stk : List Entry}
    (hi : FsInvI fs0 done (stk.map Entry.path) fs) (hd : DoneI done stk) (ha : AccessW fs0)
    (path : Fs.Path)
    (hanc : ∀ a ∈ done, a.path <+: path → a.path ≠ path → a.path ∈ stk.map Entry.path)
    (pre : Fs.Path) (hp : pre <+: path) (hne : pre ≠ path)
    (hex : pre = [] ∨ ∃ e ∈ done, pre <+: e.path) : UsableDir fs0 fs pre := by
  by_cases h0 : pre = []
  · subst h0
    obtain ⟨m, t, hl, hacc, _⟩ := hi.cwd
    exact ⟨m, t, by simpa using hl, hacc, fun h => absurd rfl h⟩
  · have hex' : ∃ e ∈ done, pre <+: e.path := by
      rcases hex with h | h
      · exact absurd h h0
      · exact h
    by_cases hent : ∃ a ∈ done, a.path = pre
    · obtain ⟨a, had, hap⟩ := hent
      have hm : a.path ∈ stk.map Entry.path := hanc a had (hap ▸ hp) (hap ▸ hne)
      obtain ⟨d, hds, hdp⟩ := List.mem_map.1 hm
      obtain ⟨hdd, hdir⟩ := hd.sub d hds
      have had' : a = d := eq_of_path_eq done hd.nodup a had d hdd hdp.symm
      subst had'
      have hl := hi.ents a had
      rw [if_pos hm] at hl
      obtain ⟨b, hb, ho⟩ := opened_dir a hdir fs0.now fs0.umask
      rw [ho, hap] at hl
      refine ⟨_, _, hl, ?_, fun _ => rfl⟩
      rcases ha with h | h
      · exact Or.inl h
      · exact Or.inr (h.1 b hb)
    · have hl := hi.imp pre h0 hex' (fun e he h => hent ⟨e, he, h⟩)
      exact ⟨_, _, hl, accessW_bits ha, fun _ => rfl⟩

theorem UsableDir.search {fs0 fs : Fs.St} {p : Fs.Path} (h : UsableDir fs0 fs p) (hp : SameParams fs0 fs) :
    ∃ m t, Fs.lookup fs (fs.cwd ++ p) = some (.dir m t) ∧ (fs.root = true ∨ m / 64 % 2 = 1) := by
  obtain ⟨m, t, hl, hacc, _⟩ := h
  refine ⟨m, t, by rw [hp.cwd]; exact hl, ?_⟩
  rw [hp.root]
  rcases hacc with h | h
  · exact Or.inl h
  · exact Or.inr h.1

theorem UsableDir.modify {fs0 fs : Fs.St} {p : Fs.Path} (h : UsableDir fs0 fs p) (hp : SameParams fs0 fs) :
    Fs.canModify fs (fs.cwd ++ p) = true := by
  obtain ⟨m, t, hl, hacc, _⟩ := h
  exact canModify_of_dir fs _ m t (by rw [hp.cwd]; exact hl) (by rw [hp.root]; exact hacc)

theorem accessW_params {fs0 fs : Fs.St} (hp : SameParams fs0 fs) (ha : AccessW fs0) : AccessW fs := by
  unfold AccessW; rw [hp.root, hp.umask]; exact ha

theorem dropLast_prefix_ne {α} (path pre : List α) (hne : path ≠ []) (hp : pre <+: path.dropLast) :
    pre <+: path ∧ pre ≠ path := by
  refine ⟨hp.trans (List.dropLast_prefix _), ?_⟩
  intro e
  have h1 := hp.length_le
  rw [e, List.length_dropLast] at h1
  have : 0 < path.length := List.length_pos_iff.2 hne
  omega

/-- what `make_parent_directories` does for a new path -/
structure ParentsMade (fs0 fs fsY : Fs.St) (par : List Bytes) (k : Nat) : Prop where
  run : mkDirs par [] fs = (true, fsY)
  made : MadeFrom fs fsY (par.take k) (par.drop k)
  usable : ∀ pre, pre <+: par.take k → UsableDir fs0 fs pre
  missing : ∀ q, q ≠ [] → q <+: par.drop k → Fs.lookup fs (fs0.cwd ++ (par.take k ++ q)) = none

/-- **`make_parent_directories` under the invariant** -/
theorem parents_made {fs0 fs : Fs.St} {done stk : List Entry}
    (hi : FsInvI fs0 done (stk.map Entry.path) fs) (hd : DoneI done stk) (ha : AccessW fs0)
    (path : Fs.Path) (hne : path ≠ []) (hn : ∀ c ∈ path, Name c) (hlen : path.length < 64)
    (hanc : ∀ a ∈ done, a.path <+: path → a.path ≠ path → a.path ∈ stk.map Entry.path) :
    ∃ fsY k, ParentsMade fs0 fs fsY path.dropLast k := by
  have hdc : ∀ p q : List Bytes, p <+: q → (q = [] ∨ ∃ e ∈ done, q <+: e.path) →
      (p = [] ∨ ∃ e ∈ done, p <+: e.path) := by
    intro p q hpq hq
    rcases hq with rfl | ⟨e, he, hqe⟩
    · exact Or.inl (List.prefix_nil.1 hpq)
    · exact Or.inr ⟨e, he, hpq.trans hqe⟩
  obtain ⟨k, _, hQ, hno⟩ := split_exist (fun p => p = [] ∨ ∃ e ∈ done, p <+: e.path) hdc
    path.dropLast [] (Or.inl rfl)
  simp only [List.nil_append] at hQ hno
  have hsplit : path.dropLast.take k ++ path.dropLast.drop k = path.dropLast := List.take_append_drop k _
  have hp := hi.params
  have hus : ∀ pre, pre <+: path.dropLast.take k → UsableDir fs0 fs pre := by
    intro pre hpre
    obtain ⟨h1, h2⟩ := dropLast_prefix_ne path pre hne (hpre.trans (List.take_prefix _ _))
    exact usable_of_inv hi hd ha path hanc pre h1 h2 (hdc _ _ hpre hQ)
  have hmiss : ∀ q, q ≠ [] → q <+: path.dropLast.drop k →
      Fs.lookup fs (fs0.cwd ++ (path.dropLast.take k ++ q)) = none := by
    intro q hq hqb
    apply hi.none _ (by simp [hq])
    intro e he hpe
    exact hno q hq hqb (Or.inr ⟨e, he, hpe⟩)
  have hnames : ∀ x ∈ path.dropLast.take k ++ path.dropLast.drop k, Name x := by
    rw [hsplit]; exact fun x hx => hn x (List.dropLast_subset _ hx)
  have hl64 : (path.dropLast.take k ++ path.dropLast.drop k).length < 64 := by
    rw [hsplit, List.length_dropLast]; omega
  have hwalk : WalkIn fs (path.dropLast.take k) := fun pre hpre => (hus pre hpre).search hp
  have h1 : mkDirs (path.dropLast.take k) [] fs = (true, fs) :=
    mkDirs_exist (path.dropLast.take k) [] fs
      (fun x hx => hnames x (List.mem_append_left _ (by simpa using hx)))
      (by simp only [List.length_append, List.nil_append] at hl64 ⊢; omega) (by simpa using hwalk)
  obtain ⟨fsY, h2, hmade⟩ := mkDirs_make (path.dropLast.drop k) (path.dropLast.take k) fs
    (accessW_params hp ha) hnames hl64 hwalk ((hus _ (List.prefix_refl _)).modify hp)
    (fun q hq hqb => by rw [hp.cwd, List.append_assoc]; exact hmiss q hq hqb)
  refine ⟨fsY, k, ?_, hmade, hus, hmiss⟩
  conv => lhs; rw [← hsplit]
  rw [mkDirs_append, h1]
  simpa using h2

/-- **after `make_parent_directories`**: every directory above the new path is usable and carries
`now`; what existed is as before, what was missing is a directory `impMode` / `now` -/
theorem after_parents {fs0 fs fsY : Fs.St} {par : List Bytes} {k : Nat}
    (hp : SameParams fs0 fs) (ha : AccessW fs0) (h : ParentsMade fs0 fs fsY par k) :
    (∀ pre, pre <+: par → UsableDir fs0 fsY pre) ∧
    (∀ pre, pre ≠ [] → pre <+: par.take k → Fs.lookup fsY (fs0.cwd ++ pre) = Fs.lookup fs (fs0.cwd ++ pre)) ∧
    (∀ q, q ≠ [] → q <+: par.drop k →
      Fs.lookup fsY (fs0.cwd ++ (par.take k ++ q)) = some (.dir (impMode fs0.umask) fs0.now)) ∧
    (∀ x, (∀ q, q <+: par → x ≠ fs0.cwd ++ q) → Fs.lookup fsY x = Fs.lookup fs x) := by
  have hsplit : par.take k ++ par.drop k = par := List.take_append_drop k _
  have hnow : par.take k ≠ [] → ∃ m, Fs.lookup fs (fs.cwd ++ par.take k) = some (.dir m fs.now) := by
    intro h0
    obtain ⟨m, t, hl, _, ht⟩ := h.usable _ (List.prefix_refl _)
    exact ⟨m, by rw [hp.cwd, hp.now, hl, ht h0]⟩
  obtain ⟨l1, l2, l3⟩ := h.made.lookups hnow
  rw [hp.cwd, hsplit] at l1
  rw [hp.cwd] at l2
  rw [hp.cwd, hp.umask, hp.now] at l3
  refine ⟨?_, fun pre h0 hpre => l2 pre hpre h0, l3, l1⟩
  intro pre hpre
  rcases prefix_split (hsplit ▸ hpre) with h1 | ⟨q, hq, hqb, rfl⟩
  · by_cases h0 : pre = []
    · subst h0
      obtain ⟨m, t, hl, hacc, _⟩ := h.usable [] List.nil_prefix
      obtain ⟨t', hl', _⟩ := h.made.cwd_dir m t (by rw [hp.cwd]; simpa using hl)
      rw [hp.cwd] at hl'
      exact ⟨m, t', by simpa using hl', hacc, fun h' => absurd rfl h'⟩
    · obtain ⟨m, t, hl, hacc, ht⟩ := h.usable pre h1
      exact ⟨m, t, by rw [l2 pre h1 h0]; exact hl, hacc, ht⟩
  · exact ⟨_, _, l3 q hq hqb, accessW_bits ha, fun _ => rfl⟩

end LhasaV.ExtractTree
