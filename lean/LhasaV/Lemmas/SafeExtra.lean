import LhasaV.Model.Ring
import LhasaV.Lemmas.Safe
import LhasaV.Lemmas.BitsWf
/-!
Pieces shared by the memory-safety proofs of the small and the PMarc decoders (property C09)
that are not in `Safe` / `BitsWf`: the ring copy loop, and the generic statement
"after `n` successful reads the next read is not a fault".
-/
namespace LhasaV
open LhasaV.Res

namespace Ring

/-- the history copy loop stays inside a ring of `rs` bytes and yields exactly `n` bytes -/
theorem copyLoop_safe (rs : Nat) (n src : Nat) (ring : Array UInt8) (pos : Nat) (acc : List UInt8)
    (hsz : ring.size = rs) (hpos : pos < rs) :
    Safe (copyLoop rs n src ring pos acc)
      (fun r => r.1.size = rs ∧ r.2.1 < rs ∧ r.2.2.length = acc.length + n) := by
  induction n generalizing src ring pos acc with
  | zero => exact safe_ok ⟨hsz, hpos, rfl⟩
  | succ n ih =>
    unfold copyLoop
    have hlt : src % rs < ring.size := by rw [hsz]; exact Nat.mod_lt _ (by omega)
    have hget : ring[src % rs]? = some ring[src % rs] := by simp [hlt]
    rw [hget]
    simp only
    have hp : pos < ring.size := by omega
    simp only [hp, if_true]
    refine safe_mono (ih (src + 1) _ ((pos + 1) % rs) (ring[src % rs] :: acc) (by simpa using hsz)
      (Nat.mod_lt _ (by omega))) ?_
    intro r hr
    refine ⟨hr.1, hr.2.1, ?_⟩
    rw [hr.2.2]; simp; omega

end Ring

/-! ## the generic statement "after `n` successful reads the next read is not a fault" -/

/-- `s` is the state after `n` successful calls of `D.read`, starting from `D.init src` -/
def Dec.Reach (D : Dec) (src : Src) : Nat → D.σ → Prop
  | 0, s => s = D.init src
  | n+1, s => ∃ s0 out, Dec.Reach D src n s0 ∧ D.read s0 = .ok (out, s)

theorem Dec.reach_inv (D : Dec) (Inv : D.σ → Prop) (hinit : ∀ src, Inv (D.init src))
    (hstep : ∀ s, Inv s → ∀ out s', D.read s = .ok (out, s') → Inv s')
    (src : Src) (n : Nat) (s : D.σ) (h : Dec.Reach D src n s) : Inv s := by
  induction n generalizing s with
  | zero => cases h; exact hinit src
  | succ n ih =>
    obtain ⟨s0, out, h0, hr⟩ := h
    exact hstep s0 (ih s0 h0) out s hr

end LhasaV
