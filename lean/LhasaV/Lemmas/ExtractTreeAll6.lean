import LhasaV.Lemmas.ExtractTreeAll5
/-!
# C06, all deviations together (part 6): the extraction loop

`loop_final_u`: from the invariant to the end of the run, which is what the INDEPENDENT
specification says: the written entries are `plan` (ExtractTreeOw3: the overwrite policy) of
`keptOf` (ExtractTreeImp1: late directory entries dropped) of the SELECTED entries to come; the
run is aborted exactly when the plan is.  Five ways to go on: close the innermost open directory
entry; pass over an entry that is not selected; ignore a late directory entry; write an entry
(free place, or "yes"); keep an old file ("no"); and the end of input at a prompt.
-/
namespace LhasaV.ExtractTree
open LhasaV LhasaV.Header LhasaV.Extract LhasaV.GlobFs LhasaV.Contain
open Reader

/-- the end of the run: the written entries `all` in their final form, no directory entry open;
`ab`: the run ended at a prompt (`exit(-1)`) -/
structure FinalU (fs0 : Fs.St) (ds : List Bytes) (all : List Entry) (ab : Bool) (s : Extract.St) : Prop where
  aborted : s.aborted = ab
  result : s.result = !ab
  fs : FsPhU fs0 ds all [] s.fs

/-- the policy asks about an entry exactly when a regular file stands at its place -/
theorem asks_iff {fs0 : Fs.St} {ds : List Bytes} {e : Entry} (hk : EntryOk e) (h : PreAtU fs0 ds e) :
    asks (exB fs0 ds) e = isFileOpt (oldB fs0 ds e.path) := by
  rcases h with h | ⟨hf, _, ho⟩
  · have hn := free_of_take h e.path hk.ne (List.prefix_refl _)
    rw [hn]
    cases e with
    | file p d pm t =>
      have : oldB fs0 ds p = none := hn
      simp [asks, exB, this, isFileOpt]
    | dir _ _ _ => rfl
    | link _ _ => rfl
  · rw [ho]
    obtain ⟨p, d, pm, t, rfl⟩ := (isFile_iff e).1 hf
    obtain ⟨d0, m0, t0, h0⟩ := (isFileOpt_iff _).1 ho
    have : oldB fs0 ds p = some (.file d0 m0 t0) := h0
    simp [asks, exB, this]

theorem stk_nil_of_topI {stk done : List Entry} {e : Entry} (hok : DoneI done stk)
    (hin : ∀ d tl, stk = d :: tl → d.path <+: e.dirPart) (htop : e.dirPart = []) : stk = [] := by
  cases stk with
  | nil => rfl
  | cons d tl =>
    have := hin d tl rfl
    rw [htop] at this
    have hne := (hok.ok d (hok.sub d (by simp)).1).ne
    exact absurd (List.prefix_nil.1 this) hne

/-- **the loop**: from the invariant to the state the specification describes -/
theorem loop_final_u (fs0 : Fs.St) (ds : List Bytes) (sel : Entry → Bool) (hb : BaseRefU fs0 ds) :
    ∀ (fuel : Nat) (s : Extract.St) (done stk rest : List Entry) (seen : List Fs.Path)
      (pol : Overwrite) (ls : List Bytes),
      2 * rest.length + stk.length + 1 ≤ fuel → LoopInvU fs0 ds sel done stk seen rest pol ls s →
      DenotesF fuel s rest →
      FinalU fs0 ds (done ++ (plan (exB fs0 ds) pol ls (keptOf seen (rest.filter sel))).1)
        (plan (exB fs0 ds) pol ls (keptOf seen (rest.filter sel))).2 (extractLoop fuel s) := by
  intro fuel
  induction fuel with
  | zero => intro s done stk rest seen pol ls hf; omega
  | succ n ih =>
    intro s done stk rest seen pol ls hf hi hden
    obtain ⟨oc, rd', hn, hpend, hcont⟩ := hden hi.core.aborted
    rw [extractLoop_step_g n s oc rd' hi.core.aborted hn]
    have hne : s.rd.currType ≠ .eof := by
      rcases hi.rd.ty with h | h | h <;> rw [h] <;> simp
    obtain ⟨u, hrd', hoc, hupol, hudef, hustk, hubc⟩ := next_pol hn hne
    rw [hi.rd.policy] at hupol
    rw [hi.rd.deferred] at hudef
    have hbasic : rd'.basic = u.basic := by rw [hrd']; exact tail_basic u
    have hp : Pending u.basic.curr rest := by
      by_cases ht : s.rd.currType = .start ∨ s.rd.currType = .normal
      · rw [← hbasic]; exact hpend ht
      · rw [hubc ht]
        apply hi.rd.pending
        rcases hi.rd.ty with h | h | h
        · exact absurd (Or.inl h) ht
        · exact absurd (Or.inr h) ht
        · exact h
    have hmatch : ∀ (e : Entry) (c : HObj), HdrOf e c.h →
        Glob.matchesFilter s.opts.filters c.h = sel e := by
      intro e c hh
      rw [matches_of hh, hi.core.filt]
    -- closing the innermost open directory (it was written, so it is selected: the re-presented
    -- header passes the filter test again)
    have go_close : ∀ (d : Entry) (stk' : List Entry) (top : HObj) (rs : List HObj),
        stk = d :: stk' → u.dirStack = top :: rs → HdrOf d top.h → StackRel rs stk' → sel d = true →
        endOfTopDir u = true → (∀ e tl, rest = e :: tl → ¬ d.path <+: e.dirPart) →
        FinalU fs0 ds (done ++ (plan (exB fs0 ds) pol ls (keptOf seen (rest.filter sel))).1)
          (plan (exB fs0 ds) pol ls (keptOf seen (rest.filter sel))).2 (loopContG n s oc rd') := by
      intro d stk' top rs hs hds hh hsr hseld he hout
      subst hs
      have hR := pop_fake u top rs hds he
      rw [← hrd'] at hR
      have hoc' : oc = some top := by rw [hoc, hR]
      subst hoc'
      have hbody : bodyF s rd' top.h = extractArchivedFile { s with rd := rd' } top.h := by
        unfold bodyF; rw [hmatch d top hh, hseld]; rfl
      show FinalU fs0 ds _ _ (extractLoop n (bodyF s rd' top.h))
      have hstep := step_close_u { s with rd := rd' } top (hi.core.with_rd rd') hb
        (by rw [hR]; exact hupol) (by rw [hR]; exact hudef) (by rw [hR]) (by rw [hR])
        hh (by rw [hR]; exact hsr) (by rw [hbasic]; exact hp)
        hout
      have hd2 := (hcont top rfl).2
      rw [show rd'.currType = .fakeDir by rw [hR]] at hd2
      simp only [reduceCtorEq, if_false] at hd2
      rw [hbody] at hd2 ⊢
      exact ih _ done stk' rest seen pol ls (by simp at hf; omega) hstep hd2
    -- a stream entry is presented
    have go_new : ∀ (e : Entry) (tl : List Entry) (inp : HObj),
        rest = e :: tl → u.basic.curr = some inp → HdrOf e inp.h →
        endOfTopDir u = false → (∀ d tl', stk = d :: tl' → d.path <+: e.dirPart) →
        FinalU fs0 ds (done ++ (plan (exB fs0 ds) pol ls (keptOf seen (rest.filter sel))).1)
          (plan (exB fs0 ds) pol ls (keptOf seen (rest.filter sel))).2 (loopContG n s oc rd') := by
      intro e tl inp hr hbc hh he hin
      subst hr
      have hR := pop_normal u he inp hbc
      rw [← hrd'] at hR
      have hoc' : oc = some inp := by rw [hoc, hR]
      subst hoc'
      show FinalU fs0 ds _ _ (extractLoop n (bodyF s rd' inp.h))
      have hty' : rd'.currType = .normal := by rw [hR]
      obtain ⟨hdec, hd2⟩ := hcont inp rfl
      rw [hty'] at hd2
      simp only [if_true, List.tail_cons] at hd2
      have hpol1 : rd'.policy = .endOfDir := by rw [hR]; exact hupol
      have hdef1 : rd'.deferred = [] := by rw [hR]; exact hudef
      have hstk1 : StackRel rd'.dirStack stk := by
        rw [hR]; show StackRel u.dirStack stk; rw [hustk]; exact hi.rd.stack
      have hcur1 : rd'.curr = some inp := by rw [hR]
      have hpop : popStk (stk.map Entry.path) e.dirPart = stk.map Entry.path := by
        cases stk with
        | nil => rfl
        | cons d tl' => exact popStk_in _ _ _ (hin d tl' rfl)
      have hf' : 2 * tl.length + stk.length + 2 ≤ n := by
        simp only [List.length_cons] at hf; omega
      have hi1 := hi.core.with_rd rd'
      cases hse : sel e with
      | false =>
        -- passed over
        have hbody : bodyF s rd' inp.h = { s with rd := rd' } := by
          unfold bodyF; rw [hmatch e inp hh, hse]; rfl
        rw [hbody] at hd2 ⊢
        have hwf := hi.core.wf
        simp only [WFU, hse, Bool.false_eq_true, if_false, hpop] at hwf
        have hinv : LoopInvU fs0 ds sel done stk seen tl pol ls { s with rd := rd' } := by
          refine ⟨⟨hi.core.aborted, hi.core.result, hi.core.opts, hi.core.filt, hi.core.policy,
            fun h => hi.core.ans h.cons, hi.core.fs, hi.core.ok, hi.core.sub, hi.core.seld, hi.core.kept, hwf.2,
            fun x hx => hi.core.pre x (List.mem_cons_of_mem _ hx), fun x hx => hi.core.depth x ?_⟩, ?_⟩
          · rcases List.mem_append.1 hx with h | h
            · exact List.mem_append_left _ h
            · exact List.mem_append_right _ (List.mem_cons_of_mem _ h)
          · show RdInv rd' stk tl
            rw [hR]
            exact ⟨hupol, hudef, by show StackRel u.dirStack stk; rw [hustk]; exact hi.rd.stack,
              Or.inr (Or.inl rfl), fun h => by cases h⟩
        have := ih _ done stk tl seen pol ls (by omega) hinv hd2
        simpa [hse] using this
      | true =>
        have hbody : bodyF s rd' inp.h = extractArchivedFile { s with rd := rd' } inp.h := by
          unfold bodyF; rw [hmatch e inp hh, hse]; rfl
        rw [hbody] at hd2 ⊢
        have hfil : (e :: tl).filter sel = e :: tl.filter sel := by simp [hse]
        rw [hfil]
        cases hlate : lateDir seen e with
        | true =>
          have hstep := step_late_u { s with rd := rd' } inp hi1 hb hse hlate hpol1 hdef1 hstk1
            hty' hcur1 hh hin
          have := ih _ done stk tl seen pol ls (by omega) hstep hd2
          simpa [keptOf, hlate] using this
        | false =>
          have hko : keptOf seen (e :: tl.filter sel) = e :: keptOf (seen ++ [e.path]) (tl.filter sel) := by
            simp [keptOf, hlate]
          rw [hko]
          have hwf := hi.core.wf
          simp only [WFU, hse, if_true, hpop, hlate, Bool.false_eq_true, if_false] at hwf
          obtain ⟨hk, hopenP, hfreshP, _⟩ := hwf
          have hfresh : ∀ a ∈ done, ¬ e.path <+: a.path :=
            fun a had => hfreshP _ (hi.core.sub a had)
          have hopen : ∀ a ∈ done, a.path <+: e.path → a.path ∈ stk.map Entry.path :=
            fun a had h => hopenP _ (hi.core.sub a had) h
          obtain ⟨fsX, fsY, k, hX, hwX, hpm, hpar, hlook, hkind, hsameX⟩ :=
            entry_facts_u hi1 hb hse hk hopen hfresh
          have hfn : fileFullPath inp.h s.opts = fullOf (e.reloc ds) :=
            fullPath_rel hh hk s.opts ds hi.core.opts
          have hdec1 : ∀ p data perms mtime, e = .file p data perms mtime →
              (Reader.openDecoder rd').1 = true ∧ (Reader.extract rd' true).1 = (true, data) :=
            fun p data perms mtime hfile => hdec hty' p data perms mtime tl (by rw [hfile])
          have hpre := hi.core.pre e (by simp) hse
          have hasks := asks_iff hk hpre
          cases hfo : isFileOpt (oldB fs0 ds e.path) with
          | false =>
            -- a free place: written without asking
            rw [hfo] at hkind hasks
            simp only [Bool.false_eq_true, if_false] at hkind
            have hpass : preOf { s with rd := rd' } inp.h = some (false, { s with rd := rd' }) :=
              preOf_pass _ inp.h (Or.inr (by
                show Fs.existsKind s.fs (fileFullPath inp.h s.opts) = .none
                rw [hfn]; exact hkind))
            have hrun : extractArchivedFile { s with rd := rd' } inp.h =
                wroteU { s with rd := rd' } fsY (fullOf (e.reloc ds)) := by
              rw [eaf_wroteU _ _ inp.h fsY hpass hi.core.opts.up
                (by show parentsOf { s with rd := rd' } (fileFullPath inp.h s.opts) = (true, fsY)
                    unfold parentsOf; simp only [hty']; rw [hfn]; exact hpar)]
              show wroteU _ _ (fileFullPath inp.h s.opts) = _
              rw [hfn]
            rw [hrun] at hd2 ⊢
            have hstep := step_write_u { s with rd := rd' } inp fsX fsY k hi1 hb hse hlate hX hwX hpm
              hlook hpol1 hdef1 hstk1 hty' hcur1 hh hin hdec1
            have := ih _ (done ++ [e]) _ tl _ pol ls (by
              cases e.isDir <;> simp <;> omega) hstep hd2
            rw [plan_cons_free _ _ _ _ _ hasks]
            simpa using this
          | true =>
            -- an old file is in the way: the policy decides
            rw [hfo] at hkind hasks
            simp only [if_true] at hkind
            have h1 : e.path.length = 1 ∧ e.isFile = true := by
              rcases hpre with h | ⟨h2, h1, _⟩
              · rw [free_of_take h e.path hk.ne (List.prefix_refl _)] at hfo; cases hfo
              · exact ⟨h1, h2⟩
            obtain ⟨p, data, perms, mtime, rfl⟩ := (isFile_iff e).1 h1.2
            have hmeth : inp.h.method ≠ lhd := hh.2.2.1
            have hsym : inp.h.symlinkTarget = none := hh.2.2.2.1
            have hex : Fs.existsKind s.fs (fileFullPath inp.h s.opts) = .file := by
              rw [hfn]; exact hkind
            have hpo := preOf_exists { s with rd := rd' } inp.h hmeth hsym hex
            have htop : (Entry.file p data perms mtime).dirPart = [] := by
              show p.dropLast = []
              apply List.eq_nil_of_length_eq_zero
              rw [List.length_dropLast]; have := h1.1; simp only [Entry.path] at this; omega
            have hs0 : stk = [] := stk_nil_of_topI hi.core.ok hin htop
            obtain ⟨c1, c2⟩ := confirm_follows_spec pol s.answers ls (hi.core.ans ⟨_, by simp, hse, hfo⟩)
            rw [show ({ s with rd := rd' } : Extract.St).opts.overwrite = pol from hi.core.policy] at hpo
            cases hask : askOne pol ls with
            | none =>
              rw [show ({ s with rd := rd' } : Extract.St).answers = s.answers from rfl, c1 hask] at hpo
              rw [eaf_abort _ _ hpo, extractLoop_aborted _ _ rfl, plan_cons_eof _ _ _ _ _ hasks hask]
              refine ⟨rfl, rfl, ?_⟩
              have := hi.core.fs
              rw [hs0] at this
              simpa using this
            | some r =>
              obtain ⟨w, pol', ls'⟩ := r
              obtain ⟨a', hc, hans⟩ := c2 w pol' ls' hask
              rw [show ({ s with rd := rd' } : Extract.St).answers = s.answers from rfl, hc] at hpo
              rw [plan_cons_asked _ _ _ _ _ hasks w pol' ls' hask]
              have hi2 := hi1.answered pol' a' ls' hans
              cases w with
              | true =>
                have hrun : extractArchivedFile { s with rd := rd' } inp.h =
                    wroteU (answered { s with rd := rd' } pol' a') fsY
                      (fullOf ((Entry.file p data perms mtime).reloc ds)) := by
                  rw [eaf_wroteU _ _ inp.h fsY hpo hi.core.opts.up
                    (by show parentsOf (answered { s with rd := rd' } pol' a') (fileFullPath inp.h s.opts) =
                          (true, fsY)
                        unfold parentsOf answered; simp only [hty']; rw [hfn]; exact hpar)]
                  show wroteU _ _ (fileFullPath inp.h s.opts) = _
                  rw [hfn]
                rw [hrun] at hd2 ⊢
                have hstep := step_write_u (answered { s with rd := rd' } pol' a') inp fsX fsY k hi2 hb
                  hse hlate hX hwX hpm hlook hpol1 hdef1 hstk1 hty' hcur1 hh hin hdec1
                have := ih _ (done ++ [.file p data perms mtime]) _ tl _ pol' ls' (by
                  show 2 * tl.length + stk.length + 1 ≤ n
                  omega) hstep hd2
                simpa using this
              | false =>
                rw [eaf_kept _ _ inp.h hpo] at hd2 ⊢
                have hstep := step_keep_u (answered { s with rd := rd' } pol' a') hi2 hse hlate
                  hpol1 hdef1 hstk1 hty' hin rfl h1.1 hfo
                have := ih _ done _ tl _ pol' ls' (by omega) hstep hd2
                simpa using this
    -- which one it is
    cases hstk : stk with
    | cons d stk' =>
      have hsr := hi.rd.stack
      rw [hstk] at hsr
      obtain ⟨top, rs, hds, hh, hsr'⟩ := stackRel_cons hsr
      rw [← hustk] at hds
      obtain ⟨hdd, hdir⟩ := hi.core.ok.sub d (by rw [hstk]; simp)
      have hkd : EntryOk d := hi.core.ok.ok d hdd
      have hseld : sel d = true := hi.core.seld d hdd
      cases hrest : rest with
      | nil =>
        rw [hrest] at hp
        exact hrest ▸ go_close d stk' top rs hstk hds hh hsr' hseld (endOfTopDir_none u top rs hds hp)
          (fun e tl h => by rw [hrest] at h; cases h)
      | cons e tl =>
        rw [hrest] at hp
        obtain ⟨inp, hbc, hhe⟩ := hp
        have hke : EntryOk e := by
          have := hi.core.wf
          rw [hrest] at this
          exact this.1
        have hiff := (endOfTopDir_some u hupol top rs hds inp hbc).trans
          (outside_iff hhe hh hke hkd hdir)
        by_cases hout : d.path <+: e.dirPart
        · have he : endOfTopDir u = false := by
            cases h : endOfTopDir u with
            | false => rfl
            | true => exact absurd hout (hiff.1 h)
          exact hrest ▸ go_new e tl inp hrest hbc hhe he (fun d' tl' h => by
            rw [hstk] at h; cases h; exact hout)
        · exact hrest ▸ go_close d stk' top rs hstk hds hh hsr' hseld (hiff.2 hout)
            (fun e' tl' h => by rw [hrest] at h; cases h; exact hout)
    | nil =>
      have hsr := hi.rd.stack
      rw [hstk] at hsr
      have hds : u.dirStack = [] := by rw [hustk]; exact stackRel_nil hsr
      have he := endOfTopDir_nil u hds
      cases hrest : rest with
      | cons e tl =>
        rw [hrest] at hp
        obtain ⟨inp, hbc, hhe⟩ := hp
        exact hrest ▸ go_new e tl inp hrest hbc hhe he (fun d' tl' h => by rw [hstk] at h; cases h)
      | nil =>
        rw [hrest] at hp
        have hR := pop_eof u he hp hudef
        rw [← hrd'] at hR
        have hoc' : oc = none := by rw [hoc, hR]
        subst hoc'
        have hfs := hi.core.fs
        rw [hstk] at hfs
        show FinalU fs0 ds (done ++ (plan _ pol ls (keptOf seen ([].filter sel))).1) _ _
        simp only [List.filter_nil, keptOf, plan, List.append_nil]
        exact ⟨hi.core.aborted, hi.core.result, hfs⟩

end LhasaV.ExtractTree
