import LhasaV.Lemmas.ReaderIndep4
/-!
# C15, part 5: `next` on two simulating states
-/
set_option linter.unusedSimpArgs false
namespace LhasaV.ReaderIndep
open LhasaV LhasaV.Reader

/-- simulation between two states without an open decoder (the states inside `next`): the
ledgers are equal, and nothing is left of the decoder -/
structure SimC (s t : St) : Prop where
  curr : s.curr = t.curr
  currType : s.currType = t.currType
  policy : s.policy = t.policy
  dirStack : s.dirStack = t.dirStack
  deferred : s.deferred = t.deferred
  mktime : s.mktime = t.mktime
  led : s.led = t.led
  decS : s.dec = none
  decT : t.dec = none
  basic : ConsEq s.basic t.basic
  tidyS : Tidy s.basic
  tidyT : Tidy t.basic
  wfS : Stream.WF s.basic
  wfT : Stream.WF t.basic

theorem SimC.sim {s t : St} (h : SimC s t) : Sim s t :=
  ⟨h.curr, h.currType, h.policy, h.dirStack, h.deferred, h.mktime, by rw [h.led], by rw [h.led],
   by rw [h.led], by rw [h.led], h.basic⟩

theorem SimC.preS {s t : St} (h : SimC s t) : Pre s :=
  ⟨fun o ho => (by rw [h.decS] at ho; cases ho), h.tidyS, h.wfS⟩
theorem SimC.preT {s t : St} (h : SimC s t) : Pre t :=
  ⟨fun o ho => (by rw [h.decT] at ho; cases ho), h.tidyT, h.wfT⟩

theorem ledger_ext {l l' : Ledger} (h1 : l.hdrs = l'.hdrs) (h2 : l.blocks = l'.blocks)
    (h3 : l.decoders = l'.decoders) (h4 : l.nextId = l'.nextId) (h5 : l.faults = l'.faults) : l = l' := by
  cases l; cases l'; simp_all

/-- closing the decoders of two simulating states -/
theorem closeDecoder_simC {s t : St} (is : Inv s) (it : Inv t) (ps : Pre s) (pt : Pre t)
    (h : Sim s t) : SimC (closeDecoder s) (closeDecoder t) := by
  have fs := closeDecoder_frame s
  have ft := closeDecoder_frame t
  have es := eff_consEq ps.decOK ps.tidy
  have et := eff_consEq pt.decOK pt.tidy
  refine ⟨?_, ?_, ?_, ?_, ?_, ?_, ?_, closeDecoder_dec s, closeDecoder_dec t, ?_, es.2, et.2,
    Stream.wf_closeDecoder s ps.wf, Stream.wf_closeDecoder t pt.wf⟩
  · rw [fs.curr, ft.curr]; exact h.curr
  · rw [fs.currType, ft.currType]; exact h.currType
  · rw [fs.policy, ft.policy]; exact h.policy
  · rw [fs.dirStack, ft.dirStack]; exact h.dirStack
  · rw [fs.deferred, ft.deferred]; exact h.deferred
  · rw [fs.mktime, ft.mktime]; exact h.mktime
  · apply ledger_ext
    · rw [fs.hdrs, ft.hdrs]; exact h.hdrs
    · rw [fs.blocks, ft.blocks]; exact h.blocks
    · rw [closeDecoder_decoders is.dec, closeDecoder_decoders it.dec]
    · rw [fs.nextId, ft.nextId]; exact h.nextId
    · rw [fs.faults, ft.faults]; exact h.faults
  · exact es.1.symm.trans (h.basic.trans et.1)

/-! ## `basicNext` keeps the basic-reader invariants -/

theorem basicNext_tidy {mk : Nat → Nat} {b b' : Basic} {led led' : Ledger}
    (e : basicNext mk b led = .ok (b', led')) : Tidy b' := by
  rw [Reader.basicNext_eq] at e
  have hc : (basicRelease b led).1.curr = none := by
    unfold basicRelease; split
    · rfl
    · assumption
  generalize (basicRelease b led).1 = x at e hc
  generalize (basicRelease b led).2 = l at e
  unfold basicParse at e
  split at e
  · rename_i he
    cases e; intro _; exact Or.inl he
  · cases hs : Stream.start x.stream with
    | fail => rw [hs] at e; cases e
    | fault w => rw [hs] at e; cases e
    | ok st =>
      rw [hs] at e
      simp only [Res.ok_bind] at e
      split at e
      · cases e; intro _; exact Or.inl rfl
      · split at e
        · cases e
        · cases e; intro _; exact Or.inl rfl
        · cases e; intro hn; cases hn

theorem obsEq_consEq {a b : Basic} (h : Stream.ObsEq a b) (ta : Tidy a) : ConsEq a b := by
  obtain ⟨hd, hc, he, hr⟩ := h
  refine ⟨hd, hc, ?_⟩
  by_cases hea : a.eof = true
  · exact Or.inl ⟨Or.inl hea, Or.inl (he ▸ hea)⟩
  · obtain ⟨h1, h2, h3, h4⟩ := hr.resolve_left hea
    have hea' : a.eof = false := by simpa using hea
    refine Or.inr ⟨hea', he ▸ hea', h2, h3, by unfold mEnd; rw [h1, h4], fun hn => ?_⟩
    have := (ta hn).resolve_left hea
    exact ⟨this, h4 ▸ this⟩

/-! ## the four phases of `next` -/

/-- outcomes of two `Except String` computations related by `R` -/
def ExRel.{u, v} {α : Type u} {β : Type v} (R : α → β → Prop) : Except String α → Except String β → Prop
  | .ok a, .ok b => R a b
  | .error w, .error w' => w = w'
  | _, _ => False

theorem nextAdv_simC {s t : St} (h : SimC s t) : ExRel SimC (nextAdv s) (nextAdv t) := by
  unfold nextAdv
  rw [← h.currType, ← h.mktime, ← h.led]
  split
  · have key := basicNext_consumed_indep s.mktime s.basic t.basic s.led h.basic h.wfS h.wfT
    cases hA : basicNext s.mktime s.basic s.led with
    | fault w =>
      cases hB : basicNext s.mktime t.basic s.led <;> rw [hA, hB] at key <;>
        first | exact key | cases key
    | fail =>
      cases hB : basicNext s.mktime t.basic s.led <;> rw [hA, hB] at key <;>
        first | exact rfl | cases key
    | ok r =>
      cases hB : basicNext s.mktime t.basic s.led with
      | fault w => rw [hA, hB] at key; cases key
      | fail => rw [hA, hB] at key; cases key
      | ok r' =>
        rw [hA, hB] at key
        obtain ⟨ho, hl⟩ := key
        obtain ⟨a', la⟩ := r
        obtain ⟨b', lb⟩ := r'
        have ta := basicNext_tidy hA
        have tb := basicNext_tidy hB
        exact ⟨h.curr, rfl, h.policy, h.dirStack, h.deferred, rfl, hl, h.decS, h.decT,
          obsEq_consEq ho ta, ta, tb,
          Stream.basicNext_wf _ _ _ h.wfS _ _ hA, Stream.basicNext_wf _ _ _ h.wfT _ _ hB⟩
  · exact h

theorem nextUnref_simC {s t : St} (h : SimC s t) : SimC (nextUnref s) (nextUnref t) := by
  unfold nextUnref
  rw [← h.currType, ← h.curr, ← h.led]
  split
  · split
    · exact ⟨rfl, rfl, h.policy, h.dirStack, h.deferred, h.mktime, rfl, h.decS, h.decT,
        h.basic, h.tidyS, h.tidyT, h.wfS, h.wfT⟩
    · exact h
  · exact h

theorem endOfTopDir_congr {s t : St} (h : SimC s t) : endOfTopDir s = endOfTopDir t := by
  unfold endOfTopDir
  rw [h.dirStack, h.basic.2.1, h.policy]

theorem nextPop_simC {s t : St} (h : SimC s t) : SimC (nextPop s) (nextPop t) := by
  unfold nextPop
  rw [← endOfTopDir_congr h, ← h.dirStack]
  split
  · split
    · exact ⟨rfl, rfl, h.policy, rfl, h.deferred, h.mktime, h.led, h.decS, h.decT,
        h.basic, h.tidyS, h.tidyT, h.wfS, h.wfT⟩
    · exact h
  · exact ⟨h.basic.2.1, rfl, h.policy, rfl, h.deferred, h.mktime, h.led, h.decS, h.decT,
      h.basic, h.tidyS, h.tidyT, h.wfS, h.wfT⟩

theorem nextDeferred_simC {s t : St} (h : SimC s t) : SimC (nextDeferred s) (nextDeferred t) := by
  unfold nextDeferred
  rw [← h.curr, ← h.deferred]
  split
  · exact h
  · split
    · exact ⟨rfl, rfl, h.policy, h.dirStack, rfl, h.mktime, h.led, h.decS, h.decT,
        h.basic, h.tidyS, h.tidyT, h.wfS, h.wfT⟩
    · exact ⟨rfl, rfl, h.policy, h.dirStack, rfl, h.mktime, h.led, h.decS, h.decT,
        h.basic, h.tidyS, h.tidyT, h.wfS, h.wfT⟩

/-- **`next` on two simulating states**: both fault at the same site, or both return the same
header (or both the end) and simulating states without an open decoder -/
theorem next_simC {s t : St} (is : Inv s) (it : Inv t) (ps : Pre s) (pt : Pre t) (h : Sim s t) :
    ExRel (fun (r r' : Option HObj × St) => r.1 = r'.1 ∧ SimC r.2 r'.2) (next s) (next t) := by
  have h0 := closeDecoder_simC is it ps pt h
  rw [next_eq, next_eq, ← h0.currType]
  split
  · exact ⟨rfl, h0⟩
  · have h1 := nextAdv_simC h0
    cases hA : nextAdv (closeDecoder s) with
    | error w =>
      cases hB : nextAdv (closeDecoder t) with
      | error w' => rw [hA, hB] at h1; exact h1
      | ok _ => rw [hA, hB] at h1; cases h1
    | ok s1 =>
      cases hB : nextAdv (closeDecoder t) with
      | error w' => rw [hA, hB] at h1; cases h1
      | ok t1 =>
        rw [hA, hB] at h1
        have h2 := nextDeferred_simC (nextPop_simC (nextUnref_simC h1))
        exact ⟨h2.curr, h2⟩

end LhasaV.ReaderIndep
