import LhasaV.Lemmas.ListPrintable
import LhasaV.Lemmas.ListStruct
import LhasaV.Lemmas.PrintBanners
/-!
Properties C18 (only printable ASCII reaches the terminal) and C19 (the listing renders every
member's header fields) of the `lha` tool's `l`/`v`/`p` commands, on the models `ListOut.render`
and `Extract.print`.  The theorems live in

* `ListPrintable` – `render_printable` and the per-column lemmas;
* `ListStruct` – `render_rows`, `row_l/lv/v/vv`, `stats_sums`, `render_totals`, `row_newlines`,
  `row_ends_newline`, `outputTimestamp_colon_iff` and its corollaries;
* `PrintBanners` – `print_banners_printable`, `printLoop_eq`.

This file holds the non-vacuity checks: concrete headers whose name, link target and method
contain control bytes, escape sequences, newlines and 8-bit bytes, rendered by kernel evaluation.
-/
namespace LhasaV.ListProps
open LhasaV LhasaV.Header LhasaV.ListOut

/-- a file `d\x1b[/a\n\x07\xffb` with method `-l\x1b5-` -/
def evilHdr : Hdr :=
  { path := some [0x64, 0x1b, 0x5b, 0x2f], filename := some [0x61, 0x0a, 0x07, 0xff, 0x62],
    method := [0x2d, 0x6c, 0x1b, 0x35, 0x2d], compressedLength := 10, length := 20, level := 1,
    osType := 0x55, crc := 0xbeef, timestamp := 1000000000 }

/-- a symbolic link `l -> \r/\x80` -/
def evilLink : Hdr :=
  { path := none, filename := some [0x6c], symlinkTarget := some [0x0d, 0x2f, 0x80],
    method := "-lhd-".toUTF8.toList, level := 2, osType := 0x55,
    extraFlags := Gen.flagUnixPerms ||| Gen.flagUnixUidGid,
    unixPerms := 0o120777, unixUid := 1000, unixGid := 100, timestamp := 1699999999 }

/-- `lha v`: the whole output, evaluated -/
example : render true false 0 1700000000 1600000000 [evilHdr, evilLink] =
    str " PERMSSN    UID  GID    PACKED    SIZE  RATIO METHOD CRC     STAMP          NAME\n" ++
    str "---------- ----------- ------- ------- ------ ---------- ------------ -------------\n" ++
    str "[Unix]                      10      20  50.0% -l?5- beef Sep  9  2001 d?[/a???b\n" ++
    str "lrwxrwxrwx  1000/100         0       0 ****** -lhd- 0000 Nov 14 22:13 l -> ?/?\n" ++
    str "---------- ----------- ------- ------- ------ ---------- ------------ -------------\n" ++
    str " Total         2 files      10      20  50.0%            Sep 13  2020\n" := by
  decide +kernel

/-- `lha lv`: the whole output, evaluated -/
example : render false true 0 1700000000 1600000000 [evilHdr, evilLink] =
    str " PERMSSN    UID  GID      SIZE  RATIO     STAMP     LV\n" ++
    str "---------- ----------- ------- ------ ------------ ---\n" ++
    str "d?[/a???b\n" ++
    str "[Unix]                      20  50.0% Sep  9  2001 [1]\n" ++
    str "l|?/?\n" ++
    str "lrwxrwxrwx  1000/100         0 ****** Nov 14 22:13 [2]\n" ++
    str "---------- ----------- ------- ------ ------------ ---\n" ++
    str " Total         2 files      20  50.0% Sep 13  2020\n" := by
  decide +kernel

/-- `-q2`: the rows only -/
example : render false false 2 1700000000 1600000000 [evilHdr] =
    str "[Unix]                      20  50.0% Sep  9  2001 d?[/a???b\n" := by
  decide +kernel

/-- the raw name does contain a newline, an ESC and an 8-bit byte; the row does not -/
example : (0x0a : UInt8) ∈ evilHdr.filename.getD [] ∧ (0x1b : UInt8) ∈ evilHdr.method ∧
    List.count (0x0a : UInt8) (printColumns (columnsFor true false) 1700000000 evilHdr) = 1 :=
  ⟨by decide, by decide, row_newlines true false _ _⟩

/-- instance of the main theorem -/
example : ∀ b ∈ render true true 0 1700000000 1600000000 [evilHdr, evilLink],
    (0x20 ≤ b ∧ b ≤ 0x7e) ∨ b = 0x0a :=
  render_printable _ _ _ _ _ _

/-- without `safe` the method column would let the ESC through: `methodCrcRaw` is what the
tool printed before /repo commit 474f491 -/
example : (0x1b : UInt8) ∈ methodCrcRaw evilHdr ∧ (0x1b : UInt8) ∉ methodCrcColumn evilHdr := by
  decide +kernel

/-- the timestamp switch at the boundary, evaluated: 180 days before `now` shows the year,
one second later the time of day -/
example : outputTimestamp 1700000000 (1700000000 - 15552000) = str "May 18  2023" ∧
    outputTimestamp 1700000000 (1700000000 - 15552000 + 1) = str "May 18 22:13" := by
  decide +kernel

/-- totals wrap at 2^32 as the C's `unsigned int` does -/
example : (([{ length := 4294967295 }, { length := 2 }] : List Hdr).foldl accumulate
    (initStats 0)).length = 1 := by decide +kernel

/-- `lha p` banner of a member whose name holds an escape sequence and a newline -/
example : printBanner {} evilHdr = str "::::::::\nd?[/a???b\n::::::::\n" := by decide +kernel

example : printBanner {} evilLink = str "Symbolic Link l -> ?/?\n" := by decide +kernel

end LhasaV.ListProps
