import LhasaV.Model.LhNew
import LhasaV.Lemmas.TreeSafe
/-!
Memory safety of `lh_new_decoder.c` (model `LhasaV.LhNew`), property C09:
from the initial state no sequence of `read` calls ever faults, for any input
bytes and any chunking of the input callback, for each of the five parameter
sets -lh4/5-, -lh6-, -lh7-, -lhx-, -lk7-.
-/
namespace LhasaV.LhNew
open LhasaV.Res LhasaV.Tree

/-- the arithmetic facts about a parameter set that the safety proof needs -/
structure GoodParams (p : Params) : Prop where
  ringPos : 0 < p.ringSize
  ringLe : p.ringSize ≤ p.ringCap
  temp6 : 6 ≤ p.maxTempCodes
  tempCap : p.maxTempCodes * 2 ≤ p.tempTreeCap
  tempLb : p.tempTreeCap ≤ p.leafBit
  codeCap : p.numCodes * 2 ≤ p.codeTreeCap
  codeLb : p.codeTreeCap ≤ p.leafBit
  codePos : 1 ≤ p.codeTreeCap
  numCodes : p.numCodes ≤ 512
  leaf512 : 512 ≤ p.leafBit
  offCap : p.maxOffsetCodes * 2 ≤ p.offsetTreeCap
  offLb : p.offsetTreeCap ≤ p.leafBit
  offPos : 1 ≤ p.offsetTreeCap
  thr : p.copyThreshold ≤ 3

/-- the decoder state invariant -/
structure Inv (p : Params) (s : St) : Prop where
  bits : s.bits.WF
  ringSz : s.ring.size = p.ringCap
  pos : s.pos < p.ringSize
  tempSz : s.tempTree.size = p.tempTreeCap
  tempFwd : Fwd p.leafBit s.tempTree
  codeSz : s.codeTree.size = p.codeTreeCap
  codeFwd : Fwd p.leafBit s.codeTree
  codeBd : All (fun e => e < p.leafBit + 512) s.codeTree
  offSz : s.offsetTree.size = p.offsetTreeCap
  offFwd : Fwd p.leafBit s.offsetTree

theorem goodParams_lh5 : GoodParams lh5 := by constructor <;> decide
theorem goodParams_lh6 : GoodParams lh6 := by constructor <;> decide
theorem goodParams_lh7 : GoodParams lh7 := by constructor <;> decide
theorem goodParams_lhx : GoodParams lhx := by constructor <;> decide
theorem goodParams_lk7 : GoodParams lk7 := by constructor <;> decide

theorem init_inv (p : Params) (hp : GoodParams p) (src : Src) : Inv p (init p src) where
  bits := Bits.wf_init src
  ringSz := Array.size_replicate
  pos := hp.ringPos
  tempSz := (initTree_fwd _ _).2
  tempFwd := (initTree_fwd _ _).1
  codeSz := (initTree_fwd _ _).2
  codeFwd := (initTree_fwd _ _).1
  codeBd := initTree_all _ _ _ (by omega)
  offSz := (initTree_fwd _ _).2
  offFwd := (initTree_fwd _ _).1

theorem Inv.setBits {p : Params} {s : St} (h : Inv p s) {r : Bits} (hr : r.WF) :
    Inv p { s with bits := r } :=
  ⟨hr, h.ringSz, h.pos, h.tempSz, h.tempFwd, h.codeSz, h.codeFwd, h.codeBd, h.offSz, h.offFwd⟩

/-! ### reading code lengths -/

theorem storeLen_safe (site : String) (cap : Nat) (lens : Array Nat) (i v : Nat) (h : i < cap) :
    Safe (storeLen site cap lens i v) (fun _ => True) := by
  unfold storeLen
  rw [if_pos h]
  exact safe_ok trivial

theorem zeroRun_safe (cap k i : Nat) (lens : Array Nat) (h : i + k < cap) :
    Safe (zeroRun cap k i lens) (fun _ => True) := by
  induction k generalizing i lens with
  | zero => exact safe_ok trivial
  | succ k ih =>
    unfold zeroRun
    apply safe_bind (storeLen_safe _ cap lens (i + 1) 0 (by omega))
    intro lens' _
    exact ih (i + 1) lens' (by omega)

theorem unaryLoop_wf (fuel len : Nat) (r : Bits) (h : r.WF) : (unaryLoop fuel len r).2.WF := by
  induction fuel generalizing len r with
  | zero => exact h
  | succ fuel ih =>
    unfold unaryLoop
    have hwf := Bits.readBit_wf r h
    simp only []
    generalize r.readBit = q at hwf
    obtain ⟨qv, qr⟩ := q
    cases qv with
    | none => exact hwf
    | some b =>
      cases b with
      | zero => exact hwf
      | succ b => exact ih _ _ hwf

theorem readLengthValue_wf (r : Bits) (h : r.WF) : (readLengthValue r).2.WF := by
  unfold readLengthValue
  have hwf := Bits.readBits_wf r 3 h
  simp only []
  split
  · exact hwf
  · exact unaryLoop_wf _ _ _ hwf
  · exact hwf

theorem tempLoop_safe (cap n : Nat) (hn : n ≤ cap) (h6 : 6 ≤ cap) (m : Nat) :
    ∀ (i : Nat) (lens : Array Nat) (r : Bits), n - i ≤ m → r.WF →
      Safe (tempLoop cap n i lens r) (fun o => o.2.WF) := by
  induction m with
  | zero =>
    intro i lens r hm hr
    rw [tempLoop]
    have : ¬ i < n := by omega
    rw [dif_neg this]
    exact safe_ok hr
  | succ m ih =>
    intro i lens r hm hr
    rw [tempLoop]
    by_cases hin : i < n
    · rw [dif_pos hin]
      have hwf := readLengthValue_wf r hr
      simp only []
      generalize readLengthValue r = q at hwf
      obtain ⟨qv, qr⟩ := q
      cases qv with
      | none => exact safe_ok hwf
      | some len =>
        apply safe_bind (storeLen_safe _ cap lens i len (by omega))
        intro lens1 _
        apply safe_ite
        · intro h2
          have hwf2 := Bits.readBits_wf qr 2 hwf
          have hlt2 := Bits.readBits_lt qr 2 hwf
          simp only []
          generalize qr.readBits 2 = q2 at hwf2 hlt2
          obtain ⟨q2v, q2r⟩ := q2
          cases q2v with
          | none => exact safe_ok hwf2
          | some k =>
            have hk : k < 4 := hlt2 k rfl
            apply safe_bind (zeroRun_safe cap k i lens1 (by omega))
            intro lens2 _
            exact ih _ _ _ (by omega) hwf2
        · intro _
          exact ih _ _ _ (by omega) hwf
    · rw [dif_neg hin]
      exact safe_ok hr

theorem readTempTable_safe (p : Params) (hp : GoodParams p) (s : St) (h : Inv p s) :
    Safe (readTempTable p s) (fun o => Inv p o.2) := by
  unfold readTempTable
  have hwf := Bits.readBits_wf s.bits p.tempCodeBits h.bits
  simp only []
  generalize s.bits.readBits p.tempCodeBits = a at hwf
  obtain ⟨av, ar⟩ := a
  split
  · exact safe_ok (h.setBits hwf)
  · have hwf2 := Bits.readBits_wf ar 5 hwf
    generalize Bits.readBits (av, ar).2 5 = c at hwf2
    split
    · exact safe_ok (h.setBits hwf2)
    · rename_i code _
      have hs := setSingle_fwd p.leafBit s.tempTree code h.tempFwd
      refine safe_ok ⟨hwf2, h.ringSz, h.pos, ?_, hs.1, h.codeSz, h.codeFwd, h.codeBd, h.offSz, h.offFwd⟩
      exact hs.2.trans h.tempSz
  · rename_i n0 _ _
    have hn : min n0 p.maxTempCodes ≤ p.maxTempCodes := Nat.min_le_right _ _
    apply safe_bind (tempLoop_safe p.maxTempCodes _ hn hp.temp6 _ 0 _ _ (Nat.le_refl _) hwf)
    intro t ht
    split
    · exact safe_ok (h.setBits ht)
    · rename_i lens _
      have hb := buildTree_safe p.leafBit s.tempTree (p.maxTempCodes * 2)
        (lens.toList.take (min n0 p.maxTempCodes)) h.tempFwd
        (by have := hp.temp6; have := hp.tempCap; have := h.tempSz; omega)
        (by rw [h.tempSz]; exact hp.tempCap) (by rw [h.tempSz]; exact hp.tempLb)
      rw [hb.2.2]
      refine safe_ok ⟨ht, h.ringSz, h.pos, ?_, hb.1, h.codeSz, h.codeFwd, h.codeBd, h.offSz, h.offFwd⟩
      exact hb.2.1.trans h.tempSz

/-! ### the code table -/

theorem readSkipCount_wf (r : Bits) (k : Nat) (h : r.WF) : (readSkipCount r k).2.WF := by
  unfold readSkipCount
  by_cases h0 : k = 0
  · rw [if_pos h0]; exact h
  · rw [if_neg h0]
    by_cases h1 : k = 1
    · rw [if_pos h1]; exact Bits.readBits_wf r 4 h
    · rw [if_neg h1]; exact Bits.readBits_wf r 9 h

theorem skipRun_safe (cap n : Nat) (hn : n ≤ cap) (k i : Nat) (lens : Array Nat) :
    Safe (skipRun cap n k i lens) (fun _ => True) := by
  induction k generalizing i lens with
  | zero => exact safe_ok trivial
  | succ k ih =>
    unfold skipRun
    apply safe_ite
    · intro hin
      apply safe_bind (storeLen_safe _ cap lens i 0 (by omega))
      intro lens' _
      exact ih _ _
    · intro _; exact safe_ok trivial

theorem codeLoop_safe (p : Params) (n : Nat) (hn : n ≤ p.numCodes) (tempTree : Array Nat)
    (hf : Fwd p.leafBit tempTree) (hs : 1 ≤ tempTree.size) (fuel : Nat) :
    ∀ (i : Nat) (lens : Array Nat) (r : Bits), r.WF →
      Safe (codeLoop p n fuel i lens tempTree r) (fun o => o.2.WF) := by
  induction fuel with
  | zero => intro i lens r hr; exact safe_ok hr
  | succ fuel ih =>
    intro i lens r hr
    unfold codeLoop
    apply safe_ite
    · intro hin
      apply safe_bind (readFromTree_safe p.leafBit (fun _ => True) tempTree r hf
        (fun _ _ _ => trivial) hs hr)
      intro t ht
      split
      · exact safe_ok ht.1
      · rename_i code _
        apply safe_ite
        · intro _
          have hwf := readSkipCount_wf t.2 code ht.1
          simp only []
          generalize readSkipCount t.2 code = sk at hwf
          split
          · exact safe_ok hwf
          · rename_i cnt _
            apply safe_bind (skipRun_safe p.numCodes n hn cnt i lens)
            intro z _
            exact ih _ _ _ hwf
        · intro _
          apply safe_bind (storeLen_safe _ p.numCodes lens i (code - 2) (by omega))
          intro lens' _
          exact ih _ _ _ ht.1
    · intro _; exact safe_ok hr

theorem take_length_le {α} (l : List α) (n : Nat) : (l.take n).length ≤ n := by
  rw [List.length_take]; exact Nat.min_le_left _ _

theorem readCodeTable_safe (p : Params) (hp : GoodParams p) (s : St) (h : Inv p s) :
    Safe (readCodeTable p s) (fun o => Inv p o.2) := by
  unfold readCodeTable
  have hwf := Bits.readBits_wf s.bits 9 h.bits
  simp only []
  generalize s.bits.readBits 9 = a at hwf
  obtain ⟨av, ar⟩ := a
  split
  · exact safe_ok (h.setBits hwf)
  · have hwf2 := Bits.readBits_wf ar 9 hwf
    have hlt2 := Bits.readBits_lt ar 9 hwf
    generalize Bits.readBits (av, ar).2 9 = c at hwf2 hlt2
    split
    · exact safe_ok (h.setBits hwf2)
    · rename_i code hc
      have hs := setSingle_fwd p.leafBit s.codeTree code h.codeFwd
      have hcode : code < 512 := hlt2 code hc
      have hl := hp.leaf512
      refine safe_ok ⟨hwf2, h.ringSz, h.pos, h.tempSz, h.tempFwd, ?_, hs.1, ?_, h.offSz, h.offFwd⟩
      · exact hs.2.trans h.codeSz
      · apply setSingle_all _ _ _ _ h.codeBd
        rw [setSingle_leaf p.leafBit code (by omega)]
        omega
  · rename_i n0 _ _
    have hn : min n0 p.numCodes ≤ p.numCodes := Nat.min_le_right _ _
    apply safe_bind (codeLoop_safe p _ hn s.tempTree h.tempFwd
      (by have := hp.temp6; have := hp.tempCap; have := h.tempSz; omega) _ 0 _ _ hwf)
    intro t ht
    split
    · exact safe_ok (h.setBits ht)
    · rename_i lens _
      have hl := hp.leaf512
      have hnc := hp.numCodes
      have hlen := take_length_le lens.toList (min n0 p.numCodes)
      have hb := buildTree_inv p.leafBit (fun e => e < p.leafBit + 512) s.codeTree (p.numCodes * 2)
        (lens.toList.take (min n0 p.numCodes))
        (fun e he => by omega)
        (fun i hi => by rw [mkLeaf_small p.leafBit i (by omega)]; omega)
        h.codeBd h.codeFwd
        (by rw [h.codeSz]; exact hp.codePos)
        (by rw [h.codeSz]; exact hp.codeCap) (by rw [h.codeSz]; exact hp.codeLb)
      rw [hb.2.2.2]
      refine safe_ok ⟨ht, h.ringSz, h.pos, h.tempSz, h.tempFwd, ?_, hb.1, hb.2.1, h.offSz, h.offFwd⟩
      exact hb.2.2.1.trans h.codeSz

/-! ### the offset table -/

theorem offLoop_safe (cap : Nat) (k : Nat) :
    ∀ (i : Nat) (lens : Array Nat) (r : Bits), i + k ≤ cap → r.WF →
      Safe (offLoop cap k i lens r) (fun o => o.2.WF) := by
  induction k with
  | zero => intro i lens r _ hr; exact safe_ok hr
  | succ k ih =>
    intro i lens r hik hr
    unfold offLoop
    have hwf := readLengthValue_wf r hr
    simp only []
    generalize readLengthValue r = q at hwf
    split
    · exact safe_ok hwf
    · rename_i len _
      apply safe_bind (storeLen_safe _ cap lens i len (by omega))
      intro lens' _
      exact ih _ _ _ (by omega) hwf

theorem readOffsetTable_safe (p : Params) (hp : GoodParams p) (s : St) (h : Inv p s) :
    Safe (readOffsetTable p s) (fun o => Inv p o.2) := by
  unfold readOffsetTable
  have hwf := Bits.readBits_wf s.bits p.offsetBits h.bits
  simp only []
  generalize s.bits.readBits p.offsetBits = a at hwf
  obtain ⟨av, ar⟩ := a
  split
  · exact safe_ok (h.setBits hwf)
  · have hwf2 := Bits.readBits_wf ar p.offsetBits hwf
    generalize Bits.readBits (av, ar).2 p.offsetBits = c at hwf2
    split
    · exact safe_ok (h.setBits hwf2)
    · rename_i code _
      have hs := setSingle_fwd p.leafBit s.offsetTree code h.offFwd
      refine safe_ok ⟨hwf2, h.ringSz, h.pos, h.tempSz, h.tempFwd, h.codeSz, h.codeFwd, h.codeBd, ?_, hs.1⟩
      exact hs.2.trans h.offSz
  · rename_i n0 _ _
    have hn : min n0 p.maxOffsetCodes ≤ p.maxOffsetCodes := Nat.min_le_right _ _
    apply safe_bind (offLoop_safe p.maxOffsetCodes _ 0 _ _ (by omega) hwf)
    intro t ht
    split
    · exact safe_ok (h.setBits ht)
    · rename_i lens _
      have hb := buildTree_safe p.leafBit s.offsetTree (p.maxOffsetCodes * 2)
        (lens.toList.take (min n0 p.maxOffsetCodes)) h.offFwd
        (by rw [h.offSz]; exact hp.offPos)
        (by rw [h.offSz]; exact hp.offCap) (by rw [h.offSz]; exact hp.offLb)
      rw [hb.2.2]
      refine safe_ok ⟨ht, h.ringSz, h.pos, h.tempSz, h.tempFwd, h.codeSz, h.codeFwd, h.codeBd, ?_, hb.1⟩
      exact hb.2.1.trans h.offSz

/-! ### blocks -/

theorem startNewBlock_safe (p : Params) (hp : GoodParams p) (s : St) (h : Inv p s) :
    Safe (startNewBlock p s) (fun o => Inv p o.2) := by
  unfold startNewBlock
  have hwf := Bits.readBits_wf s.bits 16 h.bits
  simp only []
  generalize s.bits.readBits 16 = a at hwf
  split
  · exact safe_ok (h.setBits hwf)
  · rename_i len _
    have h1 : Inv p { s with bits := a.2, blockRemaining := len } :=
      ⟨hwf, h.ringSz, h.pos, h.tempSz, h.tempFwd, h.codeSz, h.codeFwd, h.codeBd, h.offSz, h.offFwd⟩
    apply safe_bind (readTempTable_safe p hp _ h1)
    intro t ht
    apply safe_ite
    · intro _; exact safe_ok ht
    · intro _
      apply safe_bind (readCodeTable_safe p hp _ ht)
      intro c hc
      apply safe_ite
      · intro _; exact safe_ok hc
      · intro _; exact readOffsetTable_safe p hp _ hc

theorem blockLoop_safe (p : Params) (hp : GoodParams p) (fuel : Nat) :
    ∀ (s : St), Inv p s → Safe (blockLoop p fuel s) (fun o => Inv p o.2) := by
  induction fuel with
  | zero => intro s h; exact safe_ok h
  | succ fuel ih =>
    intro s h
    unfold blockLoop
    apply safe_ite
    · intro _
      apply safe_bind (startNewBlock_safe p hp s h)
      intro b hb
      apply safe_ite
      · intro _; exact safe_ok hb
      · intro _; exact ih _ hb
    · intro _; exact safe_ok h

/-! ### one `read` -/

theorem readOffsetCode_safe (p : Params) (hp : GoodParams p) (s : St) (h : Inv p s) :
    Safe (readOffsetCode p s) (fun o => o.2.WF) := by
  unfold readOffsetCode
  apply safe_bind (readFromTree_safe p.leafBit (fun _ => True) s.offsetTree s.bits h.offFwd
    (fun _ _ _ => trivial) (by rw [h.offSz]; exact hp.offPos) h.bits)
  intro t ht
  split
  · exact safe_ok ht.1
  · rename_i bits _
    apply safe_ite
    · intro _; exact safe_ok ht.1
    · intro _
      apply safe_ite
      · intro _; exact safe_ok ht.1
      · intro _
        apply safe_ite
        · intro _
          apply safe_ite
          · intro _; exact safe_ok ht.1
          · intro _
            have hwf := Bits.readBits_wf t.2 ((bits - 2) / 2) ht.1
            simp only []
            generalize t.2.readBits ((bits - 2) / 2) = q at hwf
            split
            · exact safe_ok hwf
            · exact safe_ok hwf
        · intro _
          have hwf := Bits.readBits_wf t.2 (bits - 1) ht.1
          simp only []
          generalize t.2.readBits (bits - 1) = q at hwf
          split
          · exact safe_ok hwf
          · exact safe_ok hwf

theorem lharkCopyCount_spec (p : Params) (hp : GoodParams p) (r : Bits) (code : Nat) (h : r.WF) :
    (lharkCopyCount p r code).2.WF ∧ ∀ c, (lharkCopyCount p r code).1 = some c → c ≤ 514 := by
  unfold lharkCopyCount
  have hthr := hp.thr
  by_cases h1 : code < 264
  · rw [if_pos h1]
    refine ⟨h, fun c hc => ?_⟩
    cases hc; omega
  · rw [if_neg h1]
    by_cases h2 : code < 288
    · rw [if_pos h2]
      have hwf := Bits.readBits_wf r ((code - 260) / 4) h
      have hlt := Bits.readBits_lt r ((code - 260) / 4) h
      simp only []
      generalize r.readBits ((code - 260) / 4) = q at hwf hlt
      obtain ⟨qv, qr⟩ := q
      refine ⟨hwf, fun c hc => ?_⟩
      cases qv with
      | none => cases hc
      | some low =>
        cases hc
        have hl := hlt low rfl
        have hn : (code - 260) / 4 ≤ 6 := by omega
        have hpow : 2 ^ ((code - 260) / 4) ≤ 2 ^ 6 := Nat.pow_le_pow_right (by omega) hn
        have hm : (4 + code % 4) * 2 ^ ((code - 260) / 4) ≤ 7 * 2 ^ 6 :=
          Nat.mul_le_mul (by omega) hpow
        show (4 + code % 4) * 2 ^ ((code - 260) / 4) + low + 3 ≤ 514
        omega
    · rw [if_neg h2]
      refine ⟨h, fun c hc => ?_⟩
      cases hc; omega

theorem copyLoop_safe (rs : Nat) (hrs : 0 < rs) (n : Nat) :
    ∀ (src : Nat) (ring : Array UInt8) (pos : Nat) (acc : List UInt8),
      rs ≤ ring.size → pos < rs →
      Safe (Ring.copyLoop rs n src ring pos acc)
        (fun o => o.1.size = ring.size ∧ o.2.1 < rs ∧ o.2.2.length = acc.length + n) := by
  induction n with
  | zero => intro src ring pos acc _ hpos; exact safe_ok ⟨rfl, hpos, rfl⟩
  | succ n ih =>
    intro src ring pos acc hsz hpos
    unfold Ring.copyLoop
    have hm : src % rs < ring.size := Nat.lt_of_lt_of_le (Nat.mod_lt _ hrs) hsz
    have hget : ring[src % rs]? = some ring[src % rs] := Array.getElem?_eq_getElem hm
    simp only [hget]
    have hp : pos < ring.size := by omega
    rw [if_pos hp]
    have hsz' : (ring.setIfInBounds pos ring[src % rs]).size = ring.size :=
      Array.size_setIfInBounds
    have := ih (src + 1) (ring.setIfInBounds pos ring[src % rs]) ((pos + 1) % rs)
      (ring[src % rs] :: acc) (by rw [hsz']; exact hsz) (Nat.mod_lt _ hrs)
    apply safe_mono this
    intro o ho
    refine ⟨ho.1.trans hsz', ho.2.1, ?_⟩
    rw [ho.2.2, List.length_cons]; omega

theorem read_safe (p : Params) (hp : GoodParams p) (s : St) (h : Inv p s) :
    Safe (read p s) (fun o => Inv p o.2 ∧ o.1.length ≤ 514) := by
  unfold read
  apply safe_bind (blockLoop_safe p hp _ s h)
  intro b hb
  apply safe_ite
  · intro _; exact safe_ok ⟨hb, Nat.zero_le _⟩
  · intro _
    have hl := hp.leaf512
    apply safe_bind (readFromTree_safe p.leafBit (fun e => e < p.leafBit + 512) b.2.codeTree b.2.bits
      hb.codeFwd hb.codeBd (by rw [hb.codeSz]; exact hp.codePos) hb.bits)
    intro t ht
    split
    · exact safe_ok ⟨⟨ht.1, hb.ringSz, hb.pos, hb.tempSz, hb.tempFwd, hb.codeSz, hb.codeFwd,
        hb.codeBd, hb.offSz, hb.offFwd⟩, Nat.zero_le _⟩
    · rename_i code hcode
      have hc512 : code < 512 := by have := ht.2 code hcode; omega
      apply safe_ite
      · intro _
        apply safe_ite
        · intro _
          refine safe_ok ⟨⟨ht.1, ?_, Nat.mod_lt _ hp.ringPos, hb.tempSz, hb.tempFwd, hb.codeSz,
            hb.codeFwd, hb.codeBd, hb.offSz, hb.offFwd⟩, ?_⟩
          · exact Array.size_setIfInBounds.trans hb.ringSz
          · show 1 ≤ 514
            omega
        · intro hn
          exfalso; apply hn
          show b.2.pos < b.2.ring.size
          have := hb.pos; have := hp.ringLe; have := hb.ringSz; omega
      · intro _
        have hcc : (if p.lhark = true then lharkCopyCount p t.2 code
              else (some (code - 256 + p.copyThreshold), t.2)).2.WF ∧
            ∀ c, (if p.lhark = true then lharkCopyCount p t.2 code
              else (some (code - 256 + p.copyThreshold), t.2)).1 = some c → c ≤ 514 := by
          by_cases hlk : p.lhark = true
          · rw [if_pos hlk]; exact lharkCopyCount_spec p hp t.2 code ht.1
          · rw [if_neg hlk]
            refine ⟨ht.1, fun c hc => ?_⟩
            have := hp.thr
            cases hc; omega
        simp only []
        generalize (if p.lhark = true then lharkCopyCount p t.2 code
              else (some (code - 256 + p.copyThreshold), t.2)) = cc at hcc
        split
        · exact safe_ok ⟨⟨hcc.1, hb.ringSz, hb.pos, hb.tempSz, hb.tempFwd, hb.codeSz, hb.codeFwd,
            hb.codeBd, hb.offSz, hb.offFwd⟩, Nat.zero_le _⟩
        · rename_i count hcount
          have hcnt : count ≤ 514 := hcc.2 count hcount
          apply safe_bind (readOffsetCode_safe p hp _
            (⟨hcc.1, hb.ringSz, hb.pos, hb.tempSz, hb.tempFwd, hb.codeSz, hb.codeFwd,
              hb.codeBd, hb.offSz, hb.offFwd⟩ : Inv p { b.2 with
                blockRemaining := b.2.blockRemaining - 1, bits := cc.2 }))
          intro o ho
          split
          · exact safe_ok ⟨⟨ho, hb.ringSz, hb.pos, hb.tempSz, hb.tempFwd, hb.codeSz, hb.codeFwd,
              hb.codeBd, hb.offSz, hb.offFwd⟩, Nat.zero_le _⟩
          · rename_i off _
            apply safe_ite
            · intro _
              exact safe_ok ⟨⟨ho, hb.ringSz, hb.pos, hb.tempSz, hb.tempFwd, hb.codeSz, hb.codeFwd,
                hb.codeBd, hb.offSz, hb.offFwd⟩, Nat.zero_le _⟩
            · intro _
              apply safe_bind (copyLoop_safe p.ringSize hp.ringPos count _ b.2.ring b.2.pos []
                (by rw [hb.ringSz]; exact hp.ringLe) hb.pos)
              intro r hr
              refine safe_ok ⟨⟨ho, hr.1.trans hb.ringSz, hr.2.1, hb.tempSz, hb.tempFwd, hb.codeSz,
                hb.codeFwd, hb.codeBd, hb.offSz, hb.offFwd⟩, ?_⟩
              show r.2.2.reverse.length ≤ 514
              rw [List.length_reverse, hr.2.2]
              show 0 + count ≤ 514
              omega

/-! ### main theorems -/

theorem read_no_fault (p : Params) (hp : GoodParams p) (s : St) (h : Inv p s) :
    ∀ w, read p s ≠ .fault w :=
  (read_safe p hp s h).1

theorem read_inv (p : Params) (hp : GoodParams p) (s : St) (h : Inv p s) (out : List UInt8)
    (s' : St) (hr : read p s = .ok (out, s')) : Inv p s' :=
  ((read_safe p hp s h).2 (out, s') hr).1

/-- at most 514 bytes per inner read (≤ max_read) -/
theorem read_len (p : Params) (hp : GoodParams p) (s : St) (h : Inv p s) (out : List UInt8)
    (s' : St) (hr : read p s = .ok (out, s')) : out.length ≤ 514 :=
  ((read_safe p hp s h).2 (out, s') hr).2

/-- the state after `n` successful calls of `read` (`none`: some call did not return normally) -/
def iter (p : Params) : Nat → St → Option St
  | 0, s => some s
  | n+1, s =>
    match read p s with
    | .ok (_, s') => iter p n s'
    | _ => none

theorem iter_inv (p : Params) (hp : GoodParams p) (n : Nat) :
    ∀ (s s' : St), Inv p s → iter p n s = some s' → Inv p s' := by
  induction n with
  | zero => intro s s' h hi; cases hi; exact h
  | succ n ih =>
    intro s s' h hi
    unfold iter at hi
    split at hi
    · rename_i out s1 hr
      exact ih s1 s' (read_inv p hp s h out s1 hr) hi
    · cases hi

/-- from the initial state, no sequence of reads ever faults, for ANY input bytes
and ANY chunking of the input callback -/
theorem run_no_fault (p : Params) (hp : GoodParams p) (src : Src) (n : Nat) (s : St)
    (hs : iter p n (init p src) = some s) : ∀ w, read p s ≠ .fault w :=
  read_no_fault p hp s (iter_inv p hp n _ s (init_inv p hp src) hs)

/-- and every one of those reads yields at most 514 bytes -/
theorem run_len (p : Params) (hp : GoodParams p) (src : Src) (n : Nat) (s : St)
    (hs : iter p n (init p src) = some s) (out : List UInt8) (s' : St)
    (hr : read p s = .ok (out, s')) : out.length ≤ 514 :=
  read_len p hp s (iter_inv p hp n _ s (init_inv p hp src) hs) out s' hr

end LhasaV.LhNew
