import LhasaV.Model.Cli
/-!
# `src/main.c` option letters: what a successfully parsed command argument means
-/
namespace LhasaV.Cli

/-- the option letters proper: everything before the first `w` (which takes the rest as directory) -/
def flags (s : Bytes) : Bytes := s.takeWhile (· != 0x77)

/-- the directory given with `w`: the rest after the first `w`, minus one optional `=` -/
def wdir (s : Bytes) : Option Bytes :=
  match s.dropWhile (· != 0x77) with
  | [] => none
  | _ :: 0x3d :: dir => some dir
  | _ :: dir => some dir

theorem flags_cons_ne (c : UInt8) (r : Bytes) (h : (c == 0x77) = false) : flags (c :: r) = c :: flags r := by
  have : (c != 0x77) = true := by simp [bne, h]
  simp [flags, List.takeWhile_cons, this]

theorem wdir_cons_ne (c : UInt8) (r : Bytes) (h : (c == 0x77) = false) : wdir (c :: r) = wdir r := by
  have : (c != 0x77) = true := by simp [bne, h]
  simp [wdir, List.dropWhile_cons, this]

theorem digit_ne (d : UInt8) (h : 48 ≤ d ∧ d ≤ 57) :
    (d == 0x77) = false ∧ (d == 0x66) = false ∧ (d == 0x71) = false ∧ (d == 0x69) = false ∧
    (d == 0x6e) = false ∧ (d == 0x76) = false := by
  have h1 : 48 ≤ d.toNat := by simpa using UInt8.le_iff_toNat_le.mp h.1
  have h2 : d.toNat ≤ 57 := by simpa using UInt8.le_iff_toNat_le.mp h.2
  have key : ∀ k : UInt8, (k.toNat < 48 ∨ 57 < k.toNat) → (d == k) = false := by
    intro k hk
    cases hdk : d == k with
    | false => rfl
    | true => have : d = k := by simpa using hdk
              subst this; omega
  exact ⟨key _ (by decide), key _ (by decide), key _ (by decide), key _ (by decide), key _ (by decide), key _ (by decide)⟩

theorem contains_cons_ne (c x : UInt8) (l : Bytes) (h : (c == x) = false) :
    (c :: l).contains x = l.contains x := by
  have h' : (x == c) = false := by
    cases hx : x == c with
    | false => rfl
    | true => have : x = c := by simpa using hx
              subst this; simp at h
  rw [List.contains_cons, h', Bool.false_or]

theorem contains_cons_eq (c : UInt8) (l : Bytes) : (c :: l).contains c = true := by
  simp [List.contains_cons]

/-- **Meaning of the option letters**, for every option string the tool accepts:
overwrite-without-asking is in force exactly when it was before or an `f` or a `q` occurs among the
letters; paths are used unless an `i` occurs; dry run / verbose exactly with `n` / `v`; the
extraction directory is what follows the first `w` (one optional `=` dropped), else unchanged. -/
theorem parseOptions_spec (s : Bytes) (o o' : Options) (h : parseOptions s o = some o') :
    o'.overwriteAll = (o.overwriteAll || (flags s).contains 0x66 || (flags s).contains 0x71) ∧
    o'.usePath = (o.usePath && !(flags s).contains 0x69) ∧
    o'.dryRun = (o.dryRun || (flags s).contains 0x6e) ∧
    o'.verbose = (o.verbose || (flags s).contains 0x76) ∧
    o'.extractPath = (match wdir s with | some d => some d | none => o.extractPath) := by
  fun_induction parseOptions s o generalizing o' with
  | case1 o => simp at h; subst h; simp [flags, wdir]
  | case2 c rest o hc ih =>
    have hc' : c = 0x66 := by simpa using hc
    subst hc'
    have := ih o' h
    rw [flags_cons_ne _ _ (by decide), wdir_cons_ne _ _ (by decide)]
    simp_all
  | case3 c rest o hc1 hc ih =>
    have hc' : c = 0x69 := by simpa using hc
    subst hc'
    have := ih o' h
    rw [flags_cons_ne _ _ (by decide), wdir_cons_ne _ _ (by decide)]
    simp_all
  | case4 c rest o hc1 hc2 hc ih =>
    have hc' : c = 0x6e := by simpa using hc
    subst hc'
    have := ih o' h
    rw [flags_cons_ne _ _ (by decide), wdir_cons_ne _ _ (by decide)]
    simp_all
  | case5 c o hc1 hc2 hc3 hc d rest' hd ih =>
    have hc' : c = 0x71 := by simpa using hc
    subst hc'
    obtain ⟨dw, df, dq, di, dn, dv⟩ := digit_ne d hd
    have := ih o' h
    rw [flags_cons_ne _ _ (by decide), wdir_cons_ne _ _ (by decide), flags_cons_ne _ _ dw, wdir_cons_ne _ _ dw]
    rw [List.contains_cons, List.contains_cons (a := 0x71) (b := 0x71), List.contains_cons (a := 0x71) (b := 0x69),
      List.contains_cons (a := 0x71) (b := 0x6e), List.contains_cons (a := 0x71) (b := 0x76),
      contains_cons_ne _ _ _ df, contains_cons_ne _ _ _ dq, contains_cons_ne _ _ _ di,
      contains_cons_ne _ _ _ dn, contains_cons_ne _ _ _ dv]
    simp_all
  | case6 c o hc1 hc2 hc3 hc d rest' hd ih =>
    have hc' : c = 0x71 := by simpa using hc
    subst hc'
    have := ih o' h
    rw [flags_cons_ne _ _ (by decide), wdir_cons_ne _ _ (by decide)]
    simp_all
  | case7 c o hc1 hc2 hc3 hc =>
    have hc' : c = 0x71 := by simpa using hc
    subst hc'
    injection h with h; subst h
    simp [flags, wdir, List.takeWhile, List.dropWhile]
  | case8 c rest o hc1 hc2 hc3 hc4 hc ih =>
    have hc' : c = 0x76 := by simpa using hc
    subst hc'
    have := ih o' h
    rw [flags_cons_ne _ _ (by decide), wdir_cons_ne _ _ (by decide)]
    simp_all
  | case9 c o hc1 hc2 hc3 hc4 hc5 hc dir =>
    have hc' : c = 0x77 := by simpa using hc
    subst hc'
    injection h with h; subst h
    simp [flags, wdir, List.takeWhile, List.dropWhile]
  | case10 c o hc1 hc2 hc3 hc4 hc5 hc dir hne =>
    have hc' : c = 0x77 := by simpa using hc
    subst hc'
    injection h with h; subst h
    have hw : wdir (0x77 :: dir) = some dir := by
      unfold wdir
      simp only [List.dropWhile]
      split
      · rename_i heq; simp at heq
      · rename_i heq; simp at heq; exact absurd heq.2 (by intro h; exact hne _ h)
      · rename_i heq; simp at heq; simp [heq]
    rw [hw]
    simp [flags, List.takeWhile]
  | case11 => simp at h

/-- the command letter: `l`, `v`, `t`, `x`/`e`, `p` select the mode, every other first character
is rejected; the rest of the argument is the option string -/
theorem parseCommand_spec (cmd : Bytes) (m : Mode) (o : Options) (h : parseCommand cmd = some (m, o)) :
    ∃ c rest, cmd = c :: rest ∧ modeForChar c = some m ∧ parseOptions rest {} = some o := by
  cases cmd with
  | nil => simp [parseCommand] at h
  | cons c rest =>
    simp only [parseCommand] at h
    cases hm : modeForChar c with
    | none => rw [hm] at h; simp at h
    | some m' =>
      rw [hm] at h
      simp only [Option.map_eq_some_iff] at h
      obtain ⟨o'', ho, heq⟩ := h
      simp only [Option.some.injEq, Prod.mk.injEq] at heq
      obtain ⟨rfl, rfl⟩ := heq
      exact ⟨c, rest, rfl, hm, ho⟩

theorem modeForChar_extract (c : UInt8) : modeForChar c = some .extract ↔ (c = 0x78 ∨ c = 0x65) := by
  unfold modeForChar
  constructor
  · intro h
    by_cases hx : c = 0x78
    · exact Or.inl hx
    · by_cases he : c = 0x65
      · exact Or.inr he
      · exfalso
        have e1 : (c == 0x65 || c == 0x78) = false := by simp [hx, he]
        rw [e1] at h
        repeat (split at h <;> try simp at h)
  · rintro (rfl | rfl) <;> decide

theorem stripDash_spec (cmd : Bytes) : stripDash cmd = cmd ∨ cmd = 0x2d :: stripDash cmd := by
  unfold stripDash
  split
  · exact Or.inr rfl
  · exact Or.inl rfl

end LhasaV.Cli
