import LhasaV.Lemmas.ExtractTree15
/-!
# C06: executable end-to-end checks (not proofs)

Real archive bytes (level-2 headers built with `Spec.HeaderEnc.encode`, stored members) for the
two-level tree `sampleTree`: the hypothesis `Denotes` of `extract_tree` holds for them
(`denotesB`, sound by `denotesB_sound`), and `Extract.run` produces exactly `treeOf sampleTree` —
as root and as an ordinary user, the directories being read-only (0555).  Then the orderings for
which a directory does NOT end with its recorded metadata.  `#guard` evaluates; nothing here is
used by a theorem.
-/
namespace LhasaV.ExtractTree.Check
open LhasaV LhasaV.Extract LhasaV.Contain LhasaV.Spec.HeaderEnc LhasaV.ExtractTree.Sample

def fsFor (root : Bool) : Fs.St := { sampleFs with root := root }

/-- all places to compare: every entry path, every prefix, and a path that is not in the archive -/
def probes (es : List Entry) : List Fs.Path :=
  (es.map Entry.path) ++ [[[0x71]], [[0x61], [0x71]]]

def agrees (root : Bool) (es : List Entry) : Bool :=
  let fs := fsFor root
  let r := run (archiveOf es) {} fs []
  r.result && !r.aborted &&
  (probes es).all (fun p => Fs.lookup r.fs (fs.cwd ++ p) == treeOf fs.now fs.umask es p) &&
  -- nothing else below the extraction directory
  r.fs.ents.all (fun x => x.1 == fs.cwd || (es.map Entry.path).any (fun p => fs.cwd ++ p == x.1)) &&
  Fs.lookup r.fs fs.cwd == some (.dir 0o755 fs.now)

-- the hypothesis of `extract_tree` holds for the real bytes …
#guard denotesB (runFuel (archiveOf sampleTree)) (runInit (archiveOf sampleTree) {} (fsFor true) []) sampleTree
#guard denotesB (runFuel (archiveOf sampleTree)) (runInit (archiveOf sampleTree) {} (fsFor false) []) sampleTree
#guard decide (2 * sampleTree.length + 1 ≤ runFuel (archiveOf sampleTree))
-- … and the conclusion is what the model computes
#guard agrees true sampleTree
#guard agrees false sampleTree

/-! ### orderings outside `WellFormed`: the directory does NOT end with its recorded metadata -/

def a : Bytes := [0x61]
def x : Bytes := [0x78]
def z : Bytes := [0x7a]

/-- `a/` interrupted by `z`: `a` is closed (0755, time 111) when `z` arrives; `a/x` then stamps it -/
def interrupted : List Entry :=
  [.dir [a] (some 0o40755) 111, .file [z] [1] (some 0o100644) 5, .file [a, x] [2] (some 0o100644) 6]

#guard (let r := run (archiveOf interrupted) {} (fsFor true) []
        r.result && Fs.lookup r.fs ([[0x72]] ++ [a]) == some (.dir 0o755 (fsFor true).now))

/-- the same with a read-only directory, as an ordinary user: `a/x` cannot be created any more -/
def interruptedRO : List Entry :=
  [.dir [a] (some 0o40555) 111, .file [z] [1] (some 0o100644) 5, .file [a, x] [2] (some 0o100644) 6]

#guard (let r := run (archiveOf interruptedRO) {} (fsFor false) []
        !r.result && Fs.lookup r.fs ([[0x72]] ++ [a, x]) == none)

/-- the directory entry after its contents: `a` keeps 0755 and the time of the run
(`extract_dir_existing`), the run "succeeds" -/
def dirLast : List Entry := [.file [a, x] [2] (some 0o100644) 6, .dir [a] (some 0o40555) 111]

#guard (let r := run (archiveOf dirLast) {} (fsFor true) []
        r.result && Fs.lookup r.fs ([[0x72]] ++ [a]) == some (.dir 0o755 (fsFor true).now))

/-- a safe link `l -> a` followed by `l/x`: the file lands in `a`, which was closed already -/
def viaLink : List Entry :=
  [.dir [a] (some 0o40755) 111, .link [[0x6c]] a, .file [[0x6c], x] [2] (some 0o100644) 6]

#guard (let r := run (archiveOf viaLink) {} (fsFor true) []
        r.result && Fs.lookup r.fs ([[0x72]] ++ [a]) == some (.dir 0o755 (fsFor true).now) &&
        (Fs.lookup r.fs ([[0x72]] ++ [a, x])).isSome)

end LhasaV.ExtractTree.Check
