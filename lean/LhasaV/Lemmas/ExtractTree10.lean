import LhasaV.Lemmas.ExtractTree9
/-!
# C06 (part 10): the loop invariant and its two steps

`LoopInv fs₀ done stk rest s`: the entries `done` are extracted, the directories `stk` are open
(on the reader's stack, innermost first), the entries `rest` are still to come.

* `step_close`: the reader re-presents the innermost open directory; its metadata step gives it
  its final form.
* `step_new`: the reader presents the next entry; it is created below its (open) parent.
-/
namespace LhasaV.ExtractTree
open LhasaV LhasaV.Header LhasaV.Extract LhasaV.GlobFs LhasaV.Contain

/-- the reader's directory stack holds headers that denote the open directories -/
def StackRel : List Reader.HObj → List Entry → Prop
  | [], [] => True
  | o :: os, e :: es => HdrOf e o.h ∧ StackRel os es
  | _, _ => False

/-- the basic reader's current header is the next entry (or the stream is at its end) -/
def Pending (bc : Option Reader.HObj) (rest : List Entry) : Prop :=
  match rest with
  | [] => bc = none
  | e :: _ => ∃ c, bc = some c ∧ HdrOf e c.h

structure RdInv (rd : Reader.St) (stk rest : List Entry) : Prop where
  policy : rd.policy = .endOfDir
  deferred : rd.deferred = []
  stack : StackRel rd.dirStack stk
  ty : rd.currType = .start ∨ rd.currType = .normal ∨ rd.currType = .fakeDir
  pending : rd.currType = .fakeDir → Pending rd.basic.curr rest

/-- the part of the loop invariant that does not concern the reader -/
structure CoreInv (fs0 : Fs.St) (done stk rest : List Entry) (s : Extract.St) : Prop where
  aborted : s.aborted = false
  result : s.result = true
  opts : OptsOk s.opts
  fs : FsInv fs0 done (stk.map Entry.path) s.fs
  ok : DoneOk done stk
  wf : WF (stk.map Entry.path) (done.map Entry.path) rest

structure LoopInv (fs0 : Fs.St) (done stk rest : List Entry) (s : Extract.St) : Prop where
  core : CoreInv fs0 done stk rest s
  rd : RdInv s.rd stk rest

/-! ## closing the innermost open directory -/

theorem final_dir_mode (h : Hdr) (perms : Option Nat) (umask : Nat) (hp : permsOf h = perms) :
    (if hasFlag h Gen.flagUnixPerms then h.unixPerms % 4096 else openMode umask perms) =
    dirMode umask perms := by
  unfold permsOf at hp
  by_cases hf : hasFlag h Gen.flagUnixPerms = true
  · rw [if_pos hf] at hp; subst hp; simp [hf, dirMode]
  · rw [if_neg hf] at hp; subst hp; simp [hf, dirMode, openMode]

theorem step_close {fs0 : Fs.St} {done stk rest : List Entry} {d : Entry} (s : Extract.St)
    (top : Reader.HObj)
    (hi : CoreInv fs0 done (d :: stk) rest s) (ha : Access fs0)
    (hpol : s.rd.policy = .endOfDir) (hdef : s.rd.deferred = [])
    (hty : s.rd.currType = .fakeDir) (hcur : s.rd.curr = some top)
    (hh : HdrOf d top.h) (hstack : StackRel s.rd.dirStack stk)
    (hpend : Pending s.rd.basic.curr rest)
    (hout : ∀ e tl, rest = e :: tl → ¬ d.path <+: e.dirPart) :
    LoopInv fs0 done stk rest (extractArchivedFile s top.h) := by
  obtain ⟨hdd, hdir⟩ := hi.ok.sub d (by simp)
  have hk : EntryOk d := hi.ok.ok d hdd
  have hfn : fileFullPath top.h s.opts = fullOf d := fullPath_of hh hk s.opts hi.opts.xp hi.opts.up
  have hfull : fullOf d = joinDir d.path := by simp [fullOf, hdir]
  have pf := pathFacts_of hk
  have hchain := hi.ok.chain
  simp only [List.map_cons] at hchain
  -- the directories above `d` are open
  have hpre : ∀ pre, pre ≠ [] → pre <+: d.path → pre ≠ d.path →
      pre ∈ (d :: stk).map Entry.path := by
    intro pre h0 hp hne
    have := pre_mem_of_parent hchain.2.2 d.path hchain.2.1.symm pre h0 hp hne
    simp [this]
  have hw := walk_of_inv hi.fs hi.ok ha d.path hpre
  have hcwd : s.fs.cwd = fs0.cwd := hi.fs.params.cwd
  have hT : Target s.fs (fullOf d) d.path :=
    ⟨pf.rel, pf.comps, hk.ne, names_good hk.names, hk.depth, by rw [hcwd]; exact hw⟩
  -- `d` is there in its provisional form
  have hl := hi.fs.ents d hdd
  rw [if_pos (by simp)] at hl
  cases d with
  | file _ _ _ _ => cases hdir
  | link _ _ => cases hdir
  | dir p perms mtime =>
  obtain ⟨_, _, hm, hs, hpm, htm⟩ := hh
  have hl' : Fs.lookup s.fs (s.fs.cwd ++ p) = some (.dir (openMode fs0.umask perms) fs0.now) := by
    rw [hcwd]; exact hl
  obtain ⟨e1, e2, e3⟩ := extract_fake_effect s.rd s.fs (fullOf (.dir p perms mtime)) p top hty hcur hT _ _ hl'
  rw [final_dir_mode top.h perms fs0.umask hpm, htm, hcwd] at e3
  -- `extract_archived_file`
  have hrun := eaf_run s top.h hi.opts.up
    (Or.inl (isDirEntry_of (e := .dir p perms mtime) ⟨by assumption, by assumption, hm, hs, hpm, htm⟩ rfl))
    (by unfold parentsOf; simp [hty])
  rw [hfn] at hrun
  rw [hrun]
  have hts : p ∉ stk.map Entry.path := by
    have := hi.ok.snodup
    simp only [List.map_cons, List.nodup_cons] at this
    exact this.1
  refine ⟨⟨hi.aborted, ?_, hi.opts, ?_, ?_, ?_⟩, ?_⟩
  rotate_left 4
  · show RdInv (readerExtract s.rd s.fs _).2.1 stk rest
    rw [e2]
    exact ⟨hpol, hdef, hstack, Or.inr (Or.inr hty), fun _ => hpend⟩
  · show (s.result && _) = true
    rw [hi.result, e1]; rfl
  · show FsInv fs0 done (stk.map Entry.path) (readerExtract s.rd s.fs _).2.2
    exact hi.fs.close hdd rfl hk.ne hts
      (fun e' he' hp => eq_of_path_eq done hi.ok.nodup e' he' _ hdd hp) e3
  · refine ⟨hi.ok.ok, hi.ok.nodup, fun x hx => hi.ok.sub x (List.mem_cons_of_mem _ hx), hchain.2.2, ?_⟩
    have := hi.ok.snodup
    simp only [List.map_cons, List.nodup_cons] at this
    exact this.2
  · have hwf := hi.wf
    cases rest with
    | nil => trivial
    | cons e tl =>
      simp only [List.map_cons] at hwf
      exact (WF_pop p _ _ e tl (hout e tl rfl)).1 hwf

end LhasaV.ExtractTree
