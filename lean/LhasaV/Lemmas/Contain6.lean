import LhasaV.Lemmas.Contain5
/-!
# C10 (part 6): members NAMED ".."

The C11 invariant does not exclude a member whose constructed path ENDS in a ".." component
(`GlobFs.dotdot_name_possible`; also a stored path cut short by a NUL byte followed by "." + ".").
Such a path is not ".."-free, so `safe_resolve_below_cwd` does not apply.  But:

* every component except the last is still a real name, so `make_parent_directories` only sees
  relative ".."-free prefixes (`makeParents_contained'`);
* if the extraction directory and its parent are directories (`DirsOk`), the whole path resolves
  to an EXISTING DIRECTORY (`resolvePath_dd`), on which `unlink`, `open(O_EXCL)`, `mkdir` and
  `symlink` all fail without changing anything (`mkdir_dd`, `archFopen_dd`, `archSymlink_dd`), so
  `lha_reader_extract` changes nothing and stores nothing (`readerExtract_dd`);
* no operation ever removes a directory or turns it into something else (`DirMono`), in any
  state, so `DirsOk` is an invariant of the run.
-/
namespace LhasaV.Contain
open LhasaV LhasaV.Header LhasaV.Extract LhasaV.GlobFs

def IsDir (fs : Fs.St) (p : Fs.Path) : Prop := ∃ m t, Fs.lookup fs p = some (.dir m t)

/-- the extraction directory and its parent are directories -/
def DirsOk (fs : Fs.St) : Prop := IsDir fs fs.cwd ∧ IsDir fs fs.cwd.dropLast

/-- relative, and every component except the last is not ".." -/
def DirsClean (p : Bytes) : Prop :=
  p.head? ≠ some 0x2f ∧ ∀ c ∈ (Fs.splitPath p).dropLast, c ≠ [0x2e, 0x2e]

/-- `DirsClean`, and the last component IS ".." -/
def DotDotLast (p : Bytes) : Prop := DirsClean p ∧ (Fs.splitPath p).getLast? = some [0x2e, 0x2e]

theorem RelClean.dirsClean {p : Bytes} (h : RelClean p) : DirsClean p :=
  ⟨h.1, fun c hc => h.2 c (List.dropLast_subset _ hc)⟩

/-- a `DirsClean` path is ".."-free or ends in ".." -/
theorem dirsClean_cases (p : Bytes) (h : DirsClean p) : RelClean p ∨ DotDotLast p := by
  by_cases hl : (Fs.splitPath p).getLast? = some [0x2e, 0x2e]
  · exact Or.inr ⟨h, hl⟩
  · left
    refine ⟨h.1, ?_⟩
    intro c hc
    rcases mem_split_cases p c hc with hc | hc
    · exact h.2 c hc
    · rintro rfl; exact hl hc

/-! ## prefixes cut at a separator are ".."-free -/

theorem noDotDot_left' (x y : Bytes) (h : DirsClean (x ++ 0x2f :: y)) : RelClean x := by
  refine ⟨head_prefix_rel x _ h.1, ?_⟩
  intro c hc
  apply h.2 c
  rw [split_append, List.dropLast_append_of_ne_nil (split_ne_nil y)]
  exact List.mem_append_left _ hc

theorem dirsClean_take (p : Bytes) (hp : DirsClean p) (i : Nat) (hi : i < p.length)
    (hs : p.getD i 0 = 0x2f) : RelClean (p.take i) := by
  have := split_at_slash p i hi hs
  rw [this] at hp
  exact noDotDot_left' _ _ hp

theorem dirsClean_trim (p : Bytes) (hp : DirsClean p) :
    DirsClean ((p.reverse.dropWhile (· == 0x2f)).reverse) := by
  have hsplit : p = (p.reverse.dropWhile (· == 0x2f)).reverse ++ (p.reverse.takeWhile (· == 0x2f)).reverse := by
    have := List.takeWhile_append_dropWhile (p := (· == (0x2f : UInt8))) (l := p.reverse)
    have h2 := congrArg List.reverse this
    rw [List.reverse_append, List.reverse_reverse] at h2
    exact h2.symm
  cases htl : (p.reverse.takeWhile (· == 0x2f)).reverse with
  | nil => rw [htl, List.append_nil] at hsplit; rw [← hsplit]; exact hp
  | cons b tl =>
    have hb : b = 0x2f := by
      have hm : b ∈ p.reverse.takeWhile (· == 0x2f) := by
        rw [← List.mem_reverse, htl]; simp
      simpa using mem_takeWhile_pred _ _ _ hm
    subst hb
    rw [htl] at hsplit
    rw [hsplit] at hp
    exact (noDotDot_left' _ _ hp).dirsClean

/-- `make_parent_directories` needs only `DirsClean`: it never looks at the last component -/
theorem makeParents_contained' (fs : Fs.St) (hs : SafeLinks fs) (path : Bytes) (hp : DirsClean path) :
    Contained fs (makeParentDirectories fs path).2 := by
  unfold makeParentDirectories
  simp only
  apply parents_fold_contained fs _ _ _ (true, fs) (Contained.refl fs hs)
  intro i hi
  obtain ⟨h1, h2⟩ := mem_prefixEnds _ i hi
  exact dirsClean_take _ (dirsClean_trim path hp) i h1 h2

/-! ## a path ending in ".." resolves to an existing directory -/

theorem resolve_dotdot_last (s : Fs.St) (fl : Bool) (f : Nat) (cur q : Fs.Path)
    (h : Fs.resolve s fl (f + 1) cur [[0x2e, 0x2e]] = .ok q) : q = cur.dropLast := by
  rw [Fs.resolve] at h
  simp only [show ¬ (([0x2e, 0x2e] : Bytes) = [] ∨ ([0x2e, 0x2e] : Bytes) = [0x2e]) by decide,
    if_false, if_true] at h
  cases f with
  | zero => rw [resolve_zero] at h; cases h
  | succ f' => rw [resolve_nil] at h; injection h with h; exact h.symm

theorem resolve_dd (s : Fs.St) (hs : SafeLinks s) (fl : Bool) :
    ∀ (fuel : Nat) (cur : Fs.Path) (cs : List Bytes) (q : Fs.Path),
      s.cwd <+: cur → IsDir s cur → IsDir s cur.dropLast → (∀ c ∈ cs, c ≠ [0x2e, 0x2e]) →
      Fs.resolve s fl fuel cur (cs ++ [[0x2e, 0x2e]]) = .ok q → IsDir s q := by
  intro fuel
  induction fuel with
  | zero =>
    intro cur cs q _ _ _ _ h
    rw [resolve_zero] at h; cases h
  | succ f ih =>
    intro cur cs q hcur hd1 hd2 hnd h
    cases cs with
    | nil =>
      rw [List.nil_append] at h
      rw [resolve_dotdot_last s fl f cur q h]; exact hd2
    | cons c rest =>
      have hc : c ≠ [0x2e, 0x2e] := hnd c (by simp)
      have hrest : ∀ x ∈ rest, x ≠ [0x2e, 0x2e] := fun x hx => hnd x (by simp [hx])
      have hne : rest ++ [[0x2e, 0x2e]] ≠ [] := by simp
      rw [List.cons_append, Fs.resolve] at h
      split at h
      · exact ih cur rest q hcur hd1 hd2 hrest h
      · try rw [if_neg hc] at h
        split at h
        · cases h
        · simp only at h
          split at h
          · -- a link: followed, as it is not the last component
            rename_i t hl
            rw [if_neg (by intro hh; exact hne hh.1)] at h
            have hsafe := hs (cur ++ [c]) t (prefix_snoc _ _ _ hcur) hl
            rw [mapAbs_rel s t hsafe.1] at h
            have hb : (List.head? t == some 47) = false := by simpa using hsafe.1
            simp only [hb, Bool.false_eq_true, if_false] at h
            rw [← List.append_assoc] at h
            refine ih cur (Fs.splitPath t ++ rest) q hcur hd1 hd2 ?_ h
            intro x hx
            rcases List.mem_append.1 hx with hx | hx
            · exact hsafe.2 x hx
            · exact hrest x hx
          · rename_i m t hl
            refine ih (cur ++ [c]) rest q (prefix_snoc _ _ _ hcur) ⟨m, t, hl⟩ ?_ hrest h
            rw [List.dropLast_concat]; exact hd1
          · split at h
            · first | (rw [if_neg hne] at h; cases h) | cases h
            · cases h
          · first | (rw [if_neg hne] at h; cases h) | cases h

theorem comps_dd (p : Bytes) (hp : DotDotLast p) :
    ∃ pre, comps p = pre ++ [[0x2e, 0x2e]] ∧ ∀ c ∈ pre, c ≠ [0x2e, 0x2e] := by
  have hsp := List.dropLast_concat_getLast (split_ne_nil p)
  have hlast : (Fs.splitPath p).getLast (split_ne_nil p) = [0x2e, 0x2e] := by
    have := hp.2
    rw [List.getLast?_eq_some_getLast (split_ne_nil p)] at this
    injection this
  rw [hlast] at hsp
  refine ⟨(Fs.splitPath p).dropLast.filter (fun c => c ≠ [] ∧ c ≠ [0x2e]), ?_, ?_⟩
  · unfold comps
    conv => lhs; rw [← hsp]
    rw [List.filter_append]
    congr 1
  · intro c hc
    exact hp.1.2 c (List.mem_filter.1 hc).1

/-- **in a `SafeLinks` state whose extraction directory and its parent are directories, a path
whose last component is ".." resolves to an existing directory** -/
theorem resolvePath_dd (fs : Fs.St) (hs : SafeLinks fs) (hd : DirsOk fs) (fl : Bool) (p : Bytes)
    (q : Fs.Path) (hp : DotDotLast p) (hr : Fs.resolvePath fs fl p = some q) : IsDir fs q := by
  have hne : p ≠ [] := by
    intro h; subst h; rw [resolvePath_nil] at hr; cases hr
  unfold Fs.resolvePath at hr
  rw [resolveRR_rel fs fl p hp.1.1 hne] at hr
  obtain ⟨pre, hpre, hnd⟩ := comps_dd p hp
  rw [hpre] at hr
  cases hres : Fs.resolve fs fl 64 fs.cwd (pre ++ [[0x2e, 0x2e]]) with
  | ok r =>
    rw [hres] at hr
    have : r = q := by simpa using hr
    subst this
    exact resolve_dd fs hs fl 64 fs.cwd pre r (List.prefix_refl _) hd.1 hd.2 hnd hres
  | enoent => rw [hres] at hr; simp at hr
  | eother => rw [hres] at hr; simp at hr

/-! ## on an existing directory every creating / removing call fails -/

/-- "whatever `path` resolves to (last component not followed) is an existing directory" -/
def ToDir (s : Fs.St) (path : Bytes) : Prop := ∀ q, Fs.resolvePath s false path = some q → IsDir s q

theorem mkdir_dd (s : Fs.St) (path : Bytes) (mode : Nat) (h : ToDir s path) :
    Fs.mkdir s path mode = (false, s) := by
  unfold Fs.mkdir
  split
  · rfl
  · rename_i q hq
    obtain ⟨m, t, hl⟩ := h q hq
    split
    · rfl
    · rw [if_pos (by rw [hl]; rfl)]

theorem unlink_dd (s : Fs.St) (path : Bytes) (h : ToDir s path) : Fs.unlink s path = (false, s) := by
  unfold Fs.unlink
  split
  · rfl
  · rename_i q hq
    obtain ⟨m, t, hl⟩ := h q hq
    rw [hl]

theorem openExcl_dd (s : Fs.St) (path : Bytes) (h : ToDir s path) : Fs.openExcl s path = (none, s) := by
  unfold Fs.openExcl
  split
  · rfl
  · rename_i q hq
    obtain ⟨m, t, hl⟩ := h q hq
    rw [if_pos (Or.inr (by rw [hl]; rfl))]

theorem symlink_dd (s : Fs.St) (path target : Bytes) (h : ToDir s path) :
    Fs.symlink s path target = (false, s) := by
  unfold Fs.symlink
  split
  · rfl
  · rename_i q hq
    obtain ⟨m, t, hl⟩ := h q hq
    rw [if_pos (Or.inr (by rw [hl]; rfl))]

theorem archFopen_dd (s : Fs.St) (path : Bytes) (perms : Option Nat) (h : ToDir s path) :
    Fs.archFopen s path perms = (none, s) := by
  unfold Fs.archFopen
  simp only [unlink_dd s path h, openExcl_dd s path h]

theorem archSymlink_dd (s : Fs.St) (path target : Bytes) (h : ToDir s path) :
    Fs.archSymlink s path target = (false, s) := by
  unfold Fs.archSymlink
  rw [unlink_dd s path h, symlink_dd s path target h]

theorem toDir_of_dd (fs : Fs.St) (hs : SafeLinks fs) (hd : DirsOk fs) (p : Bytes) (hp : DotDotLast p) :
    ToDir fs p := fun q hq => resolvePath_dd fs hs hd false p q hp hq

/-- **`lha_reader_extract` on a normal entry whose path resolves to an existing directory**:
nothing is changed, and the reader is told that the deciding call failed -/
theorem readerExtract_toDir (rd : Reader.St) (fs : Fs.St) (fn : Bytes) (ht : rd.currType = .normal)
    (h : ToDir fs fn) :
    (readerExtract rd fs fn).2.2 = fs ∧ (readerExtract rd fs fn).2.1 = (Reader.extract rd false).2 := by
  unfold readerExtract
  rw [ht]
  cases hc : rd.curr with
  | none => simp [Reader.extract, ht, hc]
  | some c =>
    simp only [archFopen_dd fs fn _ h, archSymlink_dd fs fn _ h, mkdir_dd fs fn _ h,
      Option.isSome_none, Bool.not_false, if_true]
    repeat' split
    all_goals exact ⟨rfl, rfl⟩

theorem readerExtract_dd (rd : Reader.St) (fs : Fs.St) (fn : Bytes) (ht : rd.currType = .normal)
    (hs : SafeLinks fs) (hd : DirsOk fs) (hp : DotDotLast fn) :
    (readerExtract rd fs fn).2.2 = fs ∧ (readerExtract rd fs fn).2.1 = (Reader.extract rd false).2 :=
  readerExtract_toDir rd fs fn ht (toDir_of_dd fs hs hd fn hp)

/-! ## no operation removes a directory or replaces it -/

structure DirMono (s s' : Fs.St) : Prop where
  cwd : s'.cwd = s.cwd
  dirs : ∀ x, IsDir s x → IsDir s' x

theorem DirMono.refl (s : Fs.St) : DirMono s s := ⟨rfl, fun _ h => h⟩

theorem DirMono.trans {a b c : Fs.St} (h1 : DirMono a b) (h2 : DirMono b c) : DirMono a c :=
  ⟨h2.cwd.trans h1.cwd, fun x h => h2.dirs x (h1.dirs x h)⟩

theorem DirMono.dirsOk {a b : Fs.St} (h : DirMono a b) (hd : DirsOk a) : DirsOk b := by
  unfold DirsOk
  rw [h.cwd]
  exact ⟨h.dirs _ hd.1, h.dirs _ hd.2⟩

theorem dirMono_setEnt (s : Fs.St) (k : Fs.Path) (e : Fs.Ent)
    (h : IsDir s k → ∃ m t, e = .dir m t) : DirMono s (Fs.setEnt s k e) := by
  refine ⟨setEnt_cwd s k e, ?_⟩
  intro x hx
  by_cases hxk : x = k
  · subst hxk
    by_cases h0 : x = []
    · subst h0; exact ⟨_, _, lookup_root _⟩
    · obtain ⟨m, t, rfl⟩ := h hx
      exact ⟨m, t, lookup_setEnt_eq s x _ h0⟩
  · obtain ⟨m, t, hl⟩ := hx
    exact ⟨m, t, by rw [lookup_setEnt_ne s k x e hxk]; exact hl⟩

theorem dirMono_delEnt (s : Fs.St) (k : Fs.Path) (h : ¬ IsDir s k) : DirMono s (Fs.delEnt s k) := by
  refine ⟨rfl, ?_⟩
  intro x hx
  by_cases hxk : x = k
  · subst hxk; exact absurd hx h
  · obtain ⟨m, t, hl⟩ := hx
    exact ⟨m, t, by rw [lookup_delEnt_ne s k x hxk]; exact hl⟩

theorem dirMono_stampParent (s : Fs.St) (p : Fs.Path) : DirMono s (Fs.stampParent s p) := by
  simp only [Fs.stampParent]
  split
  · split
    · exact DirMono.refl s
    · exact dirMono_setEnt s _ _ (fun _ => ⟨_, _, rfl⟩)
  · exact DirMono.refl s

theorem dirMono_logMut (s : Fs.St) (op : String) (p : Fs.Path) : DirMono s (Fs.logMut s op p) :=
  ⟨rfl, fun _ h => h⟩

theorem not_isDir_of_none (s : Fs.St) (q : Fs.Path) (h : ¬ (Fs.lookup s q).isSome = true) : ¬ IsDir s q := by
  rintro ⟨m, t, hl⟩; rw [hl] at h; exact h rfl

theorem not_isDir_of_file (s : Fs.St) (q : Fs.Path) (d : Bytes) (m t : Nat)
    (h : Fs.lookup s q = some (.file d m t)) : ¬ IsDir s q := by
  rintro ⟨m', t', hl⟩; rw [hl] at h; cases h

/-- a new entry where there was none, then parent stamp and log -/
theorem dirMono_create (s : Fs.St) (q : Fs.Path) (e : Fs.Ent) (op : String)
    (h : ¬ IsDir s q) : DirMono s (Fs.logMut (Fs.stampParent (Fs.setEnt s q e) q) op q) :=
  ((dirMono_setEnt s q e (fun hd => absurd hd h)).trans (dirMono_stampParent _ _)).trans
    (dirMono_logMut _ _ _)

theorem mkdir_dirMono (s : Fs.St) (path : Bytes) (mode : Nat) : DirMono s (Fs.mkdir s path mode).2 := by
  unfold Fs.mkdir
  repeat' split
  all_goals first
    | exact DirMono.refl s
    | exact dirMono_create s _ _ _ (not_isDir_of_none s _ (by assumption))

theorem unlink_dirMono (s : Fs.St) (path : Bytes) : DirMono s (Fs.unlink s path).2 := by
  unfold Fs.unlink
  split
  · exact DirMono.refl s
  · rename_i q hq
    cases hl : Fs.lookup s q with
    | none => exact DirMono.refl s
    | some e =>
      have key : ¬ IsDir s q → DirMono s
          (if q = [] ∨ (!Fs.canModify s q.dropLast) = true then (false, s)
           else (true, Fs.logMut (Fs.stampParent (Fs.delEnt s q) q) "unlink" q)).2 := by
        intro hn
        split
        · exact DirMono.refl s
        · exact ((dirMono_delEnt s q hn).trans (dirMono_stampParent _ _)).trans (dirMono_logMut _ _ _)
      cases e with
      | dir m t => exact DirMono.refl s
      | file d m t => exact key (not_isDir_of_file s q d m t hl)
      | link t => exact key (by rintro ⟨m', t', h'⟩; rw [hl] at h'; cases h')

theorem openExcl_dirMono (s : Fs.St) (path : Bytes) : DirMono s (Fs.openExcl s path).2 := by
  unfold Fs.openExcl
  split
  · exact DirMono.refl s
  · rename_i q hq
    split
    · exact DirMono.refl s
    · rename_i hno
      have hn : ¬ IsDir s q := not_isDir_of_none s q (fun h => hno (Or.inr h))
      repeat' split
      all_goals first
        | exact DirMono.refl s
        | exact dirMono_create s _ _ _ hn

theorem symlink_dirMono (s : Fs.St) (path target : Bytes) : DirMono s (Fs.symlink s path target).2 := by
  unfold Fs.symlink
  split
  · exact DirMono.refl s
  · rename_i q hq
    split
    · exact DirMono.refl s
    · rename_i hno
      have hn : ¬ IsDir s q := not_isDir_of_none s q (fun h => hno (Or.inr h))
      repeat' split
      all_goals first
        | exact DirMono.refl s
        | exact dirMono_create s _ _ _ hn

theorem fchmod_dirMono (s : Fs.St) (p : Fs.Path) (mode : Nat) : DirMono s (Fs.fchmod s p mode) := by
  unfold Fs.fchmod
  split
  · rename_i d m t hl
    exact dirMono_setEnt s _ _ (fun hd => absurd hd (not_isDir_of_file s p d m t hl))
  · exact DirMono.refl s

theorem writeAll_dirMono (s : Fs.St) (p : Fs.Path) (data : Bytes) : DirMono s (Fs.writeAll s p data) := by
  unfold Fs.writeAll
  split
  · rename_i d m t hl
    exact (dirMono_setEnt s _ _ (fun hd => absurd hd (not_isDir_of_file s p d m t hl))).trans
      (dirMono_logMut _ _ _)
  · exact DirMono.refl s

theorem chmod_dirMono (s : Fs.St) (path : Bytes) (mode : Nat) : DirMono s (Fs.chmod s path mode).2 := by
  unfold Fs.chmod
  split
  · exact DirMono.refl s
  · rename_i q hq
    split
    · split
      · exact DirMono.refl s
      · exact (dirMono_setEnt s _ _ (fun _ => ⟨_, _, rfl⟩)).trans (dirMono_logMut _ _ _)
    · rename_i d m t hl
      exact (dirMono_setEnt s _ _ (fun hd => absurd hd (not_isDir_of_file s q d m t hl))).trans
        (dirMono_logMut _ _ _)
    · exact DirMono.refl s

theorem utime_dirMono (s : Fs.St) (path : Bytes) (t : Nat) : DirMono s (Fs.utime s path t).2 := by
  unfold Fs.utime
  split
  · exact DirMono.refl s
  · rename_i q hq
    split
    · split
      · exact DirMono.refl s
      · exact (dirMono_setEnt s _ _ (fun _ => ⟨_, _, rfl⟩)).trans (dirMono_logMut _ _ _)
    · rename_i d m t' hl
      exact (dirMono_setEnt s _ _ (fun hd => absurd hd (not_isDir_of_file s q d m t' hl))).trans
        (dirMono_logMut _ _ _)
    · exact DirMono.refl s

theorem archFopen_dirMono (s : Fs.St) (path : Bytes) (perms : Option Nat) :
    DirMono s (Fs.archFopen s path perms).2 := by
  have h1 := (unlink_dirMono s path).trans (openExcl_dirMono (Fs.unlink s path).2 path)
  unfold Fs.archFopen
  simp only
  split
  · exact h1
  · split
    · exact h1.trans (fchmod_dirMono _ _ _)
    · exact h1

theorem archSymlink_dirMono (s : Fs.St) (path target : Bytes) :
    DirMono s (Fs.archSymlink s path target).2 := by
  unfold Fs.archSymlink
  exact (unlink_dirMono s path).trans (symlink_dirMono _ path target)

theorem checkParent_dirMono (fs : Fs.St) (path : Bytes) : DirMono fs (checkParentDirectory fs path).2 := by
  unfold checkParentDirectory
  split
  · exact DirMono.refl fs
  · exact mkdir_dirMono fs path _
  · exact DirMono.refl fs
  · exact DirMono.refl fs

theorem parents_fold_dirMono (fs0 : Fs.St) (trimmed : Bytes) (l : List Nat) :
    ∀ acc : Bool × Fs.St, DirMono fs0 acc.2 →
      DirMono fs0 (l.foldl (fun (acc : Bool × Fs.St) i =>
        if !acc.1 then acc else checkParentDirectory acc.2 (trimmed.take i)) acc).2 := by
  induction l with
  | nil => intro acc h; exact h
  | cons i l ih =>
    intro acc h
    rw [List.foldl_cons]
    apply ih
    split
    · exact h
    · exact h.trans (checkParent_dirMono acc.2 _)

theorem makeParents_dirMono (fs : Fs.St) (path : Bytes) : DirMono fs (makeParentDirectories fs path).2 := by
  unfold makeParentDirectories
  simp only
  exact parents_fold_dirMono fs _ _ (true, fs) (DirMono.refl fs)

theorem setDirMeta_dirMono (fs : Fs.St) (h : Hdr) (path : Bytes) :
    DirMono fs (setDirectoryMetadata fs h path) := by
  unfold setDirectoryMetadata
  simp only
  have h1 : DirMono fs (if h.timestamp ≠ 0 then (Fs.utime fs path h.timestamp).2 else fs) := by
    split
    · exact utime_dirMono fs path _
    · exact DirMono.refl fs
  split
  · exact h1.trans (chmod_dirMono _ path _)
  · exact h1

/-- `lha_reader_extract`, any entry, any state, any name -/
theorem readerExtract_dirMono (rd : Reader.St) (fs : Fs.St) (fn : Bytes) :
    DirMono fs (readerExtract rd fs fn).2.2 := by
  unfold readerExtract
  split
  · rename_i c _ _
    simp only
    split
    · split
      · exact DirMono.refl fs
      · have hf := archFopen_dirMono fs fn
          (if hasFlag c.h Gen.flagUnixPerms then some c.h.unixPerms else none)
        split
        · exact hf
        · simp only
          split
          · exact (hf.trans (writeAll_dirMono _ _ _)).trans (utime_dirMono _ fn _)
          · exact hf.trans (writeAll_dirMono _ _ _)
    · split
      · split
        · exact archFopen_dirMono fs fn _
        · exact archSymlink_dirMono fs fn _
      · have hm := fun mode => mkdir_dirMono fs fn mode
        repeat' split
        all_goals first
          | exact hm _
          | exact (hm _).trans (setDirMeta_dirMono _ c.h fn)
  · exact setDirMeta_dirMono fs _ fn
  · simp only
    split
    · exact DirMono.refl fs
    · exact archSymlink_dirMono fs fn _
  · exact DirMono.refl fs

theorem parentsOf_dirMono (s : St) (fn : Bytes) : DirMono s.fs (parentsOf s fn).2 := by
  unfold parentsOf
  split
  · exact DirMono.refl s.fs
  · exact makeParents_dirMono s.fs fn

/-- `extract_archived_file`, any state -/
theorem eaf_dirMono (s : St) (h : Hdr) : DirMono s.fs (extractArchivedFile s h).fs := by
  rcases eaf_cases s h with ⟨h1, _⟩ | ⟨h1, _⟩ | ⟨h1, _⟩
  · rw [h1]; exact DirMono.refl s.fs
  · rw [h1]; exact parentsOf_dirMono s _
  · rw [h1]; exact (parentsOf_dirMono s _).trans (readerExtract_dirMono _ _ _)

end LhasaV.Contain
