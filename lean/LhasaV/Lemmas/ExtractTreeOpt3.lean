import LhasaV.Lemmas.ExtractTreeOpt2
/-!
# C06 with options (part 3): `make_parent_directories` as a walk over components

For a relative path whose components are real names, the fold of `make_parent_directories` over
the separator positions is the recursion `mkDirs` over the component list: one
`check_parent_directory` for every proper, non-empty prefix, in increasing order, stopping at
the first failure (`makeParents_mkDirs`).
-/
namespace LhasaV.ExtractTree
open LhasaV LhasaV.Header LhasaV.Extract LhasaV.GlobFs LhasaV.Contain

/-- `check_parent_directory` on "pre c₁", "pre c₁/c₂", … until one fails -/
def mkDirs : List Bytes → Bytes → Fs.St → Bool × Fs.St
  | [], _, fs => (true, fs)
  | c :: cs, pre, fs =>
    if !(checkParentDirectory fs (pre ++ c)).1 then checkParentDirectory fs (pre ++ c)
    else mkDirs cs (pre ++ c ++ [0x2f]) (checkParentDirectory fs (pre ++ c)).2

theorem mkDirs_append (a b : List Bytes) : ∀ (pre : Bytes) (fs : Fs.St),
    mkDirs (a ++ b) pre fs =
      if !(mkDirs a pre fs).1 then mkDirs a pre fs else mkDirs b (pre ++ joinDir a) (mkDirs a pre fs).2 := by
  induction a with
  | nil => intro pre fs; simp [mkDirs, joinDir]
  | cons c a ih =>
    intro pre fs
    simp only [List.cons_append, mkDirs]
    by_cases h : (checkParentDirectory fs (pre ++ c)).1 = true
    · simp only [h, Bool.not_true, Bool.false_eq_true, if_false]
      rw [ih]
      simp [joinDir, List.append_assoc]
    · have h' : (checkParentDirectory fs (pre ++ c)).1 = false := by simpa using h
      simp [h']

/-! ## the separator positions of "c/q" -/

theorem prefixEnds_rel (p : Bytes) (h : p.head? ≠ some 0x2f) :
    prefixEnds p = (List.range p.length).filter (fun i => p.getD i 0 == 0x2f) := by
  unfold prefixEnds
  have hl : (p.takeWhile (· == 0x2f)).length = 0 := by
    cases p with
    | nil => rfl
    | cons b bs =>
      have : (b == 0x2f) = false := by simpa using h
      simp [this]
  simp only [hl]
  apply List.filter_congr
  intro i _
  generalize p.getD i 0 = x
  by_cases hx : x = 0x2f <;> simp [hx]

theorem getD_left (a b : Bytes) (i : Nat) (h : i < a.length) : (a ++ b).getD i 0 = a.getD i 0 := by
  simp [List.getD_eq_getElem?_getD, List.getElem?_append_left h]

theorem getD_mid (a b : Bytes) (x : UInt8) : (a ++ x :: b).getD a.length 0 = x := by
  simp [List.getD_eq_getElem?_getD]

theorem getD_right (a b : Bytes) (x : UInt8) (i : Nat) :
    (a ++ x :: b).getD (a.length + 1 + i) 0 = b.getD i 0 := by
  simp only [List.getD_eq_getElem?_getD]
  rw [List.getElem?_append_right (by omega)]
  have : a.length + 1 + i - a.length = i + 1 := by omega
  rw [this]; simp

theorem getD_noslash (a : Bytes) (ha : NoSlash a) (i : Nat) (h : i < a.length) : a.getD i 0 ≠ 0x2f := by
  have : a.getD i 0 = a[i] := by simp [List.getD_eq_getElem?_getD, h]
  rw [this]; exact ha _ (List.getElem_mem h)

/-- the separators of "c/q": the one after `c`, then those of `q` shifted -/
theorem prefixEnds_cons (c q : Bytes) (hc : NoSlash c) (hne : c ≠ []) (hq : q.head? ≠ some 0x2f) :
    prefixEnds (c ++ 0x2f :: q) = c.length :: (prefixEnds q).map (fun i => c.length + 1 + i) := by
  have hrel : (c ++ 0x2f :: q).head? ≠ some 0x2f := by
    cases c with
    | nil => exact absurd rfl hne
    | cons b bs =>
      have := hc b (by simp)
      simpa using this
  rw [prefixEnds_rel _ hrel, prefixEnds_rel q hq]
  have hlen : (c ++ 0x2f :: q).length = c.length + (1 + q.length) := by simp; omega
  rw [hlen, List.range_eq_range', ← List.range'_append (step := 1)]
  simp only [Nat.one_mul, Nat.zero_add]
  rw [List.filter_append, Nat.add_comm 1 q.length, List.range'_succ, List.filter_cons]
  have h1 : (List.range' 0 c.length).filter (fun i => (c ++ 0x2f :: q).getD i 0 == 0x2f) = [] := by
    rw [List.filter_eq_nil_iff]
    intro i hi
    have hi' : i < c.length := by have := List.mem_range'_1.1 hi; omega
    rw [getD_left c _ i hi']
    simpa using getD_noslash c hc i hi'
  rw [h1, getD_mid]
  simp only [beq_self_eq_true, if_true, List.nil_append]
  congr 1
  rw [List.range_eq_range', ← List.map_add_range' (a := c.length + 1) 0 q.length 1, List.filter_map]
  congr 1
  apply List.filter_congr
  intro i _
  simp only [Function.comp]
  rw [getD_right]

/-! ## the fold -/

/-- the fold of `make_parent_directories` over a list of cut positions of `p`, every tested path
prefixed by `pre` -/
def foldCk (acc : Bool × Fs.St) (pre p : Bytes) (l : List Nat) : Bool × Fs.St :=
  l.foldl (fun (acc : Bool × Fs.St) i =>
    if !acc.1 then acc else checkParentDirectory acc.2 (pre ++ p.take i)) acc

theorem foldCk_stuck (x : Fs.St) (pre p : Bytes) (l : List Nat) : foldCk (false, x) pre p l = (false, x) := by
  induction l with
  | nil => rfl
  | cons i l ih => simp only [foldCk, List.foldl_cons] at ih ⊢; simpa using ih

theorem makeParents_foldCk (fs : Fs.St) (path : Bytes) :
    makeParentDirectories fs path = foldCk (true, fs) [] (trim path) (prefixEnds (trim path)) := by
  unfold makeParentDirectories foldCk trim
  simp only [List.nil_append]

theorem foldCk_joinPath : ∀ (cs : List Bytes), (∀ c ∈ cs, Name c) → cs ≠ [] → ∀ (pre : Bytes) (fs : Fs.St),
    foldCk (true, fs) pre (joinPath cs) (prefixEnds (joinPath cs)) = mkDirs cs.dropLast pre fs := by
  intro cs
  induction cs with
  | nil => intro _ h; exact absurd rfl h
  | cons c cs ih =>
    intro hn _ pre fs
    have hc : Name c := hn c (by simp)
    by_cases hcs : cs = []
    · subst hcs
      have : prefixEnds (joinPath [c]) = [] := by
        show prefixEnds c = []
        rw [prefixEnds_rel _ (name_head c hc)]
        rw [List.filter_eq_nil_iff]
        intro i hi
        have hi' : i < c.length := by simpa using hi
        simpa using getD_noslash c hc.1 i hi'
      rw [this]
      rfl
    · have hn' : ∀ x ∈ cs, Name x := fun x hx => hn x (List.mem_cons_of_mem _ hx)
      obtain ⟨d, ds, rfl⟩ := List.exists_cons_of_ne_nil hcs
      rw [joinPath_cons c _ hcs, prefixEnds_cons c _ hc.1 hc.2.1 (joinPath_rel _ hn')]
      simp only [List.dropLast_cons_cons, mkDirs]
      unfold foldCk
      rw [List.foldl_cons]
      simp only [Bool.not_true, Bool.false_eq_true, if_false, List.take_left']
      rw [List.foldl_map]
      have hfun : (fun (x : Bool × Fs.St) (y : Nat) => if !x.1 then x else
            checkParentDirectory x.2 (pre ++ List.take (c.length + 1 + y) (c ++ 0x2f :: joinPath (d :: ds)))) =
          (fun (x : Bool × Fs.St) (y : Nat) => if !x.1 then x else
            checkParentDirectory x.2 ((pre ++ c ++ [0x2f]) ++ List.take y (joinPath (d :: ds)))) := by
        funext x y
        have : List.take (c.length + 1 + y) (c ++ 0x2f :: joinPath (d :: ds)) =
            c ++ 0x2f :: List.take y (joinPath (d :: ds)) := by
          rw [show c ++ 0x2f :: joinPath (d :: ds) = (c ++ [0x2f]) ++ joinPath (d :: ds) by simp]
          rw [show c.length + 1 + y = (c ++ [0x2f]).length + y by simp]
          rw [List.take_length_add_append]
          simp
        rw [this]
        simp [List.append_assoc]
      rw [hfun]
      by_cases hr : (checkParentDirectory fs (pre ++ c)).1 = true
      · simp only [hr, Bool.not_true, Bool.false_eq_true, if_false]
        have he : checkParentDirectory fs (pre ++ c) = (true, (checkParentDirectory fs (pre ++ c)).2) := by
          rw [← hr]
        rw [he]
        exact ih hn' hcs (pre ++ c ++ [0x2f]) _
      · have hr' : (checkParentDirectory fs (pre ++ c)).1 = false := by simpa using hr
        simp only [hr', Bool.not_false, if_true]
        have he : checkParentDirectory fs (pre ++ c) = (false, (checkParentDirectory fs (pre ++ c)).2) := by
          rw [← hr']
        rw [he]
        exact foldCk_stuck _ _ _ _

/-- **`make_parent_directories` is `mkDirs`** over the proper prefixes of the component list -/
theorem makeParents_mkDirs (fs : Fs.St) (path : Bytes) (cs : List Bytes)
    (htrim : trim path = joinPath cs) (hn : ∀ c ∈ cs, Name c) (hne : cs ≠ []) :
    makeParentDirectories fs path = mkDirs cs.dropLast [] fs := by
  rw [makeParents_foldCk, htrim]
  exact foldCk_joinPath cs hn hne [] fs

end LhasaV.ExtractTree
