import LhasaV.Lemmas.MessagesAgree1
import LhasaV.Lemmas.MessagesProps
/-!
Agreement of the two extraction models, part 2: one member.  `entry_agree`: from corresponding states
(`toE`), for a header that is the reader's current one and meets `NoTrail`, with answers meeting
`PromptOk`, `Messages.extractEntry` and `Extract.extractArchivedFile` leave the same reader state and
file system, the same abort flag, the same contribution to `result`, and (unless aborting) the same
overwrite policy and unread answers.  `entry_prompt`: `PromptOk` is kept.
-/
namespace LhasaV.MessagesAgree
open LhasaV LhasaV.Header LhasaV.Extract LhasaV.Messages

def NoTrail (o : Opts) (h : Hdr) : Prop :=
  isDirEntry h = true ∨ endsWithSlash (fileFullPath h o) = false

instance (o : Opts) (h : Hdr) : Decidable (NoTrail o h) := inferInstanceAs (Decidable (_ ∨ _))

def PromptOk (pol : Overwrite) (a : Bytes) : Prop := pol = .prompt → AnsOk 64 a

instance (pol : Overwrite) (a : Bytes) : Decidable (PromptOk pol a) := inferInstanceAs (Decidable (_ → _))

def bodyE (s' : Extract.St) (h : Hdr) (fn : Bytes) : Extract.St :=
  if !s'.opts.usePath ∧ isDirEntry h then { s' with out := "dir-ignored" :: s'.out } else
  let mp := Contain.parentsOf s' fn
  if !mp.1 then { s' with fs := mp.2, result := false, out := "parent-failed" :: s'.out } else
  let r := Extract.readerExtract s'.rd mp.2 fn
  { s' with rd := r.2.1, fs := r.2.2, result := s'.result && r.1, out := (if r.1 then "ok" else "failed") :: s'.out }

theorem eaf_eq' (s : Extract.St) (h : Hdr) : extractArchivedFile s h =
    match Contain.preOf s h with
    | none => { s with aborted := true, result := false, out := "abort" :: s.out }
    | some (true, s) => { s with out := "skipped" :: s.out }
    | some (false, s') => bodyE s' h (fileFullPath h s.opts) := rfl

structure Agree (x : XSt) (en : Entry) (res : Bool) (e : Extract.St) : Prop where
  rd : e.rd = x.rd
  fs : e.fs = x.fs
  ab : e.aborted = en.abort
  res : e.result = (res && en.ok)
  opts : en.abort = false → e.opts = x.opts
  answers : en.abort = false → e.answers = x.answers

/-- the `Extract` state that corresponds to the state of the message model between members -/
abbrev toE (x : XSt) (res : Bool) (out : List String) : Extract.St :=
  { rd := x.rd, fs := x.fs, opts := x.opts, answers := x.answers, result := res, aborted := false, out := out }

theorem body_agree (x : XSt) (h : Hdr) (err : Bytes) (res : Bool) (out : List String)
    (hc : ∀ c, x.rd.curr = some c → c.h = h) (hs : NoTrail x.opts h) :
    Agree (extractBody x h err).2 (extractBody x h err).1 res
      (bodyE (toE x res out) h (fileFullPath h x.opts)) := by
  unfold extractBody bodyE
  dsimp only [toE]
  by_cases c1 : (!x.opts.usePath) = true ∧ isDirEntry h = true
  · simp only [if_pos c1]
    exact ⟨rfl, rfl, rfl, by simp, fun _ => rfl, fun _ => rfl⟩
  simp only [if_neg c1]
  have hp := parentsFor_eq (toE x res out) (fileFullPath h x.opts)
  dsimp only [toE] at hp
  generalize parentsFor _ _ _ = mp at hp ⊢
  generalize Contain.parentsOf _ _ = mp' at hp ⊢
  obtain ⟨b, f, m⟩ := mp
  obtain ⟨b', f'⟩ := mp'
  obtain ⟨h1, h2⟩ := hp
  dsimp only at h1 h2 ⊢
  subst h1 h2
  cases b
  · exact ⟨rfl, rfl, rfl, by simp, fun _ => rfl, fun _ => rfl⟩
  · rw [readerExtract_eq x.rd f _ (by
      intro c hcc hsl
      have := hc c hcc
      subst this
      rcases hs with h | h
      · exact h
      · rw [h] at hsl; cases hsl)]
    exact ⟨rfl, rfl, rfl, rfl, fun _ => rfl, fun _ => rfl⟩


theorem extractBody_answers (s : XSt) (h : Hdr) (err : Bytes) : (extractBody s h err).2.answers = s.answers := by
  unfold extractBody
  dsimp only
  repeat' split
  all_goals rfl

/-- the condition on the answers is kept by `extract_archived_file` -/
theorem entry_prompt (x : XSt) (h : Hdr) (hp : PromptOk x.opts.overwrite x.answers) :
    PromptOk (extractEntry x h).2.opts.overwrite (extractEntry x h).2.answers := by
  have hca := (confirm_agree (fileFullPath h x.opts) (x.answers.length + 1) 64 x.opts.overwrite x.answers []
    hp (by omega) (fun _ => by decide)).2
  unfold extractEntry
  dsimp only
  split
  · split
    · exact hp
    · rw [MessagesProps.extractBody_opts, extractBody_answers]; exact hp
    · split
      · exact hca
      · rw [MessagesProps.extractBody_opts, extractBody_answers]; exact hca
      · exact hca
  · rw [MessagesProps.extractBody_opts, extractBody_answers]; exact hp

theorem entry_agree (x : XSt) (h : Hdr) (res : Bool) (out : List String)
    (hc : ∀ c, x.rd.curr = some c → c.h = h) (hs : NoTrail x.opts h)
    (hp : PromptOk x.opts.overwrite x.answers) :
    Agree (extractEntry x h).2 (extractEntry x h).1 res (extractArchivedFile (toE x res out) h) := by
  rw [eaf_eq']
  unfold extractEntry Contain.preOf
  dsimp only [toE]
  by_cases c0 : (!isDirEntry h) = true ∧ h.symlinkTarget.isNone = true
  · have c0' : (!isDirEntry h) = true ∧ (!h.symlinkTarget.isSome) = true :=
      ⟨c0.1, by have := c0.2; cases hh : h.symlinkTarget <;> simp_all⟩
    simp only [if_pos c0, if_pos c0']
    have hns : endsWithSlash (fileFullPath h x.opts) = false := by
      rcases hs with h1 | h1
      · rw [h1] at c0; simp at c0
      · exact h1
    rw [existsKind_eq _ _ hns]
    have hca := (confirm_agree (fileFullPath h x.opts) (x.answers.length + 1) 64 x.opts.overwrite x.answers []
      hp (by omega) (fun _ => by decide)).1
    cases hk : Fs.existsKind x.fs (fileFullPath h x.opts) <;> dsimp only
    case none => exact body_agree x h [] res out hc hs
    case error => exact ⟨rfl, rfl, rfl, by simp, (fun h => by cases h), (fun h => by cases h)⟩
    all_goals
      generalize confirm _ _ _ _ _ = c at hca ⊢
      generalize confirmOverwrite _ _ _ = r at hca ⊢
      obtain ⟨ans, pol', rest', err'⟩ := c
      rcases r with _ | ⟨yes, pol, rest⟩
      · simp only [ConfirmAgree] at hca
        subst hca
        exact ⟨rfl, rfl, rfl, by simp, (fun h => by cases h), (fun h => by cases h)⟩
      · simp only [ConfirmAgree] at hca
        obtain ⟨rfl, rfl, rfl⟩ := hca
        cases yes
        · exact ⟨rfl, rfl, rfl, by simp, (fun _ => rfl), (fun _ => rfl)⟩
        · exact body_agree ⟨x.rd, x.fs, { x.opts with overwrite := pol' }, rest'⟩ h err' res out hc hs
  · have c0' : ¬ ((!isDirEntry h) = true ∧ (!h.symlinkTarget.isSome) = true) := by
      intro hh; apply c0; refine ⟨hh.1, ?_⟩
      have := hh.2; cases hh : h.symlinkTarget <;> simp_all
    simp only [if_neg c0, if_neg c0']
    exact body_agree x h [] res out hc hs

end LhasaV.MessagesAgree
