import LhasaV.Lemmas.ToolKinds6
import LhasaV.Lemmas.ToolKinds8
/-!
# C16 at tool level, part 9: the fuel of the tool's loops always suffices

The loop bodies (`extract_archived_file`, `test_archived_file_crc`, `print_archived_file`, with or without
messages) are `Fr (grow rd)` steps (`eaf_fr`, `step_fr`, `printBody_fr`, …): at most one entry pushed, and
only for a first-time entry.  With `next_phi`: every round lowers `phi` (`round_phi`), so
**`xEnds_of_phi`, `mEnds_of_phi`, `pEnds_of_phi`**: `phi < fuel` rounds suffice, and `hEnds_of_src`: the
listing walk (nothing is pushed) ends within `bytes + 1` rounds.
-/
set_option linter.unusedSimpArgs false
namespace LhasaV.ToolKinds
open LhasaV LhasaV.Stream LhasaV.Reader LhasaV.Extract LhasaV.Messages

/-! ## the bodies of the tool's loops push at most one entry, and only for a first-time entry -/

theorem readerExtract_fr (rd : Reader.St) (fs : Fs.St) (fn : Bytes) :
    Fr (grow rd) rd (Extract.readerExtract rd fs fn).2.1 := by
  unfold Extract.readerExtract
  repeat' (first | split | (dsimp only; split))
  all_goals first
    | exact extract_fr rd _
    | exact (Fr.refl rd).mono (Nat.zero_le _)

theorem eafBody_fr (s : Extract.St) (h : Header.Hdr) (fn : Bytes) : Fr (grow s.rd) s.rd (eafBody s h fn).rd := by
  unfold eafBody
  split
  · exact (Fr.refl _).mono (Nat.zero_le _)
  · dsimp only
    generalize (if (s.rd.currType == CurrType.fakeDir || s.rd.currType == CurrType.deferred) = true then (true, s.fs)
        else makeParentDirectories s.fs fn) = mp
    split
    · exact (Fr.refl _).mono (Nat.zero_le _)
    · exact readerExtract_fr _ _ _

theorem eaf_fr (s : Extract.St) (h : Header.Hdr) : Fr (grow s.rd) s.rd (extractArchivedFile s h).rd := by
  rw [eaf_eq]
  split
  · exact (Fr.refl _).mono (Nat.zero_le _)
  · exact (Fr.refl _).mono (Nat.zero_le _)
  · rename_i pol rest _
    exact eafBody_fr { s with opts := { s.opts with overwrite := pol }, answers := rest } h (fileFullPath h s.opts)

theorem printLoop_fr : ∀ (fuel : Nat) (s : Reader.St) (acc : List UInt8), Fr 0 s (printLoop fuel s acc).2 := by
  intro fuel
  induction fuel with
  | zero => intro s acc; exact Fr.refl s
  | succ n ih =>
    intro s acc
    unfold printLoop
    dsimp only
    split
    · exact read_fr s 512
    · exact Fr.trans (g := 0) (g' := 0) (read_fr s 512) (ih _ _)

theorem printBody_fr (o : Opts) (c : HObj) (rd : Reader.St) : Fr 0 rd (printBody o c rd) := by
  unfold printBody
  split
  · exact Fr.refl _
  · split
    · exact printLoop_fr _ _ _
    · exact Fr.refl _

theorem testEntry_fr (o : Opts) (s : Reader.St) (h : Header.Hdr) : Fr 0 s (testEntry o s h).2 := by
  unfold testEntry
  split
  · exact Fr.refl s
  · dsimp only
    split
    · exact check_fr s
    · exact check_fr s

theorem mreaderExtract_fr (rd : Reader.St) (fs : Fs.St) (fn : Bytes) :
    Fr (grow rd) rd (Messages.readerExtract rd fs fn).2.1 := by
  unfold Messages.readerExtract
  split
  · split
    · exact extract_fr rd false
    · exact readerExtract_fr rd fs fn
  · exact readerExtract_fr rd fs fn

theorem extractBody_fr (s : XSt) (h : Header.Hdr) (err : Bytes) : Fr (grow s.rd) s.rd (extractBody s h err).2.rd := by
  unfold extractBody
  split
  · exact (Fr.refl _).mono (Nat.zero_le _)
  · dsimp only
    split
    · exact (Fr.refl _).mono (Nat.zero_le _)
    · exact mreaderExtract_fr _ _ _

theorem extractEntry_fr (s : XSt) (h : Header.Hdr) : Fr (grow s.rd) s.rd (extractEntry s h).2.rd := by
  unfold extractEntry
  split
  · dsimp only
    split
    · exact (Fr.refl _).mono (Nat.zero_le _)
    · exact extractBody_fr s h []
    · generalize confirm (fileFullPath h s.opts) (s.answers.length + 1) s.opts.overwrite s.answers [] = c
      split
      · exact (Fr.refl _).mono (Nat.zero_le _)
      · exact extractBody_fr { s with opts := { s.opts with overwrite := c.policy }, answers := c.rest } h c.err
      · exact (Fr.refl _).mono (Nat.zero_le _)
  · exact extractBody_fr s h []

theorem step_fr (cmd : Cmd) (s : Messages.St) (h : Header.Hdr) : Fr (grow s.x.rd) s.x.rd (step cmd s h).x.rd := by
  unfold step
  cases cmd with
  | test => exact (testEntry_fr _ _ _).mono (Nat.zero_le _)
  | extract =>
    dsimp only
    split
    · exact (Fr.refl _).mono (Nat.zero_le _)
    · exact extractEntry_fr _ _


/-! ## the fuel of the tool's loops always suffices -/

/-- one round of a loop: `next` presents an entry, the body handles it -/
theorem round_phi {rd rd' rd'' : Reader.St} {c : HObj} (h : BInv rd.basic)
    (e : Reader.next rd = .ok (some c, rd')) (f : Fr (grow rd') rd' rd'') :
    BInv rd''.basic ∧ phi rd'' + 1 ≤ phi rd := by
  obtain ⟨hi, hp, _⟩ := next_phi rd h c rd' e
  have := f.phi
  refine ⟨f.inv hi, ?_⟩
  unfold grow at this
  split at hp <;> rename_i hn
  · rw [if_pos hn] at this; omega
  · rw [if_neg hn] at this; omega

/-- **`lha x` / `lha e`: the loop ends within `phi + 1` rounds** -/
theorem xEnds_of_phi : ∀ (fuel : Nat) (s : Extract.St), BInv s.rd.basic → phi s.rd < fuel → xEnds fuel s = true := by
  intro fuel
  induction fuel with
  | zero => intro s _ h; omega
  | succ n ih =>
    intro s hi hp
    unfold xEnds
    rw [Bool.or_eq_true]
    refine Or.inr ?_
    · cases hn : Reader.next s.rd with
      | error w => rfl
      | ok r =>
        obtain ⟨oc, rd'⟩ := r
        cases oc with
        | none => rfl
        | some c =>
          dsimp only
          split
          · obtain ⟨h1, h2⟩ := round_phi hi hn ((Fr.refl rd').mono (Nat.zero_le _))
            exact ih _ h1 (by show phi rd' < n; omega)
          · obtain ⟨h1, h2⟩ := round_phi hi hn (eaf_fr { s with rd := rd' } c.h)
            exact ih _ h1 (by omega)

theorem mEnds_of_phi (cmd : Cmd) : ∀ (fuel : Nat) (s : Messages.St), BInv s.x.rd.basic → phi s.x.rd < fuel →
    mEnds cmd fuel s = true := by
  intro fuel
  induction fuel with
  | zero => intro s _ h; omega
  | succ n ih =>
    intro s hi hp
    unfold mEnds
    rw [Bool.or_eq_true]
    refine Or.inr ?_
    · cases hn : Reader.next s.x.rd with
      | error w => rfl
      | ok r =>
        obtain ⟨oc, rd'⟩ := r
        cases oc with
        | none => rfl
        | some c =>
          dsimp only
          split
          · obtain ⟨h1, h2⟩ := round_phi hi hn ((Fr.refl rd').mono (Nat.zero_le _))
            exact ih _ h1 (by show phi rd' < n; omega)
          · obtain ⟨h1, h2⟩ := round_phi hi hn (step_fr cmd { s with x := { s.x with rd := rd' } } c.h)
            exact ih _ h1 (Nat.lt_of_lt_of_le (Nat.lt_of_succ_le h2) (Nat.le_of_lt_succ hp))

theorem pEnds_of_phi (o : Opts) : ∀ (fuel : Nat) (rd : Reader.St), BInv rd.basic → phi rd < fuel →
    pEnds o fuel rd = true := by
  intro fuel
  induction fuel with
  | zero => intro s _ h; omega
  | succ n ih =>
    intro rd hi hp
    unfold pEnds
    cases hn : Reader.next rd with
    | error w => rfl
    | ok r =>
      obtain ⟨oc, rd'⟩ := r
      cases oc with
      | none => rfl
      | some c =>
        dsimp only
        obtain ⟨h1, h2⟩ := round_phi hi hn ((printBody_fr o c rd').mono (Nat.zero_le _))
        exact ih _ h1 (by omega)

/-- the listing walk extracts nothing: every round consumes a header, `size + 1` rounds suffice -/
theorem hEnds_of_src : ∀ (fuel : Nat) (rd : Reader.St), BInv rd.basic → rd.dirStack = [] → rd.deferred = [] →
    pend rd = 0 → srcLen rd.basic < fuel → hEnds fuel rd = true := by
  intro fuel
  induction fuel with
  | zero => intro s _ _ _ _ h; omega
  | succ n ih =>
    intro rd hi hd hf hp hl
    unfold hEnds
    cases hn : Reader.next rd with
    | error w => rfl
    | ok r =>
      obtain ⟨oc, rd'⟩ := r
      cases oc with
      | none => rfl
      | some c =>
        dsimp only
        obtain ⟨h1, h2, h3, h4, h5⟩ := next_phi rd hi c rd' hn
        have hnorm := h5 hd hf
        have hd' : rd'.dirStack = [] := List.eq_nil_of_length_eq_zero (by rw [hd] at h3; simpa using h3)
        have hf' : rd'.deferred = [] := List.eq_nil_of_length_eq_zero (by rw [hf] at h4; simpa using h4)
        have hp' : pend rd' = 0 := pend_of_real (Or.inr hnorm)
        rw [if_pos hnorm] at h2
        unfold phi at h2
        rw [hd, hf, hd', hf', hp, hp'] at h2
        simp only [List.length_nil] at h2
        exact ih _ h1 hd' hf' hp' (by omega)

end LhasaV.ToolKinds
