import LhasaV.Lemmas.ReaderAlloc3
/-!
# Allocation-aware reader, part 4: `nextA`, histories, and the release theorem
-/
namespace LhasaV.Reader
open LhasaV LhasaV.Alloc

/-- phase 1 of `nextA` (after `closeDecoder`): advance the basic reader if the last entry came
from the stream -/
def nextAdvA (o : Oracle) (a : StA) : Except String StA :=
  if a.s.currType == .start ∨ a.s.currType == .normal then
    (match basicNextA o a.s.mktime a.s.basic a.s.led a.hp with
     | .ok r => (.ok { s := { a.s with basic := r.1.1, led := r.1.2 }, hp := r.2 } : Except String StA)
     | .fail => .error "basicNext returned fail"
     | .fault w => .error w)
  else .ok a

theorem nextA_eq (o : Oracle) (a : StA) : nextA o a =
    if (closeDecoder a.s).currType == .eof then .ok (none, { a with s := closeDecoder a.s }) else
    (nextAdvA o { a with s := closeDecoder a.s }) >>= fun a1 =>
      .ok ((nextDeferred (nextPop (nextUnref a1.s))).curr,
           { a1 with s := nextDeferred (nextPop (nextUnref a1.s)) }) := rfl

theorem nextAdvA_stream {o : Oracle} {a a1 : StA} (ht : a.s.currType = .start ∨ a.s.currType = .normal)
    (e : nextAdvA o a = .ok a1) :
    ∃ r, basicNextA o a.s.mktime a.s.basic a.s.led a.hp = .ok r ∧
      a1 = { s := { a.s with basic := r.1.1, led := r.1.2 }, hp := r.2 } := by
  unfold nextAdvA at e
  have : (a.s.currType == .start ∨ a.s.currType == .normal) := by simpa using ht
  rw [if_pos this] at e
  cases hb : basicNextA o a.s.mktime a.s.basic a.s.led a.hp with
  | fail => rw [hb] at e; cases e
  | fault w => rw [hb] at e; cases e
  | ok r => rw [hb] at e; cases e; exact ⟨r, rfl, rfl⟩

theorem nextAdvA_fake {o : Oracle} {a : StA} (ht : ¬ (a.s.currType = .start ∨ a.s.currType = .normal)) :
    nextAdvA o a = .ok a := by
  unfold nextAdvA
  have : ¬ (a.s.currType == .start ∨ a.s.currType == .normal) := by simpa using ht
  rw [if_neg this]

theorem nextAdvA_mid {o : Oracle} {a a1 : StA} (h : Inv a.s) (hh : HpOk o 3 a.hp) (hd : a.s.dec = none)
    (hne : a.s.currType ≠ .eof) (e : nextAdvA o a = .ok a1) : Mid (nextUnref a1.s) ∧ HpOk o 3 a1.hp := by
  have hdec := h.dec hd
  have hown := h.own
  by_cases hs : a.s.currType = .start ∨ a.s.currType = .normal
  · obtain ⟨r, hb, rfl⟩ := nextAdvA_stream hs e
    have hnf : ¬ (a.s.currType = .fakeDir ∨ a.s.currType = .deferred) := by
      rcases hs with h | h <;> simp [h]
    have hoc : ownCurr a.s = none := by simp only [ownCurr, hnf, if_false]
    rw [hoc] at hown
    obtain ⟨ow, d, hh'⟩ := basicNextA_owned (b' := r.1.1) (led' := r.1.2) (hp' := r.2) hown hh hb
    refine ⟨?_, hh'⟩
    rw [nextUnref_stream (by exact hnf)]
    exact ⟨ow, hd, by show r.1.2.decoders = 0; rw [d]; exact hdec⟩
  · rw [nextAdvA_fake hs] at e
    cases e
    refine ⟨?_, hh⟩
    have hf : a.s.currType = .fakeDir ∨ a.s.currType = .deferred := by
      cases ht : a.s.currType <;> simp_all
    have hoc : ownCurr a.s = a.s.curr := by simp only [ownCurr, hf, if_true]
    rw [hoc] at hown
    rw [nextUnref_fake hf]
    cases hc : a.s.curr with
    | none => rw [hc] at hown; exact ⟨hown, hd, hdec⟩
    | some c =>
      rw [hc] at hown
      have hu : Owned (a.s.led.unref c.id) a.s.basic.curr a.s.dirStack a.s.deferred none :=
        hown.unref (fun id => by simp only [owners, cnt_some, cnt_none]; omega)
      have h1 : 1 ≤ a.s.led.rc c.id := by rw [hown.rc]; simp [owners, cnt_cons]
      exact ⟨hu, hd, by show (a.s.led.unref c.id).decoders = 0; rw [(Ledger.unref_spec hown.wf h1).2.2.1]; exact hdec⟩

/-- `nextA` preserves the invariant and leaves no decoder open, under any oracle -/
theorem nextA_closed {o : Oracle} {a a' : StA} {r : Option HObj} (h : InvA o a)
    (e : nextA o a = .ok (r, a')) : Closed a'.s ∧ HpOk o 3 a'.hp := by
  have h0 := closeDecoder_inv h.inv
  have hd0 := closeDecoder_dec a.s
  rw [nextA_eq] at e
  split at e
  · simp only [Except.ok.injEq, Prod.mk.injEq] at e
    obtain ⟨-, rfl⟩ := e
    exact ⟨⟨h0, hd0, h0.dec hd0⟩, h.hp⟩
  · rename_i hne
    cases ha : nextAdvA o { a with s := closeDecoder a.s } with
    | error w => rw [ha] at e; cases e
    | ok a1 =>
      rw [ha] at e
      simp only [bind, Except.bind, Except.ok.injEq, Prod.mk.injEq] at e
      obtain ⟨-, rfl⟩ := e
      have hne' : (closeDecoder a.s).currType ≠ .eof := by simpa using hne
      obtain ⟨hm, hh⟩ := nextAdvA_mid (a := { a with s := closeDecoder a.s }) h0 h.hp hd0 hne' ha
      exact ⟨nextDeferred_closed (nextPop_closed hm), hh⟩

theorem stepA_invA {o : Oracle} {a : StA} (h : InvA o a) (op : Op) : InvA o (stepA o a op) := by
  cases op with
  | next =>
    simp only [stepA]
    cases e : nextA o a with
    | error w => exact h
    | ok r =>
      obtain ⟨hc, hh⟩ := nextA_closed (r := r.1) (a' := r.2) h e
      exact ⟨hc.inv, hh⟩
  | read k => exact readA_invA h k
  | check => exact checkA_invA h
  | extract b => exact extractA_invA h b

theorem runA_invA {o : Oracle} {a : StA} (h : InvA o a) (ops : List Op) : InvA o (runA o a ops) := by
  induction ops generalizing a with
  | nil => exact h
  | cons op ops ih => exact ih (stepA_invA h op)

/-- `freeA` on an invariant state leaves nothing allocated and observes no fault -/
theorem freeA_of_invA {o : Oracle} {a : StA} (h : InvA o a) :
    (freeA a).1.live = 0 ∧ (freeA a).1.faults = [] ∧ (freeA a).2 = 0 := by
  obtain ⟨h1, h2⟩ := free_of_inv h.inv
  exact ⟨h1, h2, by show a.hp.live - 1 - 1 - 1 = 0; rw [h.hp.live]⟩

/-- **C20, allocation failure, any failure set.**  Whatever subset of the allocations fails
(the three allocations of `lha_reader_new` excepted: then there is no reader), after any history
of calls (legal or not), `lha_reader_free` + `lha_input_stream_free` leave no header object, no
string, no decoder, no temporary name and none of the three structures allocated, and the ledger
has seen no double free and no reference to a freed header. -/
theorem alloc_failures_release_all (o : Oracle) (h0 : o 0 = false) (h1 : o 1 = false) (h2 : o 2 = false)
    (st : Stream.St) (pol : DirPolicy) (mk : Nat → Nat) (ops : List Op) :
    (freeA (runA o (freshA st pol mk) ops)).1.live = 0 ∧
    (freeA (runA o (freshA st pol mk) ops)).1.faults = [] ∧
    (freeA (runA o (freshA st pol mk) ops)).2 = 0 :=
  freeA_of_invA (runA_invA (invA_fresh o st pol mk h0 h1 h2) ops)

/-- the same through `newA`, for every oracle: either the reader could not be created and
nothing is allocated, or the reader is the fresh one and everything is released at the end -/
theorem newA_release_all (o : Oracle) (st : Stream.St) (pol : DirPolicy) (mk : Nat → Nat) (ops : List Op) :
    match newA o st pol mk with
    | (none, hp) => hp.live = 0
    | (some a, _) => liveAfterFree (runA o a ops) = 0 ∧ (freeA (runA o a ops)).1.faults = [] := by
  cases e : newA o st pol mk with
  | mk x hp =>
    cases x with
    | none => exact (newA_none e).1
    | some a =>
      obtain ⟨rfl, h0, h1, h2⟩ := newA_some e
      obtain ⟨a1, a2, a3⟩ := alloc_failures_release_all o h0 h1 h2 st pol mk ops
      exact ⟨by unfold liveAfterFree; rw [a1, a3], a2⟩

/-- **C20, second half (MAIN THEOREM).**  For every stream, policy, `mktime`, every legal history
(hence every prefix of one), EVERY `k`: with the `k`-th allocation made by the library failing
(`k ≥ 3`: the reader exists), freeing the reader leaves nothing allocated — no leak — and the
ledger has seen no double free and no reference to a freed header. -/
theorem alloc_failure_releases_all (st : Stream.St) (pol : DirPolicy) (mk : Nat → Nat) (ops : List Op)
    (_hl : Legal ops) (k : Nat) (hk : 3 ≤ k) :
    (free (runA (Oracle.ofFailAt (some k)) (freshA st pol mk) ops).s).live = 0 ∧
    (free (runA (Oracle.ofFailAt (some k)) (freshA st pol mk) ops).s).faults = [] ∧
    liveAfterFree (runA (Oracle.ofFailAt (some k)) (freshA st pol mk) ops) = 0 := by
  have hne : ∀ i, i < 3 → Oracle.ofFailAt (some k) i = false := by
    intro i hi; simp [Oracle.ofFailAt]; omega
  obtain ⟨a1, a2, a3⟩ := alloc_failures_release_all (Oracle.ofFailAt (some k)) (hne 0 (by omega)) (hne 1 (by omega))
    (hne 2 (by omega)) st pol mk ops
  exact ⟨a1, a2, by unfold liveAfterFree; rw [a1, a3]⟩

/-- … also when the caller abandons the archive at any point of such a history -/
theorem alloc_failure_releases_all_prefix (st : Stream.St) (pol : DirPolicy) (mk : Nat → Nat)
    (ops p : List Op) (hl : Legal ops) (hp : p <+: ops) (k : Nat) (hk : 3 ≤ k) :
    (free (runA (Oracle.ofFailAt (some k)) (freshA st pol mk) p).s).live = 0 ∧
    (free (runA (Oracle.ofFailAt (some k)) (freshA st pol mk) p).s).faults = [] ∧
    liveAfterFree (runA (Oracle.ofFailAt (some k)) (freshA st pol mk) p) = 0 :=
  alloc_failure_releases_all st pol mk p (legal_of_isPrefix hp hl) k hk

/-- `k < 3`: the reader cannot be created; nothing stays allocated -/
theorem alloc_failure_new (st : Stream.St) (pol : DirPolicy) (mk : Nat → Nat) (k : Nat) (hk : k < 3) :
    ∃ hp, newA (Oracle.ofFailAt (some k)) st pol mk = (none, hp) ∧ hp.live = 0 := by
  have : k = 0 ∨ k = 1 ∨ k = 2 := by omega
  rcases this with rfl | rfl | rfl <;> exact ⟨_, rfl, rfl⟩

end LhasaV.Reader
