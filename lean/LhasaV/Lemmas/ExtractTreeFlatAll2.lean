import LhasaV.Lemmas.ExtractTreeFlatAll1
/-!
# C06, option `i` together with the other deviations (part 2): the flattening loop

`loop_flat_u`: from the invariant to the end of the run, which is what the INDEPENDENT
specification says: the written entries are `plan` (ExtractTreeOw3: the overwrite policy) of the
flattened selected files and links to come (`flatSel`, archive order); the run is aborted exactly
when the plan is.  Ways to go on: pass over an entry that is not selected; ignore a directory entry
(the reader is not asked, nothing is pushed); write a file / link (free place, or "yes"); keep an
old file ("no"); the end of input at a prompt.
-/
namespace LhasaV.ExtractTree
open LhasaV LhasaV.Header LhasaV.Extract LhasaV.GlobFs LhasaV.Contain
open Reader

theorem flatSel_cons_sel (sel : Entry → Bool) (e : Entry) (tl : List Entry) (hs : sel e = true)
    (hd : e.isDir = false) : flatSel sel (e :: tl) = e.flat :: flatSel sel tl := by
  simp [flatSel, hs, hd]

theorem flatSel_cons_skip (sel : Entry → Bool) (e : Entry) (tl : List Entry)
    (h : (sel e && !e.isDir) = false) : flatSel sel (e :: tl) = flatSel sel tl := by
  simp only [flatSel, List.filter_cons, h, Bool.false_eq_true, if_false]

/-- **the flattening loop** under wildcards, `w=DIR`, old files and the overwrite policy -/
theorem loop_flat_u (fs0 : Fs.St) (ds : List Bytes) (sel : Entry → Bool) (hb : BaseRefU fs0 ds) :
    ∀ (fuel : Nat) (s : Extract.St) (doneF rest : List Entry) (pol : Overwrite) (ls : List Bytes),
      rest.length + 1 ≤ fuel → FlatInvU fs0 ds sel doneF rest pol ls s → RdInv s.rd [] rest →
      DenotesF fuel s rest →
      FinalU fs0 ds (doneF ++ (plan (exB fs0 ds) pol ls (flatSel sel rest)).1)
        (plan (exB fs0 ds) pol ls (flatSel sel rest)).2 (extractLoop fuel s) := by
  intro fuel
  induction fuel with
  | zero => intro s doneF rest pol ls hf; omega
  | succ n ih =>
    intro s doneF rest pol ls hf hi hrd hden
    obtain ⟨oc, rd', hn, hpend, hcont⟩ := hden hi.aborted
    rw [extractLoop_step_g n s oc rd' hi.aborted hn]
    have hne : s.rd.currType ≠ .eof := by
      rcases hrd.ty with h | h | h <;> rw [h] <;> simp
    obtain ⟨u, hrd', hoc, hupol, hudef, hustk, hubc⟩ := next_pol hn hne
    rw [hrd.policy] at hupol
    rw [hrd.deferred] at hudef
    have hbasic : rd'.basic = u.basic := by rw [hrd']; exact tail_basic u
    have hp : Pending u.basic.curr rest := by
      by_cases ht : s.rd.currType = .start ∨ s.rd.currType = .normal
      · rw [← hbasic]; exact hpend ht
      · rw [hubc ht]
        apply hrd.pending
        rcases hrd.ty with h | h | h
        · exact absurd (Or.inl h) ht
        · exact absurd (Or.inr h) ht
        · exact h
    have hds : u.dirStack = [] := by rw [hustk]; exact stackRel_nil hrd.stack
    have he := endOfTopDir_nil u hds
    cases hrest : rest with
    | nil =>
      rw [hrest] at hp
      have hR := pop_eof u he hp hudef
      rw [← hrd'] at hR
      have hoc' : oc = none := by rw [hoc, hR]
      subst hoc'
      have hfs := hi.fs
      simp only [flatSel, List.filter_nil, List.map_nil, plan, List.append_nil]
      exact ⟨hi.aborted, hi.result, hfs⟩
    | cons e tl =>
      subst hrest
      obtain ⟨inp, hbc, hh⟩ := hp
      have hR := pop_normal u he inp hbc
      rw [← hrd'] at hR
      have hoc' : oc = some inp := by rw [hoc, hR]
      subst hoc'
      show FinalU fs0 ds _ _ (extractLoop n (bodyF s rd' inp.h))
      have hty' : rd'.currType = .normal := by rw [hR]
      have hstk' : rd'.dirStack = [] := by rw [hR]; exact hds
      have hpol1 : rd'.policy = .endOfDir := by rw [hR]; exact hupol
      have hdef1 : rd'.deferred = [] := by rw [hR]; exact hudef
      have hcur1 : rd'.curr = some inp := by rw [hR]
      obtain ⟨hdec, hd2⟩ := hcont inp rfl
      rw [hty'] at hd2
      simp only [if_true, List.tail_cons] at hd2
      have hmatch : Glob.matchesFilter s.opts.filters inp.h = sel e := by
        rw [matches_of hh, hi.filt]
      have hrd0 : RdInv rd' [] tl :=
        ⟨hpol1, hdef1, by rw [hstk']; trivial, Or.inr (Or.inl hty'), fun h => by rw [hty'] at h; cases h⟩
      have hlen : tl.length + 1 ≤ n := by simp only [List.length_cons] at hf; omega
      have hi1 := hi.with_rd rd'
      cases hse : sel e with
      | false =>
        have hbody : bodyF s rd' inp.h = { s with rd := rd' } := by
          unfold bodyF; rw [hmatch, hse]; rfl
        rw [hbody] at hd2 ⊢
        have hno : (sel e && !e.isDir) = false := by rw [hse]; rfl
        rw [flatSel_cons_skip sel e tl hno]
        exact ih _ doneF tl pol ls hlen (hi1.skip hno) hrd0 hd2
      | true =>
        have hbody : bodyF s rd' inp.h = extractArchivedFile { s with rd := rd' } inp.h := by
          unfold bodyF; rw [hmatch, hse]; rfl
        rw [hbody] at hd2 ⊢
        cases hdir : e.isDir with
        | true =>
          -- a directory entry: ignored before anything is looked at
          rw [eaf_dir_ignored { s with rd := rd' } inp.h hi.opts.up (isDirEntry_of hh hdir)] at hd2 ⊢
          have hno : (sel e && !e.isDir) = false := by rw [hdir]; simp
          rw [flatSel_cons_skip sel e tl hno]
          have hcore : FlatInvU fs0 ds sel doneF tl pol ls
              { ({ s with rd := rd' } : Extract.St) with out := "dir-ignored" :: s.out } := by
            have := hi1.skip hno
            exact ⟨this.aborted, this.result, this.opts, this.filt, this.policy, this.ans, this.fs, this.ok,
              this.top, this.entries, this.fresh, this.pre⟩
          exact ih _ doneF tl pol ls hlen hcore hrd0 hd2
        | false =>
          rw [flatSel_cons_sel sel e tl hse hdir]
          have hk : EntryOk e := hi.entries e (by simp)
          have hkf : EntryOk e.flat := entryOk_flat hk hdir
          have hnd : isDirEntry inp.h = false := isDirEntry_nodir hh hdir
          obtain ⟨fsX, fsY, k, hX, hwX, hpm, hpar, hlook, hkind⟩ := entry_facts_flat hi1 hb hse hdir
          have hfn : fileFullPath inp.h s.opts = fullOf (e.flat.reloc ds) :=
            fullPath_flat hh hk hdir s.opts ds hi.opts
          have hdec1 : ∀ p data perms mtime, e = .file p data perms mtime →
              (Reader.openDecoder rd').1 = true ∧ (Reader.extract rd' true).1 = (true, data) :=
            fun p data perms mtime hfile => hdec hty' p data perms mtime tl (by rw [hfile])
          have hpre := preAtU_flat hdir (hi.pre e (by simp) hse hdir)
          have hasks := asks_iff hkf hpre
          cases hfo : isFileOpt (oldB fs0 ds e.flat.path) with
          | false =>
            -- a free place: written without asking
            rw [hfo] at hkind hasks
            simp only [Bool.false_eq_true, if_false] at hkind
            have hpass : preOf { s with rd := rd' } inp.h = some (false, { s with rd := rd' }) :=
              preOf_pass _ inp.h (Or.inr (by
                show Fs.existsKind s.fs (fileFullPath inp.h s.opts) = .none
                rw [hfn]; exact hkind))
            have hrun : extractArchivedFile { s with rd := rd' } inp.h =
                wroteU { s with rd := rd' } fsY (fullOf (e.flat.reloc ds)) := by
              rw [eaf_wroteF _ _ inp.h fsY hpass hnd
                (by show parentsOf { s with rd := rd' } (fileFullPath inp.h s.opts) = (true, fsY)
                    unfold parentsOf; simp only [hty']; rw [hfn]; exact hpar)]
              show wroteU _ _ (fileFullPath inp.h s.opts) = _
              rw [hfn]
            rw [hrun] at hd2 ⊢
            obtain ⟨hcore, rk, rstack⟩ := step_write_flat { s with rd := rd' } inp fsX fsY k hi1 hb hse hdir
              hX hwX hpm hlook hpol1 hty' hcur1 hh hdec1
            have hrd1 : RdInv (wroteU { s with rd := rd' } fsY (fullOf (e.flat.reloc ds))).rd [] tl := by
              refine ⟨rk.policy.trans hpol1, rk.deferred.trans hdef1, ?_,
                Or.inr (Or.inl (rk.currType.trans hty')), fun h => ?_⟩
              · rw [rstack]; show StackRel rd'.dirStack []; rw [hstk']; trivial
              · rw [rk.currType] at h
                rw [show ({ s with rd := rd' } : Extract.St).rd.currType = .normal from hty'] at h
                cases h
            have := ih _ (doneF ++ [e.flat]) tl pol ls hlen hcore hrd1 hd2
            rw [plan_cons_free _ _ _ _ _ hasks]
            simpa using this
          | true =>
            -- an old file is in the way: the policy decides
            rw [hfo] at hkind hasks
            simp only [if_true] at hkind
            have hfile : e.isFile = true := by
              rcases hpre with h | ⟨h2, _, _⟩
              · rw [free_of_take h e.flat.path hkf.ne (List.prefix_refl _)] at hfo; cases hfo
              · rw [flat_isFile] at h2; exact h2
            obtain ⟨p, data, perms, mtime, rfl⟩ := (isFile_iff e).1 hfile
            have hmeth : inp.h.method ≠ lhd := hh.2.2.1
            have hsym : inp.h.symlinkTarget = none := hh.2.2.2.1
            have hex : Fs.existsKind s.fs (fileFullPath inp.h s.opts) = .file := by
              rw [hfn]; exact hkind
            have hpo := preOf_exists { s with rd := rd' } inp.h hmeth hsym hex
            have hasked : AskedF fs0 ds sel (Entry.file p data perms mtime :: tl) :=
              ⟨_, by simp, hse, hdir, by rw [← flat_path _ hdir]; exact hfo⟩
            obtain ⟨c1, c2⟩ := confirm_follows_spec pol s.answers ls (hi.ans hasked)
            rw [show ({ s with rd := rd' } : Extract.St).opts.overwrite = pol from hi.policy] at hpo
            cases hask : askOne pol ls with
            | none =>
              rw [show ({ s with rd := rd' } : Extract.St).answers = s.answers from rfl, c1 hask] at hpo
              rw [eaf_abort _ _ hpo, extractLoop_aborted _ _ rfl, plan_cons_eof _ _ _ _ _ hasks hask]
              refine ⟨rfl, rfl, ?_⟩
              have := hi.fs
              simpa using this
            | some r =>
              obtain ⟨w, pol', ls'⟩ := r
              obtain ⟨a', hc, hans⟩ := c2 w pol' ls' hask
              rw [show ({ s with rd := rd' } : Extract.St).answers = s.answers from rfl, hc] at hpo
              rw [plan_cons_asked _ _ _ _ _ hasks w pol' ls' hask]
              have hi2 := hi1.answered pol' a' ls' hans
              cases w with
              | true =>
                have hrun : extractArchivedFile { s with rd := rd' } inp.h =
                    wroteU (answered { s with rd := rd' } pol' a') fsY
                      (fullOf ((Entry.file p data perms mtime).flat.reloc ds)) := by
                  rw [eaf_wroteF _ _ inp.h fsY hpo hnd
                    (by show parentsOf (answered { s with rd := rd' } pol' a') (fileFullPath inp.h s.opts) =
                          (true, fsY)
                        unfold parentsOf answered; simp only [hty']; rw [hfn]; exact hpar)]
                  show wroteU _ _ (fileFullPath inp.h s.opts) = _
                  rw [hfn]
                rw [hrun] at hd2 ⊢
                obtain ⟨hcore, rk, rstack⟩ := step_write_flat (answered { s with rd := rd' } pol' a') inp
                  fsX fsY k hi2 hb hse hdir hX hwX hpm hlook hpol1 hty' hcur1 hh hdec1
                have hrd1 : RdInv (wroteU (answered { s with rd := rd' } pol' a') fsY
                    (fullOf ((Entry.file p data perms mtime).flat.reloc ds))).rd [] tl := by
                  refine ⟨rk.policy.trans hpol1, rk.deferred.trans hdef1, ?_,
                    Or.inr (Or.inl (rk.currType.trans hty')), fun h => ?_⟩
                  · rw [rstack]; show StackRel rd'.dirStack []; rw [hstk']; trivial
                  · rw [rk.currType] at h
                    rw [show (answered { s with rd := rd' } pol' a').rd.currType = .normal from hty'] at h
                    cases h
                have := ih _ (doneF ++ [(Entry.file p data perms mtime).flat]) tl pol' ls' hlen hcore hrd1 hd2
                simpa using this
              | false =>
                rw [eaf_kept _ _ inp.h hpo] at hd2 ⊢
                have hstep := step_keep_flat (answered { s with rd := rd' } pol' a') hi2
                have := ih _ doneF tl pol' ls' hlen hstep hrd0 hd2
                simpa using this

end LhasaV.ExtractTree
