import LhasaV.Lemmas.Lh1Gather
import LhasaV.Lemmas.Lh1RbLoop
/-! the first two loops of `reconstruct_tree` rebuild a well-formed, sorted tree. -/
namespace LhasaV.Lh1
open LhasaV.Res

theorem rebuildTree_spec (s : St) (hb : Base s) (ht : Tree (lf s) (ch s) (pa s) (fr s) (ln s) 0)
    (hs : Sorted (fr s)) :
    ∃ s1 s2, gatherLeaves numNodes 0 0 s = .ok s1 ∧
      rebuildLoop (numNodes + 1) (numNodes - 1 : Nat) (numCodes - 1 : Nat) (numNodes - 1 : Nat) s1 = .ok s2 ∧
      Base s2 ∧ Tree (lf s2) (ch s2) (pa s2) (fr s2) (ln s2) 0 ∧ Sorted (fr s2) ∧ fr s2 0 < 32768 := by
  obtain ⟨s1, h1, hg⟩ := gather_spec s hb ht hs
  obtain ⟨s2, h2, r⟩ := rebuildLoop_spec s1 hg
  exact ⟨s1, s2, h1, h2, r⟩

end LhasaV.Lh1
