import LhasaV.Lemmas.ExtractTree3
/-!
# C06 (part 4): `make_parent_directories` when the parents exist; `lha_arch_fopen`;
`set_directory_metadata`
-/
namespace LhasaV.ExtractTree
open LhasaV LhasaV.Header LhasaV.Extract LhasaV.GlobFs LhasaV.Contain

theorem Walk.of_prefix {fs : Fs.St} {cur : Fs.Path} {cs pre : List Bytes} (h : Walk fs cur cs)
    (hp : pre <+: cs) : Walk fs cur pre := by
  intro pre' hp' hne
  apply h pre' (hp'.trans hp)
  intro e
  subst e
  exact hne (List.IsPrefix.eq_of_length_le hp' hp.length_le)

theorem foldl_noop (fs : Fs.St) (trimmed : Bytes) (l : List Nat)
    (h : ∀ i ∈ l, checkParentDirectory fs (trimmed.take i) = (true, fs)) :
    l.foldl (fun (acc : Bool × Fs.St) i =>
      if !acc.1 then acc else checkParentDirectory acc.2 (trimmed.take i)) (true, fs) = (true, fs) := by
  induction l with
  | nil => rfl
  | cons i l ih =>
    rw [List.foldl_cons]
    simp only [Bool.not_true, Bool.false_eq_true, if_false]
    rw [h i (by simp)]
    exact ih (fun j hj => h j (by simp [hj]))

/-- **`make_parent_directories` is a no-op** when the path (trailing separators removed) splits
into real names and every proper directory prefix exists: nothing is created, nothing is stamped -/
theorem makeParents_noop (fs : Fs.St) (path : Bytes) (cs : List Bytes)
    (hsplit : Fs.splitPath (trim path) = cs) (hrel : (trim path).head? ≠ some 0x2f)
    (hg : ∀ c ∈ cs, Good c) (hlen : cs.length < 64) (hw : Walk fs fs.cwd cs) :
    makeParentDirectories fs path = (true, fs) := by
  suffices key : ∀ i ∈ prefixEnds (trim path),
      checkParentDirectory fs ((trim path).take i) = (true, fs) from
    foldl_noop fs (trim path) _ key
  intro i hi
  obtain ⟨h1, h2⟩ := mem_prefixEnds _ i hi
  have hcut := split_at_slash (trim path) i h1 h2
  generalize (trim path).take i = x at hcut ⊢
  generalize (trim path).drop (i + 1) = y at hcut
  rw [hcut, split_append] at hsplit
  have hpre : Fs.splitPath x <+: cs := ⟨_, hsplit⟩
  have hne : Fs.splitPath x ≠ cs := by
    intro e
    rw [e] at hsplit
    have := List.append_cancel_left (as := cs) (bs := Fs.splitPath y) (cs := []) (by simpa using hsplit)
    exact split_ne_nil y this
  have hgx : ∀ c ∈ Fs.splitPath x, Good c := fun c hc => hg c (hpre.subset hc)
  have hT : Target fs x (Fs.splitPath x) := by
    refine ⟨?_, ?_, split_ne_nil x, hgx, ?_, hw.of_prefix hpre⟩
    · rw [hcut] at hrel; exact head_prefix_rel x _ hrel
    · unfold comps; exact filter_good _ hgx
    · exact Nat.lt_of_le_of_lt hpre.length_le hlen
  obtain ⟨m, t, hd, _⟩ := hw _ hpre hne
  unfold checkParentDirectory
  rw [existsKind_dir hT m t hd]

/-! ## `lha_arch_fopen` at a new name -/

theorem archFopen_new {fs : Fs.St} {path : Bytes} {cs : List Bytes} (h : Target fs path cs)
    (hnone : Fs.lookup fs (fs.cwd ++ cs) = none)
    (hm : Fs.canModify fs (fs.cwd ++ cs).dropLast = true) (perms : Option Nat) :
    (Fs.archFopen fs path perms).1 = some (fs.cwd ++ cs) ∧
    Created fs (Fs.archFopen fs path perms).2 (fs.cwd ++ cs)
      (.file [] (match perms with | some m => m % 4096 | none => 0o600 - (0o600 &&& fs.umask)) fs.now) := by
  have hc : Created fs (Fs.openExcl fs path).2 (fs.cwd ++ cs)
      (.file [] (0o600 - (0o600 &&& fs.umask)) fs.now) := by
    rw [openExcl_eq h hnone hm]; exact created_of_set fs _ _ _ h.q_ne
  unfold Fs.archFopen
  rw [unlink_none h hnone]
  simp only
  rw [show (Fs.openExcl fs path).1 = some (fs.cwd ++ cs) by rw [openExcl_eq h hnone hm]]
  cases perms with
  | none => exact ⟨rfl, hc⟩
  | some m =>
    refine ⟨rfl, ?_⟩
    have ht := fchmod_file (Fs.openExcl fs path).2 (fs.cwd ++ cs) [] _ _ m h.q_ne hc.self
    exact hc.touch ht h.q_ne

/-! ## `set_directory_metadata` on an existing directory -/

/-- **the metadata step** sets exactly the recorded time (when there is one) and the recorded
permission bits (when there are any) on that directory, and changes nothing else -/
theorem setDirMeta_effect {fs : Fs.St} {path : Bytes} {cs : List Bytes} (hT : Target fs path cs)
    (h : Hdr) (m t : Nat) (hl : Fs.lookup fs (fs.cwd ++ cs) = some (.dir m t)) :
    Touched fs (setDirectoryMetadata fs h path) (fs.cwd ++ cs)
      (.dir (if hasFlag h Gen.flagUnixPerms then h.unixPerms % 4096 else m)
            (if h.timestamp ≠ 0 then h.timestamp else t)) := by
  unfold setDirectoryMetadata
  simp only
  by_cases hts : h.timestamp ≠ 0
  · have hu := (utime_dir hT m t h.timestamp hl).2
    have hk : DirsKept fs (Fs.utime fs path h.timestamp).2 := by
      refine ⟨hu.params.root, hu.params.cwd, ?_⟩
      intro p m' t' hp
      by_cases hpq : p = fs.cwd ++ cs
      · subst hpq
        rw [hl] at hp
        injection hp with hp; injection hp with h1 h2
        subst h1
        exact ⟨_, hu.self⟩
      · exact ⟨t', by rw [hu.frame p hpq]; exact hp⟩
    have hT' := hT.kept hk
    simp only [if_pos hts]
    by_cases hf : hasFlag h Gen.flagUnixPerms = true
    · simp only [hf, if_true]
      have hc := (chmod_dir hT' m h.timestamp h.unixPerms (by rw [hu.params.cwd]; exact hu.self)).2
      rw [hu.params.cwd] at hc
      exact hu.trans hc
    · simp only [hf, Bool.false_eq_true, if_false]
      exact hu
  · simp only [if_neg hts]
    by_cases hf : hasFlag h Gen.flagUnixPerms = true
    · simp only [hf, if_true]
      exact (chmod_dir hT m t h.unixPerms hl).2
    · simp only [hf, Bool.false_eq_true, if_false]
      exact Touched.refl fs _ _ hl

end LhasaV.ExtractTree
