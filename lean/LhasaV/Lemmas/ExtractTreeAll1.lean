import LhasaV.Lemmas.ExtractTreeOw
import LhasaV.Lemmas.ExtractTreeImp
/-!
# C06, all deviations together (part 1): the order condition, the expected tree, the invariant

`ExtractTreeOpt*` (wildcards, `w=DIR`), `ExtractTreeOw*` (pre-existing files and the overwrite
policy) and `ExtractTreeImp*` (implicit parents, late directory entries) each treat ONE deviation
from the plain case.  Here they are combined:

* `WFU sel stk seen es`: the MIXED discipline `WFI` (ExtractTreeImp1) for the SELECTED entries —
  an entry that is not selected is never extracted (a directory entry that is not selected is never
  pushed, so its selected children find their parent implicit), but it still closes the open
  directories it is outside of (as in `WFS`, ExtractTreeOpt6).
* `uniTree now umask old written`: at the path of a written entry the entry in its final form,
  at every other proper prefix of a written path a directory 0755-under-umask / `now`
  (`impTreeOf`), everywhere else what was there before (`old`).
* `FsInvU fs₁ B done stk fs`: ONE invariant — base path `B` (`FsInvB`), implicit directories
  (`FsInvI`), "everything else is as it was in the reference state" (`FsInvO`).
* `usable_of_invU`, `walkIn_base`, `walkIn_below`: what exists above a path can be walked and written.
-/
namespace LhasaV.ExtractTree
open LhasaV LhasaV.Header LhasaV.Extract LhasaV.GlobFs LhasaV.Contain

/-! ## the order condition -/

/-- **mixed archives under a selection**: `WFI` where only the selected entries count; entries
that are not selected only close the open directories they are outside of -/
def WFU (sel : Entry → Bool) : List Fs.Path → List Fs.Path → List Entry → Prop
  | _, _, [] => True
  | stk, seen, e :: es =>
    EntryOk e ∧
    if sel e = true then
      (∀ p ∈ seen, p <+: e.path → p ∈ popStk stk e.dirPart) ∧
      if lateDir seen e = true then WFU sel (popStk stk e.dirPart) seen es
      else (∀ p ∈ seen, ¬ e.path <+: p) ∧
        WFU sel (if e.isDir then e.path :: popStk stk e.dirPart else popStk stk e.dirPart)
          (seen ++ [e.path]) es
    else WFU sel (popStk stk e.dirPart) seen es

instance decWFU (sel : Entry → Bool) : ∀ (stk seen : List Fs.Path) (es : List Entry),
    Decidable (WFU sel stk seen es)
  | _, _, [] => isTrue trivial
  | stk, seen, e :: es =>
    have := decWFU sel (if e.isDir then e.path :: popStk stk e.dirPart else popStk stk e.dirPart)
      (seen ++ [e.path]) es
    have := decWFU sel (popStk stk e.dirPart) seen es
    inferInstanceAs (Decidable (EntryOk e ∧
      if sel e = true then
        (∀ p ∈ seen, p <+: e.path → p ∈ popStk stk e.dirPart) ∧
        if lateDir seen e = true then WFU sel (popStk stk e.dirPart) seen es
        else (∀ p ∈ seen, ¬ e.path <+: p) ∧
          WFU sel (if e.isDir then e.path :: popStk stk e.dirPart else popStk stk e.dirPart)
            (seen ++ [e.path]) es
      else WFU sel (popStk stk e.dirPart) seen es))

theorem WFU_pop (sel : Entry → Bool) (t : Fs.Path) (stk seen : List Fs.Path) (e : Entry) (es : List Entry)
    (h : ¬ t <+: e.dirPart) : WFU sel (t :: stk) seen (e :: es) ↔ WFU sel stk seen (e :: es) := by
  simp only [WFU, popStk_out t stk _ h]

theorem wfu_entries (sel : Entry → Bool) : ∀ (es : List Entry) (stk seen : List Fs.Path),
    WFU sel stk seen es → ∀ e ∈ es, EntryOk e := by
  intro es
  induction es with
  | nil => intro _ _ _ e he; cases he
  | cons x xs ih =>
    intro stk seen h e he
    rcases List.mem_cons.1 he with rfl | he
    · exact h.1
    · have h2 := h.2
      split at h2
      · have h3 := h2.2
        split at h3
        · exact ih _ _ h3 e he
        · exact ih _ _ h3.2 e he
      · exact ih _ _ h2 e he

/-- with everything selected `WFU` is `WFI` -/
theorem WFU_all : ∀ (es : List Entry) (stk seen : List Fs.Path),
    WFU (fun _ => true) stk seen es ↔ WFI stk seen es := by
  intro es
  induction es with
  | nil => intro _ _; exact Iff.rfl
  | cons e es ih => intro stk seen; simp only [WFU, WFI, if_true, ih]

/-! ## the expected tree -/

/-- **the tree after the run**: the written entries with their implicit parents (`impTreeOf`);
everywhere else what was there before -/
def uniTree (now umask : Nat) (old : Fs.Path → Option Fs.Ent) (written : List Entry) (p : Fs.Path) :
    Option Fs.Ent :=
  match impTreeOf now umask written p with
  | some x => some x
  | none => old p

/-- nothing there before: the tree of ExtractTreeImp -/
theorem uniTree_empty (now umask : Nat) (written : List Entry) (p : Fs.Path) :
    uniTree now umask (fun _ => none) written p = impTreeOf now umask written p := by
  unfold uniTree; cases impTreeOf now umask written p <;> rfl

/-- no implicit directory: the tree of ExtractTreeOw -/
theorem uniTree_eq_owTree (now umask : Nat) (old : Fs.Path → Option Fs.Ent) (written : List Entry)
    (p : Fs.Path) (h : impTreeOf now umask written p = treeOf now umask written p) :
    uniTree now umask old written p = owTree now umask old written p := by
  unfold uniTree owTree; rw [h]; cases treeOf now umask written p <;> rfl

/-- what stood below the place of the tree (`cwd` or `cwd/DIR`) before the run -/
def oldB (fs0 : Fs.St) (ds : List Bytes) (p : Fs.Path) : Option Fs.Ent := Fs.lookup fs0 (fs0.cwd ++ ds ++ p)

/-- does something stand at this place (relative to the base) before the run? -/
def exB (fs0 : Fs.St) (ds : List Bytes) (p : Fs.Path) : Bool := (oldB fs0 ds p).isSome

/-! ## the invariant -/

/-- **the unified file-system invariant**, relative to the reference state `fs1` (in which the
base directory `B` exists): every written entry at `B ++ path` (an open directory entry in its
provisional form); every other proper prefix of a written path a directory `impMode` / `now`;
every other path below `B` as in `fs1`; `B` keeps its mode; nothing outside `B` changed -/
structure FsInvU (fs1 : Fs.St) (B : Fs.Path) (done : List Entry) (stk : List Fs.Path) (fs : Fs.St) :
    Prop where
  params : SameParams fs1 fs
  ents : ∀ e ∈ done, Fs.lookup fs (B ++ e.path) =
    some (if e.path ∈ stk then e.opened fs1.now fs1.umask else e.final fs1.now fs1.umask)
  imp : ∀ p, p ≠ [] → (∃ e ∈ done, p <+: e.path) → (∀ e ∈ done, e.path ≠ p) →
    Fs.lookup fs (B ++ p) = some (.dir (impMode fs1.umask) fs1.now)
  other : ∀ p, p ≠ [] → (∀ e ∈ done, ¬ p <+: e.path) → Fs.lookup fs (B ++ p) = Fs.lookup fs1 (B ++ p)
  base : ∃ m t0 t, Fs.lookup fs1 B = some (.dir m t0) ∧ Fs.lookup fs B = some (.dir m t) ∧
    (fs1.root = true ∨ (m / 64 % 2 = 1 ∧ m / 128 % 2 = 1)) ∧
    (done ≠ [] → B ≠ [] → t = fs1.now) ∧ (done = [] → t = t0)
  outside : ∀ x, ¬ B <+: x → Fs.lookup fs x = Fs.lookup fs1 x

/-- the start: nothing written, the file system is the reference state -/
theorem fsInvU_start (fs1 : Fs.St) (B : Fs.Path) (m t : Nat) (hl : Fs.lookup fs1 B = some (.dir m t))
    (hacc : fs1.root = true ∨ (m / 64 % 2 = 1 ∧ m / 128 % 2 = 1)) : FsInvU fs1 B [] [] fs1 :=
  ⟨SameParams.refl fs1, fun e he => (by cases he),
   fun _ _ hex => (by obtain ⟨e, he, _⟩ := hex; cases he), fun _ _ _ => rfl,
   ⟨m, t, t, hl, hl, hacc, fun h => absurd rfl h, fun _ => rfl⟩, fun _ _ => rfl⟩

/-- a non-empty prefix of a written path exists -/
theorem FsInvU.exists_of_prefix {fs1 fs : Fs.St} {B : Fs.Path} {done : List Entry} {stk : List Fs.Path}
    (hi : FsInvU fs1 B done stk fs) (p : Fs.Path) (h0 : p ≠ []) (hex : ∃ a ∈ done, p <+: a.path) :
    Fs.lookup fs (B ++ p) ≠ Option.none := by
  by_cases hent : ∃ x ∈ done, x.path = p
  · obtain ⟨x, hx, hxp⟩ := hent
    have := hi.ents x hx
    rw [hxp] at this
    rw [this]; simp
  · rw [hi.imp p h0 hex (fun x hx h => hent ⟨x, hx, h⟩)]; simp

/-- a directory below the base the user may search and write; unless it is the base itself it
carries `now` -/
def UsableDirB (fs1 : Fs.St) (B : Fs.Path) (fs : Fs.St) (p : Fs.Path) : Prop :=
  ∃ m t, Fs.lookup fs (B ++ p) = some (.dir m t) ∧
    (fs1.root = true ∨ (m / 64 % 2 = 1 ∧ m / 128 % 2 = 1)) ∧ (p ≠ [] → t = fs1.now)

/-- **what exists above a path is usable**: a proper prefix of `path` that is `[]` or a prefix of
a written path is the base, an open directory entry or an implicit directory -/
theorem usable_of_invU {fs1 fs : Fs.St} {B : Fs.Path} {done stk : List Entry}
    (hi : FsInvU fs1 B done (stk.map Entry.path) fs) (hd : DoneI done stk) (ha : AccessW fs1)
    (path : Fs.Path)
    (hanc : ∀ a ∈ done, a.path <+: path → a.path ≠ path → a.path ∈ stk.map Entry.path)
    (pre : Fs.Path) (hp : pre <+: path) (hne : pre ≠ path)
    (hex : pre = [] ∨ ∃ e ∈ done, pre <+: e.path) : UsableDirB fs1 B fs pre := by
  by_cases h0 : pre = []
  · subst h0
    obtain ⟨m, _, t, _, hl, hacc, _⟩ := hi.base
    exact ⟨m, t, by simpa using hl, hacc, fun h => absurd rfl h⟩
  · have hex' : ∃ e ∈ done, pre <+: e.path := by
      rcases hex with h | h
      · exact absurd h h0
      · exact h
    by_cases hent : ∃ a ∈ done, a.path = pre
    · obtain ⟨a, had, hap⟩ := hent
      have hm : a.path ∈ stk.map Entry.path := hanc a had (hap ▸ hp) (hap ▸ hne)
      obtain ⟨d, hds, hdp⟩ := List.mem_map.1 hm
      obtain ⟨hdd, hdir⟩ := hd.sub d hds
      have had' : a = d := eq_of_path_eq done hd.nodup a had d hdd hdp.symm
      subst had'
      have hl := hi.ents a had
      rw [if_pos hm] at hl
      obtain ⟨b, hb, ho⟩ := opened_dir a hdir fs1.now fs1.umask
      rw [ho, hap] at hl
      refine ⟨_, _, hl, ?_, fun _ => rfl⟩
      rcases ha with h | h
      · exact Or.inl h
      · exact Or.inr (h.1 b hb)
    · have hl := hi.imp pre h0 hex' (fun e he h => hent ⟨e, he, h⟩)
      exact ⟨_, _, hl, accessW_bits ha, fun _ => rfl⟩

theorem UsableDirB.search {fs1 fs : Fs.St} {ds : List Bytes} {p : Fs.Path}
    (h : UsableDirB fs1 (fs1.cwd ++ ds) fs p) (hp : SameParams fs1 fs) :
    ∃ m t, Fs.lookup fs (fs.cwd ++ (ds ++ p)) = some (.dir m t) ∧ (fs.root = true ∨ m / 64 % 2 = 1) := by
  obtain ⟨m, t, hl, hacc, _⟩ := h
  refine ⟨m, t, by rw [hp.cwd, ← List.append_assoc]; exact hl, ?_⟩
  rw [hp.root]
  rcases hacc with h | h
  · exact Or.inl h
  · exact Or.inr h.1

theorem UsableDirB.modify {fs1 fs : Fs.St} {ds : List Bytes} {p : Fs.Path}
    (h : UsableDirB fs1 (fs1.cwd ++ ds) fs p) (hp : SameParams fs1 fs) :
    Fs.canModify fs (fs.cwd ++ (ds ++ p)) = true := by
  obtain ⟨m, t, hl, hacc, _⟩ := h
  exact canModify_of_dir fs _ m t (by rw [hp.cwd, ← List.append_assoc]; exact hl)
    (by rw [hp.root]; exact hacc)

/-! ## the directories leading to the base, and below it -/

/-- the components of `DIR` can be walked in every state that satisfies the invariant -/
theorem walkIn_base {fs1 fs : Fs.St} {ds : List Bytes} {done : List Entry} {stk : List Fs.Path}
    (hi : FsInvU fs1 (fs1.cwd ++ ds) done stk fs) (hw : WalkIn fs1 ds) : WalkIn fs ds := by
  intro pre hpre
  rw [hi.params.cwd, hi.params.root]
  by_cases he : pre = ds
  · subst he
    obtain ⟨m, t0, t, hl1, hl, _, _⟩ := hi.base
    obtain ⟨m', t', hl', hs⟩ := hw pre (List.prefix_refl _)
    rw [hl1] at hl'
    injection hl' with hl'; injection hl' with hm _
    subst hm
    exact ⟨m, t, hl, hs⟩
  · obtain ⟨m, t, hl, hs⟩ := hw pre hpre
    refine ⟨m, t, ?_, hs⟩
    rw [hi.outside _ (fun h => ?_)]
    · exact hl
    · have h1 := h.length_le
      have h2 := prefix_len_lt hpre he
      simp only [List.length_append] at h1
      omega

/-- … and so can the usable directories below it -/
theorem walkIn_below {fs1 fs : Fs.St} {ds w : List Bytes} (hp : SameParams fs1 fs) (hw : WalkIn fs ds)
    (hus : ∀ pre, pre <+: w → UsableDirB fs1 (fs1.cwd ++ ds) fs pre) : WalkIn fs (ds ++ w) := by
  intro pre hpre
  rcases prefix_split hpre with h | ⟨q, _, hq, rfl⟩
  · exact hw pre h
  · exact (hus q hq).search hp

end LhasaV.ExtractTree
