import LhasaV.Model.Extract
import LhasaV.Lemmas.HeaderName
import LhasaV.Lemmas.PathFix
/-!
# Lexical containment of constructed paths (part B of `GlobFs`)

`Fs.splitPath` as a function on '/'-separated strings, the C11 path invariant in list form, and
what `file_full_path` builds from a header that satisfies the invariant.
-/
namespace LhasaV.GlobFs
open LhasaV LhasaV.Header LhasaV.Extract

/-! ## `Fs.splitPath` -/

theorem go_acc (bs cur : List UInt8) :
    Fs.splitPath.go bs cur =
      (cur.reverse ++ (Fs.splitPath.go bs []).headD []) :: (Fs.splitPath.go bs []).tail := by
  induction bs generalizing cur with
  | nil => simp [Fs.splitPath.go]
  | cons b bs ih =>
    by_cases hb : (b == 0x2f) = true
    · simp [Fs.splitPath.go, hb]
    · simp only [Fs.splitPath.go, hb, Bool.false_eq_true, if_false]
      rw [ih (b :: cur), ih [b]]
      simp

theorem split_nil : Fs.splitPath [] = [[]] := by simp [Fs.splitPath, Fs.splitPath.go]

theorem split_slash (bs : List UInt8) : Fs.splitPath (0x2f :: bs) = [] :: Fs.splitPath bs := by
  simp [Fs.splitPath, Fs.splitPath.go]

theorem split_other (b : UInt8) (bs : List UInt8) (hb : b ≠ 0x2f) :
    Fs.splitPath (b :: bs) = (b :: (Fs.splitPath bs).headD []) :: (Fs.splitPath bs).tail := by
  have hb' : (b == 0x2f) = false := by simpa using hb
  simp only [Fs.splitPath, Fs.splitPath.go, hb', Bool.false_eq_true, if_false]
  rw [go_acc bs [b]]; simp

theorem split_ne_nil (p : List UInt8) : Fs.splitPath p ≠ [] := by
  cases p with
  | nil => simp [split_nil]
  | cons b bs =>
    by_cases hb : b = 0x2f
    · subst hb; simp [split_slash]
    · simp [split_other b bs hb]

/-- a string without separator is one component -/
theorem split_noslash (a : List UInt8) (ha : NoSlash a) : Fs.splitPath a = [a] := by
  induction a with
  | nil => exact split_nil
  | cons b bs ih =>
    have hb : b ≠ 0x2f := ha b (by simp)
    rw [split_other b bs hb, ih (fun x hx => ha x (by simp [hx]))]; simp

/-- splitting distributes over a separator -/
theorem split_append (x y : List UInt8) :
    Fs.splitPath (x ++ 0x2f :: y) = Fs.splitPath x ++ Fs.splitPath y := by
  induction x with
  | nil => simp [split_slash, split_nil]
  | cons b x ih =>
    by_cases hb : b = 0x2f
    · subst hb; simp [split_slash, ih]
    · rw [List.cons_append, split_other b _ hb, ih, split_other b x hb]
      have hx := split_ne_nil x
      cases hsx : Fs.splitPath x with
      | nil => exact absurd hsx hx
      | cons c cs => simp

theorem split_cons_comp (a b : List UInt8) (ha : NoSlash a) :
    Fs.splitPath (a ++ 0x2f :: b) = a :: Fs.splitPath b := by
  rw [split_append, split_noslash a ha]; simp

/-- every string is one separator-free component, or such a component, a separator and a rest -/
theorem decomp (p : List UInt8) : NoSlash p ∨ ∃ a b, p = a ++ 0x2f :: b ∧ NoSlash a := by
  induction p with
  | nil => left; intro b hb; simp at hb
  | cons c p ih =>
    by_cases hc : c = 0x2f
    · subst hc; right; exact ⟨[], p, by simp, by intro b hb; simp at hb⟩
    · rcases ih with h | ⟨a, b, rfl, ha⟩
      · left; intro x hx
        rcases List.mem_cons.1 hx with rfl | hx
        · exact hc
        · exact h x hx
      · right; refine ⟨c :: a, b, by simp, ?_⟩
        intro x hx
        rcases List.mem_cons.1 hx with rfl | hx
        · exact hc
        · exact ha x hx

/-- induction along the components of a '/'-separated string -/
theorem path_ind {M : List UInt8 → Prop}
    (h1 : ∀ a, NoSlash a → M a)
    (h2 : ∀ a b, NoSlash a → M b → M (a ++ 0x2f :: b)) : ∀ p, M p := by
  have key : ∀ n, ∀ p : List UInt8, p.length ≤ n → M p := by
    intro n
    induction n with
    | zero =>
      intro p hp
      have : p = [] := List.eq_nil_of_length_eq_zero (by omega)
      subst this; exact h1 [] (by intro b hb; simp at hb)
    | succ n ih =>
      intro p hp
      rcases decomp p with h | ⟨a, b, rfl, ha⟩
      · exact h1 p h
      · exact h2 a b ha (ih b (by simp at hp; omega))
  intro p; exact key p.length p (Nat.le_refl _)

/-! ## the C11 invariant in list form -/

/-- a real name: not empty, not ".", not ".." -/
def Good (c : Bytes) : Prop := c ≠ [] ∧ c ≠ [0x2e] ∧ c ≠ [0x2e, 0x2e]

/-- no component is ".." -/
def NoDotDot (p : Bytes) : Prop := ∀ c ∈ Fs.splitPath p, c ≠ [0x2e, 0x2e]

open PathFix in
theorem at_left (a b : Bytes) (i : Nat) (h : i < a.length) : at' (a ++ slash :: b) i = at' a i := by
  simp [at', List.getD_eq_getElem?_getD, List.getElem?_append_left h]

open PathFix in
theorem at_mid (a b : Bytes) : at' (a ++ slash :: b) a.length = slash := by
  simp [at', List.getD_eq_getElem?_getD]

open PathFix in
theorem at_right (a b : Bytes) (i : Nat) : at' (a ++ slash :: b) (i + (a.length + 1)) = at' b i := by
  simp only [at', List.getD_eq_getElem?_getD]
  rw [List.getElem?_append_right (by omega)]
  have : i + (a.length + 1) - a.length = i + 1 := by omega
  rw [this]; simp

open PathFix in
theorem at_noslash (a : Bytes) (ha : NoSlash a) (i : Nat) : at' a i ≠ slash := by
  by_cases h : i < a.length
  · have : at' a i = a[i] := by simp [at', List.getD_eq_getElem?_getD, h]
    rw [this]; exact ha _ (List.getElem_mem h)
  · rw [at_oob a i (by omega)]; exact slash_ne_zero

open PathFix in
/-- the tail of a clean path after its first component is clean -/
theorem clean_tail (a b : Bytes) (h : Clean (a ++ slash :: b)) : Clean b := by
  intro a' e' hb hae he hs hno
  have hB : Boundary (a ++ slash :: b) (a' + (a.length + 1)) := by
    rcases hb with rfl | hb
    · right; simp
    · by_cases h0 : a' = 0
      · subst h0; right; simp
      · right
        have : a' + (a.length + 1) - 1 = (a' - 1) + (a.length + 1) := by omega
        rw [this, at_right]; exact hb
  have := h (a' + (a.length + 1)) (e' + (a.length + 1)) hB (by omega)
    (by simp; omega) (by rw [at_right]; exact hs)
    (by
      intro i h1 h2
      have : i = (i - (a.length + 1)) + (a.length + 1) := by omega
      rw [this, at_right]; exact hno _ (by omega) (by omega))
  obtain ⟨g1, g2, g3⟩ := this
  refine ⟨by omega, ?_, ?_⟩
  · rintro ⟨h1, h2⟩
    exact g2 ⟨by omega, by rw [at_right]; exact h2⟩
  · rintro ⟨h1, h2, h3⟩
    refine g3 ⟨by omega, by rw [at_right]; exact h2, ?_⟩
    have : a' + (a.length + 1) + 1 = (a' + 1) + (a.length + 1) := by omega
    rw [this, at_right]; exact h3

open PathFix in
/-- the first component of a clean path is a real name -/
theorem clean_head (a b : Bytes) (ha : NoSlash a) (h : Clean (a ++ slash :: b)) : Good a := by
  have := h 0 a.length (Or.inl rfl) (Nat.zero_le _) (by simp) (at_mid a b)
    (by intro i _ hi; rw [at_left a b i hi]; exact at_noslash a ha i)
  obtain ⟨g1, g2, g3⟩ := this
  refine ⟨?_, ?_, ?_⟩
  · rintro rfl; simp at g1
  · rintro rfl; exact g2 ⟨rfl, by simp [at', dot]⟩
  · rintro rfl; exact g3 ⟨rfl, by simp [at', dot], by simp [at', dot]⟩

/-- **C11 in list form**: every component of a clean path except the last (the part after the
final '/') is a real name -/
theorem clean_dirs (p : Bytes) : PathFix.Clean p → ∀ c ∈ (Fs.splitPath p).dropLast, Good c := by
  induction p using path_ind with
  | h1 a ha => intro _ c hc; simp [split_noslash a ha] at hc
  | h2 a b ha ih =>
    intro h c hc
    rw [split_cons_comp a b ha, List.dropLast_cons_of_ne_nil (split_ne_nil b)] at hc
    rcases List.mem_cons.1 hc with rfl | hc
    · exact clean_head c b ha h
    · exact ih (clean_tail a b h) c hc

/-- appending a separator-free name only extends the last component -/
theorem split_append_noslash (f : Bytes) (hf : NoSlash f) (p : Bytes) :
    (Fs.splitPath (p ++ f)).dropLast = (Fs.splitPath p).dropLast := by
  induction p using path_ind with
  | h1 a ha =>
    have : NoSlash (a ++ f) := by
      intro x hx
      rcases List.mem_append.1 hx with hx | hx
      · exact ha x hx
      · exact hf x hx
    simp [split_noslash a ha, split_noslash _ this]
  | h2 a b ha ih =>
    rw [List.append_assoc, List.cons_append, split_cons_comp a _ ha, split_cons_comp a b ha,
      List.dropLast_cons_of_ne_nil (split_ne_nil _), List.dropLast_cons_of_ne_nil (split_ne_nil _), ih]

/-- after a path that is empty or ends in '/', the name is the last component -/
theorem split_dir_name (p f : Bytes) (hf : NoSlash f) :
    Fs.splitPath (p ++ 0x2f :: f) = Fs.splitPath p ++ [f] := by
  rw [split_append, split_noslash f hf]

/-! ## B. what `file_full_path` builds -/

theorem strip_noslash (f : Bytes) (hf : NoSlash f) : stripSlashes f = f := by
  cases f with
  | nil => rfl
  | cons b bs =>
    have : (b == 0x2f) = false := by simpa using hf b (by simp)
    simp [stripSlashes, this]

open PathFix in
theorem strip_cleanPath (p : Bytes) (hp : CleanPath p) : Clean (stripSlashes p) := by
  unfold CleanPath at hp
  cases p with
  | nil => exact hp
  | cons c rest =>
    by_cases hc : c = slash
    · subst hc
      rw [stripLead_cons_slash] at hp
      have : stripSlashes (slash :: rest) = rest := by
        cases rest with
        | nil => rfl
        | cons d ds =>
          have hd := clean_no_lead_slash (d :: ds) hp (by simp)
          have hd' : (d == 0x2f) = false := by simpa [at', slash] using hd
          simp [stripSlashes, slash, hd']
      rw [this]; exact hp
    · have h1 : stripLead (c :: rest) = c :: rest := by simp [stripLead, hc]
      have hc' : (c == 0x2f) = false := by simpa [slash] using hc
      have h2 : stripSlashes (c :: rest) = c :: rest := by
        simp [stripSlashes, hc']
      rw [h2, ← h1]; exact hp

theorem clean_nil : PathFix.Clean [] := by
  intro a e _ _ he; simp at he

theorem noSlash_nil : NoSlash [] := by intro b hb; simp at hb

theorem fn_noslash (h : Hdr) (hf : FnOk h) : NoSlash (h.filename.getD []) := by
  cases hfn : h.filename with
  | none => exact noSlash_nil
  | some f => exact hf f hfn

/-- without `w=`: a clean directory part followed by a separator-free name -/
theorem full_path_shape (h : Hdr) (o : Opts) (hf : FnOk h) (hp : PathOk h)
    (hw : o.extractPath = none) :
    ∃ d, PathFix.Clean d ∧ fileFullPath h o = d ++ h.filename.getD [] := by
  have hfn := fn_noslash h hf
  unfold fileFullPath
  simp only [hw, List.nil_append, strip_noslash _ hfn]
  by_cases hu : o.usePath = true
  · simp only [hu, if_true]
    refine ⟨_, ?_, rfl⟩
    cases hpp : h.path with
    | none => exact clean_nil
    | some p => exact strip_cleanPath p (hp p hpp)
  · exact ⟨[], clean_nil, by simp [hu]⟩

/-- **C10, lexical part 1.**  For a header that satisfies the C11 invariant, every directory
component of the constructed path (every component except the last) is a real name: not empty,
not ".", not "..". -/
theorem full_path_dirs_good (h : Hdr) (o : Opts) (hf : FnOk h) (hp : PathOk h)
    (hw : o.extractPath = none) :
    ∀ c ∈ (Fs.splitPath (fileFullPath h o)).dropLast, Good c := by
  obtain ⟨d, hd, he⟩ := full_path_shape h o hf hp hw
  rw [he, split_append_noslash _ (fn_noslash h hf)]
  exact clean_dirs d hd

theorem mem_split_cases (p : Bytes) (c : Bytes) (hc : c ∈ Fs.splitPath p) :
    c ∈ (Fs.splitPath p).dropLast ∨ (Fs.splitPath p).getLast? = some c := by
  have := List.dropLast_concat_getLast (split_ne_nil p)
  rw [← this] at hc
  rcases List.mem_append.1 hc with hc | hc
  · exact Or.inl hc
  · right
    simp only [List.mem_singleton] at hc
    rw [hc, List.getLast?_eq_some_getLast (split_ne_nil p)]

/-- **C10, lexical part 2.**  The constructed path has no ".." component at all, provided its
last component is not ".." (the C11 invariant does not exclude a member *named* "..": see
`dotdot_name_possible`). -/
theorem full_path_no_dotdot (h : Hdr) (o : Opts) (hf : FnOk h) (hp : PathOk h)
    (hw : o.extractPath = none)
    (hlast : (Fs.splitPath (fileFullPath h o)).getLast? ≠ some [0x2e, 0x2e]) :
    NoDotDot (fileFullPath h o) := by
  intro c hc
  rcases mem_split_cases _ c hc with hc | hc
  · exact (full_path_dirs_good h o hf hp hw c hc).2.2
  · rintro rfl; exact hlast hc

/-- when the stored path is absent, empty or ends in '/' (what the header parser produces), the
last component of the constructed path is the file name -/
theorem full_path_last (h : Hdr) (o : Opts) (hf : FnOk h) (hw : o.extractPath = none)
    (hdir : h.path.getD [] = [] ∨ ∃ d, h.path.getD [] = d ++ [0x2f]) :
    (Fs.splitPath (fileFullPath h o)).getLast? = some (h.filename.getD []) := by
  have hfn := fn_noslash h hf
  unfold fileFullPath
  simp only [hw, List.nil_append, strip_noslash _ hfn]
  have hnil : (Fs.splitPath (h.filename.getD [])).getLast? = some (h.filename.getD []) := by
    rw [split_noslash _ hfn]; rfl
  by_cases hu : o.usePath = true
  · simp only [hu, if_true]
    rcases hdir with h0 | ⟨d, hd⟩
    · rw [h0]; simpa [stripSlashes] using hnil
    · -- stripping leading separators of `d ++ "/"` leaves `[]` or some `d' ++ "/"`
      have key : ∀ d : Bytes, stripSlashes (d ++ [0x2f]) = [] ∨ ∃ d', stripSlashes (d ++ [0x2f]) = d' ++ [0x2f] := by
        intro d
        induction d with
        | nil => left; simp [stripSlashes]
        | cons b bs ih =>
          by_cases hb : (b == 0x2f) = true
          · have : stripSlashes (b :: bs ++ [0x2f]) = stripSlashes (bs ++ [0x2f]) := by
              simp [stripSlashes, hb]
            rw [this]; exact ih
          · right; exact ⟨b :: bs, by simp [stripSlashes, hb]⟩
      rw [hd]
      rcases key d with h0 | ⟨d', hd'⟩
      · rw [h0]; simpa using hnil
      · rw [hd', List.append_assoc, List.singleton_append, split_dir_name d' _ hfn]; simp
  · simpa [hu] using hnil

/-- so: under the C11 invariant, with a directory-shaped stored path and a name other than "..",
the constructed path is relative and free of ".." -/
theorem full_path_contained (h : Hdr) (o : Opts) (hf : FnOk h) (hp : PathOk h)
    (hw : o.extractPath = none)
    (hdir : h.path.getD [] = [] ∨ ∃ d, h.path.getD [] = d ++ [0x2f])
    (hname : h.filename.getD [] ≠ [0x2e, 0x2e]) :
    NoDotDot (fileFullPath h o) ∧ (fileFullPath h o).head? ≠ some 0x2f := by
  refine ⟨full_path_no_dotdot h o hf hp hw ?_, ?_⟩
  · rw [full_path_last h o hf hw hdir]; simpa using hname
  · obtain ⟨d, hd, he⟩ := full_path_shape h o hf hp hw
    rw [he]
    cases d with
    | nil =>
      cases hfn : h.filename.getD [] with
      | nil => simp
      | cons b bs =>
        have := fn_noslash h hf b (by rw [hfn]; simp)
        simpa using this
    | cons b bs =>
      have := PathFix.clean_no_lead_slash (b :: bs) hd (by simp)
      simpa [PathFix.at', PathFix.slash] using this

/-- with option `i` (and no `w=`) the constructed path is a single component: the file name -/
theorem full_path_flat_single (h : Hdr) (o : Opts) (hf : FnOk h)
    (hi : o.usePath = false) (hw : o.extractPath = none) :
    Fs.splitPath (fileFullPath h o) = [h.filename.getD []] := by
  have hfn := fn_noslash h hf
  have : fileFullPath h o = h.filename.getD [] := by
    simp [fileFullPath, hi, hw, strip_noslash _ hfn]
  rw [this, split_noslash _ hfn]

/-- The C11 invariant alone does not give `NoDotDot`: a member may be *named* "..".  (Such a
path resolves to the parent of the extraction directory, which is a directory: `unlink`,
`open(O_EXCL)` and `symlink` all fail on it.) -/
theorem dotdot_name_possible :
    ∃ h : Hdr, FnOk h ∧ PathOk h ∧ ¬ NoDotDot (fileFullPath h {}) := by
  refine ⟨{ filename := some [0x2e, 0x2e] }, ?_, ?_, ?_⟩
  · intro f hf b hb
    have : f = [0x2e, 0x2e] := by simpa using hf.symm
    subst this
    simp at hb; rcases hb with rfl | rfl <;> decide
  · intro p hp; simp at hp
  · intro hnd
    exact hnd [0x2e, 0x2e] (by decide) rfl

/-! non-vacuity: path "a/b/", name "c" gives "a/b/c" with components a, b, c -/
example : fileFullPath { path := some [0x61,0x2f,0x62,0x2f], filename := some [0x63] } {}
    = [0x61,0x2f,0x62,0x2f,0x63] := by decide
example : Fs.splitPath [0x61,0x2f,0x62,0x2f,0x63] = [[0x61],[0x62],[0x63]] := by decide
example : Fs.splitPath [0x2f,0x61,0x2f,0x2f,0x62,0x2f] = [[],[0x61],[],[0x62],[]] := by decide

end LhasaV.GlobFs
