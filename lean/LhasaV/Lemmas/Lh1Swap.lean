import LhasaV.Lemmas.Lh1Defs
/-! `make_group_leader` preserves the invariant (the pending-increment marker moves to the leader). -/
namespace LhasaV.Lh1
open LhasaV.Res

theorem swap_sumTo_upd2 {f g : Nat → Nat} (n a b : Nat) (ha : a < n) (hb : b < n) (hab : a ≠ b)
    (h : ∀ i, i < n → i ≠ a → i ≠ b → f i = g i) :
    sumTo f n + g a + g b = sumTo g n + f a + f b := by
  let r : Nat → Nat := fun i => if i = a then g a else f i
  have h1 := sumTo_upd1 (f := f) (g := r) n a ha (fun i _ hia => by simp [r, hia])
  have h2 := sumTo_upd1 (f := r) (g := g) n b hb (fun i hi hib => by
    by_cases hia : i = a
    · simp [r, hia]
    · simp [r, hia]; exact h i hi hia hib)
  have hra : r a = g a := by simp [r]
  have hba : b ≠ a := fun h' => hab h'.symm
  have hrb : r b = f b := by simp [r, hba]
  rw [hra] at h1; rw [hrb] at h2
  omega

theorem swap_tree {lf ch pa fr ln x} (h : Tree lf ch pa fr ln x) (hs : Sorted fr)
    {L : Nat} (hx : x < 627) (hLx : L < x) (hfr : fr L = fr x)
    {lf' : Nat → Bool} {ch' pa' ln' : Nat → Nat}
    (hlf : ∀ j, lf' j = if j = L then lf x else if j = x then lf L else lf j)
    (hch : ∀ j, ch' j = if j = L then ch x else if j = x then ch L else ch j)
    (hpa : ∀ j, pa' j = if lf x = false ∧ (j = ch x ∨ j + 1 = ch x) then L
                        else if lf L = false ∧ (j = ch L ∨ j + 1 = ch L) then x else pa j)
    (hln : ∀ c, ln' c = if lf x = true ∧ c = ch x then L
                        else if lf L = true ∧ c = ch L then x else ln c) :
    Tree lf' ch' pa' fr ln' L := by
  have hL0 : 1 ≤ L := by
    rcases Nat.eq_zero_or_pos L with h0 | h0
    · subst h0
      have := h.root_gt hs (i := x) (by omega) hx
      omega
    · exact h0
  have hL : L < 627 := by omega
  -- children of the old leader lie right of x
  have hcl : lf L = false → x + 2 ≤ ch L := by
    intro hb
    have h1 := h.br L (by omega) hb
    have h2 := h.sum L (by omega) hb
    have hne : ¬ (L = x ∧ x ≠ 0) := by omega
    have hne0 : ¬ (L = 0 ∧ x ≠ 0) := by omega
    simp only [hne, hne0, if_false, Nat.add_zero] at h2
    have p1 := h.pos (ch L) (by omega)
    have p2 := h.pos (ch L - 1) (by omega)
    apply Classical.byContradiction
    intro hcon
    have : ch L - 1 ≤ x := by omega
    have := hs.le this hx
    omega
  have hcx : lf x = false → x + 2 ≤ ch x := fun hb => h.ch_gt hx hb
  have hbrx := h.br x hx
  have hbrL := h.br L hL
  have hlex := h.le x hx
  have hleL := h.le L hL
  have hlfL : lf' L = lf x := by simp [hlf]
  have hlfx : lf' x = lf L := by simp [hlf, show x ≠ L by omega]
  have hchL : ch' L = ch x := by simp [hch]
  have hchx : ch' x = ch L := by simp [hch, show x ≠ L by omega]
  have hinj : ∀ a b, a < 627 → b < 627 → lf a = false → lf b = false →
      (ch a = ch b ∨ ch a + 1 = ch b ∨ ch a = ch b + 1) → a = b := by
    intro a b ha hb hla hlb hor
    obtain ⟨a1, a2, a3, a4⟩ := h.br a ha hla
    obtain ⟨b1, b2, b3, b4⟩ := h.br b hb hlb
    rcases hor with e | e | e
    · rw [e] at a3; omega
    · have e' : ch b - 1 = ch a := by omega
      rw [e'] at b4; omega
    · have e' : ch a - 1 = ch b := by omega
      rw [e'] at a4; omega
  have hlinj : ∀ a b, a < 627 → b < 627 → lf a = true → lf b = true → ch a = ch b → a = b := by
    intro a b ha hb hla hlb e
    have a1 := (h.le a ha hla).2
    have b1 := (h.le b hb hlb).2
    rw [e] at a1; omega
  have hxL : x ≠ L := by omega
  constructor
  · -- br
    intro i hi hb
    by_cases hiL : i = L
    · subst hiL
      rw [hlfL] at hb
      obtain ⟨a1, a2, a3, a4⟩ := hbrx hb
      rw [hchL]
      refine ⟨a1, a2, ?_, ?_⟩
      · rw [hpa]; simp [hb]
      · rw [hpa]
        have : ch x - 1 + 1 = ch x := by omega
        simp [hb, this]
    · by_cases hix : i = x
      · subst hix
        rw [hlfx] at hb
        obtain ⟨a1, a2, a3, a4⟩ := hbrL hb
        rw [hchx]
        have hn1 : ¬ (lf i = false ∧ (ch L = ch i ∨ ch L + 1 = ch i)) :=
          fun ⟨hbx, hor⟩ => hiL (hinj i L hi hL hbx hb (by omega))
        have hn2 : ¬ (lf i = false ∧ (ch L - 1 = ch i ∨ ch L - 1 + 1 = ch i)) :=
          fun ⟨hbx, hor⟩ => hiL (hinj i L hi hL hbx hb (by omega))
        have e : ch L - 1 + 1 = ch L := by omega
        refine ⟨a1, a2, ?_, ?_⟩
        · rw [hpa, if_neg hn1]; simp [hb]
        · rw [hpa, if_neg hn2]; simp [hb, e]
      · have hb' : lf i = false := by rw [hlf, if_neg hiL, if_neg hix] at hb; exact hb
        obtain ⟨a1, a2, a3, a4⟩ := h.br i hi hb'
        have ec : ch' i = ch i := by rw [hch, if_neg hiL, if_neg hix]
        rw [ec]
        have hn1 : ¬ (lf x = false ∧ (ch i = ch x ∨ ch i + 1 = ch x)) :=
          fun ⟨hbx, hor⟩ => hix (hinj i x hi hx hb' hbx (by omega))
        have hn2 : ¬ (lf x = false ∧ (ch i - 1 = ch x ∨ ch i - 1 + 1 = ch x)) :=
          fun ⟨hbx, hor⟩ => hix (hinj i x hi hx hb' hbx (by omega))
        have hn3 : ¬ (lf L = false ∧ (ch i = ch L ∨ ch i + 1 = ch L)) :=
          fun ⟨hbx, hor⟩ => hiL (hinj i L hi hL hb' hbx (by omega))
        have hn4 : ¬ (lf L = false ∧ (ch i - 1 = ch L ∨ ch i - 1 + 1 = ch L)) :=
          fun ⟨hbx, hor⟩ => hiL (hinj i L hi hL hb' hbx (by omega))
        refine ⟨a1, a2, ?_, ?_⟩
        · rw [hpa, if_neg hn1, if_neg hn3]; exact a3
        · rw [hpa, if_neg hn2, if_neg hn4]; exact a4
  · -- le
    intro i hi hb
    by_cases hiL : i = L
    · subst hiL
      rw [hlfL] at hb
      obtain ⟨a1, a2⟩ := hlex hb
      rw [hchL]
      refine ⟨a1, ?_⟩
      rw [hln]; simp [hb]
    · by_cases hix : i = x
      · subst hix
        rw [hlfx] at hb
        obtain ⟨a1, a2⟩ := hleL hb
        rw [hchx]
        have hn1 : ¬ (lf i = true ∧ ch L = ch i) :=
          fun ⟨hbx, e⟩ => hiL (hlinj i L hi hL hbx hb e.symm)
        refine ⟨a1, ?_⟩
        rw [hln, if_neg hn1]; simp [hb]
      · have hb' : lf i = true := by rw [hlf, if_neg hiL, if_neg hix] at hb; exact hb
        obtain ⟨a1, a2⟩ := h.le i hi hb'
        have ec : ch' i = ch i := by rw [hch, if_neg hiL, if_neg hix]
        rw [ec]
        have hn1 : ¬ (lf x = true ∧ ch i = ch x) :=
          fun ⟨hbx, e⟩ => hix (hlinj i x hi hx hb' hbx e)
        have hn2 : ¬ (lf L = true ∧ ch i = ch L) :=
          fun ⟨hbx, e⟩ => hiL (hlinj i L hi hL hb' hbx e)
        refine ⟨a1, ?_⟩
        rw [hln, if_neg hn1, if_neg hn2]; exact a2
  · -- cd
    intro c hc
    obtain ⟨c1, c2, c3⟩ := h.cd c hc
    by_cases h1 : lf x = true ∧ c = ch x
    · have e : ln' c = L := by rw [hln, if_pos h1]
      rw [e, hlfL, hchL]
      exact ⟨hL, h1.1, h1.2.symm⟩
    · by_cases h2 : lf L = true ∧ c = ch L
      · have e : ln' c = x := by rw [hln, if_neg h1, if_pos h2]
        rw [e, hlfx, hchx]
        exact ⟨hx, h2.1, h2.2.symm⟩
      · have e : ln' c = ln c := by rw [hln, if_neg h1, if_neg h2]
        have nL : ln c ≠ L := fun e' => h2 ⟨by rw [← e']; exact c2, by rw [← e']; exact c3.symm⟩
        have nx : ln c ≠ x := fun e' => h1 ⟨by rw [← e']; exact c2, by rw [← e']; exact c3.symm⟩
        rw [e, hlf, hch, if_neg nL, if_neg nx, if_neg nL, if_neg nx]
        exact ⟨c1, c2, c3⟩
  · -- pr
    intro i h1 hi
    obtain ⟨p1, p2, p3⟩ := h.pr i h1 hi
    by_cases c1 : lf x = false ∧ (i = ch x ∨ i + 1 = ch x)
    · have e : pa' i = L := by rw [hpa, if_pos c1]
      have := hcx c1.1
      rw [e, hlfL, hchL]
      refine ⟨by omega, c1.1, by omega⟩
    · by_cases c2 : lf L = false ∧ (i = ch L ∨ i + 1 = ch L)
      · have e : pa' i = x := by rw [hpa, if_neg c1, if_pos c2]
        have := hcl c2.1
        rw [e, hlfx, hchx]
        refine ⟨by omega, c2.1, by omega⟩
      · have e : pa' i = pa i := by rw [hpa, if_neg c1, if_neg c2]
        have nL : pa i ≠ L := fun e' => c2 ⟨by rw [← e']; exact p2, by rw [← e']; omega⟩
        have nx : pa i ≠ x := fun e' => c1 ⟨by rw [← e']; exact p2, by rw [← e']; omega⟩
        rw [e, hlf, hch, if_neg nL, if_neg nx, if_neg nL, if_neg nx]
        exact ⟨p1, p2, p3⟩
  · exact h.pos
  · -- sum
    intro i hi hb
    have hx0 : x ≠ 0 := by omega
    have hL0' : L ≠ 0 := by omega
    by_cases hiL : i = L
    · subst hiL
      rw [hlfL] at hb
      have hsx := h.sum x hx hb
      rw [hchL]
      simp [hx0] at hsx
      simp [hL0']
      omega
    · by_cases hix : i = x
      · subst hix
        rw [hlfx] at hb
        have hsL := h.sum L hL hb
        rw [hchx]
        simp [hL0', Ne.symm hiL] at hsL
        simp [hiL, hx0]
        omega
      · have hb' : lf i = false := by rw [hlf, if_neg hiL, if_neg hix] at hb; exact hb
        have hsi := h.sum i hi hb'
        have ec : ch' i = ch i := by rw [hch, if_neg hiL, if_neg hix]
        rw [ec]
        simp [hix, hx0] at hsi
        simp [hiL, hL0']
        omega
  · -- lsum
    have hl := h.lsum
    have hsw : leafSum lf' fr = leafSum lf fr := by
      unfold leafSum
      have := swap_sumTo_upd2 (f := fun i => if lf' i then fr i else 0)
        (g := fun i => if lf i then fr i else 0) 627 L x hL hx (by omega)
        (fun i _ hiL hix => by simp only [hlf, if_neg hiL, if_neg hix])
      simp only [hlfL, hlfx, hfr] at this
      omega
    rw [hsw, hlfL]
    have hx0 : x ≠ 0 := by omega
    have hL0' : L ≠ 0 := by omega
    simp only [hx0, hL0', ne_eq, not_false_eq_true, true_and] at hl ⊢
    exact hl
  · exact h.top
  · -- nleaf
    have := cntP_upd2 (p := lf') (q := lf) 627 L x hL hx (by omega)
      (fun i _ hiL hix => by rw [hlf, if_neg hiL, if_neg hix])
    rw [hlfL, hlfx] at this
    have := h.nleaf
    omega

theorem swap_fixLinks_leaf (s : St) (idx : Nat) (hi : idx < s.nodes.size) (hl : lf s idx = true)
    (hc : ch s idx < s.leafNodes.size) :
    fixLinks s idx = .ok { s with leafNodes := s.leafNodes.setIfInBounds (ch s idx) idx } := by
  unfold fixLinks
  rw [getNode_ok _ _ _ hi]
  simp only [ok_bind]
  have : (nd s idx).leaf = true := hl
  simp only [this, if_true]
  exact setLeafNode_ok _ _ _ _ hc

theorem swap_fixLinks_branch (s : St) (idx : Nat) (hi : idx < s.nodes.size) (hl : lf s idx = false)
    (hc : ch s idx < s.nodes.size) (hc0 : ch s idx ≠ 0) :
    fixLinks s idx = .ok { s with
      nodes := (s.nodes.setIfInBounds (ch s idx) { nd s (ch s idx) with parent := idx }).setIfInBounds
                 (ch s idx - 1) { nd s (ch s idx - 1) with parent := idx } } := by
  unfold fixLinks
  rw [getNode_ok _ _ _ hi]
  simp only [ok_bind]
  have h1 : (nd s idx).leaf = false := hl
  have h2 : (nd s idx).child = ch s idx := rfl
  simp only [h1, h2]
  rw [getNode_ok _ _ _ hc, getNode_ok _ _ _ (by omega)]
  simp [hc0, setNode_ok _ _ _ _ hc]
  rw [setNode_ok]
  simp; omega

/-- what `fixLinks` / the swap leave alone -/
structure swap_Same (s s' : St) : Prop where
  nsz : s'.nodes.size = s.nodes.size
  lsz : s'.leafNodes.size = s.leafNodes.size
  groups : s'.groups = s.groups
  groupLeader : s'.groupLeader = s.groupLeader
  numGroups : s'.numGroups = s.numGroups
  ring : s'.ring = s.ring
  pos : s'.pos = s.pos
  bits : s'.bits = s.bits
  olk : s'.offsetLookup = s.offsetLookup
  oln : s'.offsetLengths = s.offsetLengths
  fr : ∀ j, fr s' j = fr s j
  gp : ∀ j, gp s' j = gp s j

theorem swap_Same.trans {a b c : St} (h1 : swap_Same a b) (h2 : swap_Same b c) : swap_Same a c :=
  { nsz := h2.nsz.trans h1.nsz, lsz := h2.lsz.trans h1.lsz, groups := h2.groups.trans h1.groups,
    groupLeader := h2.groupLeader.trans h1.groupLeader, numGroups := h2.numGroups.trans h1.numGroups,
    ring := h2.ring.trans h1.ring, pos := h2.pos.trans h1.pos, bits := h2.bits.trans h1.bits,
    olk := h2.olk.trans h1.olk, oln := h2.oln.trans h1.oln,
    fr := fun j => (h2.fr j).trans (h1.fr j), gp := fun j => (h2.gp j).trans (h1.gp j) }

theorem swap_nd_set2 (s : St) (a b : Nat) (na nb : Node) (ha : a < s.nodes.size) (hb : b < s.nodes.size)
    (j : Nat) :
    nd { s with nodes := (s.nodes.setIfInBounds a na).setIfInBounds b nb } j =
      if j = b then nb else if j = a then na else nd s j := by
  simp only [nd]
  rw [getD_set _ _ _ _ _ (by simp; omega), getD_set _ _ _ _ _ ha]

theorem swap_fixLinks (s : St) (idx : Nat) (hn : s.nodes.size = 627) (hl : s.leafNodes.size = 314)
    (hi : idx < 627) (h1 : lf s idx = true → ch s idx < 314)
    (h2 : lf s idx = false → 1 ≤ ch s idx ∧ ch s idx < 627) :
    ∃ s', fixLinks s idx = .ok s' ∧ swap_Same s s' ∧ (∀ j, lf s' j = lf s j) ∧ (∀ j, ch s' j = ch s j) ∧
      (∀ j, pa s' j = if lf s idx = false ∧ (j = ch s idx ∨ j + 1 = ch s idx) then idx else pa s j) ∧
      (∀ c, ln s' c = if lf s idx = true ∧ c = ch s idx then idx else ln s c) := by
  cases hb : lf s idx
  · obtain ⟨c1, c2⟩ := h2 hb
    have hnd := swap_nd_set2 s (ch s idx) (ch s idx - 1) { nd s (ch s idx) with parent := idx }
      { nd s (ch s idx - 1) with parent := idx } (by omega) (by omega)
    refine ⟨_, swap_fixLinks_branch s idx (by omega) hb (by omega) (by omega), ?_, ?_, ?_, ?_, ?_⟩
    · constructor <;> try (first | rfl | simp)
      · intro j
        show (nd _ j).freq = (nd s j).freq
        rw [hnd]
        split
        · next e => subst e; rfl
        · split
          · next e => subst e; rfl
          · rfl
      · intro j
        show (nd _ j).group = (nd s j).group
        rw [hnd]
        split
        · next e => subst e; rfl
        · split
          · next e => subst e; rfl
          · rfl
    · intro j
      show (nd _ j).leaf = (nd s j).leaf
      rw [hnd]
      split
      · next e => subst e; rfl
      · split
        · next e => subst e; rfl
        · rfl
    · intro j
      show (nd _ j).child = (nd s j).child
      rw [hnd]
      split
      · next e => subst e; rfl
      · split
        · next e => subst e; rfl
        · rfl
    · intro j
      show (nd _ j).parent = _
      rw [hnd]
      by_cases e1 : j = ch s idx - 1
      · have : j + 1 = ch s idx := by omega
        rw [if_pos e1, if_pos ⟨rfl, Or.inr this⟩]
      · by_cases e2 : j = ch s idx
        · rw [if_neg e1, if_pos e2, if_pos ⟨rfl, Or.inl e2⟩]
        · have : ¬ (j + 1 = ch s idx) := by omega
          rw [if_neg e1, if_neg e2, if_neg (by simp [e2, this])]
          rfl
    · intro c; simp [ln]
  · have c1 := h1 hb
    refine ⟨_, swap_fixLinks_leaf s idx (by omega) hb (by omega), ?_, ?_, ?_, ?_, ?_⟩
    · constructor <;> try (first | rfl | simp)
      · intro j; rfl
      · intro j; rfl
    · intro j; rfl
    · intro j; rfl
    · intro j; simp
      rfl
    · intro c
      simp only [ln]
      rw [getD_set _ _ _ _ _ (by omega)]
      simp

/-- the state after the two `setNode "swap"` writes -/
def swap_nodes (s : St) (x L : Nat) : St :=
  { s with nodes := (s.nodes.setIfInBounds L { nd s L with leaf := (nd s x).leaf, child := (nd s x).child }).setIfInBounds
             x { nd s x with leaf := (nd s L).leaf, child := (nd s L).child } }

theorem swap_exec (s : St) (x : Nat) (hn : s.nodes.size = 627) (hg : s.groupLeader.size = 627)
    (hx : x < 627) (hgx : gp s x < 627) (hL : gl s (gp s x) < 627) (hne : gl s (gp s x) ≠ x) :
    makeGroupLeader s x =
      (fixLinks (swap_nodes s x (gl s (gp s x))) x >>= fun s1 =>
        fixLinks s1 (gl s (gp s x)) >>= fun s2 => .ok (gl s (gp s x), s2)) := by
  unfold makeGroupLeader
  rw [getNode_ok _ _ _ (by omega)]
  simp only [ok_bind]
  have e1 : (nd s x).group = gp s x := rfl
  rw [e1, getA_ok _ _ _ (by omega)]
  simp only [ok_bind]
  have e2 : s.groupLeader.getD (gp s x) 0 = gl s (gp s x) := rfl
  rw [e2]
  rw [if_neg hne]
  rw [getNode_ok _ _ _ (by omega)]
  simp only [ok_bind]
  rw [setNode_ok _ _ _ _ (by omega)]
  simp only [ok_bind]
  rw [setNode_ok _ _ _ _ (by simp; omega)]
  simp only [ok_bind]
  rfl

theorem swap_nodes_spec (s : St) (x L : Nat) (hn : s.nodes.size = 627) (hx : x < 627) (hL : L < 627)
    (hLx : L ≠ x) :
    swap_Same s (swap_nodes s x L) ∧
      (∀ j, lf (swap_nodes s x L) j = if j = L then lf s x else if j = x then lf s L else lf s j) ∧
      (∀ j, ch (swap_nodes s x L) j = if j = L then ch s x else if j = x then ch s L else ch s j) ∧
      (∀ j, pa (swap_nodes s x L) j = pa s j) ∧ (∀ c, ln (swap_nodes s x L) c = ln s c) := by
  have hnd := swap_nd_set2 s L x { nd s L with leaf := (nd s x).leaf, child := (nd s x).child }
    { nd s x with leaf := (nd s L).leaf, child := (nd s L).child } (by omega) (by omega)
  have hxL : x ≠ L := fun e => hLx e.symm
  refine ⟨?_, ?_, ?_, ?_, ?_⟩
  · constructor <;> try (first | rfl | simp [swap_nodes])
    · intro j
      show (nd _ j).freq = (nd s j).freq
      rw [hnd]
      split
      · next e => subst e; rfl
      · split
        · next e => subst e; rfl
        · rfl
    · intro j
      show (nd _ j).group = (nd s j).group
      rw [hnd]
      split
      · next e => subst e; rfl
      · split
        · next e => subst e; rfl
        · rfl
  · intro j
    show (nd _ j).leaf = _
    unfold swap_nodes
    rw [hnd]
    by_cases e1 : j = x
    · subst e1; rw [if_pos rfl, if_neg hxL, if_pos rfl]; rfl
    · rw [if_neg e1]
      by_cases e2 : j = L
      · subst e2; rw [if_pos rfl, if_pos rfl]; rfl
      · rw [if_neg e2, if_neg e2, if_neg e1]; rfl
  · intro j
    show (nd _ j).child = _
    unfold swap_nodes
    rw [hnd]
    by_cases e1 : j = x
    · subst e1; rw [if_pos rfl, if_neg hxL, if_pos rfl]; rfl
    · rw [if_neg e1]
      by_cases e2 : j = L
      · subst e2; rw [if_pos rfl, if_pos rfl]; rfl
      · rw [if_neg e2, if_neg e2, if_neg e1]; rfl
  · intro j
    show (nd _ j).parent = (nd s j).parent
    unfold swap_nodes
    rw [hnd]
    split
    · next e => subst e; rfl
    · split
      · next e => subst e; rfl
      · rfl
  · intro c; rfl

theorem swap_Same_base {s s' : St} (h : swap_Same s s') (hb : Base s) : Base s' :=
  hb.congr h.nsz h.lsz (by rw [h.groups]) (by rw [h.groupLeader]) h.ring h.pos h.bits h.olk h.oln

theorem swap_Same_grp {s s' : St} (h : swap_Same s s')
    (hg : Grp (fr s) (gp s) (gl s) (fg s) s.numGroups) :
    Grp (fr s') (gp s') (gl s') (fg s') s'.numGroups := by
  have e1 : fr s' = fr s := funext h.fr
  have e2 : gp s' = gp s := funext h.gp
  have e3 : gl s' = gl s := by funext g; simp only [gl, h.groupLeader]
  have e4 : fg s' = fg s := by funext g; simp only [fg, h.groups]
  rw [e1, e2, e3, e4, h.numGroups]; exact hg

/-- core statement: both bounds on the leader -/
theorem swap_makeGroupLeader_core (s : St) (x : Nat) (h : CInv s x) (hx0 : x ≠ 0) (hx : x < 627) :
    ∃ L s', makeGroupLeader s x = .ok (L, s') ∧ CInv s' L ∧ 1 ≤ L ∧ L ≤ x ∧ L < 627 ∧
      fr s' (L - 1) ≠ fr s' L := by
  have hb := h.base
  have ht := h.tree
  have hg := h.grp
  have hgx : gp s x < 627 := hg.rng x hx
  obtain ⟨hfrL, hmin⟩ := hg.ldr x hx
  have hLx : gl s (gp s x) ≤ x := hmin x hx rfl
  have hL : gl s (gp s x) < 627 := by omega
  have hL1 : 1 ≤ gl s (gp s x) := by
    rcases Nat.eq_zero_or_pos (gl s (gp s x)) with h0 | h0
    · rw [h0] at hfrL
      have := ht.root_gt hg.sorted (i := x) (by omega) hx
      omega
    · exact h0
  have hne : fr s (gl s (gp s x) - 1) ≠ fr s (gl s (gp s x)) := by
    intro e
    have := hmin (gl s (gp s x) - 1) (by omega) (by rw [e, hfrL])
    omega
  by_cases hLe : gl s (gp s x) = x
  · refine ⟨x, s, ?_, h, by omega, by omega, hx, ?_⟩
    · unfold makeGroupLeader
      rw [getNode_ok _ _ _ (by rw [hb.nodes]; exact hx)]
      simp only [ok_bind]
      have e1 : (nd s x).group = gp s x := rfl
      rw [e1, getA_ok _ _ _ (by rw [hb.groupLeader]; exact hgx)]
      simp only [ok_bind]
      have e2 : s.groupLeader.getD (gp s x) 0 = gl s (gp s x) := rfl
      rw [e2, if_pos hLe]
      rfl
    · rw [hLe] at hne; exact hne
  · rw [swap_exec s x hb.nodes hb.groupLeader hx hgx hL hLe]
    generalize gl s (gp s x) = L at *
    have hLltx : L < x := by omega
    obtain ⟨sm, hlf1, hch1, hpa1, hln1⟩ := swap_nodes_spec s x L hb.nodes hx hL hLe
    -- side conditions for the two `fixLinks`
    have hxL : x ≠ L := fun e => hLe e.symm
    have hlf1x : lf (swap_nodes s x L) x = lf s L := by rw [hlf1, if_neg hxL, if_pos rfl]
    have hch1x : ch (swap_nodes s x L) x = ch s L := by rw [hch1, if_neg hxL, if_pos rfl]
    have hlf1L : lf (swap_nodes s x L) L = lf s x := by rw [hlf1, if_pos rfl]
    have hch1L : ch (swap_nodes s x L) L = ch s x := by rw [hch1, if_pos rfl]
    obtain ⟨s2, hs2, sm2, hlf2, hch2, hpa2, hln2⟩ :=
      swap_fixLinks (swap_nodes s x L) x (by rw [sm.nsz]; exact hb.nodes) (by rw [sm.lsz]; exact hb.leafNodes) hx
        (by rw [hlf1x, hch1x]; intro hl; exact (ht.le L hL hl).1)
        (by rw [hlf1x, hch1x]; intro hl; have := ht.br L hL hl; omega)
    rw [hs2]
    simp only [ok_bind]
    obtain ⟨s3, hs3, sm3, hlf3, hch3, hpa3, hln3⟩ :=
      swap_fixLinks s2 L (by rw [sm2.nsz, sm.nsz]; exact hb.nodes) (by rw [sm2.lsz, sm.lsz]; exact hb.leafNodes) hL
        (by rw [hlf2, hch2, hlf1L, hch1L]; intro hl; exact (ht.le x hx hl).1)
        (by rw [hlf2, hch2, hlf1L, hch1L]; intro hl; have := ht.br x hx hl; omega)
    rw [hs3]
    simp only [ok_bind]
    have smA : swap_Same s s3 := (sm.trans sm2).trans sm3
    refine ⟨L, s3, rfl, ⟨swap_Same_base smA hb, ?_, swap_Same_grp smA hg⟩, hL1, by omega, hL, ?_⟩
    · have hfr3 : fr s3 = fr s := funext smA.fr
      rw [hfr3]
      refine swap_tree ht hg.sorted hx hLltx hfrL ?_ ?_ ?_ ?_
      · intro j; rw [hlf3, hlf2, hlf1]
      · intro j; rw [hch3, hch2, hch1]
      · intro j; rw [hpa3, hpa2, hpa1, hlf2, hch2, hlf1L, hch1L, hlf1x, hch1x]
      · intro c; rw [hln3, hln2, hln1, hlf2, hch2, hlf1L, hch1L, hlf1x, hch1x]
    · rw [smA.fr, smA.fr]; exact hne

theorem makeGroupLeader_spec (s : St) (x : Nat) (h : CInv s x) (hx0 : x ≠ 0) (hx : x < 627) :
    ∃ L s', makeGroupLeader s x = .ok (L, s') ∧ CInv s' L ∧ 1 ≤ L ∧ L ≤ x ∧ fr s' (L - 1) ≠ fr s' L := by
  obtain ⟨L, s', h1, h2, h3, h4, _, h6⟩ := swap_makeGroupLeader_core s x h hx0 hx
  exact ⟨L, s', h1, h2, h3, h4, h6⟩

/-- the originally published form of the interface (with `L < 627` instead of `L ≤ x`) -/
theorem makeGroupLeader_spec_lt (s : St) (x : Nat) (h : CInv s x) (hx0 : x ≠ 0) (hx : x < 627) :
    ∃ L s', makeGroupLeader s x = .ok (L, s') ∧ CInv s' L ∧ 1 ≤ L ∧ L < 627 ∧
      fr s' (L - 1) ≠ fr s' L := by
  obtain ⟨L, s', h1, h2, h3, _, h5, h6⟩ := swap_makeGroupLeader_core s x h hx0 hx
  exact ⟨L, s', h1, h2, h3, h5, h6⟩

end LhasaV.Lh1
