import LhasaV.Lemmas.HeaderName
import LhasaV.Spec.Integrity
import LhasaV.Props.C17
/-!
C08 (no fault) and C12 (acceptance soundness) over the header parser model.
-/
namespace LhasaV.Header
open LhasaV LhasaV.Res
open LhasaV.Spec.Integrity (byteAt le16 le32 leN walk zeroCommon lastCommon commonCrcOk byteSum l1Chain Ext)

/-! ### checked reads versus the specification's partial reads -/

def ofOpt {α} (s : String) : Option α → Res α
  | some a => .ok a
  | none => .fault s

theorem ofOpt_eq_ok {α} {s : String} {o : Option α} {a : α} : ofOpt s o = .ok a ↔ o = some a := by
  cases o <;> simp [ofOpt]

theorem ofOpt_noFault {α} {s : String} {o : Option α} (h : o.isSome) : NoFault (ofOpt s o) := by
  cases o with
  | none => cases h
  | some a => exact noFault_ok a

theorem rdU8_eq (s : String) (l : Bytes) (i : Nat) : rdU8 s l i = ofOpt s (byteAt l i) := by
  unfold rdU8 rd byteAt
  cases l[i]? <;> rfl

theorem rdU16_eq (s : String) (l : Bytes) (i : Nat) : rdU16 s l i = ofOpt s (le16 l i) := by
  unfold rdU16 rd le16 byteAt
  cases l[i]? <;> cases l[i+1]? <;> rfl

theorem rdU32_eq (s : String) (l : Bytes) (i : Nat) : rdU32 s l i = ofOpt s (le32 l i) := by
  unfold rdU32 le32
  rw [rdU16_eq, rdU16_eq]
  cases le16 l i <;> cases le16 l (i+2) <;> rfl

theorem byteAt_isSome {l : Bytes} {i : Nat} (h : i < l.length) : (byteAt l i).isSome := by
  simp [byteAt, h]

theorem le16_isSome {l : Bytes} {i : Nat} (h : i + 2 ≤ l.length) : (le16 l i).isSome := by
  have h1 : i < l.length := by omega
  have h2 : i + 1 < l.length := by omega
  simp [le16, byteAt, h1, h2]

theorem le32_isSome {l : Bytes} {i : Nat} (h : i + 4 ≤ l.length) : (le32 l i).isSome := by
  have h1 := le16_isSome (l := l) (i := i) (by omega)
  have h2 := le16_isSome (l := l) (i := i + 2) (by omega)
  obtain ⟨a, ha⟩ := Option.isSome_iff_exists.mp h1
  obtain ⟨b, hb⟩ := Option.isSome_iff_exists.mp h2
  simp [le32, ha, hb]

theorem rdU8_noFault {s : String} {l : Bytes} {i : Nat} (h : i < l.length) : NoFault (rdU8 s l i) := by
  rw [rdU8_eq]; exact ofOpt_noFault (byteAt_isSome h)

theorem rdU16_noFault {s : String} {l : Bytes} {i : Nat} (h : i + 2 ≤ l.length) :
    NoFault (rdU16 s l i) := by
  rw [rdU16_eq]; exact ofOpt_noFault (le16_isSome h)

theorem rdU32_noFault {s : String} {l : Bytes} {i : Nat} (h : i + 4 ≤ l.length) :
    NoFault (rdU32 s l i) := by
  rw [rdU32_eq]; exact ofOpt_noFault (le32_isSome h)

theorem rdU64_noFault {s : String} {l : Bytes} {i : Nat} (h : i + 8 ≤ l.length) :
    NoFault (rdU64 s l i) := by
  unfold rdU64
  exact noFault_bind (rdU32_noFault (by omega)) (fun _ _ =>
    noFault_bind (rdU32_noFault (by omega)) (fun _ _ => noFault_ok _))

theorem rdSlice_noFault {s : String} {l : Bytes} {off n : Nat} (h : off + n ≤ l.length) :
    NoFault (rdSlice s l off n) := by
  unfold rdSlice; rw [if_pos h]; exact noFault_ok _

theorem noFault_ite {α} {c : Prop} [Decidable c] {a b : Res α}
    (ht : c → NoFault a) (he : ¬ c → NoFault b) : NoFault (if c then a else b) := by
  by_cases h : c
  · rw [if_pos h]; exact ht h
  · rw [if_neg h]; exact he h

theorem noFault_dite {α} {c : Prop} [Decidable c] {a : c → Res α} {b : ¬ c → Res α}
    (ht : ∀ h : c, NoFault (a h)) (he : ∀ h : ¬ c, NoFault (b h)) : NoFault (dite c a b) := by
  by_cases h : c
  · rw [dif_pos h]; exact ht h
  · rw [dif_neg h]; exact he h

/-- agreement of partial reads on lists that agree at the indices read -/
theorem byteAt_congr {l l' : Bytes} {i : Nat} (h : l[i]? = l'[i]?) : byteAt l i = byteAt l' i := by
  simp [byteAt, h]

theorem le16_congr {l l' : Bytes} {i : Nat} (h0 : l[i]? = l'[i]?) (h1 : l[i+1]? = l'[i+1]?) :
    le16 l i = le16 l' i := by
  simp [le16, byteAt, h0, h1]

theorem le32_congr {l l' : Bytes} {i : Nat} (h : ∀ j, i ≤ j → j < i + 4 → l[j]? = l'[j]?) :
    le32 l i = le32 l' i := by
  unfold le32
  rw [le16_congr (h i (by omega) (by omega)) (h (i+1) (by omega) (by omega)),
      le16_congr (h (i+2) (by omega) (by omega)) (h (i+2+1) (by omega) (by omega))]

theorem getElem?_prefix {raw rest : Bytes} {i : Nat} (h : i < raw.length) :
    (raw ++ rest)[i]? = raw[i]? := List.getElem?_append_left h

theorem byteAt_prefix {raw rest : Bytes} {i : Nat} (h : i < raw.length) :
    byteAt (raw ++ rest) i = byteAt raw i := byteAt_congr (getElem?_prefix h)

theorem le16_prefix {raw rest : Bytes} {i : Nat} (h : i + 2 ≤ raw.length) :
    le16 (raw ++ rest) i = le16 raw i :=
  le16_congr (getElem?_prefix (by omega)) (getElem?_prefix (by omega))

theorem le32_prefix {raw rest : Bytes} {i : Nat} (h : i + 4 ≤ raw.length) :
    le32 (raw ++ rest) i = le32 raw i :=
  le32_congr (fun _ _ _ => getElem?_prefix (by omega))

/-! ### extended-header decoders -/

theorem lookupExt_cases {num m : Nat} (h : lookupExt num = some m) :
    (num = 0 ∧ m = 2) ∨ (num = 1 ∧ m = 1) ∨ (num = 2 ∧ m = 1) ∨ (num = 80 ∧ m = 2) ∨
    (num = 81 ∧ m = 4) ∨ (num = 83 ∧ m = 1) ∨ (num = 82 ∧ m = 1) ∨ (num = 84 ∧ m = 4) ∨
    (num = 65 ∧ m = 24) ∨ (num = 204 ∧ m = 12) := by
  unfold lookupExt Gen.extHeaderTypes at h
  simp only [List.find?_cons, List.find?_nil] at h
  repeat' split at h
  all_goals simp_all

theorem zero2_noFault {raw : Bytes} {off : Nat} (h : off + 2 ≤ raw.length) : NoFault (zero2 raw off) := by
  unfold zero2; rw [if_pos h]; exact noFault_ok _

macro "nf_step" : tactic =>
  `(tactic| first
    | exact noFault_ok _
    | exact noFault_fail
    | res_norm
    | refine noFault_ite (fun _ => ?_) (fun _ => ?_)
    | refine noFault_dite (fun _ => ?_) (fun _ => ?_)
    | with_reducible refine noFault_bind ?_ (fun _ _ => ?_))

macro "nf_read" : tactic =>
  `(tactic| first
    | exact rdU8_noFault (by omega)
    | exact rdU16_noFault (by omega)
    | exact rdU32_noFault (by omega)
    | exact rdU64_noFault (by omega)
    | exact rdSlice_noFault (by omega)
    | exact zero2_noFault (by omega)
    | (exfalso; omega))

theorem decodeExt_noFault {h : Hdr} {num off len : Nat} (hb : off + len ≤ h.raw.length) :
    NoFault (decodeExt h num off len) := by
  unfold decodeExt
  split
  · exact noFault_ok _
  · next minLen hm =>
    have hcases := lookupExt_cases hm
    refine noFault_ite (fun _ => noFault_ok _) (fun hlen => ?_)
    repeat' nf_step
    all_goals simp only [Gen.extCommon, Gen.extFilename, Gen.extPath, Gen.extWindowsTimestamps,
      Gen.extUnixPermission, Gen.extUnixUidGid, Gen.extUnixGroup, Gen.extUnixUser,
      Gen.extUnixTimestamp, Gen.extOs9] at *
    all_goals nf_read


theorem hasFlag_bor {h h' : Hdr} {f g : Nat} (e : h'.extraFlags = bor h.extraFlags g)
    (hf : hasFlag h f = true) : hasFlag h' f = true := by
  unfold hasFlag bor at *
  rw [e, Nat.and_or_distrib_right]
  simp only [bne_iff_ne, ne_eq, Nat.or_eq_zero_iff, not_and] at hf ⊢
  intro h0; exact absurd h0 hf

theorem hasFlag_bor_self {h' : Hdr} {a : Nat} (e : h'.extraFlags = bor a Gen.flagCommonCrc) :
    hasFlag h' Gen.flagCommonCrc = true := by
  unfold hasFlag bor at *
  rw [e, Nat.and_or_distrib_right]
  simp [Gen.flagCommonCrc, Nat.or_eq_zero_iff]

/-- what a decoder may do to the fields the integrity argument looks at -/
def Keeps (h h' : Hdr) : Prop :=
  h'.raw = h.raw ∧ h'.commonCrc = h.commonCrc ∧ h'.level = h.level ∧
  (hasFlag h Gen.flagCommonCrc = true → hasFlag h' Gen.flagCommonCrc = true)

theorem Keeps.refl (h : Hdr) : Keeps h h := ⟨rfl, rfl, rfl, id⟩

theorem Keeps.trans {a b c : Hdr} (h1 : Keeps a b) (h2 : Keeps b c) : Keeps a c :=
  ⟨h2.1.trans h1.1, h2.2.1.trans h1.2.1, h2.2.2.1.trans h1.2.2.1, fun h => h2.2.2.2 (h1.2.2.2 h)⟩

theorem decodeExt_other {h : Hdr} {num off len : Nat} (hn : ¬ (num = 0 ∧ 2 ≤ len)) :
    Sat (decodeExt h num off len) (Keeps h) := by
  unfold decodeExt
  split
  · exact sat_ok (Keeps.refl h)
  · next minLen hm =>
    have hcases := lookupExt_cases hm
    refine sat_ite (fun _ => sat_ok (Keeps.refl h)) (fun hlen => ?_)
    simp only [Gen.extCommon, Gen.extFilename, Gen.extPath, Gen.extWindowsTimestamps,
      Gen.extUnixPermission, Gen.extUnixUidGid, Gen.extUnixGroup, Gen.extUnixUser,
      Gen.extUnixTimestamp, Gen.extOs9]
    refine sat_ite (fun h0 => absurd ⟨h0, by omega⟩ hn) (fun _ => ?_)
    repeat' res_step
    all_goals first
      | exact Keeps.refl h
      | exact ⟨rfl, rfl, rfl, hasFlag_bor rfl⟩

theorem decodeExt_common {h : Hdr} {off len : Nat} {h' : Hdr} (hl : 2 ≤ len)
    (e : decodeExt h 0 off len = ok h') :
    le16 h.raw off = some h'.commonCrc ∧ off + 2 ≤ h.raw.length ∧
    h'.raw = h.raw.take off ++ [0, 0] ++ h.raw.drop (off + 2) ∧
    hasFlag h' Gen.flagCommonCrc = true ∧ h'.level = h.level := by
  have hm : lookupExt 0 = some 2 := by decide
  unfold decodeExt at e
  simp only [hm, Gen.extCommon, if_true, if_neg (Nat.not_lt.mpr hl)] at e
  obtain ⟨c, hc, e⟩ := bind_eq_ok.mp e
  obtain ⟨raw, hraw, e⟩ := bind_eq_ok.mp e
  rw [rdU16_eq, ofOpt_eq_ok] at hc
  unfold zero2 at hraw
  split at hraw
  · next hle =>
    cases hraw
    cases e
    exact ⟨hc, hle, rfl, hasFlag_bor_self rfl, rfl⟩
  · cases hraw



theorem zero2_length {raw : Bytes} {off : Nat} (h : off + 2 ≤ raw.length) :
    (raw.take off ++ [0, 0] ++ raw.drop (off + 2)).length = raw.length := by
  simp only [List.length_append, List.length_take, List.length_drop, List.length_cons, List.length_nil]
  omega

theorem decodeExt_len {h : Hdr} {num off len : Nat} {h' : Hdr} (e : decodeExt h num off len = ok h') :
    h'.raw.length = h.raw.length ∧ h'.level = h.level := by
  by_cases hc : num = 0 ∧ 2 ≤ len
  · obtain ⟨rfl, hl⟩ := hc
    obtain ⟨_, hle, hraw, _, hlv⟩ := decodeExt_common hl e
    rw [hraw]
    exact ⟨zero2_length hle, hlv⟩
  · obtain ⟨hraw, _, hlv, _⟩ := decodeExt_other hc _ e
    rw [hraw]
    exact ⟨rfl, hlv⟩

theorem extLoop_noFault (fs : Nat) (hfs : fs = 2 ∨ fs = 4) (avail : Nat) : ∀ (h : Hdr) (off : Nat),
    off + fs + avail ≤ h.raw.length → NoFault (extLoop fs h off avail) := by
  induction avail using Nat.strongRecOn with
  | _ avail ih =>
    intro h off hb
    rw [extLoop]
    refine noFault_ite (fun _ => ?_) (fun _ => noFault_ok _)
    refine noFault_bind ?_ (fun len _ => ?_)
    · exact noFault_ite (fun _ => rdU32_noFault (by omega)) (fun _ => rdU16_noFault (by omega))
    refine noFault_ite (fun _ => noFault_ok _) (fun _ => ?_)
    refine noFault_ite (fun _ => noFault_fail) (fun hl => ?_)
    refine noFault_bind (rdU8_noFault (by omega)) (fun num _ => ?_)
    refine noFault_bind (decodeExt_noFault (by omega)) (fun h1 h1e => ?_)
    have := (decodeExt_len h1e).1
    exact ih _ (by omega) _ _ (by omega)

theorem extLoop_len (fs : Nat) (avail : Nat) : ∀ (h : Hdr) (off : Nat),
    Sat (extLoop fs h off avail) (fun h' => h'.raw.length = h.raw.length ∧ h'.level = h.level) := by
  induction avail using Nat.strongRecOn with
  | _ avail ih =>
    intro h off
    rw [extLoop]
    refine sat_ite (fun _ => ?_) (fun _ => sat_ok ⟨rfl, rfl⟩)
    refine sat_bind (fun len _ => ?_)
    refine sat_ite (fun _ => sat_ok ⟨rfl, rfl⟩) (fun _ => ?_)
    refine sat_ite (fun _ => sat_fail) (fun hl => ?_)
    refine sat_bind (fun num _ => ?_)
    refine sat_bind (fun h1 h1e => ?_)
    have := decodeExt_len h1e
    refine sat_mono (ih _ (by omega) h1 _) (fun a ha => ?_)
    exact ⟨ha.1.trans this.1, ha.2.trans this.2⟩

theorem decodeExtendedHeaders_noFault {h : Hdr} {off : Nat}
    (hb : off + (if h.level = 3 then 4 else 2) ≤ h.raw.length) :
    NoFault (decodeExtendedHeaders h off) := by
  unfold decodeExtendedHeaders
  refine noFault_ite (fun hc => absurd hb (by omega)) (fun _ => ?_)
  refine extLoop_noFault _ ?_ _ _ _ (by omega)
  split <;> simp

theorem decodeExtendedHeaders_len {h : Hdr} {off : Nat} :
    Sat (decodeExtendedHeaders h off) (fun h' => h'.raw.length = h.raw.length ∧ h'.level = h.level) := by
  unfold decodeExtendedHeaders
  exact sat_ite (fun _ => sat_fault) (fun _ => extLoop_len _ _ _ _)



/-! ### the chain walk of the model versus the chain walk of the specification -/

def zstep (hdr : Bytes) (h : Bytes) (e : Ext) : Bytes :=
  if byteAt hdr e.typeOff = some 0 ∧ e.dataLen ≥ 2 then
    h.take (e.typeOff + 1) ++ [0, 0] ++ h.drop (e.typeOff + 3) else h

def lstep (hdr : Bytes) (acc : Option Nat) (e : Ext) : Option Nat :=
  if byteAt hdr e.typeOff = some 0 ∧ e.dataLen ≥ 2 then le16 hdr (e.typeOff + 1) else acc

theorem zeroCommon_eq (hdr : Bytes) (exts : List Ext) :
    zeroCommon hdr exts = exts.foldl (zstep hdr) hdr := rfl

theorem lastCommon_eq (hdr : Bytes) (exts : List Ext) :
    lastCommon hdr exts = exts.foldl (lstep hdr) none := rfl

/-- the model's `commonCrc`/flag reflect the specification's "last common header" -/
def CF (h : Hdr) (a : Option Nat) : Prop :=
  ∀ c, a = some c → h.commonCrc = c ∧ hasFlag h Gen.flagCommonCrc = true

theorem zero2_getElem? {raw : Bytes} {off i : Nat} (h : off + 2 ≤ raw.length) (hi : off + 2 ≤ i) :
    (raw.take off ++ [0, 0] ++ raw.drop (off + 2))[i]? = raw[i]? := by
  have hl : (raw.take off ++ [0, 0]).length = off + 2 := by
    simp only [List.length_append, List.length_take, List.length_cons, List.length_nil]; omega
  rw [List.getElem?_append_right (by omega), hl, List.getElem?_drop]
  congr 1; omega

theorem extLoop_walk (fs : Nat) (hdr : Bytes) (avail : Nat) :
    ∀ (h : Hdr) (off : Nat) (acc : List Ext) (a : Option Nat) (h' : Hdr),
    h.raw.length = hdr.length → off + fs + avail = hdr.length →
    (∀ i, off ≤ i → h.raw[i]? = hdr[i]?) → CF h a →
    extLoop fs h off avail = ok h' →
    ∃ exts, walk fs hdr off avail acc = some (acc.reverse ++ exts) ∧
      h'.raw = exts.foldl (zstep hdr) h.raw ∧ CF h' (exts.foldl (lstep hdr) a) := by
  induction avail using Nat.strongRecOn with
  | _ avail ih =>
    intro h off acc a h' hlen hsum hagree hcf hr
    rw [extLoop, if_pos (by omega)] at hr
    obtain ⟨len, hlenr, hr⟩ := bind_eq_ok.mp hr
    have hsize : leN fs hdr off = some len := by
      unfold leN
      by_cases h4 : fs = 4
      · rw [if_pos h4] at hlenr ⊢
        rw [rdU32_eq, ofOpt_eq_ok] at hlenr
        rw [← hlenr]; exact (le32_congr (fun j hj _ => hagree j hj)).symm
      · rw [if_neg h4] at hlenr ⊢
        rw [rdU16_eq, ofOpt_eq_ok] at hlenr
        rw [← hlenr]; exact (le16_congr (hagree _ (by omega)) (hagree _ (by omega))).symm
    rw [walk]
    simp only [hsize]
    by_cases h0 : len = 0
    · rw [if_pos h0] at hr
      rw [if_pos h0]
      cases hr
      exact ⟨[], by simp, rfl, hcf⟩
    · rw [if_neg h0] at hr
      by_cases hbad : len < fs + 1 ∨ len > avail
      · rw [if_pos hbad] at hr; cases hr
      · rw [if_neg hbad] at hr
        rw [if_neg h0, dif_neg hbad]
        obtain ⟨num, hnum, hr⟩ := bind_eq_ok.mp hr
        obtain ⟨h1, h1e, hr⟩ := bind_eq_ok.mp hr
        rw [rdU8_eq, ofOpt_eq_ok] at hnum
        have hnum' : byteAt hdr (off + fs) = some num := by
          rw [← hnum]; exact (byteAt_congr (hagree _ (by omega))).symm
        have h1len := (decodeExt_len h1e).1
        have key : h1.raw = zstep hdr h.raw ⟨off + fs, len - fs - 1⟩ ∧
            CF h1 (lstep hdr a ⟨off + fs, len - fs - 1⟩) ∧
            (∀ i, off + len ≤ i → h1.raw[i]? = hdr[i]?) := by
          by_cases hc : num = 0 ∧ 2 ≤ len - fs - 1
          · obtain ⟨rfl, hl⟩ := hc
            obtain ⟨hcrc, hle, hraw, hflag, _⟩ := decodeExt_common hl h1e
            have hcond : byteAt hdr (off + fs) = some 0 ∧ len - fs - 1 ≥ 2 := ⟨hnum', hl⟩
            refine ⟨?_, ?_, ?_⟩
            · unfold zstep; rw [if_pos hcond, hraw]
            · unfold lstep; rw [if_pos hcond]
              dsimp only
              intro c hc'
              rw [← le16_congr (hagree _ (by omega)) (hagree _ (by omega)), hcrc] at hc'
              exact ⟨Option.some.inj hc', hflag⟩
            · intro i hi
              rw [hraw, zero2_getElem? hle (by omega)]
              exact hagree i (by omega)
          · have hk := decodeExt_other hc _ h1e
            have hcond : ¬ (byteAt hdr (off + fs) = some 0 ∧ len - fs - 1 ≥ 2) := by
              rintro ⟨h1', h2'⟩
              rw [hnum'] at h1'
              exact hc ⟨Option.some.inj h1', h2'⟩
            refine ⟨?_, ?_, ?_⟩
            · unfold zstep; rw [if_neg hcond]; exact hk.1
            · unfold lstep; rw [if_neg hcond]
              intro c hc'
              obtain ⟨e1, e2⟩ := hcf c hc'
              exact ⟨hk.2.1.trans e1, hk.2.2.2 e2⟩
            · intro i hi
              rw [hk.1]; exact hagree i (by omega)
        obtain ⟨exts, hw, hraw, hcf'⟩ := ih (avail - len) (by omega) h1 (off + len)
          (⟨off + fs, len - fs - 1⟩ :: acc) _ h' (by omega) (by omega) key.2.2 key.2.1 hr
        refine ⟨⟨off + fs, len - fs - 1⟩ :: exts, ?_, ?_, ?_⟩
        · rw [hw]; simp
        · rw [hraw, List.foldl_cons, key.1]
        · rw [List.foldl_cons]; exact hcf'


/-! ### inversion lemmas -/

theorem ite_fail_eq_ok {α} {c : Prop} [Decidable c] {x : Res α} {a : α} :
    (if c then fail else x) = ok a ↔ ¬ c ∧ x = ok a := by
  by_cases h : c <;> simp [h]

theorem ite_fault_eq_ok {α} {c : Prop} [Decidable c] {x : Res α} {a : α} {w : String} :
    (if c then fault w else x) = ok a ↔ ¬ c ∧ x = ok a := by
  by_cases h : c <;> simp [h]

theorem rdSlice_eq_ok {s : String} {l : Bytes} {off n : Nat} {d : Bytes} :
    rdSlice s l off n = ok d ↔ off + n ≤ l.length ∧ d = (l.drop off).take n := by
  unfold rdSlice
  by_cases h : off + n ≤ l.length <;> simp [h, eq_comm]

theorem extend_eq_ok {h : Hdr} {inp : Bytes} {n : Nat} {h' : Hdr} {r' : Bytes} :
    extend h inp n = ok (h', r') ↔
      n ≤ Gen.level3MaxHeaderLen ∧ n ≤ inp.length ∧ h' = { h with raw := h.raw ++ inp.take n } ∧
      r' = inp.drop n := by
  unfold extend
  by_cases h1 : n > Gen.level3MaxHeaderLen
  · rw [if_pos h1]; constructor
    · intro h; cases h
    · intro h; omega
  · rw [if_neg h1]
    by_cases h2 : inp.length < n
    · rw [if_pos h2]; constructor
      · intro h; cases h
      · intro h; omega
    · rw [if_neg h2]
      constructor
      · intro h; cases h; exact ⟨by omega, by omega, rfl, rfl⟩
      · rintro ⟨_, _, rfl, rfl⟩; rfl

/-! ### specification side: what suffices for `Spec.Integrity.ok` -/

theorem spec_ok_l2 {inp : Bytes} {l os total : Nat} {exts : List Ext} (h22 : 22 ≤ inp.length)
    (hlv : byteAt inp 20 = some 2) (hl : le16 inp 0 = some l) (hos : byteAt inp 23 = some os)
    (ht : total = if os = 0x4b then l + 2 else l)
    (h26 : 26 ≤ l) (htot : total ≤ inp.length)
    (hw : walk 2 (inp.take total) 24 (total - 26) [] = some exts)
    (hc : commonCrcOk (inp.take total) exts = true) : Spec.Integrity.ok inp = true := by
  subst ht
  unfold Spec.Integrity.ok
  rw [if_neg (by omega)]
  simp [hlv, hl, hos, h26, Nat.not_lt.mpr htot, hw, hc]

theorem spec_ok_l3 {inp : Bytes} {l : Nat} {exts : List Ext} (h22 : 22 ≤ inp.length)
    (hlv : byteAt inp 20 = some 3) (hw4 : le16 inp 0 = some 4) (hl : le32 inp 24 = some l)
    (h32 : 32 ≤ l) (hmax : l ≤ 1048576) (htot : l ≤ inp.length)
    (hw : walk 4 (inp.take l) 28 (l - 32) [] = some exts)
    (hc : commonCrcOk (inp.take l) exts = true) : Spec.Integrity.ok inp = true := by
  unfold Spec.Integrity.ok
  rw [if_neg (by omega)]
  simp [hlv, hl, hw4, h32, hmax, Nat.not_lt.mpr htot, hw, hc]

theorem spec_ok_l0 {inp : Bytes} {l c n : Nat} (h22 : 22 ≤ inp.length)
    (hlv : byteAt inp 20 = some 0) (hl : byteAt inp 0 = some l) (hc : byteAt inp 1 = some c)
    (hn : byteAt inp 21 = some n) (h1 : 22 ≤ l) (h2 : l + 2 ≤ inp.length) (h3 : 22 + n ≤ l)
    (hs : byteSum ((inp.drop 2).take l) % 256 = c) : Spec.Integrity.ok inp = true := by
  unfold Spec.Integrity.ok
  rw [if_neg (by omega)]
  simp [hlv, hl, hc, hn, h1, h2, h3, hs]

theorem spec_ok_l1 {inp : Bytes} {l c n clen ext : Nat} {exts : List Ext} (h22 : 22 ≤ inp.length)
    (hlv : byteAt inp 20 = some 1) (hl : byteAt inp 0 = some l) (hc : byteAt inp 1 = some c)
    (hn : byteAt inp 21 = some n) (hclen : le32 inp 7 = some clen)
    (h1 : 25 ≤ l) (h2 : l + 2 ≤ inp.length) (h3 : 25 + n ≤ l)
    (hs : byteSum ((inp.drop 2).take l) % 256 = c)
    (hch : l1Chain inp l clen 0 = some ext)
    (hw : walk 2 (inp.take (l + 2 + ext)) l ext [] = some exts)
    (hcrc : commonCrcOk (inp.take (l + 2 + ext)) exts = true) : Spec.Integrity.ok inp = true := by
  unfold Spec.Integrity.ok
  rw [if_neg (by omega)]
  simp [hlv, hl, hc, hn, hclen, h1, h2, Nat.not_lt.mpr h3, hs, hch, hw, hcrc]


theorem sumBytes_eq (l : Bytes) : sumBytes l = byteSum l := by
  have : ∀ (l : Bytes) (a : Nat), l.foldl (fun s b => s + b.toNat) a = a + (l.map (·.toNat)).sum := by
    intro l
    induction l with
    | nil => intro a; simp
    | cons x xs ih => intro a; simp [List.foldl_cons, ih]; omega
  unfold sumBytes byteSum
  rw [this]; simp

theorem decodeExtendedHeaders_walk {h : Hdr} {off fs : Nat} {h' : Hdr}
    (hfs : fs = if h.level = 3 then 4 else 2) (hoff : off + fs ≤ h.raw.length)
    (hr : decodeExtendedHeaders h off = ok h') :
    ∃ exts, walk fs h.raw off (h.raw.length - off - fs) [] = some exts ∧
      h'.raw = zeroCommon h.raw exts ∧ CF h' (lastCommon h.raw exts) := by
  unfold decodeExtendedHeaders at hr
  subst hfs
  rw [if_neg (by omega)] at hr
  obtain ⟨exts, hw, hraw, hcf⟩ := extLoop_walk _ h.raw _ h off [] none h' rfl (by omega)
    (fun _ _ => rfl) (fun c hc => by cases hc) hr
  exact ⟨exts, by simpa using hw, hraw, hcf⟩

/-- the model's final check gives the specification's CRC clause -/
theorem commonCrcOk_of {h : Hdr} {hdr : Bytes} {exts : List Ext}
    (hraw : h.raw = zeroCommon hdr exts) (hcf : CF h (lastCommon hdr exts))
    (hchk : hasFlag h Gen.flagCommonCrc = true → crcOf h.raw = h.commonCrc) :
    commonCrcOk hdr exts = true := by
  unfold commonCrcOk
  cases hl : lastCommon hdr exts with
  | none => rfl
  | some c =>
    obtain ⟨e1, e2⟩ := hcf c hl
    have := hchk e2
    rw [e1, hraw, crcOf, Props.C17.crc_is_arc] at this
    simp [this]

/-! ### post-processing -/

def lhd : Bytes := "-lhd-".toUTF8.toList

theorem lk7_ne_lhd : "-lk7-".toUTF8.toList ≠ lhd := by decide +kernel
theorem lh7_ne_lhd : "-lh7-".toUTF8.toList ≠ lhd := by decide +kernel

/-- name/path presence of a returned header -/
def NameOK (h : Hdr) : Prop :=
  (h.method ≠ lhd → h.filename ≠ none) ∧
  (h.method = lhd → h.path ≠ none ∨ (h.symlinkTarget ≠ none ∧ h.filename ≠ none))

theorem nameOK_of {g g' : Hdr} (hm : g'.method = g.method) (hs : g'.symlinkTarget = g.symlinkTarget)
    (hf : g.filename ≠ none → g'.filename ≠ none) (hp : g.path ≠ none → g'.path ≠ none)
    (hg : NameOK g) : NameOK g' := by
  refine ⟨fun h => hf (hg.1 (hm ▸ h)), fun h => ?_⟩
  rcases hg.2 (hm ▸ h) with h1 | ⟨h1, h2⟩
  · exact Or.inl (hp h1)
  · exact Or.inr ⟨hs ▸ h1, hf h2⟩

theorem splitFilename_keeps (h : Hdr) : Keeps h (splitFilename h) := by
  unfold splitFilename
  split
  · exact Keeps.refl h
  · split
    · exact ⟨rfl, rfl, rfl, id⟩
    · exact Keeps.refl h

theorem splitFilename_fields (h : Hdr) :
    (splitFilename h).method = h.method ∧ (splitFilename h).symlinkTarget = h.symlinkTarget ∧
    (h.filename ≠ none → (splitFilename h).filename ≠ none) := by
  unfold splitFilename
  split
  · exact ⟨rfl, rfl, id⟩
  · split
    · exact ⟨rfl, rfl, fun _ => by simp⟩
    · exact ⟨rfl, rfl, id⟩

theorem parseSymlink_spec {h : Hdr} :
    Sat (parseSymlink h) (fun g => Keeps h g ∧ g.method = h.method ∧ g.symlinkTarget ≠ none ∧
      g.filename ≠ none) := by
  unfold parseSymlink
  dsimp only
  split
  · exact sat_fail
  · next p _ =>
    refine sat_ok ⟨Keeps.trans ?_ (splitFilename_keeps _), (splitFilename_fields _).1.trans ?_, ?_, ?_⟩
    · exact ⟨rfl, rfl, rfl, id⟩
    · rfl
    · rw [(splitFilename_fields _).2.1]; simp
    · exact (splitFilename_fields _).2.2 (by simp)

theorem postPre_spec {h : Hdr} : Sat (postPre h) (fun g => Keeps h g ∧ NameOK g) := by
  unfold postPre
  have h0 : Keeps h (if h.osType = 0x41 ∧ methodIs h "-lh0-" ∧ h.length = 0 ∧ h.filename = none
           then { h with method := "-lhd-".toUTF8.toList } else h) := by
    split
    · exact ⟨rfl, rfl, rfl, id⟩
    · exact Keeps.refl h
  revert h0
  generalize (if h.osType = 0x41 ∧ methodIs h "-lh0-" ∧ h.length = 0 ∧ h.filename = none
           then { h with method := "-lhd-".toUTF8.toList } else h) = g
  intro hk
  dsimp only
  refine sat_ite (fun hm => ?_) (fun hm => sat_ite (fun _ => ?_) (fun _ => ?_))
  · have hm' : g.method ≠ lhd := by
      simpa [methodIs, lhd] using hm
    exact sat_ite (fun _ => sat_fail) (fun hf => sat_pure ⟨hk, fun _ => hf, fun e => absurd e hm'⟩)
  · have hm' : g.method = lhd := by
      simpa [methodIs, lhd] using hm
    refine sat_mono parseSymlink_spec (fun g' hg' => ?_)
    obtain ⟨k, e1, e2, e3⟩ := hg'
    exact ⟨hk.trans k, fun hne => absurd (e1.trans hm') hne, fun _ => Or.inr ⟨e2, e3⟩⟩
  · have hm' : g.method = lhd := by
      simpa [methodIs, lhd] using hm
    exact sat_ite (fun _ => sat_fail) (fun hp => sat_pure ⟨hk, fun hne => absurd hm' hne, fun _ => Or.inl hp⟩)

theorem fixAllCaps_spec (h : Hdr) : Keeps h (fixAllCaps h) ∧ (NameOK h → NameOK (fixAllCaps h)) := by
  unfold fixAllCaps
  dsimp only
  split
  · exact ⟨Keeps.refl h, id⟩
  · exact ⟨⟨rfl, rfl, rfl, id⟩, nameOK_of rfl rfl (by simp) (by simp)⟩

theorem post1_spec (h : Hdr) : Keeps h (post1 h) ∧ (NameOK h → NameOK (post1 h)) := by
  unfold post1; split
  · exact fixAllCaps_spec h
  · exact ⟨Keeps.refl h, id⟩

theorem post2_spec (h : Hdr) : Keeps h (post2 h) ∧ (NameOK h → NameOK (post2 h)) :=
  ⟨⟨rfl, rfl, rfl, id⟩, nameOK_of rfl rfl id (by simp [post2])⟩

theorem post3_spec (h : Hdr) : Keeps h (post3 h) ∧ (NameOK h → NameOK (post3 h)) := by
  unfold post3; split
  · exact ⟨⟨rfl, rfl, rfl, hasFlag_bor rfl⟩, nameOK_of rfl rfl id id⟩
  · exact ⟨Keeps.refl h, id⟩

theorem post4_spec (h : Hdr) : Keeps h (post4 h) ∧ (NameOK h → NameOK (post4 h)) := by
  unfold post4; split
  · exact ⟨⟨rfl, rfl, rfl, hasFlag_bor rfl⟩, nameOK_of rfl rfl id id⟩
  · exact ⟨Keeps.refl h, id⟩

theorem post5_spec (h : Hdr) : Sat (post5 h) (fun g => Keeps h g ∧ (NameOK h → NameOK g) ∧
    (hasFlag h Gen.flagCommonCrc = true → crcOf h.raw = h.commonCrc)) := by
  unfold post5
  refine sat_ite (fun _ => sat_fail) (fun hc => sat_ok ?_)
  have hchk : hasFlag h Gen.flagCommonCrc = true → crcOf h.raw = h.commonCrc := by
    intro hf
    exact Classical.not_not.mp (fun hne => hc ⟨hf, hne⟩)
  split
  · next hm =>
    refine ⟨⟨rfl, rfl, rfl, id⟩, fun hn => ⟨fun _ => ?_, fun e => absurd e lk7_ne_lhd⟩, hchk⟩
    have : h.method = "-lh7-".toUTF8.toList := by simpa [methodIs] using hm.2.2
    exact hn.1 (this ▸ lh7_ne_lhd)
  · exact ⟨Keeps.refl h, id, hchk⟩

theorem postProcess_spec {h : Hdr} : Sat (postProcess h) (fun g => Keeps h g ∧ NameOK g ∧
    (hasFlag h Gen.flagCommonCrc = true → crcOf h.raw = h.commonCrc)) := by
  rw [postProcess_eq]
  refine sat_bind_of postPre_spec (fun g ⟨hk, hn⟩ => ?_)
  obtain ⟨k1, n1⟩ := post1_spec g
  obtain ⟨k2, n2⟩ := post2_spec (post1 g)
  obtain ⟨k3, n3⟩ := post3_spec (post2 (post1 g))
  obtain ⟨k4, n4⟩ := post4_spec (post3 (post2 (post1 g)))
  have k := hk.trans (k1.trans (k2.trans (k3.trans k4)))
  refine sat_mono (post5_spec _) (fun g' ⟨k5, n5, hchk⟩ => ⟨k.trans k5, n5 (n4 (n3 (n2 (n1 hn)))), ?_⟩)
  intro hf
  have := hchk (k.2.2.2 hf)
  rw [k.1, k.2.1] at this
  exact this

theorem parseSymlink_noFault (h : Hdr) : NoFault (parseSymlink h) := by
  unfold parseSymlink; dsimp only; split
  · exact noFault_fail
  · exact noFault_ok _

theorem postProcess_noFault (h : Hdr) : NoFault (postProcess h) := by
  rw [postProcess_eq]
  refine noFault_bind ?_ (fun g _ => ?_)
  · unfold postPre
    dsimp only
    refine noFault_ite (fun _ => ?_) (fun _ => noFault_ite (fun _ => parseSymlink_noFault _) (fun _ => ?_))
    · exact noFault_ite (fun _ => noFault_fail) (fun _ => noFault_ok _)
    · exact noFault_ite (fun _ => noFault_fail) (fun _ => noFault_ok _)
  · unfold post5
    exact noFault_ite (fun _ => noFault_fail) (fun _ => noFault_ok _)

/-! ### the level decoders -/

/-- what the integrity argument needs from a level decoder -/
def LevelOK (inp : Bytes) (h : Hdr) : Prop :=
  ∃ hdr exts, hdr = inp.take h.raw.length ∧
    (commonCrcOk hdr exts = true → Spec.Integrity.ok inp = true) ∧
    h.raw = zeroCommon hdr exts ∧ CF h (lastCommon hdr exts)

def Consumed (inp : Bytes) (h : Hdr) (r : Bytes) : Prop :=
  h.raw.length ≤ inp.length ∧ r = inp.drop h.raw.length ∧ 22 ≤ h.raw.length

theorem inv_take {inp raw r : Bytes} (hinv : raw ++ r = inp) :
    raw = inp.take raw.length ∧ r = inp.drop raw.length ∧ raw.length ≤ inp.length := by
  subst hinv
  simp

theorem inv_extend {inp raw r : Bytes} {n : Nat} (hinv : raw ++ r = inp) (hn : n ≤ r.length) :
    (raw ++ r.take n) ++ r.drop n = inp ∧ (raw ++ r.take n).length = raw.length + n := by
  subst hinv
  simp [List.append_assoc, List.length_take]
  omega

theorem extStage {inp : Bytes} {g : Hdr} {rest : Bytes} {off fs : Nat} {h' : Hdr}
    (hinv : g.raw ++ rest = inp) (hfs : fs = if g.level = 3 then 4 else 2)
    (hoff : off + fs ≤ g.raw.length) (h22 : 22 ≤ g.raw.length)
    (hr : decodeExtendedHeaders g off = ok h')
    (hspec : ∀ exts, walk fs (inp.take g.raw.length) off (g.raw.length - off - fs) [] = some exts →
      commonCrcOk (inp.take g.raw.length) exts = true → Spec.Integrity.ok inp = true) :
    Consumed inp h' rest ∧ LevelOK inp h' ∧ h'.level = g.level := by
  obtain ⟨e1, e2, e3⟩ := inv_take hinv
  obtain ⟨hl, hlv⟩ := decodeExtendedHeaders_len _ hr
  obtain ⟨exts, hw, hraw, hcf⟩ := decodeExtendedHeaders_walk hfs hoff hr
  refine ⟨⟨by omega, by rw [hl]; exact e2, by omega⟩, ⟨g.raw, exts, by rw [hl]; exact e1, ?_, hraw, hcf⟩, hlv⟩
  intro hc
  rw [e1] at hw hc
  simp only [List.length_take, Nat.min_eq_left e3] at hw hc
  exact hspec exts hw hc

theorem decodeLevel2_sound {inp : Bytes} {h : Hdr} {r : Bytes} {h' : Hdr} {r' : Bytes}
    (hinv : h.raw ++ r = inp) (hlen : h.raw.length = 22) (hlv : h.level = 2)
    (hb : byteAt inp 20 = some 2)
    (hr : decodeLevel2 h r = ok (h', r')) : Consumed inp h' r' ∧ LevelOK inp h' ∧ h'.level = 2 := by
  unfold decodeLevel2 at hr
  simp only [Res.fail_bind, Res.fault_bind, Res.ok_bind, Res.pure_eq, bind_eq_ok, ite_fail_eq_ok,
    ite_fault_eq_ok, Prod.exists, rdU8_eq, rdU16_eq, rdU32_eq, ofOpt_eq_ok, rdSlice_eq_ok,
    extend_eq_ok] at hr
  obtain ⟨l, hl, h26, hge, h1, r1, ⟨_, hle, rfl, rfl⟩, method, _, clen, _, len, _, ts, _, crc, _,
    os, hos, hr⟩ := hr
  dsimp only at hos hr
  rw [hlen] at hle hos hr
  simp only [Gen.level2HeaderLen] at h26
  obtain ⟨hinv1, hlen1⟩ := inv_extend (n := l - 22) hinv hle
  have h22 : 22 ≤ inp.length := by have := (inv_take hinv).2.2; omega
  have hl' : le16 inp 0 = some l := by rw [← hinv, le16_prefix (by omega)]; exact hl
  have hos' : byteAt inp 23 = some os := by rw [← hinv1, byteAt_prefix (by omega)]; exact hos
  by_cases h75 : os = 75
  · rw [if_pos h75] at hr
    simp only [bind_eq_ok, Prod.exists, extend_eq_ok, Res.ok.injEq, Prod.mk.injEq] at hr
    obtain ⟨h2, r2, ⟨_, hle2, rfl, rfl⟩, h3, hd, rfl, rfl⟩ := hr
    obtain ⟨hinv2, hlen2⟩ := inv_extend (n := 2) hinv1 hle2
    have := extStage (fs := 2) hinv2 (by simp [hlv]) (by dsimp only; omega) (by dsimp only; omega) hd
      (fun exts hw hc => by
        dsimp only at hw hc
        rw [hlen2, hlen1, hlen] at hw hc
        refine spec_ok_l2 (total := 22 + (l - 22) + 2) h22 hb hl' hos' (by rw [if_pos h75]; omega)
          (by omega) ?_ ?_ hc
        · have := (inv_take hinv2).2.2; simp only [hlen2, hlen1, hlen] at this; exact this
        · rw [← hw]; congr 1)
    exact ⟨this.1, this.2.1, this.2.2.trans hlv⟩
  · rw [if_neg h75] at hr
    simp only [bind_eq_ok, Res.ok.injEq, Prod.mk.injEq] at hr
    obtain ⟨h3, hd, rfl, rfl⟩ := hr
    have := extStage (fs := 2) hinv1 (by simp [hlv]) (by dsimp only; omega) (by dsimp only; omega) hd
      (fun exts hw hc => by
        dsimp only at hw hc
        rw [hlen1, hlen] at hw hc
        refine spec_ok_l2 (total := 22 + (l - 22)) h22 hb hl' hos' (by rw [if_neg h75]; omega)
          (by omega) ?_ ?_ hc
        · have := (inv_take hinv1).2.2; simp only [hlen1, hlen] at this; exact this
        · rw [← hw]; congr 1)
    exact ⟨this.1, this.2.1, this.2.2.trans hlv⟩

theorem decodeLevel3_sound {inp : Bytes} {h : Hdr} {r : Bytes} {h' : Hdr} {r' : Bytes}
    (hinv : h.raw ++ r = inp) (hlen : h.raw.length = 22) (hlv : h.level = 3)
    (hb : byteAt inp 20 = some 3)
    (hr : decodeLevel3 h r = ok (h', r')) : Consumed inp h' r' ∧ LevelOK inp h' ∧ h'.level = 3 := by
  unfold decodeLevel3 at hr
  simp only [Res.fail_bind, Res.fault_bind, Res.pure_eq, bind_eq_ok, ite_fail_eq_ok,
    ite_fault_eq_ok, Prod.exists, rdU8_eq, rdU16_eq, rdU32_eq, ofOpt_eq_ok, rdSlice_eq_ok,
    extend_eq_ok, Res.ok.injEq, Prod.mk.injEq] at hr
  obtain ⟨ws, hws, hws4, -, h1, r1, ⟨-, hle, rfl, rfl⟩, l, hl, hlb, h2, r2, ⟨-, hle2, rfl, rfl⟩,
    method, -, clen, -, len, -, ts, -, crc, -, os, -, h3, hd, rfl, rfl⟩ := hr
  dsimp only at hl hlb hle2 hd ⊢
  simp only [Gen.level3HeaderLen, Gen.level3MaxHeaderLen, hlen] at hle hl hlb hle2 hd ⊢
  have hws4 : ws = 4 := Classical.not_not.mp hws4
  subst hws4
  obtain ⟨hinv1, hlen1⟩ := inv_extend (n := 32 - 22) hinv hle
  rw [hlen] at hlen1
  rw [hlen1] at hlb hle2 hd ⊢
  obtain ⟨hinv2, hlen2⟩ := inv_extend (n := l - (22 + (32 - 22))) hinv1 hle2
  rw [hlen1] at hlen2
  have h22 : 22 ≤ inp.length := by have := (inv_take hinv).2.2; omega
  have hws' : le16 inp 0 = some 4 := by rw [← hinv, le16_prefix (by omega)]; exact hws
  have hl' : le32 inp 24 = some l := by rw [← hinv1, le32_prefix (by omega)]; exact hl
  have := extStage (fs := 4) hinv2 (by simp [hlv]) (by dsimp only; omega) (by dsimp only; omega) hd
    (fun exts hw hc => by
      dsimp only at hw hc
      have e1 : 22 + (32 - 22) + (l - (22 + (32 - 22))) = l := by omega
      have e2 : l - 28 - 4 = l - 32 := by omega
      rw [hlen2, e1] at hw hc
      rw [e2] at hw
      refine spec_ok_l3 h22 hb hws' hl' (by omega) (by omega) ?_ hw hc
      have := (inv_take hinv2).2.2; rw [hlen2] at this; omega)
  exact ⟨this.1, this.2.1, this.2.2.trans hlv⟩

/-- raw bytes, level and compressed length are the same -/
def Same (h h' : Hdr) : Prop :=
  h'.raw = h.raw ∧ h'.level = h.level ∧ h'.compressedLength = h.compressedLength

theorem Same.trans {a b c : Hdr} (h1 : Same a b) (h2 : Same b c) : Same a c :=
  ⟨h2.1.trans h1.1, h2.2.1.trans h1.2.1, h2.2.2.trans h1.2.2⟩

theorem splitFilename_same (h : Hdr) : Same h (splitFilename h) := by
  unfold splitFilename
  split
  · exact ⟨rfl, rfl, rfl⟩
  · split <;> exact ⟨rfl, rfl, rfl⟩

theorem level0Path_same (h : Hdr) (d : Bytes) : Same h (level0Path h d) := by
  unfold level0Path
  split
  · exact ⟨rfl, rfl, rfl⟩
  · exact Same.trans ⟨rfl, rfl, rfl⟩ (splitFilename_same _)

theorem level0ExtArea_same {h : Hdr} {off len : Nat} : Sat (level0ExtArea h off len) (Same h) := by
  unfold level0ExtArea
  repeat' res_step
  all_goals exact ⟨rfl, rfl, rfl⟩

theorem decodeLevel0_spec {mk : Nat → Nat} {inp : Bytes} {h : Hdr} {r : Bytes} {h' : Hdr} {r' : Bytes}
    (hinv : h.raw ++ r = inp) (hlen : h.raw.length = 22)
    (hr : decodeLevel0 mk h r = ok (h', r')) :
    ∃ l c n clen, byteAt inp 0 = some l ∧ byteAt inp 1 = some c ∧ byteAt inp 21 = some n ∧
      le32 inp 7 = some clen ∧
      (if h.level = 0 then 22 else 25) ≤ l ∧ (if h.level = 0 then 22 else 25) + n ≤ l ∧
      byteSum ((inp.drop 2).take l) % 256 = c ∧
      h'.raw ++ r' = inp ∧ h'.raw.length = l + 2 ∧ h'.level = h.level ∧ h'.compressedLength = clen := by
  unfold decodeLevel0 at hr
  simp only [Res.fail_bind, Res.fault_bind, Res.ok_bind, Res.pure_eq, bind_eq_ok, ite_fail_eq_ok,
    ite_fault_eq_ok, Prod.exists, rdU8_eq, rdU16_eq, rdU32_eq, ofOpt_eq_ok, rdSlice_eq_ok,
    extend_eq_ok] at hr
  obtain ⟨l, hl, c, hc, hmin, hge, h1, r1, ⟨-, hle, h1e, rfl⟩, hsum, method, -, clen, hclen, len, -,
    ft, -, n, hn, hfit, hr⟩ := hr
  have h1raw : h1.raw = h.raw ++ r.take (l + 2 - h.raw.length) := by rw [h1e]
  have h1lv : h1.level = h.level := by rw [h1e]
  clear h1e
  have htail : h'.raw = h1.raw ∧ h'.level = h1.level ∧ h'.compressedLength = clen ∧
      r' = r.drop (l + 2 - h.raw.length) := by
    refine (?_ : Sat _ (fun p : Hdr × Bytes => p.1.raw = h1.raw ∧ p.1.level = h1.level ∧
      p.1.compressedLength = clen ∧ p.2 = r.drop (l + 2 - h.raw.length))) _ hr
    repeat' first
      | refine sat_bind_of level0ExtArea_same (fun _ _ => ?_)
      | res_step
    all_goals first
      | exact ⟨(level0Path_same _ _).1, (level0Path_same _ _).2.1, (level0Path_same _ _).2.2, by first | rfl | trivial⟩
      | (have hs := ‹Same _ _›
         exact ⟨hs.1.trans (level0Path_same _ _).1, hs.2.1.trans (level0Path_same _ _).2.1,
           hs.2.2.trans (level0Path_same _ _).2.2, by first | rfl | trivial⟩)
  obtain ⟨e1, e2, e3, rfl⟩ := htail
  simp only [Gen.level0MinHeaderLen, Gen.level1MinHeaderLen] at hmin hfit
  rw [hlen] at hle h1raw ⊢
  obtain ⟨hinv1, hlen1⟩ := inv_extend (n := l + 2 - 22) hinv hle
  rw [← h1raw] at hinv1 hlen1
  rw [hlen] at hlen1
  refine ⟨l, c, n, clen, ?_, ?_, ?_, ?_, by omega, by omega, ?_, by rw [e1]; exact hinv1,
    by rw [e1]; omega, e2.trans h1lv, e3⟩
  · rw [← hinv, byteAt_prefix (by omega)]; exact hl
  · rw [← hinv, byteAt_prefix (by omega)]; exact hc
  · rw [← hinv1, byteAt_prefix (by omega)]; exact hn
  · rw [← hinv1, le32_prefix (by omega)]; exact hclen
  · have hs : sumBytes (h1.raw.drop 2) % 256 = c := Classical.not_not.mp hsum
    rw [sumBytes_eq] at hs
    rw [← hs, (inv_take hinv1).1, hlen1, List.drop_take]
    congr 3; omega

theorem decodeLevel0_sound {mk : Nat → Nat} {inp : Bytes} {h : Hdr} {r : Bytes} {h' : Hdr} {r' : Bytes}
    (hinv : h.raw ++ r = inp) (hlen : h.raw.length = 22) (hlv : h.level = 0)
    (hb : byteAt inp 20 = some 0)
    (hr : decodeLevel0 mk h r = ok (h', r')) : Consumed inp h' r' ∧ LevelOK inp h' ∧ h'.level = 0 := by
  obtain ⟨l, c, n, clen, hl, hc, hn, -, h1, h2, hs, hinv', hlen', hlv', -⟩ := decodeLevel0_spec hinv hlen hr
  rw [if_pos hlv] at h1 h2
  obtain ⟨e1, e2, e3⟩ := inv_take hinv'
  refine ⟨⟨e3, e2, by omega⟩, ⟨h'.raw, [], e1, fun _ => ?_, rfl, fun c hc => by cases hc⟩, hlv'.trans hlv⟩
  exact spec_ok_l0 (by omega) hb hl hc hn h1 (by omega) h2 hs

theorem readL1Ext_chain (inp : Bytes) (n : Nat) :
    ∀ (h : Hdr) (rest : Bytes) (total : Nat) (h' : Hdr) (rest' : Bytes),
    rest.length = n → h.raw ++ rest = inp → 2 ≤ h.raw.length →
    readL1Ext h rest = ok (h', rest') →
    ∃ ext, l1Chain inp (h.raw.length - 2) h.compressedLength total = some (total + ext) ∧
      h'.raw ++ rest' = inp ∧ h'.raw.length = h.raw.length + ext ∧ h'.level = h.level := by
  induction n using Nat.strongRecOn with
  | _ n ih =>
    intro h rest total h' rest' hn hinv h2 hr
    rw [readL1Ext, if_neg (by omega)] at hr
    obtain ⟨len, hlen, hr⟩ := bind_eq_ok.mp hr
    rw [rdU16_eq, ofOpt_eq_ok] at hlen
    have hsize : le16 inp (h.raw.length - 2) = some len := by
      rw [← hinv, le16_prefix (by omega)]; exact hlen
    have hil : inp.length = h.raw.length + rest.length := by rw [← hinv]; simp
    rw [l1Chain]
    simp only [hsize]
    by_cases h0 : len = 0
    · rw [dif_pos h0] at hr
      rw [if_pos h0]
      cases hr
      exact ⟨0, rfl, hinv, rfl, rfl⟩
    · rw [dif_neg h0] at hr
      by_cases hmax : len > Gen.level3MaxHeaderLen
      · rw [if_pos hmax] at hr; cases hr
      rw [if_neg hmax] at hr
      by_cases hshort : rest.length < len
      · rw [dif_pos hshort] at hr; cases hr
      rw [dif_neg hshort] at hr
      dsimp only at hr
      by_cases hbud : h.compressedLength < len
      · rw [if_pos hbud] at hr; cases hr
      rw [if_neg hbud] at hr
      by_cases h3 : len < 3
      · rw [if_pos h3] at hr; cases hr
      rw [if_neg h3] at hr
      rw [if_neg h0, dif_neg (by omega)]
      obtain ⟨hinv1, hlen1⟩ := inv_extend (n := len) hinv (by omega)
      obtain ⟨ext, hch, hinv', hlen', hlv'⟩ := ih (rest.drop len).length
        (by rw [List.length_drop]; omega) _ _ (total + len) h' rest' rfl hinv1
        (by dsimp only; omega) hr
      dsimp only at hch hlen' hlv'
      refine ⟨len + ext, ?_, hinv', by omega, hlv'⟩
      rw [← Nat.add_assoc, ← hch, hlen1]
      congr 1; omega

theorem decodeLevel1_sound {mk : Nat → Nat} {inp : Bytes} {h : Hdr} {r : Bytes} {h' : Hdr} {r' : Bytes}
    (hinv : h.raw ++ r = inp) (hlen : h.raw.length = 22) (hlv : h.level = 1)
    (hb : byteAt inp 20 = some 1)
    (hr : decodeLevel1 mk h r = ok (h', r')) : Consumed inp h' r' ∧ LevelOK inp h' ∧ h'.level = 1 := by
  unfold decodeLevel1 at hr
  simp only [bind_eq_ok, Prod.exists, Res.pure_eq, Res.ok.injEq, Prod.mk.injEq] at hr
  obtain ⟨h1, r1, h0r, h2, r2, hch, h3, hd, rfl, rfl⟩ := hr
  obtain ⟨l, c, n, clen, hl, hc, hn, hclen, g1, g2, hs, hinv1, hlen1, hlv1, hcl⟩ :=
    decodeLevel0_spec hinv hlen h0r
  rw [if_neg (by omega)] at g1 g2
  obtain ⟨ext, hchain, hinv2, hlen2, hlv2⟩ :=
    readL1Ext_chain inp r1.length h1 r1 0 h2 r2 rfl hinv1 (by omega) hch
  rw [hlen1, hcl] at hchain
  rw [hlen1] at hlen2 hd
  simp only [Nat.add_sub_cancel, Nat.zero_add] at hchain hd
  have hlv2' : h2.level = 1 := hlv2.trans (hlv1.trans hlv)
  have hle := (inv_take hinv2).2.2
  rw [hlen2] at hle
  have := extStage (fs := 2) hinv2 (by simp [hlv2']) (by omega) (by omega) hd
    (fun exts hw hc' => by
      rw [hlen2] at hw hc'
      have e : l + 2 + ext - l - 2 = ext := by omega
      rw [e] at hw
      exact spec_ok_l1 (by omega) hb hl hc hn hclen g1 (by omega) g2 hs hchain hw hc')
  exact ⟨this.1, this.2.1, this.2.2.trans hlv2'⟩

theorem finish {inp : Bytes} {g h : Hdr} {r : Bytes} {lvl : Nat} (hl3 : lvl ≤ 3)
    (hg : Consumed inp g r ∧ LevelOK inp g ∧ g.level = lvl) (hp : postProcess g = ok h) :
    Consumed inp h r ∧ Spec.Integrity.ok inp = true ∧ NameOK h ∧ h.level ≤ 3 ∧
      ∃ exts, h.raw = zeroCommon (inp.take h.raw.length) exts := by
  obtain ⟨hc, ⟨hdr, exts, hhdr, hok, hraw, hcf⟩, hlv⟩ := hg
  obtain ⟨hk, hn, hchk⟩ := postProcess_spec _ hp
  refine ⟨?_, hok (commonCrcOk_of hraw hcf hchk), hn, by rw [hk.2.2.1, hlv]; exact hl3,
    exts, by rw [hk.1, ← hhdr]; exact hraw⟩
  unfold Consumed at hc ⊢
  rw [hk.1]; exact hc

theorem read_spec (mk : Nat → Nat) (inp : Bytes) (h : Hdr) (rest : Bytes)
    (hr : read mk inp = ok (h, rest)) :
    Consumed inp h rest ∧ Spec.Integrity.ok inp = true ∧ NameOK h ∧ h.level ≤ 3 ∧
      ∃ exts, h.raw = zeroCommon (inp.take h.raw.length) exts := by
  unfold read at hr
  simp only [bind_eq_ok, Prod.exists, extend_eq_ok, rdU8_eq, ofOpt_eq_ok] at hr
  obtain ⟨h1, r1, ⟨-, hle, rfl, rfl⟩, lvl, hlvl, hr⟩ := hr
  simp only [Gen.commonHeaderLen] at hle hlvl hr
  obtain ⟨hinv, hlen⟩ := inv_extend (raw := []) (inp := inp) (n := 22) (List.nil_append inp) hle
  have hlen' : ([] ++ inp.take 22 : Bytes).length = 22 := by rw [hlen]; rfl
  have hb : byteAt inp 20 = some lvl := by
    rw [← hinv, byteAt_prefix (by omega)]; exact hlvl
  by_cases h0 : lvl = 0
  · subst h0
    simp only [if_true, bind_eq_ok, Prod.exists, Res.pure_eq, Res.ok.injEq, Prod.mk.injEq] at hr
    obtain ⟨g, r, hd, h', hp, rfl, rfl⟩ := hr
    exact finish (by omega) (decodeLevel0_sound hinv hlen' rfl hb hd) hp
  rw [if_neg h0] at hr
  by_cases h1 : lvl = 1
  · subst h1
    simp only [if_true, bind_eq_ok, Prod.exists, Res.pure_eq, Res.ok.injEq, Prod.mk.injEq] at hr
    obtain ⟨g, r, hd, h', hp, rfl, rfl⟩ := hr
    exact finish (by omega) (decodeLevel1_sound hinv hlen' rfl hb hd) hp
  rw [if_neg h1] at hr
  by_cases h2 : lvl = 2
  · subst h2
    simp only [if_true, bind_eq_ok, Prod.exists, Res.pure_eq, Res.ok.injEq, Prod.mk.injEq] at hr
    obtain ⟨g, r, hd, h', hp, rfl, rfl⟩ := hr
    exact finish (by omega) (decodeLevel2_sound hinv hlen' rfl hb hd) hp
  rw [if_neg h2] at hr
  by_cases h3 : lvl = 3
  · subst h3
    simp only [if_true, bind_eq_ok, Prod.exists, Res.pure_eq, Res.ok.injEq, Prod.mk.injEq] at hr
    obtain ⟨g, r, hd, h', hp, rfl, rfl⟩ := hr
    exact finish (by omega) (decodeLevel3_sound hinv hlen' rfl hb hd) hp
  rw [if_neg h3] at hr
  simp only [Res.fail_bind] at hr
  cases hr

/-! ### no fault: the level decoders -/

theorem extend_noFault {h : Hdr} {inp : Bytes} {n : Nat} : NoFault (extend h inp n) := by
  unfold extend
  exact noFault_ite (fun _ => noFault_fail) (fun _ => noFault_ite (fun _ => noFault_fail) (fun _ => noFault_ok _))

theorem level0Path_raw (h : Hdr) (d : Bytes) : (level0Path h d).raw = h.raw := (level0Path_same h d).1
theorem level0Path_level (h : Hdr) (d : Bytes) : (level0Path h d).level = h.level := (level0Path_same h d).2.1

theorem level0ExtArea_noFault {h : Hdr} {off len : Nat} (h1 : 1 ≤ len) (hb : off + len ≤ h.raw.length) :
    NoFault (level0ExtArea h off len) := by
  unfold level0ExtArea
  simp only [Gen.level0UnixExtendedLen, Gen.level0Os9ExtendedLen]
  repeat' nf_step
  all_goals nf_read


theorem decodeLevel0_noFault {mk : Nat → Nat} {h : Hdr} {r : Bytes} (hlen : h.raw.length = 22) :
    NoFault (decodeLevel0 mk h r) := by
  unfold decodeLevel0
  simp only [Res.fail_bind, Res.fault_bind, Res.ok_bind, Res.pure_eq, Gen.level0MinHeaderLen,
    Gen.level1MinHeaderLen]
  refine noFault_bind (rdU8_noFault (by omega)) (fun l _ => ?_)
  refine noFault_bind (rdU8_noFault (by omega)) (fun c _ => ?_)
  refine noFault_ite (fun _ => noFault_fail) (fun hmin => ?_)
  have hl22 : 22 ≤ l := by split at hmin <;> omega
  refine noFault_ite (fun _ => ?_) (fun _ => ?_)
  · exfalso; omega
  refine noFault_bind extend_noFault (fun ⟨h1, r1⟩ he => ?_)
  obtain ⟨-, hle, rfl, rfl⟩ := extend_eq_ok.mp he
  clear he
  dsimp only
  refine noFault_ite (fun _ => noFault_fail) (fun _ => ?_)
  have hraw : (h.raw ++ r.take (l + 2 - h.raw.length)).length = l + 2 := by
    simp only [List.length_append, List.length_take]; omega
  generalize h.raw ++ r.take (l + 2 - h.raw.length) = raw1 at *
  refine noFault_bind (rdSlice_noFault (by omega)) (fun _ _ => ?_)
  refine noFault_bind (rdU32_noFault (by omega)) (fun _ _ => ?_)
  refine noFault_bind (rdU32_noFault (by omega)) (fun _ _ => ?_)
  refine noFault_bind (rdU32_noFault (by omega)) (fun _ _ => ?_)
  refine noFault_bind (rdU8_noFault (by omega)) (fun n _ => ?_)
  refine noFault_ite (fun _ => noFault_fail) (fun hfit => ?_)
  by_cases hlv : h.level = 0
  · simp only [hlv, if_true, level0Path_raw, level0Path_level, true_and] at hfit ⊢
    refine noFault_bind (rdSlice_noFault (by omega)) (fun _ _ => ?_)
    refine noFault_bind (rdU16_noFault (by omega)) (fun _ _ => ?_)
    refine noFault_ite (fun _ => ?_) (fun _ => noFault_ok _)
    refine noFault_bind (level0ExtArea_noFault (by omega) ?_) (fun _ _ => noFault_ok _)
    dsimp only; omega
  · simp only [hlv, if_false, level0Path_raw, level0Path_level, false_and] at hfit ⊢
    refine noFault_bind (rdU8_noFault (by omega)) (fun _ _ => ?_)
    refine noFault_bind (rdSlice_noFault (by omega)) (fun _ _ => ?_)
    refine noFault_bind (rdU16_noFault (by omega)) (fun _ _ => ?_)
    exact noFault_ok _


theorem readL1Ext_noFault (n : Nat) : ∀ (h : Hdr) (rest : Bytes), rest.length = n →
    2 ≤ h.raw.length → NoFault (readL1Ext h rest) := by
  induction n using Nat.strongRecOn with
  | _ n ih =>
    intro h rest hn h2
    rw [readL1Ext]
    refine noFault_ite (fun _ => ?_) (fun _ => ?_)
    · exfalso; omega
    refine noFault_bind (rdU16_noFault (by omega)) (fun len _ => ?_)
    refine noFault_dite (fun _ => noFault_ok _) (fun _ => ?_)
    refine noFault_ite (fun _ => noFault_fail) (fun _ => ?_)
    refine noFault_dite (fun _ => noFault_fail) (fun _ => ?_)
    dsimp only
    refine noFault_ite (fun _ => noFault_fail) (fun _ => ?_)
    refine noFault_ite (fun _ => noFault_fail) (fun _ => ?_)
    refine ih (rest.drop len).length (by rw [List.length_drop]; omega) _ _ rfl ?_
    dsimp only
    rw [List.length_append]; omega

theorem decodeLevel1_noFault {mk : Nat → Nat} {h : Hdr} {r : Bytes} (hlen : h.raw.length = 22)
    (hlv : h.level = 1) : NoFault (decodeLevel1 mk h r) := by
  unfold decodeLevel1
  refine noFault_bind (decodeLevel0_noFault hlen) (fun ⟨h1, r1⟩ h0r => ?_)
  obtain ⟨l, c, n, clen, -, -, -, -, g1, -, -, hinv1, hlen1, hlv1, -⟩ :=
    decodeLevel0_spec rfl hlen h0r
  dsimp only
  refine noFault_bind (readL1Ext_noFault _ _ _ rfl (by omega)) (fun ⟨h2, r2⟩ hch => ?_)
  obtain ⟨ext, -, -, hlen2, hlv2⟩ := readL1Ext_chain _ r1.length h1 r1 0 h2 r2 rfl rfl (by omega) hch
  dsimp only
  refine noFault_bind (decodeExtendedHeaders_noFault ?_) (fun _ _ => noFault_ok _)
  rw [hlv2, hlv1, hlv, if_neg (by omega)]
  omega

theorem decodeLevel2_noFault {h : Hdr} {r : Bytes} (hlen : h.raw.length = 22)
    (hlv : h.level = 2) : NoFault (decodeLevel2 h r) := by
  unfold decodeLevel2
  simp only [Res.fail_bind, Res.fault_bind, Res.ok_bind, Res.pure_eq, Gen.level2HeaderLen]
  refine noFault_bind (rdU16_noFault (by omega)) (fun l _ => ?_)
  refine noFault_ite (fun _ => noFault_fail) (fun h26 => ?_)
  refine noFault_ite (fun _ => ?_) (fun _ => ?_)
  · exfalso; omega
  refine noFault_bind extend_noFault (fun ⟨h1, r1⟩ he => ?_)
  obtain ⟨-, hle, rfl, rfl⟩ := extend_eq_ok.mp he
  clear he
  dsimp only
  have hraw : (h.raw ++ r.take (l - h.raw.length)).length = l := by
    simp only [List.length_append, List.length_take]; omega
  generalize h.raw ++ r.take (l - h.raw.length) = raw1 at *
  refine noFault_bind (rdSlice_noFault (by omega)) (fun _ _ => ?_)
  refine noFault_bind (rdU32_noFault (by omega)) (fun _ _ => ?_)
  refine noFault_bind (rdU32_noFault (by omega)) (fun _ _ => ?_)
  refine noFault_bind (rdU32_noFault (by omega)) (fun _ _ => ?_)
  refine noFault_bind (rdU16_noFault (by omega)) (fun _ _ => ?_)
  refine noFault_bind (rdU8_noFault (by omega)) (fun os _ => ?_)
  refine noFault_ite (fun _ => ?_) (fun _ => ?_)
  · refine noFault_bind extend_noFault (fun ⟨h2, r2⟩ he => ?_)
    obtain ⟨-, hle2, rfl, rfl⟩ := extend_eq_ok.mp he
    clear he
    dsimp only
    refine noFault_bind (decodeExtendedHeaders_noFault ?_) (fun _ _ => noFault_ok _)
    dsimp only
    rw [hlv, if_neg (by omega), List.length_append]; omega
  · refine noFault_bind (decodeExtendedHeaders_noFault ?_) (fun _ _ => noFault_ok _)
    dsimp only
    rw [hlv, if_neg (by omega)]; omega

theorem decodeLevel3_noFault {h : Hdr} {r : Bytes} (hlen : h.raw.length = 22)
    (hlv : h.level = 3) : NoFault (decodeLevel3 h r) := by
  unfold decodeLevel3
  simp only [Res.fail_bind, Res.fault_bind, Res.pure_eq, Gen.level3HeaderLen,
    Gen.level3MaxHeaderLen]
  refine noFault_bind (rdU16_noFault (by omega)) (fun ws _ => ?_)
  refine noFault_ite (fun _ => noFault_fail) (fun _ => ?_)
  refine noFault_ite (fun _ => ?_) (fun _ => ?_)
  · exfalso; omega
  refine noFault_bind extend_noFault (fun ⟨h1, r1⟩ he => ?_)
  obtain ⟨-, hle, rfl, rfl⟩ := extend_eq_ok.mp he
  clear he
  dsimp only
  have hraw : (h.raw ++ r.take (32 - h.raw.length)).length = 32 := by
    simp only [List.length_append, List.length_take]; omega
  generalize h.raw ++ r.take (32 - h.raw.length) = raw1 at *
  refine noFault_bind (rdU32_noFault (by omega)) (fun l _ => ?_)
  refine noFault_ite (fun _ => noFault_fail) (fun hl => ?_)
  refine noFault_bind extend_noFault (fun ⟨h2, r2⟩ he => ?_)
  obtain ⟨-, hle2, rfl, rfl⟩ := extend_eq_ok.mp he
  clear he
  dsimp only
  have hraw2 : (raw1 ++ (r.drop (32 - h.raw.length)).take (l - raw1.length)).length = l := by
    simp only [List.length_append, List.length_take]; omega
  generalize raw1 ++ (r.drop (32 - h.raw.length)).take (l - raw1.length) = raw2 at *
  refine noFault_bind (rdSlice_noFault (by omega)) (fun _ _ => ?_)
  refine noFault_bind (rdU32_noFault (by omega)) (fun _ _ => ?_)
  refine noFault_bind (rdU32_noFault (by omega)) (fun _ _ => ?_)
  refine noFault_bind (rdU32_noFault (by omega)) (fun _ _ => ?_)
  refine noFault_bind (rdU16_noFault (by omega)) (fun _ _ => ?_)
  refine noFault_bind (rdU8_noFault (by omega)) (fun os _ => ?_)
  refine noFault_bind (decodeExtendedHeaders_noFault ?_) (fun _ _ => noFault_ok _)
  dsimp only
  rw [hlv, if_pos rfl]; omega

/-! ### the numbered theorems -/

/-- **C08 for the header parser**: no input byte string makes the parser model perform an
out-of-range access (raw-data index, extended-header data index, length subtraction, …). -/
theorem read_no_fault (mk : Nat → Nat) (inp : Bytes) : ∀ w, Header.read mk inp ≠ .fault w := by
  show NoFault (Header.read mk inp)
  unfold Header.read
  refine noFault_bind extend_noFault (fun ⟨h1, r1⟩ he => ?_)
  obtain ⟨-, hle, rfl, rfl⟩ := extend_eq_ok.mp he
  clear he
  simp only [Gen.commonHeaderLen] at hle ⊢
  have hraw : (({} : Hdr).raw ++ inp.take 22).length = 22 := by
    simp only [List.length_append, List.length_take]
    show 0 + min 22 inp.length = 22
    omega
  generalize ({} : Hdr).raw ++ inp.take 22 = raw1 at *
  refine noFault_bind (rdU8_noFault (by omega)) (fun lvl _ => ?_)
  simp only [Res.fail_bind]
  have post : ∀ (x : Res (Hdr × Bytes)), NoFault x →
      NoFault (x >>= fun p => postProcess p.1 >>= fun h => pure (h, p.2)) := fun x hx =>
    noFault_bind hx (fun p _ => noFault_bind (postProcess_noFault _) (fun _ _ => noFault_ok _))
  refine noFault_ite (fun h0 => ?_) (fun _ => noFault_ite (fun h1 => ?_) (fun _ =>
    noFault_ite (fun h2 => ?_) (fun _ => noFault_ite (fun h3 => ?_) (fun _ => noFault_fail))))
  · exact post _ (decodeLevel0_noFault hraw)
  · exact post _ (decodeLevel1_noFault hraw h1)
  · exact post _ (decodeLevel2_noFault hraw h2)
  · exact post _ (decodeLevel3_noFault hraw h3)

/-- **Consumption**: an accepted header took exactly `h.raw.length` bytes from the input, at
least the 22-byte common prefix. -/
theorem read_consumes (mk : Nat → Nat) (inp : Bytes) (h : Hdr) (rest : Bytes)
    (hr : Header.read mk inp = .ok (h, rest)) :
    (∃ k, k = h.raw.length ∧ rest = inp.drop k ∧ k ≤ inp.length) ∧ h.raw.length ≥ 22 := by
  obtain ⟨⟨h1, h2, h3⟩, -⟩ := read_spec mk inp h rest hr
  exact ⟨⟨_, rfl, h2, h1⟩, h3⟩

/-- the bytes kept in `raw` are the input bytes, except that the two CRC bytes of some
type-0 extended headers have been zeroed -/
theorem read_raw_bytes (mk : Nat → Nat) (inp : Bytes) (h : Hdr) (rest : Bytes)
    (hr : Header.read mk inp = .ok (h, rest)) :
    ∃ exts, h.raw = zeroCommon (inp.take h.raw.length) exts :=
  (read_spec mk inp h rest hr).2.2.2.2

/-- **C12, acceptance soundness**: whatever the parser model accepts satisfies the independently
written integrity predicate — level, lengths, checksum, extended-header chain and common CRC. -/
theorem accept_sound (mk : Nat → Nat) (inp : Bytes) (h : Hdr) (rest : Bytes)
    (hr : Header.read mk inp = .ok (h, rest)) : Spec.Integrity.ok inp = true :=
  (read_spec mk inp h rest hr).2.1

/-- **Name/path presence** (exact form): a non-directory has a file name; a directory
(`-lhd-`) has a path, or it went through `parse_symlink` and then has both a symlink target
and a file name.  The level is at most 3. -/
theorem accept_has_name (mk : Nat → Nat) (inp : Bytes) (h : Hdr) (rest : Bytes)
    (hr : Header.read mk inp = .ok (h, rest)) :
    (h.method ≠ "-lhd-".toUTF8.toList → h.filename ≠ none) ∧
    (h.method = "-lhd-".toUTF8.toList →
      h.path ≠ none ∨ (h.symlinkTarget ≠ none ∧ h.filename ≠ none)) ∧
    h.level ≤ 3 := by
  obtain ⟨-, -, hn, hl, -⟩ := read_spec mk inp h rest hr
  exact ⟨hn.1, hn.2, hl⟩

/-- the weaker form asked for in the task statement -/
theorem accept_has_name' (mk : Nat → Nat) (inp : Bytes) (h : Hdr) (rest : Bytes)
    (hr : Header.read mk inp = .ok (h, rest)) :
    ((h.method ≠ "-lhd-".toUTF8.toList → h.filename ≠ none) ∧
     (h.method = "-lhd-".toUTF8.toList → h.path ≠ none ∨ h.symlinkTarget ≠ none)) ∧
    h.level ≤ 3 := by
  obtain ⟨h1, h2, h3⟩ := accept_has_name mk inp h rest hr
  exact ⟨⟨h1, fun e => (h2 e).imp id (·.1)⟩, h3⟩


end LhasaV.Header
