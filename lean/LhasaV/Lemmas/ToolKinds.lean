import LhasaV.Lemmas.ToolKinds9
import LhasaV.Lemmas.ReaderLedger
import LhasaV.Model.ListOut
/-!
# C16 at tool level: the same members from a file, from a pipe, and behind a self-extractor stub

The tool models (`Extract.run`, `Extract.print`, `Messages.run cmd`, the listing walk
`Driver.allHeaders` + `ListOut.render`) open the archive as a seekable FILE (`lha x archive.lzh`).
`lha x -` reads standard input: a pipe, where `lha_input_stream_skip` reads instead of seeking; the
library can also be driven through callbacks with or without a skip function.

* `runK` / `printK` / `mrunK` / `headersK` / `listingK`: the entry points with the kind of the source as
  a parameter (`runK .seekable = Extract.run` by `rfl`, etc.); `…KF`: the fuel of the loop a parameter too.
* **`tool_kind_independent`** (1): every kind gives the results of the seekable file – flags, outcome tokens
  and the ENTIRE resulting file system of `lha x`; the bytes of `lha p`; stdout, stderr, exit status,
  verdict trace and file system of `lha t` / `lha x` / `lha e` (message model); the headers and so the
  bytes of every listing.  (`tool_kinds_agree`: any two kinds.)
* **`tool_prefix_transparent`** (2): on `P ++ A`, with `P` a prefix satisfying the hypothesis of C16
  `prefix_transparent` (no signature, no marker at any offset of `P`, judged on `P ++ A`) and not pushing
  the first header of `A` beyond the scan limit (`FirstInReach`), the four entry points give the results
  they give on `A` — for every fuel, and any two kinds.  `tool_prefix_transparent_run`: literally
  `Extract.run (P ++ A)` against `Extract.run A` (etc.), each side with the fuel its model gives it: this
  needs, and `ends_in_fuel` proves for EVERY archive, that the models' loops never run out of fuel.

The counters `reads` / `moved` of `Stream.St`, the positions and `dataStart` DO differ between the runs
(`#guard`s below); the relation `KRel` ignores them and no conclusion mentions them.
-/
set_option linter.unusedSimpArgs false
namespace LhasaV.ToolKinds
open LhasaV LhasaV.Stream LhasaV.Reader LhasaV.Extract LhasaV.Messages

/-! ## the entry points, for any kind of source -/

/-- the reader the tool opens on a source of the given kind -/
def readerK (kind : Stream.Kind) (archive : Array UInt8) : Reader.St :=
  { basic := { stream := { kind := kind, data := archive } }, mktime := Header.dosTimeUTC }

/-- `lha x` / `lha e` -/
def runKF (fuel : Nat) (kind : Stream.Kind) (archive : Array UInt8) (o : Opts) (fs : Fs.St) (answers : Bytes) :
    Extract.St :=
  extractLoop fuel { rd := readerK kind archive, fs := fs, opts := o, answers := answers }

def runK (kind : Stream.Kind) (archive : Array UInt8) (o : Opts) (fs : Fs.St) (answers : Bytes) : Extract.St :=
  runKF (2 * archive.size + 16) kind archive o fs answers

/-- `lha p` -/
def printKF (fuel : Nat) (kind : Stream.Kind) (archive : Array UInt8) (o : Opts) : List UInt8 :=
  printArchiveLoop o fuel (readerK kind archive) []

def printK (kind : Stream.Kind) (archive : Array UInt8) (o : Opts) : List UInt8 :=
  printKF (2 * archive.size + 16) kind archive o

/-- `lha t`, `lha x`, `lha e` with their messages -/
def mrunKF (cmd : Cmd) (fuel : Nat) (kind : Stream.Kind) (archive : Array UInt8) (o : Opts) (fs : Fs.St)
    (answers : Bytes) : Messages.St :=
  Messages.loop cmd fuel { x := { rd := readerK kind archive, fs := fs, opts := o, answers := answers } }

def mrunK (cmd : Cmd) (kind : Stream.Kind) (archive : Array UInt8) (o : Opts) (fs : Fs.St) (answers : Bytes) :
    Messages.St :=
  mrunKF cmd (2 * archive.size + 16) kind archive o fs answers

/-- the header walk of `lha l` / `lha v` (the `list` operation of the driver) -/
def headersKF (fuel : Nat) (kind : Stream.Kind) (archive : Array UInt8) : Except String (List Header.Hdr) :=
  Driver.allHeaders fuel (readerK kind archive) []

def headersK (kind : Stream.Kind) (archive : Array UInt8) : Except String (List Header.Hdr) :=
  headersKF (archive.size + 2) kind archive

/-- what `lha l|v[v][q] archive filters…` writes (`error w`: the header parser model faulted) -/
def listingK (kind : Stream.Kind) (vl vo : Bool) (quiet now mtime : Nat) (filters : List Bytes)
    (archive : Array UInt8) : Except String (List UInt8) :=
  (headersK kind archive).map (fun hdrs => ListOut.render vl vo quiet now mtime (Glob.select filters hdrs))

theorem runK_seekable : runK .seekable = Extract.run := rfl
theorem printK_seekable : printK .seekable = Extract.print := rfl
theorem mrunK_seekable (cmd : Cmd) : mrunK cmd .seekable = Messages.run cmd := rfl
theorem readerK_seekable (archive : Array UInt8) : readerK .seekable archive = Messages.initReader archive := rfl
theorem headersK_seekable (archive : Array UInt8) : headersK .seekable archive =
    Driver.allHeaders (archive.size + 2)
      { basic := { stream := { kind := .seekable, data := archive } }, mktime := Header.dosTimeUTC } [] := rfl

/-! ## what "the same result" means -/

/-- two runs of `lha x` agree on everything observable: flags, outcome tokens, the whole file system
(entries, clock, mutation log) — the readers (positions, counters) are not compared -/
structure XAgree (a b : Extract.St) : Prop where
  result : a.result = b.result
  aborted : a.aborted = b.aborted
  out : a.out = b.out
  fs : a.fs = b.fs

/-- two runs of `lha t` / `lha x` with messages agree on everything observable -/
structure MAgree (a b : Messages.St) : Prop where
  stdout : a.stdout = b.stdout
  stderr : a.stderr = b.stderr
  exit : exitStatus a = exitStatus b
  trace : a.trace = b.trace
  fs : a.x.fs = b.x.fs
  result : a.result = b.result
  aborted : a.aborted = b.aborted
  fault : a.fault = b.fault

theorem XRel.agree {P a b} (h : XRel P a b) : XAgree a b := ⟨h.result, h.aborted, h.out, h.fs⟩

theorem MRel.agree {P a b} (h : MRel P a b) : MAgree a b :=
  ⟨h.stdout, h.stderr, by unfold exitStatus; rw [h.aborted, h.result, h.fault], h.trace, h.x.fs,
   h.result, h.aborted, h.fault⟩

theorem XAgree.trans {a b c} (h : XAgree a b) (h' : XAgree b c) : XAgree a c :=
  ⟨h.result.trans h'.result, h.aborted.trans h'.aborted, h.out.trans h'.out, h.fs.trans h'.fs⟩

theorem MAgree.trans {a b c} (h : MAgree a b) (h' : MAgree b c) : MAgree a c :=
  ⟨h.stdout.trans h'.stdout, h.stderr.trans h'.stderr, h.exit.trans h'.exit, h.trace.trans h'.trace,
   h.fs.trans h'.fs, h.result.trans h'.result, h.aborted.trans h'.aborted, h.fault.trans h'.fault⟩

/-! ## fresh readers are related -/

/-- the first header of `A` is still within the scan limit behind the prefix `P`: the scan of `A` alone
within the remaining limit finds what the full scan of `A` finds -/
def FirstInReach (P A : List UInt8) : Prop :=
  firstHeaderLim (scanLimit - P.length) A = firstHeader A

theorem firstInReach_of_some {P A : List UInt8} {i : Nat} (h : firstHeader A = some i)
    (hlim : P.length + i < Gen.maxSfxHeaderLen + 8) : FirstInReach P A := by
  unfold FirstInReach
  rw [h]
  exact firstHeaderLim_of_firstHeader h (by unfold scanLimit; omega)

theorem firstInReach_of_none {P A : List UInt8} (h : firstHeader A = none) : FirstInReach P A := by
  unfold FirstInReach
  rw [h]
  exact firstHeaderLim_none h (by omega)

/-- the hypothesis of C16 `prefix_transparent_zero`: the archive starts with a header -/
theorem firstInReach_zero {P A : List UInt8} (hsig : sigAt A 0) (hlen : 12 < A.length)
    (hlim : P.length < Gen.maxSfxHeaderLen + 8) : FirstInReach P A := by
  have hA : firstHeader A = some 0 := by
    have := firstHeader_prefix_zero [] A (fun j hj => by cases hj) hsig hlen (by decide)
    simpa using this
  exact firstInReach_of_some hA (by omega)

theorem krel_fresh (k k' : Stream.Kind) (P A : Array UInt8)
    (hclean : ∀ j, j < P.toList.length → ¬ sigAt (P.toList ++ A.toList) j ∧ ¬ markAt (P.toList ++ A.toList) j)
    (hreach : FirstInReach P.toList A.toList) :
    KRel P.toList (readerK k (P ++ A)) (readerK k' A) := by
  refine ⟨rfl, rfl, rfl, rfl, rfl, rfl, rfl, rfl, ⟨rfl, rfl, Or.inr (Or.inl ?_)⟩, fun h => by cases h⟩
  refine ⟨rfl, rfl, rfl, rfl, rfl, rfl, rfl, rfl, rfl, ?_, ?_⟩
  · exact Array.toList_append
  · show firstHeader (P.toList ++ A.toList) = _
    rw [firstHeader_prefix _ _ hclean, hreach]
    rfl

theorem krel_fresh_kinds (k k' : Stream.Kind) (A : Array UInt8) : KRel [] (readerK k A) (readerK k' A) := by
  refine ⟨rfl, rfl, rfl, rfl, rfl, rfl, rfl, rfl, ⟨rfl, rfl, Or.inr (Or.inl ?_)⟩, fun h => by cases h⟩
  refine ⟨rfl, rfl, rfl, rfl, rfl, rfl, rfl, rfl, rfl, rfl, ?_⟩
  show firstHeader ([] ++ A.toList) = (firstHeader A.toList).map (· + 0)
  rw [List.nil_append]
  cases firstHeader A.toList <;> rfl


/-! ## the simulation, for the four entry points at once -/

/-- the four loops started on related readers, any fuel -/
theorem loops_agree {P : List UInt8} {rd rd' : Reader.St} (h : KRel P rd rd') (fuel : Nat) (o : Opts)
    (fs : Fs.St) (answers : Bytes) (cmd : Cmd) :
    XAgree (extractLoop fuel { rd := rd, fs := fs, opts := o, answers := answers })
      (extractLoop fuel { rd := rd', fs := fs, opts := o, answers := answers }) ∧
    printArchiveLoop o fuel rd [] = printArchiveLoop o fuel rd' [] ∧
    MAgree (Messages.loop cmd fuel { x := { rd := rd, fs := fs, opts := o, answers := answers } })
      (Messages.loop cmd fuel { x := { rd := rd', fs := fs, opts := o, answers := answers } }) ∧
    Driver.allHeaders fuel rd [] = Driver.allHeaders fuel rd' [] := by
  refine ⟨?_, printArchiveLoop_rel o fuel _ _ [] h, ?_, allHeaders_rel fuel _ _ [] h⟩
  · apply XRel.agree (P := P)
    apply extractLoop_rel
    exact ⟨h, rfl, rfl, rfl, rfl, rfl, rfl⟩
  · apply MRel.agree (P := P)
    apply mloop_rel
    exact ⟨⟨h, rfl, rfl, rfl⟩, rfl, rfl, rfl, rfl, rfl, rfl⟩

/-! ## (1) the kind of the source does not matter -/

/-- any two kinds of source, the whole tool -/
theorem tool_kinds_agree (k k' : Stream.Kind) (archive : Array UInt8) (o : Opts) (fs : Fs.St) (answers : Bytes)
    (cmd : Cmd) :
    XAgree (runK k archive o fs answers) (runK k' archive o fs answers) ∧
    printK k archive o = printK k' archive o ∧
    MAgree (mrunK cmd k archive o fs answers) (mrunK cmd k' archive o fs answers) ∧
    headersK k archive = headersK k' archive := by
  have h := krel_fresh_kinds k k' archive
  exact ⟨(loops_agree h _ o fs answers cmd).1, (loops_agree h _ o fs answers cmd).2.1,
    (loops_agree h _ o fs answers cmd).2.2.1, (loops_agree h _ o fs answers cmd).2.2.2⟩

/-- **(1) `lha … -` (a pipe), or callbacks with or without skip, against `lha … archive.lzh`.**
For every archive, options, file system, prompt answers and every kind `k` of source:
`lha x`/`lha e` end with the same result flag, abort flag, outcome tokens and the same file system; `lha p`
writes the same bytes; `lha t`/`x`/`e` write the same stdout and stderr, exit with the same status, give
the same verdicts and leave the same file system; the listing commands see the same headers. -/
theorem tool_kind_independent (k : Stream.Kind) (archive : Array UInt8) (o : Opts) (fs : Fs.St)
    (answers : Bytes) (cmd : Cmd) :
    XAgree (runK k archive o fs answers) (Extract.run archive o fs answers) ∧
    printK k archive o = Extract.print archive o ∧
    MAgree (mrunK cmd k archive o fs answers) (Messages.run cmd archive o fs answers) ∧
    headersK k archive = headersK .seekable archive :=
  tool_kinds_agree k .seekable archive o fs answers cmd

/-- … so every listing is the same, byte for byte -/
theorem listing_kind_independent (k : Stream.Kind) (vl vo : Bool) (quiet now mtime : Nat) (filters : List Bytes)
    (archive : Array UInt8) :
    listingK k vl vo quiet now mtime filters archive = listingK .seekable vl vo quiet now mtime filters archive := by
  unfold listingK
  rw [(tool_kind_independent k archive {} {} [] .test).2.2.2]

/-! ## (2) a self-extractor stub in front of the archive does not matter -/

/-- **(2), for every fuel and any two kinds.**  `P`: no method signature and no SFX marker starts at any of
its offsets (judged on `P ++ A`, a match may straddle the boundary — the hypothesis of C16
`prefix_transparent`), and the first header of `A` stays within the scan limit (`FirstInReach`; e.g.
`firstInReach_zero`: `A` starts with a header and `|P| < 256 KiB + 8`). -/
theorem tool_prefix_transparent (k k' : Stream.Kind) (P A : Array UInt8)
    (hclean : ∀ j, j < P.toList.length → ¬ sigAt (P.toList ++ A.toList) j ∧ ¬ markAt (P.toList ++ A.toList) j)
    (hreach : FirstInReach P.toList A.toList)
    (fuel : Nat) (o : Opts) (fs : Fs.St) (answers : Bytes) (cmd : Cmd) :
    XAgree (runKF fuel k (P ++ A) o fs answers) (runKF fuel k' A o fs answers) ∧
    printKF fuel k (P ++ A) o = printKF fuel k' A o ∧
    MAgree (mrunKF cmd fuel k (P ++ A) o fs answers) (mrunKF cmd fuel k' A o fs answers) ∧
    headersKF fuel k (P ++ A) = headersKF fuel k' A :=
  loops_agree (krel_fresh k k' P A hclean hreach) fuel o fs answers cmd

/-! ### the fuel of the models always suffices -/

theorem readerK_inv (k : Stream.Kind) (A : Array UInt8) : BInv (readerK k A).basic :=
  Or.inr (Or.inl ⟨rfl, rfl, rfl⟩)

theorem readerK_phi (k : Stream.Kind) (A : Array UInt8) : phi (readerK k A) = 2 * A.size := by
  unfold phi
  rw [srcLen_eq, pend_of_real (Or.inl rfl)]
  show 2 * (A.size - 0) + 0 + 0 + 0 = 2 * A.size
  omega

/-- the runs on `A` end (end of archive, `exit(-1)`, parser fault) within the fuel the models give them -/
structure EndsInFuel (k : Stream.Kind) (A : Array UInt8) (o : Opts) (fs : Fs.St) (answers : Bytes) (cmd : Cmd) :
    Prop where
  x : xEnds (2 * A.size + 16) { rd := readerK k A, fs := fs, opts := o, answers := answers } = true
  p : pEnds o (2 * A.size + 16) (readerK k A) = true
  m : mEnds cmd (2 * A.size + 16) { x := { rd := readerK k A, fs := fs, opts := o, answers := answers } } = true
  h : hEnds (A.size + 2) (readerK k A) = true

/-- **the loops of the tool models never run out of fuel**: for EVERY archive, kind of source, options, file
system and answers, each loop is left through the end of the archive, `exit(-1)` or a parser fault (every
entry `next` presents lowers `2·(bytes to come) + directories to re-present + deferred links`, `next_phi`) -/
theorem ends_in_fuel (k : Stream.Kind) (A : Array UInt8) (o : Opts) (fs : Fs.St) (answers : Bytes) (cmd : Cmd) :
    EndsInFuel k A o fs answers cmd where
  x := xEnds_of_phi _ _ (readerK_inv k A) (by show phi (readerK k A) < _; rw [readerK_phi]; omega)
  p := pEnds_of_phi o _ _ (readerK_inv k A) (by rw [readerK_phi]; omega)
  m := mEnds_of_phi cmd _ _ (readerK_inv k A) (by show phi (readerK k A) < _; rw [readerK_phi]; omega)
  h := hEnds_of_src _ _ (readerK_inv k A) rfl rfl (pend_of_real (Or.inl rfl))
    (by rw [srcLen_eq]; show A.size - 0 < A.size + 2; omega)

/-- **(2) with the models' own fuel, any two kinds**: e.g. `lha x - < sfx.exe` against `lha x archive.lzh`. -/
theorem tool_prefix_transparent_kinds (k k' : Stream.Kind) (P A : Array UInt8)
    (hclean : ∀ j, j < P.toList.length → ¬ sigAt (P.toList ++ A.toList) j ∧ ¬ markAt (P.toList ++ A.toList) j)
    (hreach : FirstInReach P.toList A.toList)
    (o : Opts) (fs : Fs.St) (answers : Bytes) (cmd : Cmd) :
    XAgree (runK k (P ++ A) o fs answers) (runK k' A o fs answers) ∧
    printK k (P ++ A) o = printK k' A o ∧
    MAgree (mrunK cmd k (P ++ A) o fs answers) (mrunK cmd k' A o fs answers) ∧
    headersK k (P ++ A) = headersK k' A := by
  have hends := ends_in_fuel k' A o fs answers cmd
  have hsz : (P ++ A).size = A.size + P.size := by rw [Array.size_append]; omega
  have h1 := tool_prefix_transparent k k' P A hclean hreach (2 * (P ++ A).size + 16) o fs answers cmd
  have h2 := tool_prefix_transparent k k' P A hclean hreach ((P ++ A).size + 2) o fs answers cmd
  have f1 : 2 * (P ++ A).size + 16 = (2 * A.size + 16) + 2 * P.size := by omega
  have f2 : (P ++ A).size + 2 = (A.size + 2) + P.size := by omega
  refine ⟨?_, ?_, ?_, ?_⟩
  · have e : runKF (2 * (P ++ A).size + 16) k' A o fs answers = runK k' A o fs answers := by
      unfold runK runKF; rw [f1]; exact xEnds_mono _ _ hends.x _
    rw [← e]; exact h1.1
  · have e : printKF (2 * (P ++ A).size + 16) k' A o = printK k' A o := by
      unfold printK printKF; rw [f1]; exact pEnds_mono o _ _ _ hends.p _
    rw [← e]; exact h1.2.1
  · have e : mrunKF cmd (2 * (P ++ A).size + 16) k' A o fs answers = mrunK cmd k' A o fs answers := by
      unfold mrunK mrunKF; rw [f1]; exact mEnds_mono cmd _ _ hends.m _
    rw [← e]; exact h1.2.2.1
  · have e : headersKF ((P ++ A).size + 2) k' A = headersK k' A := by
      unfold headersK headersKF; rw [f2]; exact hEnds_mono _ _ _ hends.h _
    rw [← e]; exact h2.2.2.2

/-- **(2), literally on the tool models**: `lha … sfx.exe` against `lha … archive.lzh` — the same result flag,
abort flag, tokens and file system of `lha x`, the same bytes of `lha p`, the same stdout, stderr, exit status,
verdicts and file system of `lha t`/`x`/`e`, the same headers for `lha l`/`v`. -/
theorem tool_prefix_transparent_run (P A : Array UInt8)
    (hclean : ∀ j, j < P.toList.length → ¬ sigAt (P.toList ++ A.toList) j ∧ ¬ markAt (P.toList ++ A.toList) j)
    (hreach : FirstInReach P.toList A.toList)
    (o : Opts) (fs : Fs.St) (answers : Bytes) (cmd : Cmd) :
    XAgree (Extract.run (P ++ A) o fs answers) (Extract.run A o fs answers) ∧
    Extract.print (P ++ A) o = Extract.print A o ∧
    MAgree (Messages.run cmd (P ++ A) o fs answers) (Messages.run cmd A o fs answers) ∧
    headersK .seekable (P ++ A) = headersK .seekable A :=
  tool_prefix_transparent_kinds .seekable .seekable P A hclean hreach o fs answers cmd

/-- … and every listing of the self-extractor is the listing of the archive -/
theorem listing_prefix_transparent (k k' : Stream.Kind) (P A : Array UInt8)
    (hclean : ∀ j, j < P.toList.length → ¬ sigAt (P.toList ++ A.toList) j ∧ ¬ markAt (P.toList ++ A.toList) j)
    (hreach : FirstInReach P.toList A.toList)
    (vl vo : Bool) (quiet now mtime : Nat) (filters : List Bytes) :
    listingK k vl vo quiet now mtime filters (P ++ A) = listingK k' vl vo quiet now mtime filters A := by
  unfold listingK
  rw [(tool_prefix_transparent_kinds k k' P A hclean hreach {} {} [] .test).2.2.2]

/-! ## non-vacuity -/

/-- a stored member named by the byte `c`, holding `hi` -/
def member (c : UInt8) : Array UInt8 :=
  #[0x17, 0x0a + (c - 0x61), 0x2d, 0x6c, 0x68, 0x30, 0x2d, 0x02, 0x00, 0x00, 0x00, 0x02, 0x00, 0x00, 0x00, 0x00,
    0x00, 0x21, 0x28, 0x20, 0x00, 0x01, c, 0xef, 0xee, 0x68, 0x69]

/-- three members `a`, `b`, `c`, then the end marker -/
def demo3 : Array UInt8 := member 0x61 ++ member 0x62 ++ member 0x63 ++ #[0]

/-- a self-extractor-style stub: `MZ`, then 40 bytes without signature or marker -/
def stub : Array UInt8 := #[0x4d, 0x5a] ++ (Array.range 40).map (fun i => UInt8.ofNat (i + 1))

def otherKinds : List Stream.Kind := [.pipe, .cbSkip, .cbNoSkip]

def showFs (fs : Fs.St) : String := toString (repr fs)

def names (r : Except String (List Header.Hdr)) : Option (List Bytes) :=
  match r with
  | .ok l => some (l.map (fun h => h.filename.getD []))
  | .error _ => none

/-- everything observable of a run of `lha x` -/
def xObs (s : Extract.St) : Bool × Bool × List String × String := (s.result, s.aborted, s.out, showFs s.fs)

/-- everything observable of a run of `lha t` / `lha x` with messages -/
def mObs (s : Messages.St) : Bytes × Bytes × Nat × List Bool × String :=
  (s.stdout, s.stderr, exitStatus s, s.trace.map (·.2), showFs s.x.fs)

-- the demo archive and the three-member archive: three members found, extracted, tested, printed — alike
#guard otherKinds.all fun k => names (headersK k demo3) == some [[0x61], [0x62], [0x63]]
#guard otherKinds.all fun k => xObs (runK k demoArchive {} {} []) == xObs (Extract.run demoArchive {} {} [])
#guard otherKinds.all fun k => xObs (runK k demo3 {} {} []) == xObs (Extract.run demo3 {} {} [])
#guard (Extract.run demo3 {} {} []).out == ["ok", "ok", "ok"]
#guard otherKinds.all fun k => printK k demo3 {} == Extract.print demo3 {} && (printK k demo3 {}).length == 66
#guard otherKinds.all fun k => [Cmd.test, Cmd.extract].all fun cmd =>
  mObs (mrunK cmd k demo3 {} {} []) == mObs (Messages.run cmd demo3 {} {} [])
#guard (Messages.run .test demo3 {} {} []).stdout.length == 150
-- the readers are NOT equal: a pipe skips by reading (the counters the relation ignores)
#guard (mrunK .test .pipe demo3 { dryRun := true } {} []).x.rd.basic.stream.reads == 7
#guard (mrunK .test .seekable demo3 { dryRun := true } {} []).x.rd.basic.stream.reads == 4
-- an archive cut inside the second member: the seekable file seeks past the end, the others fail the
-- skip; the same two members are listed
#guard (Stream.Kind.seekable :: otherKinds).all fun k => names (headersK k (demo3.extract 0 53)) == some [[0x61], [0x62]]
-- behind the stub
#guard (Stream.Kind.seekable :: otherKinds).all fun k =>
  xObs (runK k (stub ++ demo3) {} {} []) == xObs (Extract.run demo3 {} {} []) &&
  printK k (stub ++ demo3) {} == Extract.print demo3 {} &&
  names (headersK k (stub ++ demo3)) == names (headersK .seekable demo3)
-- the runs on `demo3` end within their fuel
#guard xEnds (2 * demo3.size + 16) { rd := readerK .seekable demo3, fs := {}, opts := {}, answers := [] }
#guard pEnds {} (2 * demo3.size + 16) (readerK .seekable demo3)
#guard mEnds .test (2 * demo3.size + 16) { x := { rd := readerK .seekable demo3, fs := {}, opts := {}, answers := [] } }
#guard hEnds (demo3.size + 2) (readerK .seekable demo3)

theorem stub_clean : ∀ j, j < stub.toList.length →
    ¬ sigAt (stub.toList ++ demo3.toList) j ∧ ¬ markAt (stub.toList ++ demo3.toList) j := by
  decide +kernel

theorem demo3_reach : FirstInReach stub.toList demo3.toList :=
  firstInReach_zero (by decide +kernel) (by decide +kernel) (by decide +kernel)

/-- (2) instantiated: `lha x -` fed with stub ++ archive, against `lha x` on the bare archive file —
whatever the options, the file system, the answers, the fuel -/
example (fuel : Nat) (o : Opts) (fs : Fs.St) (answers : Bytes) :
    XAgree (runKF fuel .pipe (stub ++ demo3) o fs answers) (runKF fuel .seekable demo3 o fs answers) :=
  (tool_prefix_transparent .pipe .seekable stub demo3 stub_clean demo3_reach fuel o fs answers .test).1

/-- … and literally `lha x sfx.exe` against `lha x archive.lzh`, the model's own fuel on both sides -/
example (o : Opts) (fs : Fs.St) (answers : Bytes) :
    XAgree (Extract.run (stub ++ demo3) o fs answers) (Extract.run demo3 o fs answers) :=
  (tool_prefix_transparent_run stub demo3 stub_clean demo3_reach o fs answers .test).1

end LhasaV.ToolKinds
