import LhasaV.Lemmas.ExtractTreeAll4
/-!
# C06, all deviations together (part 5): the steps of the loop

* `step_write_u`: a selected entry that is not late is written — at a free place below missing or
  existing directories (any kind of entry), or over an old regular file after
  `confirm_file_overwrite` said yes;
* `step_keep_u`: `confirm_file_overwrite` said no: nothing changes, the entry counts as handled;
* `step_late_u`: a late directory entry is ignored;
* `step_close_u`: the metadata step of the innermost open directory entry.
-/
namespace LhasaV.ExtractTree
open LhasaV LhasaV.Header LhasaV.Extract LhasaV.GlobFs LhasaV.Contain

/-- `extract_archived_file` once the check said "go on" (state `s'`) and the parents step gave `fsY` -/
def wroteU (s' : Extract.St) (fsY : Fs.St) (fn : Bytes) : Extract.St :=
  { s' with rd := (readerExtract s'.rd fsY fn).2.1, fs := (readerExtract s'.rd fsY fn).2.2,
            result := s'.result && (readerExtract s'.rd fsY fn).1,
            out := (if (readerExtract s'.rd fsY fn).1 then "ok" else "failed") :: s'.out }

theorem eaf_wroteU (s s' : Extract.St) (h : Hdr) (fsY : Fs.St) (hp : preOf s h = some (false, s'))
    (hu : s'.opts.usePath = true)
    (hpar : parentsOf s' (fileFullPath h s.opts) = (true, fsY)) :
    extractArchivedFile s h = wroteU s' fsY (fileFullPath h s.opts) := by
  rw [eaf_eq, hp]
  simp only [hu, Bool.not_true, Bool.false_eq_true, false_and, if_false, hpar]
  rfl

theorem walkIn_kept {fs fs' : Fs.St} {w : List Bytes} (hk : DirsKept fs fs') (h : WalkIn fs w) :
    WalkIn fs' w := by
  intro pre hp
  obtain ⟨m, t, hl, hs⟩ := h pre hp
  obtain ⟨t', hl'⟩ := hk.2.2 _ m t hl
  exact ⟨m, t', by rw [hk.2.1]; exact hl', by rw [hk.1]; exact hs⟩

theorem step_write_u {fs0 : Fs.St} {ds : List Bytes} {sel : Entry → Bool} {done stk rest : List Entry}
    {seen : List Fs.Path} {pol : Overwrite} {ls : List Bytes} {e : Entry} (s' : Extract.St)
    (c : Reader.HObj) (fsX fsY : Fs.St) (k : Nat)
    (hi : CoreInvU fs0 ds sel done stk seen (e :: rest) pol ls s') (hb : BaseRefU fs0 ds)
    (hsel : sel e = true) (hnl : lateDir seen e = false)
    (hX : FsInvU (mkBase fs0 ds) ((mkBase fs0 ds).cwd ++ ds) done (stk.map Entry.path) fsX)
    (hwX : WalkIn fsX ds)
    (hpm : ParentsMadeB (mkBase fs0 ds) ds fsX fsY e.path.dropLast k)
    (hlook : Fs.lookup fsX ((mkBase fs0 ds).cwd ++ ds ++ e.path) = oldB fs0 ds e.path)
    (hpol : s'.rd.policy = .endOfDir) (hdef : s'.rd.deferred = [])
    (hstack : StackRel s'.rd.dirStack stk)
    (hty : s'.rd.currType = .normal) (hcur : s'.rd.curr = some c) (hh : HdrOf e c.h)
    (hin : ∀ d tl, stk = d :: tl → d.path <+: e.dirPart)
    (hdec : ∀ p data perms mtime, e = .file p data perms mtime →
      (Reader.openDecoder s'.rd).1 = true ∧ (Reader.extract s'.rd true).1 = (true, data)) :
    LoopInvU fs0 ds sel (done ++ [e]) (if e.isDir then e :: stk else stk) (seen ++ [e.path]) rest pol ls
      (wroteU s' fsY (fullOf (e.reloc ds))) := by
  have hpop : popStk (stk.map Entry.path) e.dirPart = stk.map Entry.path := by
    cases stk with
    | nil => rfl
    | cons d tl => exact popStk_in _ _ _ (hin d tl rfl)
  have hwf := hi.wf
  simp only [WFU, hsel, if_true, hpop, hnl, Bool.false_eq_true, if_false] at hwf
  obtain ⟨hk, hopenP, hfreshP, hwf'⟩ := hwf
  have hfresh : ∀ a ∈ done, ¬ e.path <+: a.path := fun a had => hfreshP _ (hi.sub a had)
  have hopen : ∀ a ∈ done, a.path <+: e.path → a.path ∈ stk.map Entry.path :=
    fun a had h => hopenP _ (hi.sub a had) h
  have hp1 := hb.params
  have hdep := hi.depth e (by simp)
  have hnds := hi.opts.names
  have hpre := hi.pre e (by simp) hsel
  obtain ⟨u1, _, _, u4, _⟩ := after_parentsU hX.params hb.acc1 hpm
  have hpY : SameParams (mkBase fs0 ds) fsY := hX.params.trans hpm.made.params
  -- the place of the entry once its directories exist
  have hkeptY : DirsKept fsX fsY := hpm.made.kept (fun q hq hqb => by
    have := hpm.missing q hq hqb
    rw [hX.params.cwd, ← List.append_assoc (mkBase fs0 ds).cwd, List.append_assoc ((mkBase fs0 ds).cwd ++ ds)]
    exact this)
  have hwY : WalkIn fsY ds := walkIn_kept hkeptY hwX
  have hwi : WalkIn fsY (ds ++ e.path.dropLast) := walkIn_below hpY hwY u1
  have pf := pathFacts_rel hk hnds hdep
  have hg : ∀ x ∈ ds ++ e.path, Good x := by
    have := names_good (entryOk_reloc hk hnds hdep).names; rwa [reloc_path] at this
  have hwk : Walk fsY fsY.cwd (ds ++ e.path) := by
    intro pre hp1' hne1
    have := prefix_dropLast pre _ hp1' hne1
    rw [List.dropLast_append_of_ne_nil hk.ne] at this
    exact hwi pre this
  have hT : Target fsY (fullOf (e.reloc ds)) (ds ++ e.path) :=
    ⟨pf.rel, pf.comps, by simp [hk.ne], hg, by rw [List.length_append]; exact hdep, hwk⟩
  have hsameY : Fs.lookup fsY (fsY.cwd ++ (ds ++ e.path)) = oldB fs0 ds e.path := by
    rw [hpY.cwd, ← List.append_assoc, u4 _ (fun q hq heq => by
      have h1 := congrArg List.length (List.append_cancel_left heq)
      have h2 := hq.length_le
      rw [List.length_dropLast] at h2
      have : 0 < e.path.length := List.length_pos_iff.2 hk.ne
      omega)]
    exact hlook
  have hmod : Fs.canModify fsY (fsY.cwd ++ (ds ++ e.path)).dropLast = true := by
    rw [List.dropLast_append_of_ne_nil (by simp [hk.ne]), List.dropLast_append_of_ne_nil hk.ne]
    exact (u1 _ (List.prefix_refl _)).modify hpY
  -- `lha_reader_extract` writes the entry, whether the place was free or held an old file
  obtain ⟨r1, rk, rstack, rc⟩ : (readerExtract s'.rd fsY (fullOf (e.reloc ds))).1 = true ∧
      RdKept s'.rd (readerExtract s'.rd fsY (fullOf (e.reloc ds))).2.1 ∧
      (readerExtract s'.rd fsY (fullOf (e.reloc ds))).2.1.dirStack =
        (if e.isDir then c :: s'.rd.dirStack else s'.rd.dirStack) ∧
      Created fsY (readerExtract s'.rd fsY (fullOf (e.reloc ds))).2.2 (fsY.cwd ++ (ds ++ e.path))
        (e.opened fsY.now fsY.umask) := by
    rcases hpre with hnone | ⟨hfile, _, hfo⟩
    · have hn := free_of_take hnone e.path hk.ne (List.prefix_refl _)
      exact entry_created_at s'.rd fsY _ c e (ds ++ e.path) hty hcur hpol hh hk hT
        (hsameY.trans hn) hmod hdec
    · obtain ⟨d0, m0, t0, ho⟩ := (isFileOpt_iff _).1 hfo
      obtain ⟨p, data, perms, mtime, rfl⟩ := (isFile_iff e).1 hfile
      exact file_over_created s'.rd fsY _ c (ds ++ p) p data perms mtime hty hcur hpol hh hk hT
        d0 m0 t0 (hsameY.trans ho) hmod (hdec p data perms mtime rfl)
  rw [hpY.cwd, hpY.now, hpY.umask, ← List.append_assoc] at rc
  have hns : e.path ∉ stk.map Entry.path := by
    intro h
    obtain ⟨d, hds, hdp⟩ := List.mem_map.1 h
    exact hfresh d (hi.ok.sub d hds).1 (hdp ▸ List.prefix_refl _)
  unfold wroteU
  refine ⟨⟨hi.aborted, ?_, hi.opts, hi.filt, hi.policy, fun h => hi.ans h.cons, ?_, doneI_push hi.ok hk hfresh hopen,
    ?_, ?_, ?_, ?_, fun x hx => hi.pre x (List.mem_cons_of_mem _ hx), ?_⟩, ?_⟩
  rotate_left 7
  · show RdInv (readerExtract s'.rd fsY _).2.1 _ rest
    refine ⟨rk.policy.trans hpol, rk.deferred.trans hdef, ?_,
      Or.inr (Or.inl (rk.currType.trans hty)), ?_⟩
    · rw [rstack]
      cases e.isDir with
      | true => exact ⟨hh, hstack⟩
      | false => exact hstack
    · intro h
      rw [rk.currType, hty] at h
      cases h
  · show (s'.result && _) = true
    rw [hi.result, r1]; rfl
  · show FsPhU fs0 ds (done ++ [e]) _ (readerExtract s'.rd fsY _).2.2
    refine Or.inr ⟨by simp, ?_⟩
    rw [map_push]
    apply hX.step hb.acc1 hk.ne (fun a had => (hi.ok.ok a had).ne) hfresh hpm
    · cases hdir : e.isDir with
      | true => simp only [if_true, List.mem_cons, true_or]; exact rc
      | false =>
        simp only [Bool.false_eq_true, if_false, hns]
        rw [← opened_eq_final e hdir]; exact rc
    · intro p hp'
      cases e.isDir with
      | true => simp [hp']
      | false => simp
  · intro x hx
    rcases List.mem_append.1 hx with h | h
    · exact List.mem_append_left _ (hi.sub x h)
    · have : x = e := by simpa using h
      subst this; simp
  · intro x hx
    rcases List.mem_append.1 hx with h | h
    · exact hi.seld x h
    · have : x = e := by simpa using h
      subst this; exact hsel
  · intro p hp
    rcases List.mem_append.1 hp with h | h
    · rcases hi.kept p h with ⟨a, had, hap⟩ | h2
      · exact Or.inl ⟨a, List.mem_append_left _ had, hap⟩
      · exact Or.inr h2
    · have : p = e.path := by simpa using h
      exact Or.inl ⟨e, by simp, this.symm⟩
  · show WFU sel _ (seen ++ [e.path]) rest
    rw [map_push]
    exact hwf'
  · intro x hx
    exact hi.depth x (by simpa [List.append_assoc] using hx)

theorem step_keep_u {fs0 : Fs.St} {ds : List Bytes} {sel : Entry → Bool} {done stk rest : List Entry}
    {seen : List Fs.Path} {pol : Overwrite} {ls : List Bytes} {e : Entry} (s' : Extract.St)
    (hi : CoreInvU fs0 ds sel done stk seen (e :: rest) pol ls s')
    (hsel : sel e = true) (hnl : lateDir seen e = false)
    (hpol : s'.rd.policy = .endOfDir) (hdef : s'.rd.deferred = [])
    (hstack : StackRel s'.rd.dirStack stk) (hty : s'.rd.currType = .normal)
    (hin : ∀ d tl, stk = d :: tl → d.path <+: e.dirPart) (hfile : e.isDir = false)
    (h1 : e.path.length = 1) (hfo : isFileOpt (oldB fs0 ds e.path) = true) :
    LoopInvU fs0 ds sel done stk (seen ++ [e.path]) rest pol ls { s' with out := "skipped" :: s'.out } := by
  have hpop : popStk (stk.map Entry.path) e.dirPart = stk.map Entry.path := by
    cases stk with
    | nil => rfl
    | cons d tl => exact popStk_in _ _ _ (hin d tl rfl)
  have hwf := hi.wf
  simp only [WFU, hsel, if_true, hpop, hnl, Bool.false_eq_true, if_false, hfile] at hwf
  refine ⟨⟨hi.aborted, hi.result, hi.opts, hi.filt, hi.policy, fun h => hi.ans h.cons, hi.fs, hi.ok,
    fun x hx => List.mem_append_left _ (hi.sub x hx), hi.seld, ?_, hwf.2.2.2,
    fun x hx => hi.pre x (List.mem_cons_of_mem _ hx), ?_⟩, ?_⟩
  · intro p hp
    rcases List.mem_append.1 hp with h | h
    · exact hi.kept p h
    · have : p = e.path := by simpa using h
      subst this
      exact Or.inr ⟨h1, hfo⟩
  · intro x hx
    apply hi.depth x
    rcases List.mem_append.1 hx with h | h
    · exact List.mem_append_left _ h
    · exact List.mem_append_right _ (List.mem_cons_of_mem _ h)
  · exact ⟨hpol, hdef, hstack, Or.inr (Or.inl hty), fun h => by rw [hty] at h; cases h⟩

/-- the place of an entry whose directories all exist (a late directory entry, an open directory
entry): it can be walked to -/
theorem target_existing {fs0 : Fs.St} {ds : List Bytes} {done stk : List Entry} {fs : Fs.St} {e : Entry}
    (hb : BaseRefU fs0 ds)
    (hfs : FsInvU (mkBase fs0 ds) ((mkBase fs0 ds).cwd ++ ds) done (stk.map Entry.path) fs)
    (hd : DoneI done stk) (hk : EntryOk e) (hn : ∀ c ∈ ds, Name c)
    (hdep : ds.length + e.path.length < 64)
    (hanc : ∀ a ∈ done, a.path <+: e.path → a.path ≠ e.path → a.path ∈ stk.map Entry.path)
    (a0 : Entry) (had0 : a0 ∈ done) (hpa0 : e.path <+: a0.path) :
    Target fs (fullOf (e.reloc ds)) (ds ++ e.path) := by
  obtain ⟨k0, _, hf⟩ := hb.facts
  have hw := walkIn_base hfs hf.walk
  have pf := pathFacts_rel hk hn hdep
  have hg : ∀ x ∈ ds ++ e.path, Good x := by
    have := names_good (entryOk_reloc hk hn hdep).names; rwa [reloc_path] at this
  have hwi : WalkIn fs (ds ++ e.path.dropLast) := by
    apply walkIn_below hfs.params hw
    intro pre hpre
    obtain ⟨h1, h2⟩ := dropLast_prefix_ne e.path pre hk.ne hpre
    exact usable_of_invU hfs hd hb.acc1 e.path hanc pre h1 h2 (Or.inr ⟨a0, had0, h1.trans hpa0⟩)
  have hwk : Walk fs fs.cwd (ds ++ e.path) := by
    intro pre hp1 hne1
    have := prefix_dropLast pre _ hp1 hne1
    rw [List.dropLast_append_of_ne_nil hk.ne] at this
    exact hwi pre this
  exact ⟨pf.rel, pf.comps, by simp [hk.ne], hg, by rw [List.length_append]; exact hdep, hwk⟩

/-- **a late directory entry is ignored** -/
theorem step_late_u {fs0 : Fs.St} {ds : List Bytes} {sel : Entry → Bool} {done stk rest : List Entry}
    {seen : List Fs.Path} {pol : Overwrite} {ls : List Bytes} {e : Entry} (s : Extract.St)
    (c : Reader.HObj) (hi : CoreInvU fs0 ds sel done stk seen (e :: rest) pol ls s) (hb : BaseRefU fs0 ds)
    (hsel : sel e = true) (hlate : lateDir seen e = true)
    (hpol : s.rd.policy = .endOfDir) (hdef : s.rd.deferred = [])
    (hstack : StackRel s.rd.dirStack stk)
    (hty : s.rd.currType = .normal) (hcur : s.rd.curr = some c) (hh : HdrOf e c.h)
    (hin : ∀ d tl, stk = d :: tl → d.path <+: e.dirPart) :
    LoopInvU fs0 ds sel done stk seen rest pol ls (extractArchivedFile s c.h) := by
  have hpop : popStk (stk.map Entry.path) e.dirPart = stk.map Entry.path := by
    cases stk with
    | nil => rfl
    | cons d tl => exact popStk_in _ _ _ (hin d tl rfl)
  have hwf := hi.wf
  simp only [WFU, hsel, if_true, hpop, hlate] at hwf
  obtain ⟨hk, hopenP, hwf'⟩ := hwf
  obtain ⟨hdir, a0, had0, hpa0⟩ := hi.late_done hsel hk hlate
  have hopen : ∀ a ∈ done, a.path <+: e.path → a.path ∈ stk.map Entry.path :=
    fun a had h => hopenP _ (hi.sub a had) h
  have hdep := hi.depth e (by simp)
  have hnds := hi.opts.names
  have hfs := hi.fs.inv (List.ne_nil_of_mem had0)
  have hp := hfs.params
  have hfn : fileFullPath c.h s.opts = fullOf (e.reloc ds) := fullPath_rel hh hk s.opts ds hi.opts
  have pf := pathFacts_rel hk hnds hdep
  have hT := target_existing hb hfs hi.ok hk hnds hdep (fun a had h _ => hopen a had h) a0 had0 hpa0
  have hl : ∃ m t, Fs.lookup s.fs (s.fs.cwd ++ (ds ++ e.path)) = some (.dir m t) := by
    rw [hp.cwd, ← List.append_assoc]
    by_cases hent : ∃ a ∈ done, a.path = e.path
    · obtain ⟨a, had, hap⟩ := hent
      have hm := hopen a had (hap ▸ List.prefix_refl _)
      obtain ⟨d, hds, hdp⟩ := List.mem_map.1 hm
      obtain ⟨hdd, hddir⟩ := hi.ok.sub d hds
      have : a = d := eq_of_path_eq done hi.ok.nodup a had d hdd hdp.symm
      subst this
      have hl := hfs.ents a had
      rw [if_pos hm] at hl
      obtain ⟨b, _, ho⟩ := opened_dir a hddir (mkBase fs0 ds).now (mkBase fs0 ds).umask
      rw [ho, hap] at hl
      exact ⟨_, _, hl⟩
    · exact ⟨_, _, hfs.imp e.path hk.ne ⟨a0, had0, hpa0⟩ (fun a had h => hent ⟨a, had, h⟩)⟩
  obtain ⟨m, t, hl⟩ := hl
  have hparents : parentsOf s (fileFullPath c.h s.opts) = (true, s.fs) := by
    have : parentsOf s (fileFullPath c.h s.opts) =
        makeParentDirectories s.fs (fileFullPath c.h s.opts) := by
      unfold parentsOf; simp [hty]
    rw [this, hfn]
    exact makeParents_noop s.fs _ (ds ++ e.path) pf.split pf.trel hT.good hT.len hT.walk
  have hrun := eaf_run s c.h hi.opts.up (Or.inl (isDirEntry_of hh hdir)) hparents
  rw [hfn] at hrun
  cases e with
  | file _ _ _ _ => cases hdir
  | link _ _ => cases hdir
  | dir p perms mtime =>
  obtain ⟨_, _, hm, hs, _, _⟩ := hh
  have hE := extract_dir_existing s.rd s.fs (fullOf ((Entry.dir p perms mtime).reloc ds)) (ds ++ p) c
    hty hcur hm hs hT m t hl
  rw [hE] at hrun
  rw [hrun]
  refine ⟨⟨hi.aborted, ?_, hi.opts, hi.filt, hi.policy, fun h => hi.ans h.cons, hi.fs, hi.ok, hi.sub, hi.seld, hi.kept, hwf',
    fun x hx => hi.pre x (List.mem_cons_of_mem _ hx), ?_⟩,
    ⟨hpol, hdef, hstack, Or.inr (Or.inl hty), fun h => ?_⟩⟩
  · show (s.result && true) = true
    rw [hi.result]; rfl
  · intro x hx
    apply hi.depth x
    rcases List.mem_append.1 hx with h | h
    · exact List.mem_append_left _ h
    · exact List.mem_append_right _ (List.mem_cons_of_mem _ h)
  · have h' : s.rd.currType = .fakeDir := h
    rw [hty] at h'; cases h'

theorem step_close_u {fs0 : Fs.St} {ds : List Bytes} {sel : Entry → Bool} {done stk rest : List Entry}
    {seen : List Fs.Path} {pol : Overwrite} {ls : List Bytes} {d : Entry} (s : Extract.St)
    (top : Reader.HObj)
    (hi : CoreInvU fs0 ds sel done (d :: stk) seen rest pol ls s) (hb : BaseRefU fs0 ds)
    (hpol : s.rd.policy = .endOfDir) (hdef : s.rd.deferred = [])
    (hty : s.rd.currType = .fakeDir) (hcur : s.rd.curr = some top)
    (hh : HdrOf d top.h) (hstack : StackRel s.rd.dirStack stk)
    (hpend : Pending s.rd.basic.curr rest)
    (hout : ∀ e tl, rest = e :: tl → ¬ d.path <+: e.dirPart) :
    LoopInvU fs0 ds sel done stk seen rest pol ls (extractArchivedFile s top.h) := by
  obtain ⟨hdd, hdir⟩ := hi.ok.sub d (by simp)
  have hk : EntryOk d := hi.ok.ok d hdd
  have hdep := hi.depth d (List.mem_append_left _ hdd)
  have hnds := hi.opts.names
  have hfs := hi.fs.inv (List.ne_nil_of_mem hdd)
  have hp := hfs.params
  have hfn : fileFullPath top.h s.opts = fullOf (d.reloc ds) := fullPath_rel hh hk s.opts ds hi.opts
  have hT := target_existing hb hfs hi.ok hk hnds hdep
    (fun a had h _ => hi.ok.anc d (by simp) a had h) d hdd (List.prefix_refl _)
  have hcwd : s.fs.cwd = (mkBase fs0 ds).cwd := hp.cwd
  have hl := hfs.ents d hdd
  rw [if_pos (by simp)] at hl
  cases d with
  | file _ _ _ _ => cases hdir
  | link _ _ => cases hdir
  | dir p perms mtime =>
  obtain ⟨hh1, hh2, hm, hs, hpm, htm⟩ := hh
  have hl' : Fs.lookup s.fs (s.fs.cwd ++ (ds ++ p)) =
      some (.dir (openMode (mkBase fs0 ds).umask perms) (mkBase fs0 ds).now) := by
    rw [hcwd, ← List.append_assoc]; exact hl
  obtain ⟨e1, e2, e3⟩ := extract_fake_effect s.rd s.fs (fullOf ((Entry.dir p perms mtime).reloc ds))
    (ds ++ p) top hty hcur hT _ _ hl'
  rw [final_dir_mode top.h perms (mkBase fs0 ds).umask hpm, htm, hcwd, ← List.append_assoc] at e3
  have hrun := eaf_run s top.h hi.opts.up
    (Or.inl (isDirEntry_of (e := .dir p perms mtime) ⟨hh1, hh2, hm, hs, hpm, htm⟩ rfl))
    (by unfold parentsOf; simp [hty])
  rw [hfn] at hrun
  rw [hrun]
  have hts : p ∉ stk.map Entry.path := by
    have := doneI_snodup hi.ok
    simp only [List.map_cons, List.nodup_cons] at this
    exact this.1
  refine ⟨⟨hi.aborted, ?_, hi.opts, hi.filt, hi.policy, hi.ans, ?_, doneI_pop hi.ok, hi.sub, hi.seld, hi.kept, ?_,
    hi.pre, hi.depth⟩, ?_⟩
  rotate_left 3
  · show RdInv (readerExtract s.rd s.fs _).2.1 stk rest
    rw [e2]
    exact ⟨hpol, hdef, hstack, Or.inr (Or.inr hty), fun _ => hpend⟩
  · show (s.result && _) = true
    rw [hi.result, e1]; rfl
  · show FsPhU fs0 ds done (stk.map Entry.path) (readerExtract s.rd s.fs _).2.2
    refine Or.inr ⟨List.ne_nil_of_mem hdd, ?_⟩
    exact hfs.close hdd rfl hk.ne hts
      (fun e' he' hp' => eq_of_path_eq done hi.ok.nodup e' he' _ hdd hp') e3
  · have hwf := hi.wf
    cases rest with
    | nil => trivial
    | cons e tl =>
      simp only [List.map_cons] at hwf
      exact (WFU_pop sel p _ _ e tl (hout e tl rfl)).1 hwf

end LhasaV.ExtractTree
