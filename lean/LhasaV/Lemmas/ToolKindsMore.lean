import LhasaV.Lemmas.ToolKindsMore2
import LhasaV.Lemmas.ArchiveOf
import LhasaV.Lemmas.PrintList
/-!
# C16 ∘ C06: a self-extracting archive read from standard input extracts to exactly the tree it encodes

`ToolKindsMore1/2`: every prefix `P` with `PrefixShifts P A` is invisible to the whole tool, whatever the
kind of source.  Here `A = archiveWith pk es` — the BYTES that encode a tree `es` (headers by the header
specification's encoder, data by a sound packer, C06 `ArchiveOf`) — and the chain is closed:

* **`sfx_extract_archiveWith`**: `lha x` of `P ++ archiveWith pk es` from a file, a pipe or callbacks, into an
  empty directory, succeeds and leaves EXACTLY `treeOf es` (C16 `tool_shift_transparent` ∘
  C06 `extract_archiveWith`);
* **`sfx_print_archiveWith`**: `lha p` writes banner + data of every selected entry (∘ `print_archiveWith`);
* **`sfx_listing_archiveWith`**: the header walk returns `es.map (hdrOf pk)` and every listing is
  head ++ one row group per selected entry ++ totals (∘ `listing_archiveWith`);
* the prefix hypothesis discharged for `archiveWith` (it starts with a header or is empty, so its first
  header is in reach of every prefix shorter than the scan limit): `shifts_archiveWith_clean` (clean stub),
  `shifts_archiveWith_decoy` (stub + marker + decoy), **`shifts_archiveWith_scan`** (hypotheses on the
  bytes of `P` ALONE: the scan of `P` finds nothing, no decoy pending, no `-`/`L` among its last 12 bytes);
* non-vacuity: `sfx ++ archiveOf sampleTree` from a pipe, every hypothesis by kernel evaluation.
-/
set_option linter.unusedSimpArgs false
namespace LhasaV.ToolKinds
open LhasaV LhasaV.Stream LhasaV.Header LhasaV.Extract LhasaV.ExtractTree LhasaV.ArchiveOf LhasaV.Reader
open LhasaV.PrintList LhasaV.ListProps LhasaV.ListOut LhasaV.ToolNoFault LhasaV.ExtractTree.Sample

/-! ## the prefix hypothesis, for the archive of a tree -/

/-- the first header of `archiveWith pk es` (offset 0; none for the empty tree) is in reach behind every
prefix shorter than the scan limit -/
theorem reach_archiveWith (P : List UInt8) (pk : Packer) (es : List Entry) (hpk : Packs pk es)
    (hlen : P.length < scanLimit) : FirstInReach P (archiveWith pk es).toList := by
  cases es with
  | nil => exact firstInReach_of_none (show firstHeader ([] : List UInt8) = none by decide)
  | cons e tl =>
    rw [archiveWith_cons]
    exact firstInReach_of_some (firstHeader_member pk e (hpk e (List.mem_cons_self ..)) _)
      (by have : scanLimit = Gen.maxSfxHeaderLen + 8 := rfl; omega)

/-- the archive starts with a header, or is empty -/
theorem head_archiveWith (pk : Packer) (es : List Entry) (hpk : Packs pk es) :
    sigAt (archiveWith pk es).toList 0 ∨
      ((archiveWith pk es).toList.getD 0 0 ≠ chr '-' ∧ (archiveWith pk es).toList.getD 1 0 ≠ chr '-') := by
  cases es with
  | nil =>
    exact Or.inr (show ([] : List UInt8).getD 0 0 ≠ chr '-' ∧ ([] : List UInt8).getD 1 0 ≠ chr '-' by decide)
  | cons e tl =>
    rw [archiveWith_cons]
    exact Or.inl (firstHeader_some (firstHeader_member pk e (hpk e (List.mem_cons_self ..)) _)).2.2

/-- a clean stub (C16 `prefix_transparent`) shorter than the scan limit -/
theorem shifts_archiveWith_clean (P : List UInt8) (pk : Packer) (es : List Entry) (hpk : Packs pk es)
    (hclean : ∀ j, j < P.length →
      ¬ sigAt (P ++ (archiveWith pk es).toList) j ∧ ¬ markAt (P ++ (archiveWith pk es).toList) j)
    (hlen : P.length < scanLimit) : PrefixShifts P (archiveWith pk es).toList :=
  shifts_of_clean hclean (reach_archiveWith P pk es hpk hlen)

/-- stub + marker + the decoy signature it announces (C16 `decoy_skipped`), shorter than the scan limit -/
theorem shifts_archiveWith_decoy (P : List UInt8) (pk : Packer) (es : List Entry) (hpk : Packs pk es)
    (m d : Nat) (hmd : m < d) (hd : d < P.length)
    (hmark : markAt (P ++ (archiveWith pk es).toList) m) (hsig : sigAt (P ++ (archiveWith pk es).toList) d)
    (hnosig : ∀ j, j < P.length → j ≠ d → ¬ sigAt (P ++ (archiveWith pk es).toList) j)
    (hnomark : ∀ j, m < j → j < P.length → ¬ markAt (P ++ (archiveWith pk es).toList) j)
    (hlen : P.length < scanLimit) : PrefixShifts P (archiveWith pk es).toList :=
  shifts_of_decoy m d hmd hd hmark hsig hnosig hnomark (reach_archiveWith P pk es hpk hlen)

/-- **hypotheses on the prefix ALONE**: the self-extractor scan of `P` finds nothing and leaves no decoy
pending, none of the last 12 bytes of `P` is `-` or `L`, `|P|` is below the scan limit — then `P` is
passed over in front of the archive of EVERY tree -/
theorem shifts_archiveWith_scan (P : List UInt8) (pk : Packer) (es : List Entry) (hpk : Packs pk es)
    (hnone : firstHeader P = none) (hctr : pendingDecoy P = 0)
    (hbytes : ∀ j, P.length - 12 ≤ j → j < P.length → P.getD j 0 ≠ chr '-' ∧ P.getD j 0 ≠ chr 'L')
    (hlen : P.length < scanLimit) : PrefixShifts P (archiveWith pk es).toList :=
  shifts_of_scan hnone hctr (tail_clean_of_bytes _ _ hbytes (head_archiveWith pk es hpk))
    (reach_archiveWith P pk es hpk hlen)

/-! ## the chain C16 ∘ C06 -/

/-- **A self-extracting archive read from standard input extracts to exactly the tree it encodes.**
For every well-formed, encodable tree `es`, every sound packer, every prefix `P` the scan passes over
(`shifts_archiveWith_clean` / `_decoy` / `_scan`), every kind `k` of source (`.pipe`: `lha x - < sfx.exe`):
`lha x` on `P ++ archiveWith pk es` into an empty directory succeeds, leaves below the extraction directory
exactly `treeOf es`, stamps the extraction directory, and changes nothing outside. -/
theorem sfx_extract_archiveWith (k : Stream.Kind) (P : Array UInt8) (pk : Packer) (es : List Entry)
    (hwf : WellFormed es) (henc : Encodable es) (hpk : Packs pk es)
    (hP : PrefixShifts P.toList (archiveWith pk es).toList)
    (o : Opts) (fs : Fs.St) (answers : Bytes) (ho : OptsOk o) (hfs : EmptyDir fs) (ha : Access fs) :
    (runK k (P ++ archiveWith pk es) o fs answers).result = true ∧
    (∀ p, p ≠ [] → Fs.lookup (runK k (P ++ archiveWith pk es) o fs answers).fs (fs.cwd ++ p) =
      treeOf fs.now fs.umask es p) ∧
    (es ≠ [] → fs.cwd ≠ [] →
      ∃ m, Fs.lookup (runK k (P ++ archiveWith pk es) o fs answers).fs fs.cwd = some (.dir m fs.now)) ∧
    (∀ x, ¬ fs.cwd <+: x → Fs.lookup (runK k (P ++ archiveWith pk es) o fs answers).fs x = Fs.lookup fs x) := by
  have hx : XAgree (runK k (P ++ archiveWith pk es) o fs answers) (Extract.run (archiveWith pk es) o fs answers) :=
    (tool_shift_transparent k .seekable P _ hP o fs answers .test).1
  rw [hx.result, hx.fs]
  exact extract_archiveWith pk es hwf henc hpk o fs answers ho hfs ha

/-- … `lha p`: for each selected entry, in order, the banner and exactly the file's data -/
theorem sfx_print_archiveWith (k : Stream.Kind) (P : Array UInt8) (pk : Packer) (es : List Entry)
    (hok : ∀ e ∈ es, EntryOk e) (henc : Encodable es) (hpk : Packs pk es)
    (hP : PrefixShifts P.toList (archiveWith pk es).toList) (o : Opts) :
    printK k (P ++ archiveWith pk es) o = (es.filter (selected o.filters)).flatMap (printSeg o) := by
  have hp : printK k (P ++ archiveWith pk es) o = Extract.print (archiveWith pk es) o :=
    (tool_shift_transparent k .seekable P _ hP o {} [] .test).2.1
  rw [hp, print_archiveWith pk es hok henc hpk o]

/-- … `lha l|lv|v|vv[q]`: the header walk returns the header of every entry, and the listing is the heading,
one row group per selected entry, the totals of the selected entries -/
theorem sfx_listing_archiveWith (k : Stream.Kind) (P : Array UInt8) (pk : Packer) (es : List Entry)
    (hok : ∀ e ∈ es, EntryOk e) (henc : Encodable es) (hpk : Packs pk es)
    (hP : PrefixShifts P.toList (archiveWith pk es).toList)
    (vl vo : Bool) (quiet now archiveMtime : Nat) (fl : List Bytes) :
    headersK k (P ++ archiveWith pk es) = .ok (es.map (hdrOf pk)) ∧
    listingK k vl vo quiet now archiveMtime fl (P ++ archiveWith pk es) = .ok
      (listHead vl vo quiet ++
       (es.filter (selected fl)).flatMap (fun e => printColumns (columnsFor vl vo) now (hdrOf pk e)) ++
       listTail vl vo quiet now (totalsOf pk archiveMtime (es.filter (selected fl)))) := by
  have hh : headersK k (P ++ archiveWith pk es) = headersK .seekable (archiveWith pk es) :=
    (tool_shift_transparent k .seekable P _ hP {} {} [] .test).2.2.2
  obtain ⟨hs, h1, h2, _, h3⟩ := listing_archiveWith pk es hok henc hpk _ (headers_driver_fuel pk es)
    vl vo quiet now archiveMtime fl
  have h1' : headersK .seekable (archiveWith pk es) = .ok hs := h1
  subst h2
  refine ⟨hh.trans h1', ?_⟩
  unfold listingK
  rw [hh, h1', ← h3]
  rfl

/-- **(3), everything at once, for a well-formed encodable tree**: what `lha x`, `lha p` and the listings do
with the self-extractor `P ++ archiveWith pk es` coming from a source of kind `k` -/
theorem sfx_archive_end_to_end (k : Stream.Kind) (P : Array UInt8) (pk : Packer) (es : List Entry)
    (hwf : WellFormed es) (henc : Encodable es) (hpk : Packs pk es)
    (hP : PrefixShifts P.toList (archiveWith pk es).toList)
    (o : Opts) (fs : Fs.St) (answers : Bytes) (ho : OptsOk o) (hfs : EmptyDir fs) (ha : Access fs)
    (vl vo : Bool) (quiet now archiveMtime : Nat) (fl : List Bytes) :
    ((runK k (P ++ archiveWith pk es) o fs answers).result = true ∧
     ∀ p, p ≠ [] → Fs.lookup (runK k (P ++ archiveWith pk es) o fs answers).fs (fs.cwd ++ p) =
       treeOf fs.now fs.umask es p) ∧
    printK k (P ++ archiveWith pk es) o = (es.filter (selected o.filters)).flatMap (printSeg o) ∧
    listingK k vl vo quiet now archiveMtime fl (P ++ archiveWith pk es) = .ok
      (listHead vl vo quiet ++
       (es.filter (selected fl)).flatMap (fun e => printColumns (columnsFor vl vo) now (hdrOf pk e)) ++
       listTail vl vo quiet now (totalsOf pk archiveMtime (es.filter (selected fl)))) := by
  have hok : ∀ e ∈ es, EntryOk e := fun e he => (allOk_of hwf henc hpk e he).1
  obtain ⟨a, b, _⟩ := sfx_extract_archiveWith k P pk es hwf henc hpk hP o fs answers ho hfs ha
  exact ⟨⟨a, b⟩, sfx_print_archiveWith k P pk es hok henc hpk hP o,
    (sfx_listing_archiveWith k P pk es hok henc hpk hP vl vo quiet now archiveMtime fl).2⟩

/-! ## non-vacuity: `sfx` (MZ stub + `LHA-SFX` + decoy member + padding) in front of the sample tree -/

/-- `sfx` is passed over in front of the archive of EVERY tree (hypotheses on `sfx` alone, kernel-evaluated) -/
theorem sfx_shifts (pk : Packer) (es : List Entry) (hpk : Packs pk es) :
    PrefixShifts sfx.toList (archiveWith pk es).toList :=
  shifts_archiveWith_scan sfx.toList pk es hpk sfx_scan.1 sfx_scan.2 sfx_tail (by decide +kernel)

/-- **`lha x - < sfx.exe`, as an ordinary user**: the self-extractor `sfx ++ archiveOf sampleTree` from a pipe
extracts to the sample tree — read-only directories with their recorded mode and time, files with contents,
modes, times, the link with its target -/
theorem sampleTree_extracts_sfx (k : Stream.Kind) :
    SampleOutcome (runK k (sfx ++ archiveOf sampleTree) {} sampleFs []) := by
  rw [archiveOf_eq]
  obtain ⟨h1, h, _⟩ := sfx_extract_archiveWith k sfx stored sampleTree sampleTree_wf sampleTree_enc
    (packs_stored sampleTree_enc) (sfx_shifts _ _ (packs_stored sampleTree_enc)) {} sampleFs []
    ⟨rfl, rfl, rfl⟩ sampleFs_empty (access_user_022 sampleFs rfl)
  exact sampleOutcome_of _ h1 h

/-- … the same tree packed as `-lzs-` members under level-1 or level-2 headers -/
example (k : Stream.Kind) (l1 : Bool) :
    SampleOutcome (runK k (sfx ++ archiveWith (lzsLit l1) sampleTree) {} sampleFs []) := by
  obtain ⟨h1, h, _⟩ := sfx_extract_archiveWith k sfx (lzsLit l1) sampleTree sampleTree_wf sampleTree_enc
    (sample_packs_lzs l1) (sfx_shifts _ _ (sample_packs_lzs l1)) {} sampleFs []
    ⟨rfl, rfl, rfl⟩ sampleFs_empty (access_user_022 sampleFs rfl)
  exact sampleOutcome_of _ h1 h

/-- `lha pq2 - < sfx.exe`: the contents only -/
example (k : Stream.Kind) : printK k (sfx ++ archiveOf sampleTree) { quiet := 2 } = ListOut.str "hiyyz" := by
  rw [archiveOf_eq, sfx_print_archiveWith k sfx stored sampleTree
    (fun e he => (allOk_of sampleTree_wf sampleTree_enc (packs_stored sampleTree_enc) e he).1)
    sampleTree_enc (packs_stored sampleTree_enc) (sfx_shifts _ _ (packs_stored sampleTree_enc))]
  decide +kernel

/-- `lha l - < sfx.exe`: six headers, one per entry -/
example (k : Stream.Kind) : headersK k (sfx ++ archiveOf sampleTree) = .ok (sampleTree.map (hdrOf stored)) := by
  rw [archiveOf_eq]
  exact (sfx_listing_archiveWith k sfx stored sampleTree
    (fun e he => (allOk_of sampleTree_wf sampleTree_enc (packs_stored sampleTree_enc) e he).1)
    sampleTree_enc (packs_stored sampleTree_enc) (sfx_shifts _ _ (packs_stored sampleTree_enc))
    false false 0 0 0 []).1

-- the same, executed: the four kinds of source
#guard (Stream.Kind.seekable :: otherKinds).all fun k => [sfx, sfxAmiga].all fun p =>
  printK k (p ++ archiveOf sampleTree) { quiet := 2 } == ListOut.str "hiyyz" &&
  xObs (runK k (p ++ archiveOf sampleTree) {} sampleFs []) == xObs (Extract.run (archiveOf sampleTree) {} sampleFs []) &&
  (runK k (p ++ archiveOf sampleTree) {} sampleFs []).result &&
  (headersK k (p ++ archiveOf sampleTree)).toOption.map (·.length) == some 6 &&
  (listingK k false false 0 1700000000 1600000000 [] (p ++ archiveOf sampleTree)).toOption ==
    (listingK .seekable false false 0 1700000000 1600000000 [] (archiveOf sampleTree)).toOption
#guard Fs.lookup (runK .pipe (sfx ++ archiveOf sampleTree) {} sampleFs []).fs [[0x72], [0x61], [0x78]] ==
  some (.file [0x68, 0x69] 0o644 333)

end LhasaV.ToolKinds
