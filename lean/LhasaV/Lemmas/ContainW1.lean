import LhasaV.Lemmas.Contain
/-!
# C10 with `w=DIR` (part 1): resolution relative to a base directory

`file_full_path` prefixes every constructed path with `DIR/`.  The containment proof of
`Contain1`…`Contain7` is relative to `fs.cwd`; here the base is a parameter: `B = c ++ ds`, where
`c` is the current directory and `ds` are components of `DIR` (all of them, or a prefix).

* `rebase B s`: the same file system seen from directory `B`; `Fs.lookup`, `Fs.resolve` and every
  mutator commute with it, so the lemmas about `SafeLinks` carry over to
  `SafeAt B s := SafeLinks (rebase B s)` ("every link visible below `B` is safe").
* `walk`: resolving `ds ++ cs` from `cur` when every existing object on the chain
  `cur ++ pre` (`pre` a non-empty prefix of `ds`) is a directory (`NoFL`): the walk goes through
  directories to `cur ++ ds` and continues with `cs` there, or it fails, or — `cs = []` and the last
  chain element missing — it names the missing object `cur ++ ds`.
* `lands`, `lands_dd`, `lands_chain`: what that means for `Fs.resolvePath` of a relative path.
-/
namespace LhasaV.ContainW
open LhasaV LhasaV.Header LhasaV.Extract LhasaV.GlobFs LhasaV.Contain

/-- the same file system seen from directory `B` -/
def rebase (B : Fs.Path) (s : Fs.St) : Fs.St := { s with cwd := B }

theorem lookup_rebase (B : Fs.Path) (s : Fs.St) (p : Fs.Path) :
    Fs.lookup (rebase B s) p = Fs.lookup s p := rfl
theorem canSearch_rebase (B : Fs.Path) (s : Fs.St) (p : Fs.Path) :
    Fs.canSearch (rebase B s) p = Fs.canSearch s p := rfl
theorem mapAbs_rebase (B : Fs.Path) (s : Fs.St) (t : Bytes) :
    Fs.mapAbs (rebase B s) t = Fs.mapAbs s t := rfl
theorem rebase_cwd (B : Fs.Path) (s : Fs.St) : (rebase B s).cwd = B := rfl

theorem resolve_rebase (B : Fs.Path) (s : Fs.St) (fl : Bool) :
    ∀ (fuel : Nat) (cur : Fs.Path) (cs : List Bytes),
      Fs.resolve (rebase B s) fl fuel cur cs = Fs.resolve s fl fuel cur cs := by
  intro fuel
  induction fuel with
  | zero => intro cur cs; rw [resolve_zero, resolve_zero]
  | succ f ih =>
    intro cur cs
    cases cs with
    | nil => rw [resolve_nil, resolve_nil]
    | cons c rest =>
      rw [Fs.resolve, Fs.resolve]
      simp only [ih, lookup_rebase, canSearch_rebase, mapAbs_rebase]

theorem rebase_setEnt (B : Fs.Path) (s : Fs.St) (k : Fs.Path) (e : Fs.Ent) :
    rebase B (Fs.setEnt s k e) = Fs.setEnt (rebase B s) k e := by
  unfold Fs.setEnt rebase
  split <;> rfl

theorem rebase_delEnt (B : Fs.Path) (s : Fs.St) (k : Fs.Path) :
    rebase B (Fs.delEnt s k) = Fs.delEnt (rebase B s) k := rfl

theorem rebase_logMut (B : Fs.Path) (s : Fs.St) (op : String) (p : Fs.Path) :
    rebase B (Fs.logMut s op p) = Fs.logMut (rebase B s) op p := rfl

theorem rebase_stampParent (B : Fs.Path) (s : Fs.St) (p : Fs.Path) :
    rebase B (Fs.stampParent s p) = Fs.stampParent (rebase B s) p := by
  simp only [Fs.stampParent, lookup_rebase]
  split
  · split
    · rfl
    · exact rebase_setEnt B s _ _
  · rfl

/-- every link visible at or below `B` has a safe target -/
def SafeAt (B : Fs.Path) (s : Fs.St) : Prop := SafeLinks (rebase B s)

theorem safeAt_iff (B : Fs.Path) (s : Fs.St) :
    SafeAt B s ↔ ∀ p t, B <+: p → Fs.lookup s p = some (.link t) → SafeTarget t := Iff.rfl

theorem safeAt_cwd (s : Fs.St) : SafeAt s.cwd s ↔ SafeLinks s := Iff.rfl

theorem SafeAt.mono {B B' : Fs.Path} {s : Fs.St} (h : SafeAt B s) (hb : B <+: B') : SafeAt B' s :=
  fun p t hp hl => h p t (hb.trans hp) hl

theorem safeAt_setEnt (B : Fs.Path) (s : Fs.St) (hs : SafeAt B s) (k : Fs.Path) (e : Fs.Ent)
    (he : OkEnt e) : SafeAt B (Fs.setEnt s k e) := by
  unfold SafeAt; rw [rebase_setEnt]; exact safeLinks_setEnt _ hs k e he

theorem safeAt_delEnt (B : Fs.Path) (s : Fs.St) (hs : SafeAt B s) (k : Fs.Path) :
    SafeAt B (Fs.delEnt s k) := by
  unfold SafeAt; rw [rebase_delEnt]; exact safeLinks_delEnt _ hs k

theorem safeAt_stampParent (B : Fs.Path) (s : Fs.St) (hs : SafeAt B s) (p : Fs.Path) :
    SafeAt B (Fs.stampParent s p) := by
  unfold SafeAt; rw [rebase_stampParent]; exact safeLinks_stampParent _ hs p

/-- the walk stays below `B` (`Contain.resolve_below` with the base as a parameter) -/
theorem resolve_below_at (B : Fs.Path) (s : Fs.St) (hs : SafeAt B s) (fl : Bool) (fuel : Nat)
    (cur : Fs.Path) (cs : List Bytes) (q : Fs.Path) (hcur : B <+: cur)
    (hnd : ∀ c ∈ cs, c ≠ [0x2e, 0x2e]) (h : Fs.resolve s fl fuel cur cs = .ok q) : B <+: q :=
  resolve_below (rebase B s) hs fl fuel cur cs q hcur hnd (by rw [resolve_rebase]; exact h)

/-- a walk ending in ".." ends on an existing directory (`Contain.resolve_dd` at base `B`) -/
theorem resolve_dd_at (B : Fs.Path) (s : Fs.St) (hs : SafeAt B s) (fl : Bool) (fuel : Nat)
    (cur : Fs.Path) (cs : List Bytes) (q : Fs.Path) (hcur : B <+: cur) (hd1 : IsDir s cur)
    (hd2 : IsDir s cur.dropLast) (hnd : ∀ c ∈ cs, c ≠ [0x2e, 0x2e])
    (h : Fs.resolve s fl fuel cur (cs ++ [[0x2e, 0x2e]]) = .ok q) : IsDir s q :=
  resolve_dd (rebase B s) hs fl fuel cur cs q hcur hd1 hd2 hnd (by rw [resolve_rebase]; exact h)

/-! ## the chain `cur ++ pre`, `pre` a non-empty prefix of `ds` -/

/-- what is stored at `x`, if anything, is a directory (no file, no link) -/
def NoFL (s : Fs.St) (x : Fs.Path) : Prop := ∀ e, Fs.lookup s x = some e → ∃ m t, e = .dir m t

theorem IsDir.noFL {s : Fs.St} {x : Fs.Path} (h : IsDir s x) : NoFL s x := by
  obtain ⟨m, t, hl⟩ := h
  intro e he; rw [hl] at he; injection he with he; exact ⟨m, t, he.symm⟩

/-- the three ways a walk over `ds ++ cs` from `cur` can go when the chain is link- and file-free -/
inductive Walk (s : Fs.St) (fl : Bool) (cur : Fs.Path) (ds cs : List Bytes) (r : Fs.RR) : Prop
  | through (n : Nat) (h : r = Fs.resolve s fl n (cur ++ ds) cs)
      (hd : ∀ pre, pre <+: ds → pre ≠ [] → IsDir s (cur ++ pre))
  | fail (h : r = .eother ∨ r = .enoent)
  | fresh (hcs : cs = []) (hne : ds ≠ []) (h : r = .ok (cur ++ ds))
      (hl : Fs.lookup s (cur ++ ds) = none)

theorem prefix_cons_cases {x : Bytes} {ds pre : List Bytes} (h : pre <+: x :: ds) (hne : pre ≠ []) :
    ∃ pre', pre = x :: pre' ∧ pre' <+: ds := by
  cases pre with
  | nil => exact absurd rfl hne
  | cons y pre' =>
    obtain ⟨rfl, h'⟩ := List.cons_prefix_cons.1 h
    exact ⟨pre', rfl, h'⟩

theorem walk (s : Fs.St) (fl : Bool) : ∀ (ds cs : List Bytes) (fuel : Nat) (cur : Fs.Path),
    (∀ x ∈ ds, Good x) → (∀ pre, pre <+: ds → pre ≠ [] → NoFL s (cur ++ pre)) →
    Walk s fl cur ds cs (Fs.resolve s fl fuel cur (ds ++ cs)) := by
  intro ds
  induction ds with
  | nil =>
    intro cs fuel cur _ _
    exact .through fuel (by simp) (fun pre hp hne => absurd (List.prefix_nil.1 hp) hne)
  | cons x ds ih =>
    intro cs fuel cur hg hn
    have hx : Good x := hg x (by simp)
    rw [List.cons_append]
    cases fuel with
    | zero => exact .fail (Or.inl (resolve_zero s fl cur _))
    | succ f =>
      cases hs : Fs.canSearch s cur with
      | false => exact .fail (Or.inl (resolve_nosearch s fl f cur x _ hx hs))
      | true =>
        cases hl : Fs.lookup s (cur ++ [x]) with
        | none =>
          rw [resolve_none s fl f cur x _ hx hs hl]
          by_cases hr : ds ++ cs = []
          · rw [if_pos hr]
            obtain ⟨hd0, hc0⟩ := List.append_eq_nil_iff.1 hr
            subst hd0
            exact .fresh hc0 (by simp) rfl hl
          · rw [if_neg hr]; exact .fail (Or.inr rfl)
        | some e =>
          obtain ⟨m, t, rfl⟩ := hn [x] (List.cons_prefix_cons.2 ⟨rfl, List.nil_prefix⟩) (by simp) e hl
          rw [resolve_dir s fl f cur x _ hx hs m t hl]
          have hn' : ∀ pre, pre <+: ds → pre ≠ [] → NoFL s ((cur ++ [x]) ++ pre) := by
            intro pre hp hne
            have := hn (x :: pre) (List.cons_prefix_cons.2 ⟨rfl, hp⟩) (by simp)
            simpa using this
          have e1 : cur ++ [x] ++ ds = cur ++ x :: ds := by simp
          rcases ih cs f (cur ++ [x]) (fun y hy => hg y (by simp [hy])) hn' with
            ⟨n, h, hd⟩ | h | ⟨hcs, hne, h, hl'⟩
          · refine .through n (by rw [h, e1]) ?_
            intro pre hp hne
            obtain ⟨pre', rfl, hp'⟩ := prefix_cons_cases hp hne
            by_cases h0 : pre' = []
            · subst h0; exact ⟨m, t, hl⟩
            · have := hd pre' hp' h0
              simpa using this
          · exact .fail h
          · exact .fresh hcs (by simp) (by rw [h, e1]) (by rw [← e1]; exact hl')

/-! ## relative paths -/

theorem resolvePath_rel {s : Fs.St} {fl : Bool} {p : Bytes} {q : Fs.Path}
    (hrel : p.head? ≠ some 0x2f) (h : Fs.resolvePath s fl p = some q) :
    Fs.resolve s fl 64 s.cwd (comps p) = .ok q := by
  have hne : p ≠ [] := by
    intro h0; subst h0; rw [resolvePath_nil] at h; cases h
  unfold Fs.resolvePath at h
  rw [resolveRR_rel s fl p hrel hne] at h
  cases hres : Fs.resolve s fl 64 s.cwd (comps p) with
  | ok r => rw [hres] at h; simp at h; rw [h]
  | enoent => rw [hres] at h; simp at h
  | eother => rw [hres] at h; simp at h

theorem prefix_chain {ds pre pre' : List Bytes} (h1 : pre' <+: pre) (h2 : pre <+: ds) : pre' <+: ds :=
  h1.trans h2

/-- **a path whose components begin with all of `ds`** resolves below `c ++ ds`; and if more
components follow, it resolves only when the whole chain consists of directories -/
theorem lands (s : Fs.St) (c : Fs.Path) (ds : List Bytes) (hc : s.cwd = c)
    (hs : SafeAt (c ++ ds) s) (hg : ∀ x ∈ ds, Good x)
    (hch : ∀ pre, pre <+: ds → pre ≠ [] → NoFL s (c ++ pre))
    (p : Bytes) (hrel : p.head? ≠ some 0x2f) (cs : List Bytes) (hp : comps p = ds ++ cs)
    (hnd : ∀ x ∈ cs, x ≠ [0x2e, 0x2e]) (fl : Bool) (q : Fs.Path)
    (h : Fs.resolvePath s fl p = some q) :
    (c ++ ds) <+: q ∧ (cs ≠ [] → ∀ pre, pre <+: ds → pre ≠ [] → IsDir s (c ++ pre)) := by
  have hr := resolvePath_rel hrel h
  rw [hc, hp] at hr
  rcases walk s fl ds cs 64 c hg hch with ⟨n, h1, hd⟩ | h1 | ⟨hcs, _, h1, _⟩
  · rw [hr] at h1
    exact ⟨resolve_below_at (c ++ ds) s hs fl n (c ++ ds) cs q (List.prefix_refl _) hnd h1.symm,
      fun _ => hd⟩
  · rw [hr] at h1; rcases h1 with h1 | h1 <;> cases h1
  · rw [hr] at h1; injection h1 with h1
    exact ⟨by rw [h1]; exact List.prefix_refl _, fun hne => absurd hcs hne⟩

/-- the directory the chain ends in, and its parent, are directories once the chain is -/
theorem base_dirs (s : Fs.St) (c : Fs.Path) (ds : List Bytes) (hdC : IsDir s c)
    (hdP : IsDir s c.dropLast) (hd : ∀ pre, pre <+: ds → pre ≠ [] → IsDir s (c ++ pre)) :
    IsDir s (c ++ ds) ∧ IsDir s (c ++ ds).dropLast := by
  by_cases h0 : ds = []
  · subst h0; simpa using ⟨hdC, hdP⟩
  · refine ⟨hd ds (List.prefix_refl _) h0, ?_⟩
    rw [List.dropLast_append_of_ne_nil h0]
    by_cases h1 : ds.dropLast = []
    · rw [h1]; simpa using hdC
    · exact hd _ (List.dropLast_prefix ds) h1

/-- **a path that continues, after `ds`, with ".."-free components and a final ".."** resolves
(when it does) to an existing directory -/
theorem lands_dd (s : Fs.St) (c : Fs.Path) (ds : List Bytes) (hc : s.cwd = c)
    (hs : SafeAt (c ++ ds) s) (hg : ∀ x ∈ ds, Good x)
    (hch : ∀ pre, pre <+: ds → pre ≠ [] → NoFL s (c ++ pre))
    (hdC : IsDir s c) (hdP : IsDir s c.dropLast)
    (p : Bytes) (hrel : p.head? ≠ some 0x2f) (cs : List Bytes)
    (hp : comps p = ds ++ (cs ++ [[0x2e, 0x2e]]))
    (hnd : ∀ x ∈ cs, x ≠ [0x2e, 0x2e]) (fl : Bool) (q : Fs.Path)
    (h : Fs.resolvePath s fl p = some q) : IsDir s q := by
  have hr := resolvePath_rel hrel h
  rw [hc, hp] at hr
  rcases walk s fl ds (cs ++ [[0x2e, 0x2e]]) 64 c hg hch with ⟨n, h1, hd⟩ | h1 | ⟨hcs, _, _, _⟩
  · rw [hr] at h1
    obtain ⟨b1, b2⟩ := base_dirs s c ds hdC hdP hd
    exact resolve_dd_at (c ++ ds) s hs fl n (c ++ ds) cs q (List.prefix_refl _) b1 b2 hnd h1.symm
  · rw [hr] at h1; rcases h1 with h1 | h1 <;> cases h1
  · simp at hcs

/-- **a path whose components are a prefix `pre` of `ds`** resolves (when it does) to `c ++ pre` -/
theorem lands_chain (s : Fs.St) (c : Fs.Path) (ds : List Bytes) (hc : s.cwd = c)
    (hg : ∀ x ∈ ds, Good x) (hch : ∀ pre, pre <+: ds → pre ≠ [] → NoFL s (c ++ pre))
    (p : Bytes) (hrel : p.head? ≠ some 0x2f) (pre : List Bytes) (hpre : pre <+: ds)
    (hp : comps p = pre) (fl : Bool) (q : Fs.Path)
    (h : Fs.resolvePath s fl p = some q) : q = c ++ pre := by
  have hr := resolvePath_rel hrel h
  rw [hc, hp] at hr
  have hg' : ∀ x ∈ pre, Good x := fun x hx => hg x (hpre.subset hx)
  have hch' : ∀ pre', pre' <+: pre → pre' ≠ [] → NoFL s (c ++ pre') :=
    fun pre' h1 h2 => hch pre' (h1.trans hpre) h2
  have hw := walk s fl pre [] 64 c hg' hch'
  rw [List.append_nil, hr] at hw
  rcases hw with ⟨n, h1, _⟩ | h1 | ⟨_, _, h1, _⟩
  · cases n with
    | zero => rw [resolve_zero] at h1; cases h1
    | succ n => rw [resolve_nil] at h1; injection h1
  · rcases h1 with h1 | h1 <;> cases h1
  · injection h1

end LhasaV.ContainW
