import LhasaV.Lemmas.LhNewRT3
/-!
Round trip of the `lh_new_decoder.c` model, part 4: `start_new_block`, the block loop,
and one command (layers 5 and 6).
-/
namespace LhasaV.LhNewRT
open LhasaV LhasaV.Spec LhasaV.Spec.LhNewEnc LhasaV.Spec.Lz77 LhasaV.LzRoundTrip LhasaV.LhNewCmd

/-! ## state invariants -/

/-- what holds of the decoder state between any two commands: reader invariant, the ring is the
sliding window of the output so far, the three tree arrays have their full size -/
structure Base (p : LhNew.Params) (s : LhNew.St) (out : List UInt8) : Prop where
  inv : Bits.Inv s.bits
  win : WinRel p.ringSize 0x20 s.ring s.pos out
  tsz : s.tempTree.size = p.tempTreeCap
  csz : s.codeTree.size = p.codeTreeCap
  osz : s.offsetTree.size = p.offsetTreeCap

/-- inside a block: the code and offset trees realise the block's tables -/
structure BlkInv (p : LhNew.Params) (s : LhNew.St) (ct ot : Table) (out : List UInt8) : Prop where
  base : Base p s out
  ctf : TreeFor p.leafBit s.codeTree ct
  otf : TreeFor p.leafBit s.offsetTree ot

/-! ## Layer 5: `start_new_block` and the block loop -/

theorem blockWf_parts (f : Fmt) (b : Block) (h : blockWf f b = true) :
    b.cmds.length < 65536 ∧ tempWf f b.temp b.skip = true ∧ codeWf f b.temp b.code = true ∧
    b.off.wf f.maxOffsetCodes f.offsetBits = true ∧
    (∀ c ∈ b.cmds, cmdWf f b.code.table b.off c = true) := by
  simp only [blockWf, Bool.and_eq_true, decide_eq_true_eq] at h
  obtain ⟨⟨⟨⟨h1, h2⟩, h3⟩, h4⟩, h5⟩ := h
  exact ⟨h1, h2, h3, h4, fun c hc => List.all_eq_true.mp h5 c hc⟩

/-- **Layer 5**: `start_new_block` on the header of a well-formed block -/
theorem startNewBlock_spec (p : LhNew.Params) (hp : RTParams p) (s : LhNew.St) (b : Block)
    (out : List UInt8) (rest : List Bool) (hB : Base p s out)
    (hwf : blockWf (fmtOf p) b = true)
    (hs : Bits.stream s.bits = blockBits (fmtOf p) b ++ rest) :
    ∃ s', LhNew.startNewBlock p s = .ok (true, s') ∧ BlkInv p s' b.code.table b.off out ∧
      s'.blockRemaining = b.cmds.length ∧
      Bits.stream s'.bits = b.cmds.flatMap (cmdBits (fmtOf p) b.code.table b.off) ++ rest := by
  obtain ⟨w1, w2, w3, w4, -⟩ := blockWf_parts _ b hwf
  obtain ⟨hinv, hwin, htsz, hcsz, hosz⟩ := hB
  simp only [blockBits, List.append_assoc] at hs
  obtain ⟨h1, h2, h3⟩ := readBits_bitsN s.bits 16 b.cmds.length _ hinv (by decide) (by omega) hs
  obtain ⟨tt, r1, a1, a2, a3, a4, a5⟩ := readTempTable_spec p hp
    { s with bits := (s.bits.readBits 16).2, blockRemaining := b.cmds.length } b.temp b.skip _ w2
    htsz h2 h3
  obtain ⟨ct, r2, b1, b2, b3, b4, b5⟩ := readCodeTable_spec p hp
    { s with bits := r1, blockRemaining := b.cmds.length, tempTree := tt } b.temp b.code _ a3 w3
    hcsz a4 a5
  obtain ⟨ot, r3, c1, c2, c3, c4, c5⟩ := readOffsetTable_spec p hp
    { s with bits := r2, blockRemaining := b.cmds.length, tempTree := tt, codeTree := ct } b.off _
    w4 hosz b4 b5
  refine ⟨{ s with bits := r3, blockRemaining := b.cmds.length, tempTree := tt, codeTree := ct,
                   offsetTree := ot }, ?_, ⟨⟨c4, hwin, a2, b2, c2⟩, b3, c3⟩, rfl, c5⟩
  unfold LhNew.startNewBlock
  simp only [h1, a1, Res.ok_bind, Bool.not_true, Bool.false_eq_true, if_false, b1, c1]

/-- at the end of the stream `start_new_block` reports the end of the input -/
theorem startNewBlock_end (p : LhNew.Params) (s : LhNew.St) (hi : Bits.Inv s.bits)
    (hlen : (Bits.stream s.bits).length < 16) :
    ∃ s', LhNew.startNewBlock p s = .ok (false, s') := by
  obtain ⟨h1, -, -⟩ := Bits.readBits_none s.bits 16 hi (by decide) hlen
  unfold LhNew.startNewBlock
  simp only [h1]
  exact ⟨_, rfl⟩

theorem blockLoop_nonzero (p : LhNew.Params) (fuel : Nat) (s : LhNew.St)
    (h : s.blockRemaining ≠ 0) : LhNew.blockLoop p (fuel + 1) s = .ok (true, s) := by
  simp only [LhNew.blockLoop, h, if_false]

theorem blockLoop_zero (p : LhNew.Params) (fuel : Nat) (s s' : LhNew.St)
    (h : s.blockRemaining = 0) (hs : LhNew.startNewBlock p s = .ok (true, s')) :
    LhNew.blockLoop p (fuel + 1) s = LhNew.blockLoop p fuel s' := by
  simp only [LhNew.blockLoop, h, if_true, hs, Res.ok_bind, Bool.not_true, Bool.false_eq_true,
    if_false]

theorem blockLoop_end (p : LhNew.Params) (fuel : Nat) (s s' : LhNew.St)
    (h : s.blockRemaining = 0) (hs : LhNew.startNewBlock p s = .ok (false, s')) :
    LhNew.blockLoop p (fuel + 1) s = .ok (false, s') := by
  simp only [LhNew.blockLoop, h, if_true, hs, Res.ok_bind, Bool.not_false, if_true]

/-- the part of `lha_lh_new_read` after the block loop -/
def readK (p : LhNew.Params) (b : Bool × LhNew.St) : Res (List UInt8 × LhNew.St) :=
  if !b.1 then .ok ([], b.2) else
  let s := { b.2 with blockRemaining := b.2.blockRemaining - 1 }
  (Tree.readFromTree p.leafBit s.codeTree s.bits) >>= fun t =>
  match t.1 with
  | none => .ok ([], { s with bits := t.2 })
  | some code =>
    if code < 256 then
      if s.pos < s.ring.size then
        .ok ([UInt8.ofNat code],
             { s with bits := t.2, ring := s.ring.setIfInBounds s.pos (UInt8.ofNat code),
                      pos := (s.pos + 1) % p.ringSize })
      else .fault "lh_new: ringbuf[ringbuf_pos] write"
    else
      let cc : Option Nat × Bits :=
        if p.lhark then LhNew.lharkCopyCount p t.2 code
        else (some (code - 256 + p.copyThreshold), t.2)
      match cc.1 with
      | none => .ok ([], { s with bits := cc.2 })
      | some count =>
        (LhNew.readOffsetCode p { s with bits := cc.2 }) >>= fun o =>
        match o.1 with
        | none => .ok ([], { s with bits := o.2 })
        | some off =>
          if off < 0 then .ok ([], { s with bits := o.2 })
          else
            let start := (s.pos + p.ringSize + 4294967296 - off.toNat - 1) % p.ringSize
            (Ring.copyLoop p.ringSize count start s.ring s.pos []) >>= fun r =>
            .ok (r.2.2.reverse, { s with bits := o.2, ring := r.1, pos := r.2.1 })

theorem read_eq (p : LhNew.Params) (s : LhNew.St) :
    LhNew.read p s = ((LhNew.blockLoop p (LhNew.bitsLeft s.bits / 16 + 2) s) >>= readK p) := rfl

theorem readK_false (p : LhNew.Params) (s : LhNew.St) : readK p (false, s) = .ok ([], s) := by
  simp [readK]

/-! ## the output after a prefix -/

/-- what the commands append to the output `out` -/
def tailFrom (cs : List WCmd) (out : List UInt8) : List UInt8 :=
  (expandWinFrom 0x20 cs out).drop out.length

theorem copyWin_prefix (fill : UInt8) (n d : Nat) (out : List UInt8) :
    ∃ t, copyWin fill n d out = out ++ t := by
  induction n generalizing out with
  | zero => exact ⟨[], by simp [copyWin]⟩
  | succ n ih =>
    obtain ⟨t, ht⟩ := ih (out ++ [winByte fill out d])
    exact ⟨winByte fill out d :: t, by rw [copyWin, ht]; simp⟩

theorem expandWinFrom_prefix (fill : UInt8) (cs : List WCmd) (out : List UInt8) :
    ∃ t, expandWinFrom fill cs out = out ++ t := by
  induction cs generalizing out with
  | nil => exact ⟨[], by simp [expandWinFrom]⟩
  | cons c cs ih =>
    cases c with
    | lit b =>
      obtain ⟨t, ht⟩ := ih (out ++ [b])
      exact ⟨b :: t, by rw [expandWinFrom, ht]; simp⟩
    | copy d n =>
      obtain ⟨u, hu⟩ := copyWin_prefix fill n d out
      obtain ⟨t, ht⟩ := ih (copyWin fill n d out)
      exact ⟨u ++ t, by rw [expandWinFrom, ht, hu]; simp⟩

theorem expandWinFrom_eq (cs : List WCmd) (out : List UInt8) :
    expandWinFrom 0x20 cs out = out ++ tailFrom cs out := by
  obtain ⟨t, ht⟩ := expandWinFrom_prefix 0x20 cs out
  rw [tailFrom, ht, List.drop_left]

theorem tailFrom_nil (out : List UInt8) : tailFrom [] out = [] := by
  simp [tailFrom, expandWinFrom]

theorem tailFrom_lit (b : UInt8) (cs : List WCmd) (out : List UInt8) :
    tailFrom (.lit b :: cs) out = [b] ++ tailFrom cs (out ++ [b]) := by
  rw [tailFrom, expandWinFrom, expandWinFrom_eq, List.append_assoc, List.drop_left]

theorem tailFrom_copy (d n : Nat) (cs : List WCmd) (out new : List UInt8)
    (h : copyWin 0x20 n d out = out ++ new) :
    tailFrom (.copy d n :: cs) out = new ++ tailFrom cs (out ++ new) := by
  rw [tailFrom, expandWinFrom, h, expandWinFrom_eq, List.append_assoc, List.drop_left]

end LhasaV.LhNewRT
