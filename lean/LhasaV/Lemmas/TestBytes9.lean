import LhasaV.Lemmas.TestBytes8
import LhasaV.Lemmas.ToolKinds
/-!
# C07 on bytes (part 9): `lha x` (`Messages.run .extract`) along `flatI pk its`

* `step_x_ind`: whatever `extract_archived_file` does — overwrite check, prompt, parents, the
  file-system call — the reader afterwards is the reader before or the reader after one
  `lha_reader_extract`;
* `extractEntry_bad`: on a file member whose decoded content does not match the recorded length
  and CRC (`goodOf = false`), with the overwrite policy `all` (option `f`, so that the member cannot
  be skipped at the prompt): the function reports FAILURE or the process leaves through `exit(-1)`;
  `readerExtract_bad`: and when the output file could be created, exactly the decoded (damaged)
  bytes are written to it — the model, like the tool, does not remove the file;
* `loop_x_prov`: every header in the trace of the run is the header of a member of the archive;
* `loop_x_bad`: a run over an archive with a selected bad file member ends with the result flag
  cleared or through `exit(-1)` (C13 `tool_loops_end_in_fuel`: the fuel does not cut the run short).
-/
set_option linter.unusedSimpArgs false
namespace LhasaV.TestBytes
open LhasaV LhasaV.Header LhasaV.Extract LhasaV.GlobFs LhasaV.Contain LhasaV.ExtractTree
open LhasaV.ExtractTree.Sample LhasaV.Spec.HeaderEnc LhasaV.Reader LhasaV.ReaderIndep LhasaV.ArchiveOf
open LhasaV.PrintList LhasaV.MacProps LhasaV.Messages LhasaV.MessagesProps

/-! ## the reader through `extract_archived_file` -/

theorem mreaderExtract_ind (P : Reader.St → Prop) (rd : Reader.St) (h0 : P rd)
    (h1 : ∀ b, P (Reader.extract rd b).2) (fs : Fs.St) (fn : Bytes) :
    P (Messages.readerExtract rd fs fn).2.1 := by
  unfold Messages.readerExtract
  split
  · split
    · exact h1 false
    · exact readerExtract_ind P rd h0 h1 _ _
  · exact readerExtract_ind P rd h0 h1 _ _

theorem extractBody_ind (P : Reader.St → Prop) (s : XSt) (h : Hdr) (err : Bytes) (h0 : P s.rd)
    (h1 : ∀ b, P (Reader.extract s.rd b).2) : P (extractBody s h err).2.rd := by
  unfold extractBody
  dsimp only
  split
  · exact h0
  · split
    · exact h0
    · exact mreaderExtract_ind P s.rd h0 h1 _ _

theorem extractEntry_ind (P : Reader.St → Prop) (s : XSt) (h : Hdr) (h0 : P s.rd)
    (h1 : ∀ b, P (Reader.extract s.rd b).2) : P (extractEntry s h).2.rd := by
  unfold extractEntry
  dsimp only
  split
  · split
    · exact h0
    · exact extractBody_ind P s h _ h0 h1
    · split
      · exact h0
      · exact extractBody_ind P _ h _ h0 h1
      · exact h0
  · exact extractBody_ind P s h _ h0 h1

/-- one iteration of `extract_archive` (or of its dry run): the reader before, or after one
`lha_reader_extract` -/
theorem step_x_ind (P : Reader.St → Prop) (s : Messages.St) (h : Hdr) (h0 : P s.x.rd)
    (h1 : ∀ b, P (Reader.extract s.x.rd b).2) : P (Messages.step .extract s h).x.rd := by
  unfold Messages.step
  dsimp only
  split
  · exact h0
  · exact extractEntry_ind P s.x h h0 h1

/-! ## options along the run -/

/-- the wildcard arguments, "not a dry run", overwrite policy `all` -/
structure OptsAll (fl : List Bytes) (o : Opts) : Prop where
  fl : o.filters = fl
  all : o.overwrite = .all
  dry : o.dryRun = false

theorem confirm_all (fn : Bytes) (n : Nat) (ans err : Bytes) :
    confirm fn (n + 1) .all ans err = { answer := some true, policy := .all, rest := ans, err := err } := rfl

theorem extractEntry_opts_all (s : XSt) (h : Hdr) (ha : s.opts.overwrite = .all) :
    (extractEntry s h).2.opts = s.opts := by
  obtain ⟨rd, fs, o, ans⟩ := s
  obtain ⟨ow, q, d, ep, up, f⟩ := o
  simp only at ha
  subst ha
  unfold extractEntry
  dsimp only
  rw [confirm_all]
  dsimp only
  repeat' split
  all_goals first | rfl | (rw [extractBody_opts])

theorem step_optsAll {fl : List Bytes} (s : Messages.St) (h : Hdr) (ho : OptsAll fl s.x.opts) :
    OptsAll fl (Messages.step .extract s h).x.opts := by
  have : (Messages.step .extract s h).x.opts = s.x.opts := by
    unfold Messages.step
    simp only [ho.dry, Bool.false_eq_true, if_false, record]
    exact extractEntry_opts_all s.x h ho.all
  rw [this]; exact ho

/-! ## a bad file member -/

section bad
variable {pk : Packer} {A : Array UInt8} {p : Fs.Path} {data : Bytes} {perms : Option Nat} {t : Nat}
  {comp : Bytes} {tl : List Item} {c : HObj} {rd : Reader.St}

/-- **`lha_reader_extract` with its file-system half on a bad file member**: the result is
FAILURE; if the output file cannot be created nothing is written, otherwise EXACTLY the decoded
bytes are written to it (and it is not removed, its time not set) -/
theorem readerExtract_bad (hn : rd.currType = .normal) (hc : rd.curr = some c)
    (hh : c.h = hdrOf pk (.file p data perms t))
    (hg : GotI pk A (⟨.file p data perms t, comp⟩ :: tl) rd.basic)
    (hok : ItemsOk pk (⟨.file p data perms t, comp⟩ :: tl)) (hbad : goodOf pk data comp = false)
    (fs : Fs.St) (fn : Bytes) :
    Extract.readerExtract rd fs fn =
      match (Fs.archFopen fs fn (if hasFlag c.h Gen.flagUnixPerms then some c.h.unixPerms else none)).1 with
      | none => (false, (Reader.extract rd false).2,
          (Fs.archFopen fs fn (if hasFlag c.h Gen.flagUnixPerms then some c.h.unixPerms else none)).2)
      | some q => (false, (Reader.extract rd true).2,
          Fs.writeAll (Fs.archFopen fs fn (if hasFlag c.h Gen.flagUnixPerms then some c.h.unixPerms else none)).2
            q (decodedOf pk data comp)) := by
  obtain ⟨h1, hnd, hres⟩ := decodeResult_item hn hc hh hg hok
  have hm : (c.h.method != "-lhd-".toUTF8.toList) = true := by rw [bne_iff_ne]; exact hnd
  have hx : (Reader.extract rd true).1 = (false, decodedOf pk data comp) := by
    rw [extract_eq_decodeResult hn hc hnd, hres, hbad]
  unfold Extract.readerExtract
  simp only [hn, hc, hm, if_true, h1, Bool.not_true, Bool.false_eq_true, if_false]
  split
  · rename_i hf; simp only [hf]
  · rename_i q hf
    simp only [hf, hx, Bool.false_eq_true, false_and, if_false]

theorem mreaderExtract_bad (hn : rd.currType = .normal) (hc : rd.curr = some c)
    (hh : c.h = hdrOf pk (.file p data perms t))
    (hg : GotI pk A (⟨.file p data perms t, comp⟩ :: tl) rd.basic)
    (hok : ItemsOk pk (⟨.file p data perms t, comp⟩ :: tl)) (hbad : goodOf pk data comp = false)
    (fs : Fs.St) (fn : Bytes) : (Messages.readerExtract rd fs fn).1 = false := by
  unfold Messages.readerExtract
  simp only [hn, hc]
  split
  · rfl
  · rw [readerExtract_bad hn hc hh hg hok hbad]
    split <;> rfl

theorem hdr_file_notDir (hh : c.h = hdrOf pk (.file p data perms t)) (hpk : PackOk pk data) :
    isDirEntry c.h = false ∧ c.h.symlinkTarget = none := by
  have hmm : c.h.method = (pk.pack data).1 := by rw [hh]; rfl
  have hnd : (c.h.method == "-lhd-".toUTF8.toList) = false := by
    rw [beq_eq_false_iff_ne, hmm, ← lhdM_eq]; exact hpk.notDir
  refine ⟨by unfold isDirEntry; rw [hnd]; rfl, by rw [hh]; rfl⟩

theorem extractBody_bad (s : XSt) (err : Bytes) (hn : s.rd.currType = .normal) (hc : s.rd.curr = some c)
    (hh : c.h = hdrOf pk (.file p data perms t))
    (hg : GotI pk A (⟨.file p data perms t, comp⟩ :: tl) s.rd.basic)
    (hok : ItemsOk pk (⟨.file p data perms t, comp⟩ :: tl)) (hbad : goodOf pk data comp = false) :
    (extractBody s c.h err).1.ok = false := by
  obtain ⟨hd1, _⟩ := hdr_file_notDir hh hok.1.2.2.1
  unfold extractBody
  dsimp only
  rw [hd1]
  simp only [Bool.false_eq_true, and_false, if_false]
  split
  · rfl
  · exact mreaderExtract_bad hn hc hh hg hok hbad _ _

/-- **`extract_archived_file` on a bad file member under option `f`**: FAILURE, or `exit(-1)` -/
theorem extractEntry_bad (s : XSt) (hn : s.rd.currType = .normal) (hc : s.rd.curr = some c)
    (hh : c.h = hdrOf pk (.file p data perms t))
    (hg : GotI pk A (⟨.file p data perms t, comp⟩ :: tl) s.rd.basic)
    (hok : ItemsOk pk (⟨.file p data perms t, comp⟩ :: tl)) (hbad : goodOf pk data comp = false)
    (ha : s.opts.overwrite = .all) :
    (extractEntry s c.h).1.ok = false ∨ (extractEntry s c.h).1.abort = true := by
  obtain ⟨hd1, hd2⟩ := hdr_file_notDir hh hok.1.2.2.1
  unfold extractEntry
  dsimp only
  rw [hd1, hd2, ha, confirm_all]
  simp only [Bool.not_false, Option.isNone_none, and_self, if_true]
  split
  · exact Or.inr rfl
  · exact Or.inl (extractBody_bad s _ hn hc hh hg hok hbad)
  · exact Or.inl (extractBody_bad _ _ hn hc hh hg hok hbad)

end bad

/-! ## the loop -/

theorem itemsOk_restOf {pk : Packer} {its : List Item} (h : ItemsOk pk its) (rd : Reader.St) :
    ItemsOk pk (restOf its rd) := by
  unfold restOf
  split
  · cases its with
    | nil => exact h
    | cons it tl => exact h.tail
  · exact h

theorem mem_restOf {its : List Item} {rd : Reader.St} {it : Item} (h : it ∈ restOf its rd) : it ∈ its := by
  unfold restOf at h
  split at h
  · exact List.mem_of_mem_tail h
  · exact h

/-- **every header in the trace of `lha x` is the header of a member** (or was in the trace before) -/
theorem loop_x_prov (pk : Packer) (A : Array UInt8) (H : Hdr → Prop) : ∀ (fuel : Nat) (its : List Item)
    (s : Messages.St), ItemsOk pk its → (∀ it ∈ its, H (hdrOf pk it.e)) → XInv pk A H its s.x.rd →
    (∀ t ∈ s.trace, H t.1) → ∀ t ∈ (loop .extract fuel s).trace, H t.1 := by
  intro fuel
  induction fuel with
  | zero => intro its s _ _ _ ht; exact ht
  | succ n ih =>
    intro its s hok hH hx ht
    unfold loop
    split
    · exact ht
    · rcases x_next hok hH hx with ⟨rd', hn, _⟩ | ⟨c, rd', hn, hp⟩
      · rw [hn]; exact ht
      · rw [hn]
        dsimp only
        obtain ⟨a0, a1⟩ := x_after hok hp
        have hok' := itemsOk_restOf hok rd'
        have hH' : ∀ it ∈ restOf its rd', H (hdrOf pk it.e) := fun it hit => hH it (mem_restOf hit)
        split
        · exact ih _ _ hok' hH' a0 ht
        · apply ih _ _ hok' hH'
          · exact step_x_ind _ { s with x := { s.x with rd := rd' } } c.h a0 a1
          · obtain ⟨v, hv⟩ := step_trace .extract { s with x := { s.x with rd := rd' } } c.h
            rw [hv]
            intro t htm
            rcases List.mem_cons.1 htm with rfl | htm
            · exact hp.h
            · exact ht t htm

/-- the run failed: the result flag is cleared, or the process left through `exit(-1)` -/
def Failed (s : Messages.St) : Prop := s.aborted = true ∨ s.result = false

theorem step_result (cmd : Cmd) (s : Messages.St) (h : Hdr) (hr : s.result = false) :
    (Messages.step cmd s h).result = false := by
  unfold Messages.step
  split
  · simp [record, hr]
  · split <;> simp [record, hr]

theorem failed_loop (cmd : Cmd) : ∀ (fuel : Nat) (s : Messages.St), Failed s → Failed (loop cmd fuel s) := by
  intro fuel
  induction fuel with
  | zero => intro s h; exact h
  | succ n ih =>
    intro s h
    unfold loop
    split
    · exact h
    · rename_i hab
      have hr : s.result = false := by
        rcases h with h | h
        · exact absurd h hab
        · exact h
      split
      · exact Or.inr hr
      · exact Or.inr hr
      · split
        · exact ih _ (Or.inr hr)
        · exact ih _ (Or.inr (step_result cmd _ _ hr))

/-- a file member whose decoded content does not have the recorded length and CRC-16 -/
def BadFile (pk : Packer) (it : Item) : Prop :=
  ∃ p data perms t, it.e = .file p data perms t ∧ goodOf pk data it.comp = false

/-- **`lha xf` over an archive with a selected bad file member fails** — whatever the file system
is and whatever else the archive holds -/
theorem loop_x_bad (pk : Packer) (A : Array UInt8) (fl : List Bytes) : ∀ (fuel : Nat) (its : List Item)
    (s : Messages.St), ItemsOk pk its → XInv pk A (fun _ => True) its s.x.rd →
    (∃ it ∈ its, selected fl it.e = true ∧ BadFile pk it) → OptsAll fl s.x.opts →
    ToolKinds.mEnds .extract fuel s = true → Failed (loop .extract fuel s) := by
  intro fuel
  induction fuel with
  | zero => intro its s _ _ _ _ hm; cases hm
  | succ n ih =>
    intro its s hok hx hb ho hm
    unfold ToolKinds.mEnds at hm
    unfold loop
    by_cases hab : s.aborted = true
    · rw [if_pos hab]; exact Or.inl hab
    · rw [if_neg hab]
      rw [Bool.or_eq_true] at hm
      rcases hm with hm | hm
      · exact absurd hm hab
      rcases x_next hok (fun _ _ => trivial) hx with ⟨rd', hn, hnil⟩ | ⟨c, rd', hn, hp⟩
      · obtain ⟨it, hit, _⟩ := hb
        rw [hnil] at hit; cases hit
      · rw [hn] at hm ⊢
        dsimp only at hm ⊢
        obtain ⟨a0, a1⟩ := x_after hok hp
        have hok' := itemsOk_restOf hok rd'
        have hfl : s.x.opts.filters = fl := ho.fl
        -- the entry just presented is the bad member itself, or the bad member is still to come
        by_cases hthis : rd'.currType = .normal ∧ ∃ it tl, its = it :: tl ∧ selected fl it.e = true ∧ BadFile pk it
        · obtain ⟨ht, it, tl, hits, hsel, p, data, perms, t, he, hbad⟩ := hthis
          subst hits
          rcases hp.shape with h1 | h1 | ⟨_, hsame, it', tl', hcons, hch⟩
          · rw [ht] at h1; cases h1
          · rw [ht] at h1; cases h1
          · cases hcons
            obtain ⟨e, comp⟩ := it
            simp only at he
            subst he
            have hpe := hok.1.2.2.1
            have hmatch : Glob.matchesFilter s.x.opts.filters c.h = true := by
              rw [hch, hfl, matches_of (hdrOf_denotes pk _ hpe)]; exact hsel
            rw [hmatch]
            simp only [Bool.not_true, Bool.false_eq_true, if_false]
            apply failed_loop
            have hE := extractEntry_bad (pk := pk) (A := A) (tl := tl)
              ({ s.x with rd := rd' } : XSt) ht hp.curr hch hp.got hok hbad ho.all
            unfold Messages.step
            simp only [ho.dry, Bool.false_eq_true, if_false, record]
            rcases hE with hE | hE
            · exact Or.inr (by simp [hE])
            · exact Or.inl hE
        · have hb' : ∃ it ∈ restOf its rd', selected fl it.e = true ∧ BadFile pk it := by
            obtain ⟨it, hit, hsel, hbf⟩ := hb
            refine ⟨it, ?_, hsel, hbf⟩
            unfold restOf
            split
            · rename_i ht
              cases its with
              | nil => cases hit
              | cons it0 tl =>
                rcases List.mem_cons.1 hit with rfl | hit
                · exact absurd ⟨ht, it, tl, rfl, hsel, hbf⟩ hthis
                · exact hit
            · exact hit
          split
          · rename_i hf
            rw [if_pos hf] at hm
            exact ih _ _ hok' a0 hb' ho hm
          · rename_i hf
            rw [if_neg hf] at hm
            exact ih _ _ hok' (step_x_ind _ { s with x := { s.x with rd := rd' } } c.h a0 a1) hb'
              (step_optsAll { s with x := { s.x with rd := rd' } } c.h ho) hm

end LhasaV.TestBytes
