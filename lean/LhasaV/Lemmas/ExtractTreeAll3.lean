import LhasaV.Lemmas.ExtractTreeAll2
/-!
# C06, all deviations together (part 3): the invariant after one entry

`FsInvU.step`: `make_parent_directories` (`ParentsMadeB`) followed by the writing of the entry —
at a free place, or over an old regular file (`Created` has the same shape in both cases) —
re-establishes the invariant for `done ++ [e]`.  `FsInvU.close`: the metadata step of the
innermost open directory.  `existsKind_newU`: the overwrite check at a free place, whether or not
the directories above it exist; `makeParents_rel`: the string `make_parent_directories` walks.
-/
namespace LhasaV.ExtractTree
open LhasaV LhasaV.Header LhasaV.Extract LhasaV.GlobFs LhasaV.Contain

/-- **the invariant after a written entry**, its missing parents made first -/
theorem FsInvU.step {fs1 fs fsY fs' : Fs.St} {ds : List Bytes} {done : List Entry}
    {stk stk' : List Fs.Path} {e : Entry} {k : Nat}
    (hi : FsInvU fs1 (fs1.cwd ++ ds) done stk fs) (ha : AccessW fs1) (hne : e.path ≠ [])
    (hok : ∀ a ∈ done, a.path ≠ []) (hfresh : ∀ a ∈ done, ¬ e.path <+: a.path)
    (hpm : ParentsMadeB fs1 ds fs fsY e.path.dropLast k)
    (hc : Created fsY fs' (fs1.cwd ++ ds ++ e.path)
      (if e.path ∈ stk' then e.opened fs1.now fs1.umask else e.final fs1.now fs1.umask))
    (hstk : ∀ p, p ≠ e.path → (p ∈ stk' ↔ p ∈ stk)) :
    FsInvU fs1 (fs1.cwd ++ ds) (done ++ [e]) stk' fs' := by
  have hpY : SameParams fs1 fsY := hi.params.trans hpm.made.params
  obtain ⟨u1, u2, u3, u4, u5⟩ := after_parentsU hi.params ha hpm
  have hsb := hc.same_below hne (fun h0 => by
    obtain ⟨m, t, hl, _, ht⟩ := u1 _ (List.prefix_refl _)
    exact ⟨m, by rw [hpY.now, hl, ht h0]⟩)
  -- paths that are not above the new entry
  have F1 : ∀ p, ¬ p <+: e.path →
      Fs.lookup fs' (fs1.cwd ++ ds ++ p) = Fs.lookup fs (fs1.cwd ++ ds ++ p) := by
    intro p hp
    have hp0 : p ≠ [] := fun h => hp (h ▸ List.nil_prefix)
    rw [hsb _ (append_ne_of_ne (fun h => hp (h ▸ List.prefix_refl _))) (cwd_ne_append hp0).symm]
    apply u4
    intro q hq heq
    have := List.append_cancel_left heq
    exact hp (this ▸ hq.trans (List.dropLast_prefix _))
  -- the directories above it
  have F2 : ∀ p, p ≠ [] → p ≠ e.path →
      Fs.lookup fs' (fs1.cwd ++ ds ++ p) = Fs.lookup fsY (fs1.cwd ++ ds ++ p) :=
    fun p h0 h2 => hsb _ (append_ne_of_ne h2) (cwd_ne_append h0).symm
  have F3 : ∀ p, p ≠ [] → p <+: e.path.dropLast →
      ((∃ a ∈ done, p <+: a.path) →
        Fs.lookup fsY (fs1.cwd ++ ds ++ p) = Fs.lookup fs (fs1.cwd ++ ds ++ p)) ∧
      ((∀ a ∈ done, ¬ p <+: a.path) →
        Fs.lookup fsY (fs1.cwd ++ ds ++ p) = some (.dir (impMode fs1.umask) fs1.now)) := by
    intro p h0 hp
    have hp' : p <+: e.path.dropLast.take k ++ e.path.dropLast.drop k := by
      rw [List.take_append_drop]; exact hp
    rcases prefix_split hp' with h1 | ⟨q, hq, hqb, rfl⟩
    · refine ⟨fun _ => u2 p h0 h1, fun hno => ?_⟩
      obtain ⟨m, t, hl, _⟩ := hpm.usable p h1
      rw [hi.other p h0 hno, hpm.free p h0 hp] at hl; cases hl
    · refine ⟨fun hex => ?_, fun _ => u3 q hq hqb⟩
      exact absurd (hpm.missing q hq hqb) (hi.exists_of_prefix _ h0 hex)
  refine ⟨hi.params.trans (hpm.made.params.trans hc.params), ?_, ?_, ?_, ?_, ?_⟩
  · intro a ha'
    rcases List.mem_append.1 ha' with had | hae
    · have hpe : a.path ≠ e.path := fun h => hfresh a had (h ▸ List.prefix_refl _)
      have h0 := hok a had
      have : Fs.lookup fs' (fs1.cwd ++ ds ++ a.path) = Fs.lookup fs (fs1.cwd ++ ds ++ a.path) := by
        by_cases hpa : a.path <+: e.path
        · rw [F2 _ h0 hpe]
          exact (F3 _ h0 (prefix_dropLast _ _ hpa hpe)).1 ⟨a, had, List.prefix_refl _⟩
        · exact F1 _ hpa
      rw [this, hi.ents a had]
      simp only [hstk _ hpe]
    · have : a = e := by simpa using hae
      subst this; exact hc.self
  · intro p h0 hex hno
    have hpe : p ≠ e.path := fun h => hno e (by simp) h.symm
    have hno' : ∀ a ∈ done, a.path ≠ p := fun a h => hno a (List.mem_append_left _ h)
    by_cases hpa : p <+: e.path
    · rw [F2 _ h0 hpe]
      have hpp := prefix_dropLast _ _ hpa hpe
      by_cases hd : ∃ a ∈ done, p <+: a.path
      · rw [(F3 _ h0 hpp).1 hd]; exact hi.imp p h0 hd hno'
      · exact (F3 _ h0 hpp).2 (fun a had h => hd ⟨a, had, h⟩)
    · rw [F1 _ hpa]
      obtain ⟨x, hx, hpx⟩ := hex
      rcases List.mem_append.1 hx with hx | hx
      · exact hi.imp p h0 ⟨x, hx, hpx⟩ hno'
      · have : x = e := by simpa using hx
        subst this; exact absurd hpx hpa
  · intro p h0 hno
    rw [F1 _ (hno e (by simp))]
    exact hi.other p h0 (fun a had => hno a (List.mem_append_left _ had))
  · obtain ⟨m, t0, t, hl0, hl, hacc, ht, _⟩ := hi.base
    obtain ⟨t1, hl1, ht1, hs1⟩ := u5 m t hl
    obtain ⟨t2, hl2, ht2, hs2⟩ := hc.cwd_dir hne m t1 hl1
    rw [hpY.now] at ht2 hs2
    refine ⟨m, t0, t2, hl0, hl2, hacc, ?_, fun h => absurd h (by simp)⟩
    intro _ hc0
    by_cases hd : done = []
    · by_cases hpar : e.path.dropLast = []
      · exact hs2 hpar hc0
      · have hk : e.path.dropLast.take k = [] := by
          by_cases hk : e.path.dropLast.take k = []
          · exact hk
          · obtain ⟨m', t', hl', _⟩ := hpm.usable _ (List.prefix_refl _)
            rw [hi.other _ hk (by rw [hd]; intro a h; cases h),
              hpm.free _ hk (List.take_prefix _ _)] at hl'
            cases hl'
        have hb : e.path.dropLast.drop k ≠ [] := by
          intro hb
          have := List.take_append_drop k e.path.dropLast
          rw [hk, hb] at this
          exact hpar this.symm
        have := hs1 hk hb hc0
        rcases ht2 with h | h
        · rw [h, this]
        · exact h
    · have := ht hd hc0
      rcases ht2 with h | h
      · rw [h]
        rcases ht1 with h' | h'
        · rw [h', this]
        · exact h'
      · exact h
  · intro x hx
    have hq : (fs1.cwd ++ ds ++ e.path).dropLast = fs1.cwd ++ ds ++ e.path.dropLast :=
      List.dropLast_append_of_ne_nil hne
    rw [hc.frame x (fun h => hx (h ▸ List.prefix_append _ _))
      (fun h => hx (by rw [h, hq]; exact List.prefix_append _ _)),
      u4 x (fun q _ h => hx (h ▸ List.prefix_append _ _))]
    exact hi.outside x hx

/-- the invariant after the metadata step of the innermost open directory -/
theorem FsInvU.close {fs1 fs fs' : Fs.St} {B : Fs.Path} {done : List Entry} {t : Fs.Path}
    {stk : List Fs.Path} {d : Entry} (hi : FsInvU fs1 B done (t :: stk) fs) (hd : d ∈ done)
    (hdt : d.path = t) (hne : t ≠ []) (hts : t ∉ stk) (huniq : ∀ e' ∈ done, e'.path = t → e' = d)
    (hc : Touched fs fs' (B ++ t) (d.final fs1.now fs1.umask)) :
    FsInvU fs1 B done stk fs' := by
  refine ⟨hi.params.trans hc.params, ?_, ?_, ?_, ?_, ?_⟩
  · intro e' he'
    by_cases hpe : e'.path = t
    · have := huniq e' he' hpe
      subst this
      rw [hpe, if_neg hts, hc.self]
    · rw [hc.frame _ (append_ne_of_ne hpe), hi.ents e' he']
      simp only [List.mem_cons, hpe, false_or]
  · intro p hp0 hex hno
    have hpt : p ≠ t := fun h => hno d hd (hdt.trans h.symm)
    rw [hc.frame _ (append_ne_of_ne hpt)]
    exact hi.imp p hp0 hex hno
  · intro p hp0 hall
    have hpt : p ≠ t := fun h => hall d hd (by rw [h, hdt]; exact List.prefix_refl _)
    rw [hc.frame _ (append_ne_of_ne hpt)]
    exact hi.other p hp0 hall
  · obtain ⟨m, t0, t', hl0, hl, hacc, ht, h0⟩ := hi.base
    refine ⟨m, t0, t', hl0, ?_, hacc, ht, h0⟩
    rw [hc.frame _ (cwd_ne_append hne)]
    exact hl
  · intro x hx
    rw [hc.frame x (fun h => hx (h ▸ List.prefix_append _ _))]
    exact hi.outside x hx

/-! ## strings -/

/-- `make_parent_directories` for a relocated member: the walk over `DIR`'s components, then over
the member's own directories -/
theorem makeParents_rel (fs : Fs.St) (ds : List Bytes) (e : Entry) (hk : EntryOk e)
    (hn : ∀ c ∈ ds, Name c) (hd : ds.length + e.path.length < 64) :
    makeParentDirectories fs (fullOf (e.reloc ds)) =
      if !(mkDirs ds [] fs).1 then mkDirs ds [] fs
      else mkDirs e.path.dropLast (joinDir ds) (mkDirs ds [] fs).2 := by
  have hkr := entryOk_reloc hk hn hd
  rw [makeParents_mkDirs fs _ (e.reloc ds).path (trim_fullOf hkr) hkr.names hkr.ne, reloc_path,
    List.dropLast_append_of_ne_nil hk.ne, mkDirs_append]
  simp

/-- the overwrite check at a free place below the base, whether or not its directories exist -/
theorem existsKind_newU {fs1 fs fsY : Fs.St} {ds : List Bytes} {e : Entry} {k : Nat}
    (hp : SameParams fs1 fs) (hw : WalkIn fs ds) (hk : EntryOk e) (hn : ∀ c ∈ ds, Name c)
    (hd : ds.length + e.path.length < 64)
    (hpm : ParentsMadeB fs1 ds fs fsY e.path.dropLast k)
    (hnone : Fs.lookup fs (fs1.cwd ++ ds ++ e.path) = none) :
    Fs.existsKind fs (fullOf (e.reloc ds)) = .none := by
  have pf := pathFacts_rel hk hn hd
  have hg : ∀ x ∈ ds ++ e.path, Good x := by
    have := names_good (entryOk_reloc hk hn hd).names; rwa [reloc_path] at this
  have hl : (ds ++ e.path).length < 64 := by rw [List.length_append]; exact hd
  cases hdk : e.path.dropLast.drop k with
  | nil =>
    have htk : e.path.dropLast.take k = e.path.dropLast := by
      have := List.take_append_drop k e.path.dropLast
      rw [hdk, List.append_nil] at this; exact this
    have hwi : WalkIn fs (ds ++ e.path.dropLast) :=
      walkIn_below hp hw (fun pre hpre => hpm.usable pre (by rw [htk]; exact hpre))
    have hwk : Walk fs fs.cwd (ds ++ e.path) := by
      intro pre hp1 hne1
      have := prefix_dropLast pre _ hp1 hne1
      rw [List.dropLast_append_of_ne_nil hk.ne] at this
      exact hwi pre this
    have hT : Target fs (fullOf (e.reloc ds)) (ds ++ e.path) :=
      ⟨pf.rel, pf.comps, by simp [hk.ne], hg, hl, hwk⟩
    exact existsKind_none hT (by rw [hp.cwd, ← List.append_assoc]; exact hnone)
  | cons x r =>
    have hsplit := List.take_append_drop k e.path.dropLast
    have hcs : ds ++ e.path =
        (ds ++ e.path.dropLast.take k) ++ x :: (r ++ [e.path.getLast hk.ne]) := by
      conv => lhs; rw [← List.dropLast_concat_getLast hk.ne, ← hsplit, hdk]
      simp
    refine existsKind_missing fs _ (ds ++ e.path.dropLast.take k) x (r ++ [e.path.getLast hk.ne]) pf.rel
      (by rw [pf.comps]; exact hcs) (by rw [← hcs]; exact hg) (by rw [← hcs]; exact hl)
      (walkIn_below hp hw hpm.usable) ?_
    have := hpm.missing [x] (by simp) (by rw [hdk]; simp)
    rw [hp.cwd, ← List.append_assoc fs1.cwd, List.append_assoc (fs1.cwd ++ ds)]; exact this

end LhasaV.ExtractTree
