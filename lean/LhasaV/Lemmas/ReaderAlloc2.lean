import LhasaV.Lemmas.ReaderAlloc1
/-!
# Allocation-aware reader, part 2: `read`, `check` only move the decoder; the allocator facts
-/
namespace LhasaV.Reader
open LhasaV LhasaV.Alloc

/-! ## `openDecoderA` -/

theorem openDecoderA_frame (o : Oracle) (a : StA) : Frame a.s (openDecoderA o a).2.s := by
  unfold openDecoderA
  dsimp only
  split
  · exact Frame.refl _
  · split
    · exact Frame.refl _
    · split
      · split
        · exact Frame.refl _
        · split
          · split
            · dsimp only
              refine Frame.trans ?_ (closeDecoder_frame _)
              constructor <;> rfl
            · split
              · dsimp only
                refine Frame.trans ?_ (closeDecoder_frame _)
                constructor <;> rfl
              · constructor <;> rfl
          · constructor <;> rfl
      · exact Frame.refl _

theorem openDecoderA_decW {o : Oracle} {a : StA} (h : DecW a.s) : DecW (openDecoderA o a).2.s := by
  unfold openDecoderA
  dsimp only
  split
  · exact h
  · split
    · exact h
    · split
      · split
        · exact h
        · split
          · split
            · intro _; exact closeDecoder_decoders (fun hn => by cases hn)
            · split
              · intro _; exact closeDecoder_decoders (fun hn => by cases hn)
              · intro hn; cases hn
          · intro hn; cases hn
      · exact h

theorem openDecoderA_hpOk {o : Oracle} {n : Nat} {a : StA} (h : HpOk o n a.hp) : HpOk o n (openDecoderA o a).2.hp := by
  unfold openDecoderA
  dsimp only
  split
  · exact h
  · split
    · exact h
    · split
      · split
        · exact allocAt_hpOk _ h
        · split
          · split
            · exact allocAt_hpOk _ (allocAt_hpOk _ h)
            · split
              · exact allocAt_hpOk _ (allocAt_hpOk _ h)
              · exact allocAt_hpOk _ (allocAt_hpOk _ h)
          · exact allocAt_hpOk _ h
      · exact h

/-! ## `readA` -/

/-- `readCore` on the allocation-aware state -/
def readCoreA (a : StA) (k : Nat) : List UInt8 × StA :=
  ((readCore a.s k).1, { a with s := (readCore a.s k).2 })

theorem readA_eq (o : Oracle) (a : StA) (k : Nat) : readA o a k =
    match a.s.dec with
    | some d => if (d.plain.isSome || d.mac.isSome) then readCoreA a k else ([], a)
    | none => if (openDecoderA o a).1 then readCoreA (openDecoderA o a).2 k else ([], (openDecoderA o a).2) := by
  unfold readA readCoreA readCore
  cases h : a.s.dec with
  | none =>
    dsimp only
    cases (openDecoderA o a).1
    · simp
    · simp only [Bool.not_true, Bool.false_eq_true, ↓reduceIte]
      cases hd : (openDecoderA o a).2.s.dec with
      | none => rfl
      | some d =>
        dsimp only
        cases hp : d.plain with
        | some st => rfl
        | none =>
          cases hm : d.mac with
          | some m => rfl
          | none => rfl
  | some d =>
    dsimp only
    cases hb : (d.plain.isSome || d.mac.isSome)
    · simp
    · simp only [Bool.not_true, Bool.false_eq_true, ↓reduceIte, h]
      cases hp : d.plain with
      | some st => rfl
      | none =>
        cases hm : d.mac with
        | some m => rfl
        | none => rfl

theorem readA_frame (o : Oracle) (a : StA) (k : Nat) : Frame a.s (readA o a k).2.s := by
  rw [readA_eq]
  split
  · split
    · exact readCore_frame a.s k
    · exact Frame.refl _
  · split
    · exact Frame.trans (openDecoderA_frame o a) (readCore_frame _ k)
    · exact openDecoderA_frame o a

theorem readA_decW {o : Oracle} {a : StA} (h : DecW a.s) (k : Nat) : DecW (readA o a k).2.s := by
  rw [readA_eq]
  split
  · split
    · exact readCore_decW h k
    · exact h
  · split
    · exact readCore_decW (openDecoderA_decW h) k
    · exact openDecoderA_decW h

theorem readA_hpOk {o : Oracle} {n : Nat} {a : StA} (h : HpOk o n a.hp) (k : Nat) : HpOk o n (readA o a k).2.hp := by
  rw [readA_eq]
  split
  · split
    · exact h
    · exact h
  · split
    · exact openDecoderA_hpOk h
    · exact openDecoderA_hpOk h

/-! ## `decodeLoopA`, `checkA` -/

theorem decodeLoopA_frame (o : Oracle) (fuel : Nat) (a : StA) (acc : List UInt8) :
    Frame a.s (decodeLoopA o fuel a acc).2.s := by
  induction fuel generalizing a acc with
  | zero => exact Frame.refl _
  | succ n ih =>
    unfold decodeLoopA
    dsimp only
    split
    · exact readA_frame o a 64
    · exact Frame.trans (readA_frame o a 64) (ih _ _)

theorem decodeLoopA_decW {o : Oracle} (fuel : Nat) {a : StA} (h : DecW a.s) (acc : List UInt8) :
    DecW (decodeLoopA o fuel a acc).2.s := by
  induction fuel generalizing a acc with
  | zero => exact h
  | succ n ih =>
    unfold decodeLoopA
    dsimp only
    split
    · exact readA_decW h 64
    · exact ih (readA_decW h 64) _

theorem decodeLoopA_hpOk {o : Oracle} {n : Nat} (fuel : Nat) {a : StA} (h : HpOk o n a.hp) (acc : List UInt8) :
    HpOk o n (decodeLoopA o fuel a acc).2.hp := by
  induction fuel generalizing a acc with
  | zero => exact h
  | succ n ih =>
    unfold decodeLoopA
    dsimp only
    split
    · exact readA_hpOk h 64
    · exact ih (readA_hpOk h 64) _

theorem checkA_frame (o : Oracle) (a : StA) : Frame a.s (checkA o a).2.s := by
  unfold checkA
  split
  · exact Frame.refl _
  · split
    · exact Frame.refl _
    · split
      · exact Frame.refl _
      · dsimp only
        split
        · exact openDecoderA_frame o a
        · exact Frame.trans (openDecoderA_frame o a) (decodeLoopA_frame o _ _ _)

theorem checkA_decW {o : Oracle} {a : StA} (h : DecW a.s) : DecW (checkA o a).2.s := by
  unfold checkA
  split
  · exact h
  · split
    · exact h
    · split
      · exact h
      · dsimp only
        split
        · exact openDecoderA_decW h
        · exact decodeLoopA_decW _ (openDecoderA_decW h) _

theorem checkA_hpOk {o : Oracle} {n : Nat} {a : StA} (h : HpOk o n a.hp) : HpOk o n (checkA o a).2.hp := by
  unfold checkA
  split
  · exact h
  · split
    · exact h
    · split
      · exact h
      · dsimp only
        split
        · exact openDecoderA_hpOk h
        · exact decodeLoopA_hpOk _ (openDecoderA_hpOk h) _

end LhasaV.Reader
