import LhasaV.Lemmas.ArchiveOf7
/-!
# C06, archives as bytes (part 8): `archiveWith pk es` denotes `es`

`denotes_of_rstate`: from every reader state that stands in the archive as `RState` describes,
the run of the extraction loop sees headers denoting exactly the entries still to come, and
every file decodes to its data with a good verdict — whatever the file system, the options and
the answers are.  `rstate_runInit`: the start state of `lha x` is such a state.
-/
set_option linter.unusedSimpArgs false
namespace LhasaV.ArchiveOf
open LhasaV LhasaV.Header LhasaV.Extract LhasaV.GlobFs LhasaV.Contain LhasaV.ExtractTree
open LhasaV.ExtractTree.Sample LhasaV.Spec.HeaderEnc LhasaV.Reader LhasaV.ReaderIndep

/-- the state after the loop body, when the reader was `rd'` before it -/
theorem after_body (pk : Packer) (A : Array UInt8) (es : List Entry) (s : Extract.St) (h : Hdr)
    (hg : Good s.rd) (hd : s.rd.dec = none) (hgot : Got pk A es s.rd.basic)
    (hsh : (s.rd.currType = .fakeDir ∧ s.rd.curr ≠ none) ∨
       (s.rd.currType = .normal ∧ s.rd.curr = s.rd.basic.curr ∧ s.rd.curr ≠ none) ∨
       (s.rd.currType = .deferred ∧ s.rd.curr ≠ none)) :
    Good (extractArchivedFile s h).rd ∧
    RState pk A (if s.rd.currType = .normal then es.tail else es) (extractArchivedFile s h).rd := by
  apply eaf_ind (fun r => Good r ∧ RState pk A (if s.rd.currType = .normal then es.tail else es) r) s h
  · refine ⟨hg, ?_⟩
    rcases hsh with ⟨ht, _⟩ | ⟨ht, hc, hn⟩ | ⟨ht, _⟩
    · simp only [RState, ht]; exact ⟨hd, hgot⟩
    · cases es with
      | nil => rw [hc, hgot.2.1] at hn; exact absurd rfl hn
      | cons e tl => simp only [RState, ht, if_true, List.tail_cons]; exact hgot.at
    · simp only [RState, ht]; exact ⟨hd, hgot⟩
  · intro b
    refine ⟨good_extract hg b, ?_⟩
    rcases hsh with ⟨ht, _⟩ | ⟨ht, hc, hn⟩ | ⟨ht, _⟩
    · rw [fake_extract (Or.inl ht)]
      simp only [RState, ht]; exact ⟨hd, hgot⟩
    · cases es with
      | nil => rw [hc, hgot.2.1] at hn; exact absurd rfl hn
      | cons e tl =>
        have hct := extract_currType s.rd b
        simp only [RState, hct, ht, if_true, List.tail_cons]
        exact extract_at pk A tl s.rd b hg.pre hgot.at
    · rw [fake_extract (Or.inr ht)]
      simp only [RState, ht]; exact ⟨hd, hgot⟩

/-- **from a state that stands in the archive, the run denotes the entries still to come** -/
theorem denotes_of_rstate (pk : Packer) (A : Array UInt8) : ∀ (fuel : Nat) (s : Extract.St) (es : List Entry),
    AllOk pk es → Good s.rd → RState pk A es s.rd → Denotes fuel s es := by
  intro fuel
  induction fuel with
  | zero => intro s es _ _ _; trivial
  | succ n ih =>
    intro s es hok hg hs _
    by_cases heof : s.rd.currType = .eof
    · refine ⟨none, _, next_of_eof s.rd heof, ?_, ?_⟩
      · intro ht; rw [heof] at ht; rcases ht with ht | ht <;> cases ht
      · intro c hc; cases hc
    · obtain ⟨oc, rd', hn, hoc, hd, hgot, hsh⟩ := next_step pk A es s.rd hok hg hs heof
      have hg' : Good rd' := next_good hg hn
      refine ⟨oc, rd', hn, fun _ => hgot.pending hok, ?_⟩
      intro c hc
      have hcur : rd'.curr = some c := by rw [← hoc, hc]
      have hsh' : (rd'.currType = .fakeDir ∧ rd'.curr ≠ none) ∨
          (rd'.currType = .normal ∧ rd'.curr = rd'.basic.curr ∧ rd'.curr ≠ none) ∨
          (rd'.currType = .deferred ∧ rd'.curr ≠ none) := by
        rcases hsh with h | h | h | ⟨_, h⟩
        · exact Or.inl h
        · exact Or.inr (Or.inl h)
        · exact Or.inr (Or.inr h)
        · rw [hcur] at h; cases h
      constructor
      · intro hty p data perms mtime tl hes
        subst hes
        have hb : rd'.basic.curr = some c := by
          rcases hsh' with ⟨h, _⟩ | ⟨_, h, _⟩ | ⟨h, _⟩
          · rw [hty] at h; cases h
          · rw [← h, hcur]
          · rw [hty] at h; cases h
        have hgot0 := hgot
        obtain ⟨hdat, ⟨id, hid⟩, _⟩ := hgot0
        have hh : c.h = hdrOf pk (.file p data perms mtime) := by
          rw [hid] at hb; cases hb; rfl
        have hpk : PackOk pk data := (hok (.file p data perms mtime) (by simp)).2.2
        exact extract_member pk rd' c p data perms mtime tl hpk hty hcur hh
          (by rw [hdat]; exact hgot)
      · obtain ⟨g2, r2⟩ := after_body pk A es { s with rd := rd' } c.h hg' hd hgot hsh'
        apply ih _ _ _ g2 r2
        show AllOk pk (if rd'.currType = .normal then es.tail else es)
        split
        · cases es with
          | nil => exact hok
          | cons e tl => exact hok.tail
        · exact hok

theorem good_runInit (archive : Array UInt8) (o : Opts) (fs : Fs.St) (answers : Bytes) :
    Good (runInit archive o fs answers).rd :=
  good_fresh { kind := .seekable, data := archive } .endOfDir Header.dosTimeUTC (by simp)

theorem rstate_runInit (pk : Packer) (es : List Entry) (o : Opts) (fs : Fs.St) (answers : Bytes) :
    RState pk (archiveWith pk es) es (runInit (archiveWith pk es) o fs answers).rd :=
  ⟨rfl, rfl, rfl, rfl, rfl, rfl, rfl, rfl⟩

/-- the packer handles the data of every file of the list -/
def Packs (pk : Packer) (es : List Entry) : Prop := ∀ e ∈ es, FilePack pk e

theorem packs_stored {es : List Entry} (henc : Encodable es) : Packs stored es := by
  intro e he
  cases e with
  | dir _ _ _ => trivial
  | link _ _ => trivial
  | file p data perms t => exact packOk_stored data (henc _ he).2.2.2.2

theorem allOk_of {pk : Packer} {es : List Entry} (hwf : WellFormed es) (henc : Encodable es)
    (hpk : Packs pk es) : AllOk pk es := by
  have : ∀ (stk seen : List Fs.Path) (es : List Entry), WF stk seen es → ∀ e ∈ es, EntryOk e := by
    intro stk seen es
    induction es generalizing stk seen with
    | nil => intro _ e he; cases he
    | cons x xs ih =>
      intro h e he
      rcases List.mem_cons.1 he with rfl | he
      · exact h.1
      · exact ih _ _ h.2.2.2 e he
  exact fun e he => ⟨this [] [] es hwf e he, henc e he, hpk e he⟩

end LhasaV.ArchiveOf
