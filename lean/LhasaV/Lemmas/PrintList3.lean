import LhasaV.Lemmas.PrintList2
import LhasaV.Lemmas.PrintBanners
/-!
# C06, `lha p` on archive bytes (part 3): the specification and the end-to-end theorem

`printSeg o e` — stated on ENTRIES, independently of the model — is what `lha p` must write for a
selected entry: for a file the name banner (`::::::::`, the shown name, `::::::::`; nothing at
quiet level ≥ 2) followed by exactly the file's data; for a symbolic link the line
`Symbolic Link name -> target` (nothing at quiet ≥ 2); for a directory nothing.  The shown name
(`shownName`) is the stored path `a/b/c`; under option `i` only the file name; under `w=DIR` with
`DIR/` in front.  Names pass through `safe_output` (`Safe.safeOutput`: bytes outside printable
ASCII become `?`; `safeOutput_plain`: plain ASCII names are printed as they are).

* `segments_archiveWith`: the (banner, contents) segments of `lha p` (C18 `printSegments`) on the
  bytes `archiveWith pk es` are exactly `(bannerOf o e, contentsOf e)` for the selected entries, in
  archive order;
* **`print_archiveWith`**: `Extract.print (archiveWith pk es) o =
  (es.filter (selected o.filters)).flatMap (printSeg o)` — every option combination.
-/
set_option linter.unusedSimpArgs false
namespace LhasaV.PrintList
open LhasaV LhasaV.Header LhasaV.Extract LhasaV.ExtractTree LhasaV.ArchiveOf LhasaV.Reader
open LhasaV.ReaderIndep LhasaV.ListProps LhasaV.Contain LhasaV.ExtractTree.Sample

/-! ## the specification -/

/-- the name `lha p` shows for an entry: `DIR/` under `w=DIR`, then the stored path
(`"a/b/" ++ "c"`), or only the file name under option `i` -/
def shownName (o : Opts) (e : Entry) : Bytes :=
  (match o.extractPath with
   | some d => d ++ [0x2f]
   | none => []) ++
  (if o.usePath then storedName e else e.namePart)

/-- the line(s) written before a member's contents -/
def bannerOf (o : Opts) : Entry → Bytes
  | .file p data perms t =>
    if o.quiet < 2 then
      "::::::::\n".toUTF8.toList ++ Safe.safeOutput (shownName o (.file p data perms t)) ++
        "\n::::::::\n".toUTF8.toList
    else []
  | .link p tg =>
    if o.quiet < 2 then
      "Symbolic Link ".toUTF8.toList ++ Safe.safeOutput (shownName o (.link p tg)) ++
        " -> ".toUTF8.toList ++ Safe.safeOutput tg ++ [0x0a]
    else []
  | .dir _ _ _ => []

/-- the contents written for a member: a file's data, nothing else -/
def contentsOf : Entry → Bytes
  | .file _ data _ _ => data
  | _ => []

/-- **what `lha p` writes for a selected entry** -/
def printSeg (o : Opts) (e : Entry) : Bytes := bannerOf o e ++ contentsOf e

/-- plain options (no `i`, no `w=`): the shown name of a file or a link is its path `a/b/c` -/
theorem shownName_plain (o : Opts) (e : Entry) (hx : o.extractPath = none) (hu : o.usePath = true)
    (hne : e.path ≠ []) (hd : e.isDir = false) : shownName o e = joinPath e.path := by
  unfold shownName
  rw [hx, hu, storedName_eq_fullOf hne]
  simp [fullOf, hd]

/-- printable ASCII passes `safe_output` unchanged -/
theorem safeOutput_plain (s : Bytes) (h : ∀ b ∈ s, Safe.printable b) : Safe.safeOutput s = s := by
  unfold Safe.safeOutput
  conv => rhs; rw [← List.map_id s]
  apply List.map_congr_left
  intro b hb
  obtain ⟨h1, h2⟩ := h b hb
  have h1' : ¬ b < 0x20 := by simpa [UInt8.not_lt] using h1
  have h2' : ¬ b ≥ 0x7f := by
    intro h3
    have a : b.toNat ≤ 0x7e := UInt8.le_iff_toNat_le.1 h2
    have c : (0x7f : UInt8).toNat ≤ b.toNat := UInt8.le_iff_toNat_le.1 h3
    have : (0x7f : UInt8).toNat = 127 := rfl
    omega
  simp [Safe.safeByte, h1', h2']

/-! ## the model's banner and contents on a header of the archive -/

/-- `file_full_path` on a header that denotes `e`, for ALL options -/
theorem fullPath_shown {e : Entry} {h : Hdr} (hh : HdrOf e h) (hk : EntryOk e) (o : Opts) :
    fileFullPath h o = shownName o e := by
  have h1 : stripSlashes (joinDir e.dirPart) = joinDir e.dirPart :=
    strip_rel _ (joinDir_rel _ (dirPart_names hk))
  have h2 : stripSlashes e.namePart = e.namePart := by
    cases hd : e.isDir with
    | true => simp [Entry.namePart, hd, stripSlashes]
    | false => exact strip_rel _ (name_head _ (namePart_name hk hd))
  unfold fileFullPath shownName storedName
  rw [hh.1, hh.2.1, h1, h2]
  cases o.extractPath <;> cases o.usePath <;> simp

theorem safe_sym : Safe.safeOutput "Symbolic Link ".toUTF8.toList = "Symbolic Link ".toUTF8.toList := by
  decide +kernel

theorem safe_arrow : Safe.safeOutput " -> ".toUTF8.toList = " -> ".toUTF8.toList := by
  decide +kernel

theorem safeOutput_append (a b : Bytes) :
    Safe.safeOutput (a ++ b) = Safe.safeOutput a ++ Safe.safeOutput b := List.map_append

/-- the model's banner for the header of an entry is the specified one -/
theorem printBanner_entry (pk : Packer) (o : Opts) (e : Entry) (hk : EntryOk e) (hpk : FilePack pk e) :
    printBanner o (hdrOf pk e) = bannerOf o e := by
  have hh := hdrOf_denotes pk e hpk
  have hf := fullPath_shown hh hk o
  cases e with
  | dir p perms t =>
    unfold printBanner bannerOf
    have : (hdrOf pk (.dir p perms t)).method = "-lhd-".toUTF8.toList := lhdM_eq
    simp [this, show (hdrOf pk (.dir p perms t)).symlinkTarget = none from rfl]
  | file p data perms t =>
    unfold printBanner bannerOf
    have hm : ((hdrOf pk (.file p data perms t)).method != "-lhd-".toUTF8.toList) = true := by
      rw [bne_iff_ne]; exact hh.2.2.1
    rw [hf]
    simp only [show (hdrOf pk (.file p data perms t)).symlinkTarget = none from rfl, hm, if_true]
  | link p tg =>
    unfold printBanner bannerOf
    rw [hf]
    simp only [show (hdrOf pk (.link p tg)).symlinkTarget = some tg from rfl, safeOutput_append,
      safe_sym, safe_arrow, List.append_assoc]

/-- the model's read loop for the header of an entry delivers the specified contents and leaves
the reader before the remaining members -/
theorem printContents_entry {pk : Packer} {A : Array UInt8} {e : Entry} {tl : List Entry} {c : HObj}
    {rd : Reader.St} (hpk : FilePack pk e) (h : Shown pk A e tl c rd) :
    (printContents c.h rd).1 = contentsOf e ∧ Walk pk A tl (printContents c.h rd).2 := by
  cases e with
  | dir p perms t =>
    have hm : (c.h.method != "-lhd-".toUTF8.toList) = false := by
      rw [h.hdr]; simp [show (hdrOf pk (.dir p perms t)).method = "-lhd-".toUTF8.toList from lhdM_eq]
    unfold printContents
    rw [hm]
    exact ⟨rfl, h.skip⟩
  | link p tg =>
    have hm : (c.h.method != "-lhd-".toUTF8.toList) = false := by
      rw [h.hdr]; simp [show (hdrOf pk (.link p tg)).method = "-lhd-".toUTF8.toList from lhdM_eq]
    unfold printContents
    rw [hm]
    exact ⟨rfl, h.skip⟩
  | file p data perms t =>
    have hm : (c.h.method != "-lhd-".toUTF8.toList) = true := by
      rw [h.hdr, bne_iff_ne]
      exact (hdrOf_denotes pk _ hpk).2.2.1
    unfold printContents
    rw [hm]
    exact print_member hpk h

/-! ## the whole run -/

/-- **the segments of `lha p` along the archive**: one (banner, contents) pair per selected entry,
in order -/
theorem segments_walk (pk : Packer) (A : Array UInt8) (o : Opts) : ∀ (fuel : Nat) (es : List Entry)
    (rd : Reader.St), AllOk pk es → Walk pk A es rd → es.length < fuel →
    printSegments o fuel rd =
      (es.filter (selected o.filters)).map (fun e => (bannerOf o e, contentsOf e)) := by
  intro fuel
  induction fuel with
  | zero => intro es rd _ _ hf; omega
  | succ n ih =>
    intro es rd hok hw hf
    cases es with
    | nil =>
      obtain ⟨rd', hn⟩ := walk_nil hw
      unfold printSegments
      rw [hn]; rfl
    | cons e tl =>
      obtain ⟨c, rd', hn, hs⟩ := walk_cons hok hw
      obtain ⟨hke, _, hpe⟩ := hok e (by simp)
      have hm : Glob.matchesFilter o.filters c.h = selected o.filters e := by
        rw [hs.hdr]; exact matches_of (hdrOf_denotes pk e hpe) _
      have hlen : tl.length < n := by simp at hf; omega
      unfold printSegments
      rw [hn]
      dsimp only
      rw [hm]
      cases hsel : selected o.filters e with
      | false =>
        simp only [Bool.not_false, if_true, List.filter_cons, hsel, Bool.false_eq_true, if_false]
        exact ih tl rd' hok.tail hs.skip hlen
      | true =>
        obtain ⟨hc1, hc2⟩ := printContents_entry hpe hs
        simp only [Bool.not_true, Bool.false_eq_true, if_false, List.filter_cons, hsel, if_true,
          List.map_cons]
        rw [ih tl _ hok.tail hc2 hlen, hc1, hs.hdr, printBanner_entry pk o e hke hpe]

theorem segments_archiveWith (pk : Packer) (es : List Entry) (hok : ∀ e ∈ es, EntryOk e)
    (henc : Encodable es) (hpk : Packs pk es) (o : Opts) :
    printSegments o (2 * (archiveWith pk es).size + 16) (initReader (archiveWith pk es)) =
      (es.filter (selected o.filters)).map (fun e => (bannerOf o e, contentsOf e)) :=
  segments_walk pk (archiveWith pk es) o _ es _ (allOk_of_entries hok henc hpk) (walk_init pk es)
    (by have := fuel_archiveWith pk es; unfold runFuel at this; omega)

/-- **C06, `lha p`, end to end on archive BYTES.**  For every list `es` of clean, encodable
entries (any order) and every packer that handles their data, `lha p[q][i][w=DIR] archive
[patterns]` on the bytes `archiveWith pk es` writes to standard output, for each entry whose
stored path matches a pattern (all entries when there is none), in archive order: the name banner
followed by EXACTLY the file's data for a file, the `Symbolic Link` line for a link, nothing for
a directory — and nothing else. -/
theorem print_archiveWith (pk : Packer) (es : List Entry) (hok : ∀ e ∈ es, EntryOk e)
    (henc : Encodable es) (hpk : Packs pk es) (o : Opts) :
    Extract.print (archiveWith pk es) o = (es.filter (selected o.filters)).flatMap (printSeg o) := by
  show printArchiveLoop o (2 * (archiveWith pk es).size + 16) (initReader (archiveWith pk es)) [] = _
  rw [printArchiveLoop_eq, segments_archiveWith pk es hok henc hpk o, List.nil_append,
    List.flatMap_map]
  rfl

/-- the well-formed trees of `extract_reproduces_tree` are such lists -/
theorem print_archiveWith_wf (pk : Packer) (es : List Entry) (hwf : WellFormed es)
    (henc : Encodable es) (hpk : Packs pk es) (o : Opts) :
    Extract.print (archiveWith pk es) o = (es.filter (selected o.filters)).flatMap (printSeg o) :=
  print_archiveWith pk es (fun e he => (allOk_of hwf henc hpk e he).1) henc hpk o

/-- stored members: `archiveOf` -/
theorem print_archiveOf (es : List Entry) (hok : ∀ e ∈ es, EntryOk e) (henc : Encodable es) (o : Opts) :
    Extract.print (archiveOf es) o = (es.filter (selected o.filters)).flatMap (printSeg o) := by
  rw [archiveOf_eq]
  exact print_archiveWith stored es hok henc (packs_stored henc) o

end LhasaV.PrintList
