import LhasaV.Lemmas.ReaderIndep1
import LhasaV.Lemmas.HonestBase
/-!
# C15, part 2: what an open decoder can do to the basic reader

The only way the decoding of a member influences the rest of the archive is `closeDecoder`:
it advances the stream by what the decoder consumed (at most `remaining`) and sets END when the
decoder's member source died.  A member source dies only when a request crosses the physical
end of the data (`Src.read`), i.e. only for a member that is truncated — and then skipping the
member reports END as well.  The second fact is a property of the decoders (`Dec.Honest`):
a decoder changes its source only by reading from it.
-/
set_option linter.unusedSimpArgs false
namespace LhasaV.ReaderIndep
open LhasaV LhasaV.Reader

/-! ## 1. predicates on the inner decoder state are kept by the read wrapper -/

section closure
variable {σ : Type} (rd : σ → List Byte × σ) (Q : σ → Prop) (hQ : ∀ x, Q x → Q (rd x).2)
include hQ

theorem fill_keeps (n : Nat) (s : Wrap.St σ) (h : Q s.inner) : Q (Wrap.fill rd n s).2.inner := by
  fun_induction Wrap.fill rd n s with
  | case1 s => exact h
  | case2 need s h1 h2 => exact h
  | case3 need s h1 h2 h3 => exact h
  | case4 need s h1 h2 h3 h4 => exact hQ _ h
  | case5 need s h1 h2 h3 h4 r ih => exact ih (hQ _ h)

theorem wread_keeps (k : Nat) (s : Wrap.St σ) (h : Q s.inner) : Q (Wrap.read rd k s).2.inner := by
  rw [Wrap.read_inner]; exact fill_keeps rd Q hQ _ s h

theorem macReadHeader_keeps (fuel : Nat) (acc : List UInt8) (s : Wrap.St σ) (h : Q s.inner) :
    Q (macReadHeader rd fuel acc s).2.inner := by
  induction fuel generalizing acc s with
  | zero => exact h
  | succ n ih =>
    unfold macReadHeader
    split
    · exact h
    · dsimp only
      split
      · exact wread_keeps rd Q hQ _ s h
      · exact ih _ _ (wread_keeps rd Q hQ _ s h)

theorem decodeToEnd_keeps (fuel : Nat) (s : Wrap.St σ) (h : Q s.inner) :
    Q (decodeToEnd rd fuel s).inner := by
  induction fuel generalizing s with
  | zero => exact h
  | succ n ih =>
    unfold decodeToEnd
    dsimp only
    split
    · exact wread_keeps rd Q hQ _ s h
    · exact ih _ (wread_keeps rd Q hQ _ s h)

theorem macRead_keeps (m : Mac σ) (h : Q m.inner.inner) : Q (macRead rd m).2.inner.inner := by
  unfold macRead
  dsimp only
  split
  · exact decodeToEnd_keeps rd Q hQ _ _ (wread_keeps rd Q hQ _ _ h)
  · exact wread_keeps rd Q hQ _ _ h

theorem macInit_keeps (hd : Header.Hdr) (s : Wrap.St σ) (h : Q s.inner) :
    Q (macInit rd hd s).2.inner ∧ ∀ m, (macInit rd hd s).1 = some m → Q m.inner.inner := by
  unfold macInit
  split
  · dsimp only
    have hk := macReadHeader_keeps rd Q hQ 129 [] s h
    split
    · exact ⟨hk, fun m hm => by cases hm⟩
    · split
      · exact ⟨hk, fun m hm => by cases hm; exact hk⟩
      · exact ⟨hk, fun m hm => by cases hm; exact hk⟩
  · exact ⟨h, fun m hm => by cases hm; exact h⟩

end closure


/-! ## 2. the decoder invariant -/

/-- an inner decoder state that, as far as it is a live state, has not made the member source of
`b` `Short` out of nothing -/
def InnerOK (d : Dec) (b : Basic) (x : Except String d.σ) : Prop :=
  ∀ st, x = .ok st → Short (d.src st) → Short (memberSrc b)

theorem innerOK_total {d : Dec} (hd : Honest d) (b : Basic) (x : Except String d.σ)
    (h : InnerOK d b x) : InnerOK d b (d.total x).2 := by
  unfold Dec.total
  split
  · exact h
  · rename_i s
    split
    · rename_i o s' hr
      intro st e hs
      cases e
      exact h s rfl (hd.read s o _ hr hs)
    · intro st e; cases e
    · intro st e; cases e

/-- the open decoder `o` of a reader whose basic reader is `b` -/
def OpenOK (b : Basic) (o : Open) : Prop :=
  Honest o.d ∧ ∀ ist, o.innerSt = some ist → InnerOK o.d b ist.inner

def DecOK (s : St) : Prop := ∀ o, s.dec = some o → OpenOK s.basic o

theorem consumed_dead {b : Basic} {o : Open} (h : OpenOK b o) (hc : o.consumed.2 = true) :
    Short (memberSrc b) := by
  unfold Open.consumed at hc
  cases hi : o.innerSt with
  | none => simp [hi] at hc
  | some ist =>
    simp only [hi] at hc
    cases hx : ist.inner with
    | error w => simp [hx] at hc
    | ok st =>
      simp only [hx] at hc
      exact h.2 ist hi st hx (Or.inl hc)

theorem short_memberSrc {b : Basic} (h : Short (memberSrc b)) (ht : Tidy b) : Doomed b := by
  by_cases he : b.eof = true
  · exact Or.inl he
  · have hx : 0 < b.remaining - min b.remaining (b.stream.data.size - b.stream.pos) := by
      rcases h with h | h
      · exact absurd h he
      · exact h
    refine Or.inr ⟨?_, by unfold mEnd; omega⟩
    cases hc : b.curr with
    | some c => rfl
    | none =>
      rcases ht hc with h' | h'
      · exact absurd h' he
      · omega

/-- what `closeDecoder` does to the basic reader, given what the decoder `consumed` -/
def applyC (b : Basic) (c : Nat × Bool) : Basic :=
  { b with stream := { b.stream with pos := b.stream.pos + min c.1 b.remaining,
                                     moved := b.stream.moved + min c.1 b.remaining },
           remaining := b.remaining - min c.1 b.remaining, eof := b.eof || c.2 }

theorem closeDecoder_basic {s : St} {o : Open} (h : s.dec = some o) :
    (closeDecoder s).basic = applyC s.basic o.consumed := by
  unfold closeDecoder; simp only [h]; rfl

theorem closeDecoder_none {s : St} (h : s.dec = none) : closeDecoder s = s := by
  unfold closeDecoder; simp only [h]

/-- taking `min n remaining` bytes of the current member — and setting END only when END was
due anyway — changes nothing up to consumption -/
theorem consEq_applyC {b : Basic} (c : Nat × Bool) (ht : Tidy b) (hd : c.2 = true → Doomed b) :
    ConsEq b (applyC b c) ∧ Tidy (applyC b c) := by
  have hm : mEnd (applyC b c) = mEnd b := by
    simp only [mEnd, applyC]; omega
  have htidy : Tidy (applyC b c) := by
    intro hc
    rcases ht hc with h | h
    · left; simp [applyC, h]
    · right; simp only [applyC]; omega
  refine ⟨⟨rfl, rfl, ?_⟩, htidy⟩
  by_cases hD : Doomed b
  · left
    refine ⟨hD, ?_⟩
    rcases hD with h | ⟨h1, h2⟩
    · left; simp [applyC, h]
    · right; exact ⟨h1, by rw [hm]; exact h2⟩
  · right
    have he : b.eof = false := by
      cases h : b.eof with
      | false => rfl
      | true => exact absurd (Or.inl h) hD
    have hc2 : c.2 = false := by
      cases h : c.2 with
      | false => rfl
      | true => exact absurd (hd h) hD
    refine ⟨he, by simp [applyC, he, hc2], rfl, rfl, hm.symm, fun hc => ?_⟩
    have := (ht hc).resolve_left (by simp [he])
    exact ⟨this, by simp only [applyC]; omega⟩

/-- **the effective basic reader**: closing the decoder does not change the basic reader up to
consumption -/
theorem eff_consEq {s : St} (hd : DecOK s) (ht : Tidy s.basic) :
    ConsEq s.basic (closeDecoder s).basic ∧ Tidy (closeDecoder s).basic := by
  cases h : s.dec with
  | none => rw [closeDecoder_none h]; exact ⟨ConsEq.refl ht, ht⟩
  | some o =>
    rw [closeDecoder_basic h]
    exact consEq_applyC _ ht (fun hc => short_memberSrc (consumed_dead (hd o h) hc) ht)

end LhasaV.ReaderIndep
