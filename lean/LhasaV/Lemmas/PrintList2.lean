import LhasaV.Lemmas.PrintList1
/-!
# C06, `lha p` on archive bytes (part 2): `print_archived_file` delivers exactly the member's data

The read loop of `print_archived_file` (512-byte `lha_reader_read`s until an empty one) on a file
member of `archiveWith pk es`: the first read opens the member's decoder on exactly the packer's
compressed bytes (`memberSrc_present`), the sequence of reads is the wrapper's `drain`
(`printLoop_plainIn`), sequential reads hand out the decoder's output stream cut at the declared
length and nothing else (C14: `read_out_tail`, `tail_read`, `drain_all`), and that stream is the
file's data (`PackOk.decodes`, the decoder round trips of C01–C04).  Afterwards the reader stands
before the remaining members (`print_member`).
-/
set_option linter.unusedSimpArgs false
namespace LhasaV.PrintList
open LhasaV LhasaV.Header LhasaV.Extract LhasaV.ExtractTree LhasaV.ArchiveOf LhasaV.Reader
open LhasaV.ReaderIndep LhasaV.MacProps

/-! ## the loop -/

/-- on an open plain decoder the loop is the wrapper's loop with 512-byte reads -/
theorem printLoop_plainIn (fuel : Nat) {s : Reader.St} {d : Dec} {w : Wrap.St (Except String d.σ)}
    (h : PlainIn s d w) (acc : List UInt8) :
    (printLoop fuel s acc).1 = (drain d.total 512 fuel w acc).1 ∧
    PlainIn (printLoop fuel s acc).2 d (drain d.total 512 fuel w acc).2 := by
  induction fuel generalizing s w acc with
  | zero => exact ⟨rfl, h⟩
  | succ n ih =>
    obtain ⟨h1, h2⟩ := read_plainIn h 512
    unfold printLoop drain
    dsimp only
    rw [h1]
    split
    · exact ⟨rfl, h2⟩
    · exact ih h2 _

/-- the first `lha_reader_read` opens the decoder and reads from it -/
theorem read_opens {s : Reader.St} {d : Dec} {w : Wrap.St (Except String d.σ)} (hd : s.dec = none)
    (h1 : (openDecoder s).1 = true) (h2 : PlainIn (openDecoder s).2 d w) (k : Nat) :
    Reader.read s k = Reader.read (openDecoder s).2 k := by
  obtain ⟨mc, dg, e⟩ := h2
  rw [read_eq s, read_eq (openDecoder s).2]
  simp only [hd, h1, if_true, e, Option.isSome_some, Bool.true_or]

theorem printLoop_opens {s : Reader.St} {d : Dec} {w : Wrap.St (Except String d.σ)} (hd : s.dec = none)
    (h1 : (openDecoder s).1 = true) (h2 : PlainIn (openDecoder s).2 d w) (n : Nat) (acc : List UInt8) :
    printLoop (n + 1) s acc = printLoop (n + 1) (openDecoder s).2 acc := by
  unfold printLoop
  rw [read_opens hd h1 h2]

/-- the loop only moves the decoder -/
theorem printLoop_step (fuel : Nat) {s : Reader.St} (hp : Pre s) (acc : List UInt8) :
    DecStep s (printLoop fuel s acc).2 := by
  induction fuel generalizing s acc with
  | zero => exact DecStep.refl hp
  | succ n ih =>
    unfold printLoop
    dsimp only
    split
    · exact read_step honestAll hp 512
    · exact (read_step honestAll hp 512).trans (ih (read_step honestAll hp 512).pre _)

theorem printLoop_good (fuel : Nat) {s : Reader.St} (hg : Good s) (acc : List UInt8) :
    Good (printLoop fuel s acc).2 := by
  induction fuel generalizing s acc with
  | zero => exact hg
  | succ n ih =>
    have h1 : Good (Reader.read s 512).2 := step_good honestAll hg (.read 512)
    unfold printLoop
    dsimp only
    split
    · exact h1
    · exact ih h1 _

/-! ## a file member -/

/-- **`print_archived_file` on a file member of the archive**: the bytes written are exactly the
file's data, and the reader then stands before the remaining members -/
theorem print_member {pk : Packer} {A : Array UInt8} {p : Fs.Path} {data : Bytes} {perms : Option Nat}
    {t : Nat} {tl : List Entry} {c : HObj} {rd : Reader.St} (hpk : PackOk pk data)
    (h : Shown pk A (.file p data perms t) tl c rd) :
    (printLoop (c.h.length + 2) rd []).1 = data ∧
    Walk pk A tl (printLoop (c.h.length + 2) rd []).2 := by
  constructor
  · obtain ⟨hdat, _, hrem, heof, _, _, hdrop⟩ := h.got
    obtain ⟨d, info, hd, hi, hdec⟩ := hpk.decodes
    have hh := h.hdr
    have hm : c.h.method = (pk.pack data).1 := by rw [hh]; rfl
    have hname : methodName c.h = mname (pk.pack data).1 := by rw [methodName_eq, hm]
    have hos : c.h.osType ≠ 0x6d := by rw [hh, hdrOf_os]; decide
    rw [← hname] at hd hi
    obtain ⟨h1, h2, _⟩ := openDecoder_plainIn h.normal h.curr hos hd hi
    have hsrc := memberSrc_present rd.basic (pk.pack data).2 (flat pk tl) hrem heof
      (by rw [hdat]; exact hdrop)
    have hl : c.h.length = data.length := by rw [hh]; rfl
    have hinner : innerBytes rd c d = data := by
      unfold innerBytes
      rw [hsrc, hl]; exact hdec
    have hT := tail_inner0 rd c d info.2.2
    have hall := drain_all d.total 512 (by decide) (c.h.length + 2) (inner0 rd c d info.2.2) []
      (by rw [hT, hinner, hl]; omega)
    rw [printLoop_opens h.dec h1 h2, (printLoop_plainIn _ h2 []).1, hall.1, hT, hinner]
    rfl
  · have hst := printLoop_step (c.h.length + 2) h.good.pre ([] : List UInt8)
    have hty : (printLoop (c.h.length + 2) rd []).2.currType = .normal := by
      rw [hst.frame.currType, h.normal]
    refine ⟨printLoop_good _ h.good _, ?_, (by rw [hty]; exact fun x => (by cases x)),
      (by rw [hst.frame.dirStack, h.ds]), (by rw [hst.frame.deferred, h.df])⟩
    simp only [RState, hty]
    exact h.got.at.consEq hst.basic

end LhasaV.PrintList
