import LhasaV.Lemmas.ArchiveOf3
import LhasaV.Lemmas.ReaderIndep
/-!
# C06, archives as bytes (part 4): the basic reader on the bytes of `archiveOf`

`nextTail_member`: positioned where a member begins (at the very start of the stream, before
the signature scan has run, or right behind the previous member), the parse half of
`lha_basic_reader_next_file` finds the member's header, returns `hdrOf e`, and stands where the
member's data begins, the lead-in buffer drained.
-/
set_option linter.unusedSimpArgs false
namespace LhasaV.ArchiveOf
open LhasaV LhasaV.Header LhasaV.Extract LhasaV.GlobFs LhasaV.Contain LhasaV.ExtractTree
open LhasaV.ExtractTree.Sample LhasaV.Spec.HeaderEnc LhasaV.Reader

/-! ## the stream -/

theorem lhdM_sig : SigOk lhdM := by decide

theorem lh0_sig : SigOk lh0 := by decide

theorem method_sig (pk : Packer) (e : Entry) (hpk : FilePack pk e) : SigOk (fieldsOf pk e).method := by
  cases e with
  | dir _ _ _ => exact lhdM_sig
  | file _ data _ _ => exact hpk.sig
  | link _ _ => exact lhdM_sig

theorem sigAt_of_sigOk (m : Bytes) (h : SigOk m) (a b : UInt8) (tl : Bytes) :
    Stream.sigAt (a :: b :: (m ++ tl)) 0 := by
  obtain ⟨hl, hs⟩ := h
  match m, hl with
  | [m0, m1, m2, m3, m4], _ =>
    simpa [Stream.sigAt] using hs

/-- the signature scan finds a member's header at once -/
theorem firstHeader_member (pk : Packer) (e : Entry) (hpk : FilePack pk e) (rest : Bytes) :
    Stream.firstHeader (encode (fieldsOf pk e) ++ rest) = some 0 := by
  obtain ⟨a, b, tl, hs, hl⟩ := encode_shape pk e
  have hm := method_sig pk e hpk
  rw [hs]
  have hsig : Stream.sigAt (a :: b :: ((fieldsOf pk e).method ++ tl) ++ rest) 0 := by
    have := sigAt_of_sigOk _ hm a b (tl ++ rest)
    simpa [List.append_assoc] using this
  have hlen : 26 ≤ (a :: b :: ((fieldsOf pk e).method ++ tl) ++ rest).length := by
    simp [hm.1]; omega
  unfold Stream.firstHeader Stream.firstHeaderLim
  have hS : Stream.scanLimit = 262152 := rfl
  obtain ⟨k, hk⟩ : ∃ k, min ((a :: b :: ((fieldsOf pk e).method ++ tl) ++ rest).length - 12) Stream.scanLimit = k + 1 :=
    ⟨min ((a :: b :: ((fieldsOf pk e).method ++ tl) ++ rest).length - 12) Stream.scanLimit - 1, by omega⟩
  rw [hk]
  unfold Stream.firstFrom
  rw [if_pos ⟨hsig, rfl⟩]

theorem advance_spec (s : Stream.St) (k : Nat) (h1 : s.leadin.length ≤ k) (h2 : k ≤ (Stream.rest s).length) :
    (Stream.advance s k).leadin = [] ∧ Stream.src (Stream.advance s k) = (Stream.rest s).drop k ∧
    (Stream.advance s k).data = s.data ∧ (Stream.advance s k).phase = s.phase ∧
    (Stream.advance s k).kind = s.kind := by
  have hr := Stream.rest_eq s
  have hsl := Stream.src_length s
  rw [hr, List.length_append, hsl] at h2
  refine ⟨?_, ?_, rfl, rfl, rfl⟩
  · simp only [Stream.advance]
    rw [Nat.min_eq_right h1]; simp
  · rw [hr, List.drop_append, List.drop_eq_nil_of_le h1, List.nil_append]
    simp only [Stream.advance, Stream.src]
    rw [Nat.min_eq_right h1, Nat.min_eq_left (by omega), List.drop_drop]

/-- `start` on a stream that stands at a member's header: after it the stream is `reading` and
will deliver the same bytes -/
theorem start_member (pk : Packer) (s : Stream.St) (e : Entry) (hpk : FilePack pk e) (rest : Bytes)
    (hph : s.phase = .init ∨ s.phase = .reading) (hl : s.leadin = [])
    (hsrc : Stream.src s = encode (fieldsOf pk e) ++ rest) :
    ∃ s', Stream.start s = .ok s' ∧ s'.data = s.data ∧ s'.leadin.length ≤ 24 ∧
      s'.phase = .reading ∧ Stream.rest s' = encode (fieldsOf pk e) ++ rest := by
  rcases hph with hp | hp
  · obtain ⟨s', e1, e2, _, e4, e5⟩ := Stream.scan_finds_first s hp hl _ rfl
    rw [Stream.extract_eq_src, hsrc, firstHeader_member pk e hpk] at e5
    exact ⟨s', e1, e2, e4, e5.1, e5.2⟩
  · refine ⟨s, ?_, rfl, by simp [hl], hp, by rw [Stream.rest_eq, hl, hsrc]; rfl⟩
    unfold Stream.start
    simp [hp, Stream.phase_beq]

/-- **the parse half of `lha_basic_reader_next_file` at a member** -/
theorem nextTail_member (pk : Packer) (mk : Nat → Nat) (b : Basic) (led : Ledger) (e : Entry) (rest : Bytes)
    (hk : EntryOk e) (he : EntryEnc e) (hpk : FilePack pk e) (heof : b.eof = false)
    (hph : b.stream.phase = .init ∨ b.stream.phase = .reading) (hl : b.stream.leadin = [])
    (hsrc : Stream.src b.stream = encode (fieldsOf pk e) ++ (dataOf pk e ++ rest)) :
    ∃ b' led', Stream.nextTail mk b led = .ok (b', led') ∧
      b'.stream.data = b.stream.data ∧ (∃ id, b'.curr = some ⟨id, hdrOf pk e⟩) ∧
      b'.remaining = (dataOf pk e).length ∧ b'.eof = false ∧ b'.stream.phase = .reading ∧
      b'.stream.leadin = [] ∧ Stream.src b'.stream = dataOf pk e ++ rest := by
  obtain ⟨s', e1, e2, e3, e4, e5⟩ := start_member pk b.stream e hpk (dataOf pk e ++ rest) hph hl hsrc
  have hread := header_read_member pk mk e hk he hpk (dataOf pk e ++ rest)
  obtain ⟨x, y, tl, hs, htl⟩ := encode_shape pk e
  have hmlen : (fieldsOf pk e).method.length = 5 := (method_sig pk e hpk).1
  have henc : 26 ≤ (encode (fieldsOf pk e)).length := by
    rw [hs]; simp [hmlen]; omega
  have hused : (Stream.rest s').length - (dataOf pk e ++ rest).length = (encode (fieldsOf pk e)).length := by
    rw [e5]; simp
  obtain ⟨a1, a2, a3, a4, _⟩ := advance_spec s' (encode (fieldsOf pk e)).length (by omega)
    (by rw [e5]; simp)
  unfold Stream.nextTail
  simp only [heof, Bool.false_eq_true, if_false, e1, Res.ok_bind, e4, Stream.phase_beq, decide_false]
  rw [e5, hread]
  simp only [← e5, hused]
  refine ⟨_, _, rfl, by rw [a3, e2], ⟨_, rfl⟩, hdrOf_clen pk e, rfl, by rw [a4, e4], a1, ?_⟩
  show Stream.src (Stream.advance s' (encode (fieldsOf pk e)).length) = _
  rw [a2, e5]; simp

end LhasaV.ArchiveOf
