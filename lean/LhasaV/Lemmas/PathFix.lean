import LhasaV.Model.PathFix
/-!
Invariant proof for `collapse_path`: for EVERY byte string, every
'/'-terminated component of the result is a real name.
-/
namespace LhasaV.PathFix

/-! ### the property, as an index statement -/

def Boundary (p : Bytes) (a : Nat) : Prop := a = 0 ∨ at' p (a - 1) = slash

def GoodAt (p : Bytes) (a e : Nat) : Prop :=
  a < e ∧ ¬ (e = a + 1 ∧ at' p a = dot) ∧ ¬ (e = a + 2 ∧ at' p a = dot ∧ at' p (a + 1) = dot)

/-- every '/'-terminated component whose terminator lies below `m` is a real name -/
def CleanUpTo (p : Bytes) (m : Nat) : Prop :=
  ∀ a e, Boundary p a → a ≤ e → e < m → at' p e = slash →
    (∀ i, a ≤ i → i < e → at' p i ≠ slash) → GoodAt p a e

def Clean (p : Bytes) : Prop := CleanUpTo p p.length

def Inv (s : St) : Prop :=
  s.cur ≤ s.out.length ∧ Boundary s.out s.cur ∧ CleanUpTo s.out s.cur ∧
  ∀ i, s.cur ≤ i → at' s.out i ≠ slash

theorem slash_ne_zero : (0 : Byte) ≠ slash := by decide

theorem at_append_left (l : Bytes) (c : Byte) (i : Nat) (h : i < l.length) :
    at' (l ++ [c]) i = at' l i := by
  simp [at', List.getD_eq_getElem?_getD, List.getElem?_append_left h]

theorem at_append_last (l : Bytes) (c : Byte) : at' (l ++ [c]) l.length = c := by
  simp [at', List.getD_eq_getElem?_getD]

theorem at_take (l : Bytes) (n i : Nat) (h : i < n) : at' (l.take n) i = at' l i := by
  simp [at', List.getD_eq_getElem?_getD, List.getElem?_take, h]

theorem at_oob (l : Bytes) (i : Nat) (h : l.length ≤ i) : at' l i = 0 := by
  simp [at', List.getD_eq_getElem?_getD, List.getElem?_eq_none h]

theorem backTo_props (out : Bytes) (k : Nat) :
    backTo out k ≤ k ∧ Boundary out (backTo out k) ∧
    ∀ i, backTo out k ≤ i → i < k → at' out i ≠ slash := by
  induction k with
  | zero => simp [backTo, Boundary]
  | succ k ih =>
    unfold backTo
    split
    · rename_i h
      refine ⟨Nat.le_refl _, Or.inr (by simpa using h), fun i h1 h2 => by omega⟩
    · rename_i h
      obtain ⟨h1, h2, h3⟩ := ih
      refine ⟨by omega, h2, fun i hi1 hi2 => ?_⟩
      by_cases hik : i = k
      · subst hik; exact h
      · exact h3 i hi1 (by omega)


/-- restricting to a prefix keeps cleanliness below the cut -/
theorem clean_take (p : Bytes) (m w : Nat) (hw : w ≤ m) (h : CleanUpTo p m) :
    CleanUpTo (p.take w) w := by
  intro a e hb hae hew hs hno
  have hb' : Boundary p a := by
    rcases hb with rfl | hb
    · exact Or.inl rfl
    · by_cases ha : a = 0
      · exact Or.inl ha
      · right; rw [at_take _ _ _ (by omega)] at hb; exact hb
  have := h a e hb' hae (by omega) (by rw [at_take _ _ _ hew] at hs; exact hs)
    (fun i h1 h2 => by have := hno i h1 h2; rwa [at_take _ _ _ (by omega)] at this)
  obtain ⟨g1, g2, g3⟩ := this
  refine ⟨g1, ?_, ?_⟩
  · intro ⟨h1, h2⟩; apply g2; refine ⟨h1, ?_⟩; rwa [at_take _ _ _ (by omega)] at h2
  · intro ⟨h1, h2, h3⟩; apply g3
    refine ⟨h1, ?_, ?_⟩
    · rwa [at_take _ _ _ (by omega)] at h2
    · rwa [at_take _ _ _ (by omega)] at h3

theorem boundary_take (p : Bytes) (w : Nat) (h : Boundary p w) : Boundary (p.take w) w := by
  rcases h with rfl | h
  · exact Or.inl rfl
  · by_cases hw : w = 0
    · exact Or.inl hw
    · right; rw [at_take _ _ _ (by omega)]; exact h

theorem noslash_after_take (p : Bytes) (w : Nat) : ∀ i, w ≤ i → at' (p.take w) i ≠ slash := by
  intro i hi
  rw [at_oob _ _ (by simp; omega)]
  exact slash_ne_zero

/-- appending a byte keeps cleanliness below the old length -/
theorem clean_append (p : Bytes) (c : Byte) (m : Nat) (hm : m ≤ p.length) (h : CleanUpTo p m) :
    CleanUpTo (p ++ [c]) m := by
  intro a e hb hae hem hs hno
  have hb' : Boundary p a := by
    rcases hb with rfl | hb
    · exact Or.inl rfl
    · by_cases ha : a = 0
      · exact Or.inl ha
      · right; rw [at_append_left _ _ _ (by omega)] at hb; exact hb
  have := h a e hb' hae hem (by rw [at_append_left _ _ _ (by omega)] at hs; exact hs)
    (fun i h1 h2 => by have := hno i h1 h2; rwa [at_append_left _ _ _ (by omega)] at this)
  obtain ⟨g1, g2, g3⟩ := this
  refine ⟨g1, ?_, ?_⟩
  · intro ⟨h1, h2⟩; apply g2; refine ⟨h1, ?_⟩; rwa [at_append_left _ _ _ (by omega)] at h2
  · intro ⟨h1, h2, h3⟩; apply g3
    refine ⟨h1, ?_, ?_⟩
    · rwa [at_append_left _ _ _ (by omega)] at h2
    · rwa [at_append_left _ _ _ (by omega)] at h3

theorem boundary_append (p : Bytes) (c : Byte) (a : Nat) (ha : a ≤ p.length) (h : Boundary p a) :
    Boundary (p ++ [c]) a := by
  rcases h with rfl | h
  · exact Or.inl rfl
  · by_cases h0 : a = 0
    · exact Or.inl h0
    · right; rw [at_append_left _ _ _ (by omega)]; exact h

theorem step_inv (s : St) (ch : Byte) (h : Inv s) : Inv (step s ch) := by
  obtain ⟨hle, hb, hc, hn⟩ := h
  unfold step
  simp only
  split
  · -- ch = '/'
    rename_i hch
    subst hch
    split
    · -- empty or "." : w = currpath
      refine ⟨by simp; omega, ?_, ?_, ?_⟩
      · exact boundary_take _ _ (boundary_append _ _ _ hle hb)
      · exact clean_take _ s.cur s.cur (Nat.le_refl _) (clean_append _ _ _ hle hc)
      · exact noslash_after_take _ _
    · split
      · -- ".."
        split
        · refine ⟨by simp, Or.inl rfl, ?_, ?_⟩
          · intro a e _ _ he; simp at he
          · intro i _; rw [at_oob _ _ (by simp)]; exact slash_ne_zero
        · rename_i hcur
          have hp := backTo_props (s.out ++ [slash]) (s.cur - 1)
          obtain ⟨p1, p2, _⟩ := hp
          refine ⟨by simp; omega, boundary_take _ _ p2, ?_, noslash_after_take _ _⟩
          exact clean_take _ s.cur _ (by omega) (clean_append _ _ _ hle hc)
      · -- a real name: currpath = w
        rename_i h1 h2
        refine ⟨by simp, ?_, ?_, ?_⟩
        · right; simp only [List.length_append, List.length_singleton, Nat.add_sub_cancel]
          exact at_append_last _ _
        · -- cleanliness including the new component
          intro a e hba hae he hs hno
          simp only [List.length_append, List.length_singleton] at he
          by_cases hec : e < s.cur
          · exact clean_append _ _ _ hle hc a e hba hae hec hs hno
          · -- the terminator is the new '/'
            have heq : e = s.out.length := by
              by_cases hlt : e < s.out.length
              · exfalso
                rw [at_append_left _ _ _ hlt] at hs
                exact hn e (by omega) hs
              · omega
            subst heq
            have hacur : a = s.cur := by
              rcases Nat.lt_trichotomy a s.cur with hlt | heq | hgt
              · exfalso
                rcases hb with h0 | hb
                · omega
                · have := hno (s.cur - 1) (by omega) (by omega)
                  rw [at_append_left _ _ _ (by omega)] at this
                  exact this hb
              · exact heq
              · exfalso
                rcases hba with h0 | hba
                · omega
                · rw [at_append_left _ _ _ (by omega)] at hba
                  exact hn (a - 1) (by omega) hba
            subst hacur
            simp only [List.length_append, List.length_singleton] at h1 h2
            refine ⟨?_, ?_, ?_⟩
            · by_cases hh : s.cur < s.out.length
              · exact hh
              · exfalso; apply h1; left; omega
            · intro ⟨g1, g2⟩; apply h1; right; exact ⟨by omega, g2⟩
            · intro ⟨g1, g2, g3⟩; apply h2; exact ⟨by omega, g2, g3⟩
        · intro i hi
          simp only [List.length_append, List.length_singleton] at hi
          rw [at_oob _ _ (by simp; omega)]
          exact slash_ne_zero
  · -- ordinary byte
    rename_i hch
    refine ⟨by simp; omega, boundary_append _ _ _ hle hb, clean_append _ _ _ hle hc, ?_⟩
    intro i hi
    by_cases hlt : i < s.out.length
    · rw [at_append_left _ _ _ hlt]; exact hn i hi
    · by_cases heq : i = s.out.length
      · subst heq; rw [at_append_last]; exact hch
      · rw [at_oob _ _ (by simp; omega)]; exact slash_ne_zero

theorem foldl_inv (l : Bytes) (s : St) (h : Inv s) : Inv (l.foldl step s) := by
  induction l generalizing s with
  | nil => exact h
  | cons c cs ih => exact ih _ (step_inv s c h)

/-- C11 core: for EVERY byte string, every '/'-terminated component of the result is a real name -/
theorem collapseRel_clean (l : Bytes) : Clean (collapseRel l) := by
  have h := foldl_inv l ⟨[], 0⟩ ⟨by simp, Or.inl rfl, by intro a e _ _ he; simp at he, by
    intro i _; rw [at_oob _ _ (by simp)]; exact slash_ne_zero⟩
  obtain ⟨h1, _, h3, h4⟩ := h
  intro a e hb hae he hs hno
  by_cases hec : e < (l.foldl step ⟨[], 0⟩).cur
  · exact h3 a e hb hae hec hs hno
  · exact absurd hs (h4 e (by omega))


/-- remove one optional leading '/' -/
def stripLead : Bytes → Bytes
  | [] => []
  | c :: rest => if c = slash then rest else c :: rest

/-- the path invariant of C11: apart from one optional leading '/', every
'/'-terminated component is a real name (not empty, not ".", not "..") -/
def CleanPath (p : Bytes) : Prop := Clean (stripLead p)

theorem clean_no_lead_slash (p : Bytes) (h : Clean p) (hne : p ≠ []) : at' p 0 ≠ slash := by
  intro hs
  have hlen : 0 < p.length := by cases p <;> simp_all
  have := h 0 0 (Or.inl rfl) (Nat.le_refl _) hlen hs (fun i h1 h2 => by omega)
  exact absurd this.1 (by omega)

theorem stripLead_cons_slash (rest : Bytes) : stripLead (slash :: rest) = rest := by
  simp [stripLead]

theorem stripLead_of_clean (r : Bytes) (hc : Clean r) : stripLead r = r := by
  cases r with
  | nil => rfl
  | cons d ds =>
    have := clean_no_lead_slash (d :: ds) hc (by simp)
    simp [at'] at this
    simp [stripLead, this]

theorem collapse_clean (l : Bytes) : CleanPath (collapse l) := by
  unfold CleanPath
  cases l with
  | nil => intro a e _ _ he; simp [collapse, stripLead] at he
  | cons c rest =>
    by_cases h : c = slash
    · subst h
      have : collapse (slash :: rest) = slash :: collapseRel rest := by simp [collapse]
      rw [this, stripLead_cons_slash]; exact collapseRel_clean rest
    · have : collapse (c :: rest) = collapseRel (c :: rest) := by simp [collapse, h]
      rw [this, stripLead_of_clean _ (collapseRel_clean _)]; exact collapseRel_clean _

end LhasaV.PathFix
