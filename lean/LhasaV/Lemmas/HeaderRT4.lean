import LhasaV.Lemmas.HeaderRT3
/-!
Round trip, layer 4: the level-0 extended area, the level-0 decoder, the level-1 chain reader
and the level-1 decoder on an encoded header.
-/
namespace LhasaV.HeaderRT
open LhasaV LhasaV.Header LhasaV.Spec.HeaderEnc

/-! ### the level-0 extended area -/

theorem methodStarts_pm (h : Hdr) :
    (methodStarts h "-pm" = true) ↔ h.method.take 3 = "-pm".toUTF8.toList := by
  unfold methodStarts
  have : "-pm".length = 3 := by decide
  rw [this]
  exact beq_iff_eq

theorem u8_eq_lit (b c : UInt8) : b.toNat = c.toNat ↔ b = c := UInt8.toNat_inj

theorem area_unix {h : Hdr} {tag ts p u g : Nat} {mid pre post : Bytes} {off len : Nat}
    (hwf : (Area.unix tag ts mid p u g).wf = true)
    (hraw : h.raw = pre ++ ((Area.unix tag ts mid p u g).bytes ++ post)) (hoff : off = pre.length)
    (hlen : len = (Area.unix tag ts mid p u g).bytes.length)
    (hpm : ¬ h.method.take 3 = "-pm".toUTF8.toList) :
    level0ExtArea h off len = .ok (applyArea h (.unix tag ts mid p u g)) := by
  simp only [Area.wf, Bool.and_eq_true, Bool.or_eq_true, beq_iff_eq, decide_eq_true_eq] at hwf
  obtain ⟨htag, hts, hp, hu, hg⟩ := hwf
  have hd : h.raw.drop off = UInt8.ofNat tag :: 0 :: (le32 ts ++ (mid ++ (le16 p ++ (le16 u ++ (le16 g ++ post))))) := by
    rw [hraw, hoff, List.drop_left' rfl]; simp [Area.bytes, List.append_assoc]
  have hl : len = 12 + mid.length := by
    rw [hlen]; simp [Area.bytes]; omega
  have d1 := drop_cons (m := off + 1) hd rfl
  have d2 := drop_cons (m := off + 2) d1 rfl
  have d6 := drop_app (m := off + 6) d2 rfl
  have dp := drop_app (m := off + len - 6) d6 (by omega)
  have du := drop_app (m := off + len - 4) dp (by simp only [le16_length]; omega)
  have dg := drop_app (m := off + len - 2) du (by simp only [le16_length]; omega)
  have htag' : tag < 256 := by omega
  have hpm' : ¬ methodStarts h "-pm" = true := fun x => hpm ((methodStarts_pm h).mp x)
  unfold level0ExtArea
  have h12 : ¬ len < Gen.level0UnixExtendedLen := by simp only [Gen.level0UnixExtendedLen]; omega
  simp only [rdU8_drop hd htag', Res.ok_bind]
  rw [if_neg hpm', if_pos htag, if_neg h12]
  simp only [rdU8_drop_byte d1, Res.ok_bind]
  rw [if_neg (fun x => x rfl)]
  simp only [rdU32_drop d2 hts, rdU16_drop dp hp, rdU16_drop du hu, rdU16_drop dg hg, Res.ok_bind]
  rfl

theorem area_os9 {h : Hdr} {d pre post : Bytes} {off len : Nat}
    (hwf : (Area.os9 d).wf = true)
    (hraw : h.raw = pre ++ (d ++ post)) (hoff : off = pre.length)
    (hlen : len = d.length)
    (hpm : ¬ h.method.take 3 = "-pm".toUTF8.toList) :
    level0ExtArea h off len = .ok (applyArea h (.os9 d)) := by
  simp only [Area.wf, Bool.and_eq_true, beq_iff_eq, decide_eq_true_eq] at hwf
  obtain ⟨⟨⟨⟨h22, h0⟩, h9⟩, h117⟩, h218⟩ := hwf
  have hd : h.raw.drop off = d ++ post := by rw [hraw, hoff, List.drop_left' rfl]
  have hpm' : ¬ methodStarts h "-pm" = true := fun x => hpm ((methodStarts_pm h).mp x)
  have r0 : ∀ s, rdU8 s h.raw off = .ok 57 := fun s => by
    have := rdU8_getD (s := s) hd (i := 0) (by omega)
    rw [Nat.add_zero, h0] at this; exact this
  unfold level0ExtArea
  have h22' : ¬ len < Gen.level0Os9ExtendedLen := by simp only [Gen.level0Os9ExtendedLen]; omega
  simp only [r0, Res.ok_bind]
  rw [if_neg hpm', if_neg (by omega), if_pos trivial, if_neg h22']
  simp only [rdU8_getD hd (i := 9) (by omega), rdU8_getD hd (i := 1) (by omega),
    rdU8_getD hd (i := 17) (by omega), rdU8_getD hd (i := 2) (by omega),
    rdU8_getD hd (i := 18) (by omega), rdU16_getD hd (i := 1) (by omega), Res.ok_bind, h9, h117.symm, h218.symm]
  rw [if_neg (by decide), if_neg (fun x => x rfl), if_neg (fun x => x rfl)]
  rfl


theorem u8_toNat_lit {b : UInt8} {c : UInt8} : b.toNat = c.toNat ↔ b = c := UInt8.toNat_inj

theorem area_raw {h : Hdr} {d pre post : Bytes} {off len : Nat}
    (hwf : (Area.raw d).wf = true)
    (hraw : h.raw = pre ++ (d ++ post)) (hoff : off = pre.length)
    (hlen : len = d.length)
    (hpm : ¬ h.method.take 3 = "-pm".toUTF8.toList) :
    level0ExtArea h off len = .ok h := by
  simp only [Area.wf, Bool.and_eq_true, decide_eq_true_eq, Bool.not_eq_true',
    Bool.or_eq_false_iff, Bool.and_eq_false_iff, beq_eq_false_iff_ne, decide_eq_false_iff_not, ne_eq] at hwf
  obtain ⟨h1, hnU, hn9⟩ := hwf
  have hd : h.raw.drop off = d ++ post := by rw [hraw, hoff, List.drop_left' rfl]
  have hpm' : ¬ methodStarts h "-pm" = true := fun x => hpm ((methodStarts_pm h).mp x)
  have r0 : ∀ s, rdU8 s h.raw off = .ok (d.getD 0 0).toNat := fun s => by
    have := rdU8_getD (s := s) hd (i := 0) (by omega)
    rw [Nat.add_zero] at this; exact this
  unfold level0ExtArea
  simp only [r0, Res.ok_bind]
  rw [if_neg hpm']
  by_cases hUK : (d.getD 0 0).toNat = 85 ∨ (d.getD 0 0).toNat = 75
  · rw [if_pos hUK]
    by_cases hl12 : len < Gen.level0UnixExtendedLen
    · rw [if_pos hl12]; rfl
    · rw [if_neg hl12]
      simp only [Gen.level0UnixExtendedLen] at hl12
      simp only [rdU8_getD hd (i := 1) (by omega), Res.ok_bind]
      have hb1 : ¬ d.getD 1 0 = 0 := by
        rcases hnU with (⟨h85, h75⟩ | hl) | hb
        · rcases hUK with e | e
          · exact absurd (UInt8.toNat_inj.mp (e.trans rfl)) h85
          · exact absurd (UInt8.toNat_inj.mp (e.trans rfl)) h75
        · omega
        · exact hb
      rw [if_pos (fun x => hb1 (UInt8.toNat_inj.mp (x.trans rfl)))]
      rfl
  · rw [if_neg hUK]
    by_cases h57 : (d.getD 0 0).toNat = 57
    · rw [if_pos h57]
      by_cases hl22 : len < Gen.level0Os9ExtendedLen
      · rw [if_pos hl22]; rfl
      · rw [if_neg hl22]
        simp only [Gen.level0Os9ExtendedLen] at hl22
        simp only [rdU8_getD hd (i := 9) (by omega), rdU8_getD hd (i := 1) (by omega),
          rdU8_getD hd (i := 17) (by omega), rdU8_getD hd (i := 2) (by omega),
          rdU8_getD hd (i := 18) (by omega), rdU16_getD hd (i := 1) (by omega), Res.ok_bind]
        by_cases c9 : (d.getD 9 0).toNat ≠ 204
        · rw [if_pos c9]; rfl
        rw [if_neg c9]
        by_cases c1 : (d.getD 1 0).toNat ≠ (d.getD 17 0).toNat
        · rw [if_pos c1]; rfl
        rw [if_neg c1]
        by_cases c2 : (d.getD 2 0).toNat ≠ (d.getD 18 0).toNat
        · rw [if_pos c2]; rfl
        exfalso
        rcases hn9 with (((e | e) | e) | e) | e
        · exact e (UInt8.toNat_inj.mp (h57.trans rfl))
        · omega
        · exact e (UInt8.toNat_inj.mp ((Classical.not_not.mp c9).trans rfl))
        · exact e (UInt8.toNat_inj.mp (Classical.not_not.mp c1))
        · exact e (UInt8.toNat_inj.mp (Classical.not_not.mp c2))
    · rw [if_neg h57]; rfl


theorem level0ExtArea_enc {h : Hdr} {a : Area} {pre post : Bytes} {off len : Nat}
    (hwf : a.wf = true) (hraw : h.raw = pre ++ (a.bytes ++ post)) (hoff : off = pre.length)
    (hlen : len = a.bytes.length) (hpos : 0 < len) :
    level0ExtArea h off len =
      .ok (if h.method.take 3 = "-pm".toUTF8.toList then h else applyArea h a) := by
  by_cases hpm : h.method.take 3 = "-pm".toUTF8.toList
  · rw [if_pos hpm]
    unfold level0ExtArea
    rw [if_pos ((methodStarts_pm h).mpr hpm)]
    rfl
  · rw [if_neg hpm]
    cases a with
    | none => rw [hlen] at hpos; exact absurd hpos (by decide)
    | unix tag ts mid p u g => exact area_unix hwf hraw hoff hlen hpm
    | os9 d => exact area_os9 hwf hraw hoff hlen hpm
    | raw d => exact area_raw hwf hraw hoff hlen hpm

/-! ### level 0 -/

def body0 (f : Fields) : Bytes :=
  f.method ++ (le32 f.clen ++ (le32 f.length ++ (le32 f.time ++ (UInt8.ofNat f.attr :: 0 ::
    UInt8.ofNat f.name.length :: (f.name ++ (le16 f.crc ++ f.area.bytes))))))

theorem enc_l0 (c : Nat) {f : Fields} (hl : f.level = 0) :
    encodeWith c f = UInt8.ofNat (body0 f).length :: UInt8.ofNat (Header.sumBytes (body0 f) % 256) :: body0 f := by
  simp [encodeWith, hl, body0, List.append_assoc]
  rfl

theorem body0_length {f : Fields} (hm : f.method.length = 5) :
    (body0 f).length = 22 + f.name.length + f.area.bytes.length := by
  simp only [body0, List.length_append, List.length_cons, le32_length, le16_length, hm]
  omega

def pre0 (f : Fields) : Bytes :=
  UInt8.ofNat (body0 f).length :: UInt8.ofNat (Header.sumBytes (body0 f) % 256) ::
    (f.method ++ (le32 f.clen ++ (le32 f.length ++ (le32 f.time ++ (UInt8.ofNat f.attr :: 0 ::
      UInt8.ofNat f.name.length :: (f.name ++ le16 f.crc))))))

theorem enc_l0' (c : Nat) {f : Fields} (hl : f.level = 0) :
    encodeWith c f = pre0 f ++ (f.area.bytes ++ []) := by
  rw [enc_l0 c hl]
  simp [pre0, body0, List.append_assoc]

theorem pre0_length {f : Fields} (hm : f.method.length = 5) : (pre0 f).length = 24 + f.name.length := by
  simp only [pre0, List.length_append, List.length_cons, le32_length, le16_length, hm]
  omega

theorem wf_l0 {f : Fields} (hwf : wf f = true) (hl : f.level = 0) :
    f.area.wf = true ∧ 22 + f.name.length + f.area.bytes.length ≤ 255 := by
  simp only [wf, Bool.and_eq_true, decide_eq_true_eq, List.all_eq_true, hl] at hwf
  obtain ⟨-, hx⟩ := hwf
  simp at hx
  exact ⟨hx.1.1.1.1, hx.1.1.1.2⟩

theorem splitFilename_raw (h : Hdr) : (splitFilename h).raw = h.raw := by
  unfold splitFilename; split
  · rfl
  · split <;> rfl
theorem splitFilename_level (h : Hdr) : (splitFilename h).level = h.level := by
  unfold splitFilename; split
  · rfl
  · split <;> rfl
theorem splitFilename_method (h : Hdr) : (splitFilename h).method = h.method := by
  unfold splitFilename; split
  · rfl
  · split <;> rfl
theorem level0Path_raw (h : Hdr) (n : Bytes) : (level0Path h n).raw = h.raw := by
  unfold level0Path; split
  · rfl
  · exact splitFilename_raw _
theorem level0Path_level (h : Hdr) (n : Bytes) : (level0Path h n).level = h.level := by
  unfold level0Path; split
  · rfl
  · exact splitFilename_level _
theorem level0Path_method (h : Hdr) (n : Bytes) : (level0Path h n).method = h.method := by
  unfold level0Path; split
  · rfl
  · exact splitFilename_method _

def setCrc (h : Hdr) (c : Nat) : Hdr := { h with crc := c }

theorem setCrc_eta (H : Hdr) (c : Nat) :
    Hdr.mk H.path H.filename H.symlinkTarget H.method H.compressedLength H.length H.level H.osType c
      H.timestamp H.raw H.extraFlags H.unixPerms H.unixUid H.unixGid H.os9Perms H.unixUsername H.unixGroup
      H.commonCrc H.winCreation H.winModification H.winAccess = setCrc H c := rfl

theorem splitFilename_setCrc (h : Hdr) (c : Nat) :
    setCrc (splitFilename h) c = splitFilename (setCrc h c) := by
  obtain ⟨p, fn, _⟩ := h
  cases fn with
  | none => rfl
  | some x =>
    simp only [splitFilename, setCrc]
    split <;> rfl

theorem level0Path_setCrc (h : Hdr) (n : Bytes) (c : Nat) :
    setCrc (level0Path h n) c = level0Path (setCrc h c) n := by
  unfold level0Path
  split
  · rfl
  · exact splitFilename_setCrc _ c

/-- the header of levels 0 and 1 after the fixed fields, before the name is processed -/
def base01 (mk : Nat → Nat) (f : Fields) (lvl os : Nat) (clen : Nat) (raw : Bytes) : Hdr :=
  { level := lvl, method := f.method, compressedLength := clen, length := f.length,
    crc := f.crc, raw := raw, timestamp := mk f.time, osType := os }

theorem typed_l0 (mk : Nat → Nat) {f : Fields} (hl : f.level = 0) :
    typed mk f =
      (if f.method.take 3 = "-pm".toUTF8.toList then
        level0Path (base01 mk f 0 0 f.clen (rawOf f)) f.name
       else applyArea (level0Path (base01 mk f 0 0 f.clen (rawOf f)) f.name) f.area) := by
  unfold typed level0Path base01
  simp only [hl, Nat.zero_le, if_true, Nat.zero_ne_one, if_false, slashes]
  cases f.name <;> rfl

theorem area_none_of_nil {a : Area} (hwf : a.wf = true) (h0 : a.bytes.length = 0) : a = .none := by
  cases a with
  | none => rfl
  | unix tag ts mid p u g => simp [Area.bytes] at h0
  | os9 d => simp [Area.wf, Area.bytes] at hwf h0; simp [h0] at hwf
  | raw d => simp [Area.wf, Area.bytes] at hwf h0; simp [h0] at hwf

theorem level0_rt (mk : Nat → Nat) (f : Fields) (hwf : wf f = true) (hl : f.level = 0) (data full : Bytes)
    (hfull : full = encode f ++ data) :
    decodeLevel0 mk { raw := full.take 22, level := 0 } (full.drop 22) = .ok (typed mk f, data) := by
  obtain ⟨-, hm, hclen, hlen, htime, hattr, hfcrc, hos, hexts⟩ := wf_common hwf
  obtain ⟨hawf, htot⟩ := wf_l0 hwf hl
  have hE : encode f = encodeWith 0 f := (enc_l0 _ hl).trans (enc_l0 0 hl).symm
  have hBl := body0_length hm
  have hElen : (encode f).length = 2 + (body0 f).length := by
    rw [hE, enc_l0 0 hl]; simp only [List.length_cons]; omega
  have hfl : full.length = 2 + (body0 f).length + data.length := by
    rw [hfull, List.length_append, hElen]
  have hfullE := hfull
  rw [hE, enc_l0 0 hl] at hfull
  generalize hB : (body0 f).length = B at *
  generalize hS : Header.sumBytes (body0 f) % 256 = S at *
  have hSlt : S < 256 := by rw [← hS]; omega
  have hfull' : full = [UInt8.ofNat B, UInt8.ofNat S] ++ (f.method ++ (le32 f.clen ++ (le32 f.length ++
      (le32 f.time ++ (UInt8.ofNat f.attr :: 0 :: (UInt8.ofNat f.name.length :: (f.name ++ (le16 f.crc ++
        (f.area.bytes ++ data))))))))) := by
    rw [hfull]; simp [body0, List.append_assoc]
  obtain ⟨rM, rC, rL, rT, -, d21, -⟩ := base_reads hfull' rfl hm hclen hlen htime
  have d0 := drop_zero_eq hfull'
  have d1 := drop_cons (m := 1) d0 rfl
  have d22 := drop_cons (m := 22) d21 rfl
  have d22n := drop_app (m := 22 + f.name.length) d22 rfl
  have d24n := drop_app (m := 24 + f.name.length) d22n (by simp only [le16_length]; omega)
  have r0 : ∀ s, rdU8 s (full.take 22) 0 = .ok B := fun s => rdU8_take_of (by omega) (rdU8_drop d0 (by omega))
  have r1 : ∀ s, rdU8 s (full.take 22) 1 = .ok S := fun s => rdU8_take_of (by omega) (rdU8_drop d1 (by omega))
  have rP : ∀ s, rdU8 s full 21 = .ok f.name.length := fun s => rdU8_drop d21 (by omega)
  have rN : ∀ s, rdSlice s full 22 f.name.length = .ok f.name := fun s => rdSlice_drop d22 rfl (by omega)
  have rCrc : ∀ s, rdU16 s full (22 + f.name.length) = .ok f.crc := fun s => rdU16_drop d22n hfcrc
  unfold decodeLevel0
  simp only [r0, r1, Res.ok_bind, Gen.level0MinHeaderLen, Gen.level1MinHeaderLen, List.length_take, if_true]
  have hbody : (full.take (B + 2)).drop 2 = body0 f := by
    rw [hfull]
    show ((UInt8.ofNat B :: UInt8.ofNat S :: (body0 f ++ data)).take (B + 2)).drop 2 = body0 f
    rw [List.take_succ_cons, List.take_succ_cons]
    show (body0 f ++ data).take B = body0 f
    exact List.take_left' hB
  rw [if_neg (by omega), if_neg (by omega), Nat.min_eq_left (by omega),
    extend_take (k := B + 2) rfl (by omega) (by omega) (by omega)]
  simp only [Res.ok_bind, hbody, hS]
  rw [if_neg (fun h => h rfl)]
  simp only [rdSlice_take_of (n := B + 2) (by omega) (by omega) (rM _),
    rdU32_take_of (n := B + 2) (by omega) (rC _),
    rdU32_take_of (n := B + 2) (by omega) (rL _),
    rdU32_take_of (n := B + 2) (by omega) (rT _),
    rdU8_take_of (n := B + 2) (by omega) (rP _), Res.ok_bind]
  rw [if_neg (by omega), if_pos trivial]
  simp only [Res.ok_bind, Res.pure_eq, rdSlice_take_of (n := B + 2) (by omega) (by omega) (rN _)]
  have htake : full.take (B + 2) = rawOf f := by
    rw [hfullE, take_enc (by omega), hE]; rfl
  have hdrop : full.drop (B + 2) = data := by rw [hfullE]; exact drop_enc (by omega)
  generalize hH : level0Path _ f.name = H
  have hHraw : H.raw = full.take (B + 2) := by rw [← hH, level0Path_raw]
  have hHl : H.level = 0 := by rw [← hH, level0Path_level]
  have rc : ∀ s, rdU16 s H.raw (22 + f.name.length) = .ok f.crc := fun s => by
    rw [hHraw]; exact rdU16_take_of (by omega) (rCrc s)
  simp only [rc, Res.ok_bind, setCrc_eta]
  simp only [hHl, true_and]
  rw [← hH, level0Path_setCrc, htake, hdrop, typed_l0 mk hl]
  have hbase : setCrc { method := f.method, compressedLength := f.clen, length := f.length,
                         timestamp := mk f.time, raw := rawOf f } f.crc =
      base01 mk f 0 0 f.clen (rawOf f) := rfl
  rw [hbase]
  by_cases ha : B > 22 + f.name.length
  · rw [if_pos ha, level0ExtArea_enc hawf (pre := pre0 f) (post := [])
      (by rw [level0Path_raw]; exact enc_l0' 0 hl) (by rw [pre0_length hm]) (by omega) (by omega)]
    simp only [Res.ok_bind, level0Path_method]
    rfl
  · rw [if_neg ha, area_none_of_nil hawf (by omega)]
    simp only [applyArea, ite_self]

/-! ### level 1 -/

def body1 (f : Fields) : Bytes :=
  f.method ++ (le32 (f.clen + chainLen 2 f.exts) ++ (le32 f.length ++ (le32 f.time ++ (UInt8.ofNat f.attr :: 1 ::
    UInt8.ofNat f.name.length :: (f.name ++ (le16 f.crc ++ (UInt8.ofNat f.osType :: (f.pad ++
      le16 (firstSize 2 f.exts)))))))))

theorem enc_l1 (c : Nat) {f : Fields} (hl : f.level = 1) :
    encodeWith c f = UInt8.ofNat (body1 f).length :: UInt8.ofNat (Header.sumBytes (body1 f) % 256) ::
      (body1 f ++ chain 2 c f.exts) := by
  simp [encodeWith, hl, body1, List.append_assoc]
  rfl

theorem body1_length {f : Fields} (hm : f.method.length = 5) :
    (body1 f).length = 25 + f.name.length + f.pad.length := by
  simp only [body1, List.length_append, List.length_cons, le32_length, le16_length, hm]
  omega

def pre1 (f : Fields) : Bytes :=
  UInt8.ofNat (body1 f).length :: UInt8.ofNat (Header.sumBytes (body1 f) % 256) ::
    (f.method ++ (le32 (f.clen + chainLen 2 f.exts) ++ (le32 f.length ++ (le32 f.time ++ (UInt8.ofNat f.attr :: 1 ::
      UInt8.ofNat f.name.length :: (f.name ++ (le16 f.crc ++ (UInt8.ofNat f.osType :: f.pad))))))))

theorem enc_l1' (c : Nat) {f : Fields} (hl : f.level = 1) :
    encodeWith c f = pre1 f ++ (leN 2 (firstSize 2 f.exts) ++ chain 2 c f.exts) := by
  rw [enc_l1 c hl]
  simp [pre1, body1, leN, List.append_assoc]

theorem pre1_length {f : Fields} (hm : f.method.length = 5) :
    (pre1 f).length = 25 + f.name.length + f.pad.length := by
  simp only [pre1, List.length_append, List.length_cons, le32_length, le16_length, hm]
  omega

theorem wf_l1 {f : Fields} (hwf : wf f = true) (hl : f.level = 1) :
    25 + f.name.length + f.pad.length ≤ 255 ∧ f.clen + chainLen 2 f.exts < 4294967296 ∧
    (∀ e ∈ f.exts, extSize 2 e < 65536) := by
  simp only [wf, Bool.and_eq_true, decide_eq_true_eq, List.all_eq_true, hl] at hwf
  obtain ⟨-, hx⟩ := hwf
  simp at hx
  exact ⟨hx.1.1.1.1, hx.1.1.1.2, hx.1.1.2⟩

theorem level0_l1 (mk : Nat → Nat) (f : Fields) (hwf : wf f = true) (hl : f.level = 1) (data full : Bytes)
    (hfull : full = encode f ++ data) :
    decodeLevel0 mk { raw := full.take 22, level := 1 } (full.drop 22) =
      .ok (level0Path (base01 mk f 1 f.osType (f.clen + chainLen 2 f.exts)
        (full.take (2 + (body1 f).length))) f.name, full.drop (2 + (body1 f).length)) := by
  obtain ⟨-, hm, hclen, hlen, htime, hattr, hfcrc, hos, hexts⟩ := wf_common hwf
  obtain ⟨htot, hcl, hszs⟩ := wf_l1 hwf hl
  have hBl := body1_length hm
  have hfl : 2 + (body1 f).length ≤ full.length := by
    rw [hfull]; unfold encode; rw [enc_l1 _ hl]
    simp only [List.length_append, List.length_cons]; omega
  unfold encode at hfull
  rw [enc_l1 _ hl] at hfull
  generalize (Crc.buf 0 (rawOf f)).toNat = crc at hfull
  generalize hB : (body1 f).length = B at *
  generalize hS : Header.sumBytes (body1 f) % 256 = S at *
  have hSlt : S < 256 := by rw [← hS]; omega
  have hfull' : full = [UInt8.ofNat B, UInt8.ofNat S] ++ (f.method ++ (le32 (f.clen + chainLen 2 f.exts) ++
      (le32 f.length ++
      (le32 f.time ++ (UInt8.ofNat f.attr :: 1 :: (UInt8.ofNat f.name.length :: (f.name ++ (le16 f.crc ++
        (UInt8.ofNat f.osType :: (f.pad ++ (le16 (firstSize 2 f.exts) ++ (chain 2 crc f.exts ++ data)))))))))))) := by
    rw [hfull]; simp [body1, List.append_assoc]
  obtain ⟨rM, rC, rL, rT, -, d21, -⟩ := base_reads hfull' rfl hm hcl hlen htime
  have d0 := drop_zero_eq hfull'
  have d1 := drop_cons (m := 1) d0 rfl
  have d22 := drop_cons (m := 22) d21 rfl
  have d22n := drop_app (m := 22 + f.name.length) d22 rfl
  have d24n := drop_app (m := 24 + f.name.length) d22n (by simp only [le16_length]; omega)
  have r0 : ∀ s, rdU8 s (full.take 22) 0 = .ok B := fun s => rdU8_take_of (by omega) (rdU8_drop d0 (by omega))
  have r1 : ∀ s, rdU8 s (full.take 22) 1 = .ok S := fun s => rdU8_take_of (by omega) (rdU8_drop d1 (by omega))
  have rP : ∀ s, rdU8 s full 21 = .ok f.name.length := fun s => rdU8_drop d21 (by omega)
  have rN : ∀ s, rdSlice s full 22 f.name.length = .ok f.name := fun s => rdSlice_drop d22 rfl (by omega)
  have rCrc : ∀ s, rdU16 s full (22 + f.name.length) = .ok f.crc := fun s => rdU16_drop d22n hfcrc
  have rOs : ∀ s, rdU8 s full (24 + f.name.length) = .ok f.osType := fun s => rdU8_drop d24n hos
  have hbody : (full.take (B + 2)).drop 2 = body1 f := by
    rw [hfull]
    show ((UInt8.ofNat B :: UInt8.ofNat S :: (body1 f ++ chain 2 crc f.exts ++ data)).take (B + 2)).drop 2 = body1 f
    rw [List.take_succ_cons, List.take_succ_cons, List.append_assoc]
    show (body1 f ++ _).take B = body1 f
    exact List.take_left' hB
  unfold decodeLevel0
  simp only [r0, r1, Res.ok_bind, Gen.level0MinHeaderLen, Gen.level1MinHeaderLen, List.length_take,
    Nat.succ_ne_zero, if_false]
  rw [if_neg (by omega), if_neg (by omega), Nat.min_eq_left (by omega),
    extend_take (k := B + 2) rfl (by omega) (by omega) (by omega)]
  simp only [Res.ok_bind, hbody, hS]
  rw [if_neg (fun h => h rfl)]
  simp only [rdSlice_take_of (n := B + 2) (by omega) (by omega) (rM _),
    rdU32_take_of (n := B + 2) (by omega) (rC _),
    rdU32_take_of (n := B + 2) (by omega) (rL _),
    rdU32_take_of (n := B + 2) (by omega) (rT _),
    rdU8_take_of (n := B + 2) (by omega) (rP _), Res.ok_bind]
  rw [if_neg (by omega), if_neg (by omega)]
  simp only [Res.ok_bind, Res.pure_eq, rdU8_take_of (n := B + 2) (by omega) (rOs _),
    rdSlice_take_of (n := B + 2) (by omega) (by omega) (rN _)]
  generalize hH : level0Path _ f.name = H
  have hHraw : H.raw = full.take (B + 2) := by rw [← hH, level0Path_raw]
  have hHl : H.level = 1 := by rw [← hH, level0Path_level]
  have rc : ∀ s, rdU16 s H.raw (22 + f.name.length) = .ok f.crc := fun s => by
    rw [hHraw]; exact rdU16_take_of (by omega) (rCrc s)
  simp only [rc, Res.ok_bind, setCrc_eta]
  simp only [hHl, Nat.succ_ne_zero, false_and, if_false]
  rw [← hH, level0Path_setCrc, Nat.add_comm 2 B]
  rfl

def setRC (h : Hdr) (r : Bytes) (c : Nat) : Hdr := { h with raw := r, compressedLength := c }

theorem readL1Ext_enc {full data : Bytes} {crc : Nat} : ∀ (es : List Ext) (h : Hdr) (n : Nat),
    h.raw = full.take n → 2 ≤ n →
    full.drop (n - 2) = le16 (firstSize 2 es) ++ (chain 2 crc es ++ data) →
    (∀ e ∈ es, extSize 2 e < 65536) → chainLen 2 es ≤ h.compressedLength →
    readL1Ext h (full.drop n) =
      .ok (setRC h (full.take (n + chainLen 2 es)) (h.compressedLength - chainLen 2 es),
           full.drop (n + chainLen 2 es)) := by
  intro es
  induction es with
  | nil =>
    intro h n hraw h2 hd _ _
    have hn : n ≤ full.length := by have := drop_length_le' hd (by simp); simp only [le16_length] at this; omega
    have hl : h.raw.length = n := by rw [hraw, List.length_take]; omega
    rw [readL1Ext, if_neg (by omega), hl, hraw, rdU16_take_of (by omega) (rdU16_drop hd (by simp [firstSize]))]
    simp only [Res.ok_bind, firstSize]
    rw [dif_pos trivial]
    have : setRC h (full.take (n + chainLen 2 [])) (h.compressedLength - chainLen 2 []) = h := by
      show setRC h (full.take (n + 0)) (h.compressedLength - 0) = h
      rw [Nat.add_zero, Nat.sub_zero, ← hraw]; rfl
    rw [this]; rfl
  | cons e es ih =>
    intro h n hraw h2 hd hsz hcl
    have hse := hsz e (List.mem_cons_self ..)
    rw [chainLen_cons] at hcl
    have hn : n ≤ full.length := by have := drop_length_le' hd (by simp); simp only [le16_length] at this; omega
    have hl : h.raw.length = n := by rw [hraw, List.length_take]; omega
    have hL : extSize 2 e = (e.body crc).2.length + 1 + 2 := by rw [extSize, body_len_crc crc e]
    have hflen : full.length = n + chainLen 2 (e :: es) + data.length := by
      have := congrArg List.length hd
      simp only [List.length_drop, List.length_append, le16_length, chain_length (Or.inl rfl)] at this
      omega
    rw [chainLen_cons] at hflen
    have d2 := drop_app (m := n) hd (by simp only [le16_length]; omega)
    rw [chain_cons] at d2
    simp only [List.append_assoc] at d2
    have d3 := drop_app (m := n + 1) d2 rfl
    have d4 := drop_app (m := n + 1 + (e.body crc).2.length) d3 rfl
    rw [readL1Ext, if_neg (by omega), hl, hraw, rdU16_take_of (by omega) (rdU16_drop hd hse)]
    simp only [Res.ok_bind, firstSize]
    rw [dif_neg (by omega), if_neg (by simp only [Gen.level3MaxHeaderLen]; omega),
      dif_neg (by rw [List.length_drop]; omega)]
    rw [if_neg (by omega), if_neg (by omega), List.drop_drop, ← List.take_add]
    rw [ih _ (n + extSize 2 e) rfl (by omega)
      (by rw [show n + extSize 2 e - 2 = n + 1 + (e.body crc).2.length by omega]; exact d4)
      (fun x hx => hsz x (List.mem_cons_of_mem _ hx)) (by simp only []; omega)]
    simp only [chainLen_cons, setRC, Nat.add_assoc, Nat.sub_sub]

theorem splitFilename_setRC (h : Hdr) (r : Bytes) (c : Nat) :
    setRC (splitFilename h) r c = splitFilename (setRC h r c) := by
  obtain ⟨p, fn, _⟩ := h
  cases fn with
  | none => rfl
  | some x =>
    simp only [splitFilename, setRC]
    split <;> rfl

theorem level0Path_setRC (h : Hdr) (n : Bytes) (r : Bytes) (c : Nat) :
    setRC (level0Path h n) r c = level0Path (setRC h r c) n := by
  unfold level0Path
  split
  · rfl
  · exact splitFilename_setRC _ r c

theorem level0Path_clen (h : Hdr) (n : Bytes) : (level0Path h n).compressedLength = h.compressedLength := by
  have := congrArg Hdr.compressedLength (level0Path_setRC h n h.raw h.compressedLength)
  have e : setRC h h.raw h.compressedLength = h := rfl
  rw [e] at this
  exact this.symm

theorem base01_raw (mk : Nat → Nat) (f : Fields) (l os c : Nat) (r : Bytes) : (base01 mk f l os c r).raw = r := rfl
theorem base01_clen (mk : Nat → Nat) (f : Fields) (l os c : Nat) (r : Bytes) :
    (base01 mk f l os c r).compressedLength = c := rfl

theorem typed_l1 (mk : Nat → Nat) {f : Fields} (hl : f.level = 1) {crc : Nat}
    (hc : (Crc.buf 0 (rawOf f)).toNat = crc) :
    typed mk f = f.exts.foldl (applyExt crc)
      (level0Path (base01 mk f 1 f.osType f.clen (rawOf f)) f.name) := by
  unfold typed level0Path base01
  simp only [hl, Nat.le_refl, if_true, Nat.succ_ne_zero, if_false, slashes, hc]
  cases f.name <;> rfl

theorem level1_rt (mk : Nat → Nat) (f : Fields) (hwf : wf f = true) (hl : f.level = 1) (data full : Bytes)
    (hfull : full = encode f ++ data) :
    decodeLevel1 mk { raw := full.take 22, level := 1 } (full.drop 22) = .ok (typed mk f, data) := by
  obtain ⟨-, hm, hclen, hlen, htime, hattr, hfcrc, hos, hexts⟩ := wf_common hwf
  obtain ⟨htot, hcl, hszs⟩ := wf_l1 hwf hl
  have hBl := body1_length hm
  have hcrc := crc_lt (rawOf f)
  generalize hc : (Crc.buf 0 (rawOf f)).toNat = crc at hcrc
  have hE : encode f = encodeWith crc f := by rw [← hc]; rfl
  have hElen : (encode f).length = 2 + (body1 f).length + chainLen 2 f.exts := by
    rw [hE, enc_l1 crc hl]
    simp only [List.length_append, List.length_cons, chain_length (Or.inl rfl)]
    omega
  have hd : full.drop (2 + (body1 f).length - 2) =
      le16 (firstSize 2 f.exts) ++ (chain 2 crc f.exts ++ data) := by
    rw [hfull, hE, enc_l1' crc hl, List.append_assoc, List.drop_left' (by rw [pre1_length hm]; omega),
      List.append_assoc]
    rfl
  unfold decodeLevel1
  rw [level0_l1 mk f hwf hl data full hfull]
  simp only [Res.ok_bind]
  rw [readL1Ext_enc (crc := crc) (data := data) f.exts _ _ (level0Path_raw _ _) (by omega) hd hszs
    (by rw [level0Path_clen]; exact Nat.le_add_left _ _)]
  simp only [Res.ok_bind, level0Path_raw, level0Path_clen, base01_raw, base01_clen]
  have hfl : full.length = 2 + (body1 f).length + chainLen 2 f.exts + data.length := by
    rw [hfull, List.length_append, hElen]
  have htake : full.take (2 + (body1 f).length + chainLen 2 f.exts) = encodeWith crc f := by
    rw [hfull, take_enc hElen.symm, hE]
  have hdrop : full.drop (2 + (body1 f).length + chainLen 2 f.exts) = data := by
    rw [hfull]; exact drop_enc hElen.symm
  have hstart : (full.take (2 + (body1 f).length)).length - 2 = (pre1 f).length := by
    rw [List.length_take, pre1_length hm, Nat.min_eq_left (by omega)]; omega
  rw [htake, hdrop, hstart, level0Path_setRC,
    decodeExtendedHeaders_chain (fs := 2) (Or.inl rfl) hcrc f.exts _ (pre1 f) rfl
      (by rw [level0Path_level]; rfl) hexts hszs (by rw [level0Path_raw]; exact enc_l1' crc hl)]
  simp only [Res.ok_bind, Res.pure_eq]
  rw [typed_l1 mk hl hc, ← enc_l1' 0 hl, ← foldl_setRaw, Nat.add_sub_cancel]
  have e : ∀ h n r, setRaw (level0Path h n) r = level0Path (setRaw h r) n := fun h n r => by
    have h1 : setRaw (level0Path h n) r = setRC (level0Path h n) r (level0Path h n).compressedLength := rfl
    rw [h1, level0Path_clen, level0Path_setRC]; rfl
  rw [e]
  rfl

end LhasaV.HeaderRT
