import LhasaV.Lemmas.ArchiveOs1
/-!
# C06, archives as bytes, any header builder (part 2): the reader along `archiveS S es`

The analogue of ArchiveOf6–8 and of the closing theorems of `ArchiveOf` for member schemes:
a file member decodes to its data (`extract_member`), `lha_reader_next_file` /
`lha_reader_extract` along the archive (`next_step`, `after_body`; the reader's `mktime` is
carried along, since a scheme may be sound for one `mktime` only), `archiveS_denotes`, and the
closed end-to-end statement `extract_archiveS`.
-/
set_option linter.unusedSimpArgs false
namespace LhasaV.ArchiveOs
open LhasaV LhasaV.Header LhasaV.Extract LhasaV.GlobFs LhasaV.Contain LhasaV.ExtractTree
open LhasaV.ExtractTree.Sample LhasaV.Spec.HeaderEnc LhasaV.Reader LhasaV.ReaderIndep LhasaV.ArchiveOf

/-- **a file member is extracted with a good verdict and exactly its data** -/
theorem extract_member {S : Scheme} {mk : Nat → Nat} (rd : Reader.St) (c : HObj) (e : Entry) (p : Fs.Path)
    (data : Bytes) (perms : Option Nat) (t : Nat) (tl : List Entry) (hok : MemberOk S mk e)
    (hden : S.den e = .file p data perms t) (ht : rd.currType = .normal) (hc : rd.curr = some c)
    (hh : c.h = S.hdr e) (hg : Got S rd.basic.stream.data (e :: tl) rd.basic) :
    (openDecoder rd).1 = true ∧ (Reader.extract rd true).1 = (true, data) := by
  obtain ⟨_, _, hrem, heof, _, _, hdrop⟩ := hg
  obtain ⟨hl, hcrc, d, info, hd, hi, hdec⟩ := hok.file p data perms t hden
  have hos : c.h.osType ≠ 0x6d := by rw [hh]; exact hok.os
  have hnd : c.h.method ≠ "-lhd-".toUTF8.toList := by
    have := hok.denotes
    rw [hden] at this
    rw [hh]; exact this.2.2.1
  rw [← hh] at hd hi hl hcrc
  obtain ⟨h1, _, _⟩ := MacProps.openDecoder_plainIn ht hc hos hd hi
  refine ⟨h1, ?_⟩
  rw [MacProps.extract_eq_decodeResult ht hc hnd, MacProps.decodeResult_plain ht hc hos hd hi]
  have hsrc := memberSrc_present rd.basic (S.data e) (flat S tl) hrem heof hdrop
  have hinner : MacProps.innerBytes rd c d = data := by
    unfold MacProps.innerBytes
    rw [hsrc, hl]; exact hdec
  rw [hinner]
  simp [MacProps.good, hl, hcrc]

/-! ## the reader's `mktime` never changes -/

theorem nextUnref_mktime (s : Reader.St) : (nextUnref s).mktime = s.mktime := by
  unfold nextUnref; split
  · split <;> rfl
  · rfl

theorem tail_mktime (u : Reader.St) : (nextDeferred (nextPop u)).mktime = u.mktime := by
  unfold nextDeferred nextPop
  repeat' split
  all_goals rfl

theorem extract_mktime (rd : Reader.St) (b : Bool) (hp : Pre rd) :
    (Reader.extract rd b).2.mktime = rd.mktime := by
  by_cases hf : IsFile rd
  · exact (extract_file_step honestAll hp hf b).frame.mktime
  · rw [extract_nonfile hf]
    unfold extractMeta
    repeat' split
    all_goals rfl

/-! ## `lha_reader_next_file`, `lha_reader_extract` -/

/-- the reader's position in the archive, by what it presented last -/
def RState (S : Scheme) (A : Array UInt8) (es : List Entry) (rd : Reader.St) : Prop :=
  match rd.currType with
  | .start => rd.dec = none ∧ Fresh S A es rd.basic
  | .normal => At S A es rd.basic
  | .fakeDir => rd.dec = none ∧ Got S A es rd.basic
  | .deferred => rd.dec = none ∧ Got S A es rd.basic
  | .eof => True

/-- **`lha_reader_next_file` along the archive** -/
theorem next_step (S : Scheme) (mk : Nat → Nat) (A : Array UInt8) (es : List Entry) (rd : Reader.St)
    (hok : AllOk S mk es) (hmk : rd.mktime = mk) (hg : Good rd) (hs : RState S A es rd)
    (hne : rd.currType ≠ .eof) :
    ∃ oc rd', Reader.next rd = .ok (oc, rd') ∧ oc = rd'.curr ∧ rd'.dec = none ∧ rd'.mktime = mk ∧
      Got S A es rd'.basic ∧
      ((rd'.currType = .fakeDir ∧ rd'.curr ≠ none) ∨
       (rd'.currType = .normal ∧ rd'.curr = rd'.basic.curr ∧ rd'.curr ≠ none) ∨
       (rd'.currType = .deferred ∧ rd'.curr ≠ none) ∨
       (rd'.currType = .eof ∧ rd'.curr = none)) := by
  have hf := closeDecoder_frame rd
  have hd0 := closeDecoder_dec rd
  have hmk' : (closeDecoder rd).mktime = mk := by rw [hf.mktime, hmk]
  have h1 : ∃ s1, nextAdv (closeDecoder rd) = .ok s1 ∧ s1.dec = none ∧ s1.mktime = mk ∧ Got S A es s1.basic := by
    cases ht : rd.currType with
    | start =>
      simp only [RState, ht] at hs
      obtain ⟨hdn, hfr⟩ := hs
      rw [closeDecoder_none hdn]
      obtain ⟨b', led', e, hgot⟩ := basicNext_fresh S rd.mktime A es rd.basic rd.led (hmk ▸ hok) hfr
      refine ⟨{ rd with basic := b', led := led' }, ?_, hdn, hmk, hgot⟩
      unfold nextAdv; simp [ht, e]
    | normal =>
      simp only [RState, ht] at hs
      have hce := eff_consEq hg.pre.decOK hg.pre.tidy
      have hat := hs.consEq hce.1
      have hwf := Stream.wf_closeDecoder rd hg.pre.wf
      obtain ⟨b', led', e, hgot⟩ := basicNext_at S (closeDecoder rd).mktime A es _ (closeDecoder rd).led
        (hmk' ▸ hok) hat hwf
      refine ⟨{ closeDecoder rd with basic := b', led := led' }, ?_, hd0, hmk', hgot⟩
      unfold nextAdv; simp [hf.currType, ht, e]
    | fakeDir =>
      simp only [RState, ht] at hs
      rw [closeDecoder_none hs.1]
      exact ⟨rd, nextAdv_fake (by rw [ht]; simp), hs.1, hmk, hs.2⟩
    | deferred =>
      simp only [RState, ht] at hs
      rw [closeDecoder_none hs.1]
      exact ⟨rd, nextAdv_fake (by rw [ht]; simp), hs.1, hmk, hs.2⟩
    | eof => exact absurd ht hne
  obtain ⟨s1, e1, d1, m1, g1⟩ := h1
  have he : ((closeDecoder rd).currType == CurrType.eof) = false := by
    rw [hf.currType]; simpa using hne
  obtain ⟨t1, t2, t3⟩ := tail_shape (nextUnref s1)
  refine ⟨(nextDeferred (nextPop (nextUnref s1))).curr, nextDeferred (nextPop (nextUnref s1)), ?_, rfl, ?_, ?_, ?_, ?_⟩
  · rw [next_eq, he]
    simp only [Bool.false_eq_true, if_false, e1]
    rfl
  · rw [t1, nextUnref_dec]; exact d1
  · rw [tail_mktime, nextUnref_mktime]; exact m1
  · rw [t2, Reader.nextUnref_basic]; exact g1
  · rw [t2]
    exact t3

/-- `lha_reader_extract` does not move the basic reader (up to what the decoder consumed) -/
theorem extract_at (S : Scheme) (A : Array UInt8) (tl : List Entry) (rd : Reader.St) (b : Bool) (hp : Pre rd)
    (h : At S A tl rd.basic) : At S A tl (Reader.extract rd b).2.basic := by
  by_cases hf : IsFile rd
  · exact h.consEq (extract_file_step honestAll hp hf b).basic
  · rw [extract_nonfile hf, (extractMeta_basic rd b).1]; exact h

/-- the state after the loop body, when the reader was `s.rd` before it -/
theorem after_body (S : Scheme) (mk : Nat → Nat) (A : Array UInt8) (es : List Entry) (s : Extract.St) (h : Hdr)
    (hg : Good s.rd) (hd : s.rd.dec = none) (hmk : s.rd.mktime = mk) (hgot : Got S A es s.rd.basic)
    (hsh : (s.rd.currType = .fakeDir ∧ s.rd.curr ≠ none) ∨
       (s.rd.currType = .normal ∧ s.rd.curr = s.rd.basic.curr ∧ s.rd.curr ≠ none) ∨
       (s.rd.currType = .deferred ∧ s.rd.curr ≠ none)) :
    Good (extractArchivedFile s h).rd ∧ (extractArchivedFile s h).rd.mktime = mk ∧
    RState S A (if s.rd.currType = .normal then es.tail else es) (extractArchivedFile s h).rd := by
  apply eaf_ind (fun r => Good r ∧ r.mktime = mk ∧
    RState S A (if s.rd.currType = .normal then es.tail else es) r) s h
  · refine ⟨hg, hmk, ?_⟩
    rcases hsh with ⟨ht, _⟩ | ⟨ht, hc, hn⟩ | ⟨ht, _⟩
    · simp only [RState, ht]; exact ⟨hd, hgot⟩
    · cases es with
      | nil => rw [hc, hgot.2.1] at hn; exact absurd rfl hn
      | cons e tl => simp only [RState, ht, if_true, List.tail_cons]; exact hgot.at
    · simp only [RState, ht]; exact ⟨hd, hgot⟩
  · intro b
    refine ⟨good_extract hg b, by rw [extract_mktime _ _ hg.pre, hmk], ?_⟩
    rcases hsh with ⟨ht, _⟩ | ⟨ht, hc, hn⟩ | ⟨ht, _⟩
    · rw [fake_extract (Or.inl ht)]
      simp only [RState, ht]; exact ⟨hd, hgot⟩
    · cases es with
      | nil => rw [hc, hgot.2.1] at hn; exact absurd rfl hn
      | cons e tl =>
        have hct := extract_currType s.rd b
        simp only [RState, hct, ht, if_true, List.tail_cons]
        exact extract_at S A tl s.rd b hg.pre hgot.at
    · rw [fake_extract (Or.inr ht)]
      simp only [RState, ht]; exact ⟨hd, hgot⟩

/-- **from a state that stands in the archive, the run denotes the entries still to come** -/
theorem denotes_of_rstate (S : Scheme) (mk : Nat → Nat) (A : Array UInt8) :
    ∀ (fuel : Nat) (s : Extract.St) (es : List Entry),
    AllOk S mk es → Good s.rd → s.rd.mktime = mk → RState S A es s.rd → Denotes fuel s (es.map S.den) := by
  intro fuel
  induction fuel with
  | zero => intro s es _ _ _ _; trivial
  | succ n ih =>
    intro s es hok hg hmk hs _
    by_cases heof : s.rd.currType = .eof
    · refine ⟨none, _, next_of_eof s.rd heof, ?_, ?_⟩
      · intro ht; rw [heof] at ht; rcases ht with ht | ht <;> cases ht
      · intro c hc; cases hc
    · obtain ⟨oc, rd', hn, hoc, hd, hmk', hgot, hsh⟩ := next_step S mk A es s.rd hok hmk hg hs heof
      have hg' : Good rd' := next_good hg hn
      refine ⟨oc, rd', hn, fun _ => hgot.pending hok, ?_⟩
      intro c hc
      have hcur : rd'.curr = some c := by rw [← hoc, hc]
      have hsh' : (rd'.currType = .fakeDir ∧ rd'.curr ≠ none) ∨
          (rd'.currType = .normal ∧ rd'.curr = rd'.basic.curr ∧ rd'.curr ≠ none) ∨
          (rd'.currType = .deferred ∧ rd'.curr ≠ none) := by
        rcases hsh with h | h | h | ⟨_, h⟩
        · exact Or.inl h
        · exact Or.inr (Or.inl h)
        · exact Or.inr (Or.inr h)
        · rw [hcur] at h; cases h
      constructor
      · intro hty p data perms mtime tl' hes
        cases es with
        | nil => cases hes
        | cons e tl =>
          simp only [List.map_cons, List.cons.injEq] at hes
          obtain ⟨hde, _⟩ := hes
          have hb : rd'.basic.curr = some c := by
            rcases hsh' with ⟨h, _⟩ | ⟨_, h, _⟩ | ⟨h, _⟩
            · rw [hty] at h; cases h
            · rw [← h, hcur]
            · rw [hty] at h; cases h
          have hgot0 := hgot
          obtain ⟨hdat, ⟨id, hid⟩, _⟩ := hgot0
          have hh : c.h = S.hdr e := by
            rw [hid] at hb; cases hb; rfl
          exact extract_member rd' c e p data perms mtime tl (hok e (by simp)) hde hty hcur hh
            (by rw [hdat]; exact hgot)
      · obtain ⟨g2, m2, r2⟩ := after_body S mk A es { s with rd := rd' } c.h hg' hd hmk' hgot hsh'
        have hmap : (if rd'.currType = .normal then (es.map S.den).tail else es.map S.den) =
            (if rd'.currType = .normal then es.tail else es).map S.den := by
          split
          · cases es <;> rfl
          · rfl
        rw [hmap]
        apply ih _ _ _ g2 m2 r2
        show AllOk S mk (if rd'.currType = .normal then es.tail else es)
        split
        · cases es with
          | nil => exact hok
          | cons e tl => exact hok.tail
        · exact hok

theorem rstate_runInit (S : Scheme) (es : List Entry) (o : Opts) (fs : Fs.St) (answers : Bytes) :
    RState S (archiveS S es) es (runInit (archiveS S es) o fs answers).rd :=
  ⟨rfl, rfl, rfl, rfl, rfl, rfl, rfl, rfl⟩

/-- **`archiveS S es` denotes `es.map S.den`** — whatever the options, the file system and the
answers at the prompt are: along the run of `lha x` the reader presents headers denoting exactly
these entries, in order, then the end; and every file member decodes to its data with a good
length/CRC verdict.  (`Header.dosTimeUTC` is the `mktime` of the tool model.) -/
theorem archiveS_denotes (S : Scheme) (es : List Entry) (hok : AllOk S Header.dosTimeUTC es)
    (o : Opts) (fs : Fs.St) (answers : Bytes) :
    Denotes (runFuel (archiveS S es)) (runInit (archiveS S es) o fs answers) (es.map S.den) :=
  denotes_of_rstate S Header.dosTimeUTC (archiveS S es) _ _ es hok (good_runInit _ o fs answers) rfl
    (rstate_runInit S es o fs answers)

theorem length_le_flat (S : Scheme) (es : List Entry) : es.length ≤ (flat S es).length := by
  induction es with
  | nil => exact Nat.le_refl _
  | cons e es ih =>
    have := encode_length_pos (S.fields e)
    rw [flat_cons]
    simp only [List.length_cons, List.length_append]
    omega

/-- the loop's fuel (`2 · size + 16`) covers two presentations per entry and the end -/
theorem fuel_archiveS (S : Scheme) (es : List Entry) : 2 * es.length + 1 ≤ runFuel (archiveS S es) := by
  have h := length_le_flat S es
  have : (flat S es).length = (archiveS S es).size := Array.length_toList
  unfold runFuel
  omega

/-- **Extraction reproduces the denoted tree, end to end, for every sound scheme.** -/
theorem extract_archiveS (S : Scheme) (es : List Entry) (hwf : WellFormed (es.map S.den))
    (hok : AllOk S Header.dosTimeUTC es) (o : Opts) (fs : Fs.St) (answers : Bytes) (ho : OptsOk o)
    (hfs : EmptyDir fs) (ha : Access fs) :
    ArchivePack.Reproduces (archiveS S es) (es.map S.den) o fs answers :=
  run_tree (archiveS S es) o fs answers (es.map S.den) ho hfs ha hwf
    (by rw [List.length_map]; exact fuel_archiveS S es) (archiveS_denotes S es hok o fs answers)

/-- the entries of a well-formed list have clean names -/
theorem entryOk_of_wf {es : List Entry} (hwf : WellFormed es) : ∀ e ∈ es, EntryOk e := by
  have : ∀ (stk seen : List Fs.Path) (es : List Entry), WF stk seen es → ∀ e ∈ es, EntryOk e := by
    intro stk seen es
    induction es generalizing stk seen with
    | nil => intro _ e he; cases he
    | cons x xs ih =>
      intro h e he
      rcases List.mem_cons.1 he with rfl | he
      · exact h.1
      · exact ih _ _ h.2.2.2 e he
  exact this [] [] es hwf

end LhasaV.ArchiveOs
