import LhasaV.Lemmas.ExtractTreeOpt13
/-!
# C06 with options (part 14): a sufficient condition for `WFS`

`wfs_of_closed`: a well-formed archive whose selection is closed under parents — every directory
above a selected entry has a selected directory entry (`ParentClosed`, decidable) — satisfies
`WFS`; so `extract_archiveOf_closed`: wildcards on such an archive leave the tree of the selected
members.  (Without closure `make_parent_directories` creates the missing directories with mode
0755 and the time of the run, and a directory entry that arrives later for an existing directory is
ignored — `extract_dir_existing`: not the tree of the selected members; see `sample_unclosed`.)
-/
set_option linter.unusedSimpArgs false
namespace LhasaV.ExtractTree
open LhasaV LhasaV.Header LhasaV.Extract LhasaV.GlobFs LhasaV.Contain

/-- every directory above a selected entry has a selected directory entry -/
def ParentClosed (sel : Entry → Bool) (es : List Entry) : Prop :=
  ∀ e ∈ es, sel e = true → ∀ k, k < e.dirPart.length →
    ∃ d ∈ es, d.isDir = true ∧ d.path = e.dirPart.take (k + 1) ∧ sel d = true

instance (sel : Entry → Bool) (es : List Entry) : Decidable (ParentClosed sel es) :=
  inferInstanceAs (Decidable (∀ e ∈ es, sel e = true → ∀ k, k < e.dirPart.length →
    ∃ d ∈ es, d.isDir = true ∧ d.path = e.dirPart.take (k + 1) ∧ sel d = true))

theorem popStk_all (l : List Fs.Path) (d : Fs.Path) (h : ∀ u ∈ l, u <+: d) : popStk l d = l := by
  cases l with
  | nil => rfl
  | cons t r => exact popStk_in t r d (h t (by simp))

/-- popping commutes with dropping the directories that are not selected -/
theorem popStk_filter (sp : Fs.Path → Bool) (d : Fs.Path) : ∀ (stk : List Fs.Path), Chain stk →
    popStk (stk.filter sp) d = (popStk stk d).filter sp := by
  intro stk
  induction stk with
  | nil => intro _; rfl
  | cons t r ih =>
    intro hc
    by_cases ht : t <+: d
    · have hall : ∀ u ∈ t :: r, u <+: d := by
        intro u hu
        have := hc.all_prefix _ u hu
        simp only [List.head?_cons, Option.getD_some] at this
        exact this.trans ht
      rw [popStk_in t r d ht]
      exact popStk_all _ d (fun u hu => hall u (List.mem_filter.1 hu).1)
    · rw [popStk_out t r d ht, List.filter_cons]
      split
      · rw [popStk_out _ _ d ht]; exact ih hc.tail
      · exact ih hc.tail

theorem wf_nodup : ∀ (es : List Entry) (stk seen : List Fs.Path), WF stk seen es → seen.Nodup →
    (seen ++ es.map Entry.path).Nodup := by
  intro es
  induction es with
  | nil => intro _ seen _ h; simpa using h
  | cons x es ih =>
    intro stk seen hwf hn
    obtain ⟨_, hnew, _, hwf'⟩ := hwf
    have := ih _ _ hwf' (List.nodup_append.2 ⟨hn, by simp, by
      intro a ha b hb
      have : b = x.path := by simpa using hb
      subst this
      intro hab
      exact hnew (hab ▸ ha)⟩)
    simpa [List.append_assoc] using this

/-- the induction: `sp` says which directory paths are selected -/
theorem wfs_of_wf (sel : Entry → Bool) (sp : Fs.Path → Bool) :
    ∀ (es : List Entry) (stk seen seenS : List Fs.Path), WF stk seen es → Chain stk →
      (∀ p ∈ seenS, p ∈ seen) →
      (∀ e ∈ es, e.isDir = true → sp e.path = sel e) →
      (∀ e ∈ es, sel e = true → ∀ t, t ≠ [] → t <+: e.dirPart → sp t = true) →
      WFS sel (stk.filter sp) seenS es := by
  intro es
  induction es with
  | nil => intro _ _ _ _ _ _ _ _; trivial
  | cons x es ih =>
    intro stk seen seenS hwf hc hsub hsp hcl
    obtain ⟨hk, hnew, hpar, hwf'⟩ := hwf
    have hcp : Chain (popStk stk x.dirPart) := hc.dropWhile _ stk
    have hc' : Chain (if x.isDir then x.path :: popStk stk x.dirPart else popStk stk x.dirPart) := by
      cases x.isDir with
      | true => exact ⟨hk.ne, hpar.symm, hcp⟩
      | false => exact hcp
    have hsp' : ∀ e ∈ es, e.isDir = true → sp e.path = sel e := fun e he => hsp e (List.mem_cons_of_mem _ he)
    have hcl' : ∀ e ∈ es, sel e = true → ∀ t, t ≠ [] → t <+: e.dirPart → sp t = true :=
      fun e he => hcl e (List.mem_cons_of_mem _ he)
    have hcomm := popStk_filter sp x.dirPart stk hc
    refine ⟨hk, ?_⟩
    cases hs : sel x with
    | true =>
      simp only [if_true]
      have hstk : (if x.isDir then x.path :: popStk stk x.dirPart else popStk stk x.dirPart).filter sp =
          (if x.isDir then x.path :: popStk (stk.filter sp) x.dirPart else popStk (stk.filter sp) x.dirPart) := by
        cases hd : x.isDir with
        | true =>
          have : sp x.path = true := by rw [hsp x (by simp) hd, hs]
          simp [List.filter_cons, this, hcomm]
        | false => simp [hcomm]
      refine ⟨fun h => hnew (hsub _ h), ?_, ?_⟩
      · rw [hcomm]
        cases hp : popStk stk x.dirPart with
        | nil => rw [hp] at hpar; simpa using hpar
        | cons t r =>
          rw [hp] at hpar
          simp only [List.head?_cons, Option.getD_some] at hpar
          have htm : t ∈ popStk stk x.dirPart := by rw [hp]; simp
          have ht0 : t ≠ [] := hcp.mem_ne_nil _ t htm
          have htp : t <+: x.dirPart := mem_popStk_prefix stk x.dirPart hc t htm
          have : sp t = true := hcl x (by simp) hs t ht0 htp
          rw [List.filter_cons, if_pos this]
          simpa using hpar
      · rw [← hstk]
        exact ih _ (seen ++ [x.path]) (seenS ++ [x.path]) hwf' hc'
          (by intro p hp
              rcases List.mem_append.1 hp with h | h
              · exact List.mem_append_left _ (hsub p h)
              · exact List.mem_append_right _ h) hsp' hcl'
    | false =>
      simp only [Bool.false_eq_true, if_false]
      have hstk : (if x.isDir then x.path :: popStk stk x.dirPart else popStk stk x.dirPart).filter sp =
          popStk (stk.filter sp) x.dirPart := by
        cases hd : x.isDir with
        | true =>
          have : sp x.path = false := by rw [hsp x (by simp) hd, hs]
          simp [List.filter_cons, this, hcomm]
        | false => simp [hcomm]
      rw [← hstk]
      exact ih _ (seen ++ [x.path]) seenS hwf' hc'
        (fun p hp => List.mem_append_left _ (hsub p hp)) hsp' hcl'

/-- **a well-formed archive with a selection closed under parents satisfies `WFS`** -/
theorem wfs_of_closed (sel : Entry → Bool) (es : List Entry) (hwf : WellFormed es)
    (hcl : ParentClosed sel es) : WFS sel [] [] es := by
  have hnd : (es.map Entry.path).Nodup := by
    have := wf_nodup es [] [] hwf List.nodup_nil
    simpa using this
  let sp : Fs.Path → Bool := fun p => es.any (fun d => d.isDir && (d.path == p) && sel d)
  have := wfs_of_wf sel sp es [] [] [] hwf trivial (fun _ h => (by cases h)) ?_ ?_
  · simpa using this
  · intro e he hd
    cases hs : sel e with
    | true =>
      show es.any _ = true
      rw [List.any_eq_true]
      exact ⟨e, he, by simp [hd, hs]⟩
    | false =>
      show es.any _ = false
      rw [List.any_eq_false]
      intro d hdm hp
      simp only [Bool.and_eq_true, beq_iff_eq] at hp
      have : d = e := eq_of_path_eq es hnd d hdm e he hp.1.2
      rw [this, hs] at hp
      exact absurd hp.2 (by simp)
  · intro e he hs t ht0 htp
    have hlt : t.length - 1 < e.dirPart.length := by
      have := htp.length_le
      have : 0 < t.length := List.length_pos_iff.2 ht0
      omega
    obtain ⟨d, hdm, hdd, hdp, hds⟩ := hcl e he hs (t.length - 1) hlt
    show es.any _ = true
    rw [List.any_eq_true]
    refine ⟨d, hdm, ?_⟩
    have htk : e.dirPart.take (t.length - 1 + 1) = t := by
      have h1 : t.length - 1 + 1 = t.length := by
        have : 0 < t.length := List.length_pos_iff.2 ht0
        omega
      rw [h1]
      exact (List.prefix_iff_eq_take.1 htp).symm
    simp [hdd, hds, hdp, htk]

end LhasaV.ExtractTree

namespace LhasaV.ArchiveOf
open LhasaV LhasaV.Header LhasaV.Extract LhasaV.GlobFs LhasaV.Contain LhasaV.ExtractTree
open LhasaV.ExtractTree.Sample

/-- **(1) in the form asked for**: a well-formed, encodable tree and wildcard arguments whose
selection is closed under parents: `lha x archive patterns` on the bytes leaves exactly the tree
of the selected members -/
theorem extract_archiveOf_closed (es : List Entry) (o : Opts) (fs : Fs.St) (answers : Bytes)
    (hwf : WellFormed es) (hcl : ParentClosed (selected o.filters) es) (henc : Encodable es)
    (hx : o.extractPath = none) (hu : o.usePath = true) (hfs : EmptyDir fs) (ha : Access fs) :
    (run (archiveOf es) o fs answers).result = true ∧
    (∀ p, p ≠ [] → Fs.lookup (run (archiveOf es) o fs answers).fs (fs.cwd ++ p) =
      treeOf fs.now fs.umask (es.filter (selected o.filters)) p) ∧
    (∀ x, ¬ fs.cwd <+: x → Fs.lookup (run (archiveOf es) o fs answers).fs x = Fs.lookup fs x) :=
  extract_archiveOf_sel es o fs answers (wfs_of_closed _ es hwf hcl) henc hx hu hfs ha

/-- `a/*` on `sampleTree` is closed under parents; `*y` is not -/
example : ParentClosed (selected patA) sampleTree := by decide
example : ¬ ParentClosed (selected [[0x2a, 0x79]]) sampleTree := by decide

end LhasaV.ArchiveOf
