import LhasaV.Lemmas.ExtractTreeOw8
/-!
# C06, overwriting (part 9): non-vacuity, and the model outside the theorem's domain

The archive `archiveOf exTree` — file `a`, directory `d/` (0555), file `d/x`, file `c` — is extracted
by an ordinary user into a directory that already holds `a` and `c` (old contents, modes, times) and
an unrelated file `q`.  Every hypothesis of `extract_archiveOf_ow` is discharged (`decide`), for
the answer streams "n\ny\n", "a\n", "s\n", "zzz\ny\n", "" and for the policy "all" (options `f`, `q`).
The same runs are also evaluated on the bytes (`#guard`), and then three runs OUTSIDE the domain
(`OwAnswers` violated) where the `Extract` model leaves the specification.
-/
namespace LhasaV.ExtractTree.OwSample
open LhasaV LhasaV.Extract LhasaV.Contain LhasaV.ExtractTree LhasaV.ExtractTree.Sample LhasaV.ArchiveOf

def exTree : List Entry :=
  [ .file [[0x61]] [1] (some 0o100644) 111,
    .dir [[0x64]] (some 0o40555) 222,
    .file [[0x64], [0x78]] [2] none 0,
    .file [[0x63]] [3] (some 0o100600) 333 ]

def oldA : Fs.Ent := .file [9] 0o444 5
def oldC : Fs.Ent := .file [8, 8] 0o640 6
def oldQ : Fs.Ent := .file [7] 0o600 7

/-- an ordinary user's directory `r` holding `a`, `c`, `q` -/
def exFs : Fs.St :=
  { root := false, cwd := [[0x72]],
    ents := [([[0x72]], .dir 0o755 1000), ([[0x72], [0x61]], oldA), ([[0x72], [0x63]], oldC),
             ([[0x72], [0x71]], oldQ)] }

theorem exTree_wf : WellFormed exTree := by decide
theorem exTree_enc : Encodable exTree := by decide
theorem exFs_pre : PreDir exFs exTree := preDirB_sound _ _ (by decide)
theorem exFs_acc : Access exFs := access_user_022 exFs rfl

/-- a directory in the way of a FILE member is outside the domain … -/
example : preDirB { exFs with ents := exFs.ents ++ [([[0x72], [0x64]], .dir 0o755 1)] } exTree = false := by
  decide
/-- … and so is a file in the way of a DIRECTORY member, or anything deeper than the top level -/
example : preDirB { exFs with ents := exFs.ents ++ [([[0x72], [0x64]], oldQ)] } exTree = false := by decide
example : preDirB { exFs with ents := exFs.ents ++ [([[0x72], [0x7a], [0x7a]], oldQ)] } exTree = false := by
  decide

/-- the theorem, instantiated: all hypotheses but the one on the answers discharged -/
theorem ex_run (o : Opts) (ho : OptsOk o) (answers : Bytes) (hans : o.overwrite = .prompt → OwAnswers answers) :
    OwOutcome (run (archiveOf exTree) o exFs answers) exFs (owPlan exFs o answers exTree) :=
  extract_archiveOf_ow exTree exTree_wf exTree_enc o exFs answers ho exFs_pre exFs_acc hans

/-- what is observed: abort flag, result, and the objects at `a`, `c`, `d`, `d/x`, `q`, `r` itself -/
def ExOutcome (r : Extract.St) (ab : Bool) (atA atC atD atDX : Option Fs.Ent) (tR : Nat) : Prop :=
  r.aborted = ab ∧ r.result = !ab ∧
  Fs.lookup r.fs [[0x72], [0x61]] = atA ∧ Fs.lookup r.fs [[0x72], [0x63]] = atC ∧
  Fs.lookup r.fs [[0x72], [0x64]] = atD ∧ Fs.lookup r.fs [[0x72], [0x64], [0x78]] = atDX ∧
  Fs.lookup r.fs [[0x72], [0x71]] = some oldQ ∧ Fs.lookup r.fs [[0x72]] = some (.dir 0o755 tR)

theorem exOutcome_of {r : Extract.St} {w : List Entry} {ab : Bool} (h : OwOutcome r exFs (w, ab))
    {atA atC atD atDX : Option Fs.Ent} {tR : Nat}
    (hA : owTree exFs.now exFs.umask (oldAt exFs) w [[0x61]] = atA)
    (hC : owTree exFs.now exFs.umask (oldAt exFs) w [[0x63]] = atC)
    (hD : owTree exFs.now exFs.umask (oldAt exFs) w [[0x64]] = atD)
    (hDX : owTree exFs.now exFs.umask (oldAt exFs) w [[0x64], [0x78]] = atDX)
    (hQ : owTree exFs.now exFs.umask (oldAt exFs) w [[0x71]] = some oldQ)
    (hT : (if w = [] then 1000 else exFs.now) = tR) :
    ExOutcome r ab atA atC atD atDX tR := by
  obtain ⟨h1, h2, h3, ⟨m, t0, t, hc0, hc1, hc2, hc3⟩, _⟩ := h
  have hc : ∀ p : Fs.Path, exFs.cwd ++ p = [0x72] :: p := fun _ => rfl
  refine ⟨h1, h2, ?_, ?_, ?_, ?_, ?_, ?_⟩
  · rw [← hc, h3 _ (by decide)]; exact hA
  · rw [← hc, h3 _ (by decide)]; exact hC
  · rw [← hc, h3 _ (by decide)]; exact hD
  · rw [← hc, h3 _ (by decide)]; exact hDX
  · rw [← hc, h3 _ (by decide)]; exact hQ
  · have h0 : Fs.lookup exFs exFs.cwd = some (.dir 0o755 1000) := by decide
    rw [h0] at hc0
    injection hc0 with hc0; injection hc0 with hm ht
    subst hm; subst ht
    show Fs.lookup r.fs exFs.cwd = _
    rw [hc1, ← hT]
    by_cases hw : w = []
    · rw [if_pos hw, hc3 hw]
    · rw [if_neg hw, hc2 hw (by decide)]

/-! ## the six runs -/

def newA : Fs.Ent := .file [1] 0o644 111
def newC : Fs.Ent := .file [3] 0o600 333
def newD : Fs.Ent := .dir 0o555 222
def newDX : Fs.Ent := .file [2] 0o600 exFs.now

def ansNY : Bytes := [0x6e, 0x0a, 0x79, 0x0a]            -- "n\ny\n"
def ansA : Bytes := [0x61, 0x0a]                          -- "a\n"
def ansS : Bytes := [0x73, 0x0a]                          -- "s\n"
def ansZY : Bytes := [0x7a, 0x7a, 0x7a, 0x0a, 0x79, 0x0a] -- "zzz\ny\n"

/-- "n", "y": `a` is kept exactly as it was (contents, mode 0444, time 5), `c` is replaced -/
theorem ex_ny : ExOutcome (run (archiveOf exTree) {} exFs ansNY) false
    (some oldA) (some newC) (some newD) (some newDX) exFs.now := by
  have h := ex_run {} ⟨rfl, rfl, rfl⟩ ansNY (fun _ => by decide)
  rw [show owPlan exFs {} ansNY exTree = (exTree.drop 1, false) by decide] at h
  exact exOutcome_of h (by decide) (by decide) (by decide) (by decide) (by decide) (by decide)

/-- "a": `a` and every later file are replaced; the second prompt never comes -/
theorem ex_a : ExOutcome (run (archiveOf exTree) {} exFs ansA) false
    (some newA) (some newC) (some newD) (some newDX) exFs.now := by
  have h := ex_run {} ⟨rfl, rfl, rfl⟩ ansA (fun _ => by decide)
  rw [show owPlan exFs {} ansA exTree = (exTree, false) by decide] at h
  exact exOutcome_of h (by decide) (by decide) (by decide) (by decide) (by decide) (by decide)

/-- "s": `a` and `c` are both kept; what is not in conflict is extracted -/
theorem ex_s : ExOutcome (run (archiveOf exTree) {} exFs ansS) false
    (some oldA) (some oldC) (some newD) (some newDX) exFs.now := by
  have h := ex_run {} ⟨rfl, rfl, rfl⟩ ansS (fun _ => by decide)
  rw [show owPlan exFs {} ansS exTree = ((exTree.drop 1).take 2, false) by decide] at h
  exact exOutcome_of h (by decide) (by decide) (by decide) (by decide) (by decide) (by decide)

/-- "zzz" is asked again, "y" replaces `a`; at the prompt for `c` the input has ended: the run is
aborted, `c` is as it was, everything before it is extracted (`d` already has its recorded mode
and time: no directory is open at a prompt) -/
theorem ex_zy : ExOutcome (run (archiveOf exTree) {} exFs ansZY) true
    (some newA) (some oldC) (some newD) (some newDX) exFs.now := by
  have h := ex_run {} ⟨rfl, rfl, rfl⟩ ansZY (fun _ => by decide)
  rw [show owPlan exFs {} ansZY exTree = (exTree.take 3, true) by decide] at h
  exact exOutcome_of h (by decide) (by decide) (by decide) (by decide) (by decide) (by decide)

/-- no input at all: aborted at the first prompt, nothing is written, not even the time of `r` moves -/
theorem ex_eof : ExOutcome (run (archiveOf exTree) {} exFs []) true
    (some oldA) (some oldC) none none 1000 := by
  have h := ex_run {} ⟨rfl, rfl, rfl⟩ [] (fun _ => by decide)
  rw [show owPlan exFs {} [] exTree = ([], true) by decide] at h
  exact exOutcome_of h (by decide) (by decide) (by decide) (by decide) (by decide) (by decide)

/-- options `f` / `q…` (policy "all"): everything is replaced, whatever the input -/
theorem ex_all (answers : Bytes) : ExOutcome (run (archiveOf exTree) { overwrite := .all } exFs answers) false
    (some newA) (some newC) (some newD) (some newDX) exFs.now := by
  have h := ex_run { overwrite := .all } ⟨rfl, rfl, rfl⟩ answers (fun h => by cases h)
  rw [show owPlan exFs { overwrite := .all } answers exTree = (exTree, false) from plan_all _ _ _] at h
  exact exOutcome_of h (by decide) (by decide) (by decide) (by decide) (by decide) (by decide)

/-! ## the same, evaluated on the bytes (not proofs) -/

/-- the run agrees with the specification's tree at every probe, and nothing else is below `r` -/
def agreesOw (o : Opts) (answers : Bytes) : Bool :=
  let r := run (archiveOf exTree) o exFs answers
  let pl := owPlan exFs o answers exTree
  r.aborted == pl.2 && r.result == !pl.2 &&
  ([[[0x61]], [[0x63]], [[0x64]], [[0x64], [0x78]], [[0x71]], [[0x7a]]] : List Fs.Path).all (fun p =>
    Fs.lookup r.fs (exFs.cwd ++ p) == owTree exFs.now exFs.umask (oldAt exFs) pl.1 p) &&
  r.fs.ents.all (fun x => x.1 == exFs.cwd || (exTree.map Entry.path ++ [[[0x71]]]).any (fun p => exFs.cwd ++ p == x.1))

#guard agreesOw {} ansNY
#guard agreesOw {} ansA
#guard agreesOw {} ansS
#guard agreesOw {} ansZY
#guard agreesOw {} []
#guard agreesOw { overwrite := .all } []
#guard agreesOw { overwrite := .all, quiet := 2 } ansNY
#guard agreesOw {} [0x59, 0x65, 0x73, 0x0a, 0x0a]          -- "Yes", then an empty line: a replaced, c kept
#guard agreesOw {} [0x41, 0x0a]                            -- "A"
#guard agreesOw {} [0x6e, 0x0a, 0x53, 0x0a]                -- "n", "S"

/-! ## outside the domain: where the `Extract` model leaves the specification (= the tool) -/

/-- 64 unusable lines, then "y", "y" -/
def ans64 : Bytes := ((List.replicate 64 [0x7a, 0x0a]).flatten : Bytes) ++ [0x79, 0x0a, 0x79, 0x0a]

/- (1) an unterminated last line.  `prompt_user` reads up to the newline and exits at end of input, so
the tool (and the specification: "y" without newline is no line) aborts at the prompt for `a`; the
model's `readAnswer` takes the first byte of what is left and overwrites `a` (it aborts at `c`). -/
#guard (owPlan exFs {} [0x79] exTree) == ([], true)
#guard (let r := run (archiveOf exTree) {} exFs [0x79]
        r.aborted && Fs.lookup r.fs [[0x72], [0x61]] == some newA)
#guard !agreesOw {} [0x79]
#guard !decide (OwAnswers [0x79])

/- (2) a NUL byte first in a line.  `prompt_user` keeps the first NON-NUL character ("\0y\n" is a yes);
the specification (first character) and the model (first byte) ask again; here both abort at `a`
because the input ends, the tool would overwrite `a`.  Excluded by the first conjunct of `OwAnswers`. -/
#guard (owPlan exFs {} [0x00, 0x79, 0x0a] exTree) == ([], true)
#guard agreesOw {} [0x00, 0x79, 0x0a]
#guard !decide (OwAnswers [0x00, 0x79, 0x0a])

/- (3) 64 unusable lines at one prompt: the tool keeps asking (and then overwrites both files); the
model gives up after 64 tries and aborts.  63 are followed faithfully. -/
#guard (owPlan exFs {} ans64 exTree) == (exTree, false)
#guard (run (archiveOf exTree) {} exFs ans64).aborted
#guard !decide (JunkOk (lines ans64))
#guard agreesOw {} (ans64.drop 2)

/- (4) not a deviation of the model, a fact about the code (tool and model alike, `stat` follows links): a
DANGLING symbolic link at the place of a file member "does not exist" — it is replaced without a prompt
(here `a`, with no input at all; the run then aborts at the prompt for `c`).  Outside `PreDir` (regular
files only). -/
#guard (let fs := { exFs with ents := [([[0x72]], .dir 0o755 1000), ([[0x72], [0x61]], .link [0x6e, 0x6f]),
                                       ([[0x72], [0x63]], oldC)] }
        let r := run (archiveOf exTree) {} fs []
        r.aborted && Fs.lookup r.fs [[0x72], [0x61]] == some newA && Fs.lookup r.fs [[0x72], [0x63]] == some oldC)

end LhasaV.ExtractTree.OwSample
