import LhasaV.Model.Reader
import LhasaV.Lemmas.WrapProps
import LhasaV.Lemmas.HeaderSound
/-!
# Reader ownership ledger (C20), sticky end (C15), verdict = length ∧ CRC (C07)

Theorems about the reader state machine of `LhasaV/Model/Reader.lean`
(`lib/lha_reader.c`, `lib/lha_basic_reader.c`).

* **C20** `free_releases_all` (legal histories and their prefixes), `free_releases_all_any` (every
  history: the model's `closeDecoder` zeroes the decoder count, so legality is not needed for the
  header ledger), the ownership invariant `Inv` (every history) and the full invariant `InvD`
  = `Inv` + "ledger decoder count = decoder objects behind `dec`" on every legal history
  (`run_invD_legal`; a faulting `next` is shown to be possible only before the stream's start-up scan,
  when nothing is open: `next_ok_of_started`).  `Inv.live_iff`, `Inv.rc_eq`, `Inv.ids`, `Inv.curr_live`
  read the invariant back: ledger entries = reachable headers, count = number of owners, ids distinct.
* **C15** `end_sticky`, `next_none_eof`, `basicNext_eof`.
* **C07** `check_iff`, `check_truncated`, `check_dir`, `check_not_normal` (and `extract_file_iff`).
-/
namespace LhasaV.Reader
open LhasaV

/-! ## 0. Operations, histories, legality -/

/-- the four public operations of the reader -/
inductive Op where
  | next | read (k : Nat) | check | extract (fsOk : Bool)
deriving Repr, DecidableEq

/-- run one operation (ignore its output); a parser/scan fault (`Except.error`) leaves the state
unchanged -/
def step (s : St) : Op → St
  | .next => match next s with
    | .ok r => r.2
    | .error _ => s
  | .read k => (read s k).2
  | .check => (check s).2
  | .extract fsOk => (extract s fsOk).2

def run (s : St) (ops : List Op) : St := ops.foldl step s

/-- where a history stands since the last `next` (or since the start): nothing done yet,
only reads done, or the one check / extract done -/
inductive Phase where
  | fresh | reading | done
deriving Repr, DecidableEq

/-- the legality automaton: `next` is always allowed and resets the phase; reads are allowed
while nothing but reads happened; `check` / `extract` only as the first and then only operation -/
def legalFrom : Phase → List Op → Bool
  | _, [] => true
  | _, .next :: ops => legalFrom .fresh ops
  | .fresh, .read _ :: ops => legalFrom .reading ops
  | .reading, .read _ :: ops => legalFrom .reading ops
  | .fresh, .check :: ops => legalFrom .done ops
  | .fresh, .extract _ :: ops => legalFrom .done ops
  | _, _ :: _ => false

/-- "at most one decode operation per member and one extract per entry": between two `next`s
(and before the first, and after the last) there is nothing, or only reads, or one check, or one
extract -/
def Legal (ops : List Op) : Prop := legalFrom .fresh ops = true

instance (ops : List Op) : Decidable (Legal ops) := inferInstanceAs (Decidable (_ = true))

def fresh (st : Stream.St) (pol : DirPolicy) (mk : Nat → Nat) : St :=
  { basic := { stream := st }, policy := pol, mktime := mk }

@[simp] theorem run_nil (s : St) : run s [] = s := rfl
@[simp] theorem run_cons (s : St) (op : Op) (ops : List Op) : run s (op :: ops) = run (step s op) ops := rfl
theorem run_append (s : St) (a b : List Op) : run s (a ++ b) = run (run s a) b := by
  simp [run, List.foldl_append]

/-- a prefix of a legal history is legal (from any phase) -/
theorem legalFrom_prefix (p : Phase) (a b : List Op) (h : legalFrom p (a ++ b) = true) :
    legalFrom p a = true := by
  induction a generalizing p with
  | nil => cases p <;> rfl
  | cons op a ih =>
    cases op <;> cases p <;> simp_all [legalFrom] <;> exact ih _ h

theorem legal_prefix (a b : List Op) (h : Legal (a ++ b)) : Legal a := legalFrom_prefix _ a b h

theorem legal_of_isPrefix {a ops : List Op} (hp : a <+: ops) (h : Legal ops) : Legal a := by
  obtain ⟨b, rfl⟩ := hp; exact legal_prefix a b h

/-! ### `Legal`, declaratively -/

def Op.isRead : Op → Bool
  | .read _ => true
  | _ => false

/-- what may stand between two `next`s: nothing or only reads, or one check, or one extract -/
def segOk (seg : List Op) : Bool :=
  seg.all Op.isRead ||
  (match seg with
   | [.check] => true
   | [.extract _] => true
   | _ => false)

/-- split a history at its `next`s: the segment before the first `next`, and the segments after
each `next` -/
def segments : List Op → List Op × List (List Op)
  | [] => ([], [])
  | op :: ops =>
    match op with
    | .next => ([], (segments ops).1 :: (segments ops).2)
    | _ => (op :: (segments ops).1, (segments ops).2)

def segOkFrom : Phase → List Op → Bool
  | .fresh, seg => segOk seg
  | .reading, seg => seg.all Op.isRead
  | .done, seg => seg.isEmpty

theorem legalFrom_segments (p : Phase) (ops : List Op) :
    legalFrom p ops = (segOkFrom p (segments ops).1 && (segments ops).2.all segOk) := by
  induction ops generalizing p with
  | nil => cases p <;> rfl
  | cons op ops ih =>
    cases op with
    | next =>
      have : legalFrom p (.next :: ops) = legalFrom .fresh ops := by cases p <;> rfl
      rw [this, ih]
      cases p <;> simp [segments, segOkFrom, segOk]
    | read k =>
      cases p with
      | fresh =>
        show legalFrom .reading ops = _
        rw [ih]
        simp only [segments, segOkFrom, segOk, List.all_cons, Op.isRead, Bool.true_and]
        cases (segments ops).1 <;> simp
      | reading =>
        show legalFrom .reading ops = _
        rw [ih]
        simp [segments, segOkFrom, Op.isRead]
      | done => simp [legalFrom, segments, segOkFrom]
    | check =>
      cases p with
      | fresh =>
        show legalFrom .done ops = _
        rw [ih]
        simp only [segments, segOkFrom, segOk, List.all_cons, Op.isRead, Bool.false_and, Bool.false_or]
        cases (segments ops).1 <;> simp
      | reading => simp [legalFrom, segments, segOkFrom, Op.isRead]
      | done => simp [legalFrom, segments, segOkFrom]
    | extract b =>
      cases p with
      | fresh =>
        show legalFrom .done ops = _
        rw [ih]
        simp only [segments, segOkFrom, segOk, List.all_cons, Op.isRead, Bool.false_and, Bool.false_or]
        cases (segments ops).1 <;> simp
      | reading => simp [legalFrom, segments, segOkFrom, Op.isRead]
      | done => simp [legalFrom, segments, segOkFrom]

/-- `Legal` says exactly what the property text says: cut the history at its `next`s; every piece
(before the first, between two, after the last) is empty, or only reads, or one check, or one extract -/
theorem legal_iff_segments (ops : List Op) :
    Legal ops ↔ (segOk (segments ops).1 = true ∧ ∀ seg ∈ (segments ops).2, segOk seg = true) := by
  unfold Legal
  rw [legalFrom_segments]
  simp [segOkFrom]

/-! ## 1. Frame: what `read`, `check`, `extract`-of-a-file, `closeDecoder` never touch -/

structure Frame (s s' : St) : Prop where
  curr : s'.curr = s.curr
  currType : s'.currType = s.currType
  policy : s'.policy = s.policy
  dirStack : s'.dirStack = s.dirStack
  deferred : s'.deferred = s.deferred
  mktime : s'.mktime = s.mktime
  bcurr : s'.basic.curr = s.basic.curr
  hdrs : s'.led.hdrs = s.led.hdrs
  blocks : s'.led.blocks = s.led.blocks
  nextId : s'.led.nextId = s.led.nextId
  faults : s'.led.faults = s.led.faults
  phase : s'.basic.stream.phase = s.basic.stream.phase

theorem Frame.refl (s : St) : Frame s s := by constructor <;> rfl
theorem Frame.trans {a b c : St} (h1 : Frame a b) (h2 : Frame b c) : Frame a c := by
  constructor
  all_goals first
    | exact h2.curr.trans h1.curr
    | exact h2.currType.trans h1.currType
    | exact h2.policy.trans h1.policy
    | exact h2.dirStack.trans h1.dirStack
    | exact h2.deferred.trans h1.deferred
    | exact h2.mktime.trans h1.mktime
    | exact h2.bcurr.trans h1.bcurr
    | exact h2.hdrs.trans h1.hdrs
    | exact h2.blocks.trans h1.blocks
    | exact h2.nextId.trans h1.nextId
    | exact h2.faults.trans h1.faults
    | exact h2.phase.trans h1.phase

theorem closeDecoder_frame (s : St) : Frame s (closeDecoder s) := by
  unfold closeDecoder
  split
  · exact Frame.refl s
  · constructor <;> rfl

theorem closeDecoder_dec (s : St) : (closeDecoder s).dec = none := by
  unfold closeDecoder
  split
  · assumption
  · rfl

theorem openDecoder_frame (s : St) : Frame s (openDecoder s).2 := by
  unfold openDecoder
  split
  · exact Frame.refl s
  · split
    · exact Frame.refl s
    · split
      · split
        · dsimp only
          split
          · dsimp only
            exact Frame.trans (by constructor <;> rfl) (closeDecoder_frame { s with dec := _ })
          · constructor <;> rfl
        · constructor <;> rfl
      · exact Frame.refl s


def readCore (s : St) (k : Nat) : List UInt8 × St :=
  match s.dec with
  | none => ([], s)
  | some o =>
    match o.plain, o.mac with
    | some st, _ =>
      let r := Wrap.read o.d.total k st
      (r.1.1, { s with dec := some { o with plain := some r.2 } })
    | none, some m =>
      let r := Wrap.read (macRead o.d.total) k m
      (r.1.1, { s with dec := some { o with mac := some r.2 } })
    | none, none => ([], s)

theorem read_eq (s : St) (k : Nat) : read s k =
    match s.dec with
    | some o => if (o.plain.isSome || o.mac.isSome) then readCore s k else ([], s)
    | none => if (openDecoder s).1 then readCore (openDecoder s).2 k else ([], (openDecoder s).2) := by
  unfold read readCore
  cases h : s.dec with
  | none => 
    dsimp only
    cases (openDecoder s).1 <;> simp <;> rfl
  | some o =>
    dsimp only
    cases (o.plain.isSome || o.mac.isSome) <;> simp [h] <;> rfl

theorem readCore_frame (s : St) (k : Nat) : Frame s (readCore s k).2 := by
  unfold readCore
  split
  · exact Frame.refl s
  · split
    · constructor <;> rfl
    · constructor <;> rfl
    · exact Frame.refl s

theorem read_frame (s : St) (k : Nat) : Frame s (read s k).2 := by
  rw [read_eq]
  split
  · split
    · exact readCore_frame s k
    · exact Frame.refl s
  · split
    · exact Frame.trans (openDecoder_frame s) (readCore_frame _ k)
    · exact openDecoder_frame s

theorem decodeLoop_frame (fuel : Nat) (s : St) (acc : List UInt8) : Frame s (decodeLoop fuel s acc).2 := by
  induction fuel generalizing s acc with
  | zero => exact Frame.refl s
  | succ n ih =>
    unfold decodeLoop
    dsimp only
    split
    · exact read_frame s 64
    · exact Frame.trans (read_frame s 64) (ih _ _)

/-! ## 2. `next` in four phases -/

/-- phase 1 of `next` (after `closeDecoder`): advance the basic reader if the last entry came from the stream -/
def nextAdv (s : St) : Except String St :=
  if s.currType == .start ∨ s.currType == .normal then
    (match basicNext s.mktime s.basic s.led with
     | .ok r => (.ok { s with basic := r.1, led := r.2 } : Except String St)
     | .fail => .error "basicNext returned fail"
     | .fault w => .error w)
  else .ok s

/-- phase 2: drop the reader's reference to a fake directory / deferred symlink just returned -/
def nextUnref (s : St) : St :=
  if s.currType == .fakeDir ∨ s.currType == .deferred then
    match s.curr with
    | some c => { s with led := s.led.unref c.id }
    | none => s
  else s

/-- phase 3: pop a finished directory, or take the stream's current header -/
def nextPop (s : St) : St :=
  if endOfTopDir s then
    match s.dirStack with
    | top :: rest => { s with curr := some top, dirStack := rest, currType := .fakeDir }
    | [] => s
  else { s with curr := s.basic.curr, currType := .normal }

/-- phase 4: at the end of the stream, hand out the deferred symlinks, then report the end -/
def nextDeferred (s : St) : St :=
  match s.curr with
  | some _ => s
  | none =>
    match s.deferred with
    | d :: rest => { s with curr := some d, currType := .deferred, deferred := rest }
    | [] => { s with currType := .eof }

theorem next_eq (s : St) : next s =
    if (closeDecoder s).currType == .eof then .ok (none, closeDecoder s) else
    (nextAdv (closeDecoder s)) >>= fun s1 =>
      .ok ((nextDeferred (nextPop (nextUnref s1))).curr, nextDeferred (nextPop (nextUnref s1))) := rfl


/-! ## 3. C15: the end is sticky -/

instance : LawfulBEq CurrType where
  eq_of_beq {a b} h := by cases a <;> cases b <;> first | rfl | cases h
  rfl {a} := by cases a <;> rfl

instance : LawfulBEq DirPolicy where
  eq_of_beq {a b} h := by cases a <;> cases b <;> first | rfl | cases h
  rfl {a} := by cases a <;> rfl

theorem nextDeferred_curr_none (s : St) (h : (nextDeferred s).curr = none) :
    (nextDeferred s).currType = .eof := by
  unfold nextDeferred at *
  cases hc : s.curr with
  | some c => simp [hc] at h
  | none =>
    cases hd : s.deferred with
    | nil => simp
    | cons d r => simp [hc, hd] at h

/-- `next` reports the end only in state `eof` -/
theorem next_none_eof {s s' : St} (h : next s = .ok (none, s')) : s'.currType = .eof := by
  rw [next_eq] at h
  split at h
  · rename_i he
    simp only [Except.ok.injEq, Prod.mk.injEq, true_and] at h
    subst h
    simpa using he
  · cases ha : nextAdv (closeDecoder s) with
    | error e => rw [ha] at h; cases h
    | ok s1 =>
      rw [ha] at h
      simp only [bind, Except.bind, Except.ok.injEq, Prod.mk.injEq] at h
      obtain ⟨hc, rfl⟩ := h
      exact nextDeferred_curr_none _ hc

/-- in state `eof`, `next` reports the end and stays in `eof` -/
theorem next_of_eof (s : St) (h : s.currType = .eof) :
    next s = .ok (none, closeDecoder s) := by
  rw [next_eq, (closeDecoder_frame s).currType, h]; rfl

theorem check_frame (s : St) : Frame s (check s).2 := by
  unfold check
  split
  · exact Frame.refl s
  · split
    · exact Frame.refl s
    · split
      · exact Frame.refl s
      · dsimp only
        split
        · exact openDecoder_frame s
        · exact Frame.trans (openDecoder_frame s) (decodeLoop_frame _ _ _)

theorem extract_currType (s : St) (b : Bool) : (extract s b).2.currType = s.currType := by
  unfold extract
  split
  · split
    · dsimp only
      split
      · exact (openDecoder_frame s).currType
      · split
        · exact (openDecoder_frame s).currType
        · exact ((openDecoder_frame s).trans (decodeLoop_frame _ _ _)).currType
    · split
      · split
        · split <;> rfl
        · rfl
      · split
        · rfl
        · split <;> rfl
  · rfl
  · rfl
  · rfl

/-- no operation leaves state `eof` -/
theorem step_eof (s : St) (op : Op) (h : s.currType = .eof) : (step s op).currType = .eof := by
  cases op with
  | next => simp only [step, next_of_eof s h]; rw [(closeDecoder_frame s).currType, h]
  | read k => simp only [step]; rw [(read_frame s k).currType, h]
  | check => simp only [step]; rw [(check_frame s).currType, h]
  | extract b => simp only [step]; rw [extract_currType, h]

theorem run_eof (s : St) (ops : List Op) (h : s.currType = .eof) : (run s ops).currType = .eof := by
  induction ops generalizing s with
  | nil => exact h
  | cons op ops ih => exact ih _ (step_eof s op h)

/-- **C15.** Once `next` has reported the end, every later `next` reports the end again,
whatever reads, checks, extracts and `next`s happen in between. -/
theorem end_sticky {s s' : St} (h : next s = .ok (none, s')) (ops : List Op) :
    ∃ s'', next (run s' ops) = .ok (none, s'') ∧ s''.currType = .eof := by
  have he := run_eof s' ops (next_none_eof h)
  exact ⟨_, next_of_eof _ he, by rw [(closeDecoder_frame _).currType, he]⟩

/-- the basic reader: once `eof` is set, `lha_basic_reader_next_file` returns no header and
keeps `eof` set (no parser call, so no fault either) -/
theorem basicNext_eof (mk : Nat → Nat) (b : Basic) (led : Ledger) (h : b.eof = true) :
    ∃ b' led', basicNext mk b led = .ok (b', led') ∧ b'.curr = none ∧ b'.eof = true := by
  unfold basicNext
  cases hc : b.curr with
  | none => exact ⟨b, led, by simp [h], hc, h⟩
  | some c => exact ⟨_, _, by simp [h]; exact ⟨rfl, rfl⟩, rfl, rfl⟩

/-! ## 4. C07: the verdict of `check` is "length and CRC agree" -/

/-- the open decoder is a plain (non-Mac) one whose wrapper has so far handed out `p` bytes with
running CRC `c` -/
def PlainAt (s : St) (p : Nat) (c : BitVec 16) : Prop :=
  ∃ o st, s.dec = some o ∧ o.plain = some st ∧ st.pos = p ∧ st.crc = c

theorem readCore_plainAt {s : St} {p : Nat} {c : BitVec 16} (h : PlainAt s p c) (k : Nat) :
    PlainAt (readCore s k).2 (p + (readCore s k).1.length) (Crc.buf c (readCore s k).1) := by
  obtain ⟨o, st, hd, hp, rfl, rfl⟩ := h
  unfold readCore
  simp only [hd]
  split
  · rename_i st' _ hp'
    rw [hp] at hp'; cases hp'
    exact ⟨_, _, rfl, rfl, Wrap.read_pos _ _ _, Wrap.read_crc _ _ _⟩
  · rename_i hp' _; rw [hp] at hp'; cases hp'
  · rename_i hp' _; rw [hp] at hp'; cases hp'

theorem read_plainAt {s : St} {p : Nat} {c : BitVec 16} (h : PlainAt s p c) (k : Nat) :
    PlainAt (read s k).2 (p + (read s k).1.length) (Crc.buf c (read s k).1) := by
  have h' := h
  obtain ⟨o, st, hd, hp, -, -⟩ := h'
  rw [read_eq]
  simp only [hd, hp, Option.isSome_some, Bool.true_or, if_true]
  exact readCore_plainAt h k

theorem crc_buf_append' (c : BitVec 16) (a b : List UInt8) : Crc.buf c (a ++ b) = Crc.buf (Crc.buf c a) b := by
  simp [Crc.buf, List.foldl_append]

/-- the read loop of `do_decode` on a plain decoder: the bytes appended to `acc` are exactly what the
wrapper counted and summed -/
theorem decodeLoop_plainAt (fuel : Nat) {s : St} {p : Nat} {c : BitVec 16} (h : PlainAt s p c)
    (acc : List UInt8) :
    ∃ out, (decodeLoop fuel s acc).1 = acc ++ out ∧
      PlainAt (decodeLoop fuel s acc).2 (p + out.length) (Crc.buf c out) := by
  induction fuel generalizing s p c acc with
  | zero => exact ⟨[], by simp [decodeLoop], by simpa [decodeLoop, Crc.buf] using h⟩
  | succ n ih =>
    unfold decodeLoop
    dsimp only
    have hr := read_plainAt h 64
    split
    · rename_i he
      have he' : (read s 64).1 = [] := by simpa using he
      rw [he'] at hr
      exact ⟨[], by simp, by simpa [Crc.buf] using hr⟩
    · obtain ⟨out, h1, h2⟩ := ih hr (acc ++ (read s 64).1)
      refine ⟨(read s 64).1 ++ out, by rw [h1, List.append_assoc], ?_⟩
      rw [crc_buf_append', List.length_append, ← Nat.add_assoc]
      exact h2

theorem verdict_plainAt {s : St} {p : Nat} {c : BitVec 16} (h : PlainAt s p c) {hd : HObj}
    (hc : s.curr = some hd) : verdict s = (p == hd.h.length && c.toNat == hd.h.crc) := by
  obtain ⟨o, st, hdec, hp, rfl, rfl⟩ := h
  unfold verdict
  simp only [hdec, hc, Open.innerSt, hp]


/-- `open_decoder` on a non-Mac member with a known method succeeds with a fresh plain decoder
(whatever `dec` was before) -/
theorem openDecoder_plain {s : St} {c : HObj} {d : Dec} {info : Nat × Nat × Nat}
    (ht : s.currType = .normal) (hc : s.curr = some c) (hos : c.h.osType ≠ 0x6d)
    (hd : decoderFor (methodName c.h) = some d) (hi : decoderInfo (methodName c.h) = some info) :
    (openDecoder s).1 = true ∧ PlainAt (openDecoder s).2 0 0 ∧ (openDecoder s).2.curr = some c := by
  unfold openDecoder
  simp only [ht, hc, hd, hi, hos, bne_self_eq_false, Bool.false_eq_true, if_false]
  exact ⟨trivial, ⟨_, _, rfl, rfl, rfl, rfl⟩, trivial⟩

/-- what `check` computes on a non-Mac, non-directory member with a known method: it decodes, and
the verdict compares the number and the CRC of the bytes handed out with the header -/
theorem check_eq {s : St} {c : HObj} {d : Dec} {info : Nat × Nat × Nat}
    (ht : s.currType = .normal) (hc : s.curr = some c) (hos : c.h.osType ≠ 0x6d)
    (hm : c.h.method ≠ "-lhd-".toUTF8.toList)
    (hd : decoderFor (methodName c.h) = some d) (hi : decoderInfo (methodName c.h) = some info) :
    (check s).1.1 = ((check s).1.2.length == c.h.length && (Crc.buf 0 (check s).1.2).toNat == c.h.crc) := by
  obtain ⟨h1, h2, h3⟩ := openDecoder_plain ht hc hos hd hi
  obtain ⟨out, e1, e2⟩ := decodeLoop_plainAt (c.h.length + 2) h2 []
  have hc' : (decodeLoop (c.h.length + 2) (openDecoder s).2 []).2.curr = some c := by
    rw [(decodeLoop_frame _ _ _).curr, h3]
  have hv := verdict_plainAt e2 hc'
  have hm' : (c.h.method == "-lhd-".toUTF8.toList) = false := by
    rw [beq_eq_false_iff_ne]; exact hm
  unfold check
  simp only [ht, hc, h1, hm', bne_self_eq_false, Bool.false_eq_true, if_false, Bool.not_true, hv, e1]
  simp

/-- **C07.** For a non-Mac member that is not a directory and whose method has a decoder, the verdict of
`lha_reader_check` is `true` exactly when the decoded bytes (`r.1.2`, everything the decoder handed out)
have the header's length and the header's CRC.  (`dec = none` is not needed: `check` opens its own decoder.) -/
theorem check_iff {s : St} {c : HObj} {d : Dec} {info : Nat × Nat × Nat}
    (ht : s.currType = .normal) (hc : s.curr = some c) (hos : c.h.osType ≠ 0x6d)
    (hm : c.h.method ≠ "-lhd-".toUTF8.toList)
    (hd : decoderFor (methodName c.h) = some d) (hi : decoderInfo (methodName c.h) = some info) :
    (check s).1.1 = true ↔
      ((check s).1.2.length = c.h.length ∧ (Crc.buf 0 (check s).1.2).toNat = c.h.crc) := by
  rw [check_eq ht hc hos hm hd hi]; simp

/-- any truncation is detected: fewer decoded bytes than the header declares give verdict `false` -/
theorem check_truncated {s : St} {c : HObj} {d : Dec} {info : Nat × Nat × Nat}
    (ht : s.currType = .normal) (hc : s.curr = some c) (hos : c.h.osType ≠ 0x6d)
    (hm : c.h.method ≠ "-lhd-".toUTF8.toList)
    (hd : decoderFor (methodName c.h) = some d) (hi : decoderInfo (methodName c.h) = some info)
    (hlt : (check s).1.2.length < c.h.length) : (check s).1.1 = false := by
  cases hb : (check s).1.1 with
  | false => rfl
  | true => have := ((check_iff ht hc hos hm hd hi).1 hb).1; omega

/-- a directory entry checks `true` without any decoding -/
theorem check_dir {s : St} {c : HObj} (ht : s.currType = .normal) (hc : s.curr = some c)
    (hm : c.h.method = "-lhd-".toUTF8.toList) : check s = ((true, []), s) := by
  have hm' : (c.h.method == "-lhd-".toUTF8.toList) = true := by rw [hm]; exact beq_self_eq_true _
  unfold check; simp only [ht, hc, hm', bne_self_eq_false, Bool.false_eq_true, if_false, if_true]

/-- nothing but an entry read from the stream can be checked -/
theorem check_not_normal {s : St} (ht : s.currType ≠ .normal) : check s = ((false, []), s) := by
  unfold check; simp [ht]

/-! ## 5. The ledger: reference counts -/

namespace Ledger

/-- reference count of `id` in a header table (first entry; 0 if there is none) -/
def lrc : List (Nat × Nat) → Nat → Nat
  | [], _ => 0
  | p :: h, id => if p.1 = id then p.2 else lrc h id

/-- reference count recorded for `id` (0 = not live) -/
def rc (l : Ledger) (id : Nat) : Nat := lrc l.hdrs id

theorem lrc_find_none {h : List (Nat × Nat)} {id : Nat} (e : h.find? (·.1 == id) = none) : lrc h id = 0 := by
  induction h with
  | nil => rfl
  | cons p h ih =>
    simp only [List.find?_cons] at e
    split at e
    · cases e
    · rename_i hp
      have : ¬ p.1 = id := by simpa using hp
      simp [lrc, this, ih e]

theorem lrc_find_some {h : List (Nat × Nat)} {id i r : Nat} (e : h.find? (·.1 == id) = some (i, r)) :
    i = id ∧ lrc h id = r := by
  induction h with
  | nil => cases e
  | cons p h ih =>
    simp only [List.find?_cons] at e
    split at e
    · rename_i hp
      cases e
      have : i = id := by simpa using hp
      simp [lrc, this]
    · rename_i hp
      have : ¬ p.1 = id := by simpa using hp
      simp [lrc, this, ih e]

theorem lrc_pos_mem {h : List (Nat × Nat)} {id : Nat} (hp : 1 ≤ lrc h id) : ∃ p ∈ h, p.1 = id := by
  induction h with
  | nil => simp [lrc] at hp
  | cons p h ih =>
    by_cases e : p.1 = id
    · exact ⟨p, by simp, e⟩
    · simp only [lrc, e, if_false] at hp
      obtain ⟨q, hq, hq'⟩ := ih hp
      exact ⟨q, by simp [hq], hq'⟩

theorem lrc_not_mem {h : List (Nat × Nat)} {id : Nat} (hn : ∀ p ∈ h, p.1 ≠ id) : lrc h id = 0 := by
  induction h with
  | nil => rfl
  | cons p h ih =>
    have := hn p (by simp)
    simp only [lrc, this, if_false]
    exact ih (fun q hq => hn q (by simp [hq]))

theorem lrc_mem_pos {h : List (Nat × Nat)} {id : Nat} (hpos : ∀ p ∈ h, 1 ≤ p.2) (hm : ∃ p ∈ h, p.1 = id) :
    1 ≤ lrc h id := by
  induction h with
  | nil => obtain ⟨p, hp, _⟩ := hm; cases hp
  | cons p h ih =>
    by_cases e : p.1 = id
    · simp only [lrc, e, if_true]; exact hpos p (by simp)
    · simp only [lrc, e, if_false]
      obtain ⟨q, hq, hq'⟩ := hm
      rcases List.mem_cons.1 hq with rfl | hq
      · exact absurd hq' e
      · exact ih (fun q hq => hpos q (by simp [hq])) ⟨q, hq, hq'⟩

theorem lrc_filter (h : List (Nat × Nat)) (id j : Nat) :
    lrc (h.filter (·.1 != id)) j = if j = id then 0 else lrc h j := by
  induction h with
  | nil => simp [lrc]
  | cons p h ih =>
    simp only [List.filter_cons]
    by_cases e : p.1 = id
    · have hb : (p.1 != id) = false := by simp [e]
      simp only [hb, Bool.false_eq_true, if_false, ih]
      by_cases e' : j = id
      · simp [e']
      · have : ¬ p.1 = j := by omega
        simp [e', lrc, this]
    · have hb : (p.1 != id) = true := by simp [e]
      simp only [hb, if_true, lrc, ih]
      by_cases e' : j = id
      · simp [e', e]
      · simp [e']

theorem lrc_map_ne (f : Nat → Nat) (h : List (Nat × Nat)) {id j : Nat} (hj : j ≠ id) :
    lrc (h.map (fun p => if p.1 == id then (p.1, f p.2) else p)) j = lrc h j := by
  induction h with
  | nil => rfl
  | cons p h ih =>
    simp only [List.map_cons, lrc, ih]
    by_cases e : p.1 = id
    · have : ¬ id = j := by omega
      simp [e, this]
    · simp [e]

theorem lrc_map_eq (f : Nat → Nat) (h : List (Nat × Nat)) {id : Nat} (hm : ∃ p ∈ h, p.1 = id) :
    lrc (h.map (fun p => if p.1 == id then (p.1, f p.2) else p)) id = f (lrc h id) := by
  induction h with
  | nil => obtain ⟨p, hp, _⟩ := hm; cases hp
  | cons p h ih =>
    simp only [List.map_cons, lrc]
    by_cases e : p.1 = id
    · simp [e]
    · have eb : (p.1 == id) = false := by simp [e]
      simp only [eb, Bool.false_eq_true, e, if_false]
      obtain ⟨q, hq, hq'⟩ := hm
      rcases List.mem_cons.1 hq with rfl | hq
      · exact absurd hq' e
      · exact ih ⟨q, hq, hq'⟩

theorem map_fst_upd (f : Nat → Nat) (h : List (Nat × Nat)) (id : Nat) :
    (h.map (fun p => if p.1 == id then (p.1, f p.2) else p)).map (·.1) = h.map (·.1) := by
  induction h with
  | nil => rfl
  | cons p h ih =>
    simp only [List.map_cons, ih]
    by_cases e : p.1 = id <;> simp [e]

theorem lrc_nodup_mem {h : List (Nat × Nat)} (hn : (h.map (·.1)).Nodup) {p : Nat × Nat} (hp : p ∈ h) :
    lrc h p.1 = p.2 := by
  induction h with
  | nil => cases hp
  | cons q h ih =>
    simp only [List.map_cons, List.nodup_cons] at hn
    rcases List.mem_cons.1 hp with rfl | hp'
    · simp [lrc]
    · have : ¬ q.1 = p.1 := by
        intro e; exact hn.1 (by rw [e]; exact List.mem_map_of_mem hp')
      simp only [lrc, this, if_false]
      exact ih hn.2 hp'


/-- well-formed ledger: every entry has a positive count, ids are below `nextId` and pairwise
distinct, every live id has its block count recorded -/
structure WF (l : Ledger) : Prop where
  pos : ∀ p ∈ l.hdrs, 1 ≤ p.2
  lt : ∀ p ∈ l.hdrs, p.1 < l.nextId
  nodup : (l.hdrs.map (·.1)).Nodup
  blocks : ∀ p ∈ l.hdrs, ∃ q ∈ l.blocks, q.1 = p.1

theorem WF.rc_pos_iff {l : Ledger} (hw : WF l) (id : Nat) : 1 ≤ l.rc id ↔ ∃ p ∈ l.hdrs, p.1 = id :=
  ⟨lrc_pos_mem, lrc_mem_pos hw.pos⟩

theorem WF.rc_nextId {l : Ledger} (hw : WF l) : l.rc l.nextId = 0 :=
  lrc_not_mem (fun p hp => Nat.ne_of_lt (hw.lt p hp))

/-- a well-formed ledger in which every count is 0 has no live header -/
theorem WF.hdrs_nil {l : Ledger} (hw : WF l) (h0 : ∀ id, l.rc id = 0) : l.hdrs = [] := by
  cases hh : l.hdrs with
  | nil => rfl
  | cons p h =>
    have h1 := h0 p.1
    have h2 := hw.pos p (by simp [hh])
    simp [rc, hh, lrc] at h1
    omega

theorem alloc_spec {l : Ledger} (hw : WF l) (n : Nat) :
    WF (l.alloc n).2 ∧ (l.alloc n).1 = l.nextId ∧ (l.alloc n).2.faults = l.faults ∧
    (l.alloc n).2.decoders = l.decoders ∧
    ∀ j, (l.alloc n).2.rc j = l.rc j + (if j = l.nextId then 1 else 0) := by
  refine ⟨⟨?_, ?_, ?_, ?_⟩, rfl, rfl, rfl, ?_⟩
  · intro p hp
    rcases List.mem_cons.1 hp with rfl | hp
    · exact Nat.le_refl 1
    · exact hw.pos p hp
  · intro p hp
    rcases List.mem_cons.1 hp with rfl | hp
    · exact Nat.lt_succ_self _
    · exact Nat.lt_succ_of_lt (hw.lt p hp)
  · show ((l.nextId, 1) :: l.hdrs).map (·.1) |>.Nodup
    simp only [List.map_cons, List.nodup_cons]
    refine ⟨?_, hw.nodup⟩
    intro hm
    obtain ⟨p, hp, e⟩ := List.mem_map.1 hm
    have := hw.lt p hp
    omega
  · intro p hp
    rcases List.mem_cons.1 hp with rfl | hp
    · exact ⟨(l.nextId, n), by simp [alloc], rfl⟩
    · obtain ⟨q, hq, e⟩ := hw.blocks p hp
      exact ⟨q, by simp [alloc, hq], e⟩
  · intro j
    show lrc ((l.nextId, 1) :: l.hdrs) j = _
    by_cases e : j = l.nextId
    · subst e; simp [lrc]; exact hw.rc_nextId
    · have : ¬ l.nextId = j := fun h => e h.symm
      simp [lrc, e, this, rc]

theorem addRef_spec {l : Ledger} {id : Nat} (hw : WF l) (h : 1 ≤ l.rc id) :
    WF (l.addRef id) ∧ (l.addRef id).faults = l.faults ∧ (l.addRef id).decoders = l.decoders ∧
    ∀ j, (l.addRef id).rc j = l.rc j + (if j = id then 1 else 0) := by
  have hm := (hw.rc_pos_iff id).1 h
  have hany : l.hdrs.any (·.1 == id) = true := by
    obtain ⟨p, hp, e⟩ := hm
    exact List.any_eq_true.2 ⟨p, hp, by simp [e]⟩
  unfold addRef
  rw [if_pos hany]
  have hfst := map_fst_upd (· + 1) l.hdrs id
  refine ⟨⟨?_, ?_, ?_, ?_⟩, rfl, rfl, ?_⟩
  · intro p hp
    obtain ⟨q, hq, rfl⟩ := List.mem_map.1 hp
    have := hw.pos q hq
    by_cases e : q.1 = id <;> simp [e] <;> omega
  · intro p hp
    obtain ⟨q, hq, rfl⟩ := List.mem_map.1 hp
    have := hw.lt q hq
    by_cases e : q.1 = id <;> simp [e] <;> omega
  · show List.Nodup (List.map _ (List.map _ _))
    rw [hfst]; exact hw.nodup
  · intro p hp
    obtain ⟨q, hq, rfl⟩ := List.mem_map.1 hp
    obtain ⟨b, hb, e⟩ := hw.blocks q hq
    refine ⟨b, hb, ?_⟩
    by_cases e' : q.1 = id <;> simp [e', e]
  · intro j
    by_cases e : j = id
    · subst e
      simp only [rc, if_true]
      exact lrc_map_eq (· + 1) l.hdrs hm
    · simp only [rc, e, if_false, Nat.add_zero]
      exact lrc_map_ne (· + 1) l.hdrs e

theorem unref_spec {l : Ledger} {id : Nat} (hw : WF l) (h : 1 ≤ l.rc id) :
    WF (l.unref id) ∧ (l.unref id).faults = l.faults ∧ (l.unref id).decoders = l.decoders ∧
    ∀ j, (l.unref id).rc j = l.rc j - (if j = id then 1 else 0) := by
  have hm := (hw.rc_pos_iff id).1 h
  unfold unref
  cases hf : l.hdrs.find? (·.1 == id) with
  | none => have := lrc_find_none hf; simp only [rc] at h; omega
  | some pr =>
    obtain ⟨i, r⟩ := pr
    obtain ⟨rfl, hr⟩ := lrc_find_some hf
    dsimp only
    split
    · -- last reference: the entry goes away
      rename_i hle
      refine ⟨⟨?_, ?_, ?_, ?_⟩, rfl, rfl, ?_⟩
      · intro p hp; exact hw.pos p (List.mem_filter.1 hp).1
      · intro p hp; exact hw.lt p (List.mem_filter.1 hp).1
      · exact hw.nodup.sublist (List.Sublist.map _ List.filter_sublist)
      · intro p hp; exact hw.blocks p (List.mem_filter.1 hp).1
      · intro j
        show lrc (l.hdrs.filter (·.1 != i)) j = _
        rw [lrc_filter]
        by_cases e : j = i
        · subst e; simp only [rc] at *; simp; omega
        · simp [e, rc]
    · rename_i hgt
      have hfst := map_fst_upd (· - 1) l.hdrs i
      refine ⟨⟨?_, ?_, ?_, ?_⟩, rfl, rfl, ?_⟩
      · intro p hp
        obtain ⟨q, hq, rfl⟩ := List.mem_map.1 hp
        have := hw.pos q hq
        by_cases e : q.1 = i
        · have := lrc_nodup_mem hw.nodup hq
          rw [e, hr] at this
          simp [e]; omega
        · simp [e]; omega
      · intro p hp
        obtain ⟨q, hq, rfl⟩ := List.mem_map.1 hp
        have := hw.lt q hq
        by_cases e : q.1 = i <;> simp [e] <;> omega
      · show List.Nodup (List.map _ (List.map _ _))
        rw [hfst]; exact hw.nodup
      · intro p hp
        obtain ⟨q, hq, rfl⟩ := List.mem_map.1 hp
        obtain ⟨b, hb, e⟩ := hw.blocks q hq
        refine ⟨b, hb, ?_⟩
        by_cases e' : q.1 = i <;> simp [e', e]
      · intro j
        by_cases e : j = i
        · subst e
          simp only [rc, if_true]
          exact lrc_map_eq (· - 1) l.hdrs hm
        · simp only [rc, e, if_false, Nat.sub_zero]
          exact lrc_map_ne (· - 1) l.hdrs e

end Ledger

/-! ## 6. Ownership: who holds references to which header -/

/-- number of occurrences of header id `id` in a list of header objects -/
def cnt (l : List HObj) (id : Nat) : Nat := (l.map (·.id)).count id

@[simp] theorem cnt_nil (id : Nat) : cnt [] id = 0 := rfl
theorem cnt_cons (o : HObj) (l : List HObj) (id : Nat) :
    cnt (o :: l) id = cnt l id + (if id = o.id then 1 else 0) := by
  simp only [cnt, List.map_cons, List.count_cons]
  by_cases e : id = o.id
  · simp [e]
  · have : ¬ o.id = id := fun h => e h.symm
    simp [e, this]
theorem cnt_append (a b : List HObj) (id : Nat) : cnt (a ++ b) id = cnt a id + cnt b id := by
  simp [cnt, List.count_append]
@[simp] theorem cnt_none (id : Nat) : cnt (none : Option HObj).toList id = 0 := rfl
theorem cnt_some (o : HObj) (id : Nat) : cnt (some o).toList id = if id = o.id then 1 else 0 := by
  simp [Option.toList, cnt_cons]

/-- number of references the reader holds to header `id`: the basic reader's current header, the
directory stack, the deferred symlinks, and `cur` = the reader's `curr` when it owns it -/
def owners (bc : Option HObj) (ds df : List HObj) (cur : Option HObj) (id : Nat) : Nat :=
  cnt bc.toList id + cnt ds id + cnt df id + cnt cur.toList id

/-- the ledger `led` records exactly the references held by `bc`, `ds`, `df`, `cur` -/
structure Owned (led : Ledger) (bc : Option HObj) (ds df : List HObj) (cur : Option HObj) : Prop where
  wf : led.WF
  faults : led.faults = []
  rc : ∀ id, led.rc id = owners bc ds df cur id

theorem Owned.of_eq {led led' : Ledger} {bc ds df cur}
    (h1 : led'.hdrs = led.hdrs) (h2 : led'.blocks = led.blocks) (h3 : led'.nextId = led.nextId)
    (h4 : led'.faults = led.faults) (h : Owned led bc ds df cur) : Owned led' bc ds df cur := by
  refine ⟨⟨?_, ?_, ?_, ?_⟩, by rw [h4]; exact h.faults, ?_⟩
  · rw [h1]; exact h.wf.pos
  · rw [h1, h3]; exact h.wf.lt
  · rw [h1]; exact h.wf.nodup
  · rw [h1, h2]; exact h.wf.blocks
  · intro id; rw [← h.rc id]; simp only [Ledger.rc, h1]

/-- same ledger, the references merely moved between owners -/
theorem Owned.move {led : Ledger} {bc ds df cur bc' ds' df' cur'}
    (h : Owned led bc ds df cur)
    (ho : ∀ id, owners bc' ds' df' cur' id = owners bc ds df cur id) : Owned led bc' ds' df' cur' :=
  ⟨h.wf, h.faults, fun id => by rw [h.rc, ho]⟩

/-- one reference to `i` is dropped and `unref`ed -/
theorem Owned.unref {led : Ledger} {bc ds df cur bc' ds' df' cur'} {i : Nat}
    (h : Owned led bc ds df cur)
    (ho : ∀ id, owners bc ds df cur id = owners bc' ds' df' cur' id + (if id = i then 1 else 0)) :
    Owned (led.unref i) bc' ds' df' cur' := by
  have h1 : 1 ≤ led.rc i := by rw [h.rc, ho]; simp
  obtain ⟨w, f, -, r⟩ := Ledger.unref_spec h.wf h1
  refine ⟨w, by rw [f]; exact h.faults, fun id => ?_⟩
  rw [r, h.rc, ho]; split <;> omega

/-- one more reference to an already owned `i` is taken with `addRef` -/
theorem Owned.addRef {led : Ledger} {bc ds df cur bc' ds' df' cur'} {i : Nat}
    (h : Owned led bc ds df cur) (hi : 1 ≤ owners bc ds df cur i)
    (ho : ∀ id, owners bc' ds' df' cur' id = owners bc ds df cur id + (if id = i then 1 else 0)) :
    Owned (led.addRef i) bc' ds' df' cur' := by
  have h1 : 1 ≤ led.rc i := by rw [h.rc]; exact hi
  obtain ⟨w, f, -, r⟩ := Ledger.addRef_spec h.wf h1
  exact ⟨w, by rw [f]; exact h.faults, fun id => by rw [r, h.rc, ho]⟩

/-- a new header is allocated and given to one owner -/
theorem Owned.alloc {led : Ledger} {bc ds df cur bc' ds' df' cur'} (n : Nat)
    (h : Owned led bc ds df cur)
    (ho : ∀ id, owners bc' ds' df' cur' id = owners bc ds df cur id + (if id = led.nextId then 1 else 0)) :
    Owned (led.alloc n).2 bc' ds' df' cur' := by
  obtain ⟨w, -, f, -, r⟩ := Ledger.alloc_spec h.wf n
  exact ⟨w, by rw [f]; exact h.faults, fun id => by rw [r, h.rc, ho]⟩

/-- releasing a whole list of owners, as `lha_reader_free` does with the stack and the deferred list -/
theorem Owned.unref_list (l : List HObj) {led : Ledger} {g : Nat → Nat}
    (hw : led.WF) (hf : led.faults = []) (hr : ∀ id, led.rc id = cnt l id + g id) :
    (l.foldl (fun l o => l.unref o.id) led).WF ∧ (l.foldl (fun l o => l.unref o.id) led).faults = [] ∧
    (l.foldl (fun l o => l.unref o.id) led).decoders = led.decoders ∧
    ∀ id, (l.foldl (fun l o => l.unref o.id) led).rc id = g id := by
  induction l generalizing led with
  | nil => exact ⟨hw, hf, rfl, by simpa using hr⟩
  | cons o l ih =>
    have h1 : 1 ≤ led.rc o.id := by rw [hr, cnt_cons]; simp; omega
    obtain ⟨w, f, d, r⟩ := Ledger.unref_spec hw h1
    obtain ⟨a, b, c, e⟩ := ih w (by rw [f]; exact hf) (fun id => by
      rw [r, hr, cnt_cons]; split <;> omega)
    exact ⟨a, b, by rw [List.foldl_cons, c, d], e⟩


/-! ## 7. The basic reader keeps the books -/

/-- first half of `basicNext`: skip and release the previous header -/
def basicRelease (b : Basic) (led : Ledger) : Basic × Ledger :=
  match b.curr with
  | some c =>
    let sk := Stream.skip b.stream b.remaining
    ({ b with curr := none, stream := sk.2, eof := b.eof || !sk.1 }, led.unref c.id)
  | none => (b, led)

/-- second half of `basicNext`: find and parse the next header -/
def basicParse (mk : Nat → Nat) (b : Basic) (led : Ledger) : Res (Basic × Ledger) :=
  if b.eof then .ok (b, led) else
  (Stream.start b.stream) >>= fun st =>
  if st.phase == .fail then .ok ({ b with stream := st, eof := true }, led) else
  match Header.read mk (Stream.rest st) with
  | .fault w => .fault w
  | .fail => .ok ({ b with stream := st, eof := true }, led)
  | .ok (h, rest) =>
    let used := (Stream.rest st).length - rest.length
    let st := Stream.advance st used
    let opt := fun (o : Option Bytes) => if o.isSome then 1 else 0
    let nblocks := 1 + opt h.path + opt h.filename + opt h.symlinkTarget + opt h.unixUsername + opt h.unixGroup
    let (id, led) := led.alloc nblocks
    .ok ({ b with stream := st, curr := some ⟨id, h⟩, remaining := h.compressedLength, dataStart := st.pos }, led)

theorem basicNext_eq (mk : Nat → Nat) (b : Basic) (led : Ledger) :
    basicNext mk b led = basicParse mk (basicRelease b led).1 (basicRelease b led).2 := by
  unfold basicNext basicRelease basicParse
  cases b.curr <;> rfl

theorem basicRelease_owned {b : Basic} {led : Ledger} {ds df : List HObj}
    (h : Owned led b.curr ds df none) :
    Owned (basicRelease b led).2 none ds df none ∧ (basicRelease b led).1.curr = none ∧
    (basicRelease b led).2.decoders = led.decoders := by
  unfold basicRelease
  cases hc : b.curr with
  | none => rw [hc] at h; exact ⟨h, hc, rfl⟩
  | some c =>
    rw [hc] at h
    refine ⟨h.unref (fun id => ?_), rfl, ?_⟩
    · simp only [owners, cnt_some, cnt_none]; omega
    · have h1 : 1 ≤ led.rc c.id := by rw [h.rc]; simp [owners, cnt_cons]; omega
      exact (Ledger.unref_spec h.wf h1).2.2.1

theorem basicParse_owned {mk : Nat → Nat} {b b' : Basic} {led led' : Ledger} {ds df : List HObj}
    (h : Owned led none ds df none) (hb : b.curr = none) (e : basicParse mk b led = .ok (b', led')) :
    Owned led' b'.curr ds df none ∧ led'.decoders = led.decoders := by
  unfold basicParse at e
  split at e
  · cases e; rw [hb]; exact ⟨h, rfl⟩
  · cases hs : Stream.start b.stream with
    | fail => rw [hs] at e; cases e
    | fault w => rw [hs] at e; cases e
    | ok st =>
      rw [hs] at e
      simp only [Res.ok_bind] at e
      split at e
      · cases e; refine ⟨?_, rfl⟩; show Owned led b.curr ds df none; rw [hb]; exact h
      · split at e
        · cases e
        · cases e; refine ⟨?_, rfl⟩; show Owned led b.curr ds df none; rw [hb]; exact h
        · rename_i hd rest hr
          cases e
          refine ⟨h.alloc _ (fun id => ?_), rfl⟩
          simp only [owners, cnt_some, cnt_none, Ledger.alloc]; omega

theorem basicNext_owned {mk : Nat → Nat} {b b' : Basic} {led led' : Ledger} {ds df : List HObj}
    (h : Owned led b.curr ds df none) (e : basicNext mk b led = .ok (b', led')) :
    Owned led' b'.curr ds df none ∧ led'.decoders = led.decoders := by
  rw [basicNext_eq] at e
  obtain ⟨h1, h2, h3⟩ := basicRelease_owned h
  obtain ⟨h4, h5⟩ := basicParse_owned h1 h2 e
  exact ⟨h4, h5.trans h3⟩

/-! ## 8. The ownership invariant of the reader -/

/-- the reader's `curr` as an owner: fake directories and deferred symlinks handed out by `next`
belong to the reader; a normal `curr` is only an alias of the basic reader's header -/
def ownCurr (s : St) : Option HObj :=
  if s.currType = .fakeDir ∨ s.currType = .deferred then s.curr else none

/-- **Ownership invariant** (holds on every reachable state, legal history or not) -/
structure Inv (s : St) : Prop where
  /-- the ledger is well formed, fault free, and every header's reference count is the number of
  owners among `basic.curr`, `dirStack`, `deferred` and an owning `curr` -/
  own : Owned s.led s.basic.curr s.dirStack s.deferred (ownCurr s)
  /-- a normal `curr` is the basic reader's current header -/
  normal : s.currType = .normal → s.curr = s.basic.curr
  /-- no decoder object is counted while none is open -/
  dec : s.dec = none → s.led.decoders = 0

theorem inv_fresh (st : Stream.St) (pol : DirPolicy) (mk : Nat → Nat) : Inv (fresh st pol mk) := by
  refine ⟨⟨⟨?_, ?_, ?_, ?_⟩, rfl, ?_⟩, ?_, ?_⟩
  · intro p hp; cases hp
  · intro p hp; cases hp
  · exact List.nodup_nil
  · intro p hp; cases hp
  · intro id; rfl
  · intro h; cases h
  · intro _; rfl

theorem ownCurr_frame {s s' : St} (f : Frame s s') : ownCurr s' = ownCurr s := by
  simp only [ownCurr, f.curr, f.currType]

/-- `Inv` only looks at what `Frame` preserves, and at the decoder count -/
theorem Inv.of_frame {s s' : St} (f : Frame s s') (h : Inv s) (hd : s'.dec = none → s'.led.decoders = 0) :
    Inv s' := by
  refine ⟨?_, ?_, hd⟩
  · rw [ownCurr_frame f, f.bcurr, f.dirStack, f.deferred]
    exact h.own.of_eq f.hdrs f.blocks f.nextId f.faults
  · rw [f.currType, f.curr, f.bcurr]; exact h.normal

theorem closeDecoder_decoders {s : St} (h : s.dec = none → s.led.decoders = 0) :
    (closeDecoder s).led.decoders = 0 := by
  unfold closeDecoder
  split
  · rename_i hn; exact h hn
  · rfl

theorem closeDecoder_inv {s : St} (h : Inv s) : Inv (closeDecoder s) :=
  h.of_frame (closeDecoder_frame s) (fun _ => closeDecoder_decoders h.dec)

/-- between the phases of `next`: `curr` owns nothing, no decoder -/
structure Mid (s : St) : Prop where
  own : Owned s.led s.basic.curr s.dirStack s.deferred none
  dec : s.dec = none
  decoders : s.led.decoders = 0

theorem nextAdv_stream {s s1 : St} (ht : s.currType = .start ∨ s.currType = .normal)
    (e : nextAdv s = .ok s1) :
    ∃ r, basicNext s.mktime s.basic s.led = .ok r ∧ s1 = { s with basic := r.1, led := r.2 } := by
  unfold nextAdv at e
  have : (s.currType == .start ∨ s.currType == .normal) := by simpa using ht
  rw [if_pos this] at e
  cases hb : basicNext s.mktime s.basic s.led with
  | fail => rw [hb] at e; cases e
  | fault w => rw [hb] at e; cases e
  | ok r => rw [hb] at e; cases e; exact ⟨r, rfl, rfl⟩

theorem nextAdv_fake {s : St} (ht : ¬ (s.currType = .start ∨ s.currType = .normal)) :
    nextAdv s = .ok s := by
  unfold nextAdv
  have : ¬ (s.currType == .start ∨ s.currType == .normal) := by simpa using ht
  rw [if_neg this]

theorem nextUnref_stream {s : St} (ht : ¬ (s.currType = .fakeDir ∨ s.currType = .deferred)) :
    nextUnref s = s := by
  unfold nextUnref
  have : ¬ (s.currType == .fakeDir ∨ s.currType == .deferred) := by simpa using ht
  rw [if_neg this]

theorem nextUnref_fake {s : St} (ht : s.currType = .fakeDir ∨ s.currType = .deferred) :
    nextUnref s = match s.curr with
      | some c => { s with led := s.led.unref c.id }
      | none => s := by
  unfold nextUnref
  have : (s.currType == .fakeDir ∨ s.currType == .deferred) := by simpa using ht
  rw [if_pos this]
  try (cases s.curr <;> rfl)

theorem nextAdv_mid {s s1 : St} (h : Inv s) (hd : s.dec = none) (hne : s.currType ≠ .eof)
    (e : nextAdv s = .ok s1) : Mid (nextUnref s1) := by
  have hdec := h.dec hd
  have hown := h.own
  by_cases hs : s.currType = .start ∨ s.currType = .normal
  · obtain ⟨r, hb, rfl⟩ := nextAdv_stream hs e
    have hnf : ¬ (s.currType = .fakeDir ∨ s.currType = .deferred) := by
      rcases hs with h | h <;> simp [h]
    have hoc : ownCurr s = none := by simp only [ownCurr, hnf, if_false]
    rw [hoc] at hown
    obtain ⟨o, d⟩ := basicNext_owned hown hb
    rw [nextUnref_stream (by exact hnf)]
    exact ⟨o, hd, by show r.2.decoders = 0; rw [d]; exact hdec⟩
  · rw [nextAdv_fake hs] at e
    cases e
    have hf : s.currType = .fakeDir ∨ s.currType = .deferred := by
      cases ht : s.currType <;> simp_all
    have hoc : ownCurr s = s.curr := by simp only [ownCurr, hf, if_true]
    rw [hoc] at hown
    rw [nextUnref_fake hf]
    cases hc : s.curr with
    | none => rw [hc] at hown; exact ⟨hown, hd, hdec⟩
    | some c =>
      rw [hc] at hown
      have hu : Owned (s.led.unref c.id) s.basic.curr s.dirStack s.deferred none :=
        hown.unref (fun id => by simp only [owners, cnt_some, cnt_none]; omega)
      have h1 : 1 ≤ s.led.rc c.id := by rw [hown.rc]; simp [owners, cnt_cons]
      exact ⟨hu, hd, by show (s.led.unref c.id).decoders = 0; rw [(Ledger.unref_spec hown.wf h1).2.2.1]; exact hdec⟩


theorem endOfTopDir_cons {s : St} (h : endOfTopDir s = true) : ∃ top rest, s.dirStack = top :: rest := by
  unfold endOfTopDir at h
  cases hd : s.dirStack with
  | nil => simp [hd] at h
  | cons top rest => exact ⟨top, rest, rfl⟩

/-- what `next` establishes: the invariant, and no decoder -/
structure Closed (s : St) : Prop where
  inv : Inv s
  dec : s.dec = none
  decoders : s.led.decoders = 0

theorem nextPop_closed {s : St} (h : Mid s) : Closed (nextPop s) := by
  unfold nextPop
  split
  · rename_i he
    obtain ⟨top, rest, hd⟩ := endOfTopDir_cons he
    have hown := h.own
    rw [hd] at hown
    simp only [hd]
    refine ⟨⟨?_, ?_, fun _ => h.decoders⟩, h.dec, h.decoders⟩
    · show Owned s.led s.basic.curr rest s.deferred (some top)
      exact hown.move (fun id => by simp only [owners, cnt_some, cnt_none, cnt_cons]; omega)
    · intro hn; cases hn
  · refine ⟨⟨?_, fun _ => rfl, fun _ => h.decoders⟩, h.dec, h.decoders⟩
    exact h.own

theorem nextDeferred_closed {s : St} (h : Closed s) : Closed (nextDeferred s) := by
  unfold nextDeferred
  cases hc : s.curr with
  | some c => exact h
  | none =>
    have hoc : ownCurr s = none := by simp only [ownCurr, hc, ite_self]
    have hown := h.inv.own
    rw [hoc] at hown
    cases hd : s.deferred with
    | nil =>
      refine ⟨⟨?_, ?_, fun _ => h.decoders⟩, h.dec, h.decoders⟩
      · show Owned s.led s.basic.curr s.dirStack [] none
        rw [← hd]; exact hown
      · intro hn; cases hn
    | cons d rest =>
      rw [hd] at hown
      refine ⟨⟨?_, ?_, fun _ => h.decoders⟩, h.dec, h.decoders⟩
      · show Owned s.led s.basic.curr s.dirStack rest (some d)
        exact hown.move (fun id => by simp only [owners, cnt_some, cnt_none, cnt_cons]; omega)
      · intro hn; cases hn

/-- `next` preserves the invariant and leaves no decoder open (from ANY invariant state) -/
theorem next_closed {s s' : St} {r : Option HObj} (h : Inv s) (e : next s = .ok (r, s')) : Closed s' := by
  have h0 := closeDecoder_inv h
  have hd0 := closeDecoder_dec s
  rw [next_eq] at e
  split at e
  · simp only [Except.ok.injEq, Prod.mk.injEq] at e
    obtain ⟨-, rfl⟩ := e
    exact ⟨h0, hd0, h0.dec hd0⟩
  · rename_i hne
    cases ha : nextAdv (closeDecoder s) with
    | error w => rw [ha] at e; cases e
    | ok s1 =>
      rw [ha] at e
      simp only [bind, Except.bind, Except.ok.injEq, Prod.mk.injEq] at e
      obtain ⟨-, rfl⟩ := e
      have hne' : (closeDecoder s).currType ≠ .eof := by simpa using hne
      exact nextDeferred_closed (nextPop_closed (nextAdv_mid h0 hd0 hne' ha))

/-! ## 9. `read`, `check`, `extract` preserve the invariant -/

/-- weak decoder bookkeeping: nothing is counted while no decoder is open -/
def DecW (s : St) : Prop := s.dec = none → s.led.decoders = 0

theorem openDecoder_decW {s : St} (h : DecW s) : DecW (openDecoder s).2 := by
  unfold openDecoder
  split
  · exact h
  · split
    · exact h
    · split
      · split
        · dsimp only
          split
          · intro _; exact closeDecoder_decoders (fun hn => by cases hn)
          · intro hn; cases hn
        · intro hn; cases hn
      · exact h

theorem readCore_decW {s : St} (h : DecW s) (k : Nat) : DecW (readCore s k).2 := by
  unfold readCore
  split
  · exact h
  · split
    · intro hn; cases hn
    · intro hn; cases hn
    · exact h

theorem read_decW {s : St} (h : DecW s) (k : Nat) : DecW (read s k).2 := by
  rw [read_eq]
  split
  · split
    · exact readCore_decW h k
    · exact h
  · split
    · exact readCore_decW (openDecoder_decW h) k
    · exact openDecoder_decW h

theorem decodeLoop_decW (fuel : Nat) {s : St} (h : DecW s) (acc : List UInt8) :
    DecW (decodeLoop fuel s acc).2 := by
  induction fuel generalizing s acc with
  | zero => exact h
  | succ n ih =>
    unfold decodeLoop
    dsimp only
    split
    · exact read_decW h 64
    · exact ih (read_decW h 64) _

theorem read_inv {s : St} (h : Inv s) (k : Nat) : Inv (read s k).2 :=
  h.of_frame (read_frame s k) (read_decW h.dec k)

theorem check_decW {s : St} (h : DecW s) : DecW (check s).2 := by
  unfold check
  split
  · exact h
  · split
    · exact h
    · split
      · exact h
      · dsimp only
        split
        · exact openDecoder_decW h
        · exact decodeLoop_decW _ (openDecoder_decW h) _

theorem check_inv {s : St} (h : Inv s) : Inv (check s).2 :=
  h.of_frame (check_frame s) (check_decW h.dec)

theorem extract_inv {s : St} (h : Inv s) (fsOk : Bool) : Inv (extract s fsOk).2 := by
  unfold extract
  split
  · rename_i c ht hc
    have hbc : s.basic.curr = some c := by rw [← h.normal ht, hc]
    have hoc : ownCurr s = none := by simp [ownCurr, ht]
    have hown := h.own
    rw [hoc, hbc] at hown
    have h1 : 1 ≤ owners (some c) s.dirStack s.deferred none c.id := by
      simp [owners, cnt_cons]; omega
    have hrc : 1 ≤ s.led.rc c.id := by rw [hown.rc]; exact h1
    have hdecs : (s.led.addRef c.id).decoders = s.led.decoders := (Ledger.addRef_spec hown.wf hrc).2.2.1
    split
    · -- a file: only the decoder moves
      dsimp only
      split
      · exact h.of_frame (openDecoder_frame s) (openDecoder_decW h.dec)
      · split
        · exact h.of_frame (openDecoder_frame s) (openDecoder_decW h.dec)
        · exact h.of_frame ((openDecoder_frame s).trans (decodeLoop_frame _ _ _))
            (decodeLoop_decW _ (openDecoder_decW h.dec) _)
    · split
      · split
        · split
          · exact h
          · -- a dangerous symlink joins the deferred list
            dsimp only
            refine ⟨?_, ?_, fun hn => hdecs.trans (h.dec hn)⟩
            · show Owned (s.led.addRef c.id) s.basic.curr s.dirStack _ (ownCurr s)
              rw [hoc, hbc]
              refine hown.addRef h1 (fun id => ?_)
              have := congrArg (fun l => cnt l id)
                (List.takeWhile_append_dropWhile (p := fun r => decide (pathLen r > pathLen c)) (l := s.deferred))
              simp only [cnt_append] at this
              simp only [owners, cnt_append, cnt_cons, cnt_nil, cnt_none]
              omega
            · exact h.normal
        · exact h
      · split
        · exact h
        · split
          · exact h
          · -- a directory joins the stack
            refine ⟨?_, ?_, fun hn => hdecs.trans (h.dec hn)⟩
            · show Owned (s.led.addRef c.id) s.basic.curr (c :: s.dirStack) s.deferred (ownCurr s)
              rw [hoc, hbc]
              exact hown.addRef h1 (fun id => by simp only [owners, cnt_cons]; omega)
            · exact h.normal
  · exact h
  · exact h
  · exact h


/-! ## 10. C20: freeing the reader releases everything -/

theorem step_inv {s : St} (h : Inv s) (op : Op) : Inv (step s op) := by
  cases op with
  | next =>
    simp only [step]
    cases e : next s with
    | error w => exact h
    | ok r => exact (next_closed (r := r.1) (s' := r.2) h e).inv
  | read k => exact read_inv h k
  | check => exact check_inv h
  | extract b => exact extract_inv h b

theorem run_inv {s : St} (h : Inv s) (ops : List Op) : Inv (run s ops) := by
  induction ops generalizing s with
  | nil => exact h
  | cons op ops ih => exact ih (step_inv h op)

/-- `lha_reader_free` after `close_decoder` -/
def freeRest (t : St) : Ledger :=
  let led := if t.currType == .fakeDir ∨ t.currType == .deferred then
      (match t.curr with | some c => t.led.unref c.id | none => t.led) else t.led
  let led := t.dirStack.foldl (fun l o => l.unref o.id) led
  let led := t.deferred.foldl (fun l o => l.unref o.id) led
  match t.basic.curr with | some c => led.unref c.id | none => led

theorem free_eq (s : St) : free s = freeRest (closeDecoder s) := rfl

theorem freeRest_of_inv {t : St} (h0 : Inv t) (hd0 : t.led.decoders = 0) :
    (freeRest t).hdrs = [] ∧ (freeRest t).decoders = 0 ∧ (freeRest t).faults = [] := by
  have hown := h0.own
  -- 1. the owning `curr`
  have h1 : ∃ led1, (if t.currType == .fakeDir ∨ t.currType == .deferred then
        (match t.curr with | some c => t.led.unref c.id | none => t.led) else t.led) = led1 ∧
      Owned led1 t.basic.curr t.dirStack t.deferred none ∧ led1.decoders = 0 := by
    refine ⟨_, rfl, ?_⟩
    by_cases hf : t.currType = .fakeDir ∨ t.currType = .deferred
    · have : (t.currType == .fakeDir ∨ t.currType == .deferred) := by simpa using hf
      rw [if_pos this]
      have hoc : ownCurr t = t.curr := by simp only [ownCurr, hf, if_true]
      rw [hoc] at hown
      cases hc : t.curr with
      | none => rw [hc] at hown; exact ⟨hown, hd0⟩
      | some c =>
        rw [hc] at hown
        have hrc : 1 ≤ t.led.rc c.id := by rw [hown.rc]; simp [owners, cnt_cons]
        exact ⟨hown.unref (fun id => by simp only [owners, cnt_some, cnt_none]; omega),
          ((Ledger.unref_spec hown.wf hrc).2.2.1).trans hd0⟩
    · have : ¬ (t.currType == .fakeDir ∨ t.currType == .deferred) := by simpa using hf
      rw [if_neg this]
      have hoc : ownCurr t = none := by simp only [ownCurr, hf, if_false]
      rw [hoc] at hown
      exact ⟨hown, hd0⟩
  obtain ⟨led1, e1, o1, d1⟩ := h1
  unfold freeRest
  dsimp only
  rw [e1]
  -- 2. the directory stack, 3. the deferred symlinks
  obtain ⟨w2, f2, d2, r2⟩ := Owned.unref_list t.dirStack
    (g := fun id => cnt t.deferred id + cnt t.basic.curr.toList id)
    o1.wf o1.faults (fun id => by rw [o1.rc]; simp only [owners, cnt_none]; omega)
  obtain ⟨w3, f3, d3, r3⟩ := Owned.unref_list t.deferred (g := fun id => cnt t.basic.curr.toList id) w2 f2 r2
  generalize List.foldl (fun l o => l.unref o.id) (List.foldl (fun l o => l.unref o.id) led1 t.dirStack)
    t.deferred = led3 at w3 f3 d3 r3
  have d3' : led3.decoders = 0 := by rw [d3, d2, d1]
  -- 4. the basic reader's current header
  cases hc : t.basic.curr with
  | none =>
    rw [hc] at r3
    exact ⟨w3.hdrs_nil (fun id => by rw [r3]; rfl), d3', f3⟩
  | some c =>
    rw [hc] at r3
    have hrc : 1 ≤ led3.rc c.id := by rw [r3]; simp [cnt_cons]
    obtain ⟨w4, f4, d4, r4⟩ := Ledger.unref_spec w3 hrc
    refine ⟨w4.hdrs_nil (fun id => ?_), d4.trans d3', f4.trans f3⟩
    rw [r4, r3, cnt_some]; split <;> rfl

/-- `lha_reader_free` on an invariant state leaves nothing allocated and observes no fault -/
theorem free_of_inv {s : St} (h : Inv s) : (free s).live = 0 ∧ (free s).faults = [] := by
  have h0 := closeDecoder_inv h
  obtain ⟨a, b, c⟩ := freeRest_of_inv h0 (h0.dec (closeDecoder_dec s))
  rw [free_eq]
  exact ⟨by simp [Ledger.live, a, b], c⟩

/-- **C20, every history.** Whatever operations were called in whatever order (legal or not; faulting
`next`s ignored), freeing the reader leaves no header block and no decoder allocated, and the
ledger has seen no use-after-free or double free. -/
theorem free_releases_all_any (st : Stream.St) (pol : DirPolicy) (mk : Nat → Nat) (ops : List Op) :
    (free (run (fresh st pol mk) ops)).live = 0 ∧ (free (run (fresh st pol mk) ops)).faults = [] :=
  free_of_inv (run_inv (inv_fresh st pol mk) ops)

/-- **C20.** For every stream, policy, and every legal history (hence every prefix of one),
`lha_reader_free` releases everything. -/
theorem free_releases_all (st : Stream.St) (pol : DirPolicy) (mk : Nat → Nat) (ops : List Op)
    (_hl : Legal ops) :
    (free (run (fresh st pol mk) ops)).live = 0 ∧ (free (run (fresh st pol mk) ops)).faults = [] :=
  free_releases_all_any st pol mk ops

/-- … and so does every prefix of a legal history (a history interrupted anywhere) -/
theorem free_releases_all_prefix (st : Stream.St) (pol : DirPolicy) (mk : Nat → Nat) (ops a : List Op)
    (hl : Legal ops) (hp : a <+: ops) :
    (free (run (fresh st pol mk) a)).live = 0 ∧ (free (run (fresh st pol mk) a)).faults = [] :=
  free_releases_all st pol mk a (legal_of_isPrefix hp hl)

/-! ## 11. The decoder count on legal histories -/

/-- live decoder objects behind an open decoder: 1 for a plain decoder, 2 for a pass-through
(outer + inner), 1 for an inner decoder whose pass-through could not be set up -/
def Open.objs (o : Open) : Nat :=
  (if o.plain.isSome then 1 else 0) + (if o.mac.isSome then 2 else 0) +
  (if o.danglingInner.isSome then 1 else 0)

def decObjs : Option Open → Nat
  | none => 0
  | some o => o.objs

/-- exact decoder bookkeeping: the ledger counts exactly the decoder objects reachable from `dec` -/
def DecExact (s : St) : Prop := s.led.decoders = decObjs s.dec

/-- **The full invariant** of legal histories: ownership of headers, and the decoder count -/
structure InvD (s : St) : Prop where
  inv : Inv s
  decoders : s.led.decoders = decObjs s.dec

theorem Closed.invD {s : St} (h : Closed s) : InvD s :=
  ⟨h.inv, by rw [h.decoders, h.dec]; rfl⟩

theorem invD_fresh (st : Stream.St) (pol : DirPolicy) (mk : Nat → Nat) : InvD (fresh st pol mk) :=
  ⟨inv_fresh st pol mk, rfl⟩

theorem openDecoder_exact {s : St} (hn : s.dec = none) (h : DecExact s) : DecExact (openDecoder s).2 := by
  have h0 : s.led.decoders = 0 := by rw [h, hn]; rfl
  unfold openDecoder
  split
  · exact h
  · split
    · exact h
    · split
      · split
        · dsimp only
          split
          · show (closeDecoder _).led.decoders = decObjs (closeDecoder _).dec
            rw [closeDecoder_dec, closeDecoder_decoders (fun hn => by cases hn)]; rfl
          · show s.led.decoders + 1 + 1 = 2
            omega
        · show s.led.decoders + 1 = 1
          omega
      · exact h

theorem readCore_exact {s : St} (h : DecExact s) (k : Nat) : DecExact (readCore s k).2 := by
  unfold readCore
  split
  · exact h
  · rename_i o ho
    unfold DecExact at h
    rw [ho] at h
    split
    · rename_i st _ hp
      show s.led.decoders = Open.objs _
      rw [h]; simp [decObjs, Open.objs, hp]
    · rename_i m hp hm
      show s.led.decoders = Open.objs _
      rw [h]; simp [decObjs, Open.objs, hp, hm]
    · unfold DecExact; rw [ho]; exact h

theorem read_exact {s : St} (h : DecExact s) (k : Nat) : DecExact (read s k).2 := by
  rw [read_eq]
  split
  · split
    · exact readCore_exact h k
    · exact h
  · rename_i hn
    split
    · exact readCore_exact (openDecoder_exact hn h) k
    · exact openDecoder_exact hn h

theorem decodeLoop_exact (fuel : Nat) {s : St} (h : DecExact s) (acc : List UInt8) :
    DecExact (decodeLoop fuel s acc).2 := by
  induction fuel generalizing s acc with
  | zero => exact h
  | succ n ih =>
    unfold decodeLoop
    dsimp only
    split
    · exact read_exact h 64
    · exact ih (read_exact h 64) _

theorem check_exact {s : St} (hn : s.dec = none) (h : DecExact s) : DecExact (check s).2 := by
  unfold check
  split
  · exact h
  · split
    · exact h
    · split
      · exact h
      · dsimp only
        split
        · exact openDecoder_exact hn h
        · exact decodeLoop_exact _ (openDecoder_exact hn h) _

theorem Ledger.addRef_decoders (l : Ledger) (id : Nat) : (l.addRef id).decoders = l.decoders := by
  unfold Ledger.addRef; split <;> rfl

theorem extract_exact {s : St} (hn : s.dec = none) (h : DecExact s) (fsOk : Bool) :
    DecExact (extract s fsOk).2 := by
  unfold extract
  split
  · split
    · dsimp only
      split
      · exact openDecoder_exact hn h
      · split
        · exact openDecoder_exact hn h
        · exact decodeLoop_exact _ (openDecoder_exact hn h) _
    · split
      · split
        · split
          · exact h
          · exact (Ledger.addRef_decoders _ _).trans h
        · exact h
      · split
        · exact h
        · split
          · exact h
          · exact (Ledger.addRef_decoders _ _).trans h
  · exact h
  · exact h
  · exact h

/-! ## 12. A faulting `next` can only happen before anything was opened -/

instance : LawfulBEq Stream.Phase where
  eq_of_beq {a b} h := by cases a <;> cases b <;> first | rfl | cases h
  rfl {a} := by cases a <;> rfl

theorem Stream.start_started {st st' : Stream.St} (e : Stream.start st = .ok st') : st'.phase ≠ .init := by
  unfold Stream.start at e
  split at e
  · cases hs : Stream.skipSfx (st.data.size - st.pos + 1) 0 0 st with
    | fail => rw [hs] at e; cases e
    | fault w => rw [hs] at e; cases e
    | ok r =>
      rw [hs] at e
      simp only [Res.ok_bind, Res.ok.injEq] at e
      subst e
      dsimp only
      split <;> simp
  · rename_i hne
    cases e
    simpa using hne

theorem Stream.start_of_started {st : Stream.St} (h : st.phase ≠ .init) : Stream.start st = .ok st := by
  unfold Stream.start
  have : ¬ (st.phase == .init) = true := by simpa using h
  rw [if_neg this]

theorem Stream.skip_phase (st : Stream.St) (n : Nat) : (Stream.skip st n).2.phase = st.phase := by
  unfold Stream.skip
  dsimp only
  split
  · rfl
  · split <;> rfl
  · split <;> rfl
  · split <;> rfl

theorem basicRelease_phase (b : Basic) (led : Ledger) :
    (basicRelease b led).1.stream.phase = b.stream.phase := by
  unfold basicRelease
  split
  · exact Stream.skip_phase _ _
  · rfl

/-- once the stream has started, the basic reader's `next_file` cannot fault; a header it returns
was parsed after the start-up scan -/
theorem basicParse_started {mk : Nat → Nat} {b : Basic} {led : Ledger} (h : b.stream.phase ≠ .init) :
    ∃ r, basicParse mk b led = .ok r := by
  unfold basicParse
  split
  · exact ⟨_, rfl⟩
  · rw [Stream.start_of_started h]
    simp only [Res.ok_bind]
    split
    · exact ⟨_, rfl⟩
    · split
      · rename_i w hw; exact absurd hw (Header.read_no_fault mk _ w)
      · exact ⟨_, rfl⟩
      · exact ⟨_, rfl⟩

theorem basicParse_phase {mk : Nat → Nat} {b b' : Basic} {led led' : Ledger} (hb : b.curr = none)
    (e : basicParse mk b led = .ok (b', led')) :
    (b'.curr ≠ none → b'.stream.phase ≠ .init) ∧ (b.stream.phase ≠ .init → b'.stream.phase ≠ .init) := by
  unfold basicParse at e
  split at e
  · cases e; exact ⟨fun h => absurd hb h, id⟩
  · cases hs : Stream.start b.stream with
    | fail => rw [hs] at e; cases e
    | fault w => rw [hs] at e; cases e
    | ok st =>
      have hst := Stream.start_started hs
      rw [hs] at e
      simp only [Res.ok_bind] at e
      split at e
      · cases e; exact ⟨fun _ => hst, fun _ => hst⟩
      · split at e
        · cases e
        · cases e; exact ⟨fun _ => hst, fun _ => hst⟩
        · cases e; exact ⟨fun _ => hst, fun _ => hst⟩


/-- the input stream has run its start-up (self-extractor) scan -/
def Started (s : St) : Prop := s.basic.stream.phase ≠ .init

/-- a header or a decoder exists only after the stream has started -/
def StartedIfBusy (s : St) : Prop := (s.basic.curr ≠ none ∨ s.dec ≠ none) → Started s

/-- a decoder is open or could be opened -/
def Busy (s : St) : Prop := s.dec ≠ none ∨ (s.currType = .normal ∧ s.curr ≠ none)

theorem Busy.started {s : St} (hb : Busy s) (hi : Inv s) (hs : StartedIfBusy s) : Started s := by
  rcases hb with h | ⟨ht, hc⟩
  · exact hs (Or.inr h)
  · exact hs (Or.inl (by rw [← hi.normal ht]; exact hc))

theorem Busy.of_frame {s s' : St} (f : Frame s s') (hb : Busy s') (hd : s'.dec ≠ none → Busy s) : Busy s := by
  rcases hb with h | ⟨ht, hc⟩
  · exact hd h
  · exact Or.inr ⟨by rw [← f.currType]; exact ht, by rw [← f.curr]; exact hc⟩

theorem openDecoder_busy {s : St} (h : (openDecoder s).2.dec ≠ none) : Busy s := by
  unfold openDecoder at h
  split at h
  · exact Or.inl h
  · rename_i hn
    split at h
    · exact Or.inl h
    · rename_i c hc
      exact Or.inr ⟨by simpa using hn, by rw [hc]; exact fun e => by cases e⟩

theorem readCore_busy {s : St} {k : Nat} (h : (readCore s k).2.dec ≠ none) : s.dec ≠ none := by
  unfold readCore at h
  split at h
  · exact h
  · rename_i o ho; rw [ho]; exact fun e => by cases e

theorem read_busy {s : St} {k : Nat} (h : (read s k).2.dec ≠ none) : Busy s := by
  rw [read_eq] at h
  split at h
  · rename_i o ho; exact Or.inl (by rw [ho]; exact fun e => by cases e)
  · split at h
    · exact openDecoder_busy (readCore_busy h)
    · exact openDecoder_busy h

theorem decodeLoop_busy (fuel : Nat) {s : St} {acc : List UInt8}
    (h : (decodeLoop fuel s acc).2.dec ≠ none) : Busy s := by
  induction fuel generalizing s acc with
  | zero => exact Or.inl h
  | succ n ih =>
    unfold decodeLoop at h
    dsimp only at h
    split at h
    · exact read_busy h
    · exact Busy.of_frame (read_frame s 64) (ih h) read_busy

theorem check_busy {s : St} (h : (check s).2.dec ≠ none) : Busy s := by
  unfold check at h
  split at h
  · exact Or.inl h
  · split at h
    · exact Or.inl h
    · split at h
      · exact Or.inl h
      · dsimp only at h
        split at h
        · exact openDecoder_busy h
        · exact Busy.of_frame (openDecoder_frame s) (decodeLoop_busy _ h) openDecoder_busy

/-- `extract` either only moves the decoder, or only takes one more reference (stack / deferred) -/
theorem extract_cases (s : St) (fsOk : Bool) :
    (Frame s (extract s fsOk).2 ∧ ((extract s fsOk).2.dec ≠ none → Busy s)) ∨
    ∃ ds df led, (extract s fsOk).2 = { s with dirStack := ds, deferred := df, led := led } := by
  unfold extract
  split
  · split
    · left
      dsimp only
      split
      · exact ⟨openDecoder_frame s, openDecoder_busy⟩
      · split
        · exact ⟨openDecoder_frame s, openDecoder_busy⟩
        · exact ⟨(openDecoder_frame s).trans (decodeLoop_frame _ _ _),
            fun h => Busy.of_frame (openDecoder_frame s) (decodeLoop_busy _ h) openDecoder_busy⟩
    · split
      · split
        · split
          · exact Or.inl ⟨Frame.refl s, Or.inl⟩
          · exact Or.inr ⟨_, _, _, rfl⟩
        · exact Or.inl ⟨Frame.refl s, Or.inl⟩
      · split
        · exact Or.inl ⟨Frame.refl s, Or.inl⟩
        · split
          · exact Or.inl ⟨Frame.refl s, Or.inl⟩
          · exact Or.inr ⟨_, _, _, rfl⟩
  · exact Or.inl ⟨Frame.refl s, Or.inl⟩
  · exact Or.inl ⟨Frame.refl s, Or.inl⟩
  · exact Or.inl ⟨Frame.refl s, Or.inl⟩

theorem StartedIfBusy.of_frame {s s' : St} (f : Frame s s') (hd : s'.dec ≠ none → Busy s)
    (hi : Inv s) (hs : StartedIfBusy s) : StartedIfBusy s' := by
  intro h
  have : Started s := by
    rcases h with h | h
    · exact hs (Or.inl (by rw [← f.bcurr]; exact h))
    · exact (hd h).started hi hs
  unfold Started; rw [f.phase]; exact this

theorem read_startedIfBusy {s : St} (hi : Inv s) (hs : StartedIfBusy s) (k : Nat) :
    StartedIfBusy (read s k).2 := hs.of_frame (read_frame s k) read_busy hi

theorem check_startedIfBusy {s : St} (hi : Inv s) (hs : StartedIfBusy s) :
    StartedIfBusy (check s).2 := hs.of_frame (check_frame s) check_busy hi

theorem extract_startedIfBusy {s : St} (hi : Inv s) (hs : StartedIfBusy s) (b : Bool) :
    StartedIfBusy (extract s b).2 := by
  rcases extract_cases s b with ⟨f, hb⟩ | ⟨ds, df, led, e⟩
  · exact hs.of_frame f hb hi
  · rw [e]; exact hs


theorem nextUnref_basic (s : St) : (nextUnref s).basic = s.basic := by
  unfold nextUnref; split
  · split <;> rfl
  · rfl

theorem nextPop_basic (s : St) : (nextPop s).basic = s.basic := by
  unfold nextPop; split
  · split <;> rfl
  · rfl

theorem nextDeferred_basic (s : St) : (nextDeferred s).basic = s.basic := by
  unfold nextDeferred; split
  · rfl
  · split <;> rfl

/-- **no fault after start-up**: once the stream has run its start-up scan, `next` cannot fault -/
theorem next_ok_of_started {s : St} (h : Started s) : ∃ r, next s = .ok r := by
  rw [next_eq]
  split
  · exact ⟨_, rfl⟩
  · have h0 : Started (closeDecoder s) := by unfold Started; rw [(closeDecoder_frame s).phase]; exact h
    generalize closeDecoder s = t at h0
    by_cases hs : t.currType = .start ∨ t.currType = .normal
    · have hp : (basicRelease t.basic t.led).1.stream.phase ≠ .init := by
        rw [basicRelease_phase]; exact h0
      obtain ⟨r, hr⟩ := basicParse_started (mk := t.mktime) (led := (basicRelease t.basic t.led).2) hp
      have : nextAdv t = .ok { t with basic := r.1, led := r.2 } := by
        unfold nextAdv
        have hs' : (t.currType == .start ∨ t.currType == .normal) := by simpa using hs
        rw [if_pos hs', basicNext_eq, hr]
      rw [this]; exact ⟨_, rfl⟩
    · rw [nextAdv_fake hs]; exact ⟨_, rfl⟩

theorem nextAdv_startedIfBusy {s s1 : St} (hs : StartedIfBusy s) (e : nextAdv s = .ok s1) :
    s1.basic.curr ≠ none → Started s1 := by
  by_cases ht : s.currType = .start ∨ s.currType = .normal
  · obtain ⟨r, hb, rfl⟩ := nextAdv_stream ht e
    rw [basicNext_eq] at hb
    have hcn : (basicRelease s.basic s.led).1.curr = none := by
      unfold basicRelease; split
      · rfl
      · assumption
    exact (basicParse_phase hcn (b' := r.1) (led' := r.2) hb).1
  · rw [nextAdv_fake ht] at e
    cases e
    exact fun h => hs (Or.inl h)

theorem next_startedIfBusy {s s' : St} {r : Option HObj} (hi : Inv s) (hs : StartedIfBusy s)
    (e : next s = .ok (r, s')) : StartedIfBusy s' := by
  have hc := next_closed hi e
  have hs0 : StartedIfBusy (closeDecoder s) :=
    hs.of_frame (closeDecoder_frame s) (fun h => absurd (closeDecoder_dec s) h) hi
  rw [next_eq] at e
  split at e
  · simp only [Except.ok.injEq, Prod.mk.injEq] at e
    obtain ⟨-, rfl⟩ := e
    exact hs0
  · cases ha : nextAdv (closeDecoder s) with
    | error w => rw [ha] at e; cases e
    | ok s1 =>
      rw [ha] at e
      simp only [bind, Except.bind, Except.ok.injEq, Prod.mk.injEq] at e
      obtain ⟨-, rfl⟩ := e
      have hb : (nextDeferred (nextPop (nextUnref s1))).basic = s1.basic := by
        rw [nextDeferred_basic, nextPop_basic, nextUnref_basic]
      intro h
      rcases h with h | h
      · unfold Started; rw [hb] at h ⊢
        exact nextAdv_startedIfBusy hs0 ha h
      · exact absurd hc.dec h

/-- a `next` that faults finds no decoder open -/
theorem next_error_dec {s : St} {w : String} (hs : StartedIfBusy s) (e : next s = .error w) :
    s.dec = none := by
  cases hd : s.dec with
  | none => rfl
  | some o =>
    obtain ⟨r, hr⟩ := next_ok_of_started (hs (Or.inr (by rw [hd]; exact fun e => by cases e)))
    rw [hr] at e; cases e

/-- **The full invariant on every legal history** (faulting `next`s included: they can only
happen before the stream has started, when nothing is open). -/
theorem run_invD_from (ops : List Op) (p : Phase) {s : St} (h : InvD s) (hs : StartedIfBusy s)
    (hp : p = .fresh → s.dec = none) (hl : legalFrom p ops = true) :
    InvD (run s ops) ∧ StartedIfBusy (run s ops) := by
  induction ops generalizing p s with
  | nil => exact ⟨h, hs⟩
  | cons op ops ih =>
    cases op with
    | next =>
      have hl' : legalFrom .fresh ops = true := by cases p <;> exact hl
      cases e : next s with
      | error w =>
        have : step s .next = s := by simp only [step, e]
        rw [run_cons, this]
        exact ih .fresh h hs (fun _ => next_error_dec hs e) hl'
      | ok r =>
        have hst : step s .next = r.2 := by simp only [step, e]
        have hc : Closed r.2 := next_closed (r := r.1) (s' := r.2) h.inv e
        rw [run_cons, hst]
        exact ih .fresh hc.invD (next_startedIfBusy (r := r.1) (s' := r.2) h.inv hs e) (fun _ => hc.dec) hl'
    | read k =>
      have h' : InvD (step s (.read k)) := ⟨read_inv h.inv k, read_exact h.decoders k⟩
      have hs' : StartedIfBusy (step s (.read k)) := read_startedIfBusy h.inv hs k
      cases p with
      | fresh => exact ih .reading h' hs' (fun e => by cases e) hl
      | reading => exact ih .reading h' hs' (fun e => by cases e) hl
      | done => simp [legalFrom] at hl
    | check =>
      cases p with
      | fresh =>
        exact ih .done ⟨check_inv h.inv, check_exact (hp rfl) h.decoders⟩
          (check_startedIfBusy h.inv hs) (fun e => by cases e) hl
      | reading => simp [legalFrom] at hl
      | done => simp [legalFrom] at hl
    | extract b =>
      cases p with
      | fresh =>
        exact ih .done ⟨extract_inv h.inv b, extract_exact (hp rfl) h.decoders b⟩
          (extract_startedIfBusy h.inv hs b) (fun e => by cases e) hl
      | reading => simp [legalFrom] at hl
      | done => simp [legalFrom] at hl

/-- **C20, the invariant.** Every state reached from a fresh reader by a legal history satisfies the
full invariant `InvD` (headers: refcount = number of owners; decoders: count = objects behind `dec`). -/
theorem run_invD_legal (st : Stream.St) (pol : DirPolicy) (mk : Nat → Nat) (ops : List Op) (hl : Legal ops) :
    InvD (run (fresh st pol mk) ops) :=
  (run_invD_from ops .fresh (invD_fresh st pol mk) (fun h => by rcases h with h | h <;> exact absurd rfl h)
    (fun _ => rfl) hl).1

/-! ## 14. Reading the invariant: the ledger lists exactly the reachable headers -/

/-- the header objects reachable from the reader state through an owning pointer -/
def reachable (s : St) : List HObj :=
  s.basic.curr.toList ++ s.dirStack ++ s.deferred ++ (ownCurr s).toList

theorem cnt_reachable (s : St) (id : Nat) :
    cnt (reachable s) id = owners s.basic.curr s.dirStack s.deferred (ownCurr s) id := by
  simp only [reachable, cnt_append, owners]

theorem cnt_pos_iff (l : List HObj) (id : Nat) : 1 ≤ cnt l id ↔ ∃ o ∈ l, o.id = id := by
  unfold cnt
  rw [show (1 ≤ List.count id (l.map (·.id))) ↔ 0 < List.count id (l.map (·.id)) from Iff.rfl,
    List.count_pos_iff, List.mem_map]

/-- a header id is live in the ledger iff a header object with that id is reachable -/
theorem Inv.live_iff {s : St} (h : Inv s) (id : Nat) :
    (∃ p ∈ s.led.hdrs, p.1 = id) ↔ ∃ o ∈ reachable s, o.id = id := by
  rw [← h.own.wf.rc_pos_iff, h.own.rc, ← cnt_reachable, cnt_pos_iff]

/-- every ledger entry carries exactly the number of owners as its reference count -/
theorem Inv.rc_eq {s : St} (h : Inv s) {p : Nat × Nat} (hp : p ∈ s.led.hdrs) :
    p.2 = cnt (reachable s) p.1 := by
  rw [cnt_reachable, ← h.own.rc, Ledger.rc, Ledger.lrc_nodup_mem h.own.wf.nodup hp]

/-- ledger ids are pairwise distinct, below `nextId`, and each has its block count recorded -/
theorem Inv.ids {s : St} (h : Inv s) :
    (s.led.hdrs.map (·.1)).Nodup ∧ (∀ p ∈ s.led.hdrs, p.1 < s.led.nextId) ∧
    (∀ p ∈ s.led.hdrs, ∃ q ∈ s.led.blocks, q.1 = p.1) ∧ s.led.faults = [] :=
  ⟨h.own.wf.nodup, h.own.wf.lt, h.own.wf.blocks, h.own.faults⟩

/-- every reachable header object is live in the ledger -/
theorem Inv.reachable_live {s : St} (h : Inv s) {o : HObj} (ho : o ∈ reachable s) : 1 ≤ s.led.rc o.id := by
  rw [h.own.rc, ← cnt_reachable, cnt_pos_iff]; exact ⟨o, ho, rfl⟩

/-- **no use after free** (the model never calls `Ledger.use`, so this is stated directly): whenever
the reader has a current entry — `currType` is `normal`, `fakeDir` or `deferred`, the only states in which
`open_decoder` / `extract` dereference `curr_file` — that header is live in the ledger -/
theorem Inv.curr_live {s : St} (h : Inv s) {c : HObj} (hc : s.curr = some c)
    (ht : s.currType = .normal ∨ s.currType = .fakeDir ∨ s.currType = .deferred) : 1 ≤ s.led.rc c.id := by
  apply h.reachable_live
  rcases ht with ht | ht
  · have : s.basic.curr = some c := by rw [← h.normal ht, hc]
    simp [reachable, this]
  · have : ownCurr s = some c := by simp only [ownCurr, ht, if_true, hc]
    simp [reachable, this]

/-- the same verdict rule for `lha_reader_extract` of a file whose output file could be opened -/
theorem extract_file_iff {s : St} {c : HObj} {d : Dec} {info : Nat × Nat × Nat}
    (ht : s.currType = .normal) (hc : s.curr = some c) (hos : c.h.osType ≠ 0x6d)
    (hm : c.h.method ≠ "-lhd-".toUTF8.toList)
    (hd : decoderFor (methodName c.h) = some d) (hi : decoderInfo (methodName c.h) = some info) :
    (extract s true).1.1 = true ↔
      ((extract s true).1.2.length = c.h.length ∧ (Crc.buf 0 (extract s true).1.2).toNat = c.h.crc) := by
  obtain ⟨h1, h2, h3⟩ := openDecoder_plain ht hc hos hd hi
  obtain ⟨out, e1, e2⟩ := decodeLoop_plainAt (c.h.length + 2) h2 []
  have hc' : (decodeLoop (c.h.length + 2) (openDecoder s).2 []).2.curr = some c := by
    rw [(decodeLoop_frame _ _ _).curr, h3]
  have hv := verdict_plainAt e2 hc'
  have hm' : (c.h.method != "-lhd-".toUTF8.toList) = true := by
    rw [bne_iff_ne]; exact hm
  unfold extract
  simp only [ht, hc, h1, hm', if_true, Bool.not_true, Bool.false_eq_true, if_false, hv, e1]
  simp

/-! ## 15. Sanity checks, evaluated at build time -/

/-- one `-lh0-` member `a` holding the two bytes `hi`, then the end marker -/
def demoArchive : Array UInt8 :=
  #[0x17, 0x0a, 0x2d, 0x6c, 0x68, 0x30, 0x2d, 0x02, 0x00, 0x00, 0x00, 0x02, 0x00, 0x00, 0x00, 0x00,
    0x00, 0x21, 0x28, 0x20, 0x00, 0x01, 0x61, 0xef, 0xee, 0x68, 0x69, 0x00]

def demo (ops : List Op) : St :=
  run (fresh { kind := .seekable, data := demoArchive } .endOfDir Header.dosTimeUTC) ops

/-- (ledger decoder count, decoder objects behind `dec`, live after free, faults after free) -/
def demoRow (ops : List Op) : Nat × Nat × Nat × Nat :=
  let s := demo ops
  (s.led.decoders, decObjs s.dec, (free s).live, (free s).faults.length)

-- legal histories: the two counts agree
#eval demoRow [.next, .read 1, .read 1]            -- (1, 1, 0, 0)
#eval demoRow [.next, .check]                      -- (1, 1, 0, 0)
#eval demoRow [.next, .extract true, .next]        -- (0, 0, 0, 0)
-- illegal histories: the model's ledger counts a decoder that `dec` no longer reaches (in the C:
-- `open_decoder` overwrites `reader->decoder`), yet `closeDecoder` zeroes the count, so `free` is clean
#eval demoRow [.next, .check, .check]              -- (2, 1, 0, 0)
#eval demoRow [.next, .read 1, .extract true]      -- (2, 1, 0, 0)
-- the hypotheses of `check_iff` hold on the demo member
#eval (let s := demo [.next]
  (s.currType == .normal, s.curr.map (fun c => (c.h.osType, methodName c.h, (decoderFor (methodName c.h)).isSome,
    (decoderInfo (methodName c.h)).isSome, c.h.length, c.h.crc))))
-- C07 on the demo member: verdict, decoded bytes, and the truncated archive
#eval (check (demo [.next])).1
#eval (check (run (fresh { kind := .seekable, data := demoArchive.extract 0 26 } .endOfDir Header.dosTimeUTC) [.next])).1

end LhasaV.Reader
