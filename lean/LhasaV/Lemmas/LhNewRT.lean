import LhasaV.Lemmas.LhNewRT5
/-!
Round trip of the `lh_new_decoder.c` model (-lh4- … -lh7-, -lhx-, -lk7-): for every
well-formed stream description, the decoder run on the serialised bytes yields exactly the
expansion (layers 7 and 8).

* `readK_cmd`   one `read` inside a block decodes one command
* `avail_cmds`  the commands of a block, then whatever follows
* `blocks_step` the block loop over (possibly several empty) block headers, end of stream
* `lhnew_round_trip`, `lhnew_reads`  the inner stream / the public read API
-/
namespace LhasaV.LhNewRT
open LhasaV LhasaV.Spec LhasaV.Spec.LhNewEnc LhasaV.Spec.Lz77 LhasaV.LzRoundTrip LhasaV.LhNewCmd

/-- **Layer 6**: one command, read from inside a block -/
theorem readK_cmd (p : LhNew.Params) (hp : RTParams p) (ct ot : Table) (c : Cmd) (s : LhNew.St)
    (out : List UInt8) (rest : List Bool) (k : Nat) (hB : BlkInv p s ct ot out)
    (hc : cmdWf (fmtOf p) ct ot c = true) (hrem : s.blockRemaining = k + 1)
    (hs : Bits.stream s.bits = cmdBits (fmtOf p) ct ot c ++ rest) :
    ∃ s' new, readK p (true, s) = .ok (new, s') ∧ new ≠ [] ∧ BlkInv p s' ct ot (out ++ new) ∧
      s'.blockRemaining = k ∧ Bits.stream s'.bits = rest ∧
      ∀ cs, tailFrom (c.denote :: cs) out = new ++ tailFrom cs (out ++ new) := by
  cases c with
  | lit b =>
    obtain ⟨s', h1, h2, h3, h4⟩ := readK_lit p ct ot b s out rest k hB hc hrem hs
    exact ⟨s', [b], h1, by simp, h2, h3, h4, fun cs => tailFrom_lit b cs out⟩
  | copy d n alt =>
    obtain ⟨s', new, h1, h2, h3, h4, h5, h6⟩ := readK_copy p hp ct ot d n alt s out rest k hB hc
      hrem hs
    have hn3 := (cmdWf_copy _ ct ot d n alt hc).1
    refine ⟨s', new, h1, ?_, h4, h5, h6, fun cs => tailFrom_copy d n cs out new h3⟩
    intro e
    rw [e] at h2
    simp at h2
    omega

/-- `read` from inside a block is the command reader -/
theorem read_in_block (p : LhNew.Params) (s : LhNew.St) (h : s.blockRemaining ≠ 0) :
    (LhNew.dec p).read s = readK p (true, s) := by
  show LhNew.read p s = _
  rw [read_eq, blockLoop_nonzero p _ s h]
  rfl

/-- **Layer 7a**: the remaining commands of a block, followed by a continuation `hcont` for what
comes after the block -/
theorem avail_cmds (p : LhNew.Params) (hp : RTParams p) (ct ot : Table) (cs : List Cmd)
    (hcw : ∀ c ∈ cs, cmdWf (fmtOf p) ct ot c = true) (tailBits : List Bool)
    (tailCmds : List WCmd)
    (hcont : ∀ (s : LhNew.St) (out : List UInt8) (m : Nat), Base p s out →
      s.blockRemaining = 0 → Bits.stream s.bits = tailBits →
      Wrap.avail (Dec.total (LhNew.dec p)) m (.ok s) = (tailFrom tailCmds out).take m)
    (s : LhNew.St) (out : List UInt8) (m : Nat) (hB : BlkInv p s ct ot out)
    (hrem : s.blockRemaining = cs.length)
    (hs : Bits.stream s.bits = cs.flatMap (cmdBits (fmtOf p) ct ot) ++ tailBits) :
    Wrap.avail (Dec.total (LhNew.dec p)) m (.ok s)
      = (tailFrom (cs.map Cmd.denote ++ tailCmds) out).take m := by
  induction cs generalizing s out m with
  | nil => exact hcont s out m hB.base (by simpa using hrem) (by simpa using hs)
  | cons c cs ih =>
    have hcw' : ∀ c ∈ cs, cmdWf (fmtOf p) ct ot c = true :=
      fun c hc => hcw c (List.mem_cons_of_mem _ hc)
    rw [List.flatMap_cons, List.append_assoc] at hs
    obtain ⟨s', new, h1, h2, h3, h4, h5, h6⟩ := readK_cmd p hp ct ot c s out _ cs.length hB
      (hcw c (List.mem_cons_self ..)) (by simpa using hrem) hs
    have hread : (LhNew.dec p).read s = .ok (new, s') := by
      rw [read_in_block p s (by rw [hrem]; simp)]
      exact h1
    rw [List.map_cons, List.cons_append, h6]
    exact avail_step_spec (LhNew.dec p) s s' new _ m hread h2 (ih hcw' s' _ _ h3 h4 h5)

/-! ## the block loop -/

/-- outcome of one `read` whose block loop runs with `fuel`, against the expected rest `spec` of
the output: nothing at the end of the stream, otherwise a non-empty piece after which the
decoder delivers the remainder -/
def Step (p : LhNew.Params) (fuel : Nat) (s : LhNew.St) (spec : List UInt8) : Prop :=
  ∃ o s', ((LhNew.blockLoop p fuel s) >>= readK p) = .ok (o, s') ∧
    ((o = [] ∧ spec = []) ∨
     (o ≠ [] ∧ ∃ spec', spec = o ++ spec' ∧
        ∀ m, Wrap.avail (Dec.total (LhNew.dec p)) m (.ok s') = spec'.take m))

theorem avail_of_step (p : LhNew.Params) (s : LhNew.St) (spec : List UInt8) (m : Nat)
    (h : Step p (LhNew.bitsLeft s.bits / 16 + 2) s spec) :
    Wrap.avail (Dec.total (LhNew.dec p)) m (.ok s) = spec.take m := by
  obtain ⟨o, s', h1, h2⟩ := h
  have hread : (LhNew.dec p).read s = .ok (o, s') := by
    show LhNew.read p s = _
    rw [read_eq]; exact h1
  rcases h2 with ⟨ho, hsp⟩ | ⟨ho, spec', hsp, hav⟩
  · subst ho
    rw [avail_end (LhNew.dec p) s s' m hread, hsp]
    simp
  · rw [hsp]
    exact avail_step_spec (LhNew.dec p) s s' o spec' m hread ho (hav _)

theorem length_blockBits (f : Fmt) (b : Block) : 16 ≤ (blockBits f b).length := by
  simp only [blockBits, List.length_append, length_bitsN]
  omega

theorem length_streamBits (f : Fmt) (bs : List Block) :
    16 * bs.length ≤ (streamBits f bs).length := by
  induction bs with
  | nil => simp
  | cons b bs ih =>
    have := length_blockBits f b
    simp only [streamBits, List.flatMap_cons, List.length_append, List.length_cons] at ih ⊢
    omega

theorem denote_cons (b : Block) (bs : List Block) :
    denote (b :: bs) = b.cmds.map Cmd.denote ++ denote bs := by
  simp [denote]

/-- **Layer 7b**: from a state between blocks: block headers are read until a block with
commands turns up (its first command is decoded, the rest follows by `avail_cmds`), or the
stream ends in fewer than 8 padding bits -/
theorem blocks_step (p : LhNew.Params) (hp : RTParams p) (k : Nat) (hk : k < 8) (bs : List Block)
    (hw : ∀ b ∈ bs, blockWf (fmtOf p) b = true) (s : LhNew.St) (out : List UInt8) (fuel : Nat)
    (hB : Base p s out) (hrem : s.blockRemaining = 0)
    (hs : Bits.stream s.bits = streamBits (fmtOf p) bs ++ List.replicate k false)
    (hfuel : bs.length + 1 ≤ fuel) :
    Step p fuel s (tailFrom (denote bs) out) := by
  induction bs generalizing s out fuel with
  | nil =>
    obtain ⟨fuel, rfl⟩ : ∃ f, fuel = f + 1 := ⟨fuel - 1, by omega⟩
    obtain ⟨s', h1⟩ := startNewBlock_end p s hB.inv (by rw [hs]; simp [streamBits]; omega)
    refine ⟨[], s', ?_, Or.inl ⟨rfl, ?_⟩⟩
    · rw [blockLoop_end p fuel s s' hrem h1, Res.ok_bind, readK_false]
    · simp [denote, tailFrom_nil]
  | cons b bs ih =>
    have hwb := hw b (List.mem_cons_self ..)
    have hw' : ∀ b ∈ bs, blockWf (fmtOf p) b = true := fun b hb => hw b (List.mem_cons_of_mem _ hb)
    obtain ⟨fuel, rfl⟩ : ∃ f, fuel = f + 1 := ⟨fuel - 1, by omega⟩
    have hfuel' : bs.length + 1 ≤ fuel := by simp at hfuel; omega
    simp only [streamBits, List.flatMap_cons, List.append_assoc] at hs
    obtain ⟨s1, h1, h2, h3, h4⟩ := startNewBlock_spec p hp s b out _ hB hwb hs
    have hcw := (blockWf_parts _ b hwb).2.2.2.2
    rw [denote_cons]
    -- the rest of the stream, for any later read
    have hcont : ∀ (s : LhNew.St) (out : List UInt8) (m : Nat), Base p s out →
        s.blockRemaining = 0 →
        Bits.stream s.bits = streamBits (fmtOf p) bs ++ List.replicate k false →
        Wrap.avail (Dec.total (LhNew.dec p)) m (.ok s) = (tailFrom (denote bs) out).take m := by
      intro s out m hB hrem hs
      apply avail_of_step
      apply ih hw' s out _ hB hrem hs
      have h1 := length_streamBits (fmtOf p) bs
      have h2 : (streamBits (fmtOf p) bs).length ≤ LhNew.bitsLeft s.bits := by
        rw [bitsLeft_eq, hs, List.length_append]; omega
      omega
    cases hcm : b.cmds with
    | nil =>
      rw [hcm] at h3 h4
      obtain ⟨o, s', g1, g2⟩ := ih hw' s1 out fuel h2.base (by simpa using h3)
        (by simpa [streamBits] using h4) hfuel'
      refine ⟨o, s', ?_, by simpa using g2⟩
      rw [blockLoop_zero p fuel s s1 hrem h1]
      exact g1
    | cons c cs =>
      rw [hcm] at h3 h4 hcw
      obtain ⟨fuel, rfl⟩ : ∃ f, fuel = f + 1 := ⟨fuel - 1, by omega⟩
      rw [List.flatMap_cons, List.append_assoc] at h4
      obtain ⟨s2, new, g1, g2, g3, g4, g5, g6⟩ := readK_cmd p hp b.code.table b.off c s1 out _
        cs.length h2 (hcw c (List.mem_cons_self ..)) (by simpa using h3) h4
      refine ⟨new, s2, ?_, Or.inr ⟨g2, tailFrom (cs.map Cmd.denote ++ denote bs) (out ++ new),
        ?_, ?_⟩⟩
      · rw [blockLoop_zero p (fuel + 1) s s1 hrem h1,
          blockLoop_nonzero p fuel s1 (by rw [h3]; simp), Res.ok_bind]
        exact g1
      · rw [List.map_cons, List.cons_append, g6]
      · intro m
        exact avail_cmds p hp b.code.table b.off cs
          (fun c hc => hcw c (List.mem_cons_of_mem _ hc)) _ (denote bs) hcont s2 _ m g3 g4
          (by simpa [streamBits] using g5)

/-! ## Layer 8: the theorems -/

theorem base_init (p : LhNew.Params) (hp : RTParams p) (src : Src) (hz : src.zeroFill = false)
    (hpos : src.pos ≤ src.data.size) (he : src.extra = 0) (hd : src.dead = false) :
    Base p (LhNew.init p src) [] where
  inv := Bits.inv_init src hz hpos he hd
  win := winRel_init p.ringSize p.ringCap 0x20 hp.ringPos hp.ringCap
  tsz := by simp [LhNew.init, Tree.initTree]
  csz := by simp [LhNew.init, Tree.initTree]
  osz := by simp [LhNew.init, Tree.initTree]

/-- the inner output stream of the decoder on the serialised description is its expansion, for
every chunking `c` of the input callback -/
theorem lhnew_round_trip (p : LhNew.Params) (hp : RTParams p) (bs : List Block)
    (hw : wf (fmtOf p) bs = true) (m c : Nat) :
    Wrap.avail (Dec.total (LhNew.dec p)) m
        (.ok (LhNew.init p { data := (serialise (fmtOf p) bs).toArray, chunk := c }))
      = (expand bs).take m := by
  obtain ⟨k, hk, e⟩ := packBits_stream (streamBits (fmtOf p) bs)
  have hB := base_init p hp { data := (serialise (fmtOf p) bs).toArray, chunk := c } rfl
    (Nat.zero_le _) rfl rfl
  have hs : Bits.stream (LhNew.init p { data := (serialise (fmtOf p) bs).toArray, chunk := c }).bits
      = streamBits (fmtOf p) bs ++ List.replicate k false := by
    rw [← e]
    simp only [LhNew.init, Bits.stream_init, Bits.rest_eq]
    simp [serialise]
  have hw' : ∀ b ∈ bs, blockWf (fmtOf p) b = true := fun b hb => List.all_eq_true.mp hw b hb
  have hexp : expand bs = tailFrom (denote bs) [] := by simp [expand, expandWin, tailFrom]
  rw [hexp]
  apply avail_of_step
  apply blocks_step p hp k hk bs hw' _ [] _ hB rfl hs
  have h1 := length_streamBits (fmtOf p) bs
  rw [bitsLeft_eq, hs, List.length_append]
  omega

open LhasaV.Spec.LhNewEnc in
/-- **Layer 8**: through the public read API `lha_decoder_read`: any callback chunking `c`,
declared length `n`, block size `b`, read schedule `ks` -/
theorem lhnew_reads (p : LhNew.Params) (hp : RTParams p) (bs : List Block)
    (hw : wf (fmtOf p) bs = true) (c n b : Nat) (ks : List Nat) :
    (Wrap.reads (Dec.total (LhNew.dec p)) ks
        { inner := .ok (LhNew.init p { data := (serialise (fmtOf p) bs).toArray, chunk := c }),
          length := n, blockSize := b }).1.1
      = (expand bs).take (min ks.sum n) := by
  rw [reads_fresh]
  exact lhnew_round_trip p hp bs hw _ c

/-! ## non-vacuity -/

section Example

/-- a block without commands (all three tables in their `n = 0` form) -/
def exEmpty : Block :=
  { temp := .single 0, skip := 0, code := .single 0, off := .single 0, cmds := [] }

/-- -lh5-: an empty block, a block with a temp table using the skip field, a code table sent
with all three zero-run forms, two literals, an overlapping copy at distance 0 and one at
distance 1, then two trailing empty blocks -/
def exLh5 : List Block :=
  [ exEmpty,
    { temp := .lens [2, 0, 2, 0, 1], skip := 1,
      code := .coded 259 [.z2 65, .len 2, .len 2, .z2 189, .len 2, .z0, .len 2],
      off := .lens [1, 1],
      cmds := [.lit 65, .copy 0 3 false, .lit 66, .copy 1 5 false] },
    exEmpty, exEmpty ]

set_option maxRecDepth 100000 in
theorem exLh5_wf : wf (fmtOf LhNew.lh5) exLh5 = true := by decide

set_option maxRecDepth 100000 in
theorem exLh5_expand : expand exLh5 = [65, 65, 65, 65, 66, 65, 66, 65, 66, 65] := by decide

/-- the public read API on the serialised description, callback answering one byte at a time,
declared length 8, reads of 3, 0 and 100 bytes -/
example : (Wrap.reads (Dec.total (LhNew.dec LhNew.lh5)) [3, 0, 100]
      { inner := .ok (LhNew.init LhNew.lh5
          { data := (serialise (fmtOf LhNew.lh5) exLh5).toArray, chunk := 1 }),
        length := 8, blockSize := 8192 }).1.1 = [65, 65, 65, 65, 66, 65, 66, 65] := by
  rw [lhnew_reads LhNew.lh5 rtParams_lh5 exLh5 exLh5_wf, exLh5_expand]
  rfl

/-- -lk7- (LHark): a literal, a 100-byte copy (symbol 278 + 4 extra bits) and the two codes of a
514-byte copy (symbol 288; symbol 287 + six 1-bits) -/
def exLk7 : List Block :=
  [ { temp := .lens [0, 2, 2, 2, 3, 3], skip := 0,
      code := .coded 289 [.z2 65, .len 1, .z2 212, .len 3, .z1 8, .len 3, .len 2],
      off := .single 0,
      cmds := [.lit 65, .copy 0 100 false, .copy 0 514 true, .copy 0 514 false] } ]

set_option maxRecDepth 100000 in
theorem exLk7_wf : wf (fmtOf LhNew.lk7) exLk7 = true := by decide

example (c n b : Nat) (ks : List Nat) :
    (Wrap.reads (Dec.total (LhNew.dec LhNew.lk7)) ks
      { inner := .ok (LhNew.init LhNew.lk7
          { data := (serialise (fmtOf LhNew.lk7) exLk7).toArray, chunk := c }),
        length := n, blockSize := b }).1.1 = (expand exLk7).take (min ks.sum n) :=
  lhnew_reads LhNew.lk7 rtParams_lk7 exLk7 exLk7_wf c n b ks

end Example

end LhasaV.LhNewRT
