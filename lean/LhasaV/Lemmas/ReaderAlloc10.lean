import LhasaV.Lemmas.ReaderAlloc9
/-!
# Allocation-aware reader, part 10: the decoder count stays exact under allocation failure

`closeDecoder` of the model zeroes the ledger's decoder count, so "nothing is live after free" does
not by itself say that no decoder object was lost on the way.  As for the original model
(`run_invD_legal`), that is the statement `DecExact`: the ledger counts exactly the decoder objects
reachable from `dec`.  It holds along every legal history under ANY failure set — in particular on
the failure paths of `open_decoder` (member decoder not allocated: nothing; pass-through not
allocated or not initialised: the inner decoder is freed again).
-/
namespace LhasaV.Reader
open LhasaV LhasaV.Alloc

theorem openDecoderA_exact {o : Oracle} {a : StA} (hn : a.s.dec = none) (h : DecExact a.s) :
    DecExact (openDecoderA o a).2.s := by
  have h0 : a.s.led.decoders = 0 := by rw [h, hn]; rfl
  unfold openDecoderA
  dsimp only
  split
  · exact h
  · split
    · exact h
    · split
      · split
        · exact h
        · split
          · split
            · show (closeDecoder _).led.decoders = decObjs (closeDecoder _).dec
              rw [closeDecoder_dec, closeDecoder_decoders (fun hn => by cases hn)]; rfl
            · split
              · show (closeDecoder _).led.decoders = decObjs (closeDecoder _).dec
                rw [closeDecoder_dec, closeDecoder_decoders (fun hn => by cases hn)]; rfl
              · show a.s.led.decoders + 1 + 1 = 2
                omega
          · show a.s.led.decoders + 1 = 1
            omega
      · exact h

theorem readA_exact {o : Oracle} {a : StA} (h : DecExact a.s) (k : Nat) : DecExact (readA o a k).2.s := by
  rw [readA_eq]
  split
  · split
    · exact readCore_exact h k
    · exact h
  · rename_i hn
    split
    · exact readCore_exact (openDecoderA_exact hn h) k
    · exact openDecoderA_exact hn h

theorem decodeLoopA_exact {o : Oracle} (fuel : Nat) {a : StA} (h : DecExact a.s) (acc : List UInt8) :
    DecExact (decodeLoopA o fuel a acc).2.s := by
  induction fuel generalizing a acc with
  | zero => exact h
  | succ n ih =>
    unfold decodeLoopA
    dsimp only
    split
    · exact readA_exact h 64
    · exact ih (readA_exact h 64) _

theorem checkA_exact {o : Oracle} {a : StA} (hn : a.s.dec = none) (h : DecExact a.s) :
    DecExact (checkA o a).2.s := by
  unfold checkA
  split
  · exact h
  · split
    · exact h
    · split
      · exact h
      · dsimp only
        split
        · exact openDecoderA_exact hn h
        · exact decodeLoopA_exact _ (openDecoderA_exact hn h) _

theorem extractA_exact {o : Oracle} {a : StA} (hn : a.s.dec = none) (h : DecExact a.s) (fsOk : Bool) :
    DecExact (extractA o a fsOk).2.s := by
  unfold extractA
  dsimp only
  split
  · split
    · split
      · exact h
      · generalize hA : ({ s := a.s, hp := { (allocAt o Site.extractName a.hp).2 with
            live := (allocAt o Site.extractName a.hp).2.live + 1 } } : StA) = a1
        have hs1 : a1.s = a.s := by rw [← hA]
        have hn1 : a1.s.dec = none := by rw [hs1]; exact hn
        have h1 : DecExact a1.s := by rw [hs1]; exact h
        split
        · exact openDecoderA_exact hn1 h1
        · split
          · exact openDecoderA_exact hn1 h1
          · exact decodeLoopA_exact _ (openDecoderA_exact hn1 h1) _
    · split
      · split
        · exact h
        · split
          · split
            · exact h
            · exact (Ledger.addRef_decoders _ _).trans h
          · exact h
      · split
        · exact h
        · split
          · exact h
          · exact (Ledger.addRef_decoders _ _).trans h
  · exact h
  · split <;> exact h
  · exact h

/-- the full invariant along a legal history, under any failure set -/
theorem runA_exact_from {o : Oracle} (ops : List Op) (p : Phase) {a : StA} (hinv : InvA o a)
    (hx : DecExact a.s) (hp : p = .fresh → a.s.dec = none) (hl : legalFrom p ops = true)
    (hok : NextsOk o a ops) : DecExact (runA o a ops).s := by
  induction ops generalizing p a with
  | nil => exact hx
  | cons x ops ih =>
    cases x with
    | next =>
      have hl' : legalFrom .fresh ops = true := by cases p <;> exact hl
      obtain ⟨⟨r, hr⟩, hok'⟩ := hok
      have hc := (nextA_closed (r := r.1) (a' := r.2) hinv hr).1
      have hst : stepA o a .next = r.2 := by simp only [stepA, hr]
      rw [runA_cons, hst]
      rw [hst] at hok'
      exact ih .fresh (hst ▸ stepA_invA hinv .next) hc.invD.decoders (fun _ => hc.dec) hl' hok'
    | read k =>
      cases p with
      | fresh => exact ih .reading (stepA_invA hinv _) (readA_exact hx k) (fun e => by cases e) hl hok
      | reading => exact ih .reading (stepA_invA hinv _) (readA_exact hx k) (fun e => by cases e) hl hok
      | done => simp [legalFrom] at hl
    | check =>
      cases p with
      | fresh => exact ih .done (stepA_invA hinv _) (checkA_exact (hp rfl) hx) (fun e => by cases e) hl hok
      | reading => simp [legalFrom] at hl
      | done => simp [legalFrom] at hl
    | extract b =>
      cases p with
      | fresh => exact ih .done (stepA_invA hinv _) (extractA_exact (hp rfl) hx b) (fun e => by cases e) hl hok
      | reading => simp [legalFrom] at hl
      | done => simp [legalFrom] at hl

/-- **Decoder objects are counted exactly under allocation failure.**  On every legal history
(whose `next`s return), under any failure set that lets the reader be created, the ledger's
decoder count is the number of decoder objects behind the open decoder: none is overwritten or
lost on a failure path. -/
theorem alloc_failure_decoders_exact (o : Oracle) (h0 : o 0 = false) (h1 : o 1 = false) (h2 : o 2 = false)
    (st : Stream.St) (pol : DirPolicy) (mk : Nat → Nat) (ops : List Op) (hl : Legal ops)
    (hok : NextsOk o (freshA st pol mk) ops) : InvD (runA o (freshA st pol mk) ops).s :=
  ⟨(runA_invA (invA_fresh o st pol mk h0 h1 h2) ops).inv,
   runA_exact_from ops .fresh (invA_fresh o st pol mk h0 h1 h2) rfl (fun _ => rfl) hl hok⟩

end LhasaV.Reader
