import LhasaV.Model.Tree
import LhasaV.Lemmas.BitsWf
import LhasaV.Lemmas.Safe
/-!
Memory safety of `tree_decode.c` (model `LhasaV.Tree`):

* `build_tree` never writes outside the table and leaves a table in which every
  non-leaf entry points forward to a pair inside the table (`Fwd`) – for every
  length list (over-subscribed, incomplete, anything);
* `read_from_tree` on such a table never reads outside the table.
-/
namespace LhasaV.Tree
open LhasaV.Res

/-- every non-leaf entry points forward to a pair inside the table -/
def Fwd (lb : Nat) (t : Array Nat) : Prop :=
  ∀ i e, t[i]? = some e → e < lb → i < e ∧ e + 1 < t.size

/-- every entry of the table satisfies `P` -/
def All (P : Nat → Prop) (t : Array Nat) : Prop := ∀ (i e : Nat), t[i]? = some e → P e

/-! ### leaves -/

theorem mkLeaf_ge (lb i : Nat) : lb ≤ mkLeaf lb i := by
  show lb ≤ (if i % (2 * lb) ≥ lb then i % (2 * lb) else i % (2 * lb) + lb)
  by_cases h : i % (2 * lb) ≥ lb
  · rw [if_pos h]; exact h
  · rw [if_neg h]; omega

theorem mkLeaf_small (lb i : Nat) (h : i < lb) : mkLeaf lb i = i + lb := by
  show (if i % (2 * lb) ≥ lb then i % (2 * lb) else i % (2 * lb) + lb) = i + lb
  have h1 : i % (2 * lb) = i := Nat.mod_eq_of_lt (by omega)
  rw [h1]
  have : ¬ i ≥ lb := by omega
  rw [if_neg this]

/-! ### single writes -/

theorem fwd_set (lb : Nat) (t : Array Nat) (n v : Nat) (h : Fwd lb t)
    (hv : v < lb → n < v ∧ v + 1 < t.size) : Fwd lb (t.setIfInBounds n v) := by
  intro i e hie hlt
  rw [Array.getElem?_setIfInBounds] at hie
  rw [Array.size_setIfInBounds]
  by_cases hin : n = i
  · rw [if_pos hin] at hie
    by_cases hlt' : n < t.size
    · rw [if_pos hlt'] at hie
      cases hie
      subst hin
      exact hv hlt
    · rw [if_neg hlt'] at hie; cases hie
  · rw [if_neg hin] at hie
    exact h i e hie hlt

theorem all_set (P : Nat → Prop) (t : Array Nat) (n v : Nat) (h : All P t) (hv : P v) :
    All P (t.setIfInBounds n v) := by
  intro i e hie
  rw [Array.getElem?_setIfInBounds] at hie
  by_cases hin : n = i
  · rw [if_pos hin] at hie
    by_cases hlt' : n < t.size
    · rw [if_pos hlt'] at hie; cases hie; exact hv
    · rw [if_neg hlt'] at hie; cases hie
  · rw [if_neg hin] at hie
    exact h i e hie

theorem fwd_replicate (lb len : Nat) : Fwd lb (Array.replicate len lb) := by
  intro i e hie hlt
  rw [Array.getElem?_replicate] at hie
  by_cases h : i < len
  · rw [if_pos h] at hie; cases hie; omega
  · rw [if_neg h] at hie; cases hie

theorem all_replicate (P : Nat → Prop) (len v : Nat) (hv : P v) : All P (Array.replicate len v) := by
  intro i e hie
  rw [Array.getElem?_replicate] at hie
  by_cases h : i < len
  · rw [if_pos h] at hie; cases hie; exact hv
  · rw [if_neg h] at hie; cases hie

/-- `init_tree` -/
theorem initTree_fwd (lb len : Nat) :
    Fwd lb (initTree lb len) ∧ (initTree lb len).size = len :=
  ⟨fwd_replicate lb len, Array.size_replicate⟩

theorem initTree_all (P : Nat → Prop) (lb len : Nat) (h : P lb) : All P (initTree lb len) :=
  all_replicate P len lb h

/-- `set_tree_single` -/
theorem setSingle_fwd (lb : Nat) (t : Array Nat) (code : Int) (h : Fwd lb t) :
    Fwd lb (setSingle lb t code) ∧ (setSingle lb t code).size = t.size := by
  refine ⟨?_, Array.size_setIfInBounds⟩
  apply fwd_set lb t 0 _ h
  intro hlt
  have := mkLeaf_ge lb (code % (2 * lb : Nat)).toNat
  omega

theorem setSingle_all (P : Nat → Prop) (lb : Nat) (t : Array Nat) (code : Int) (h : All P t)
    (hv : P (mkLeaf lb (code % (2 * lb : Nat)).toNat)) : All P (setSingle lb t code) :=
  all_set P t 0 _ h hv

/-- the leaf written by `set_tree_single` for a small non-negative code -/
theorem setSingle_leaf (lb c : Nat) (h : c < lb) :
    mkLeaf lb (((c : Int) % (2 * lb : Nat)).toNat) = c + lb := by
  have h1 : (c : Int) % ((2 * lb : Nat) : Int) = (c : Int) :=
    Int.emod_eq_of_lt (by omega) (by omega)
  rw [h1, Int.toNat_natCast]
  exact mkLeaf_small lb c h

/-! ### the builder -/

/-- invariant of the builder state; `P` is an arbitrary property of table entries -/
structure BInv (lb : Nat) (P : Nat → Prop) (b : Build) : Prop where
  fwd : Fwd lb b.tree
  ents : All P b.tree
  na : b.next ≤ b.alloc
  asz : b.alloc ≤ b.tree.size
  oob : b.oob = false
  tl : b.treeLen ≤ b.tree.size
  slb : b.tree.size ≤ lb
  pos : 1 ≤ b.tree.size

theorem expandLoop_inv (lb : Nat) (P : Nat → Prop) (hP : ∀ e, e < lb → P e) (k : Nat) (b : Build)
    (h : BInv lb P b) (hk : b.next + k ≤ b.alloc) (hs : b.alloc + 2 * k ≤ b.treeLen) :
    BInv lb P (expandLoop lb k b) ∧ (expandLoop lb k b).tree.size = b.tree.size := by
  induction k generalizing b with
  | zero => exact ⟨h, rfl⟩
  | succ k ih =>
    obtain ⟨hf, he, h1, h2, h3, h4, h5, h6⟩ := h
    have hal : b.alloc % (2 * lb) = b.alloc := Nat.mod_eq_of_lt (by omega)
    have hsz : (b.tree.setIfInBounds b.next (b.alloc % (2 * lb))).size = b.tree.size :=
      Array.size_setIfInBounds
    have hoob : (b.oob || decide (b.tree.size ≤ b.next)) = false := by
      rw [h3]; simp; omega
    have := ih { tree := b.tree.setIfInBounds b.next (b.alloc % (2 * lb)), treeLen := b.treeLen,
                 alloc := b.alloc + 2, next := b.next + 1,
                 oob := b.oob || decide (b.tree.size ≤ b.next) }
      { fwd := by
          apply fwd_set lb b.tree _ _ hf
          intro _; rw [hal]; omega
        ents := by
          apply all_set P b.tree _ _ he
          apply hP; rw [hal]; omega
        na := by show b.next + 1 ≤ b.alloc + 2; omega
        asz := by show b.alloc + 2 ≤ _; rw [hsz]; omega
        oob := hoob
        tl := by show b.treeLen ≤ _; rw [hsz]; exact h4
        slb := by show _ ≤ lb; rw [hsz]; exact h5
        pos := by show 1 ≤ _; rw [hsz]; exact h6 }
      (by show b.next + 1 + k ≤ b.alloc + 2; omega)
      (by show b.alloc + 2 + 2 * k ≤ b.treeLen; omega)
    refine ⟨this.1, ?_⟩
    exact this.2.trans hsz

theorem expandQueue_inv (lb : Nat) (P : Nat → Prop) (hP : ∀ e, e < lb → P e) (b : Build)
    (h : BInv lb P b) :
    BInv lb P (expandQueue lb b) ∧ (expandQueue lb b).tree.size = b.tree.size := by
  unfold expandQueue
  by_cases hc : b.alloc + (b.alloc - b.next) * 2 > b.treeLen
  · rw [if_pos hc]; exact ⟨h, rfl⟩
  · rw [if_neg hc]
    have := h.na
    exact expandLoop_inv lb P hP _ b h (by omega) (by omega)

theorem write_leaf_inv (lb : Nat) (P : Nat → Prop) (b : Build) (n v : Nat) (h : BInv lb P b)
    (hn : n < b.tree.size) (hv : lb ≤ v) (hpv : P v) :
    BInv lb P (b.write n v) ∧ (b.write n v).tree.size = b.tree.size := by
  have hsz : (b.write n v).tree.size = b.tree.size := Array.size_setIfInBounds
  refine ⟨?_, hsz⟩
  exact
    { fwd := fwd_set lb b.tree n v h.fwd (by intro hlt; omega)
      ents := all_set P b.tree n v h.ents hpv
      na := h.na
      asz := by show b.alloc ≤ _; rw [hsz]; exact h.asz
      oob := by show (b.oob || decide (b.tree.size ≤ n)) = false; rw [h.oob]; simp; omega
      tl := by show b.treeLen ≤ _; rw [hsz]; exact h.tl
      slb := by show _ ≤ lb; rw [hsz]; exact h.slb
      pos := by show 1 ≤ _; rw [hsz]; exact h.pos }

theorem readNext_inv (lb : Nat) (P : Nat → Prop) (b : Build) (h : BInv lb P b) :
    BInv lb P (readNext b).2 ∧ (readNext b).2.tree = b.tree ∧ (readNext b).1 < b.tree.size := by
  unfold readNext
  by_cases hq : b.next ≥ b.alloc
  · rw [if_pos hq]; exact ⟨h, rfl, h.pos⟩
  · rw [if_neg hq]
    have := h.asz
    refine ⟨{ h with na := ?_ }, rfl, ?_⟩
    · show b.next + 1 ≤ b.alloc; omega
    · show b.next < _; omega

theorem addCodes_inv (lb : Nat) (P : Nat → Prop) (N : Nat) (hP : ∀ i, i < N → P (mkLeaf lb i))
    (codeLen : Nat) (ls : List Nat) (i : Nat) (b : Build) (rem : Bool) (h : BInv lb P b)
    (hN : i + ls.length ≤ N) :
    BInv lb P (addCodes lb codeLen ls i b rem).1 ∧
      (addCodes lb codeLen ls i b rem).1.tree.size = b.tree.size := by
  induction ls generalizing i b rem with
  | nil => exact ⟨h, rfl⟩
  | cons l ls ih =>
    have hlen : (l :: ls).length = ls.length + 1 := rfl
    rw [hlen] at hN
    unfold addCodes
    by_cases h1 : l = codeLen
    · rw [if_pos h1]
      have hr := readNext_inv lb P b h
      have hw := write_leaf_inv lb P (readNext b).2 (readNext b).1 (mkLeaf lb i) hr.1
        (by rw [hr.2.1]; exact hr.2.2) (mkLeaf_ge lb i) (hP i (by omega))
      have := ih (i + 1) _ rem hw.1 (by omega)
      refine ⟨this.1, ?_⟩
      rw [this.2, hw.2, hr.2.1]
    · rw [if_neg h1]
      by_cases h2 : l > codeLen
      · rw [if_pos h2]; exact ih (i + 1) b true h (by omega)
      · rw [if_neg h2]; exact ih (i + 1) b rem h (by omega)

theorem buildLoop_inv (lb : Nat) (P : Nat → Prop) (hP1 : ∀ e, e < lb → P e)
    (lens : List Nat) (hP2 : ∀ i, i < lens.length → P (mkLeaf lb i))
    (fuel codeLen : Nat) (b : Build) (h : BInv lb P b) :
    BInv lb P (buildLoop lb lens fuel codeLen b) ∧
      (buildLoop lb lens fuel codeLen b).tree.size = b.tree.size := by
  induction fuel generalizing codeLen b with
  | zero => exact ⟨h, rfl⟩
  | succ fuel ih =>
    unfold buildLoop
    have h1 := expandQueue_inv lb P hP1 b h
    have h2 := addCodes_inv lb P lens.length hP2 (codeLen + 1) lens 0 (expandQueue lb b) false h1.1
      (by omega)
    simp only []
    by_cases hc : (addCodes lb (codeLen + 1) lens 0 (expandQueue lb b) false).2 = true
    · rw [if_pos hc]
      have := ih (codeLen + 1) _ h2.1
      exact ⟨this.1, by rw [this.2, h2.2, h1.2]⟩
    · rw [if_neg hc]
      exact ⟨h2.1, by rw [h2.2, h1.2]⟩

/-- `build_tree` with an arbitrary entry property `P` that holds for the old
entries, for every pointer value and for every leaf `i < lens.length`. -/
theorem buildTree_inv (lb : Nat) (P : Nat → Prop) (t : Array Nat) (treeLen : Nat) (lens : List Nat)
    (hP1 : ∀ e, e < lb → P e) (hP2 : ∀ i, i < lens.length → P (mkLeaf lb i)) (ha : All P t)
    (hf : Fwd lb t) (hs : 1 ≤ t.size) (hl : treeLen ≤ t.size) (hlb : t.size ≤ lb) :
    Fwd lb (buildTree lb t treeLen lens).1 ∧ All P (buildTree lb t treeLen lens).1 ∧
    (buildTree lb t treeLen lens).1.size = t.size ∧ (buildTree lb t treeLen lens).2 = false := by
  have := buildLoop_inv lb P hP1 lens hP2 256 0
    { tree := t, treeLen := treeLen, alloc := 1, next := 0 }
    { fwd := hf, ents := ha, na := Nat.zero_le _, asz := hs, oob := rfl, tl := hl, slb := hlb,
      pos := hs }
  exact ⟨this.1.fwd, this.1.ents, this.2, this.1.oob⟩

/-- `build_tree` never writes outside the table (ghost flag stays `false`) and
keeps every non-leaf entry pointing forward to a pair inside the table – for ANY
length list and ANY previous (well-formed) contents. -/
theorem buildTree_safe (lb : Nat) (t : Array Nat) (treeLen : Nat) (lens : List Nat)
    (hf : Fwd lb t) (hs : 1 ≤ t.size) (hl : treeLen ≤ t.size) (hlb : t.size ≤ lb) :
    Fwd lb (buildTree lb t treeLen lens).1 ∧ (buildTree lb t treeLen lens).1.size = t.size ∧
    (buildTree lb t treeLen lens).2 = false := by
  have := buildTree_inv lb (fun _ => True) t treeLen lens (fun _ _ => trivial) (fun _ _ => trivial)
    (fun _ _ _ => trivial) hf hs hl hlb
  exact ⟨this.1, this.2.2.1, this.2.2.2⟩

/-! ### the walker -/

theorem walkFrom_safe (lb : Nat) (P : Nat → Prop) (t : Array Nat) (hf : Fwd lb t) (ha : All P t)
    (fuel code : Nat) (r : Bits) (hr : r.WF) (hc : code < lb → code + 1 < t.size) (hpc : P code) :
    Safe (walkFrom lb t fuel code r) (fun o => o.2.WF ∧ ∀ v, o.1 = some v → P (v + lb)) := by
  induction fuel generalizing code r with
  | zero => unfold walkFrom; exact safe_ok ⟨hr, fun v hv => by cases hv⟩
  | succ fuel ih =>
    unfold walkFrom
    by_cases hge : code ≥ lb
    · rw [if_pos hge]
      refine safe_ok ⟨hr, fun v hv => ?_⟩
      cases hv
      have : code - lb + lb = code := by omega
      rw [this]; exact hpc
    · rw [if_neg hge]
      have hwf := Bits.readBit_wf r hr
      have hle := Bits.readBit_le r hr
      simp only []
      generalize r.readBit = p at hwf hle
      obtain ⟨pv, pr⟩ := p
      cases pv with
      | none => exact safe_ok ⟨hwf, fun v hv => by cases hv⟩
      | some bit =>
        have hb : bit ≤ 1 := hle bit rfl
        have hin : code + bit < t.size := by have := hc (by omega); omega
        have hget : t[code + bit]? = some t[code + bit] := Array.getElem?_eq_getElem hin
        simp only [hget]
        apply ih _ _ hwf
        · intro hlt; exact (hf _ _ hget hlt).2
        · exact ha _ _ hget

/-- `read_from_tree` with value property: no fault, the reader stays well-formed
and a returned leaf value `v` comes from an entry `v + lb` of the table. -/
theorem readFromTree_safe (lb : Nat) (P : Nat → Prop) (t : Array Nat) (r : Bits)
    (hf : Fwd lb t) (ha : All P t) (hs : 1 ≤ t.size) (hr : r.WF) :
    Safe (readFromTree lb t r) (fun o => o.2.WF ∧ ∀ v, o.1 = some v → P (v + lb)) := by
  unfold readFromTree
  have hget : t[0]? = some t[0] := Array.getElem?_eq_getElem (by omega)
  simp only [hget]
  apply walkFrom_safe lb P t hf ha _ _ r hr
  · intro hlt; exact (hf _ _ hget hlt).2
  · exact ha _ _ hget

/-- The statement asked for, `∀ r : Bits, … ≠ fault`, is false for readers whose
`buf` does not fit 32 bits (impossible in C: `uint32_t bit_buffer`; a model
artefact, see `readFromTree_unbounded_buf_faults` below).  This is the closest true
statement: for every reader with `buf < 2^32`. -/
theorem readFromTree_no_fault_partial (lb : Nat) (t : Array Nat) (r : Bits)
    (hf : Fwd lb t) (hs : 1 ≤ t.size) (hr : r.WF) : ∀ w, readFromTree lb t r ≠ .fault w :=
  (readFromTree_safe lb (fun _ => True) t r hf (fun _ _ _ => trivial) hs hr).1

/-- counterexample to the unrestricted statement: `buf = 2^33` is not a `uint32_t` -/
theorem readFromTree_unbounded_buf_faults :
    Fwd 4 #[2, 4, 4, 4] ∧
    readFromTree 4 #[2, 4, 4, 4] { src := { data := #[] }, buf := 8589934592, bits := 1 }
      = .fault "read_from_tree: tree[code + bit]" := by
  refine ⟨?_, ?_⟩
  · intro i e hie hlt
    have hsz : (#[2, 4, 4, 4] : Array Nat).size = 4 := rfl
    rw [hsz]
    match i, hie with
    | 0, hie => simp at hie; subst hie; omega
    | 1, hie => simp at hie; omega
    | 2, hie => simp at hie; omega
    | 3, hie => simp at hie; omega
    | n+4, hie => simp at hie
  · simp [readFromTree, walkFrom, Bits.readBit, Bits.readBits, Bits.peek, Bits.fill]

end LhasaV.Tree
