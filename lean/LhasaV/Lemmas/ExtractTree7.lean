import LhasaV.Lemmas.ExtractTree6
/-!
# C06 (part 7): abstract archives

`Entry`: a directory, a regular file or a symbolic link at a path given by its components.
`HdrOf e h`: the header `h` denotes the entry `e` (stored path "a/b/", file name, method,
permission flag, time stamp).  `WellFormed es`: directory-first, contiguous order — the parent
of every entry is the extraction directory itself or an earlier directory entry whose subtree is
still open — with unique, clean names and safe link targets.
-/
namespace LhasaV.ExtractTree
open LhasaV LhasaV.Header LhasaV.Extract LhasaV.GlobFs LhasaV.Contain

inductive Entry where
  | dir (path : Fs.Path) (perms : Option Nat) (mtime : Nat)
  | file (path : Fs.Path) (data : Bytes) (perms : Option Nat) (mtime : Nat)
  | link (path : Fs.Path) (target : Bytes)
deriving Repr, DecidableEq

/-- mode of a regular file: the recorded permission bits, else 0600 under the umask -/
def fileMode (umask : Nat) : Option Nat → Nat
  | some p => p % 4096
  | none => 0o600 - (0o600 &&& umask)

/-- final mode of a directory: the recorded permission bits, else 0777 under the umask -/
def dirMode (umask : Nat) : Option Nat → Nat
  | some p => p % 4096
  | none => 0o777 - (0o777 &&& umask)

/-- provisional mode of a directory while its subtree is extracted: private when permissions
are recorded -/
def openMode (umask : Nat) : Option Nat → Nat
  | some _ => 0o700 - (0o700 &&& umask)
  | none => 0o777 - (0o777 &&& umask)

namespace Entry

def path : Entry → Fs.Path
  | .dir p _ _ => p
  | .file p _ _ _ => p
  | .link p _ => p

def isDir : Entry → Bool
  | .dir _ _ _ => true
  | _ => false

/-- the components of the stored path field: the directory itself for a directory entry, the
parent directory for a file or a link -/
def dirPart (e : Entry) : Fs.Path := if e.isDir then e.path else e.path.dropLast

/-- the stored file name: none for a directory entry -/
def namePart (e : Entry) : Bytes := if e.isDir then [] else e.path.getLast?.getD []

/-- what extraction leaves at the entry's path at the end -/
def final (now umask : Nat) : Entry → Fs.Ent
  | .dir _ perms mtime =>
    .dir (dirMode umask perms) (if mtime ≠ 0 then mtime else now)
  | .file _ data perms mtime =>
    .file data (fileMode umask perms) (if mtime ≠ 0 then mtime else now)
  | .link _ t => .link t

/-- what is at the entry's path while its subtree is being extracted: a directory is private
(0700, or 0777 when no permissions are recorded, under the umask) and carries the time `now` -/
def opened (now umask : Nat) : Entry → Fs.Ent
  | .dir _ perms _ => .dir (openMode umask perms) now
  | e => e.final now umask

end Entry

/-- clean names, bounded depth (the model's `resolve` walks at most 63 components), safe target -/
structure EntryOk (e : Entry) : Prop where
  ne : e.path ≠ []
  names : ∀ c ∈ e.path, Name c
  depth : e.path.length < 64
  safe : ∀ p t, e = .link p t → SafeTarget t

/-- the recorded permissions of a header, if any -/
def permsOf (h : Hdr) : Option Nat := if hasFlag h Gen.flagUnixPerms then some h.unixPerms else none

/-- the header `h` denotes the entry `e` -/
def HdrOf (e : Entry) (h : Hdr) : Prop :=
  h.path.getD [] = joinDir e.dirPart ∧ h.filename.getD [] = e.namePart ∧
  match e with
  | .dir _ perms mtime =>
    h.method = lhd ∧ h.symlinkTarget = none ∧ permsOf h = perms ∧ h.timestamp = mtime
  | .file _ _ perms mtime =>
    h.method ≠ lhd ∧ h.symlinkTarget = none ∧ permsOf h = perms ∧ h.timestamp = mtime
  | .link _ target => h.method = lhd ∧ h.symlinkTarget = some target

/-! ## the constructed path of an entry -/

theorem strip_rel (x : Bytes) (h : x.head? ≠ some 0x2f) : stripSlashes x = x := by
  cases x with
  | nil => rfl
  | cons b bs =>
    have : (b == 0x2f) = false := by simpa using h
    simp [stripSlashes, this]

theorem dirPart_names {e : Entry} (hk : EntryOk e) : ∀ c ∈ e.dirPart, Name c := by
  intro c hc
  unfold Entry.dirPart at hc
  split at hc
  · exact hk.names c hc
  · exact hk.names c (List.dropLast_subset _ hc)

theorem path_split {e : Entry} (hk : EntryOk e) (hd : e.isDir = false) :
    e.path = e.dirPart ++ [e.namePart] := by
  unfold Entry.dirPart Entry.namePart
  simp only [hd, Bool.false_eq_true, if_false]
  rw [List.getLast?_eq_some_getLast hk.ne]
  exact (List.dropLast_concat_getLast hk.ne).symm

theorem namePart_name {e : Entry} (hk : EntryOk e) (hd : e.isDir = false) : Name e.namePart := by
  apply hk.names
  rw [path_split hk hd]
  simp

/-- the string `file_full_path` builds for an entry: "a/b/" for a directory, "a/b/c" otherwise -/
def fullOf (e : Entry) : Bytes := if e.isDir then joinDir e.path else joinPath e.path

theorem fullPath_of {e : Entry} {h : Hdr} (hh : HdrOf e h) (hk : EntryOk e) (o : Opts)
    (hx : o.extractPath = none) (hu : o.usePath = true) : fileFullPath h o = fullOf e := by
  unfold fileFullPath
  rw [hx, hu, hh.1, hh.2.1]
  simp only [List.nil_append, if_true]
  rw [strip_rel _ (joinDir_rel _ (dirPart_names hk))]
  unfold fullOf
  cases hd : e.isDir with
  | true =>
    simp only [Entry.namePart, Entry.dirPart, hd, if_true]
    simp [stripSlashes]
  | false =>
    rw [strip_rel _ (name_head _ (namePart_name hk hd)), joinDir_name, ← path_split hk hd]
    simp

/-- what the path lemmas need to know about the constructed string -/
structure PathFacts (fn : Bytes) (cs : List Bytes) : Prop where
  rel : fn.head? ≠ some 0x2f
  comps : comps fn = cs
  split : Fs.splitPath (trim fn) = cs
  trel : (trim fn).head? ≠ some 0x2f

theorem pathFacts_of {e : Entry} (hk : EntryOk e) : PathFacts (fullOf e) e.path := by
  have hns : ∀ c ∈ e.path, NoSlash c := fun c hc => (hk.names c hc).1
  unfold fullOf
  cases e.isDir with
  | true =>
    simp only [if_true]
    refine ⟨joinDir_rel _ hk.names, comps_joinDir _ hk.names hk.ne, ?_, ?_⟩
    · rw [trim_joinDir _ hk.names hk.ne, split_joinPath _ hns hk.ne]
    · rw [trim_joinDir _ hk.names hk.ne]; exact joinPath_rel _ hk.names
  | false =>
    simp only [Bool.false_eq_true, if_false]
    refine ⟨joinPath_rel _ hk.names, comps_joinPath _ hk.names hk.ne, ?_, ?_⟩
    · rw [trim_joinPath _ hk.names hk.ne, split_joinPath _ hns hk.ne]
    · rw [trim_joinPath _ hk.names hk.ne]; exact joinPath_rel _ hk.names

theorem names_good {cs : List Bytes} (h : ∀ c ∈ cs, Name c) : ∀ c ∈ cs, Good c :=
  fun c hc => (h c hc).2

/-! ## "lexically inside" at the byte level and on components -/

theorem joinDir_eq_nil (cs : List Bytes) (h : joinDir cs = []) : cs = [] := by
  cases cs with
  | nil => rfl
  | cons c cs => simp [joinDir] at h

/-- the byte-level test of `end_of_top_dir` on two headers that denote entries is the prefix test
on components: the directory `d` does not contain the stored directory part of `e` -/
theorem outside_iff {e d : Entry} {inp top : Reader.HObj} (he : HdrOf e inp.h) (hd : HdrOf d top.h)
    (hke : EntryOk e) (hkd : EntryOk d) (hdd : d.isDir = true) :
    Outside inp top ↔ ¬ d.path <+: e.dirPart := by
  have htop : top.h.path.getD [] = joinDir d.path := by
    have := hd.1
    simpa [Entry.dirPart, hdd] using this
  have hnd : ∀ c ∈ d.path, NoSlash c := fun c hc => (hkd.names c hc).1
  have hne : ∀ c ∈ e.dirPart, NoSlash c := fun c hc => (dirPart_names hke c hc).1
  unfold Outside
  cases hp : inp.h.path with
  | none =>
    have h1 := he.1
    rw [hp] at h1
    have : e.dirPart = [] := joinDir_eq_nil _ h1.symm
    rw [this]
    simp only [true_iff]
    intro hpre
    exact hkd.ne (List.prefix_nil.1 hpre)
  | some p =>
    have h1 := he.1
    rw [hp] at h1
    simp only [Option.getD_some] at h1
    simp only
    rw [htop, h1, joinDir_prefix _ _ hnd hne]

/-! ## the stack of open directories -/

/-- pop every open directory that does not contain `d` -/
def popStk (stk : List Fs.Path) (d : Fs.Path) : List Fs.Path :=
  stk.dropWhile (fun t => !decide (t <+: d))

theorem popStk_out (t : Fs.Path) (stk : List Fs.Path) (d : Fs.Path) (h : ¬ t <+: d) :
    popStk (t :: stk) d = popStk stk d := by
  simp [popStk, h]

theorem popStk_in (t : Fs.Path) (stk : List Fs.Path) (d : Fs.Path) (h : t <+: d) :
    popStk (t :: stk) d = t :: stk := by
  simp [popStk, h]

theorem popStk_nil (d : Fs.Path) : popStk [] d = [] := rfl

/-- directory-first contiguous order, relative to the open directories `stk` (innermost first)
and the paths seen so far -/
def WF : List Fs.Path → List Fs.Path → List Entry → Prop
  | _, _, [] => True
  | stk, seen, e :: es =>
    EntryOk e ∧ e.path ∉ seen ∧
    (popStk stk e.dirPart).head?.getD [] = e.path.dropLast ∧
    WF (if e.isDir then e.path :: popStk stk e.dirPart else popStk stk e.dirPart) (seen ++ [e.path]) es

/-- **well-formed archive**: every entry's parent directory is the extraction directory or an
earlier directory entry whose subtree is still open; names are unique, relative and clean;
link targets are safe -/
def WellFormed (es : List Entry) : Prop := WF [] [] es

theorem WF_pop (t : Fs.Path) (stk seen : List Fs.Path) (e : Entry) (es : List Entry)
    (h : ¬ t <+: e.dirPart) : WF (t :: stk) seen (e :: es) ↔ WF stk seen (e :: es) := by
  simp only [WF, popStk_out t stk _ h]

/-- each open directory is the parent of the one above it; the outermost is at the top level -/
def Chain : List Fs.Path → Prop
  | [] => True
  | p :: rest => p ≠ [] ∧ p.dropLast = rest.head?.getD [] ∧ Chain rest

theorem prefix_dropLast {α} (pre p : List α) (h : pre <+: p) (hne : pre ≠ p) : pre <+: p.dropLast := by
  obtain ⟨r, rfl⟩ := h
  have hr : r ≠ [] := by
    intro e; subst e; simp at hne
  rw [List.dropLast_append_of_ne_nil hr]
  exact List.prefix_append _ _

theorem Chain.prefix_mem : ∀ (stk : List Fs.Path), Chain stk → ∀ pre, pre ≠ [] →
    pre <+: stk.head?.getD [] → pre ∈ stk := by
  intro stk
  induction stk with
  | nil =>
    intro _ pre hne hp
    exact absurd (List.prefix_nil.1 hp) hne
  | cons p rest ih =>
    intro hc pre hne hp
    simp only [List.head?_cons, Option.getD_some] at hp
    by_cases hpp : pre = p
    · subst hpp; simp
    · have := prefix_dropLast pre p hp hpp
      rw [hc.2.1] at this
      exact List.mem_cons_of_mem _ (ih hc.2.2 pre hne this)

theorem Chain.dropWhile (f : Fs.Path → Bool) : ∀ (stk : List Fs.Path), Chain stk → Chain (stk.dropWhile f) := by
  intro stk
  induction stk with
  | nil => intro h; exact h
  | cons p rest ih =>
    intro h
    rw [List.dropWhile_cons]
    split
    · exact ih h.2.2
    · exact h

theorem Chain.tail {p : Fs.Path} {rest : List Fs.Path} (h : Chain (p :: rest)) : Chain rest := h.2.2

end LhasaV.ExtractTree
