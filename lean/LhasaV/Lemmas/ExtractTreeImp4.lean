import LhasaV.Lemmas.ExtractTreeImp3
/-!
# C06 with implicit parents (part 4): the two steps of the loop

`LoopInvI fs₀ done stk rest s`: `LoopInv` (ExtractTree10) over `FsInvI` / `DoneI` / `WFI`.

* `step_new_i`: the reader presents the next entry; the overwrite check finds nothing at its path
  (also when directories above it are still missing), `make_parent_directories` creates the
  missing directories, the entry is created.
* `step_late_i`: a directory entry whose directory exists already is ignored.
* `step_close_i`: the reader re-presents the innermost open directory entry; its metadata step
  gives it its final form.
-/
namespace LhasaV.ExtractTree
open LhasaV LhasaV.Header LhasaV.Extract LhasaV.GlobFs LhasaV.Contain

/-- the part of the loop invariant that does not concern the reader -/
structure CoreInvI (fs0 : Fs.St) (done stk rest : List Entry) (s : Extract.St) : Prop where
  aborted : s.aborted = false
  result : s.result = true
  opts : OptsOk s.opts
  fs : FsInvI fs0 done (stk.map Entry.path) s.fs
  ok : DoneI done stk
  wf : WFI (stk.map Entry.path) (done.map Entry.path) rest

structure LoopInvI (fs0 : Fs.St) (done stk rest : List Entry) (s : Extract.St) : Prop where
  core : CoreInvI fs0 done stk rest s
  rd : RdInv s.rd stk rest

theorem CoreInvI.with_rd {fs0 : Fs.St} {done stk rest : List Entry} {s : Extract.St}
    (h : CoreInvI fs0 done stk rest s) (rd : Reader.St) : CoreInvI fs0 done stk rest { s with rd := rd } :=
  ⟨h.aborted, h.result, h.opts, h.fs, h.ok, h.wf⟩

/-- the overwrite check at a new path: nothing there, whether or not its directories exist -/
theorem existsKind_new {fs0 fs fsY : Fs.St} {e : Entry} {k : Nat} (hp : SameParams fs0 fs)
    (hk : EntryOk e) (hpm : ParentsMade fs0 fs fsY e.path.dropLast k)
    (hnone : Fs.lookup fs (fs0.cwd ++ e.path) = none) : Fs.existsKind fs (fullOf e) = .none := by
  have pf := pathFacts_of hk
  cases hdk : e.path.dropLast.drop k with
  | nil =>
    have htk : e.path.dropLast.take k = e.path.dropLast := by
      have := List.take_append_drop k e.path.dropLast
      rw [hdk, List.append_nil] at this; exact this
    have hw : Walk fs fs.cwd e.path := by
      intro pre hp1 hne1
      have := prefix_dropLast pre _ hp1 hne1
      exact (hpm.usable pre (by rw [htk]; exact this)).search hp
    have hT : Target fs (fullOf e) e.path :=
      ⟨pf.rel, pf.comps, hk.ne, names_good hk.names, hk.depth, hw⟩
    exact existsKind_none hT (by rw [hp.cwd]; exact hnone)
  | cons x r =>
    have hsplit := List.take_append_drop k e.path.dropLast
    have hcs : e.path = e.path.dropLast.take k ++ x :: (r ++ [e.path.getLast hk.ne]) := by
      conv => lhs; rw [← List.dropLast_concat_getLast hk.ne, ← hsplit, hdk]
      simp
    refine existsKind_missing fs _ (e.path.dropLast.take k) x (r ++ [e.path.getLast hk.ne]) pf.rel
      (by rw [pf.comps]; exact hcs) (by rw [← hcs]; exact names_good hk.names)
      (by rw [← hcs]; exact hk.depth) (fun pre hpre => (hpm.usable pre hpre).search hp) ?_
    have := hpm.missing [x] (by simp) (by rw [hdk]; simp)
    rw [hp.cwd, List.append_assoc]; exact this

theorem step_new_i {fs0 : Fs.St} {done stk rest : List Entry} {e : Entry} (s : Extract.St)
    (c : Reader.HObj) (hi : CoreInvI fs0 done stk (e :: rest) s) (ha : AccessW fs0)
    (hpol : s.rd.policy = .endOfDir) (hdef : s.rd.deferred = [])
    (hstack : StackRel s.rd.dirStack stk)
    (hty : s.rd.currType = .normal) (hcur : s.rd.curr = some c) (hh : HdrOf e c.h)
    (hin : ∀ d tl, stk = d :: tl → d.path <+: e.dirPart)
    (hnl : lateDir (done.map Entry.path) e = false)
    (hdec : ∀ p data perms mtime, e = .file p data perms mtime →
      (Reader.openDecoder s.rd).1 = true ∧ (Reader.extract s.rd true).1 = (true, data)) :
    LoopInvI fs0 (done ++ [e]) (if e.isDir then e :: stk else stk) rest
      (extractArchivedFile s c.h) := by
  have hpop : popStk (stk.map Entry.path) e.dirPart = stk.map Entry.path := by
    cases stk with
    | nil => rfl
    | cons d tl => exact popStk_in _ _ _ (hin d tl rfl)
  have hwf := hi.wf
  simp only [WFI, hpop, hnl, Bool.false_eq_true, if_false] at hwf
  obtain ⟨hk, hopenP, hfreshP, hwf'⟩ := hwf
  have hfresh : ∀ a ∈ done, ¬ e.path <+: a.path :=
    fun a had => hfreshP _ (List.mem_map.2 ⟨a, had, rfl⟩)
  have hopen : ∀ a ∈ done, a.path <+: e.path → a.path ∈ stk.map Entry.path :=
    fun a had h => hopenP _ (List.mem_map.2 ⟨a, had, rfl⟩) h
  have hfn : fileFullPath c.h s.opts = fullOf e := fullPath_of hh hk s.opts hi.opts.xp hi.opts.up
  have pf := pathFacts_of hk
  have hp := hi.fs.params
  obtain ⟨fsY, k, hpm⟩ := parents_made hi.fs hi.ok ha e.path hk.ne hk.names hk.depth
    (fun a had h _ => hopen a had h)
  obtain ⟨u1, _, _, u4⟩ := after_parents hp ha hpm
  have hpY : SameParams fs0 fsY := hp.trans hpm.made.params
  -- the parents step
  have hparents : parentsOf s (fileFullPath c.h s.opts) = (true, fsY) := by
    have : parentsOf s (fileFullPath c.h s.opts) =
        makeParentDirectories s.fs (fileFullPath c.h s.opts) := by
      unfold parentsOf; simp [hty]
    rw [this, hfn, makeParents_mkDirs s.fs _ e.path (trim_fullOf hk) hk.names hk.ne]
    exact hpm.run
  -- the overwrite check
  have hnone0 : Fs.lookup s.fs (fs0.cwd ++ e.path) = none := hi.fs.none e.path hk.ne hfresh
  have hex : Fs.existsKind s.fs (fileFullPath c.h s.opts) = .none := by
    rw [hfn]; exact existsKind_new hp hk hpm hnone0
  -- the place of the entry once its directories exist
  have hw : Walk fsY fsY.cwd e.path := by
    intro pre hp1 hne1
    exact (u1 pre (prefix_dropLast pre _ hp1 hne1)).search hpY
  have hT : Target fsY (fullOf e) e.path :=
    ⟨pf.rel, pf.comps, hk.ne, names_good hk.names, hk.depth, hw⟩
  have hnone : Fs.lookup fsY (fsY.cwd ++ e.path) = none := by
    rw [hpY.cwd, u4 _ (fun q hq heq => by
      have h1 := congrArg List.length (List.append_cancel_left heq)
      have h2 := hq.length_le
      rw [List.length_dropLast] at h2
      have : 0 < e.path.length := List.length_pos_iff.2 hk.ne
      omega)]
    exact hnone0
  have hmod : Fs.canModify fsY (fsY.cwd ++ e.path).dropLast = true := by
    rw [List.dropLast_append_of_ne_nil hk.ne]
    exact (u1 _ (List.prefix_refl _)).modify hpY
  have hrun := eaf_run_g s c.h fsY hi.opts.up (Or.inr hex) hparents
  rw [hfn] at hrun
  obtain ⟨r1, rk, rstack, rc⟩ := entry_created_at s.rd fsY (fullOf e) c e e.path
    hty hcur hpol hh hk hT hnone hmod hdec
  rw [hpY.cwd, hpY.now, hpY.umask] at rc
  rw [hrun]
  have hns : e.path ∉ stk.map Entry.path := by
    intro h
    obtain ⟨d, hds, hdp⟩ := List.mem_map.1 h
    exact hfresh d (hi.ok.sub d hds).1 (hdp ▸ List.prefix_refl _)
  refine ⟨⟨hi.aborted, ?_, hi.opts, ?_, doneI_push hi.ok hk hfresh hopen, ?_⟩, ?_⟩
  rotate_left 3
  · show RdInv (readerExtract s.rd fsY _).2.1 _ rest
    refine ⟨rk.policy.trans hpol, rk.deferred.trans hdef, ?_,
      Or.inr (Or.inl (rk.currType.trans hty)), ?_⟩
    · rw [rstack]
      cases e.isDir with
      | true => exact ⟨hh, hstack⟩
      | false => exact hstack
    · intro h
      rw [rk.currType, hty] at h
      cases h
  · show (s.result && _) = true
    rw [hi.result, r1]; rfl
  · show FsInvI fs0 (done ++ [e]) _ (readerExtract s.rd fsY _).2.2
    rw [map_push]
    apply hi.fs.step ha hk.ne (fun a had => (hi.ok.ok a had).ne) hfresh hpm
    · cases hdir : e.isDir with
      | true => simp only [if_true, List.mem_cons, true_or]; exact rc
      | false =>
        simp only [Bool.false_eq_true, if_false, hns]
        rw [← opened_eq_final e hdir]; exact rc
    · intro p hp'
      cases e.isDir with
      | true => simp [hp']
      | false => simp
  · show WFI _ ((done ++ [e]).map Entry.path) rest
    rw [map_push, List.map_append, List.map_singleton]
    exact hwf'

/-- **a late directory entry is ignored**: the directory exists (made implicitly for an earlier
member, or still open), `lha_reader_extract` reports success without touching anything and does
not push the entry: its recorded permissions and time are never applied -/
theorem step_late_i {fs0 : Fs.St} {done stk rest : List Entry} {e : Entry} (s : Extract.St)
    (c : Reader.HObj) (hi : CoreInvI fs0 done stk (e :: rest) s) (ha : AccessW fs0)
    (hpol : s.rd.policy = .endOfDir) (hdef : s.rd.deferred = [])
    (hstack : StackRel s.rd.dirStack stk)
    (hty : s.rd.currType = .normal) (hcur : s.rd.curr = some c) (hh : HdrOf e c.h)
    (hin : ∀ d tl, stk = d :: tl → d.path <+: e.dirPart)
    (hlate : lateDir (done.map Entry.path) e = true) :
    LoopInvI fs0 done stk rest (extractArchivedFile s c.h) := by
  have hpop : popStk (stk.map Entry.path) e.dirPart = stk.map Entry.path := by
    cases stk with
    | nil => rfl
    | cons d tl => exact popStk_in _ _ _ (hin d tl rfl)
  have hwf := hi.wf
  simp only [WFI, hpop, hlate, if_true] at hwf
  obtain ⟨hk, hopenP, hwf'⟩ := hwf
  have hl2 : e.isDir = true ∧ ∃ a ∈ done, e.path <+: a.path := by
    unfold lateDir at hlate
    simp only [Bool.and_eq_true, List.any_eq_true, decide_eq_true_eq] at hlate
    obtain ⟨h1, p, hp, hpp⟩ := hlate
    obtain ⟨a, had, rfl⟩ := List.mem_map.1 hp
    exact ⟨h1, a, had, hpp⟩
  obtain ⟨hdir, a0, had0, hpa0⟩ := hl2
  have hopen : ∀ a ∈ done, a.path <+: e.path → a.path ∈ stk.map Entry.path :=
    fun a had h => hopenP _ (List.mem_map.2 ⟨a, had, rfl⟩) h
  have hfn : fileFullPath c.h s.opts = fullOf e := fullPath_of hh hk s.opts hi.opts.xp hi.opts.up
  have pf := pathFacts_of hk
  have hp := hi.fs.params
  have hw : Walk s.fs s.fs.cwd e.path := by
    intro pre hp1 hne1
    exact (usable_of_inv hi.fs hi.ok ha e.path (fun a had h _ => hopen a had h) pre hp1 hne1
      (Or.inr ⟨a0, had0, hp1.trans hpa0⟩)).search hp
  have hT : Target s.fs (fullOf e) e.path :=
    ⟨pf.rel, pf.comps, hk.ne, names_good hk.names, hk.depth, hw⟩
  have hl : ∃ m t, Fs.lookup s.fs (s.fs.cwd ++ e.path) = some (.dir m t) := by
    rw [hp.cwd]
    by_cases hent : ∃ a ∈ done, a.path = e.path
    · obtain ⟨a, had, hap⟩ := hent
      have hm := hopen a had (hap ▸ List.prefix_refl _)
      obtain ⟨d, hds, hdp⟩ := List.mem_map.1 hm
      obtain ⟨hdd, hddir⟩ := hi.ok.sub d hds
      have : a = d := eq_of_path_eq done hi.ok.nodup a had d hdd hdp.symm
      subst this
      have hl := hi.fs.ents a had
      rw [if_pos hm] at hl
      obtain ⟨b, _, ho⟩ := opened_dir a hddir fs0.now fs0.umask
      rw [ho, hap] at hl
      exact ⟨_, _, hl⟩
    · exact ⟨_, _, hi.fs.imp e.path hk.ne ⟨a0, had0, hpa0⟩ (fun a had h => hent ⟨a, had, h⟩)⟩
  obtain ⟨m, t, hl⟩ := hl
  have hparents : parentsOf s (fileFullPath c.h s.opts) = (true, s.fs) := by
    have : parentsOf s (fileFullPath c.h s.opts) =
        makeParentDirectories s.fs (fileFullPath c.h s.opts) := by
      unfold parentsOf; simp [hty]
    rw [this, hfn]
    exact makeParents_noop s.fs _ e.path pf.split pf.trel (names_good hk.names) hk.depth hw
  have hrun := eaf_run s c.h hi.opts.up (Or.inl (isDirEntry_of hh hdir)) hparents
  rw [hfn] at hrun
  cases e with
  | file _ _ _ _ => cases hdir
  | link _ _ => cases hdir
  | dir p perms mtime =>
  obtain ⟨_, _, hm, hs, _, _⟩ := hh
  have hE := extract_dir_existing s.rd s.fs (fullOf (.dir p perms mtime)) p c hty hcur hm hs hT m t hl
  rw [hE] at hrun
  rw [hrun]
  refine ⟨⟨hi.aborted, ?_, hi.opts, hi.fs, hi.ok, hwf'⟩,
    ⟨hpol, hdef, hstack, Or.inr (Or.inl hty), fun h => ?_⟩⟩
  · show (s.result && true) = true
    rw [hi.result]; rfl
  · have h' : s.rd.currType = .fakeDir := h
    rw [hty] at h'; cases h'

theorem step_close_i {fs0 : Fs.St} {done stk rest : List Entry} {d : Entry} (s : Extract.St)
    (top : Reader.HObj)
    (hi : CoreInvI fs0 done (d :: stk) rest s) (ha : AccessW fs0)
    (hpol : s.rd.policy = .endOfDir) (hdef : s.rd.deferred = [])
    (hty : s.rd.currType = .fakeDir) (hcur : s.rd.curr = some top)
    (hh : HdrOf d top.h) (hstack : StackRel s.rd.dirStack stk)
    (hpend : Pending s.rd.basic.curr rest)
    (hout : ∀ e tl, rest = e :: tl → ¬ d.path <+: e.dirPart) :
    LoopInvI fs0 done stk rest (extractArchivedFile s top.h) := by
  obtain ⟨hdd, hdir⟩ := hi.ok.sub d (by simp)
  have hk : EntryOk d := hi.ok.ok d hdd
  have hfn : fileFullPath top.h s.opts = fullOf d := fullPath_of hh hk s.opts hi.opts.xp hi.opts.up
  have pf := pathFacts_of hk
  have hp := hi.fs.params
  -- the directories above `d`: open directory entries or implicit directories
  have hw : Walk s.fs s.fs.cwd d.path := by
    intro pre hp1 hne1
    exact (usable_of_inv hi.fs hi.ok ha d.path (fun a had h _ => hi.ok.anc d (by simp) a had h)
      pre hp1 hne1 (Or.inr ⟨d, hdd, hp1⟩)).search hp
  have hcwd : s.fs.cwd = fs0.cwd := hp.cwd
  have hT : Target s.fs (fullOf d) d.path :=
    ⟨pf.rel, pf.comps, hk.ne, names_good hk.names, hk.depth, hw⟩
  have hl := hi.fs.ents d hdd
  rw [if_pos (by simp)] at hl
  cases d with
  | file _ _ _ _ => cases hdir
  | link _ _ => cases hdir
  | dir p perms mtime =>
  obtain ⟨hh1, hh2, hm, hs, hpm, htm⟩ := hh
  have hl' : Fs.lookup s.fs (s.fs.cwd ++ p) = some (.dir (openMode fs0.umask perms) fs0.now) := by
    rw [hcwd]; exact hl
  obtain ⟨e1, e2, e3⟩ := extract_fake_effect s.rd s.fs (fullOf (.dir p perms mtime)) p top hty hcur hT _ _ hl'
  rw [final_dir_mode top.h perms fs0.umask hpm, htm, hcwd] at e3
  have hrun := eaf_run s top.h hi.opts.up
    (Or.inl (isDirEntry_of (e := .dir p perms mtime) ⟨hh1, hh2, hm, hs, hpm, htm⟩ rfl))
    (by unfold parentsOf; simp [hty])
  rw [hfn] at hrun
  rw [hrun]
  have hts : p ∉ stk.map Entry.path := by
    have := doneI_snodup hi.ok
    simp only [List.map_cons, List.nodup_cons] at this
    exact this.1
  refine ⟨⟨hi.aborted, ?_, hi.opts, ?_, doneI_pop hi.ok, ?_⟩, ?_⟩
  rotate_left 3
  · show RdInv (readerExtract s.rd s.fs _).2.1 stk rest
    rw [e2]
    exact ⟨hpol, hdef, hstack, Or.inr (Or.inr hty), fun _ => hpend⟩
  · show (s.result && _) = true
    rw [hi.result, e1]; rfl
  · show FsInvI fs0 done (stk.map Entry.path) (readerExtract s.rd s.fs _).2.2
    exact hi.fs.close hdd rfl hk.ne hts
      (fun e' he' hp' => eq_of_path_eq done hi.ok.nodup e' he' _ hdd hp') e3
  · have hwf := hi.wf
    cases rest with
    | nil => trivial
    | cons e tl =>
      simp only [List.map_cons] at hwf
      exact (WFI_pop p _ _ e tl (hout e tl rfl)).1 hwf

end LhasaV.ExtractTree
