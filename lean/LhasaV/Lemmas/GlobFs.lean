import LhasaV.Lemmas.GlobFs1
import LhasaV.Lemmas.GlobFs2
import LhasaV.Lemmas.GlobFs3
import LhasaV.Lemmas.GlobFs4
/-!
# Wildcards, lexical containment of constructed paths, the deferred-symlink guard

* `GlobFs1` (A): `glob_iff : matchGlob g s = GlobSpec g s` for all patterns and strings; the
  specification is compositional (`spec_append_iff`, `spec_star_iff`, `spec_quest_iff`,
  `spec_lit_iff`); `select_spec`, `glob_literal`, `glob_star_all`, `glob_trailing_star_iff`,
  `glob_trailing_stars`, `spec_star_star`, `glob_append_stars`.
* `GlobFs2` (B): `Fs.splitPath` (`split_append`, `split_noslash`, `path_ind`); the C11 invariant
  in list form (`clean_dirs`); `full_path_dirs_good`, `full_path_no_dotdot`, `full_path_last`,
  `full_path_contained`, `full_path_flat_single`; `dotdot_name_possible`.
* `GlobFs3` (C): `resolve_core` (the walk under a guard), `prefix_cut` (every directory prefix is
  tested by the C loop), `guard_resolve`, `guard_below_cwd`.
* `GlobFs4` (C, corollary): `archSymlink_log`, `archSymlink_below_cwd`, `deferred_contained`,
  `deferred_refused`.

This file: the end-to-end statement for a header that satisfies the C11 invariant, and
non-vacuity examples on concrete file systems.
-/
namespace LhasaV.GlobFs
open LhasaV LhasaV.Header LhasaV.Extract

/-- **C10, deferred links, end to end on the model.**  A deferred entry whose name was built by
`file_full_path` (no `w=`) from a header satisfying the C11 invariant, with a directory-shaped
stored path and a name other than "..": `lha_reader_extract` changes the file system only at the
lexical place of that name below the extraction directory `fs.cwd` — whatever links earlier
members planted. -/
theorem deferred_header_contained (rd : Reader.St) (fs : Fs.St) (o : Opts) (c : Reader.HObj)
    (ht : rd.currType = .deferred) (hc : rd.curr = some c)
    (hf : FnOk c.h) (hp : PathOk c.h) (hw : o.extractPath = none)
    (hdir : c.h.path.getD [] = [] ∨ ∃ d, c.h.path.getD [] = d ++ [0x2f])
    (hname : c.h.filename.getD [] ≠ [0x2e, 0x2e]) :
    ∃ new, (readerExtract rd fs (fileFullPath c.h o)).2.2.log = new ++ fs.log ∧
      ∀ m ∈ new, m.path = fs.cwd ++ comps (fileFullPath c.h o) := by
  obtain ⟨hnd, hrel⟩ := full_path_contained c.h o hf hp hw hdir hname
  exact deferred_contained rd fs _ c ht hc hrel hnd

/-! ## non-vacuity -/

section examples

/-- extraction directory `/x` with a real directory `d` -/
def fsGood : Fs.St :=
  { cwd := [[0x78]], ents := [([[0x78]], .dir 0o755 0), ([[0x78], [0x64]], .dir 0o755 0)] }

/-- the same with `d` replaced by a link to `/o` (which exists) -/
def fsBad : Fs.St :=
  { cwd := [[0x78]],
    ents := [([[0x78]], .dir 0o755 0), ([[0x6f]], .dir 0o755 0), ([[0x78], [0x64]], .link [0x2f, 0x6f])] }

/-- "d//./l" -/
def pathDL : Bytes := [0x64, 0x2f, 0x2f, 0x2e, 0x2f, 0x6c]

example : comps pathDL = [[0x64], [0x6c]] := by decide
example : NoDotDot pathDL := by unfold NoDotDot; decide
example : pathDL.head? ≠ some 0x2f := by decide

/-- the hypotheses of `guard_resolve` are satisfiable, and its conclusion is what happens -/
example : passesThroughSymlink fsGood pathDL = false ∧
    Fs.resolvePath fsGood false pathDL = some [[0x78], [0x64], [0x6c]] := by decide

/-- without the guard the conclusion fails: through the link the path leaves `/x` -/
example : passesThroughSymlink fsBad pathDL = true ∧
    Fs.resolvePath fsBad false pathDL = some [[0x6f], [0x6c]] := by decide

/-- the deferred creation on the good tree: one `symlink` at `/x/d/l` -/
example : (Fs.archSymlink fsGood pathDL [0x2f, 0x6f]).1 = true ∧
    ((Fs.archSymlink fsGood pathDL [0x2f, 0x6f]).2.log.map (·.path)) = [[[0x78], [0x64], [0x6c]]] := by
  decide

/-- the chained case (`b -> a`, `a -> /o`, name "b/l"): the guard sees the first link -/
example : passesThroughSymlink
    { cwd := [[0x78]],
      ents := [([[0x78]], .dir 0o755 0), ([[0x6f]], .dir 0o755 0),
               ([[0x78], [0x61]], .link [0x2f, 0x6f]), ([[0x78], [0x62]], .link [0x61])] }
    [0x62, 0x2f, 0x6c] = true := by decide

/-- a header "a/b/" + "c" satisfies every hypothesis of `full_path_contained` -/
def hdrABC : Hdr := { path := some [0x61,0x2f,0x62,0x2f], filename := some [0x63] }

theorem hdrABC_ok : FnOk hdrABC ∧ PathOk hdrABC := by
  constructor
  · intro f hf b hb
    have : f = [0x63] := by simpa [hdrABC] using hf.symm
    subst this
    have : b = 0x63 := by simpa using hb
    subst this; decide
  · intro p hp
    have : p = [0x61,0x2f,0x62,0x2f] := by simpa [hdrABC] using hp.symm
    subst this
    have h := PathFix.collapse_clean [0x61,0x2f,0x62,0x2f]
    have e : PathFix.collapse [0x61,0x2f,0x62,0x2f] = [0x61,0x2f,0x62,0x2f] := by decide
    rw [e] at h; exact h

example : NoDotDot (fileFullPath hdrABC {}) ∧ (fileFullPath hdrABC {}).head? ≠ some 0x2f :=
  full_path_contained hdrABC {} hdrABC_ok.1 hdrABC_ok.2 rfl
    (Or.inr ⟨[0x61,0x2f,0x62], by decide⟩) (by decide)

end examples

end LhasaV.GlobFs
