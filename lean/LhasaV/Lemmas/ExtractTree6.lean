import LhasaV.Lemmas.ExtractTree5
/-!
# C06 (part 6): what `lha_reader_next_file` presents under the policy END_OF_DIR

`next` = close the decoder, advance the basic reader (only after a stream entry), then decide:
re-present the directory on top of the stack (`fakeDir`) when the pending stream header is not
lexically inside it or the stream has ended; otherwise present the pending stream header
(`normal`); at the very end report the end.
-/
namespace LhasaV.ExtractTree
open LhasaV LhasaV.Header LhasaV.Extract LhasaV.GlobFs LhasaV.Contain
open Reader

theorem nextUnref_policy (s : Reader.St) : (nextUnref s).policy = s.policy := by
  unfold nextUnref
  split
  · split <;> rfl
  · rfl

/-- the state in which `next` takes its decision: the policy half is that of `rd`; the basic
reader's current header is unchanged when the last presentation was not a stream entry -/
theorem next_pol {rd rd' : Reader.St} {oc : Option HObj} (h : Reader.next rd = .ok (oc, rd'))
    (hne : rd.currType ≠ .eof) :
    ∃ u, rd' = nextDeferred (nextPop u) ∧ oc = rd'.curr ∧ u.policy = rd.policy ∧
      u.deferred = rd.deferred ∧ u.dirStack = rd.dirStack ∧
      (¬ (rd.currType = .start ∨ rd.currType = .normal) → u.basic.curr = rd.basic.curr) := by
  have hf := closeDecoder_frame rd
  rw [next_eq] at h
  have he : ((closeDecoder rd).currType == CurrType.eof) = false := by
    rw [hf.currType]; simpa using hne
  rw [he] at h
  simp only [Bool.false_eq_true, if_false] at h
  cases ha : nextAdv (closeDecoder rd) with
  | error e => rw [ha] at h; cases h
  | ok s1 =>
    rw [ha] at h
    simp only [bind, Except.bind, Except.ok.injEq, Prod.mk.injEq] at h
    obtain ⟨hoc, hrd⟩ := h
    refine ⟨nextUnref s1, hrd.symm, by rw [← hrd]; exact hoc.symm, ?_, ?_, ?_, ?_⟩
    all_goals
      by_cases ht : (closeDecoder rd).currType = .start ∨ (closeDecoder rd).currType = .normal
      · obtain ⟨r, _, rfl⟩ := nextAdv_stream ht ha
        first
          | (rw [nextUnref_policy]; exact hf.policy)
          | (rw [Contain.nextUnref_deferred]; exact hf.deferred)
          | (rw [Contain.nextUnref_dirStack]; exact hf.dirStack)
          | (intro hn; rw [hf.currType] at ht; exact absurd ht hn)
      · rw [nextAdv_fake ht] at ha
        cases ha
        first
          | (rw [nextUnref_policy]; exact hf.policy)
          | (rw [Contain.nextUnref_deferred]; exact hf.deferred)
          | (rw [Contain.nextUnref_dirStack]; exact hf.dirStack)
          | (intro _; rw [Contain.nextUnref_basic]; exact hf.bcurr)

/-- the pending stream header `inp` is not lexically inside the directory `top`: its stored path
does not have `top`'s stored path as a prefix (or it has no stored path at all) -/
def Outside (inp top : HObj) : Prop :=
  match inp.h.path with
  | none => True
  | some p => ¬ (top.h.path.getD []) <+: p

theorem endOfTopDir_nil (u : Reader.St) (hs : u.dirStack = []) : endOfTopDir u = false := by
  unfold endOfTopDir; rw [hs]

theorem endOfTopDir_none (u : Reader.St) (top : HObj) (rest : List HObj)
    (hs : u.dirStack = top :: rest) (hb : u.basic.curr = none) : endOfTopDir u = true := by
  unfold endOfTopDir; rw [hs, hb]

theorem endOfTopDir_some (u : Reader.St) (hpol : u.policy = .endOfDir) (top : HObj) (rest : List HObj)
    (hs : u.dirStack = top :: rest) (inp : HObj) (hb : u.basic.curr = some inp) :
    endOfTopDir u = true ↔ Outside inp top := by
  unfold endOfTopDir Outside
  rw [hs, hb, hpol]
  simp only
  cases hp : inp.h.path with
  | none => simp
  | some p => simp only; exact take_ne_iff_not_prefix p _

/-- the top directory is re-presented -/
theorem pop_fake (u : Reader.St) (top : HObj) (rest : List HObj) (hs : u.dirStack = top :: rest)
    (he : endOfTopDir u = true) :
    nextDeferred (nextPop u) = { u with curr := some top, dirStack := rest, currType := .fakeDir } := by
  unfold nextPop
  rw [he, hs]
  simp [nextDeferred]

/-- the pending stream header is presented -/
theorem pop_normal (u : Reader.St) (he : endOfTopDir u = false) (inp : HObj)
    (hb : u.basic.curr = some inp) :
    nextDeferred (nextPop u) = { u with curr := some inp, currType := .normal } := by
  unfold nextPop
  rw [he]
  simp [nextDeferred, hb]

/-- the end: stream exhausted, stack empty, no deferred links -/
theorem pop_eof (u : Reader.St) (he : endOfTopDir u = false) (hb : u.basic.curr = none)
    (hd : u.deferred = []) :
    nextDeferred (nextPop u) = { u with curr := none, currType := .eof } := by
  unfold nextPop
  rw [he]
  simp [nextDeferred, hb, hd]

end LhasaV.ExtractTree
