import LhasaV.Lemmas.LhNewSafe
import LhasaV.Lemmas.SmallSafe
import LhasaV.Lemmas.PmSafe
import LhasaV.Lemmas.Lh1Safe
import LhasaV.Model.Decoders
/-!
# C08 at tool level, part 1: what a decoder run inside the reader can do

The reader and the tool drive a decoder through `Dec.total` (`Model/Wrap.lean`): a `fault` of the
inner read is not propagated as a result, it turns the inner state into `.error w` for ever.  So a
memory error of a decoder inside `lha x` / `lha p` / `lha t` is *hidden* in the reader state.  This
file makes it visible:

* `Dec.Safe d mr`: from every state reached from `d.init src` by successful reads (any source) the
  next read is not a `fault` and returns at most `mr` bytes (the size of the output buffer that
  `lha_decoder_new` allocates: `max_read` of the compiled table) — the C09 predicates;
* `safeAll`: every decoder of `decoderFor` is `Safe` within the `max_read` `decoderInfo` gives for
  the same method name (the C09 lemmas `*.read_no_fault` / `*.read_len`, re-used, not re-proved);
* `Dec.Clean d x`: the totalised state `x` is a reached state, or the decoder's own error return —
  never the trace of a fault; `total_clean`: `Dec.total` keeps `Clean` for a `Safe` decoder;
  `total_error_sticky`: an error state is never left, so a fault during an operation is still
  there after it.
-/
namespace LhasaV
open LhasaV

/-- the C09 predicates for a decoder: from any reached state the next read is no fault and fits a
buffer of `maxRead` bytes -/
def Dec.Safe (d : Dec) (maxRead : Nat) : Prop :=
  ∀ src n s, Dec.Reach d src n s →
    (∀ w, d.read s ≠ .fault w) ∧ (∀ out s', d.read s = .ok (out, s') → out.length ≤ maxRead)

/-- `d` serves a method name of the table whose row gives it `mr` bytes of output buffer
(`max_read`), and is safe within them -/
def Dec.SafeM (d : Dec) (mr : Nat) : Prop :=
  ∃ name info, decoderFor name = some d ∧ decoderInfo name = some info ∧ info.2.1 = mr ∧ Dec.Safe d mr

/-- what `Dec.total` writes into the state when the inner read returns its own error (0 bytes,
`decoder_failed`): not a fault -/
def Dec.failMark : String := "inner read returned fail"

/-- the totalised decoder state carries no trace of a fault: it is a state reached by successful
reads from some source, or the mark of the decoder's own error return -/
def Dec.Clean (d : Dec) (x : Except String d.σ) : Prop :=
  match x with
  | .ok s => ∃ src n, Dec.Reach d src n s
  | .error w => w = Dec.failMark

theorem Dec.clean_init (d : Dec) (src : Src) : Dec.Clean d (.ok (d.init src)) := ⟨src, 0, rfl⟩

/-- a clean live state: the next inner read is no fault and fits the buffer -/
theorem Dec.clean_read_safe {d : Dec} {mr : Nat} (hd : Dec.Safe d mr) {s : d.σ} (h : Dec.Clean d (.ok s)) :
    (∀ w, d.read s ≠ .fault w) ∧ (∀ out s', d.read s = .ok (out, s') → out.length ≤ mr) := by
  obtain ⟨src, n, hr⟩ := h
  exact hd src n s hr

/-- `Dec.total` keeps `Clean` -/
theorem Dec.total_clean {d : Dec} {mr : Nat} (hd : Dec.Safe d mr) (x : Except String d.σ)
    (h : Dec.Clean d x) : Dec.Clean d (d.total x).2 := by
  unfold Dec.total
  split
  · exact h
  · rename_i s
    obtain ⟨src, n, hr⟩ := h
    split
    · rename_i o s' e
      exact ⟨src, n + 1, s, o, hr, e⟩
    · rfl
    · rename_i w e
      exact absurd e ((hd src n s hr).1 w)

/-- every call of `Dec.total` on a clean state hands out at most `mr` bytes -/
theorem Dec.total_len {d : Dec} {mr : Nat} (hd : Dec.Safe d mr) (x : Except String d.σ)
    (h : Dec.Clean d x) : (d.total x).1.length ≤ mr := by
  unfold Dec.total
  split
  · exact Nat.zero_le _
  · rename_i s
    obtain ⟨src, n, hr⟩ := h
    split
    · rename_i o s' e
      exact (hd src n s hr).2 o s' e
    · exact Nat.zero_le _
    · exact Nat.zero_le _

/-- an error (in particular: a fault) is never left -/
theorem Dec.total_error_sticky (d : Dec) (w : String) : d.total (.error w) = ([], .error w) := rfl

/-- a state that is not clean stays not clean: a fault cannot be covered up by later reads -/
theorem Dec.total_unclean (d : Dec) (x : Except String d.σ) (h : ¬ Dec.Clean d x)
    (hx : ∀ s, x ≠ .ok s) : ¬ Dec.Clean d (d.total x).2 := by
  cases x with
  | ok s => exact absurd rfl (hx s)
  | error w => exact h

/-! ## every decoder of the table -/

theorem Dec.safe_of_inv (D : Dec) (mr : Nat) (Inv : D.σ → Prop) (hinit : ∀ src, Inv (D.init src))
    (hstep : ∀ s, Inv s → ∀ out s', D.read s = .ok (out, s') → Inv s')
    (hnf : ∀ s, Inv s → ∀ w, D.read s ≠ .fault w)
    (hlen : ∀ s, Inv s → ∀ out s', D.read s = .ok (out, s') → out.length ≤ mr) : Dec.Safe D mr := by
  intro src n s hr
  have hi := Dec.reach_inv D Inv hinit hstep src n s hr
  exact ⟨hnf s hi, hlen s hi⟩

theorem Dec.Safe.mono {d : Dec} {a b : Nat} (h : Dec.Safe d a) (hab : a ≤ b) : Dec.Safe d b :=
  fun src n s hr => ⟨(h src n s hr).1, fun o s' e => Nat.le_trans ((h src n s hr).2 o s' e) hab⟩

theorem safe_null : Dec.Safe Null.dec Gen.nullMaxRead :=
  Dec.safe_of_inv Null.dec _ Null.Inv Null.init_inv (fun s h o s' hr => Null.read_inv s h o s' hr)
    Null.read_no_fault (fun s h o s' hr => Null.read_len s h o s' hr)

theorem safe_lz5 : Dec.Safe Lz5.dec Gen.lz5MaxRead :=
  Dec.safe_of_inv Lz5.dec _ Lz5.Inv Lz5.init_inv (fun s h o s' hr => Lz5.read_inv s h o s' hr)
    Lz5.read_no_fault (fun s h o s' hr => Lz5.read_len s h o s' hr)

theorem safe_lzs : Dec.Safe Lzs.dec Gen.lzsMaxRead :=
  Dec.safe_of_inv Lzs.dec _ Lzs.Inv Lzs.init_inv (fun s h o s' hr => Lzs.read_inv s h o s' hr)
    Lzs.read_no_fault (fun s h o s' hr => Lzs.read_len s h o s' hr)

theorem safe_pm1 : Dec.Safe Pm1.dec Gen.pm1MaxRead :=
  Dec.safe_of_inv Pm1.dec _ Pm1.Inv Pm1.init_inv (fun s h o s' hr => Pm1.read_inv s h o s' hr)
    Pm1.read_no_fault (fun s h o s' hr => Pm1.read_len s h o s' hr)

theorem safe_pm2 : Dec.Safe Pm2.dec Gen.pm2MaxRead :=
  Dec.safe_of_inv Pm2.dec _ Pm2.Inv Pm2.init_inv (fun s h o s' hr => Pm2.read_inv s h o s' hr)
    Pm2.read_no_fault (fun s h o s' hr => Pm2.read_len s h o s' hr)

theorem safe_lh1 : Dec.Safe Lh1.dec Gen.lh1MaxRead :=
  fun src n s hr => ⟨Lh1.run_no_fault src n s hr, fun o s' e => Lh1.read_len src n s hr o s' e⟩

theorem safe_lhnew (p : LhNew.Params) (hp : LhNew.GoodParams p) : Dec.Safe (LhNew.dec p) 514 :=
  Dec.safe_of_inv (LhNew.dec p) _ (LhNew.Inv p) (LhNew.init_inv p hp)
    (fun s h o s' hr => LhNew.read_inv p hp s h o s' hr)
    (fun s h => LhNew.read_no_fault p hp s h) (fun s h o s' hr => LhNew.read_len p hp s h o s' hr)

/-- **every decoder `lha_decoder_for_name` can return satisfies the C09 predicates within the
`max_read` of its table row** -/
theorem safeAll (name : String) (d : Dec) (info : Nat × Nat × Nat)
    (hd : decoderFor name = some d) (hi : decoderInfo name = some info) : Dec.Safe d info.2.1 := by
  unfold decoderFor at hd
  split at hd <;> first
    | (cases hd; cases (show (16, 1024, 2048) = info from Option.some.inj hi); exact safe_null)
    | (cases hd; cases (show (4120, 144, 4096) = info from Option.some.inj hi); exact safe_lz5)
    | (cases hd; cases (show (2080, 17, 2048) = info from Option.some.inj hi); exact safe_lzs)
    | (cases hd; cases (show (12608, 4096, 4096) = info from Option.some.inj hi); exact safe_lh1)
    | (cases hd; cases (show (18640, 16384, 4096) = info from Option.some.inj hi)
       exact (safe_lhnew _ LhNew.goodParams_lh5).mono (by decide))
    | (cases hd; cases (show (18640, 16384, 8192) = info from Option.some.inj hi)
       exact (safe_lhnew _ LhNew.goodParams_lh5).mono (by decide))
    | (cases hd; cases (show (67856, 65536, 32768) = info from Option.some.inj hi)
       exact (safe_lhnew _ LhNew.goodParams_lh6).mono (by decide))
    | (cases hd; cases (show (133392, 131072, 65536) = info from Option.some.inj hi)
       exact (safe_lhnew _ LhNew.goodParams_lh7).mono (by decide))
    | (cases hd; cases (show (1050896, 1048576, 524288) = info from Option.some.inj hi)
       exact (safe_lhnew _ LhNew.goodParams_lhx).mono (by decide))
    | (cases hd; cases (show (67104, 65536, 32768) = info from Option.some.inj hi)
       exact (safe_lhnew _ LhNew.goodParams_lk7).mono (by decide))
    | (cases hd; cases (show (16960, 460, 2048) = info from Option.some.inj hi); exact safe_pm1)
    | (cases hd; cases (show (8840, 256, 8192) = info from Option.some.inj hi); exact safe_pm2)
    | cases hd

/-- the decoder `open_decoder` installs for a method name -/
theorem safeM_of_lookup {name : String} {d : Dec} {info : Nat × Nat × Nat}
    (hd : decoderFor name = some d) (hi : decoderInfo name = some info) : Dec.SafeM d info.2.1 :=
  ⟨name, info, hd, hi, rfl, safeAll name d info hd hi⟩

theorem Dec.SafeM.safe {d : Dec} {mr : Nat} (h : Dec.SafeM d mr) : Dec.Safe d mr := by
  obtain ⟨_, _, _, _, _, hs⟩ := h
  exact hs

end LhasaV
