import LhasaV.Lemmas.ToolKinds3
/-!
# C16 at tool level, part 7: one run — an invariant and a measure (towards "the fuel always suffices")

`BInv`: the basic reader reported the end, or is untouched, or is past its first header with an empty
lead-in buffer.  `basicNext_inv`: `lha_basic_reader_next_file` keeps it, never un-reads (`srcLen`), and a
presented header costs at least 24 bytes.  `phi` = 2·(bytes to come) + directories to re-present +
deferred links + 3 if a member header waits behind a re-presented entry.  `Fr g s s'`: `s'` comes from `s`
by operations other than `next`, which keep the invariant and the current entry and push at most `g`
entries: `closeDecoder_fr`, `openDecoder_fr`, `read_fr`, `decodeLoop_fr`, `check_fr` (`g = 0`),
`extract_fr` (`g = 1` for a first-time entry, else 0).
-/
set_option linter.unusedSimpArgs false
namespace LhasaV.ToolKinds
open LhasaV LhasaV.Stream LhasaV.Reader LhasaV.Res
open LhasaV.Reader (Basic Ledger basicNext)

/-! ## one run: an invariant and a measure of the basic reader -/

/-- the basic reader reported the end, or is untouched, or is past its first header with an empty
lead-in buffer -/
def BInv (b : Basic) : Prop :=
  Dead b ∨ (b.stream.phase = .init ∧ b.stream.leadin = [] ∧ b.curr = none) ∨
    (b.stream.phase = .reading ∧ b.stream.leadin = [])

/-- bytes the source can still deliver -/
def srcLen (b : Basic) : Nat := (src b.stream).length

theorem srcLen_eq (b : Basic) : srcLen b = b.stream.data.size - b.stream.pos := src_length _

theorem consume_inv {b : Basic} (h : BInv b) (c : Nat × Bool) :
    BInv (consume b c) ∧ srcLen (consume b c) ≤ srcLen b ∧ (consume b c).curr = b.curr := by
  refine ⟨?_, ?_, rfl⟩
  · rcases h with hd | hi | hl
    · exact Or.inl ⟨by simp [consume, hd.1], hd.2⟩
    · exact Or.inr (Or.inl hi)
    · exact Or.inr (Or.inr hl)
  · rw [srcLen_eq, srcLen_eq]; simp only [consume]; omega

theorem skip_srcLen (s : Stream.St) (n : Nat) : (src (skip s n).2).length ≤ (src s).length := by
  rw [src_length, src_length]
  have hf := (skip_frame s n).1
  rw [hf]
  unfold skip
  cases s.kind <;> (try dsimp only) <;> (try split) <;> (try dsimp only) <;> omega

/-- what `basicNext` leaves: the invariant, no more bytes to come than before, and 24 fewer when
it presents a header -/
def NextPost (L : Nat) (b' : Basic) : Prop :=
  BInv b' ∧ srcLen b' ≤ L ∧ (b'.curr.isSome → srcLen b' + 24 ≤ L)

theorem tail_inv (mk : Nat → Nat) (b : Basic) (led : Ledger) (L : Nat)
    (hc : b.curr = none) (he : b.eof = false) (sb : Stream.St) (eb : start b.stream = .ok sb)
    (hs : (src sb).length ≤ L)
    (h : sb.phase = .fail ∨ (sb.phase = .reading ∧ sb.leadin.length ≤ 24 ∧ (rest sb).length ≤ L))
    (b' : Basic) (led' : Ledger) (e : nextTail mk b led = .ok (b', led')) : NextPost L b' := by
  unfold nextTail at e
  simp only [he, Bool.false_eq_true, if_false, eb, Res.ok_bind] at e
  have hdead : NextPost L { b with stream := sb, eof := true } :=
    ⟨Or.inl ⟨rfl, hc⟩, hs, by simp [hc]⟩
  rcases h with hf | ⟨hr, hl, hrest⟩
  · simp only [hf, phase_beq, decide_true, if_true, Res.ok.injEq, Prod.mk.injEq] at e
    rw [← e.1]; exact hdead
  · simp only [hr, phase_beq, reduceCtorEq, decide_false, Bool.false_eq_true, if_false] at e
    cases hH : Header.read mk (rest sb) with
    | fault w => rw [hH] at e; cases e
    | fail =>
      rw [hH] at e
      simp only [Res.ok.injEq, Prod.mk.injEq] at e
      rw [← e.1]; exact hdead
    | ok r =>
      obtain ⟨hh, rr⟩ := r
      rw [hH] at e
      simp only [Res.ok.injEq, Prod.mk.injEq] at e
      rw [← e.1]
      have h24 := header_read_consumes24 hH
      have hla : (rest sb).length = sb.leadin.length + (src sb).length := by
        rw [rest_eq, List.length_append]
      have hl0 : (advance sb ((rest sb).length - rr.length)).leadin = [] := advance_leadin _ _ (by omega)
      have e2 := rest_advance sb ((rest sb).length - rr.length)
      rw [rest_eq, hl0, List.nil_append] at e2
      have hlen : (src (advance sb ((rest sb).length - rr.length))).length + 24 ≤ L := by
        rw [e2, List.length_drop]; omega
      exact ⟨Or.inr (Or.inr ⟨hr, hl0⟩), Nat.le_trans (Nat.le_add_right _ 24) hlen, fun _ => hlen⟩

theorem basicNext_inv (mk : Nat → Nat) (b : Basic) (led : Ledger) (h : BInv b)
    (b' : Basic) (led' : Ledger) (e : basicNext mk b led = .ok (b', led')) : NextPost (srcLen b) b' := by
  rw [basicNext_eq] at e
  rcases h with hd | hi | hl
  · simp only [afterSkip, hd.2] at e
    rw [nextTail_eof _ _ _ hd.1] at e
    cases e
    exact ⟨Or.inl hd, Nat.le_refl _, by simp [hd.2]⟩
  · simp only [afterSkip, hi.2.2] at e
    by_cases he : b.eof = true
    · rw [nextTail_eof _ _ _ he] at e
      cases e
      exact ⟨Or.inr (Or.inl hi), Nat.le_refl _, by simp [hi.2.2]⟩
    · have hea : b.eof = false := by simpa using he
      obtain ⟨sb, eb, hdat, _, hl', hm⟩ := scan_finds_first b.stream hi.1 hi.2.1 (src b.stream)
        (extract_eq_src _).symm
      have hb := start_bounds b.stream sb (by simp [hi.2.1]) eb
      have hs : (src sb).length ≤ srcLen b := by
        rw [srcLen_eq, src_length, hdat]; omega
      refine tail_inv mk b led (srcLen b) hi.2.2 hea sb eb hs ?_ b' led' e
      cases hF : firstHeader (src b.stream) with
      | none => rw [hF] at hm; exact Or.inl hm
      | some i =>
        rw [hF] at hm
        exact Or.inr ⟨hm.1, hl', by rw [hm.2, List.length_drop]; unfold srcLen; omega⟩
  · have key : ∀ (a : Basic) (l : Ledger), a.stream.phase = .reading → a.stream.leadin = [] → a.curr = none →
        srcLen a ≤ srcLen b → nextTail mk a l = .ok (b', led') → NextPost (srcLen b) b' := by
      intro a l hp hli hc hle ea
      by_cases he : a.eof = true
      · rw [nextTail_eof _ _ _ he] at ea
        cases ea
        exact ⟨Or.inl ⟨he, hc⟩, hle, by simp [hc]⟩
      · have hea : a.eof = false := by simpa using he
        refine tail_inv mk a l (srcLen b) hc hea _ (start_reading _ hp) hle ?_ b' led' ea
        exact Or.inr ⟨hp, by simp [hli], by rw [rest_eq, hli]; exact hle⟩
    cases hc : b.curr with
    | none =>
      simp only [afterSkip, hc] at e
      exact key b led hl.1 hl.2 hc (Nat.le_refl _) e
    | some c =>
      simp only [afterSkip, hc] at e
      have hf := skip_frame b.stream b.remaining
      exact key { b with curr := none, stream := (skip b.stream b.remaining).2,
                         eof := b.eof || !(skip b.stream b.remaining).1 } _
        (by simp [hf.2.2.1, hl.1]) (by simp [hf.2.2.2, hl.2]) rfl
        (skip_srcLen b.stream b.remaining) e


/-! ## the measure of a reader, and what the operations between two `next`s do to it -/

/-- a member header is waiting in the basic reader while a re-presented entry is current -/
def pend (s : Reader.St) : Nat :=
  if (s.currType = .fakeDir ∨ s.currType = .deferred) ∧ s.basic.curr.isSome then 3 else 0

/-- twice the bytes still to come, plus the entries still to be re-presented -/
def phi (s : Reader.St) : Nat :=
  2 * srcLen s.basic + s.dirStack.length + s.deferred.length + pend s

/-- `s'` comes from `s` by operations other than `next`: invariant kept, nothing un-read, the same
entry current, at most `g` entries pushed -/
structure Fr (g : Nat) (s s' : Reader.St) : Prop where
  inv : BInv s.basic → BInv s'.basic
  ct : s'.currType = s.currType
  cur : s'.curr = s.curr
  bc : s'.basic.curr = s.basic.curr
  src : srcLen s'.basic ≤ srcLen s.basic
  stk : s'.dirStack.length + s'.deferred.length ≤ s.dirStack.length + s.deferred.length + g

theorem Fr.refl (s : Reader.St) : Fr 0 s s := ⟨id, rfl, rfl, rfl, Nat.le_refl _, Nat.le_refl _⟩

theorem Fr.trans {g g' s s' s''} (h : Fr g s s') (h' : Fr g' s' s'') : Fr (g + g') s s'' :=
  ⟨fun x => h'.inv (h.inv x), h'.ct.trans h.ct, h'.cur.trans h.cur, h'.bc.trans h.bc,
   Nat.le_trans h'.src h.src, by have := h.stk; have := h'.stk; omega⟩

theorem Fr.mono {g g' s s'} (h : Fr g s s') (hg : g ≤ g') : Fr g' s s' :=
  ⟨h.inv, h.ct, h.cur, h.bc, h.src, by have := h.stk; omega⟩

theorem Fr.phi {g s s'} (h : Fr g s s') : phi s' ≤ phi s + g := by
  have := h.src; have := h.stk
  unfold ToolKinds.phi pend
  rw [h.ct, h.bc]
  omega

theorem closeDecoder_fr (s : Reader.St) : Fr 0 s (closeDecoder s) := by
  rw [closeDecoder_eq]
  cases s.dec with
  | none => exact Fr.refl s
  | some o =>
    exact ⟨fun h => (consume_inv h _).1, rfl, rfl, rfl, by
      show srcLen (consume s.basic _) ≤ _
      rw [srcLen_eq, srcLen_eq]; simp only [consume]; omega, Nat.le_refl _⟩

theorem closeDecoder_setDec_fr (s : Reader.St) (d : Option Open) :
    Fr 0 s (closeDecoder { s with dec := d }) :=
  Fr.trans (g := 0) (g' := 0) (s' := { s with dec := d }) ⟨id, rfl, rfl, rfl, Nat.le_refl _, Nat.le_refl _⟩
    (closeDecoder_fr _)

theorem openN_fr (s : Reader.St) (c : HObj) (x : Src) : Fr 0 s (openN s c x).2 := by
  unfold openN
  split
  · dsimp only
    split
    · split
      · dsimp only
        exact closeDecoder_setDec_fr s _
      · exact ⟨id, rfl, rfl, rfl, Nat.le_refl _, Nat.le_refl _⟩
    · exact ⟨id, rfl, rfl, rfl, Nat.le_refl _, Nat.le_refl _⟩
  · exact Fr.refl s

theorem openDecoder_fr (s : Reader.St) : Fr 0 s (openDecoder s).2 := by
  by_cases hn : s.currType = .normal
  · cases hc : s.curr with
    | none => rw [openDecoder_other s (Or.inr hc)]; exact Fr.refl s
    | some c => rw [openDecoder_normal s hn c hc]; exact openN_fr s c _
  · rw [openDecoder_other s (Or.inl hn)]; exact Fr.refl s

theorem readCore_fr (p : Bool × Reader.St) (k : Nat) : Fr 0 p.2 (readCore p k).2 := by
  unfold readCore
  split
  · exact Fr.refl _
  · split
    · exact Fr.refl _
    · split
      · exact ⟨id, rfl, rfl, rfl, Nat.le_refl _, Nat.le_refl _⟩
      · exact ⟨id, rfl, rfl, rfl, Nat.le_refl _, Nat.le_refl _⟩
      · exact Fr.refl _

theorem read_fr (s : Reader.St) (k : Nat) : Fr 0 s (Reader.read s k).2 := by
  rw [read_eq]
  cases hd : s.dec with
  | some o => exact readCore_fr (_, s) k
  | none => exact Fr.trans (g := 0) (g' := 0) (openDecoder_fr s) (readCore_fr (openDecoder s) k)

theorem decodeLoop_fr : ∀ (fuel : Nat) (s : Reader.St) (acc : List UInt8), Fr 0 s (decodeLoop fuel s acc).2 := by
  intro fuel
  induction fuel with
  | zero => intro s acc; exact Fr.refl s
  | succ n ih =>
    intro s acc
    unfold decodeLoop
    dsimp only
    split
    · exact read_fr s 64
    · exact Fr.trans (g := 0) (g' := 0) (read_fr s 64) (ih _ _)

theorem decodeAll_fr (c : HObj) (p : Bool × Reader.St) (f : Bool) : Fr 0 p.2 (decodeAll c p f).2 := by
  unfold decodeAll
  split
  · exact Fr.refl _
  · split
    · exact Fr.refl _
    · exact decodeLoop_fr _ _ _

theorem check_fr (s : Reader.St) : Fr 0 s (check s).2 := by
  rw [check_eq]
  split
  · exact Fr.refl s
  · split
    · exact Fr.refl s
    · split
      · exact Fr.refl s
      · exact Fr.trans (g := 0) (g' := 0) (openDecoder_fr s) (decodeAll_fr _ _ _)

/-- only the extraction of a first-time entry pushes (one directory, or one deferred link) -/
def grow (s : Reader.St) : Nat := if s.currType = .normal then 1 else 0

theorem extract_fr (s : Reader.St) (b : Bool) : Fr (grow s) s (extract s b).2 := by
  rw [extract_eq]
  split
  · rename_i c hn hc
    have hg : grow s = 1 := by simp [grow, hn]
    rw [hg]
    split
    · exact (Fr.trans (g := 0) (g' := 0) (openDecoder_fr s) (decodeAll_fr _ _ _)).mono (by omega)
    · split
      · split
        · split
          · exact (Fr.refl s).mono (by omega)
          · refine ⟨id, rfl, rfl, rfl, Nat.le_refl _, ?_⟩
            have := List.length_append (as := s.deferred.takeWhile (fun r => pathLen r > pathLen c))
              (bs := s.deferred.dropWhile (fun r => pathLen r > pathLen c))
            rw [List.takeWhile_append_dropWhile] at this
            simp only [List.length_append, List.length_cons, List.length_nil]
            omega
        · exact (Fr.refl s).mono (by omega)
      · split
        · exact (Fr.refl s).mono (by omega)
        · split
          · exact (Fr.refl s).mono (by omega)
          · exact ⟨id, rfl, rfl, rfl, Nat.le_refl _, by simp only [List.length_cons]; omega⟩
  · exact (Fr.refl s).mono (Nat.zero_le _)
  · exact (Fr.refl s).mono (Nat.zero_le _)
  · exact (Fr.refl s).mono (Nat.zero_le _)

end LhasaV.ToolKinds
