import LhasaV.Lemmas.PrintList3
import LhasaV.Lemmas.MessagesProps
import LhasaV.Lemmas.ToolNoFaultT
import LhasaV.Lemmas.CrcBurst
/-!
# C07 on bytes (part 1): archives whose member data need not be what the header promises

`archiveWith pk es` (ArchiveOf2) writes, for every entry, the header of the entry and then exactly
the packer's bytes.  A DAMAGED or TRUNCATED archive has the same headers but other bytes behind one
of them.  `Item` = an entry (whose header is written by the C05 header encoder, exactly as in
`archiveWith`) together with the bytes that PHYSICALLY follow that header; `flatI pk its` are the
archive bytes.  `ItemsOk`: every entry is clean / encodable / packable (so that its header is a
well-formed header), the physical bytes are never longer than the header's compressed size, and
they may be SHORTER only for the last member (the archive was cut there).

Here: the basic reader (`lha_basic_reader_next_file`) along `flatI pk its` — `AtI`, `FreshI`,
`GotI`, `basicNext_atI`, `basicNext_freshI` — the statements and proofs of ArchiveOf5 carried over
to items (with `its = es.map (intact pk)` they are those statements: `flatI_intact`).
-/
set_option linter.unusedSimpArgs false
namespace LhasaV.TestBytes
open LhasaV LhasaV.Header LhasaV.Extract LhasaV.GlobFs LhasaV.Contain LhasaV.ExtractTree
open LhasaV.ExtractTree.Sample LhasaV.Spec.HeaderEnc LhasaV.Reader LhasaV.ReaderIndep LhasaV.ArchiveOf

/-- a member as it physically is: the entry whose header is written, and the bytes that follow
the header in the archive -/
structure Item where
  e : Entry
  comp : Bytes

/-- header (C05 encoder, the fields of `archiveWith`) and the physical bytes -/
def memberI (pk : Packer) (it : Item) : Bytes := encode (fieldsOf pk it.e) ++ it.comp

/-- **the archive bytes**: the members one after the other -/
def flatI (pk : Packer) (its : List Item) : Bytes := (its.map (memberI pk)).flatten

/-- the member `archiveWith` writes: the packer's bytes -/
def intact (pk : Packer) (e : Entry) : Item := ⟨e, dataOf pk e⟩

theorem flatI_nil (pk : Packer) : flatI pk [] = [] := rfl

theorem flatI_cons (pk : Packer) (it : Item) (tl : List Item) :
    flatI pk (it :: tl) = encode (fieldsOf pk it.e) ++ (it.comp ++ flatI pk tl) := by
  simp [flatI, memberI, List.append_assoc]

theorem flatI_append (pk : Packer) (a b : List Item) : flatI pk (a ++ b) = flatI pk a ++ flatI pk b := by
  simp [flatI]

/-- with the packer's bytes behind every header the archive is `archiveWith pk es` -/
theorem flatI_intact (pk : Packer) (es : List Entry) : flatI pk (es.map (intact pk)) = flat pk es := by
  induction es with
  | nil => rfl
  | cons e es ih => rw [List.map_cons, flatI_cons, flat_cons, ih]; rfl

theorem flatI_cons_length (pk : Packer) (it : Item) (tl : List Item) : 21 ≤ (flatI pk (it :: tl)).length := by
  obtain ⟨a, b, t, hs, hl⟩ := encode_shape pk it.e
  rw [flatI_cons, hs]
  simp; omega

theorem length_le_flatI (pk : Packer) (its : List Item) : its.length ≤ (flatI pk its).length := by
  induction its with
  | nil => exact Nat.le_refl _
  | cons it tl ih =>
    have := flatI_cons_length pk it tl
    rw [flatI_cons] at this ⊢
    simp only [List.length_cons, List.length_append] at this ⊢
    obtain ⟨a, b, t, hs, hl⟩ := encode_shape pk it.e
    have : 1 ≤ (encode (fieldsOf pk it.e)).length := by rw [hs]; simp
    omega

/-- the entry is clean, fits the header format, its data is packed well; the physical bytes are
not longer than the compressed size the header declares -/
def ItemOk (pk : Packer) (it : Item) : Prop :=
  EntryOk it.e ∧ EntryEnc it.e ∧ FilePack pk it.e ∧ it.comp.length ≤ (dataOf pk it.e).length

/-- … for every member; bytes may be missing only behind the LAST header -/
def ItemsOk (pk : Packer) : List Item → Prop
  | [] => True
  | it :: tl => ItemOk pk it ∧ (tl ≠ [] → it.comp.length = (dataOf pk it.e).length) ∧ ItemsOk pk tl

theorem ItemsOk.tail {pk : Packer} {it : Item} {tl : List Item} (h : ItemsOk pk (it :: tl)) : ItemsOk pk tl :=
  h.2.2

theorem ItemsOk.head {pk : Packer} {it : Item} {tl : List Item} (h : ItemsOk pk (it :: tl)) : ItemOk pk it :=
  h.1

theorem itemsOk_intact {pk : Packer} {es : List Entry} (h : AllOk pk es) : ItemsOk pk (es.map (intact pk)) := by
  induction es with
  | nil => trivial
  | cons e es ih =>
    obtain ⟨a, b, c⟩ := h e (by simp)
    exact ⟨⟨a, b, c, Nat.le_refl _⟩, fun _ => rfl, ih h.tail⟩

theorem itemsOk_append {pk : Packer} {a b : List Item} (ha : ItemsOk pk a) (hb : ItemsOk pk b)
    (hfull : b ≠ [] → ∀ it ∈ a, it.comp.length = (dataOf pk it.e).length) : ItemsOk pk (a ++ b) := by
  induction a with
  | nil => exact hb
  | cons it tl ih =>
    refine ⟨ha.1, ?_, ih ha.2.2 (fun hne x hx => hfull hne x (List.mem_cons_of_mem _ hx))⟩
    intro hne
    by_cases htl : tl = []
    · subst htl
      exact hfull (by simpa using hne) it (by simp)
    · exact ha.2.1 htl

/-! ## the basic reader -/

/-- the basic reader holds a member that ends where the members `its` begin -/
def AtI (pk : Packer) (A : Array UInt8) (its : List Item) (b : Basic) : Prop :=
  b.stream.data = A ∧ b.curr.isSome = true ∧
  ((its = [] ∧ Doomed b) ∨
   (its ≠ [] ∧ b.eof = false ∧ b.stream.phase = .reading ∧ b.stream.leadin = [] ∧
     A.toList.drop (mEnd b) = flatI pk its))

/-- the reader before its first `next_file` -/
def FreshI (pk : Packer) (A : Array UInt8) (its : List Item) (b : Basic) : Prop :=
  b.stream.data = A ∧ b.curr = none ∧ b.eof = false ∧ b.stream.phase = .init ∧
  b.stream.leadin = [] ∧ b.stream.pos = 0 ∧ A.toList = flatI pk its

/-- the basic reader has read the header of the first member of `its`, or met the end -/
def GotI (pk : Packer) (A : Array UInt8) (its : List Item) (b : Basic) : Prop :=
  b.stream.data = A ∧
  match its with
  | [] => b.curr = none ∧ b.eof = true
  | it :: tl => (∃ id, b.curr = some ⟨id, hdrOf pk it.e⟩) ∧ b.remaining = (dataOf pk it.e).length ∧
      b.eof = false ∧ b.stream.phase = .reading ∧ b.stream.leadin = [] ∧
      A.toList.drop b.stream.pos = it.comp ++ flatI pk tl

theorem AtI.consEq {pk : Packer} {A : Array UInt8} {its : List Item} {b b' : Basic} (h : AtI pk A its b)
    (hc : ConsEq b b') : AtI pk A its b' := by
  obtain ⟨hd, hcur, hrest⟩ := h
  obtain ⟨cd, cc, ce⟩ := hc
  refine ⟨by rw [← cd, hd], by rw [← cc]; exact hcur, ?_⟩
  rcases hrest with ⟨hes, hdm⟩ | ⟨hes, heof, hph, hl, hdrop⟩
  · left
    refine ⟨hes, ?_⟩
    rcases ce with ⟨_, d'⟩ | ⟨e1, e2, e3, e4, e5, _⟩
    · exact d'
    · exact Doomed.transfer hdm cc cd e1 e5
  · right
    have hlt : mEnd b < A.size := by
      have := drop_lt_of_ne_nil A.toList (mEnd b) (by
        rw [hdrop]
        cases its with
        | nil => exact absurd rfl hes
        | cons it tl =>
          intro h0
          have := flatI_cons_length pk it tl
          rw [h0] at this; simp at this)
      simpa using this
    rcases ce with ⟨d, _⟩ | ⟨e1, e2, e3, e4, e5, _⟩
    · rcases d with d | d
      · rw [heof] at d; cases d
      · rw [hd] at d; omega
    · exact ⟨hes, e2, by rw [← e4, hph], by rw [← e3, hl], by rw [← e5, hdrop]⟩

/-- having read the header of a member, the reader holds a member that ends where the following
members begin — or, when bytes are missing, reaches beyond the end of the archive -/
theorem GotI.at {pk : Packer} {A : Array UInt8} {it : Item} {tl : List Item} {b : Basic}
    (h : GotI pk A (it :: tl) b) (hok : ItemsOk pk (it :: tl)) : AtI pk A tl b := by
  obtain ⟨hd, ⟨id, hc⟩, hrem, heof, hph, hl, hdrop⟩ := h
  refine ⟨hd, by rw [hc]; rfl, ?_⟩
  have hle := hok.1.2.2.2
  have hm : A.toList.drop (mEnd b) = flatI pk tl := by
    unfold mEnd
    rw [← List.drop_drop, hdrop, hrem]
    by_cases htl : tl = []
    · subst htl
      rw [flatI_nil, List.append_nil]
      exact List.drop_eq_nil_of_le hle
    · rw [← hok.2.1 htl]
      simp
  by_cases htl : tl = []
  · left
    refine ⟨htl, Or.inr ⟨by rw [hc]; rfl, ?_⟩⟩
    rw [htl] at hm
    have : (A.toList.drop (mEnd b)).length = 0 := by rw [hm]; rfl
    rw [List.length_drop, Array.length_toList] at this
    rw [hd]; omega
  · exact Or.inr ⟨htl, heof, hph, hl, hm⟩

theorem GotI.pending {pk : Packer} {A : Array UInt8} {it : Item} {tl : List Item} {b : Basic}
    (h : GotI pk A (it :: tl) b) : ∃ id, b.curr = some ⟨id, hdrOf pk it.e⟩ := h.2.1

/-- **the parse half of `lha_basic_reader_next_file` at a member**, whatever bytes follow its header -/
theorem nextTail_item (pk : Packer) (mk : Nat → Nat) (b : Basic) (led : Ledger) (e : Entry) (rest : Bytes)
    (hk : EntryOk e) (he : EntryEnc e) (hpk : FilePack pk e) (heof : b.eof = false)
    (hph : b.stream.phase = .init ∨ b.stream.phase = .reading) (hl : b.stream.leadin = [])
    (hsrc : Stream.src b.stream = encode (fieldsOf pk e) ++ rest) :
    ∃ b' led', Stream.nextTail mk b led = .ok (b', led') ∧
      b'.stream.data = b.stream.data ∧ (∃ id, b'.curr = some ⟨id, hdrOf pk e⟩) ∧
      b'.remaining = (dataOf pk e).length ∧ b'.eof = false ∧ b'.stream.phase = .reading ∧
      b'.stream.leadin = [] ∧ Stream.src b'.stream = rest := by
  obtain ⟨s', e1, e2, e3, e4, e5⟩ := start_member pk b.stream e hpk rest hph hl hsrc
  have hread := header_read_member pk mk e hk he hpk rest
  obtain ⟨x, y, tl, hs, htl⟩ := encode_shape pk e
  have hmlen : (fieldsOf pk e).method.length = 5 := (method_sig pk e hpk).1
  have henc : 26 ≤ (encode (fieldsOf pk e)).length := by
    rw [hs]; simp [hmlen]; omega
  have hused : (Stream.rest s').length - rest.length = (encode (fieldsOf pk e)).length := by
    rw [e5]; simp
  obtain ⟨a1, a2, a3, a4, _⟩ := advance_spec s' (encode (fieldsOf pk e)).length (by omega)
    (by rw [e5]; simp)
  unfold Stream.nextTail
  simp only [heof, Bool.false_eq_true, if_false, e1, Res.ok_bind, e4, Stream.phase_beq, decide_false]
  rw [e5, hread]
  simp only [← e5, hused]
  refine ⟨_, _, rfl, by rw [a3, e2], ⟨_, rfl⟩, hdrOf_clen pk e, rfl, by rw [a4, e4], a1, ?_⟩
  show Stream.src (Stream.advance s' (encode (fieldsOf pk e)).length) = _
  rw [a2, e5]; simp

/-- **`lha_basic_reader_next_file` from a member to the next** -/
theorem basicNext_atI (pk : Packer) (mk : Nat → Nat) (A : Array UInt8) (its : List Item) (b : Basic)
    (led : Ledger) (hok : ItemsOk pk its) (h : AtI pk A its b) (wf : Stream.WF b) :
    ∃ b' led', basicNext mk b led = .ok (b', led') ∧ GotI pk A its b' := by
  obtain ⟨hd, hcur, hrest⟩ := h
  obtain ⟨c, hc⟩ := Option.isSome_iff_exists.1 hcur
  rcases hrest with ⟨hes, hdm⟩ | ⟨hes, heof, hph, hl, hdrop⟩
  · subst hes
    obtain ⟨x, e1, x1, x2, x3⟩ := basicNext_doomed mk b led c hc hdm wf
    exact ⟨x, _, e1, by rw [x3, hd], x2, x1⟩
  · cases its with
    | nil => exact absurd rfl hes
    | cons it tl =>
      have hne : flatI pk (it :: tl) ≠ [] := by
        intro h0
        have := flatI_cons_length pk it tl
        rw [h0] at this; simp at this
      have hlt : mEnd b < b.stream.data.size := by
        have := drop_lt_of_ne_nil A.toList (mEnd b) (by rw [hdrop]; exact hne)
        rw [hd]; simpa using this
      obtain ⟨sa, pa⟩ := skip_alive b hlt
      have fa := Stream.skip_frame b.stream b.remaining
      obtain ⟨hke, hee, hpe, _⟩ := hok.1
      rw [Stream.basicNext_eq]
      simp only [Stream.afterSkip, hc]
      obtain ⟨b', led', e1, e2, e3, e4, e5, e6, e7, e8⟩ := nextTail_item pk mk
        { b with curr := none, stream := (Stream.skip b.stream b.remaining).2,
                 eof := b.eof || !(Stream.skip b.stream b.remaining).1 }
        (led.unref c.id) it.e (it.comp ++ flatI pk tl) hke hee hpe (by simp [heof, sa])
        (Or.inr (by simp only [fa.2.2.1]; exact hph)) (by simp only [fa.2.2.2]; exact hl)
        (by
          show Stream.src (Stream.skip b.stream b.remaining).2 = _
          unfold Stream.src
          rw [fa.1, pa, hd, hdrop, flatI_cons])
      refine ⟨b', led', e1, by rw [e2]; simp only [fa.1]; exact hd, e3, e4, e5, e6, e7, ?_⟩
      have : b'.stream.data = A := by rw [e2]; simp only [fa.1]; exact hd
      rw [← this]; exact e8

/-- **the first `lha_basic_reader_next_file`**: the signature scan, then the first header -/
theorem basicNext_freshI (pk : Packer) (mk : Nat → Nat) (A : Array UInt8) (its : List Item) (b : Basic)
    (led : Ledger) (hok : ItemsOk pk its) (h : FreshI pk A its b) :
    ∃ b' led', basicNext mk b led = .ok (b', led') ∧ GotI pk A its b' := by
  obtain ⟨hd, hc, heof, hph, hl, hpos, hA⟩ := h
  rw [Stream.basicNext_eq]
  simp only [Stream.afterSkip, hc]
  cases its with
  | nil =>
    have hsz : b.stream.data.size ≤ b.stream.pos := by
      have : A.toList.length = 0 := by rw [hA]; rfl
      rw [Array.length_toList] at this
      rw [hd, hpos]; omega
    obtain ⟨st, e, hst⟩ := Stream.nextTail_past_end mk b led heof hsz (by simp [hl])
    exact ⟨_, _, e, by simp only [hst]; exact hd, hc, rfl⟩
  | cons it tl =>
    obtain ⟨hke, hee, hpe, _⟩ := hok.1
    obtain ⟨b', led', e1, e2, e3, e4, e5, e6, e7, e8⟩ := nextTail_item pk mk b led it.e
      (it.comp ++ flatI pk tl) hke hee hpe heof
      (Or.inl hph) hl (by unfold Stream.src; rw [hpos, hd, hA, flatI_cons]; rfl)
    refine ⟨b', led', e1, by rw [e2, hd], e3, e4, e5, e6, e7, ?_⟩
    have : b'.stream.data = A := by rw [e2, hd]
    rw [← this]; exact e8

end LhasaV.TestBytes
