import LhasaV.Lemmas.ExtractTree4
/-!
# C06 (part 5): what `lha_reader_extract` does for one entry (deliverable 1)

For each kind of entry — regular file, directory (first presentation), safe symbolic link,
re-presented directory — the exact `lookup` of the entry's own path after the call, and the
frame: every other path keeps its entry, except that the parent directory of a newly created
object gets the time `now` (`Created`), and nothing at all for the metadata step (`Touched`).
-/
namespace LhasaV.ExtractTree
open LhasaV LhasaV.Header LhasaV.Extract LhasaV.GlobFs LhasaV.Contain

theorem DirsKept.trans {a b c : Fs.St} (h1 : DirsKept a b) (h2 : DirsKept b c) : DirsKept a c := by
  refine ⟨h2.1.trans h1.1, h2.2.1.trans h1.2.1, ?_⟩
  intro p m t hp
  obtain ⟨t', hp'⟩ := h1.2.2 p m t hp
  exact h2.2.2 p m t' hp'

/-- the method name of directory and link entries -/
abbrev lhd : Bytes := "-lhd-".toUTF8.toList

/-! ## regular file -/

/-- **a regular file**, extracted at a new name in an existing writable directory: the file holds
exactly the decoded bytes, its mode is the recorded permission bits (else 0600 under the umask),
its time the recorded time stamp (else `now`); the parent directory's time becomes `now`;
nothing else changes. -/
theorem extract_file_effect (rd : Reader.St) (fs : Fs.St) (fn : Bytes) (cs : List Bytes)
    (c : Reader.HObj) (ht : rd.currType = .normal) (hc : rd.curr = some c)
    (hm : c.h.method ≠ lhd)
    (hopen : (Reader.openDecoder rd).1 = true) (hver : (Reader.extract rd true).1.1 = true)
    (hT : Target fs fn cs) (hnone : Fs.lookup fs (fs.cwd ++ cs) = none)
    (hmod : Fs.canModify fs (fs.cwd ++ cs).dropLast = true) :
    (readerExtract rd fs fn).1 = true ∧
    (readerExtract rd fs fn).2.1 = (Reader.extract rd true).2 ∧
    Created fs (readerExtract rd fs fn).2.2 (fs.cwd ++ cs)
      (.file (Reader.extract rd true).1.2
        (if hasFlag c.h Gen.flagUnixPerms then c.h.unixPerms % 4096 else 0o600 - (0o600 &&& fs.umask))
        (if c.h.timestamp ≠ 0 then c.h.timestamp else fs.now)) := by
  have hm' : (c.h.method != lhd) = true := by simpa using hm
  obtain ⟨hf1, hf2⟩ := archFopen_new hT hnone hmod
    (if hasFlag c.h Gen.flagUnixPerms then some c.h.unixPerms else none)
  -- the mode `lha_arch_fopen` leaves
  have hf2 : Created fs (Fs.archFopen fs fn
      (if hasFlag c.h Gen.flagUnixPerms then some c.h.unixPerms else none)).2 (fs.cwd ++ cs)
      (.file [] (if hasFlag c.h Gen.flagUnixPerms then c.h.unixPerms % 4096
                 else 0o600 - (0o600 &&& fs.umask)) fs.now) := by
    by_cases hf : hasFlag c.h Gen.flagUnixPerms = true
    · simp only [hf, if_true] at hf2 ⊢; exact hf2
    · simp only [hf, Bool.false_eq_true, if_false] at hf2 ⊢; exact hf2
  generalize hF : Fs.archFopen fs fn (if hasFlag c.h Gen.flagUnixPerms then some c.h.unixPerms else none) = F at hf1 hf2
  -- write + close
  have hw := writeAll_file F.2 (fs.cwd ++ cs) [] _ _ (Reader.extract rd true).1.2 hT.q_ne hf2.self
  rw [hf2.params.now] at hw
  have hk : DirsKept fs (Fs.writeAll F.2 (fs.cwd ++ cs) (Reader.extract rd true).1.2) :=
    (hf2.dirsKept hnone).trans (hw.dirsKept_file _ _ _ hf2.self)
  have hT' := hT.kept hk
  have hcw : (Fs.writeAll F.2 (fs.cwd ++ cs) (Reader.extract rd true).1.2).cwd = fs.cwd :=
    (hf2.params.trans hw.params).cwd
  unfold readerExtract
  rw [ht, hc]
  simp only [hm', if_true, hopen, Bool.not_true, Bool.false_eq_true, if_false, hF, hf1, hver, true_and]
  by_cases hts : c.h.timestamp ≠ 0
  · simp only [if_pos hts]
    have hu := (utime_file hT' _ _ _ c.h.timestamp (by rw [hcw]; exact hw.self)).2
    rw [hcw] at hu
    exact hf2.touch (hw.trans hu) hT.q_ne
  · simp only [if_neg hts]
    exact hf2.touch hw hT.q_ne

/-- what `lha_reader_extract` does to the READER for a regular file: only the decoder and the
stream move -/
theorem extract_file_frame (rd : Reader.St) (b : Bool) (c : Reader.HObj)
    (ht : rd.currType = .normal) (hc : rd.curr = some c) (hm : c.h.method ≠ lhd) :
    Reader.Frame rd (Reader.extract rd b).2 := by
  have hm' : (c.h.method != lhd) = true := by simpa using hm
  unfold Reader.extract
  rw [ht, hc]
  simp only [hm', if_true]
  split
  · exact Reader.openDecoder_frame rd
  · split
    · exact Reader.openDecoder_frame rd
    · exact (Reader.openDecoder_frame rd).trans (Reader.decodeLoop_frame _ _ _)

/-! ## directory, first presentation -/

theorem extract_dir_reader (rd : Reader.St) (c : Reader.HObj) (ht : rd.currType = .normal)
    (hc : rd.curr = some c) (hm : c.h.method = lhd) (hs : c.h.symlinkTarget = none)
    (hpol : rd.policy = .endOfDir) :
    Reader.extract rd true =
      ((true, []), { rd with dirStack := c :: rd.dirStack, led := rd.led.addRef c.id }) := by
  unfold Reader.extract
  rw [ht, hc]
  simp only [hm, bne_self_eq_false, Bool.false_eq_true, if_false, hs, Option.isSome_none,
    Bool.not_true, hpol]
  rfl

/-- **a directory entry, first presentation** (policy END_OF_DIR): created with mode 0700 (0777
when no permissions are recorded) under the umask and the time `now`, and pushed on the stack;
its recorded metadata are NOT applied yet. -/
theorem extract_dir_effect (rd : Reader.St) (fs : Fs.St) (fn : Bytes) (cs : List Bytes)
    (c : Reader.HObj) (ht : rd.currType = .normal) (hc : rd.curr = some c)
    (hm : c.h.method = lhd) (hs : c.h.symlinkTarget = none) (hpol : rd.policy = .endOfDir)
    (hT : Target fs fn cs) (hnone : Fs.lookup fs (fs.cwd ++ cs) = none)
    (hmod : Fs.canModify fs (fs.cwd ++ cs).dropLast = true) :
    (readerExtract rd fs fn).1 = true ∧
    (readerExtract rd fs fn).2.1 = { rd with dirStack := c :: rd.dirStack, led := rd.led.addRef c.id } ∧
    Created fs (readerExtract rd fs fn).2.2 (fs.cwd ++ cs)
      (.dir (if hasFlag c.h Gen.flagUnixPerms then 0o700 - (0o700 &&& fs.umask)
             else 0o777 - (0o777 &&& fs.umask)) fs.now) := by
  have hmk := mkdir_new hT hnone hmod (if hasFlag c.h Gen.flagUnixPerms then 0o700 else 0o777)
  have hmode : (.dir ((if hasFlag c.h Gen.flagUnixPerms then 0o700 else 0o777) % 4096 -
        ((if hasFlag c.h Gen.flagUnixPerms then 0o700 else 0o777) % 4096 &&& fs.umask)) fs.now : Fs.Ent) =
      .dir (if hasFlag c.h Gen.flagUnixPerms then 0o700 - (0o700 &&& fs.umask)
             else 0o777 - (0o777 &&& fs.umask)) fs.now := by
    split <;> rfl
  rw [hmode] at hmk
  have hE : readerExtract rd fs fn = (true, (Reader.extract rd true).2,
      (Fs.mkdir fs fn (if hasFlag c.h Gen.flagUnixPerms then 0o700 else 0o777)).2) := by
    unfold readerExtract
    rw [ht, hc]
    simp only [hm, bne_self_eq_false, Bool.false_eq_true, if_false, hs, Option.isSome_none, hmk.1,
      Bool.not_true, hpol]
    rfl
  rw [hE, extract_dir_reader rd c ht hc hm hs hpol]
  exact ⟨rfl, rfl, hmk.2⟩

/-! ## safe symbolic link -/

theorem extract_link_reader (rd : Reader.St) (c : Reader.HObj) (ht : rd.currType = .normal)
    (hc : rd.curr = some c) (hm : c.h.method = lhd) (tg : Bytes) (hs : c.h.symlinkTarget = some tg)
    (hsafe : Reader.isDangerous c.h = false) (b : Bool) :
    Reader.extract rd b = ((b, []), rd) := by
  unfold Reader.extract
  rw [ht, hc]
  simp only [hm, bne_self_eq_false, Bool.false_eq_true, if_false, hs, Option.isSome_some, if_true,
    hsafe]

/-- **a safe symbolic link** at a new name: a link with the recorded target; the parent
directory's time becomes `now`; nothing else changes. -/
theorem extract_link_effect (rd : Reader.St) (fs : Fs.St) (fn : Bytes) (cs : List Bytes)
    (c : Reader.HObj) (ht : rd.currType = .normal) (hc : rd.curr = some c)
    (hm : c.h.method = lhd) (tg : Bytes) (hs : c.h.symlinkTarget = some tg)
    (hsafe : Reader.isDangerous c.h = false)
    (hT : Target fs fn cs) (hnone : Fs.lookup fs (fs.cwd ++ cs) = none)
    (hmod : Fs.canModify fs (fs.cwd ++ cs).dropLast = true) :
    (readerExtract rd fs fn).1 = true ∧
    (readerExtract rd fs fn).2.1 = rd ∧
    Created fs (readerExtract rd fs fn).2.2 (fs.cwd ++ cs) (.link tg) := by
  have hl := archSymlink_new hT hnone hmod tg
  have hE : readerExtract rd fs fn = ((Fs.archSymlink fs fn tg).1,
      (Reader.extract rd (Fs.archSymlink fs fn tg).1).2, (Fs.archSymlink fs fn tg).2) := by
    unfold readerExtract
    rw [ht, hc]
    simp only [hm, bne_self_eq_false, Bool.false_eq_true, if_false, hs, Option.isSome_some, if_true,
      hsafe, Option.getD_some, extract_link_reader rd c ht hc hm tg hs hsafe]
  rw [hE, extract_link_reader rd c ht hc hm tg hs hsafe]
  exact ⟨hl.1, rfl, hl.2⟩

/-! ## re-presented directory -/

/-- **a re-presented directory** (`fakeDir`): `set_directory_metadata` sets exactly the recorded
permission bits and time stamp on that directory and changes nothing else. -/
theorem extract_fake_effect (rd : Reader.St) (fs : Fs.St) (fn : Bytes) (cs : List Bytes)
    (c : Reader.HObj) (ht : rd.currType = .fakeDir) (hc : rd.curr = some c)
    (hT : Target fs fn cs) (m t : Nat) (hl : Fs.lookup fs (fs.cwd ++ cs) = some (.dir m t)) :
    (readerExtract rd fs fn).1 = true ∧
    (readerExtract rd fs fn).2.1 = rd ∧
    Touched fs (readerExtract rd fs fn).2.2 (fs.cwd ++ cs)
      (.dir (if hasFlag c.h Gen.flagUnixPerms then c.h.unixPerms % 4096 else m)
            (if c.h.timestamp ≠ 0 then c.h.timestamp else t)) := by
  have hr : (Reader.extract rd true).2 = rd := by
    unfold Reader.extract; rw [ht, hc]
  have hE : readerExtract rd fs fn = (true, (Reader.extract rd true).2,
      setDirectoryMetadata fs c.h fn) := by
    unfold readerExtract
    rw [ht, hc]
  rw [hE, hr]
  exact ⟨rfl, rfl, setDirMeta_effect hT c.h m t hl⟩

end LhasaV.ExtractTree
