import LhasaV.Gen.Tool
import LhasaV.Model.ListOut
import LhasaV.Model.Safe
import LhasaV.Model.Reader
import LhasaV.Model.Messages
/-!
Translator tie for the command-line tool and `lib/macbinary.c`: the finite tables and layout constants the hand-written models
use are compared, by the kernel, with what `gen/ext_tool.c` evaluates from the working tree on every run
(`Gen/Tool.lean`): `os_type_to_string` for all 256 identifier bytes, what `safe_output` writes for each byte, the MacBinary
header layout macros, `MAX_PROGRESS_LEN`.  A change of any of these in the source changes `Gen/Tool.lean` and breaks the
theorem here (the check then searches for an input on which the tool's behaviour differs).
-/
namespace LhasaV.GenTool
open LhasaV

/-- `os_type_to_string` of src/list.c = `ListOut.osTypeToString`, for every identifier byte -/
theorem os_names_match_source :
    ∀ b : Fin 256, (ListOut.str (ListOut.osTypeToString b.val)).map (·.toNat) = Gen.osTypeStrings.getD b.val [] := by
  decide +kernel

/-- what `safe_output` of src/safe.c writes for a one-byte string = `Safe.safeOutput`, for every byte a C string can hold -/
theorem safe_class_matches_source :
    ∀ b : Fin 256, b.val ≠ 0 → (Safe.safeOutput [UInt8.ofNat b.val]).map (·.toNat) = Gen.safeOutputTable.getD b.val [] := by
  decide +kernel

/-- `Safe.safeOutput` is byte-wise, so the one-byte table determines it on every string -/
theorem safeOutput_bytewise (s : Bytes) : Safe.safeOutput s = s.flatMap (fun c => Safe.safeOutput [c]) := by
  induction s with
  | nil => rfl
  | cons c t ih =>
    simp only [Safe.safeOutput, List.map_cons, List.map_nil, List.flatMap_cons, List.singleton_append] at ih ⊢
    rw [← ih]

/-- `MAX_PROGRESS_LEN` of src/extract.c -/
theorem progress_len_matches_source : Messages.maxProgressLen = Gen.maxProgressLen := rfl

/-! ### `lib/macbinary.c`: the model's functions re-stated over the regenerated layout constants -/

open Reader in
/-- `is_macbinary_header` written with the macros of lib/macbinary.c as regenerated in `Gen/Tool.lean` -/
def isMacBinaryHeaderG (d : List UInt8) (h : Header.Hdr) : Bool :=
  if d.getD Gen.mbhdrOffVersion 0 ≠ 0 ∨ d.getD Gen.mbhdrOffZeroCompat1 0 ≠ 0 ∨ d.getD Gen.mbhdrOffZeroCompat2 0 ≠ 0
     ∨ !allZero ((d.drop Gen.mbhdrOffCommentLen).take 2)
     ∨ !allZero ((d.drop Gen.mbhdrOffMacbinary2Data).take Gen.mbhdrLenMacbinary2Data) then false else
  let fl := (d.getD Gen.mbhdrOffFilenameLen 0).toNat
  let name := h.filename.getD []
  if fl > Gen.mbhdrLenFilename ∨ fl ≠ name.length ∨ (d.drop Gen.mbhdrOffFilename).take fl ≠ name then false else
  if !allZero ((d.drop (Gen.mbhdrOffFilename + fl)).take (Gen.mbhdrLenFilename - fl)) then false else
  let dataFork := be32 d Gen.mbhdrOffDataForkLen
  let resFork := be32 d Gen.mbhdrOffResForkLen
  let expected := (dataFork + resFork + Gen.mbhdrSize) % 4294967296
  let rounded := ((expected + 0x7f) % 4294967296) / 128 * 128
  if h.length ≠ rounded then false else
  let modTime := be32 d Gen.mbhdrOffFileModDate
  if modTime < Gen.macTimeOffset then false else
  let t := modTime - Gen.macTimeOffset
  let diff := if h.timestamp > t then h.timestamp - t else t - h.timestamp
  decide (diff ≤ 14 * 60 * 60)

/-- the MacBinary header test of the model uses exactly the layout of the source -/
theorem mac_header_layout_matches_source (d : List UInt8) (h : Header.Hdr) :
    Reader.isMacBinaryHeader d h = isMacBinaryHeaderG d h := rfl

/-- the other places the layout enters the model: the header is `MBHDR_SIZE` bytes, the fork lengths are read at
`MBHDR_OFF_DATA_FORK_LEN` / `MBHDR_OFF_RES_FORK_LEN`, one read delivers at most `OUTPUT_BUFFER_SIZE` bytes -/
theorem mac_sizes_match_source :
    Gen.mbhdrSize = 128 ∧ Gen.mbhdrOffDataForkLen = 0x53 ∧ Gen.mbhdrOffResForkLen = 0x57 ∧ Gen.macOutputBufferSize = 4096
    ∧ Gen.mbhdrOffMacbinary2Data + Gen.mbhdrLenMacbinary2Data = Gen.mbhdrSize := by decide

end LhasaV.GenTool
