import LhasaV.Lemmas.Lh1Mirror13
import LhasaV.Lemmas.LhNewRT4
/-!
# C02, layer 14: one `lha_lh1_read` decodes one LZHUF command
-/
namespace LhasaV.Lh1Mirror
open LhasaV LhasaV.Lh1 LhasaV.Spec.Lzhuf LhasaV.Spec.Lz77 LhasaV.Res LhasaV.LzRoundTrip
open LhasaV.LhNewCmd LhasaV.LhNewRT

/-- the bits of one command in tree state `z` -/
def cmdBitsZ (z : TreeState) : WCmd → List Bool
  | .lit b => codeBits z b.toNat
  | .copy d len => codeBits z (255 - THRESHOLD + len) ++ encodePosition d

/-- invariant of the round trip: decoder state `s`, LZHUF tree `z`, output so far `out` -/
structure RT (s : St) (z : TreeState) (out : List UInt8) : Prop where
  inv : Lh1.Inv s
  mir : Mirror s z
  bits : Bits.Inv s.bits
  win : WinRel 4096 0x20 s.ring s.pos out
  olk : s.offsetLookup = d_code
  oln : s.offsetLengths = p_len

theorem wf_of_inv {b : Bits} (h : Bits.Inv b) : b.WF := h.2.1

/-- the common first half of a read: the code is recognised and the tree updated -/
theorem read_code_update (s : St) (z : TreeState) (out : List UInt8) (h : RT s z out) (c : Nat)
    (hc : c < 314) (rest : List Bool) (hs : Bits.stream s.bits = codeBits z c ++ rest) :
    ∃ b' s2, walk (s.bits.bits + 8 * s.bits.src.remaining + 1) 0 s = .ok (some c, { s with bits := b' }) ∧
      incrementForCode { s with bits := b' } c = .ok s2 ∧ RT s2 (update z c) out ∧
      Bits.stream s2.bits = rest := by
  have hlen := Bits.length_stream s.bits
  rw [hs, List.length_append] at hlen
  obtain ⟨b', w1, w2, w3⟩ := walk_codeBits s z h.inv h.mir c hc s.bits rest
    (s.bits.bits + 8 * s.bits.src.remaining + 1) h.bits hs (by omega)
  have hi1 : Lh1.Inv { s with bits := b' } := CInv.setBits h.inv b' (wf_of_inv w2)
  have hm1 : Mirror { s with bits := b' } z := h.mir
  obtain ⟨s2, e2, hi2, hm2⟩ := mirror_update _ z c hm1 hi1 hc
  have hf := incrementForCode_fr _ c s2 e2
  refine ⟨b', s2, w1, e2, ⟨hi2, hm2, ?_, ?_, ?_, ?_⟩, ?_⟩
  · rw [hf.bits]; exact w2
  · rw [hf.ring, hf.pos]; exact h.win
  · rw [hf.olk]; exact h.olk
  · rw [hf.oln]; exact h.oln
  · rw [hf.bits]; exact w3

/-- a literal -/
theorem read_lit (s : St) (z : TreeState) (out : List UInt8) (h : RT s z out) (b : UInt8)
    (rest : List Bool) (hs : Bits.stream s.bits = cmdBitsZ z (.lit b) ++ rest) :
    ∃ s', Lh1.read s = .ok ([b], s') ∧ RT s' (update z b.toNat) (out ++ [b]) ∧
      Bits.stream s'.bits = rest := by
  have hlt : b.toNat < 256 := b.toNat_lt
  obtain ⟨b', s2, w1, e2, h2, hs2⟩ := read_code_update s z out h b.toNat (by omega) rest hs
  have hpos : s2.pos < s2.ring.size := Nat.lt_of_lt_of_le h2.win.2.1 h2.win.1
  refine ⟨{ s2 with ring := s2.ring.setIfInBounds s2.pos b, pos := (s2.pos + 1) % 4096 }, ?_,
    ⟨⟨?_, h2.inv.tree, h2.inv.grp⟩, h2.mir, h2.bits, winRel_lit _ _ _ _ _ b h2.win, h2.olk, h2.oln⟩, hs2⟩
  · unfold Lh1.read
    rw [w1]
    simp only [ok_bind]
    rw [e2]
    simp only [ok_bind, hlt, if_true, hpos, UInt8.ofNat_toNat, pure_eq]
    rfl
  · have hb := h2.inv.base
    exact ⟨hb.nodes, hb.leafNodes, hb.groups, hb.groupLeader, by simp [hb.ring],
      Nat.mod_lt _ (by omega), hb.bits, hb.olk, hb.oln, hb.olk_lt, hb.oln_le⟩

/-- a copy -/
theorem read_copy (s : St) (z : TreeState) (out : List UInt8) (h : RT s z out) (d len : Nat)
    (hv : valid (.copy d len) = true)
    (rest : List Bool) (hs : Bits.stream s.bits = cmdBitsZ z (.copy d len) ++ rest) :
    ∃ s' new, Lh1.read s = .ok (new, s') ∧ new.length = len ∧ copyWin 0x20 len d out = out ++ new ∧
      RT s' (update z (255 - THRESHOLD + len)) (out ++ new) ∧ Bits.stream s'.bits = rest := by
  simp only [valid, Bool.and_eq_true, decide_eq_true_eq] at hv
  obtain ⟨⟨hl3, hl60⟩, hd⟩ := hv
  have hF : F = 60 := rfl
  have hN : N = 4096 := rfl
  have hTH : THRESHOLD = 2 := rfl
  rw [hF] at hl60
  rw [hN] at hd
  simp only [cmdBitsZ, List.append_assoc] at hs
  obtain ⟨b', s2, w1, e2, h2, hs2⟩ := read_code_update s z out h (255 - THRESHOLD + len)
    (by rw [hTH]; omega) _ hs
  obtain ⟨b3, r1, r2, r3⟩ := readOffset_spec s2 d hd rest h2.bits h2.olk h2.oln hs2
  obtain ⟨ring', pos', new, f1, f2, f3, f4⟩ := copyLoop_win_start 4096 0x20 len d hd ⟨1048576, by omega⟩
    s2.ring s2.pos out [] h2.win
  have hnlt : ¬ (255 - THRESHOLD + len < 256) := by rw [hTH]; omega
  have hcount : 255 - THRESHOLD + len - 256 + Gen.lh1CopyThreshold = len := by
    rw [hTH]; simp only [Gen.lh1CopyThreshold]; omega
  have hstart : (s2.pos + 4294967296 - d + Gen.lh1RingSize - 1) % Gen.lh1RingSize =
      (s2.pos + 4096 + 4294967296 - d - 1) % 4096 := by
    simp only [Gen.lh1RingSize]
    have e : s2.pos + 4294967296 - d + 4096 - 1 = s2.pos + 4096 + 4294967296 - d - 1 := by omega
    rw [e]
  refine ⟨{ s2 with bits := b3, ring := ring', pos := pos' }, new, ?_, f2, f3,
    ⟨⟨?_, h2.inv.tree, h2.inv.grp⟩, h2.mir, r2, f4, h2.olk, h2.oln⟩, r3⟩
  · unfold Lh1.read
    rw [w1]
    simp only [ok_bind]
    rw [e2]
    simp only [ok_bind, hnlt, if_false]
    rw [r1]
    simp only [ok_bind, hcount]
    have hst' : ({ s2 with bits := b3 } : St).pos = s2.pos := rfl
    have hrg' : ({ s2 with bits := b3 } : St).ring = s2.ring := rfl
    rw [hst', hrg', hstart]
    have hrs : Gen.lh1RingSize = 4096 := rfl
    rw [hrs, f1]
    simp only [ok_bind, pure_eq, List.append_nil, List.reverse_reverse]
  · have hb := h2.inv.base
    exact ⟨hb.nodes, hb.leafNodes, hb.groups, hb.groupLeader,
      (Ring.copyLoop_safe 4096 len ((s2.pos + 4096 + 4294967296 - d - 1) % 4096) s2.ring
          s2.pos [] hb.ring hb.pos).2 _ f1 |>.1,
      f4.2.1, wf_of_inv r2, hb.olk, hb.oln, hb.olk_lt, hb.oln_le⟩

end LhasaV.Lh1Mirror
