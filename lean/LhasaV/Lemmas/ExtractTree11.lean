import LhasaV.Lemmas.ExtractTree10
/-!
# C06 (part 11): the step for a new entry
-/
namespace LhasaV.ExtractTree
open LhasaV LhasaV.Header LhasaV.Extract LhasaV.GlobFs LhasaV.Contain

theorem opened_eq_final (e : Entry) (hd : e.isDir = false) (now umask : Nat) :
    e.opened now umask = e.final now umask := by
  cases e with
  | dir _ _ _ => cases hd
  | file _ _ _ _ => rfl
  | link _ _ => rfl

theorem stk_paths_seen {done stk : List Entry} (hd : DoneOk done stk) :
    ∀ p ∈ stk.map Entry.path, p ∈ done.map Entry.path := by
  intro p hp
  obtain ⟨d, hds, rfl⟩ := List.mem_map.1 hp
  exact List.mem_map.2 ⟨d, (hd.sub d hds).1, rfl⟩

theorem doneOk_push {done stk : List Entry} {e : Entry} (hd : DoneOk done stk) (hk : EntryOk e)
    (hnew : e.path ∉ done.map Entry.path)
    (hpar : (stk.map Entry.path).head?.getD [] = e.path.dropLast) :
    DoneOk (done ++ [e]) (if e.isDir then e :: stk else stk) := by
  have hns : e.path ∉ stk.map Entry.path := fun h => hnew (stk_paths_seen hd _ h)
  refine ⟨?_, ?_, ?_, ?_, ?_⟩
  · intro x hx
    rcases List.mem_append.1 hx with hx | hx
    · exact hd.ok x hx
    · have : x = e := by simpa using hx
      subst this; exact hk
  · rw [List.map_append, List.map_singleton]
    refine List.nodup_append.2 ⟨hd.nodup, by simp, ?_⟩
    intro a ha b hb
    have : b = e.path := by simpa using hb
    subst this
    intro hab
    exact hnew (hab ▸ ha)
  · intro x hx
    cases hdir : e.isDir with
    | true =>
      rw [hdir] at hx
      simp only [if_true] at hx
      rcases List.mem_cons.1 hx with rfl | hx
      · exact ⟨by simp, hdir⟩
      · exact ⟨List.mem_append_left _ (hd.sub x hx).1, (hd.sub x hx).2⟩
    | false =>
      rw [hdir] at hx
      simp only [Bool.false_eq_true, if_false] at hx
      exact ⟨List.mem_append_left _ (hd.sub x hx).1, (hd.sub x hx).2⟩
  · cases e.isDir with
    | true => simp only [if_true, List.map_cons]; exact ⟨hk.ne, hpar.symm, hd.chain⟩
    | false => simp only [Bool.false_eq_true, if_false]; exact hd.chain
  · cases e.isDir with
    | true => simp only [if_true, List.map_cons]; exact List.nodup_cons.2 ⟨hns, hd.snodup⟩
    | false => simp only [Bool.false_eq_true, if_false]; exact hd.snodup

theorem map_push (e : Entry) (stk : List Entry) :
    (if e.isDir then e :: stk else stk).map Entry.path =
      (if e.isDir then e.path :: stk.map Entry.path else stk.map Entry.path) := by
  cases e.isDir <;> simp

theorem step_new {fs0 : Fs.St} {done stk rest : List Entry} {e : Entry} (s : Extract.St)
    (c : Reader.HObj) (hi : CoreInv fs0 done stk (e :: rest) s) (ha : Access fs0)
    (hpol : s.rd.policy = .endOfDir) (hdef : s.rd.deferred = [])
    (hstack : StackRel s.rd.dirStack stk)
    (hty : s.rd.currType = .normal) (hcur : s.rd.curr = some c) (hh : HdrOf e c.h)
    (hin : ∀ d tl, stk = d :: tl → d.path <+: e.dirPart)
    (hdec : ∀ p data perms mtime, e = .file p data perms mtime →
      (Reader.openDecoder s.rd).1 = true ∧ (Reader.extract s.rd true).1 = (true, data)) :
    LoopInv fs0 (done ++ [e]) (if e.isDir then e :: stk else stk) rest
      (extractArchivedFile s c.h) := by
  -- what well-formedness says about `e`
  have hpop : popStk (stk.map Entry.path) e.dirPart = stk.map Entry.path := by
    cases stk with
    | nil => rfl
    | cons d tl => exact popStk_in _ _ _ (hin d tl rfl)
  have hwf := hi.wf
  simp only [WF, hpop] at hwf
  obtain ⟨hk, hnew, hpar, hwf'⟩ := hwf
  have hfn : fileFullPath c.h s.opts = fullOf e := fullPath_of hh hk s.opts hi.opts.xp hi.opts.up
  have pf := pathFacts_of hk
  have hcwd : s.fs.cwd = fs0.cwd := hi.fs.params.cwd
  have hw := walk_of_inv hi.fs hi.ok ha e.path (pre_mem_of_parent hi.ok.chain e.path hpar)
  have hT : Target s.fs (fullOf e) e.path :=
    ⟨pf.rel, pf.comps, hk.ne, names_good hk.names, hk.depth, by rw [hcwd]; exact hw⟩
  have hnew' : ∀ e' ∈ done, e'.path ≠ e.path := fun e' he' h => hnew (List.mem_map.2 ⟨e', he', h⟩)
  have hnone : Fs.lookup s.fs (s.fs.cwd ++ e.path) = none := by
    rw [hcwd]; exact hi.fs.none e.path hk.ne hnew'
  obtain ⟨hmod, hparent⟩ := parent_of_inv hi.fs hi.ok ha e.path hk.ne hpar
  rw [← hcwd] at hmod
  -- `extract_archived_file` gets as far as `lha_reader_extract`
  have hex : Fs.existsKind s.fs (fileFullPath c.h s.opts) = .none := by
    rw [hfn]; exact existsKind_none hT hnone
  have hparents : parentsOf s (fileFullPath c.h s.opts) = (true, s.fs) := by
    have : parentsOf s (fileFullPath c.h s.opts) = makeParentDirectories s.fs (fileFullPath c.h s.opts) := by
      unfold parentsOf; simp [hty]
    rw [this, hfn]
    exact makeParents_noop s.fs _ e.path pf.split pf.trel (names_good hk.names) hk.depth
      (by rw [hcwd]; exact hw)
  have hrun := eaf_run s c.h hi.opts.up (Or.inr hex) hparents
  rw [hfn] at hrun
  obtain ⟨r1, rk, rstack, rc⟩ := entry_created s.rd s.fs (fullOf e) c e hty hcur hpol hh hk hT
    hnone hmod hdec
  rw [hcwd, hi.fs.params.now, hi.fs.params.umask] at rc
  rw [hrun]
  have hns : e.path ∉ stk.map Entry.path := fun h => hnew (stk_paths_seen hi.ok _ h)
  refine ⟨⟨hi.aborted, ?_, hi.opts, ?_, doneOk_push hi.ok hk hnew hpar, ?_⟩, ?_⟩
  rotate_left 3
  · show RdInv (readerExtract s.rd s.fs _).2.1 _ rest
    refine ⟨rk.policy.trans hpol, rk.deferred.trans hdef, ?_,
      Or.inr (Or.inl (rk.currType.trans hty)), ?_⟩
    · rw [rstack]
      cases e.isDir with
      | true => exact ⟨hh, hstack⟩
      | false => exact hstack
    · intro h
      rw [rk.currType, hty] at h
      cases h
  · show (s.result && _) = true
    rw [hi.result, r1]; rfl
  · show FsInv fs0 (done ++ [e]) _ (readerExtract s.rd s.fs _).2.2
    rw [map_push]
    apply hi.fs.create hk.ne (fun e' he' => (hi.ok.ok e' he').ne) hnew'
    · cases hdir : e.isDir with
      | true => simp only [if_true, List.mem_cons, true_or]; exact rc
      | false =>
        simp only [Bool.false_eq_true, if_false, hns]
        rw [← opened_eq_final e hdir]; exact rc
    · intro p hp
      cases e.isDir with
      | true => simp [hp]
      | false => simp
    · exact hparent
  · show WF _ ((done ++ [e]).map Entry.path) rest
    rw [map_push, List.map_append, List.map_singleton]
    exact hwf'

end LhasaV.ExtractTree
