import LhasaV.Lemmas.ExtractTreeOw3
/-!
# C06, overwriting (part 4): the loop invariant; closing a directory; the place of a new entry

`CoreInvO fs₀ done stk seen rest pol ls s`: `done` are the entries written so far, `stk` the open
directories, `seen` the paths of ALL entries handled so far (written or kept), `rest` the entries
to come; `pol` is the overwrite policy now in force and `ls` the answer lines not yet read.
-/
namespace LhasaV.ExtractTree
open LhasaV LhasaV.Header LhasaV.Extract LhasaV.GlobFs LhasaV.Contain

/-- what stands at the place of an entry before the run: nothing, or — for a regular file member
at the top level of the extraction directory — a regular file -/
def PreAt (fs0 : Fs.St) (e : Entry) : Prop :=
  Fs.lookup fs0 (fs0.cwd ++ e.path) = none ∨
  ∃ p data perms mtime d0 m0 t0, e = .file p data perms mtime ∧ p.length = 1 ∧
    Fs.lookup fs0 (fs0.cwd ++ e.path) = some (.file d0 m0 t0)

/-- does something stand at this place before the run? -/
def exAt (fs0 : Fs.St) (p : Fs.Path) : Bool := (Fs.lookup fs0 (fs0.cwd ++ p)).isSome

structure CoreInvO (fs0 : Fs.St) (done stk : List Entry) (seen : List Fs.Path) (rest : List Entry)
    (pol : Overwrite) (ls : List Bytes) (s : Extract.St) : Prop where
  aborted : s.aborted = false
  result : s.result = true
  opts : OptsOk s.opts
  policy : s.opts.overwrite = pol
  ans : AnsInv pol s.answers ls
  fs : FsInvO fs0 done (stk.map Entry.path) s.fs
  ok : DoneOk done stk
  sub : ∀ e ∈ done, e.path ∈ seen
  wf : WF (stk.map Entry.path) seen rest

structure LoopInvO (fs0 : Fs.St) (done stk : List Entry) (seen : List Fs.Path) (rest : List Entry)
    (pol : Overwrite) (ls : List Bytes) (s : Extract.St) : Prop where
  core : CoreInvO fs0 done stk seen rest pol ls s
  rd : RdInv s.rd stk rest

theorem CoreInvO.with_rd {fs0 : Fs.St} {done stk rest : List Entry} {seen : List Fs.Path}
    {pol : Overwrite} {ls : List Bytes} {s : Extract.St}
    (h : CoreInvO fs0 done stk seen rest pol ls s) (rd : Reader.St) :
    CoreInvO fs0 done stk seen rest pol ls { s with rd := rd } :=
  ⟨h.aborted, h.result, h.opts, h.policy, h.ans, h.fs, h.ok, h.sub, h.wf⟩

/-- the state after `confirm_file_overwrite` changed the policy and consumed input -/
def answered (s : Extract.St) (pol : Overwrite) (a : Bytes) : Extract.St :=
  { s with opts := { s.opts with overwrite := pol }, answers := a }

theorem CoreInvO.answered {fs0 : Fs.St} {done stk rest : List Entry} {seen : List Fs.Path}
    {pol : Overwrite} {ls : List Bytes} {s : Extract.St}
    (h : CoreInvO fs0 done stk seen rest pol ls s) (pol' : Overwrite) (a' : Bytes) (ls' : List Bytes)
    (ha : AnsInv pol' a' ls') : CoreInvO fs0 done stk seen rest pol' ls' (answered s pol' a') :=
  ⟨h.aborted, h.result, ⟨h.opts.xp, h.opts.up, h.opts.nf⟩, rfl, ha, h.fs, h.ok, h.sub, h.wf⟩

/-! ## closing the innermost open directory -/

theorem step_close_o {fs0 : Fs.St} {done stk rest : List Entry} {seen : List Fs.Path}
    {pol : Overwrite} {ls : List Bytes} {d : Entry} (s : Extract.St) (top : Reader.HObj)
    (hi : CoreInvO fs0 done (d :: stk) seen rest pol ls s) (ha : Access fs0)
    (hpol : s.rd.policy = .endOfDir) (hdef : s.rd.deferred = [])
    (hty : s.rd.currType = .fakeDir) (hcur : s.rd.curr = some top)
    (hh : HdrOf d top.h) (hstack : StackRel s.rd.dirStack stk)
    (hpend : Pending s.rd.basic.curr rest)
    (hout : ∀ e tl, rest = e :: tl → ¬ d.path <+: e.dirPart) :
    LoopInvO fs0 done stk seen rest pol ls (extractArchivedFile s top.h) := by
  obtain ⟨hdd, hdir⟩ := hi.ok.sub d (by simp)
  have hk : EntryOk d := hi.ok.ok d hdd
  have hfn : fileFullPath top.h s.opts = fullOf d := fullPath_of hh hk s.opts hi.opts.xp hi.opts.up
  have pf := pathFacts_of hk
  have hchain := hi.ok.chain
  simp only [List.map_cons] at hchain
  have hpre : ∀ pre, pre ≠ [] → pre <+: d.path → pre ≠ d.path →
      pre ∈ (d :: stk).map Entry.path := by
    intro pre h0 hp hne
    have := pre_mem_of_parent hchain.2.2 d.path hchain.2.1.symm pre h0 hp hne
    simp [this]
  have hw := walk_of_invO hi.fs hi.ok ha d.path hpre
  have hcwd : s.fs.cwd = fs0.cwd := hi.fs.params.cwd
  have hT : Target s.fs (fullOf d) d.path :=
    ⟨pf.rel, pf.comps, hk.ne, names_good hk.names, hk.depth, by rw [hcwd]; exact hw⟩
  have hl := hi.fs.ents d hdd
  rw [if_pos (by simp)] at hl
  cases d with
  | file _ _ _ _ => cases hdir
  | link _ _ => cases hdir
  | dir p perms mtime =>
  obtain ⟨hh1, hh2, hm, hs, hpm, htm⟩ := hh
  have hl' : Fs.lookup s.fs (s.fs.cwd ++ p) = some (.dir (openMode fs0.umask perms) fs0.now) := by
    rw [hcwd]; exact hl
  obtain ⟨e1, e2, e3⟩ := extract_fake_effect s.rd s.fs (fullOf (.dir p perms mtime)) p top hty hcur hT _ _ hl'
  rw [final_dir_mode top.h perms fs0.umask hpm, htm, hcwd] at e3
  have hrun := eaf_run s top.h hi.opts.up
    (Or.inl (isDirEntry_of (e := .dir p perms mtime) ⟨hh1, hh2, hm, hs, hpm, htm⟩ rfl))
    (by unfold parentsOf; simp [hty])
  rw [hfn] at hrun
  rw [hrun]
  have hts : p ∉ stk.map Entry.path := by
    have := hi.ok.snodup
    simp only [List.map_cons, List.nodup_cons] at this
    exact this.1
  refine ⟨⟨hi.aborted, ?_, hi.opts, hi.policy, hi.ans, ?_, ?_, hi.sub, ?_⟩, ?_⟩
  rotate_left 4
  · show RdInv (readerExtract s.rd s.fs _).2.1 stk rest
    rw [e2]
    exact ⟨hpol, hdef, hstack, Or.inr (Or.inr hty), fun _ => hpend⟩
  · show (s.result && _) = true
    rw [hi.result, e1]; rfl
  · show FsInvO fs0 done (stk.map Entry.path) (readerExtract s.rd s.fs _).2.2
    exact hi.fs.close hdd rfl hk.ne hts
      (fun e' he' hp => eq_of_path_eq done hi.ok.nodup e' he' _ hdd hp) e3
  · refine ⟨hi.ok.ok, hi.ok.nodup, fun x hx => hi.ok.sub x (List.mem_cons_of_mem _ hx), hchain.2.2, ?_⟩
    have := hi.ok.snodup
    simp only [List.map_cons, List.nodup_cons] at this
    exact this.2
  · have hwf := hi.wf
    cases rest with
    | nil => trivial
    | cons e tl =>
      simp only [List.map_cons] at hwf
      exact (WF_pop p _ _ e tl (hout e tl rfl)).1 hwf

/-! ## the place of the next stream entry -/

/-- what the invariant says about the next stream entry `e` and its place -/
structure NewFacts (fs0 : Fs.St) (done stk : List Entry) (seen : List Fs.Path) (e : Entry)
    (rest : List Entry) (fs : Fs.St) : Prop where
  hk : EntryOk e
  hnew : e.path ∉ seen
  hpar : (stk.map Entry.path).head?.getD [] = e.path.dropLast
  wf' : WF (if e.isDir then e.path :: stk.map Entry.path else stk.map Entry.path) (seen ++ [e.path]) rest
  target : Target fs (fullOf e) e.path
  same : Fs.lookup fs (fs.cwd ++ e.path) = Fs.lookup fs0 (fs0.cwd ++ e.path)
  hmod : Fs.canModify fs (fs.cwd ++ e.path).dropLast = true
  parent : e.path.dropLast ≠ [] → done ≠ [] ∧
    ∃ m, Fs.lookup fs (fs0.cwd ++ e.path.dropLast) = some (.dir m fs0.now)
  parents : makeParentDirectories fs (fullOf e) = (true, fs)

theorem new_facts {fs0 : Fs.St} {done stk rest : List Entry} {seen : List Fs.Path}
    {pol : Overwrite} {ls : List Bytes} {e : Entry} {s : Extract.St}
    (hi : CoreInvO fs0 done stk seen (e :: rest) pol ls s) (ha : Access fs0)
    (hin : ∀ d tl, stk = d :: tl → d.path <+: e.dirPart) :
    NewFacts fs0 done stk seen e rest s.fs := by
  have hpop : popStk (stk.map Entry.path) e.dirPart = stk.map Entry.path := by
    cases stk with
    | nil => rfl
    | cons d tl => exact popStk_in _ _ _ (hin d tl rfl)
  have hwf := hi.wf
  simp only [WF, hpop] at hwf
  obtain ⟨hk, hnew, hpar, hwf'⟩ := hwf
  have pf := pathFacts_of hk
  have hcwd : s.fs.cwd = fs0.cwd := hi.fs.params.cwd
  have hw := walk_of_invO hi.fs hi.ok ha e.path (pre_mem_of_parent hi.ok.chain e.path hpar)
  have hT : Target s.fs (fullOf e) e.path :=
    ⟨pf.rel, pf.comps, hk.ne, names_good hk.names, hk.depth, by rw [hcwd]; exact hw⟩
  have hnew' : ∀ e' ∈ done, e'.path ≠ e.path := fun e' he' h => hnew (h ▸ hi.sub e' he')
  obtain ⟨hmod, hparent⟩ := parent_of_invO hi.fs hi.ok ha e.path hk.ne hpar
  refine ⟨hk, hnew, hpar, hwf', hT, ?_, ?_, hparent, ?_⟩
  · rw [hcwd]; exact hi.fs.other e.path hk.ne hnew'
  · rw [hcwd]; exact hmod
  · exact makeParents_noop s.fs _ e.path pf.split pf.trel (names_good hk.names) hk.depth
      (by rw [hcwd]; exact hw)

/-- an entry asked about is a top-level file: no directory is open when it arrives -/
theorem stk_nil_of_top {stk : List Entry} {done : List Entry} {e : Entry} (hok : DoneOk done stk)
    (hin : ∀ d tl, stk = d :: tl → d.path <+: e.dirPart) (htop : e.dirPart = []) : stk = [] := by
  cases stk with
  | nil => rfl
  | cons d tl =>
    have := hin d tl rfl
    rw [htop] at this
    have hne := (hok.ok d (hok.sub d (by simp)).1).ne
    exact absurd (List.prefix_nil.1 this) hne

/-! ## the overwrite check of `extract_archived_file` -/

theorem isDirEntry_file {h : Hdr} (hm : h.method ≠ lhd) : isDirEntry h = false := by
  unfold isDirEntry
  have : (h.method == lhd) = false := by simpa using hm
  rw [this]; rfl

/-- the check at a place that holds a regular file: `confirm_file_overwrite` decides -/
theorem preOf_exists (s : Extract.St) (h : Hdr) (hm : h.method ≠ lhd) (hs : h.symlinkTarget = none)
    (hex : Fs.existsKind s.fs (fileFullPath h s.opts) = .file) :
    preOf s h =
      match confirmOverwrite 64 s.opts.overwrite s.answers with
      | none => none
      | some (yes, pol, rest) => some (!yes, answered s pol rest) := by
  unfold preOf
  rw [isDirEntry_file hm, hs, hex]
  rfl

/-- `extract_archived_file` once the check said "go on" (state `s'`) and the parents exist -/
def wrote (s' : Extract.St) (fn : Bytes) : Extract.St :=
  { s' with rd := (readerExtract s'.rd s'.fs fn).2.1, fs := (readerExtract s'.rd s'.fs fn).2.2,
            result := s'.result && (readerExtract s'.rd s'.fs fn).1,
            out := (if (readerExtract s'.rd s'.fs fn).1 then "ok" else "failed") :: s'.out }

theorem eaf_wrote (s s' : Extract.St) (h : Hdr) (hp : preOf s h = some (false, s'))
    (hu : s'.opts.usePath = true)
    (hpar : parentsOf s' (fileFullPath h s.opts) = (true, s'.fs)) :
    extractArchivedFile s h = wrote s' (fileFullPath h s.opts) := by
  rw [eaf_eq, hp]
  simp only [hu, Bool.not_true, Bool.false_eq_true, false_and, if_false, hpar]
  rfl

theorem eaf_kept (s s' : Extract.St) (h : Hdr) (hp : preOf s h = some (true, s')) :
    extractArchivedFile s h = { s' with out := "skipped" :: s'.out } := by
  rw [eaf_eq, hp]

theorem eaf_abort (s : Extract.St) (h : Hdr) (hp : preOf s h = none) :
    extractArchivedFile s h = { s with aborted := true, result := false, out := "abort" :: s.out } := by
  rw [eaf_eq, hp]

end LhasaV.ExtractTree
